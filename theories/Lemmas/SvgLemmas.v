(* Property C10 (SVG serializer): proofs about Model/Svg.v (model of segno.writers.write_svg) and Ref/SvgReader.v
   (independent reader for the emitted SVG subset).

   Main results (all closed under the global context), integer scale >= 1:
   * parse_path_data_roundtrip : the emitted relative path data, interpreted by the reader, is the list of absolute lines
   * zrows_cells / two_color_lines_z : matrix_to_lines covers exactly the dark modules (own integer formulation)
   * escape_spec, quoteattr_spec : characterisation of xml.sax.saxutils.escape / quoteattr
   * bg_fixup_result : the textual fix-up (str.replace / re.sub) of the background path
   * plain dark / light colour maps: svg_read_two, svg_dark_cells, svg_page, svg_escape
   * per-type (multi-colour) path: verbose_rows_cells (run-length coding), coords0_spec (per-colour accumulation),
     write_svg_multi, svg_colourful_cells, colourful_cell_in_page
   * every colour configuration: svg_title_escaped, svg_desc_escaped *)
From Coq Require Import String Ascii.
From Coq Require Import ZArith List Bool Lia QArith.
From Coq Require Import Permutation.
From Segno Require Import Base.PyLite Base.PyCase Ref.IsoData Model.Iter Model.Color Model.Svg Ref.SvgReader.
From Segno Require Lemmas.IterLemmas.
Import ListNotations.
Open Scope Z_scope.

(* ================= Part A: decimal printing versus the reader's number automaton ================= *)
Definition numd (n : numst) (c : Z) : numst := num_digit n (c - 48).

Lemma dec_digits_spec : forall f n, 0 <= n < 2 ^ Z.of_nat (S f) ->
  Forall (fun c => is_digit c = true) (dec_digits (S f) n) /\ dec_digits (S f) n <> [] /\
  forall st neg, (forall d, num_digit st d = NInt neg d) -> fold_left numd (dec_digits (S f) n) st = NInt neg n.
Proof.
  induction f as [|f IH]; intros n Hn.
  - assert (Hlt : n <? 10 = true) by (apply Z.ltb_lt; change (2 ^ Z.of_nat 1) with 2 in Hn; lia).
    cbn [dec_digits]. rewrite Hlt. split; [|split].
    + constructor; [|constructor]. unfold is_digit. lia.
    + discriminate.
    + intros st neg Hst. cbn [fold_left]. unfold numd. rewrite Hst. f_equal. lia.
  - change (dec_digits (S (S f)) n) with (if n <? 10 then [48 + n] else dec_digits (S f) (n / 10) ++ [48 + n mod 10]).
    destruct (n <? 10) eqn:Hlt.
    + split; [|split].
      * constructor; [|constructor]. unfold is_digit. lia.
      * discriminate.
      * intros st neg Hst. cbn [fold_left]. unfold numd. rewrite Hst. f_equal. lia.
    + assert (Hq : 0 <= n / 10 < 2 ^ Z.of_nat (S f)).
      { split; [apply Z.div_pos; lia|].
        rewrite Nat2Z.inj_succ, Z.pow_succ_r in Hn by lia.
        apply Z.div_lt_upper_bound; lia. }
      destruct (IH _ Hq) as (Hd & Hne & Hf).
      split; [|split].
      * apply Forall_app. split; [exact Hd|]. constructor; [|constructor].
        unfold is_digit. pose proof (Z.mod_pos_bound n 10). lia.
      * intro H. apply app_eq_nil in H. destruct H as [_ H]. discriminate.
      * intros st neg Hst. rewrite fold_left_app, (Hf st neg Hst). cbn [fold_left]. unfold numd. cbn [num_digit].
        f_equal. pose proof (Z.div_mod n 10). lia.
Qed.

Lemma dec_nat_spec n : 0 <= n ->
  Forall (fun c => is_digit c = true) (dec_nat n) /\ dec_nat n <> [] /\
  forall st neg, (forall d, num_digit st d = NInt neg d) -> fold_left numd (dec_nat n) st = NInt neg n.
Proof.
  intros Hn. unfold dec_nat. apply dec_digits_spec. split; [lia|].
  destruct (Z.eq_dec n 0) as [->|Hne]; [cbn; lia|].
  rewrite Nat2Z.inj_succ, Z2Nat.id by apply Z.log2_nonneg.
  apply Z.log2_spec. lia.
Qed.

(* every character a printed number may contain *)
Definition numch (c : Z) : bool := is_digit c || (c =? 45) || (c =? 46).
Lemma dec_nat_numch n : 0 <= n -> Forall (fun c => is_digit c = true) (dec_nat n).
Proof. intros H. apply dec_nat_spec; auto. Qed.
Lemma Forall_digit_numch l : Forall (fun c => is_digit c = true) l -> Forall (fun c => numch c = true) l.
Proof. apply Forall_impl. intros c H. unfold numch. rewrite H. reflexivity. Qed.
Lemma dec_numch z : Forall (fun c => numch c = true) (dec z).
Proof.
  unfold dec. destruct (z <? 0) eqn:Hz.
  - constructor; [reflexivity|]. apply Forall_digit_numch, dec_nat_numch. lia.
  - apply Forall_digit_numch, dec_nat_numch. lia.
Qed.

(* ---- the path-data automaton on printed numbers ---- *)
Lemma dstep_digits : forall ds s, Forall (fun c => is_digit c = true) ds ->
  fold_left dstep ds (Some s) = Some (ds_set_num s (fold_left numd ds (ds_num s))).
Proof.
  induction ds as [|c ds IH]; intros s Hd.
  - cbn. destruct s; reflexivity.
  - inversion Hd as [|? ? Hc Hds]; subst. cbn [fold_left]. unfold dstep at 2. rewrite Hc.
    rewrite IH by exact Hds. cbn [ds_set_num ds_num ds_cmd ds_args ds_pos ds_start ds_segs]. reflexivity.
Qed.

Definition ready (s : dstate) : Prop := ds_num s = NNone.

(* after reading the characters of `dec z` from a state with no pending number: the pending number is z *)
Lemma dstep_dec z s : ds_num s = NNone ->
  exists n, fold_left dstep (dec z) (Some s) = Some (ds_set_num s n) /\ num_value n = Some (Some (2 * z)).
Proof.
  intros Hr. unfold dec. destruct (z <? 0) eqn:Hz.
  - destruct (dec_nat_spec (- z)) as (Hd & _ & Hf); [lia|].
    cbn [fold_left]. unfold dstep at 2.
    change (is_digit 45) with false. change (45 =? 46) with false. change (45 =? 45) with true. cbv iota.
    unfold ds_flush. rewrite Hr. cbn [num_value].
    rewrite dstep_digits by exact Hd. cbn [ds_set_num ds_num ds_cmd ds_args ds_pos ds_start ds_segs].
    rewrite (Hf NSign true) by reflexivity.
    eexists. split; [reflexivity|]. cbn [num_value]. do 2 f_equal. lia.
  - destruct (dec_nat_spec z) as (Hd & _ & Hf); [lia|].
    rewrite dstep_digits by exact Hd. rewrite Hr, (Hf NNone false) by reflexivity.
    eexists. split; [reflexivity|]. reflexivity.
Qed.

Lemma Z_even_half h : Z.even h = true -> 2 * (h / 2) = h.
Proof.
  intros H. apply Zeven_bool_iff in H. destruct (Zeven_ex h H) as [k ->].
  replace (2 * k) with (k * 2) by lia. rewrite Z.div_mul by lia. lia.
Qed.
Lemma Z_odd_half h : Z.even h = false -> 0 <= h -> 2 * (h / 2) + 1 = h.
Proof.
  intros H Hh. rewrite <- Z.negb_odd in H. apply negb_false_iff in H. apply Zodd_bool_iff in H.
  destruct (Zodd_ex h H) as [k ->]. replace (2 * k + 1) with (1 + k * 2) by lia. rewrite Z.div_add by lia.
  change (1 / 2) with 0. lia.
Qed.

Lemma dstep_print_half h s : ds_num s = NNone ->
  exists n, fold_left dstep (print_half h) (Some s) = Some (ds_set_num s n) /\ num_value n = Some (Some h).
Proof.
  intros Hr. unfold print_half. destruct (Z.even h) eqn:He.
  - destruct (dstep_dec (h / 2) s Hr) as (n & Hn & Hv). exists n. split; [exact Hn|].
    rewrite Hv, Z_even_half by exact He. reflexivity.
  - assert (Ha : 0 <= Z.abs h / 2) by (apply Z.div_pos; lia).
    destruct (dec_nat_spec (Z.abs h / 2) Ha) as (Hd & _ & Hf).
    assert (Hea : Z.even (Z.abs h) = false).
    { destruct (Z.abs_eq_or_opp h) as [Hq|Hq]; rewrite Hq; [|rewrite Z.even_opp]; exact He. }
    pose proof (Z_odd_half (Z.abs h) Hea (Z.abs_nonneg h)) as Hodd.
    change (lit ".5") with [46; 53].
    destruct (h <? 0) eqn:Hz.
    + cbn [app]. cbn [fold_left]. unfold dstep at 2.
      change (is_digit 45) with false. change (45 =? 46) with false. change (45 =? 45) with true. cbv iota.
      unfold ds_flush. rewrite Hr. cbn [num_value].
      rewrite fold_left_app, dstep_digits by exact Hd.
      cbn [ds_set_num ds_num ds_cmd ds_args ds_pos ds_start ds_segs].
      rewrite (Hf NSign true) by reflexivity.
      cbn [fold_left]. unfold dstep.
      change (is_digit 46) with false. change (46 =? 46) with true. change (is_digit 53) with true. cbv iota.
      cbn [ds_set_num ds_num ds_cmd ds_args ds_pos ds_start ds_segs num_dot num_digit].
      change (53 - 48 =? 5) with true. cbv iota.
      eexists. split; [reflexivity|]. cbn [num_value]. do 2 f_equal. lia.
    + cbn [app]. rewrite fold_left_app, dstep_digits by exact Hd. rewrite Hr, (Hf NNone false) by reflexivity.
      cbn [fold_left]. unfold dstep.
      change (is_digit 46) with false. change (46 =? 46) with true. change (is_digit 53) with true. cbv iota.
      cbn [ds_set_num ds_num ds_cmd ds_args ds_pos ds_start ds_segs num_dot num_digit].
      change (53 - 48 =? 5) with true. cbv iota.
      eexists. split; [reflexivity|]. cbn [num_value]. do 2 f_equal. lia.
Qed.

(* ================= Part B: the emitted relative path, read back, is the list of absolute lines ================= *)
Fixpoint rel_coords (segs : list seg) (x y : Z) : list coord :=
  match segs with
  | [] => []
  | (x1, x2, y1) :: r => (x1 - x, y1 - y, x2 - x1) :: rel_coords r x2 y1
  end.
Definition abs_seg (s : seg) : lseg := let '(x1, x2, y) := s in (2 * x1, y, 2 * x2, y).

Definition mkds (c : Z) (args : list Z) (n : numst) (pos start : Z * Z) (segs : list lseg) : dstate :=
  {| ds_cmd := c; ds_args := args; ds_num := n; ds_pos := pos; ds_start := start; ds_segs := segs |}.

Lemma dstep_cmd s s0 c ar :
  is_digit c = false -> (c =? 46) = false -> (c =? 45) = false -> is_ws c || (c =? 44) = false ->
  cmd_arity c = Some (S ar) -> ds_flush s = Some s0 -> ds_args s0 = [] ->
  (ds_cmd s0 =? 0) && negb ((c =? 77) || (c =? 109)) = false ->
  dstep (Some s) c = Some (mkds c [] NNone (ds_pos s0) (ds_start s0) (ds_segs s0)).
Proof.
  intros H1 H2 H3 H4 H5 H6 H7 H8. unfold dstep. rewrite H1, H2, H3, H4, H5, H6, H7, H8. reflexivity.
Qed.
Lemma dstep_space s : dstep (Some s) 32 = ds_flush s.
Proof. reflexivity. Qed.

Lemma path_item first x yh l rest s s0 px py :
  ds_flush s = Some s0 -> ds_args s0 = [] -> (first = false -> (ds_cmd s0 =? 0) = false) -> ds_pos s0 = (px, py) ->
  let X := if first then 2 * x else px + 2 * x in
  let Y := if first then yh else py + yh in
  exists s', fold_left dstep ([if first then 77 else 109] ++ dec x ++ [32] ++ print_half yh ++ [104] ++ dec l ++ rest) (Some s)
             = fold_left dstep rest (Some s')
          /\ ds_flush s' = Some (mkds 104 [] NNone (X + 2 * l, Y) (X, Y) ((X, Y, X + 2 * l, Y) :: ds_segs s0)).
Proof.
  intros Hfl Hargs Hcmd Hpos X Y.
  set (c := if first then 77 else 109).
  assert (Hc : c = 77 \/ c = 109) by (unfold c; destruct first; auto).
  cbn [app fold_left].
  assert (Hstep1 : dstep (Some s) c = Some (mkds c [] NNone (ds_pos s0) (ds_start s0) (ds_segs s0))).
  { apply dstep_cmd with (ar := 1%nat); try (destruct Hc as [-> | ->]; reflexivity); auto.
    unfold c. destruct first; [apply andb_false_r|]. rewrite Hcmd by reflexivity. reflexivity. }
  rewrite Hstep1.
  set (s1 := mkds c [] NNone (ds_pos s0) (ds_start s0) (ds_segs s0)).
  destruct (dstep_dec x s1 eq_refl) as (n1 & Hn1 & Hv1).
  rewrite fold_left_app, Hn1. cbn [app fold_left]. rewrite dstep_space.
  assert (Hfl2 : ds_flush (ds_set_num s1 n1) = Some (mkds c [2 * x] NNone (ds_pos s0) (ds_start s0) (ds_segs s0))).
  { unfold ds_flush. cbn [ds_set_num s1 mkds ds_num ds_cmd ds_args ds_pos ds_start ds_segs]. rewrite Hv1.
    destruct Hc as [-> | ->]; reflexivity. }
  rewrite Hfl2.
  set (s2 := mkds c [2 * x] NNone (ds_pos s0) (ds_start s0) (ds_segs s0)).
  destruct (dstep_print_half yh s2 eq_refl) as (n2 & Hn2 & Hv2).
  rewrite fold_left_app, Hn2. cbn [app fold_left].
  assert (Hfl3 : ds_flush (ds_set_num s2 n2) = Some (mkds (if first then 76 else 108) [] NNone (X, Y) (X, Y) (ds_segs s0))).
  { unfold ds_flush. cbn [ds_set_num s2 mkds ds_num ds_cmd ds_args ds_pos ds_start ds_segs]. rewrite Hv2.
    unfold c, X, Y. destruct first.
    - change (cmd_arity 77) with (Some 2%nat). cbv iota. cbn [length Nat.eqb rev app]. unfold ds_exec.
      cbn [ds_set_num s2 mkds ds_num ds_cmd ds_args ds_pos ds_start ds_segs]. rewrite Hpos. reflexivity.
    - change (cmd_arity 109) with (Some 2%nat). cbv iota. cbn [length Nat.eqb rev app]. unfold ds_exec.
      cbn [ds_set_num s2 mkds ds_num ds_cmd ds_args ds_pos ds_start ds_segs]. rewrite Hpos. reflexivity. }
  assert (Hstep3 : dstep (Some (ds_set_num s2 n2)) 104 = Some (mkds 104 [] NNone (X, Y) (X, Y) (ds_segs s0))).
  { rewrite dstep_cmd with (ar := 0%nat) (s0 := mkds (if first then 76 else 108) [] NNone (X, Y) (X, Y) (ds_segs s0));
      try reflexivity; auto. destruct first; reflexivity. }
  rewrite Hstep3.
  set (s4 := mkds 104 [] NNone (X, Y) (X, Y) (ds_segs s0)).
  destruct (dstep_dec l s4 eq_refl) as (n3 & Hn3 & Hv3).
  rewrite fold_left_app, Hn3.
  exists (ds_set_num s4 n3). split; [reflexivity|].
  unfold ds_flush. cbn [ds_set_num s4 mkds ds_num ds_cmd ds_args ds_pos ds_start ds_segs]. rewrite Hv3.
  reflexivity.
Qed.

Lemma path_data_run : forall segs first s s0 x y,
  ds_flush s = Some s0 -> ds_args s0 = [] -> (first = false -> (ds_cmd s0 =? 0) = false) ->
  ds_pos s0 = (2 * x, y) -> (first = true -> x = 0 /\ y = 0) ->
  exists s' s0', fold_left dstep (path_data first (rel_coords segs x y)) (Some s) = Some s'
              /\ ds_flush s' = Some s0' /\ ds_args s0' = []
              /\ ds_segs s0' = rev (map abs_seg segs) ++ ds_segs s0.
Proof.
  induction segs as [|[[x1 x2] y1] r IH]; intros first s s0 x y Hfl Hargs Hcmd Hpos Hfirst.
  - exists s, s0. cbn. auto.
  - cbn [rel_coords path_data].
    destruct (path_item first (x1 - x) (y1 - y) (x2 - x1) (path_data false (rel_coords r x2 y1)) s s0 (2 * x) y Hfl Hargs Hcmd Hpos)
      as (s1 & Hrun & Hfl1).
    repeat rewrite <- app_assoc in Hrun. repeat rewrite <- app_assoc. rewrite Hrun.
    set (X := if first then 2 * (x1 - x) else 2 * x + 2 * (x1 - x)) in *.
    set (Y := if first then y1 - y else y + (y1 - y)) in *.
    assert (HX : X = 2 * x1) by (unfold X; destruct first; [destruct (Hfirst eq_refl)|]; lia).
    assert (HY : Y = y1) by (unfold Y; destruct first; [destruct (Hfirst eq_refl)|]; lia).
    destruct (IH false s1 _ x2 y1 Hfl1) as (s' & s0' & Hr & Hf & Ha & Hs).
    + reflexivity.
    + intros _. reflexivity.
    + cbn [mkds ds_pos]. f_equal; lia.
    + discriminate.
    + exists s', s0'. split; [exact Hr|]. split; [exact Hf|]. split; [exact Ha|].
      rewrite Hs. cbn [mkds ds_segs map rev abs_seg]. rewrite <- app_assoc. cbn [app].
      do 2 f_equal. rewrite HX, HY. replace (2 * x1 + 2 * (x2 - x1)) with (2 * x2) by lia. reflexivity.
Qed.

Theorem parse_path_data_roundtrip segs :
  parse_path_data (path_data true (rel_coords segs 0 0)) = Some (map abs_seg segs).
Proof.
  assert (H1 : true = false -> (ds_cmd ds_init =? 0) = false) by discriminate.
  assert (H2 : true = true -> 0 = 0 /\ 0 = 0) by auto.
  destruct (path_data_run segs true ds_init ds_init 0 0 eq_refl eq_refl H1 eq_refl H2) as (s' & s0' & Hr & Hf & Ha & Hs).
  unfold parse_path_data. rewrite Hr, Hf, Ha, Hs. cbn [ds_init ds_segs]. rewrite app_nil_r, rev_involutive. reflexivity.
Qed.

(* closing the background rectangle: M0 0h{m}v{m}h-{m}z *)
Lemma parse_bg_path m : 0 <= m ->
  parse_path_data ([77; 48; 32; 48; 104] ++ dec m ++ [118] ++ dec m ++ [104; 45] ++ dec m ++ [122])
  = Some [(0, 0, 2 * m, 0); (2 * m, 0, 2 * m, 2 * m); (2 * m, 2 * m, 0, 2 * m); (0, 2 * m, 0, 0)].
Proof.
  intros Hm. unfold parse_path_data.
  assert (Hdec : dec m = dec_nat m) by (unfold dec; destruct (m <? 0) eqn:E; [lia|reflexivity]).
  cbn [app fold_left].
  assert (H0 : dstep (dstep (dstep (dstep (dstep (Some ds_init) 77) 48) 32) 48) 104
               = Some (mkds 104 [] NNone (0, 0) (0, 0) [])) by reflexivity.
  rewrite H0.
  set (s1 := mkds 104 [] NNone (0, 0) (0, 0) []).
  destruct (dstep_dec m s1 eq_refl) as (n1 & Hn1 & Hv1).
  rewrite fold_left_app, Hn1. cbn [app fold_left].
  assert (H2 : dstep (Some (ds_set_num s1 n1)) 118 = Some (mkds 118 [] NNone (0 + 2 * m, 0) (0, 0) [(0, 0, 0 + 2 * m, 0)])).
  { rewrite dstep_cmd with (ar := 0%nat) (s0 := mkds 104 [] NNone (0 + 2 * m, 0) (0, 0) [(0, 0, 0 + 2 * m, 0)]); try reflexivity.
    unfold ds_flush. cbn [ds_set_num s1 mkds ds_num ds_cmd ds_args ds_pos ds_start ds_segs]. rewrite Hv1. reflexivity. }
  rewrite H2.
  set (s2 := mkds 118 [] NNone (0 + 2 * m, 0) (0, 0) [(0, 0, 0 + 2 * m, 0)]).
  destruct (dstep_dec m s2 eq_refl) as (n2 & Hn2 & Hv2).
  rewrite fold_left_app, Hn2. cbn [app fold_left].
  set (segs3 := [(0 + 2 * m, 0, 0 + 2 * m, 0 + 2 * m); (0, 0, 0 + 2 * m, 0)]).
  assert (H3 : dstep (Some (ds_set_num s2 n2)) 104 = Some (mkds 104 [] NNone (0 + 2 * m, 0 + 2 * m) (0, 0) segs3)).
  { rewrite dstep_cmd with (ar := 0%nat) (s0 := mkds 118 [] NNone (0 + 2 * m, 0 + 2 * m) (0, 0) segs3); try reflexivity.
    unfold ds_flush. cbn [ds_set_num s2 mkds ds_num ds_cmd ds_args ds_pos ds_start ds_segs]. rewrite Hv2. reflexivity. }
  rewrite H3.
  set (s3 := mkds 104 [] NNone (0 + 2 * m, 0 + 2 * m) (0, 0) segs3).
  (* "-" then the digits of m *)
  assert (H4 : dstep (Some s3) 45 = Some (ds_set_num s3 NSign)) by reflexivity.
  rewrite H4.
  destruct (dec_nat_spec m Hm) as (Hd & _ & Hf).
  rewrite Hdec at 1. rewrite fold_left_app, dstep_digits by exact Hd.
  unfold s3, mkds. cbn [ds_set_num ds_num ds_cmd ds_args ds_pos ds_start ds_segs].
  rewrite (Hf NSign true) by reflexivity.
  cbn [fold_left]. unfold ds_set_num. cbn [ds_num ds_cmd ds_args ds_pos ds_start ds_segs].
  assert (H5 : dstep (Some (mkds 104 [] (NInt true m) (0 + 2 * m, 0 + 2 * m) (0, 0) segs3)) 122
               = Some (mkds 122 [] NNone (0, 0) (0, 0)
                         ((0 + 2 * m + - (2 * m), 0 + 2 * m, 0, 0)
                          :: (0 + 2 * m, 0 + 2 * m, 0 + 2 * m + - (2 * m), 0 + 2 * m) :: segs3))) by reflexivity.
  unfold mkds in H5. rewrite H5.
  cbn [ds_flush ds_num ds_cmd ds_args ds_pos ds_start ds_segs num_value rev app segs3].
  replace (0 + 2 * m + - (2 * m)) with 0 by lia. replace (0 + 2 * m) with (2 * m) by lia. reflexivity.
Qed.

(* ================= Part C: matrix_to_lines covers exactly the dark modules ================= *)
(* integer mirror of Iter.lines_row / lines_rows *)
Fixpoint zrow (row : list Z) (x1 x2 lb : Z) : list (Z * Z) * (Z * Z * Z) :=
  match row with
  | [] => ([], (x1, x2, lb))
  | bit :: r =>
      let emit := negb (lb =? bit) && (bit =? 0) in
      let x1a := if emit then x2 else x1 in
      let x1b := if bit =? 0 then x1a + 1 else x1a in
      let '(ls, st) := zrow r x1b (x2 + 1) bit in
      ((if emit then [(x1, x2)] else []) ++ ls, st)
  end.
Fixpoint zrows (rows : list (list Z)) (x yh lb : Z) : list seg :=
  match rows with
  | [] => []
  | row :: r =>
      let '(ls, (x1, x2, lb')) := zrow row x x lb in
      map (fun ab => (fst ab, snd ab, yh + 2)) ls ++ (if negb (lb' =? 0) then [(x1, x2, yh + 2)] else [])
        ++ zrows r x (yh + 2) (if negb (lb' =? 0) then 0 else lb')
  end.

Lemma Qint_succ (a : Z) : ((a # 1) + 1)%Q = ((a + 1) # 1).
Proof. unfold Qplus. cbn. f_equal. lia. Qed.
Lemma Qhalf_succ (n : Z) : ((n # 2) + 1)%Q = ((n + 2) # 2).
Proof. unfold Qplus. cbn. f_equal. lia. Qed.
Lemma Qhalf_pred (n : Z) : ((n # 2) - 1)%Q = ((n - 2) # 2).
Proof. unfold Qminus, Qplus, Qopp. cbn. f_equal. lia. Qed.

Definition qline (y : Q) (ab : Z * Z) : line := {| l_x1 := fst ab # 1; l_x2 := snd ab # 1; l_y := y |}.

Lemma lines_row_z : forall row x1 x2 lb y,
  lines_row row (x1 # 1) (x2 # 1) lb y
  = (map (qline y) (fst (zrow row x1 x2 lb)),
     (fst (fst (snd (zrow row x1 x2 lb))) # 1, snd (fst (snd (zrow row x1 x2 lb))) # 1, snd (snd (zrow row x1 x2 lb)))).
Proof.
  induction row as [|bit r IH]; intros x1 x2 lb y.
  - reflexivity.
  - cbn [lines_row zrow]. rewrite Qint_succ.
    set (emit := negb (lb =? bit) && (bit =? 0)).
    assert (Hx1b : (if bit =? 0 then ((if emit then x2 # 1 else x1 # 1) + 1)%Q else if emit then x2 # 1 else x1 # 1)
                   = ((if bit =? 0 then (if emit then x2 else x1) + 1 else if emit then x2 else x1) # 1)).
    { destruct (bit =? 0), emit; try reflexivity; apply Qint_succ. }
    rewrite Hx1b, IH.
    destruct (zrow r (if bit =? 0 then (if emit then x2 else x1) + 1 else if emit then x2 else x1) (x2 + 1) bit) as [ls [[a b] l]].
    cbn [fst snd]. rewrite map_app. destruct emit; reflexivity.
Qed.

Lemma seg_of_qline n ab : seg_of_line (qline (n # 2) ab) = (fst ab, snd ab, n).
Proof.
  unfold seg_of_line, qline, q_floor, q_half. cbn [l_x1 l_x2 l_y Qnum Qden].
  rewrite !Z.div_1_r. replace (2 * n) with (n * 2) by lia. rewrite Z.div_mul by lia. reflexivity.
Qed.

Lemma lines_rows_z : forall rows x n lb,
  map seg_of_line (lines_rows rows (x # 1) (n # 2) 1 lb) = zrows rows x n lb.
Proof.
  induction rows as [|row r IH]; intros x n lb.
  - reflexivity.
  - cbn [lines_rows zrows]. rewrite Qhalf_succ, lines_row_z.
    destruct (zrow row x x lb) as [ls [[a b] l]]. cbn [fst snd].
    rewrite !map_app, IH. f_equal; [|f_equal].
    + rewrite map_map. apply map_ext. intros ab. apply seg_of_qline.
    + destruct (negb (l =? 0)); [|reflexivity]. cbn [map]. f_equal.
      apply (seg_of_qline (n + 2) (a, b)).
Qed.

Lemma two_color_lines_z matrix b : two_color_lines matrix b = zrows matrix b (2 * b - 1) 1.
Proof.
  unfold two_color_lines, matrix_to_lines. rewrite Qhalf_pred.
  replace (2 * b + 1 - 2) with (2 * b - 1) by lia. apply (lines_rows_z matrix b).
Qed.

(* cells *)
Definition span (a b r : Z) : list (Z * Z) := map (fun c => (c, r)) (zseq (Z.to_nat (b - a)) a).
Definition seg_cells (s : seg) : list (Z * Z) := let '(x1, x2, yh) := s in span x1 x2 ((yh - 1) / 2).
Fixpoint row_dark (row : list Z) (x r : Z) : list (Z * Z) :=
  match row with
  | [] => []
  | bit :: t => (if bit =? 0 then [] else [(x, r)]) ++ row_dark t (x + 1) r
  end.
Fixpoint rows_dark (rows : list (list Z)) (x r : Z) : list (Z * Z) :=
  match rows with
  | [] => []
  | row :: t => row_dark row x r ++ rows_dark t x (r + 1)
  end.

Lemma zseq_snoc : forall n a, zseq (S n) a = zseq n a ++ [a + Z.of_nat n].
Proof.
  induction n as [|n IH]; intros a.
  - cbn. f_equal. lia.
  - change (zseq (S (S n)) a) with (a :: zseq (S n) (a + 1)). rewrite IH. cbn [zseq app]. do 2 f_equal.
    f_equal. lia.
Qed.
Lemma span_snoc a b r : a <= b -> span a (b + 1) r = span a b r ++ [(b, r)].
Proof.
  intros H. unfold span. replace (Z.to_nat (b + 1 - a)) with (S (Z.to_nat (b - a))) by lia.
  rewrite zseq_snoc, map_app. cbn [map]. do 3 f_equal. lia.
Qed.
Lemma span_nil a r : span a a r = [].
Proof. unfold span. rewrite Z.sub_diag. reflexivity. Qed.

Lemma zrow_cells : forall row x1 x2 lb r, x1 <= x2 -> (lb = 0 -> x1 = x2) ->
  let res := zrow row x1 x2 lb in
  let x1' := fst (fst (snd res)) in let x2' := snd (fst (snd res)) in let lb' := snd (snd res) in
  x1' <= x2' /\ Forall (fun ab => fst ab <= snd ab) (fst res) /\
  flat_map (fun ab => span (fst ab) (snd ab) r) (fst res) ++ (if lb' =? 0 then [] else span x1' x2' r)
  = (if lb =? 0 then [] else span x1 x2 r) ++ row_dark row x2 r.
Proof.
  induction row as [|bit t IH]; intros x1 x2 lb r Hle Hz.
  - cbn. split; [exact Hle|]. split; [constructor|]. rewrite app_nil_r. reflexivity.
  - cbn [zrow row_dark].
    set (emit := negb (lb =? bit) && (bit =? 0)).
    set (x1b := if bit =? 0 then (if emit then x2 else x1) + 1 else if emit then x2 else x1).
    assert (Hb : x1b <= x2 + 1 /\ (bit = 0 -> x1b = x2 + 1) /\ (bit <> 0 -> x1b = x1)).
    { unfold x1b, emit. destruct (bit =? 0) eqn:Eb.
      - apply Z.eqb_eq in Eb. subst bit. rewrite andb_true_r. destruct (lb =? 0) eqn:El; cbn [negb].
        + apply Z.eqb_eq in El. specialize (Hz El). repeat split; intros; try lia.
        + repeat split; intros; try lia.
      - apply Z.eqb_neq in Eb. rewrite andb_false_r. repeat split; intros; try lia. }
    destruct Hb as (Hb1 & Hb2 & Hb3).
    specialize (IH x1b (x2 + 1) bit r Hb1 Hb2).
    destruct (zrow t x1b (x2 + 1) bit) as [ls [[a b] l]] eqn:Ez.
    cbn [fst snd] in IH |- *. destruct IH as (IH1 & IH2 & IH3).
    split; [exact IH1|]. split.
    + apply Forall_app. split; [|exact IH2]. destruct emit; constructor; [exact Hle|constructor].
    + rewrite flat_map_app, <- app_assoc, IH3.
      unfold emit. destruct (bit =? 0) eqn:Eb.
      * apply Z.eqb_eq in Eb. subst bit. rewrite andb_true_r. cbn [app].
        destruct (lb =? 0) eqn:El; cbn [negb flat_map app]; [reflexivity|]. rewrite app_nil_r. reflexivity.
      * apply Z.eqb_neq in Eb. rewrite andb_false_r. cbn [flat_map app].
        rewrite (Hb3 Eb). rewrite span_snoc by exact Hle.
        destruct (lb =? 0) eqn:El.
        -- apply Z.eqb_eq in El. rewrite (Hz El), span_nil. reflexivity.
        -- rewrite <- app_assoc. reflexivity.
Qed.

Definition seg_ok (s : seg) : Prop := let '(x1, x2, yh) := s in x1 <= x2 /\ Z.odd yh = true.

Lemma zrows_cells : forall rows x r lb,
  Forall seg_ok (zrows rows x (2 * r - 1) lb) /\
  flat_map seg_cells (zrows rows x (2 * r - 1) lb) = rows_dark rows x r.
Proof.
  induction rows as [|row t IH]; intros x r lb.
  - split; [constructor|reflexivity].
  - cbn [zrows rows_dark].
    pose proof (zrow_cells row x x lb r (Z.le_refl x) (fun _ => eq_refl)) as Hc.
    destruct (zrow row x x lb) as [ls [[a b] l]]. cbn [fst snd] in Hc. destruct Hc as (Hab & Hls & Hc).
    rewrite span_nil in Hc. assert (Hc' : flat_map (fun ab => span (fst ab) (snd ab) r) ls ++ (if l =? 0 then [] else span a b r) = row_dark row x r).
    { rewrite Hc. destruct (lb =? 0); reflexivity. }
    clear Hc.
    replace (2 * r - 1 + 2) with (2 * (r + 1) - 1) by lia.
    destruct (IH x (r + 1) (if negb (l =? 0) then 0 else l)) as (IHok & IHc).
    assert (Hrow : (2 * (r + 1) - 1 - 1) / 2 = r).
    { replace (2 * (r + 1) - 1 - 1) with (r * 2) by lia. apply Z.div_mul. lia. }
    assert (Hodd : Z.odd (2 * (r + 1) - 1) = true).
    { replace (2 * (r + 1) - 1) with (1 + 2 * r) by lia. rewrite Z.odd_add_mul_2. reflexivity. }
    split.
    + apply Forall_app. split; [|apply Forall_app; split; [|exact IHok]].
      * apply Forall_map. revert Hls. apply Forall_impl. intros ab Hle. cbn. auto.
      * destruct (l =? 0); cbn [negb]; constructor; [|constructor]. cbn. auto.
    + rewrite !flat_map_app, <- Hc', <- app_assoc. f_equal; [|f_equal; [|exact IHc]].
      * rewrite flat_map_concat_map, map_map, <- flat_map_concat_map. apply flat_map_ext. intros ab.
        cbn [seg_cells]. rewrite Hrow. reflexivity.
      * destruct (l =? 0); cbn [negb flat_map]; [reflexivity|]. rewrite app_nil_r. cbn [seg_cells]. rewrite Hrow. reflexivity.
Qed.

Lemma zrow_nonempty : forall row x1 x2 lb, lb <> 0 -> fst (zrow row x1 x2 lb) <> [] \/ snd (snd (zrow row x1 x2 lb)) <> 0.
Proof.
  induction row as [|bit t IH]; intros x1 x2 lb Hlb.
  - right. exact Hlb.
  - cbn [zrow]. destruct (bit =? 0) eqn:Eb.
    + apply Z.eqb_eq in Eb. subst bit. assert (El : (lb =? 0) = false) by (apply Z.eqb_neq; exact Hlb).
      rewrite El. cbn [negb andb]. destruct (zrow t (x2 + 1) (x2 + 1) 0) as [ls st]. left. cbn. discriminate.
    + apply Z.eqb_neq in Eb. rewrite andb_false_r.
      specialize (IH x1 (x2 + 1) bit Eb). destruct (zrow t x1 (x2 + 1) bit) as [ls st]. cbn [fst snd app] in *. exact IH.
Qed.
Lemma zrows_nonempty row rows x yh : zrows (row :: rows) x yh 1 <> [].
Proof.
  cbn [zrows]. destruct (zrow_nonempty row x x 1) as [H|H]; [lia| |];
    destruct (zrow row x x 1) as [ls [[a b] l]]; cbn [fst snd] in H.
  - destruct ls; [congruence|]. discriminate.
  - assert (El : (l =? 0) = false) by (apply Z.eqb_neq; exact H). rewrite El. cbn [negb].
    intro Habs. apply app_eq_nil in Habs. destruct Habs as [_ Habs]. discriminate.
Qed.

(* what the reader computes from the absolute lines *)
Lemma stroke_cells_abs : forall segs, Forall seg_ok segs ->
  forall p, p_segs p = map abs_seg segs -> stroke_cells p = Some (flat_map seg_cells segs).
Proof.
  intros segs Hok p Hp. unfold stroke_cells. rewrite Hp.
  assert (H1 : map_opt hseg_of (map abs_seg segs) = Some (map (fun s : seg => let '(x1, x2, y) := s in (2 * x1, 2 * x2, y)) segs)).
  { clear Hok Hp. induction segs as [|[[x1 x2] y] t IH]; [reflexivity|].
    cbn [map map_opt abs_seg hseg_of]. rewrite Z.eqb_refl, IH. reflexivity. }
  rewrite H1. cbn [opt_bind].
  assert (H2 : map_opt cells_of_hseg (map (fun s : seg => let '(x1, x2, y) := s in (2 * x1, 2 * x2, y)) segs)
               = Some (map seg_cells segs)).
  { clear H1 Hp. induction Hok as [|[[x1 x2] y] t [Hle Hodd] _ IH]; [reflexivity|].
    cbn [map map_opt cells_of_hseg]. rewrite IH.
    rewrite !Z.even_mul. cbn [Z.even orb andb]. rewrite Hodd.
    rewrite Z.min_l, Z.max_r by lia.
    replace (2 * x1 / 2) with x1 by (rewrite Z.mul_comm, Z.div_mul; lia).
    replace (2 * x2 / 2) with x2 by (rewrite Z.mul_comm, Z.div_mul; lia).
    reflexivity. }
  rewrite H2. cbn [opt_bind]. rewrite flat_map_concat_map. reflexivity.
Qed.

(* ---- the list of dark cells: every dark module once, nothing else ---- *)
Lemma In_row_dark : forall row x r c r',
  In (c, r') (row_dark row x r) <->
  r' = r /\ x <= c /\ (Z.to_nat (c - x) < length row)%nat /\ nth (Z.to_nat (c - x)) row 0 <> 0.
Proof.
  induction row as [|bit t IH]; intros x r c r'.
  - cbn. split; [tauto|]. intros (_ & _ & H & _). lia.
  - cbn [row_dark]. rewrite in_app_iff, IH. split.
    + intros [H|(-> & Hx & Hl & Hn)].
      * destruct (bit =? 0) eqn:Eb; [destruct H|]. destruct H as [H|[]]. inversion H; subst.
        rewrite Z.sub_diag. cbn. apply Z.eqb_neq in Eb. repeat split; try lia.
      * replace (Z.to_nat (c - x)) with (S (Z.to_nat (c - (x + 1)))) by lia. cbn [length nth].
        repeat split; try lia; try assumption.
    + intros (-> & Hx & Hl & Hn).
      destruct (Z.eq_dec c x) as [->|Hne].
      * left. rewrite Z.sub_diag in Hn. cbn in Hn. destruct (bit =? 0) eqn:Eb; [apply Z.eqb_eq in Eb; contradiction|].
        left. reflexivity.
      * right. replace (Z.to_nat (c - x)) with (S (Z.to_nat (c - (x + 1)))) in Hl, Hn by lia. cbn [length nth] in Hl, Hn.
        repeat split; try lia; try assumption.
Qed.
Lemma NoDup_row_dark : forall row x r, NoDup (row_dark row x r).
Proof.
  induction row as [|bit t IH]; intros x r; cbn [row_dark]; [constructor|].
  destruct (bit =? 0); cbn [app]; [apply IH|]. constructor; [|apply IH].
  rewrite In_row_dark. lia.
Qed.
Lemma In_rows_dark : forall rows x r c r',
  In (c, r') (rows_dark rows x r) <->
  r <= r' /\ (Z.to_nat (r' - r) < length rows)%nat /\ x <= c /\
  (Z.to_nat (c - x) < length (nth (Z.to_nat (r' - r)) rows []))%nat /\
  nth (Z.to_nat (c - x)) (nth (Z.to_nat (r' - r)) rows []) 0 <> 0.
Proof.
  induction rows as [|row t IH]; intros x r c r'.
  - cbn. split; [tauto|]. intros (_ & H & _). lia.
  - cbn [rows_dark]. rewrite in_app_iff, IH, In_row_dark. split.
    + intros [(-> & Hx & Hl & Hn)|(Hr & Hl & Hx & Hl2 & Hn)].
      * rewrite Z.sub_diag. cbn. repeat split; try lia; try assumption.
      * replace (Z.to_nat (r' - r)) with (S (Z.to_nat (r' - (r + 1)))) by lia. cbn [length nth].
        repeat split; try lia; try assumption.
    + intros (Hr & Hl & Hx & Hl2 & Hn).
      destruct (Z.eq_dec r' r) as [->|Hne].
      * left. rewrite Z.sub_diag in Hl2, Hn. cbn in Hl2, Hn. repeat split; try lia; try assumption.
      * right. replace (Z.to_nat (r' - r)) with (S (Z.to_nat (r' - (r + 1)))) in Hl, Hl2, Hn by lia.
        cbn [length nth] in Hl, Hl2, Hn. repeat split; try lia; try assumption.
Qed.
Lemma NoDup_app_disj {A} (a b : list A) :
  NoDup a -> NoDup b -> (forall x, In x a -> ~ In x b) -> NoDup (a ++ b).
Proof.
  induction a as [|h t IH]; intros Ha Hb Hd; [exact Hb|].
  inversion Ha as [|? ? Hh Ht]; subst. cbn [app]. constructor.
  - rewrite in_app_iff. intros [H|H]; [contradiction|]. apply (Hd h); [left; reflexivity|exact H].
  - apply IH; auto. intros x Hx. apply Hd. right. exact Hx.
Qed.
Lemma NoDup_rows_dark : forall rows x r, NoDup (rows_dark rows x r).
Proof.
  induction rows as [|row t IH]; intros x r; cbn [rows_dark]; [constructor|].
  apply NoDup_app_disj; [apply NoDup_row_dark|apply IH|].
  intros [c r'] H1 H2. apply In_row_dark in H1. apply In_rows_dark in H2. lia.
Qed.

(* the dark modules of a square matrix, shifted by the border *)
Theorem rows_dark_spec matrix size b c r :
  length matrix = Z.to_nat size -> Forall (fun row => length row = Z.to_nat size) matrix ->
  (In (c, r) (rows_dark matrix b b) <->
   0 <= r - b < size /\ 0 <= c - b < size /\ mcell matrix (r - b) (c - b) <> 0).
Proof.
  intros Hlen Hrows. rewrite In_rows_dark. unfold mcell. split.
  - intros (Hr & Hl & Hx & Hl2 & Hn).
    assert (Hrow : length (nth (Z.to_nat (r - b)) matrix []) = Z.to_nat size).
    { rewrite Forall_forall in Hrows. apply Hrows. apply nth_In. exact Hl. }
    rewrite Hrow in Hl2. repeat split; try lia; try exact Hn.
  - intros (Hr & Hc & Hn).
    assert (Hl : (Z.to_nat (r - b) < length matrix)%nat) by lia.
    assert (Hrow : length (nth (Z.to_nat (r - b)) matrix []) = Z.to_nat size).
    { rewrite Forall_forall in Hrows. apply Hrows. apply nth_In. exact Hl. }
    rewrite Hrow. repeat split; try lia; try exact Hn.
Qed.

(* ================= Part D: escaping ================= *)
Lemma memZ_false x l : memZ x l = false <-> ~ In x l.
Proof.
  unfold memZ. induction l as [|h t IH]; cbn [existsb In]; [tauto|].
  rewrite orb_false_iff, IH, Z.eqb_neq. split.
  - intros [H1 H2] [H|H]; [apply H1; symmetry; exact H|exact (H2 H)].
  - intros H. split; [intro He; apply H; left; symmetry; exact He|intro Hi; apply H; right; exact Hi].
Qed.
Lemma memZ_true x l : memZ x l = true <-> In x l.
Proof.
  unfold memZ. rewrite existsb_exists. split.
  - intros (y & Hy & He). apply Z.eqb_eq in He. subst. exact Hy.
  - intros H. exists x. split; [exact H|apply Z.eqb_refl].
Qed.

Definition unesc1 (f : Z -> str) : Prop :=
  forall c rest, unescape_aux (f c ++ rest) None = option_map (cons c) (unescape_aux rest None).

Lemma unescape_flat_map f : unesc1 f -> forall s, unescape (flat_map f s) = Some s.
Proof.
  intros Hf. unfold unescape. induction s as [|c t IH]; [reflexivity|].
  cbn [flat_map]. rewrite Hf, IH. reflexivity.
Qed.

Lemma unesc1_plain c rest : c <> 38 -> c <> 60 ->
  unescape_aux (c :: rest) None = option_map (cons c) (unescape_aux rest None).
Proof.
  intros H1 H2. cbn [unescape_aux]. apply Z.eqb_neq in H1, H2. rewrite H1, H2. reflexivity.
Qed.

Lemma unesc1_escape_cp : unesc1 escape_cp.
Proof.
  intros c rest. unfold escape_cp.
  destruct (c =? 38) eqn:E1; [apply Z.eqb_eq in E1; subst; reflexivity|].
  destruct (c =? 62) eqn:E2; [apply Z.eqb_eq in E2; subst; reflexivity|].
  destruct (c =? 60) eqn:E3; [apply Z.eqb_eq in E3; subst; reflexivity|].
  apply Z.eqb_neq in E1, E3. apply unesc1_plain; assumption.
Qed.
Lemma unesc1_attr_cp : unesc1 attr_cp.
Proof.
  intros c rest. unfold attr_cp.
  destruct (c =? 10) eqn:E1; [apply Z.eqb_eq in E1; subst; reflexivity|].
  destruct (c =? 13) eqn:E2; [apply Z.eqb_eq in E2; subst; reflexivity|].
  destruct (c =? 9) eqn:E3; [apply Z.eqb_eq in E3; subst; reflexivity|].
  apply unesc1_escape_cp.
Qed.
Definition attr_cp_q (c : Z) : str := if c =? 34 then lit "&quot;" else attr_cp c.
Lemma unesc1_attr_cp_q : unesc1 attr_cp_q.
Proof.
  intros c rest. unfold attr_cp_q.
  destruct (c =? 34) eqn:E1; [apply Z.eqb_eq in E1; subst; reflexivity|]. apply unesc1_attr_cp.
Qed.

(* characters that the escaped forms never contain *)
Lemma escape_cp_chars c x : In x (escape_cp c) -> x <> 60 /\ x <> 62 /\ (x = 38 \/ x = 59 \/ x = c \/ In x (lit "amplgt")).
Proof.
  unfold escape_cp.
  destruct (c =? 38) eqn:E1; [cbn; intros H; repeat (destruct H as [<-|H]; [lia|]); destruct H|].
  destruct (c =? 62) eqn:E2; [cbn; intros H; repeat (destruct H as [<-|H]; [lia|]); destruct H|].
  destruct (c =? 60) eqn:E3; [cbn; intros H; repeat (destruct H as [<-|H]; [lia|]); destruct H|].
  cbn. intros [<-|[]]. apply Z.eqb_neq in E2, E3. lia.
Qed.
Lemma attr_cp_chars c x : In x (attr_cp c) -> x <> 60 /\ x <> 62 /\ (x = 34 -> c = 34) /\ (x = 39 -> c = 39).
Proof.
  unfold attr_cp.
  destruct (c =? 10) eqn:E1; [cbn; intros H; repeat (destruct H as [<-|H]; [lia|]); destruct H|].
  destruct (c =? 13) eqn:E2; [cbn; intros H; repeat (destruct H as [<-|H]; [lia|]); destruct H|].
  destruct (c =? 9) eqn:E3; [cbn; intros H; repeat (destruct H as [<-|H]; [lia|]); destruct H|].
  intros H. apply escape_cp_chars in H. cbn in H. lia.
Qed.
Lemma attr_cp_q_chars c x : In x (attr_cp_q c) -> x <> 60 /\ x <> 62 /\ x <> 34.
Proof.
  unfold attr_cp_q. destruct (c =? 34) eqn:E1.
  - cbn. intros H; repeat (destruct H as [<-|H]; [lia|]); destruct H.
  - intros H. apply attr_cp_chars in H. apply Z.eqb_neq in E1. lia.
Qed.

Lemma quot_flat_map s :
  flat_map (fun c => if c =? 34 then lit "&quot;" else [c]) (flat_map attr_cp s) = flat_map attr_cp_q s.
Proof.
  induction s as [|c t IH]; [reflexivity|]. cbn [flat_map]. rewrite flat_map_app, IH. f_equal.
  unfold attr_cp_q, attr_cp, escape_cp.
  destruct (c =? 34) eqn:E0; [apply Z.eqb_eq in E0; subst; reflexivity|].
  destruct (c =? 10) eqn:E1; [reflexivity|]. destruct (c =? 13) eqn:E2; [reflexivity|].
  destruct (c =? 9) eqn:E3; [reflexivity|]. destruct (c =? 38) eqn:E4; [reflexivity|].
  destruct (c =? 62) eqn:E5; [reflexivity|]. destruct (c =? 60) eqn:E6; [reflexivity|].
  cbn [flat_map app]. rewrite E0. reflexivity.
Qed.

(* escape(): no raw "<", ">", and decoding gives the original text back *)
Theorem escape_spec s : ~ In 60 (escape s) /\ ~ In 62 (escape s) /\ unescape (escape s) = Some s.
Proof.
  split; [|split].
  - unfold escape. rewrite in_flat_map. intros (c & _ & H). apply escape_cp_chars in H. lia.
  - unfold escape. rewrite in_flat_map. intros (c & _ & H). apply escape_cp_chars in H. lia.
  - apply unescape_flat_map, unesc1_escape_cp.
Qed.

(* quoteattr(): a quoted value whose body contains neither its quote character nor "<" / ">", and decodes to the input *)
Theorem quoteattr_spec s : exists q body,
  quoteattr s = q :: body ++ [q] /\ (q = 34 \/ q = 39) /\ ~ In q body /\ ~ In 60 body /\ ~ In 62 body /\
  unescape body = Some s.
Proof.
  unfold quoteattr. set (d := flat_map attr_cp s).
  assert (Hd : ~ In 60 d /\ ~ In 62 d).
  { unfold d. split; rewrite in_flat_map; intros (c & _ & H); apply attr_cp_chars in H; lia. }
  assert (Hu : unescape d = Some s) by (apply unescape_flat_map, unesc1_attr_cp).
  destruct (memZ 34 d) eqn:E34.
  - destruct (memZ 39 d) eqn:E39.
    + exists 34, (flat_map attr_cp_q s). unfold d. rewrite quot_flat_map. cbn [app].
      split; [reflexivity|]. split; [auto|].
      repeat split; try (rewrite in_flat_map; intros (c & _ & H); apply attr_cp_q_chars in H; lia).
      apply unescape_flat_map, unesc1_attr_cp_q.
    + exists 39, d. cbn [app]. split; [reflexivity|]. split; [auto|]. apply memZ_false in E39. tauto.
  - exists 34, d. cbn [app]. split; [reflexivity|]. split; [auto|]. apply memZ_false in E34. tauto.
Qed.

Lemma unescape_plain s : ~ In 38 s -> ~ In 60 s -> unescape s = Some s.
Proof.
  unfold unescape. induction s as [|c t IH]; intros H1 H2; [reflexivity|].
  rewrite unesc1_plain, IH; cbn [In] in *; try tauto; try reflexivity; intro; subst; tauto.
Qed.

(* ================= Part E: the XML lexer on rendered tags ================= *)
Definition run (s : str) (st : lmode * list xev) : lmode * list xev := fold_left lstep s st.
Lemma run_app a b st : run (a ++ b) st = run b (run a st).
Proof. apply fold_left_app. Qed.
Lemma run_cons c a st : run (c :: a) st = run a (lstep st c).
Proof. reflexivity. Qed.

Record rattr := { ra_key : str; ra_q : Z; ra_body : str }.
Definition render_attr (a : rattr) : str := [32] ++ ra_key a ++ [61; ra_q a] ++ ra_body a ++ [ra_q a].
Definition name_ok (n : str) : bool :=
  match n with c :: r => is_name_start c && forallb is_name_char r | [] => false end.
Definition attr_ok (a : rattr) : Prop :=
  name_ok (ra_key a) = true /\ (ra_q a = 34 \/ ra_q a = 39) /\ ~ In (ra_q a) (ra_body a) /\ ~ In 60 (ra_body a).
Definition kv (a : rattr) : text * text := (ra_key a, ra_body a).

Lemma name_start_facts c : is_name_start c = true ->
  is_ws c = false /\ (c =? 47) = false /\ (c =? 62) = false /\ (c =? 63) = false /\ is_name_char c = true.
Proof.
  unfold is_name_char, is_name_start, is_letter, is_ws. intros H.
  repeat split; try (rewrite H; reflexivity);
    repeat match goal with |- context [?a =? ?b] => destruct (Z.eqb_spec a b); subst; try discriminate end; try reflexivity.
Qed.

Lemma run_name : forall cs acc evs, forallb is_name_char cs = true ->
  run cs (LName acc, evs) = (LName (rev cs ++ acc), evs).
Proof.
  induction cs as [|c t IH]; intros acc evs H; [reflexivity|].
  cbn [forallb] in H. apply andb_true_iff in H. destruct H as [Hc Ht].
  rewrite run_cons. cbn [lstep]. rewrite Hc, IH by exact Ht. cbn [rev]. rewrite <- app_assoc. reflexivity.
Qed.
Lemma run_close_name : forall cs acc evs, forallb is_name_char cs = true ->
  run cs (LClose acc, evs) = (LClose (rev cs ++ acc), evs).
Proof.
  induction cs as [|c t IH]; intros acc evs H; [reflexivity|].
  cbn [forallb] in H. apply andb_true_iff in H. destruct H as [Hc Ht].
  rewrite run_cons. cbn [lstep]. rewrite Hc, IH by exact Ht. cbn [rev]. rewrite <- app_assoc. reflexivity.
Qed.
Lemma run_attr_name : forall cs n a acc evs, forallb is_name_char cs = true ->
  run cs (LAttrName n a acc, evs) = (LAttrName n a (rev cs ++ acc), evs).
Proof.
  induction cs as [|c t IH]; intros n a acc evs H; [reflexivity|].
  cbn [forallb] in H. apply andb_true_iff in H. destruct H as [Hc Ht].
  rewrite run_cons. cbn [lstep]. rewrite Hc, IH by exact Ht. cbn [rev]. rewrite <- app_assoc. reflexivity.
Qed.
Lemma run_val : forall body n a an q acc evs, ~ In q body -> ~ In 60 body ->
  run body (LAttrVal n a an q acc, evs) = (LAttrVal n a an q (rev body ++ acc), evs).
Proof.
  induction body as [|c t IH]; intros n a an q acc evs H1 H2; [reflexivity|].
  cbn [In] in H1, H2. rewrite run_cons. cbn [lstep].
  assert (E1 : (c =? q) = false) by (apply Z.eqb_neq; intro; subst; tauto).
  assert (E2 : (c =? 60) = false) by (apply Z.eqb_neq; intro; subst; tauto).
  rewrite E1, E2, IH by tauto. cbn [rev]. rewrite <- app_assoc. reflexivity.
Qed.
Lemma run_text : forall t acc evs, ~ In 60 t -> run t (LText acc, evs) = (LText (rev t ++ acc), evs).
Proof.
  induction t as [|c r IH]; intros acc evs H; [reflexivity|].
  cbn [In] in H. rewrite run_cons. cbn [lstep].
  assert (E : (c =? 60) = false) by (apply Z.eqb_neq; intro; subst; tauto).
  rewrite E, IH by tauto. cbn [rev]. rewrite <- app_assoc. reflexivity.
Qed.

Lemma run_attr x st n a evs : attr_ok x -> lstep (st, evs) 32 = (LAttrs n a, evs) ->
  run (render_attr x) (st, evs) = (LAfterVal n (kv x :: a), evs).
Proof.
  intros (Hk & Hq & Hb & Hlt) Hst. destruct x as [key q body]. cbn [ra_key ra_q ra_body kv] in *.
  unfold render_attr. cbn [ra_key ra_q ra_body]. cbn [app]. rewrite run_cons, Hst.
  destruct key as [|c r]; [discriminate|]. cbn [name_ok] in Hk. apply andb_true_iff in Hk. destruct Hk as [Hc Hr].
  destruct (name_start_facts c Hc) as (F1 & F2 & F3 & F4 & F5).
  cbn [app]. rewrite run_cons. cbn [lstep]. rewrite F1, F2, F3, Hc.
  rewrite run_app, run_attr_name by exact Hr.
  rewrite run_cons. cbn [lstep]. change (is_name_char 61) with false. change (61 =? 61) with true. cbv iota.
  rewrite rev_app_distr, rev_involutive. cbn [rev app].
  rewrite run_cons. cbn [lstep].
  assert (Eq : ((q =? 34) || (q =? 39)) = true) by (destruct Hq; subst; reflexivity).
  rewrite Eq. rewrite run_app, run_val by assumption.
  rewrite run_cons. cbn [lstep]. rewrite Z.eqb_refl. rewrite app_nil_r, rev_involutive. reflexivity.
Qed.

Lemma run_attrs : forall xs st n a evs, Forall attr_ok xs -> lstep (st, evs) 32 = (LAttrs n a, evs) ->
  run (flat_map render_attr xs) (st, evs)
  = (match xs with [] => st | _ => LAfterVal n (rev (map kv xs) ++ a) end, evs).
Proof.
  induction xs as [|x t IH]; intros st n a evs Hok Hst; [reflexivity|].
  inversion Hok as [|? ? Hx Ht]; subst. cbn [flat_map]. rewrite run_app, (run_attr x st n a evs Hx Hst).
  rewrite (IH (LAfterVal n (kv x :: a)) n (kv x :: a) evs Ht) by reflexivity.
  destruct t as [|y t']; [reflexivity|]. cbn [map rev]. rewrite <- !app_assoc. reflexivity.
Qed.

Lemma run_tag_open name xs acc evs : name_ok name = true -> Forall attr_ok xs ->
  run ([60] ++ name ++ flat_map render_attr xs) (LText acc, evs)
  = (match xs with [] => LName (rev name) | _ => LAfterVal name (rev (map kv xs)) end, flush_text acc evs).
Proof.
  intros Hn Hxs. cbn [app]. rewrite run_cons. cbn [lstep]. change (60 =? 60) with true. cbv iota.
  destruct name as [|c r]; [discriminate|]. cbn [name_ok] in Hn. apply andb_true_iff in Hn. destruct Hn as [Hc Hr].
  destruct (name_start_facts c Hc) as (F1 & F2 & F3 & F4 & F5).
  cbn [app]. rewrite run_cons. cbn [lstep]. rewrite F4, F2, Hc.
  rewrite run_app, run_name by exact Hr.
  assert (Hst : forall evs', lstep (LName (rev r ++ [c]), evs') 32 = (LAttrs (c :: r) [], evs')).
  { intros evs'. cbn [lstep]. change (is_name_char 32) with false. change (is_ws 32) with true. cbv iota.
    rewrite rev_app_distr, rev_involutive. reflexivity. }
  rewrite (run_attrs xs _ (c :: r) [] _ Hxs (Hst _)).
  destruct xs; [reflexivity|]. rewrite app_nil_r. reflexivity.
Qed.

Lemma run_open name xs acc evs : name_ok name = true -> Forall attr_ok xs ->
  run ([60] ++ name ++ flat_map render_attr xs ++ [62]) (LText acc, evs)
  = (LText [], EOpen name (map kv xs) :: flush_text acc evs).
Proof.
  intros Hn Hxs. rewrite !app_assoc, run_app, <- !app_assoc, (run_tag_open name xs acc evs Hn Hxs).
  destruct xs as [|x t].
  - rewrite run_cons. cbn [lstep run fold_left].
    change (is_name_char 62) with false. change (is_ws 62) with false. change (62 =? 47) with false.
    change (62 =? 62) with true. cbv iota. rewrite rev_involutive. reflexivity.
  - rewrite run_cons. cbn [lstep run fold_left]. change (is_ws 62) with false. change (62 =? 47) with false.
    change (62 =? 62) with true. cbv iota. rewrite rev_involutive. reflexivity.
Qed.
Lemma run_empty name xs acc evs : name_ok name = true -> Forall attr_ok xs ->
  run ([60] ++ name ++ flat_map render_attr xs ++ [47; 62]) (LText acc, evs)
  = (LText [], EEmpty name (map kv xs) :: flush_text acc evs).
Proof.
  intros Hn Hxs. rewrite !app_assoc, run_app, <- !app_assoc, (run_tag_open name xs acc evs Hn Hxs).
  destruct xs as [|x t].
  - rewrite !run_cons. cbn [lstep run fold_left].
    change (is_name_char 47) with false. change (is_ws 47) with false. change (47 =? 47) with true.
    cbv iota. cbn [lstep]. change (62 =? 62) with true. cbv iota. rewrite rev_involutive. reflexivity.
  - rewrite !run_cons. cbn [lstep run fold_left]. change (is_ws 47) with false. change (47 =? 47) with true.
    cbv iota. cbn [lstep]. change (62 =? 62) with true. cbv iota. rewrite rev_involutive. reflexivity.
Qed.
Lemma run_close name acc evs : name_ok name = true ->
  run ([60; 47] ++ name ++ [62]) (LText acc, evs) = (LText [], EClose name :: flush_text acc evs).
Proof.
  intros Hn. cbn [app]. rewrite run_cons. cbn [lstep]. change (60 =? 60) with true. cbv iota.
  rewrite run_cons. cbn [lstep]. change (47 =? 63) with false. change (47 =? 47) with true. cbv iota.
  assert (Hall : forallb is_name_char name = true).
  { destruct name as [|c r]; [discriminate|]. cbn [name_ok] in Hn. apply andb_true_iff in Hn. destruct Hn as [Hc Hr].
    cbn [forallb]. destruct (name_start_facts c Hc) as (_ & _ & _ & _ & F5). rewrite F5, Hr. reflexivity. }
  rewrite run_app, run_close_name by exact Hall. rewrite run_cons. cbn [lstep run fold_left].
  change (is_name_char 62) with false. change (62 =? 62) with true. cbv iota.
  rewrite app_nil_r, rev_involutive. reflexivity.
Qed.
(* the XML declaration: anything without ">" between "<?" and "?>" *)
Lemma run_pi_body : forall body q evs, ~ In 62 body -> exists q', run body (LPI q, evs) = (LPI q', evs).
Proof.
  induction body as [|c t IH]; intros q evs H; [exists q; reflexivity|].
  cbn [In] in H. rewrite run_cons. cbn [lstep].
  assert (E : (c =? 62) = false) by (apply Z.eqb_neq; intro; subst; tauto).
  rewrite E. cbn [andb]. destruct (c =? 63); apply IH; tauto.
Qed.
Lemma run_pi body evs : ~ In 62 body ->
  run ([60; 63] ++ body ++ [63; 62]) (LText [], evs) = (LText [], evs).
Proof.
  intros H. cbn [app]. rewrite run_cons. cbn [lstep flush_text]. change (60 =? 60) with true. cbv iota.
  rewrite run_cons. cbn [lstep]. change (63 =? 63) with true. cbv iota.
  rewrite run_app. destruct (run_pi_body body false evs H) as (q' & ->).
  rewrite run_cons. cbn [lstep]. change (63 =? 63) with true. cbv iota.
  rewrite run_cons. cbn [lstep run fold_left]. change (62 =? 63) with false. change (62 =? 62) with true. reflexivity.
Qed.

(* ================= Part F: str.replace / re.sub on the background path ================= *)
Lemma is_prefix_length : forall p s, is_prefix p s = true -> (length p <= length s)%nat.
Proof.
  induction p as [|a p IH]; intros s H; [cbn; lia|]. destruct s as [|b s]; [discriminate|].
  cbn [is_prefix] in H. apply andb_true_iff in H. destruct H as [_ H]. apply IH in H. cbn [length]. lia.
Qed.
Lemma is_prefix_firstn : forall p s, is_prefix p s = true -> firstn (length p) s = p.
Proof.
  induction p as [|a p IH]; intros s H; [reflexivity|]. destruct s as [|b s]; [discriminate|].
  cbn [is_prefix] in H. apply andb_true_iff in H. destruct H as [Hab H]. apply Z.eqb_eq in Hab. subst.
  cbn [length firstn]. rewrite IH by exact H. reflexivity.
Qed.
Lemma skipn_length_le {A} n (l : list A) : (length (skipn n l) <= length l)%nat.
Proof. rewrite skipn_length. lia. Qed.

Lemma replace_fuel_enough p0 pt rep : forall f1 f2 s, (length s <= f1)%nat -> (length s <= f2)%nat ->
  replace_fuel f1 (p0 :: pt) rep s = replace_fuel f2 (p0 :: pt) rep s.
Proof.
  induction f1 as [|f1 IH]; intros f2 s H1 H2.
  - destruct s; [|cbn in H1; lia]. destruct f2; reflexivity.
  - destruct f2 as [|f2]; [destruct s; [reflexivity|cbn in H2; lia]|].
    destruct s as [|c r]; [reflexivity|]. cbn [replace_fuel]. cbn [length] in H1, H2.
    destruct (is_prefix (p0 :: pt) (c :: r)).
    + f_equal. cbn [length skipn]. apply IH; pose proof (skipn_length_le (length pt) r); lia.
    + f_equal. apply IH; lia.
Qed.
Lemma str_replace_nil pat rep : str_replace pat rep [] = [].
Proof. reflexivity. Qed.
Lemma str_replace_cons p0 pt rep c r :
  str_replace (p0 :: pt) rep (c :: r)
  = if is_prefix (p0 :: pt) (c :: r) then rep ++ str_replace (p0 :: pt) rep (skipn (length (p0 :: pt)) (c :: r))
    else c :: str_replace (p0 :: pt) rep r.
Proof.
  unfold str_replace at 1. cbn [length replace_fuel]. destruct (is_prefix (p0 :: pt) (c :: r)).
  - f_equal. cbn [skipn]. apply replace_fuel_enough; [apply skipn_length_le|lia].
  - reflexivity.
Qed.

(* R1: no occurrence starts where the first pattern character does not occur *)
Lemma str_replace_skip p0 pt rep : forall a b, ~ In p0 a ->
  str_replace (p0 :: pt) rep (a ++ b) = a ++ str_replace (p0 :: pt) rep b.
Proof.
  induction a as [|c a IH]; intros b H; [reflexivity|]. cbn [In] in H.
  cbn [app]. rewrite str_replace_cons. cbn [is_prefix].
  assert (E : (p0 =? c) = false) by (apply Z.eqb_neq; intro; subst; tauto).
  rewrite E. cbn [andb]. rewrite IH by tauto. reflexivity.
Qed.

Lemma is_prefix_delim q : forall pat a b, ~ In q pat -> is_prefix pat (a ++ q :: b) = is_prefix pat a.
Proof.
  induction pat as [|p pt IH]; intros a b H; [destruct a; reflexivity|]. cbn [In] in H.
  destruct a as [|c a]; cbn [app is_prefix].
  - assert (E : (p =? q) = false) by (apply Z.eqb_neq; tauto). rewrite E. reflexivity.
  - rewrite IH by tauto. reflexivity.
Qed.
(* R3: occurrences cannot straddle a character that is not in the pattern *)
Lemma str_replace_delim p0 pt rep q : ~ In q (p0 :: pt) -> forall n a b, (length a <= n)%nat ->
  str_replace (p0 :: pt) rep (a ++ q :: b) = str_replace (p0 :: pt) rep a ++ q :: str_replace (p0 :: pt) rep b.
Proof.
  intros Hq. induction n as [|n IH]; intros a b Hlen.
  - destruct a; [|cbn in Hlen; lia]. cbn [app]. rewrite str_replace_cons. cbn [is_prefix].
    assert (E : (p0 =? q) = false) by (apply Z.eqb_neq; cbn [In] in Hq; tauto). rewrite E. reflexivity.
  - destruct a as [|c a].
    + cbn [app]. rewrite str_replace_cons. cbn [is_prefix].
      assert (E : (p0 =? q) = false) by (apply Z.eqb_neq; cbn [In] in Hq; tauto). rewrite E. reflexivity.
    + cbn [length] in Hlen. change ((c :: a) ++ q :: b) with (c :: (a ++ q :: b)).
      rewrite !str_replace_cons. change (c :: a ++ q :: b) with ((c :: a) ++ q :: b).
      rewrite is_prefix_delim by exact Hq.
      destruct (is_prefix (p0 :: pt) (c :: a)) eqn:Ep.
      * pose proof (is_prefix_length _ _ Ep) as Hl.
        rewrite skipn_app. replace (length (p0 :: pt) - length (c :: a))%nat with 0%nat by lia. cbn [skipn].
        rewrite <- app_assoc. f_equal. cbn [length skipn]. apply IH.
        pose proof (skipn_length_le (length pt) a). lia.
      * cbn [app]. f_equal. apply IH. lia.
Qed.

Lemma firstn_In_mono {A} (x : A) : forall k k' l, (k <= k')%nat -> In x (firstn k l) -> In x (firstn k' l).
Proof.
  induction k as [|k IH]; intros k' l Hk H; [destruct H|].
  destruct l as [|h t]; [destruct H|]. destruct k' as [|k']; [lia|]. cbn [firstn In] in *.
  destruct H as [H|H]; [left; exact H|right; apply (IH k'); [lia|exact H]].
Qed.
Lemma In_firstn {A} (x : A) k l : In x (firstn k l) -> In x l.
Proof. intros H. rewrite <- (firstn_skipn k l). apply in_or_app. left. exact H. Qed.
(* R6: no occurrence where some pattern character cannot be reached *)
Lemma str_replace_skip_far p0 pt rep x : In x (p0 :: pt) -> forall a b,
  ~ In x a -> ~ In x (firstn (length pt) b) ->
  str_replace (p0 :: pt) rep (a ++ b) = a ++ str_replace (p0 :: pt) rep b.
Proof.
  intros Hx. induction a as [|c a IH]; intros b Ha Hb; [reflexivity|].
  cbn [app]. rewrite str_replace_cons.
  destruct (is_prefix (p0 :: pt) (c :: a ++ b)) eqn:Ep.
  - exfalso. apply is_prefix_firstn in Ep. rewrite <- Ep in Hx.
    change (c :: a ++ b) with ((c :: a) ++ b) in Hx. rewrite firstn_app in Hx. apply in_app_iff in Hx.
    destruct Hx as [Hx|Hx].
    + apply Ha. apply In_firstn in Hx. exact Hx.
    + apply Hb. revert Hx. apply firstn_In_mono. cbn [length]. lia.
  - f_equal. apply IH; cbn [In] in Ha; tauto.
Qed.

Lemma str_replace_chars p0 pt rep (P : Z -> Prop) : (forall x, In x rep -> P x) ->
  forall n s, (length s <= n)%nat -> (forall x, In x s -> P x) -> forall x, In x (str_replace (p0 :: pt) rep s) -> P x.
Proof.
  intros Hrep. induction n as [|n IH]; intros s Hlen Hs x Hx.
  - destruct s; [destruct Hx|cbn in Hlen; lia].
  - destruct s as [|c r]; [destruct Hx|]. rewrite str_replace_cons in Hx. cbn [length] in Hlen.
    destruct (is_prefix (p0 :: pt) (c :: r)).
    + apply in_app_iff in Hx. destruct Hx as [Hx|Hx]; [apply Hrep; exact Hx|].
      revert Hx. apply IH.
      * cbn [length skipn]. pose proof (skipn_length_le (length pt) r). lia.
      * intros y Hy. apply Hs. cbn [length skipn] in Hy. right. revert Hy. clear. revert r.
        induction (length pt) as [|k IHk]; intros r Hy; [exact Hy|]. destruct r as [|h t]; [destruct Hy|].
        right. apply IHk. exact Hy.
    + destruct Hx as [<-|Hx]; [apply Hs; left; reflexivity|]. revert Hx. apply IH; [lia|].
      intros y Hy. apply Hs. right. exact Hy.
Qed.
Lemma str_replace_nonempty p0 pt rep s : rep <> [] -> s <> [] -> str_replace (p0 :: pt) rep s <> [].
Proof.
  intros Hrep Hs. destruct s as [|c r]; [congruence|]. rewrite str_replace_cons.
  destruct (is_prefix (p0 :: pt) (c :: r)); [|discriminate].
  destruct rep; [congruence|discriminate].
Qed.

(* ---- the regular-expression substitution that removes the class attribute ---- *)
Lemma span_not_length q : forall s, (length (snd (span_not q s)) <= length s)%nat.
Proof.
  induction s as [|c r IH]; [cbn; lia|]. cbn [span_not]. destruct (c =? q); [cbn; lia|].
  destruct (span_not q r) as [a b]. cbn [snd length] in *. lia.
Qed.
Lemma span_not_app q : forall body rest, ~ In q body -> span_not q (body ++ q :: rest) = (body, q :: rest).
Proof.
  induction body as [|c t IH]; intros rest H.
  - cbn [app span_not]. rewrite Z.eqb_refl. reflexivity.
  - cbn [In] in H. cbn [app span_not]. assert (E : (c =? q) = false) by (apply Z.eqb_neq; intro; subst; tauto).
    rewrite E, IH by tauto. reflexivity.
Qed.

Definition re_body (c : Z) (r : str) (k : str -> str) : str :=
  if is_py_space c && is_prefix (lit "class=""") r then
    let '(body, rest) := span_not 34 (skipn 7 r) in
    match body, rest with
    | _ :: _, _ :: rest' => k rest'
    | _, _ => c :: k r
    end
  else c :: k r.

Lemma re_sub_class_fuel_enough : forall f1 f2 s, (length s <= f1)%nat -> (length s <= f2)%nat ->
  re_sub_class_fuel f1 s = re_sub_class_fuel f2 s.
Proof.
  induction f1 as [|f1 IH]; intros f2 s H1 H2.
  - destruct s; [|cbn in H1; lia]. destruct f2; reflexivity.
  - destruct f2 as [|f2]; [destruct s; [reflexivity|cbn in H2; lia]|].
    destruct s as [|c r]; [reflexivity|]. cbn [re_sub_class_fuel]. cbn [length] in H1, H2.
    destruct (is_py_space c && is_prefix (lit "class=""") r).
    + pose proof (span_not_length 34 (skipn 7 r)) as Hl. pose proof (skipn_length_le 7 r) as Hl2.
      destruct (span_not 34 (skipn 7 r)) as [body rest]. cbn [snd] in Hl.
      destruct body as [|b0 bt]; [f_equal; apply IH; lia|].
      destruct rest as [|r0 rest']; [f_equal; apply IH; lia|].
      cbn [length] in Hl. apply IH; lia.
    + f_equal. apply IH; lia.
Qed.
Lemma re_sub_class_cons c r : re_sub_class (c :: r) = re_body c r re_sub_class.
Proof.
  unfold re_sub_class at 1, re_body. cbn [length re_sub_class_fuel].
  destruct (is_py_space c && is_prefix (lit "class=""") r).
  - pose proof (span_not_length 34 (skipn 7 r)) as Hl. pose proof (skipn_length_le 7 r) as Hl2.
    destruct (span_not 34 (skipn 7 r)) as [body rest]. cbn [snd] in Hl.
    destruct body as [|b0 bt]; [reflexivity|]. destruct rest as [|r0 rest']; [reflexivity|].
    cbn [length] in Hl. apply re_sub_class_fuel_enough; lia.
  - reflexivity.
Qed.
Lemma re_sub_class_skip : forall a b, (forall x, In x a -> is_py_space x = false) ->
  re_sub_class (a ++ b) = a ++ re_sub_class b.
Proof.
  induction a as [|c a IH]; intros b H; [reflexivity|].
  cbn [app]. rewrite re_sub_class_cons. unfold re_body. rewrite (H c) by (left; reflexivity). cbn [andb].
  rewrite IH; [reflexivity|]. intros x Hx. apply H. right. exact Hx.
Qed.
Lemma re_sub_class_match body rest : body <> [] -> ~ In 34 body ->
  re_sub_class (32 :: lit "class=""" ++ body ++ 34 :: rest) = re_sub_class rest.
Proof.
  intros Hne Hq. rewrite re_sub_class_cons. unfold re_body.
  change (is_py_space 32) with true. cbn [andb].
  change (lit "class=""") with [99; 108; 97; 115; 115; 61; 34]. cbn [app is_prefix].
  rewrite !Z.eqb_refl. cbn [andb skipn]. rewrite span_not_app by exact Hq.
  destruct body; [congruence|]. reflexivity.
Qed.

(* ================= Part G: the characters of a web colour ================= *)
Definition safe (x : Z) : bool := negb (memZ x [34; 38; 39; 47; 60; 62; 115]) && negb (is_py_space x).
Definition rng (v : Z) : Prop := -15 <= v <= 255.

Lemma digit_safe_fin : forallb safe (zrange 48 58) = true.
Proof. vm_compute. reflexivity. Qed.
Lemma digit_safe x : is_digit x = true -> safe x = true.
Proof.
  intros H. pose proof digit_safe_fin as F. rewrite forallb_forall in F. apply F. apply zrange_In.
  unfold is_digit in H. apply andb_true_iff in H. destruct H as [H1 H2]. apply Z.leb_le in H1, H2. lia.
Qed.
Lemma hexdigit_safe_fin : forallb (fun v => safe (hexdigit v)) (zrange 0 16) = true.
Proof. vm_compute. reflexivity. Qed.
Lemma hexdigit_safe v : 0 <= v <= 15 -> safe (hexdigit v) = true.
Proof.
  intros H. pose proof hexdigit_safe_fin as F. rewrite forallb_forall in F. apply F. apply zrange_In. lia.
Qed.
Lemma dec_safe z : forallb safe (dec z) = true.
Proof.
  apply forallb_forall. intros x Hx. pose proof (dec_numch z) as F. rewrite Forall_forall in F.
  specialize (F x Hx). unfold numch in F. apply orb_true_iff in F. destruct F as [F|F].
  - apply orb_true_iff in F. destruct F as [F|F]; [apply digit_safe; exact F|].
    apply Z.eqb_eq in F. subst. reflexivity.
  - apply Z.eqb_eq in F. subst. reflexivity.
Qed.
Lemma dec_nat_safe n : 0 <= n -> forallb safe (dec_nat n) = true.
Proof.
  intros H. apply forallb_forall. intros x Hx. pose proof (dec_nat_numch n H) as F. rewrite Forall_forall in F.
  apply digit_safe, F, Hx.
Qed.

Lemma strip_zeros_rev_In x : forall l, In x (strip_zeros_rev l) -> In x l.
Proof.
  induction l as [|c t IH]; intros H; [exact H|]. cbn [strip_zeros_rev] in H.
  destruct (Z.eq_dec c 48) as [->|Hne].
  - right. apply IH. exact H.
  - assert (Hs : strip_zeros_rev (c :: t) = c :: t).
    { cbn [strip_zeros_rev]. destruct c as [|p|p]; try reflexivity.
      do 6 (destruct p as [p|p|]; try reflexivity). congruence. }
    cbn [strip_zeros_rev] in Hs. rewrite Hs in H. exact H.
Qed.
Lemma alpha_str_safe u : forallb safe (alpha_str u) = true.
Proof.
  unfold alpha_str. set (f := u mod 10000).
  assert (Hf : 0 <= f < 10000) by (apply Z.mod_pos_bound; lia).
  set (ds := [48 + f / 1000; 48 + f / 100 mod 10; 48 + f / 10 mod 10; 48 + f mod 10]).
  assert (Hds : forall x, In x ds -> is_digit x = true).
  { intros x Hx. unfold is_digit. unfold ds in Hx. cbn [In] in Hx.
    assert (0 <= f / 1000 < 10) by (split; [apply Z.div_pos; lia|apply Z.div_lt_upper_bound; lia]).
    pose proof (Z.mod_pos_bound (f / 100) 10). pose proof (Z.mod_pos_bound (f / 10) 10). pose proof (Z.mod_pos_bound f 10).
    destruct Hx as [<-|[<-|[<-|[<-|[]]]]]; apply andb_true_iff; split; apply Z.leb_le; lia. }
  rewrite !forallb_app, dec_safe. cbn [forallb andb]. change (safe 46) with true. cbn [andb].
  destruct (rev (strip_zeros_rev (rev ds))) eqn:E; [reflexivity|]. rewrite <- E.
  apply forallb_forall. intros x Hx. apply digit_safe, Hds.
  apply in_rev in Hx. apply strip_zeros_rev_In in Hx. apply in_rev in Hx. exact Hx.
Qed.

Lemma fmt02x_safe v : rng v -> forallb safe (fmt02x v) = true.
Proof.
  intros [H1 H2]. unfold fmt02x. destruct (v <? 0) eqn:E.
  - apply Z.ltb_lt in E. cbn [forallb]. rewrite hexdigit_safe by lia. reflexivity.
  - apply Z.ltb_ge in E. cbn [forallb].
    rewrite !hexdigit_safe; [reflexivity| |].
    + pose proof (Z.mod_pos_bound v 16). lia.
    + split; [apply Z.div_pos; lia|]. assert (v / 16 < 16) by (apply Z.div_lt_upper_bound; lia). lia.
Qed.
Lemma fmt02x_len v : exists a b, fmt02x v = [a; b].
Proof. unfold fmt02x. destruct (v <? 0); eauto. Qed.

Lemma hex_optimized_safe r g b : rng r -> rng g -> rng b -> forallb safe (hex_optimized r g b) = true.
Proof.
  intros Hr Hg Hb. unfold hex_optimized.
  pose proof (fmt02x_safe r Hr) as Sr. pose proof (fmt02x_safe g Hg) as Sg. pose proof (fmt02x_safe b Hb) as Sb.
  destruct (fmt02x_len r) as (r1 & r2 & Er). destruct (fmt02x_len g) as (g1 & g2 & Eg). destruct (fmt02x_len b) as (b1 & b2 & Eb).
  rewrite Er, Eg, Eb in *. cbn [app].
  destruct (str_eqb _ (lit "#d2b48c")); [reflexivity|]. destruct (str_eqb _ (lit "#ff0000")); [reflexivity|].
  cbn [forallb] in Sr, Sg, Sb.
  apply andb_true_iff in Sr, Sg, Sb. destruct Sr as [Sr1 Sr2], Sg as [Sg1 Sg2], Sb as [Sb1 Sb2].
  rewrite andb_true_r in Sr2, Sg2, Sb2.
  destruct ((r1 =? r2) && (g1 =? g2) && (b1 =? b2)); cbn [forallb]; change (safe 35) with true;
    rewrite ?Sr1, ?Sr2, ?Sg1, ?Sg2, ?Sb1, ?Sb2; reflexivity.
Qed.

Lemma hexval_range c v : hexval c = Some v -> 0 <= v <= 15.
Proof.
  unfold hexval. destruct ((48 <=? c) && (c <=? 57)) eqn:E1.
  - intros H; inversion H; subst. apply andb_true_iff in E1. destruct E1 as [A B]. apply Z.leb_le in A, B. lia.
  - destruct ((97 <=? c) && (c <=? 102)) eqn:E2.
    + intros H; inversion H; subst. apply andb_true_iff in E2. destruct E2 as [A B]. apply Z.leb_le in A, B. lia.
    + destruct ((65 <=? c) && (c <=? 70)) eqn:E3; [|discriminate].
      intros H; inversion H; subst. apply andb_true_iff in E3. destruct E3 as [A B]. apply Z.leb_le in A, B. lia.
Qed.
Lemma Ok_inj {A} (a b : A) : @Ok A a = Ok b -> a = b.
Proof. intros H. inversion H. reflexivity. Qed.
Lemma int16_2_range a b v : int16_2 a b = Ok v -> rng v.
Proof.
  unfold int16_2, rng. destruct (hexval a) as [x|] eqn:Ea; destruct (hexval b) as [y|] eqn:Eb; try discriminate.
  apply hexval_range in Ea, Eb. intros H; apply Ok_inj in H; subst v. lia.
Qed.
Lemma pairs_hex_range : forall n s vals, (length s <= n)%nat -> pairs_hex s = Ok vals -> Forall rng vals.
Proof.
  induction n as [|n IH]; intros s vals Hlen H.
  - destruct s; [|cbn in Hlen; lia]. inversion H. constructor.
  - destruct s as [|a [|b r]]; [inversion H; constructor|discriminate|].
    cbn [pairs_hex] in H. destruct (int16_2 a b) as [v|] eqn:Ev; [|discriminate]. cbn [bind] in H.
    destruct (pairs_hex r) as [t|] eqn:Et; [|discriminate]. cbn [bind] in H. inversion H; subst.
    constructor; [eapply int16_2_range; eauto|]. apply (IH r); [cbn in Hlen; lia|exact Et].
Qed.

Definition rng3 (l : list Z) : Prop := match l with r :: g :: b :: _ => rng r /\ rng g /\ rng b | _ => True end.
Lemma Forall_rng3 l : Forall rng l -> rng3 l.
Proof.
  intros H. destruct l as [|r [|g [|b t]]]; cbn; auto.
  inversion H as [|? ? H1 H']; subst. inversion H' as [|? ? H2 H'']; subst. inversion H'' as [|? ? H3 _]; subst. auto.
Qed.
Lemma hex_range s l : hex_to_rgb_or_rgba s true = Ok l -> rng3 l.
Proof.
  unfold hex_to_rgb_or_rgba. destruct s as [|c0 rest]; [discriminate|].
  set (c1 := if c0 =? 35 then rest else c0 :: rest).
  set (c2 := if (2 <? lenZ c1) && (lenZ c1 <? 5) then flat_map (fun c => [c; c]) c1 else c1).
  destruct (negb ((lenZ c2 =? 6) || (lenZ c2 =? 8))); [discriminate|].
  destruct (pairs_hex c2) as [vals|] eqn:Ev; [|discriminate]. cbn [bind].
  pose proof (pairs_hex_range _ c2 vals (le_n _) Ev) as Hr.
  destruct (true && (lenZ c2 =? 8)).
  - destruct vals as [|r [|g [|b [|a [|x t]]]]]; try discriminate.
    destruct (alpha_value a true) as [a'|]; [|discriminate]. cbn [bind]. intros H; inversion H; subst.
    apply Forall_rng3 in Hr. exact Hr.
  - intros H; inversion H; subst. apply Forall_rng3. exact Hr.
Qed.

Lemma name_table_range : forallb (fun kv => let '(r, g, b) := snd kv in
  (0 <=? r) && (r <=? 255) && (0 <=? g) && (g <=? 255) && (0 <=? b) && (b <=? 255)) NAME2RGB = true.
Proof. vm_compute. reflexivity. Qed.
Lemma assoc_str_In {A} k : forall (l : list (str * A)) v, assoc_str k l = Some v -> exists k', In (k', v) l.
Proof.
  induction l as [|[k' v'] t IH]; intros v H; [discriminate|]. cbn [assoc_str] in H.
  destruct (str_eqb k k').
  - inversion H; subst. exists k'. left. reflexivity.
  - destruct (IH v H) as (k'' & Hin). exists k''. right. exact Hin.
Qed.

Lemma rgba_range c l : color_to_rgba c true = Ok l -> rng3 l.
Proof.
  unfold color_to_rgba. destruct c as [s|parts].
  - destruct (assoc_str (py_lower s) NAME2RGB) as [[[r g] b]|] eqn:En.
    + intros H; inversion H; subst. apply assoc_str_In in En. destruct En as (k' & Hin).
      pose proof name_table_range as F. rewrite forallb_forall in F. specialize (F _ Hin). cbn [snd] in F.
      repeat (apply andb_true_iff in F; destruct F as [F ?]).
      repeat match goal with H : (_ <=? _) = true |- _ => apply Z.leb_le in H end. cbn. unfold rng. lia.
    + destruct (hex_to_rgb_or_rgba s true) as [l'|e] eqn:Eh.
      * apply hex_range in Eh. destruct l' as [|r [|g [|b [|x t]]]]; intros H; inversion H; subst; try exact Eh.
      * destruct e; discriminate.
  - destruct parts as [|r [|g [|b [|a [|x t]]]]]; try discriminate.
    + destruct ((0 <=? r) && (r <=? 255) && ((0 <=? g) && (g <=? 255)) && ((0 <=? b) && (b <=? 255))) eqn:E; [|discriminate].
      intros H; inversion H; subst.
      repeat (apply andb_true_iff in E; destruct E as [E ?]).
      repeat match goal with H : _ && _ = true |- _ => apply andb_true_iff in H; destruct H end.
      repeat match goal with H : (_ <=? _) = true |- _ => apply Z.leb_le in H end. cbn. unfold rng. lia.
    + destruct ((0 <=? r) && (r <=? 255) && ((0 <=? g) && (g <=? 255)) && ((0 <=? b) && (b <=? 255))) eqn:E; [|discriminate].
      destruct (alpha_value a true) as [a'|]; [|discriminate]. cbn [bind].
      intros H; inversion H; subst.
      repeat (apply andb_true_iff in E; destruct E as [E ?]).
      repeat match goal with H : _ && _ = true |- _ => apply andb_true_iff in H; destruct H end.
      repeat match goal with H : (_ <=? _) = true |- _ => apply Z.leb_le in H end. cbn. unfold rng. lia.
Qed.

Definition wc_text (w : webcolor) : str := match w with WPlain s => s | WAlpha s _ => s end.
Lemma webcolor_safe c css w : color_to_webcolor c css = Ok w -> forallb safe (wc_text w) = true.
Proof.
  unfold color_to_webcolor. destruct (color_is_black c); [intros H; inversion H; reflexivity|].
  destruct (color_is_white c); [intros H; inversion H; reflexivity|].
  unfold color_to_rgb_or_rgba. destruct (color_to_rgba c true) as [l|] eqn:El; [|discriminate]. cbn [bind].
  apply rgba_range in El.
  assert (Hcase : forall l', rng3 l' ->
     match l' with
     | [r; g; b; a] => if css then Ok (WPlain (lit "rgba(" ++ dec r ++ [44] ++ dec g ++ [44] ++ dec b ++ [44] ++ alpha_str a ++ [41]))
                       else Ok (WAlpha (hex_optimized r g b) a)
     | [r; g; b] => Ok (WPlain (hex_optimized r g b))
     | _ => Err ValueError
     end = Ok w -> forallb safe (wc_text w) = true).
  { intros l' Hl'. destruct l' as [|r [|g [|b [|a [|x t]]]]]; try discriminate.
    - destruct Hl' as (Hr & Hg & Hb). intros H; inversion H; subst. apply hex_optimized_safe; assumption.
    - destruct Hl' as (Hr & Hg & Hb). destruct css; intros H; inversion H; subst; cbn [wc_text].
      + change (forallb safe (lit "rgba(" ++ dec r ++ [44] ++ dec g ++ [44] ++ dec b ++ [44] ++ alpha_str a ++ [41]) = true).
        rewrite !forallb_app, !dec_safe, alpha_str_safe. reflexivity.
      + apply hex_optimized_safe; assumption. }
  destruct l as [|r [|g [|b [|a [|x t]]]]]; cbn [bind].
  - exact (Hcase [] El).
  - exact (Hcase [r] El).
  - exact (Hcase [r; g] El).
  - exact (Hcase [r; g; b] El).
  - destruct (a =? opaque true); cbn [bind]; [exact (Hcase [r; g; b] El)|exact (Hcase [r; g; b; a] El)].
  - exact (Hcase (r :: g :: b :: a :: x :: t) El).
Qed.

Lemma safe_facts x : safe x = true ->
  x <> 34 /\ x <> 38 /\ x <> 39 /\ x <> 47 /\ x <> 60 /\ x <> 62 /\ x <> 115 /\ is_py_space x = false
  /\ x <> 10 /\ x <> 13 /\ x <> 9 /\ x <> 32.
Proof.
  unfold safe. intros H. apply andb_true_iff in H. destruct H as [H1 H2].
  apply negb_true_iff in H1, H2. apply memZ_false in H1. cbn [In] in H1.
  assert (forall y, is_py_space y = false -> y <> 10 /\ y <> 13 /\ y <> 9 /\ y <> 32).
  { intros y Hy. repeat split; intro; subst; discriminate. }
  specialize (H x H2). repeat split; try tauto; intro; subst; tauto.
Qed.

(* quoteattr on a string without special characters just adds double quotes *)
Lemma quoteattr_safe s : forallb safe s = true -> quoteattr s = 34 :: s ++ [34].
Proof.
  intros H. unfold quoteattr.
  assert (Hd : flat_map attr_cp s = s).
  { induction s as [|c t IH]; [reflexivity|]. cbn [forallb] in H. apply andb_true_iff in H. destruct H as [Hc Ht].
    cbn [flat_map]. rewrite IH by exact Ht. apply safe_facts in Hc.
    unfold attr_cp, escape_cp.
    replace (c =? 10) with false by (symmetry; apply Z.eqb_neq; tauto).
    replace (c =? 13) with false by (symmetry; apply Z.eqb_neq; tauto).
    replace (c =? 9) with false by (symmetry; apply Z.eqb_neq; tauto).
    replace (c =? 38) with false by (symmetry; apply Z.eqb_neq; tauto).
    replace (c =? 62) with false by (symmetry; apply Z.eqb_neq; tauto).
    replace (c =? 60) with false by (symmetry; apply Z.eqb_neq; tauto). reflexivity. }
  rewrite Hd.
  assert (Hq : memZ 34 s = false).
  { apply memZ_false. intro Hin. rewrite forallb_forall in H. apply H, safe_facts in Hin. tauto. }
  rewrite Hq. reflexivity.
Qed.

(* ================= Part H: the background path after the textual fix-up ================= *)
Ltac norm_lit :=
  repeat match goal with
         | |- context [lit ?s] => let v := eval vm_compute in (lit s) in change (lit s) with v
         end.
Ltac reassoc := norm_lit; rewrite ?app_nil_r; repeat (progress (repeat rewrite <- app_assoc; cbn [app])); rewrite ?app_nil_r; reflexivity.

Definition Rs : str -> str := str_replace (lit "stroke") (lit "fill").
Lemma Rs_delim a b : Rs (a ++ 34 :: b) = Rs a ++ 34 :: Rs b.
Proof.
  unfold Rs. change (lit "stroke") with [115; 116; 114; 111; 107; 101].
  apply (str_replace_delim 115 [116; 114; 111; 107; 101] (lit "fill") 34) with (n := length a); [|lia].
  cbn [In]. lia.
Qed.
Lemma Rs_skip a b : ~ In 115 a -> Rs (a ++ b) = a ++ Rs b.
Proof. intros H. unfold Rs. change (lit "stroke") with [115; 116; 114; 111; 107; 101]. apply str_replace_skip. exact H. Qed.
Lemma Rs_id a : ~ In 115 a -> Rs a = a.
Proof. intros H. rewrite <- (app_nil_r a) at 1. rewrite Rs_skip by exact H. unfold Rs. rewrite str_replace_nil, app_nil_r. reflexivity. Qed.
Lemma safe_no s x : forallb safe s = true -> In x s -> safe x = true.
Proof. intros H. rewrite forallb_forall in H. apply H. Qed.
Lemma safe_not_s s : forallb safe s = true -> ~ In 115 s.
Proof. intros H Hin. apply (safe_no s 115 H) in Hin. discriminate. Qed.

Definition cls_ok (clspart : str) : Prop :=
  clspart = [] \/ exists d, clspart = lit " class=""" ++ d ++ [34] /\ d <> [] /\ ~ In 34 d /\ ~ In 62 d.
Definition strokepart (w : webcolor) : str :=
  match w with
  | WPlain c => lit " stroke=" ++ quoteattr c
  | WAlpha c a => lit " stroke=" ++ quoteattr c ++ lit " stroke-opacity=" ++ quoteattr (alpha_str a)
  end.
Definition fillpart (w : webcolor) : str :=
  match w with
  | WPlain c => lit " fill=""" ++ c ++ [34]
  | WAlpha c a => lit " fill=""" ++ c ++ lit """ fill-opacity=""" ++ alpha_str a ++ [34]
  end.
Definition bg_tail (m : Z) : str := [118] ++ dec m ++ lit "h-" ++ dec m ++ lit "z""/>".

Lemma Rs_strokepart w rest : forallb safe (wc_text w) = true ->
  Rs (strokepart w ++ rest) = fillpart w ++ Rs rest.
Proof.
  intros Hs. destruct w as [c|c a]; cbn [wc_text] in Hs; unfold strokepart, fillpart.
  - rewrite (quoteattr_safe c Hs).
    replace ((lit " stroke=" ++ 34 :: c ++ [34]) ++ rest) with (lit " stroke=" ++ 34 :: c ++ 34 :: rest) by reassoc.
    rewrite Rs_delim, Rs_delim. rewrite (Rs_id c) by (apply safe_not_s; exact Hs).
    change (Rs (lit " stroke=")) with (lit " fill="). reassoc.
  - rewrite (quoteattr_safe c Hs), (quoteattr_safe (alpha_str a) (alpha_str_safe a)).
    replace ((lit " stroke=" ++ (34 :: c ++ [34]) ++ lit " stroke-opacity=" ++ 34 :: alpha_str a ++ [34]) ++ rest)
      with (lit " stroke=" ++ 34 :: c ++ 34 :: lit " stroke-opacity=" ++ 34 :: alpha_str a ++ 34 :: rest) by reassoc.
    rewrite Rs_delim, Rs_delim, Rs_delim, Rs_delim.
    rewrite (Rs_id c) by (apply safe_not_s; exact Hs).
    rewrite (Rs_id (alpha_str a)) by (apply safe_not_s, alpha_str_safe).
    change (Rs (lit " stroke=")) with (lit " fill=").
    change (Rs (lit " stroke-opacity=")) with (lit " fill-opacity="). reassoc.
Qed.

Definition cls_fixed (clspart : str) : str :=
  match clspart with [] => [] | _ => lit " class=""" ++ Rs (removelast (skipn 8 clspart)) ++ [34] end.

Lemma Rs_head clspart rest : cls_ok clspart ->
  Rs (lit "<path" ++ clspart ++ rest) = lit "<path" ++ cls_fixed clspart ++ Rs rest.
Proof.
  intros [->|(d & -> & Hne & Hq & Hgt)].
  - cbn [app cls_fixed]. rewrite Rs_skip; [reflexivity|]. norm_lit. cbn [In]. lia.
  - assert (Hfix : cls_fixed (lit " class=""" ++ d ++ [34]) = lit " class=""" ++ Rs d ++ [34]).
    { unfold cls_fixed. norm_lit. cbn [app skipn]. rewrite removelast_last. reflexivity. }
    rewrite Hfix.
    replace (lit "<path" ++ (lit " class=""" ++ d ++ [34]) ++ rest) with (lit "<path class=" ++ 34 :: d ++ 34 :: rest) by reassoc.
    rewrite Rs_delim, Rs_delim. change (Rs (lit "<path class=")) with (lit "<path class="). reassoc.
Qed.

Lemma not_ws_safe s : forallb safe s = true -> forall x, In x s -> is_py_space x = false.
Proof. intros H x Hx. apply (safe_no s x H) in Hx. apply safe_facts in Hx. tauto. Qed.
Lemma not_ws_forallb s : forallb (fun x => negb (is_py_space x)) s = true -> forall x, In x s -> is_py_space x = false.
Proof. intros H x Hx. rewrite forallb_forall in H. apply H in Hx. apply negb_true_iff in Hx. exact Hx. Qed.

(* one white space character that is not followed by the class attribute *)
Lemma re_ws_other x r : is_prefix (lit "class=""") (x :: r) = false ->
  re_sub_class (32 :: x :: r) = 32 :: re_sub_class (x :: r).
Proof. intros H. rewrite re_sub_class_cons. unfold re_body. rewrite H, andb_false_r. reflexivity. Qed.

Lemma re_d_tail m : re_sub_class (lit " d=""M0 0h" ++ dec m ++ bg_tail m) = lit " d=""M0 0h" ++ dec m ++ bg_tail m.
Proof.
  replace (lit " d=""M0 0h" ++ dec m ++ bg_tail m)
    with (32 :: 100 :: (lit "=""M0" ++ 32 :: 48 :: ((104 :: dec m ++ bg_tail m) ++ []))) by reassoc.
  rewrite re_ws_other by reflexivity. f_equal.
  change (100 :: lit "=""M0" ++ 32 :: 48 :: (104 :: dec m ++ bg_tail m) ++ [])
    with (lit "d=""M0" ++ 32 :: 48 :: (104 :: dec m ++ bg_tail m) ++ []).
  rewrite re_sub_class_skip by (apply not_ws_forallb; reflexivity). f_equal.
  rewrite re_ws_other by reflexivity. f_equal.
  change (48 :: (104 :: dec m ++ bg_tail m) ++ []) with ((48 :: 104 :: dec m ++ bg_tail m) ++ []).
  rewrite re_sub_class_skip; [reflexivity|].
  intros x Hx. unfold bg_tail in Hx. cbn [In] in Hx. destruct Hx as [<-|[<-|Hx]]; [reflexivity|reflexivity|].
  rewrite !in_app_iff in Hx. destruct Hx as [Hx|[Hx|[Hx|[Hx|[Hx|Hx]]]]].
  - apply (not_ws_safe _ (dec_safe m) x Hx).
  - destruct Hx as [<-|[]]. reflexivity.
  - apply (not_ws_safe _ (dec_safe m) x Hx).
  - revert x Hx. apply not_ws_forallb. reflexivity.
  - apply (not_ws_safe _ (dec_safe m) x Hx).
  - revert x Hx. apply not_ws_forallb. reflexivity.
Qed.

Lemma re_fill_rest w m : forallb safe (wc_text w) = true ->
  re_sub_class (fillpart w ++ lit " d=""M0 0h" ++ dec m ++ bg_tail m)
  = fillpart w ++ lit " d=""M0 0h" ++ dec m ++ bg_tail m.
Proof.
  intros Hs. destruct w as [c|c a]; cbn [wc_text] in Hs; unfold fillpart.
  - replace ((lit " fill=""" ++ c ++ [34]) ++ lit " d=""M0 0h" ++ dec m ++ bg_tail m)
      with (32 :: 102 :: ((lit "ill=""" ++ c ++ [34]) ++ (lit " d=""M0 0h" ++ dec m ++ bg_tail m))) by reassoc.
    rewrite re_ws_other by reflexivity. f_equal.
    change (102 :: (lit "ill=""" ++ c ++ [34]) ++ lit " d=""M0 0h" ++ dec m ++ bg_tail m)
      with ((lit "fill=""" ++ c ++ [34]) ++ lit " d=""M0 0h" ++ dec m ++ bg_tail m).
    rewrite re_sub_class_skip, re_d_tail; [reflexivity|].
    intros x Hx. rewrite !in_app_iff in Hx. destruct Hx as [Hx|[Hx|Hx]].
    + revert x Hx. apply not_ws_forallb. reflexivity.
    + apply (not_ws_safe c Hs x Hx).
    + destruct Hx as [<-|[]]. reflexivity.
  - replace ((lit " fill=""" ++ c ++ lit """ fill-opacity=""" ++ alpha_str a ++ [34]) ++ lit " d=""M0 0h" ++ dec m ++ bg_tail m)
      with (32 :: 102 :: ((lit "ill=""" ++ c ++ [34]) ++ 32 :: 102 :: ((lit "ill-opacity=""" ++ alpha_str a ++ [34]) ++ (lit " d=""M0 0h" ++ dec m ++ bg_tail m))))
      by reassoc.
    rewrite re_ws_other by reflexivity. f_equal.
    change (102 :: (lit "ill=""" ++ c ++ [34]) ++ 32 :: 102 :: (lit "ill-opacity=""" ++ alpha_str a ++ [34]) ++ lit " d=""M0 0h" ++ dec m ++ bg_tail m)
      with ((lit "fill=""" ++ c ++ [34]) ++ 32 :: 102 :: (lit "ill-opacity=""" ++ alpha_str a ++ [34]) ++ lit " d=""M0 0h" ++ dec m ++ bg_tail m).
    rewrite re_sub_class_skip.
    + f_equal. rewrite re_ws_other by reflexivity. f_equal.
      change (102 :: (lit "ill-opacity=""" ++ alpha_str a ++ [34]) ++ lit " d=""M0 0h" ++ dec m ++ bg_tail m)
        with ((lit "fill-opacity=""" ++ alpha_str a ++ [34]) ++ lit " d=""M0 0h" ++ dec m ++ bg_tail m).
      rewrite re_sub_class_skip, re_d_tail; [reflexivity|].
      intros x Hx. rewrite !in_app_iff in Hx. destruct Hx as [Hx|[Hx|Hx]].
      * revert x Hx. apply not_ws_forallb. reflexivity.
      * apply (not_ws_safe _ (alpha_str_safe a) x Hx).
      * destruct Hx as [<-|[]]. reflexivity.
    + intros x Hx. rewrite !in_app_iff in Hx. destruct Hx as [Hx|[Hx|Hx]].
      * revert x Hx. apply not_ws_forallb. reflexivity.
      * apply (not_ws_safe c Hs x Hx).
      * destruct Hx as [<-|[]]. reflexivity.
Qed.

Lemma no_gt_forallb s : forallb (fun x => negb (x =? 62)) s = true -> ~ In 62 s.
Proof. intros H Hin. rewrite forallb_forall in H. apply H in Hin. discriminate. Qed.
Lemma fillpart_no_gt w : forallb safe (wc_text w) = true -> ~ In 62 (fillpart w).
Proof.
  intros Hs Hin. destruct w as [c|c a]; cbn [wc_text] in Hs; unfold fillpart in Hin; rewrite !in_app_iff in Hin.
  - destruct Hin as [Hin|[Hin|Hin]].
    + revert Hin. apply no_gt_forallb. reflexivity.
    + apply (safe_no c 62 Hs) in Hin. discriminate.
    + cbn [In] in Hin. lia.
  - destruct Hin as [Hin|[Hin|[Hin|[Hin|Hin]]]].
    + revert Hin. apply no_gt_forallb. reflexivity.
    + apply (safe_no c 62 Hs) in Hin. discriminate.
    + revert Hin. apply no_gt_forallb. reflexivity.
    + apply (safe_no _ 62 (alpha_str_safe a)) in Hin. discriminate.
    + cbn [In] in Hin. lia.
Qed.

Lemma cls_fixed_ok clspart : cls_ok clspart ->
  cls_fixed clspart = [] \/
  exists d', cls_fixed clspart = 32 :: lit "class=""" ++ d' ++ [34] /\ d' <> [] /\ ~ In 34 d' /\ ~ In 62 d'.
Proof.
  intros [->|(d & -> & Hne & Hq & Hgt)]; [left; reflexivity|]. right.
  exists (Rs d). split; [|split; [|split]].
  - unfold cls_fixed. norm_lit. cbn [app skipn]. rewrite removelast_last. reflexivity.
  - unfold Rs. change (lit "stroke") with [115; 116; 114; 111; 107; 101]. apply str_replace_nonempty; [discriminate|exact Hne].
  - intro Hin. unfold Rs in Hin. change (lit "stroke") with [115; 116; 114; 111; 107; 101] in Hin.
    apply (str_replace_chars 115 _ (lit "fill") (fun x => x <> 34)) with (n := length d) (s := d) in Hin; [congruence| |lia|].
    + intros x Hx. revert Hx. norm_lit. cbn [In]. lia.
    + intros x Hx ->. contradiction.
  - intro Hin. unfold Rs in Hin. change (lit "stroke") with [115; 116; 114; 111; 107; 101] in Hin.
    apply (str_replace_chars 115 _ (lit "fill") (fun x => x <> 62)) with (n := length d) (s := d) in Hin; [congruence| |lia|].
    + intros x Hx. revert Hx. norm_lit. cbn [In]. lia.
    + intros x Hx ->. contradiction.
Qed.

Lemma path_text_some p w cs :
  path_text p (Some w) cs = p ++ strokepart w ++ lit " d=""" ++ path_data true cs ++ lit """/>".
Proof. destruct w; reflexivity. Qed.
Theorem bg_fixup_result m clspart w : cls_ok clspart -> forallb safe (wc_text w) = true ->
  bg_fixup m (path_text (lit "<path" ++ [] ++ clspart) (Some w) [(0, 0, m)])
  = lit "<path" ++ fillpart w ++ lit " d=""M0 0h" ++ dec m ++ bg_tail m.
Proof.
  intros Hcls Hs. rewrite path_text_some. unfold bg_fixup.
  cbn [path_data]. change (dec 0) with [48]. change (print_half 0) with [48].
  fold Rs.
  (* stage 1: stroke -> fill *)
  replace ((lit "<path" ++ [] ++ clspart) ++ strokepart w ++ lit " d=""" ++ ([77] ++ [48] ++ [32] ++ [48] ++ [104] ++ dec m ++ []) ++ lit """/>")
    with (lit "<path" ++ clspart ++ strokepart w ++ ((lit " d=""M0 0h" ++ dec m) ++ lit """/>")) by reassoc.
  rewrite (Rs_head clspart _ Hcls), (Rs_strokepart w _ Hs).
  assert (Hd : Rs ((lit " d=""M0 0h" ++ dec m) ++ lit """/>") = (lit " d=""M0 0h" ++ dec m) ++ lit """/>").
  { apply Rs_id. rewrite !in_app_iff. intros [[H|H]|H].
    - revert H. norm_lit. cbn [In]. lia.
    - apply (safe_no _ 115 (dec_safe m)) in H. discriminate.
    - revert H. norm_lit. cbn [In]. lia. }
  rewrite Hd.
  pose proof (cls_fixed_ok clspart Hcls) as Hcls'.
  set (cls' := cls_fixed clspart) in *. clearbody cls'.
  (* stage 2: close the path *)
  replace (lit "<path" ++ cls' ++ fillpart w ++ (lit " d=""M0 0h" ++ dec m) ++ lit """/>")
    with ((lit "<path" ++ cls' ++ fillpart w ++ lit " d=""M0 0h" ++ dec m) ++ [34; 47; 62]) by reassoc.
  change (lit """/>") with [34; 47; 62].
  rewrite (str_replace_skip_far 34 [47; 62] _ 62).
  2: { cbn [In]. lia. }
  2: { rewrite !in_app_iff. intros [H|[H|[H|[H|H]]]].
       - revert H. norm_lit. cbn [In]. lia.
       - destruct Hcls' as [->|(d' & -> & _ & _ & Hgt)]; [destruct H|].
         destruct H as [H|H]; [lia|]. rewrite !in_app_iff in H.
         destruct H as [H|[H|H]]; [revert H; norm_lit; cbn [In]; lia|contradiction|cbn [In] in H; lia].
       - apply (fillpart_no_gt w Hs H).
       - revert H. norm_lit. cbn [In]. lia.
       - apply (safe_no _ 62 (dec_safe m)) in H. discriminate. }
  2: { cbn. lia. }
  assert (Hlast : str_replace [34; 47; 62] ([118] ++ dec m ++ lit "h-" ++ dec m ++ lit "z""/>") [34; 47; 62] = bg_tail m).
  { rewrite str_replace_cons. cbn [is_prefix]. rewrite !Z.eqb_refl. cbn [andb length skipn].
    rewrite str_replace_nil, app_nil_r. reflexivity. }
  rewrite Hlast.
  (* stage 3: drop the class attribute *)
  replace ((lit "<path" ++ cls' ++ fillpart w ++ lit " d=""M0 0h" ++ dec m) ++ bg_tail m)
    with (lit "<path" ++ cls' ++ (fillpart w ++ lit " d=""M0 0h" ++ dec m ++ bg_tail m))
    by (repeat rewrite <- app_assoc; reflexivity).
  rewrite re_sub_class_skip by (apply not_ws_forallb; reflexivity).
  f_equal.
  destruct Hcls' as [->|(d' & -> & Hne & Hq & _)].
  - cbn [app]. apply re_fill_rest. exact Hs.
  - replace ((32 :: lit "class=""" ++ d' ++ [34]) ++ fillpart w ++ lit " d=""M0 0h" ++ dec m ++ bg_tail m)
      with (32 :: lit "class=""" ++ d' ++ 34 :: (fillpart w ++ lit " d=""M0 0h" ++ dec m ++ bg_tail m)).
    + rewrite (re_sub_class_match d' _ Hne Hq). apply re_fill_rest. exact Hs.
    + cbn [app]. f_equal. repeat rewrite <- app_assoc. reflexivity.
Qed.

(* ================= Part I: write_svg in the two-colour case ================= *)
Lemma str_eqb_eq : forall a b, str_eqb a b = true <-> a = b.
Proof.
  induction a as [|x a IH]; destruct b as [|y b]; cbn [str_eqb]; split; try discriminate; try reflexivity.
  - intros H. apply andb_true_iff in H. destruct H as [H1 H2]. apply Z.eqb_eq in H1. apply IH in H2. subst. reflexivity.
  - intros H. inversion H; subst. rewrite Z.eqb_refl. apply IH. reflexivity.
Qed.
Lemma ocolor_eqb_eq a b : ocolor_eqb a b = true <-> a = b.
Proof.
  destruct a as [[x|x]|], b as [[y|y]|]; cbn [ocolor_eqb pycolor_eqb]; try (split; [discriminate|intros H; inversion H]); try tauto.
  - rewrite str_eqb_eq. split; [intros ->; reflexivity|intros H; inversion H; reflexivity].
  - rewrite str_eqb_eq. split; [intros ->; reflexivity|intros H; inversion H; reflexivity].
Qed.
Lemma ocolor_eqb_refl a : ocolor_eqb a a = true.
Proof. apply ocolor_eqb_eq. reflexivity. Qed.
Lemma ocolor_eqb_sym a b : ocolor_eqb a b = ocolor_eqb b a.
Proof.
  destruct (ocolor_eqb a b) eqn:E1, (ocolor_eqb b a) eqn:E2; try reflexivity.
  - apply ocolor_eqb_eq in E1. subst. rewrite ocolor_eqb_refl in E2. discriminate.
  - apply ocolor_eqb_eq in E2. subst. rewrite ocolor_eqb_refl in E1. discriminate.
Qed.

Lemma distinct_In c : forall l, In c (distinct_colors l) -> In c l.
Proof.
  induction l as [|x r IH]; intros H; [exact H|]. cbn [distinct_colors] in H.
  destruct (existsb (ocolor_eqb x) r); [right; apply IH; exact H|].
  destruct H as [<-|H]; [left; reflexivity|right; apply IH; exact H].
Qed.
Lemma distinct_NoDup : forall l, NoDup (distinct_colors l).
Proof.
  induction l as [|x r IH]; [constructor|]. cbn [distinct_colors].
  destruct (existsb (ocolor_eqb x) r) eqn:E; [exact IH|]. constructor; [|exact IH].
  intro Hin. apply distinct_In in Hin.
  assert (existsb (ocolor_eqb x) r = true); [|congruence].
  apply existsb_exists. exists x. split; [exact Hin|apply ocolor_eqb_refl].
Qed.
Lemma distinct_two l a b : (forall c, In c l -> c = a \/ c = b) -> 2 <? lenZ (distinct_colors l) = false.
Proof.
  intros H. apply Z.ltb_ge. unfold lenZ.
  assert (Hincl : incl (distinct_colors l) [a; b]).
  { intros c Hc. apply distinct_In in Hc. destruct (H c Hc) as [->| ->]; cbn; auto. }
  pose proof (NoDup_incl_length (distinct_NoDup l) Hincl) as Hlen. cbn [length] in Hlen. lia.
Qed.

Section TwoColours.
  Variables (size : Z) (dark : pycolor) (light : ocolor).
  Let cm := make_colormap size (two_colors (Some dark) light).

  Lemma cm_values c : In c (map snd cm) -> c = Some dark \/ c = light.
  Proof.
    unfold cm, make_colormap. intros H. apply in_map_iff in H. destruct H as ([k v] & <- & Hin).
    apply filter_In in Hin. destruct Hin as [Hin _]. cbn [o_dark o_light two_colors pick o_finder_dark o_finder_light
      o_data_dark o_data_light o_version_dark o_version_light o_format_dark o_format_light o_alignment_dark o_alignment_light
      o_timing_dark o_timing_light o_separator o_dark_module o_quiet_zone] in Hin.
    cbn [In] in Hin. cbn [snd].
    repeat (destruct Hin as [Hin|Hin]; [inversion Hin; subst; auto|]). destruct Hin.
  Qed.
  Lemma cm_not_multi : 2 <? lenZ (distinct_colors (map snd cm)) = false.
  Proof. apply (distinct_two _ (Some dark) light). apply cm_values. Qed.
  Lemma cm_plain :
    existsb (fun kv => negb (ocolor_eqb (snd kv) (if Z.shiftr (fst kv) 8 =? 0 then light else Some dark))) cm = false.
  Proof.
    destruct (existsb _ cm) eqn:E; [|reflexivity]. exfalso.
    apply existsb_exists in E. destruct E as ([k v] & Hin & Hf).
    unfold cm, make_colormap in Hin. apply filter_In in Hin. destruct Hin as [Hin _].
    cbn [o_dark o_light two_colors pick o_finder_dark o_finder_light
      o_data_dark o_data_light o_version_dark o_version_light o_format_dark o_format_light o_alignment_dark o_alignment_light
      o_timing_dark o_timing_light o_separator o_dark_module o_quiet_zone] in Hin.
    cbn [In] in Hin.
    repeat (destruct Hin as [Hin|Hin];
            [inversion Hin; subst; cbn [fst snd] in Hf;
             match type of Hf with context [Z.shiftr ?a 8 =? 0] =>
               let v := eval vm_compute in (Z.shiftr a 8 =? 0) in change (Z.shiftr a 8 =? 0) with v in Hf end;
             cbv iota in Hf; rewrite ocolor_eqb_refl in Hf; discriminate|]).
    destruct Hin.
  Qed.
  Lemma cm_quiet : getZ TYPE_QUIET_ZONE cm = Ok light.
  Proof. unfold cm, make_colormap. destruct (size <? 45); [destruct (size <? 21)|]; reflexivity. Qed.
  Lemma cm_dark : getZ TYPE_DATA_DARK cm = Ok (Some dark).
  Proof. unfold cm, make_colormap. destruct (size <? 45); [destruct (size <? 21)|]; reflexivity. Qed.
End TwoColours.

Lemma od_get_same {A} k (v : A) r : od_get k ((k, v) :: r) = Some v.
Proof. cbn [od_get]. rewrite ocolor_eqb_refl. reflexivity. Qed.
Lemma od_set_same {A} k (v v' : A) r : od_set k v' ((k, v) :: r) = (k, v') :: r.
Proof. cbn [od_set]. rewrite ocolor_eqb_refl. reflexivity. Qed.

Lemma accumulate_same k : forall segs cs x y,
  map (fun kv => (fst kv, fst (snd kv))) (accumulate (map (fun s => (k, s)) segs) [(k, (cs, (x, y)))])
  = [(k, cs ++ rel_coords segs x y)].
Proof.
  induction segs as [|[[x1 x2] y1] r IH]; intros cs x y.
  - cbn. rewrite app_nil_r. reflexivity.
  - cbn [map accumulate]. rewrite od_get_same, od_set_same, IH. cbn [rel_coords]. rewrite <- app_assoc. reflexivity.
Qed.
Lemma accumulate_one k segs : segs <> [] ->
  map (fun kv => (fst kv, fst (snd kv))) (accumulate (map (fun s => (k, s)) segs) []) = [(k, rel_coords segs 0 0)].
Proof.
  destruct segs as [|[[x1 x2] y1] r]; [congruence|]. intros _.
  cbn [map accumulate od_get od_set]. rewrite accumulate_same. cbn [rel_coords app]. reflexivity.
Qed.

(* the text that write_svg assembles, as a function of the pieces that vary *)
Definition final_text (o : svg_opts) (scale_info wtxt unit : str) (ver : str) (grp : bool) (paths : list str) : str :=
       (if so_xmldecl o
         then lit "<?xml version=""1.0""" ++ opt_str (so_encoding o) (fun e => lit " encoding=" ++ quoteattr e)
              ++ lit "?>" ++ [10]
         else [])
     ++ lit "<svg"
     ++ (if so_svgns o then lit " xmlns=""http://www.w3.org/2000/svg""" else [])
     ++ ver
     ++ (if so_omitsize o then []
         else lit " width=""" ++ wtxt ++ unit ++ lit """ height=""" ++ wtxt ++ unit ++ lit """")
     ++ (if so_omitsize o || negb (lenZ unit =? 0)
         then lit " viewBox=""0 0 " ++ wtxt ++ [32] ++ wtxt ++ lit """" else [])
     ++ opt_str (truthy (so_svgid o)) (fun s => lit " id=" ++ quoteattr s)
     ++ opt_str (truthy (so_svgclass o)) (fun s => lit " class=" ++ quoteattr s)
     ++ [62]
     ++ opt_str (so_title o) (fun t => lit "<title>" ++ escape t ++ lit "</title>")
     ++ opt_str (so_desc o) (fun t => lit "<desc>" ++ escape t ++ lit "</desc>")
     ++ (if grp then lit "<g" ++ scale_info ++ [62] else [])
     ++ concat paths
     ++ (if grp then lit "</g>" else [])
     ++ lit "</svg>"
     ++ (if so_nl o then [10] else []).

Definition scale_info_of (z : Z) : str := if z =? 1 then [] else lit " transform=""scale(" ++ dec z ++ lit ")""".
Definition ver_attr (o : svg_opts) : str :=
  match so_svgversion o with
  | Some v => if ver_ge2 v then [] else lit " version=" ++ quoteattr (ver_str v)
  | None => [] end.
Definition css3_of (o : svg_opts) : bool := match so_svgversion o with Some v => ver_ge2 v | None => false end.
Definition unit_of (o : svg_opts) : str := match so_unit o with Some u => u | None => [] end.
Definition clspart_of (o : svg_opts) : str := opt_str (truthy (so_lineclass o)) (fun c => lit " class=" ++ quoteattr c).

Theorem write_svg_two : forall matrix align size dark light o z doc,
  so_scale o = SInt z ->
  two_color_lines matrix (get_border size size (so_border o)) <> [] ->
  ocolor_eqb (Some dark) light = false ->
  write_svg matrix align size (two_colors (Some dark) light) o = Ok doc ->
  let b := get_border size size (so_border o) in
  let m := size + 2 * b in
  let bg := (match light with Some _ => true | None => false end) in
  let grp := negb (z =? 1) && bg in
  let p := lit "<path" ++ (if grp then [] else scale_info_of z) ++ clspart_of o in
  0 < z /\ (match so_border o with Some b' => 0 <= b' | None => True end) /\
  (negb (lenZ (unit_of o) =? 0) && so_omitsize o = false) /\
  exists wd, color_to_webcolor dark (css3_of o) = Ok wd /\
  exists bgpaths,
    (if bg then exists lc wl, light = Some lc /\ color_to_webcolor lc (css3_of o) = Ok wl /\
                              bgpaths = [bg_fixup m (path_text p (Some wl) [(0, 0, m)])]
     else bgpaths = []) /\
  doc = final_text o (scale_info_of z) (dec (m * z)) (unit_of o) (ver_attr o) grp
          (sort_by_len (path_text p (Some wd) (rel_coords (two_color_lines matrix b) 0 0) :: bgpaths)).
Proof.
  intros matrix align size dark light o z doc Hscale Hlines Hdl H b m bg grp p.
  unfold write_svg in H. rewrite Hscale in H.
  cbn [scale_le0 scale_is_1 scale_str scaled_str] in H.
  destruct (z <=? 0) eqn:Ez; [discriminate|]. apply Z.leb_gt in Ez.
  destruct (match so_border o with Some b0 => b0 <? 0 | None => false end) eqn:Eb; [discriminate|].
  fold b in H. fold m in H. fold (unit_of o) in H.
  destruct (negb (lenZ (unit_of o) =? 0) && so_omitsize o) eqn:Eu; [discriminate|].
  rewrite cm_quiet in H. cbn [bind] in H. rewrite cm_dark in H. cbn [bind] in H.
  rewrite cm_not_multi, cm_plain in H. cbn [bind negb andb orb] in H.
  change (two_color_lines matrix b <> []) in Hlines. rewrite ?orb_false_r in H.
  rewrite (accumulate_one (Some dark) _ Hlines) in H.
  fold (css3_of o) in H. fold (clspart_of o) in H. fold (scale_info_of z) in H. fold (ver_attr o) in H.
  split; [exact Ez|]. split; [destruct (so_border o) as [b'|]; [apply Z.ltb_ge in Eb; exact Eb|exact I]|].
  split; [reflexivity|].
  assert (Hld : ocolor_eqb light (Some dark) = false) by (rewrite ocolor_eqb_sym; exact Hdl).
  destruct light as [lc|].
  - (* a light colour: the background path is always there (draw_transparent only keeps / drops the key None) *)
    cbn [andb negb orb] in H. rewrite ?andb_true_r in H.
    cbn [od_set] in H. rewrite Hld in H.
    destruct (so_draw_transparent o); cbn [od_del filter fst ocolor_eqb negb map_res svg_color] in H.
    all: destruct (color_to_webcolor dark (css3_of o)) as [wd|] eqn:Ewd; [|discriminate]; cbn [bind fst snd] in H.
    all: destruct (color_to_webcolor lc (css3_of o)) as [wl|] eqn:Ewl; [|discriminate]; cbn [bind fst snd] in H.
    all: cbn [od_get] in H; rewrite Hld, ocolor_eqb_refl in H; cbn [od_set] in H; rewrite Hld, ocolor_eqb_refl in H.
    all: cbn [map snd] in H.
    all: exists wd; (split; [reflexivity|]).
    all: exists [bg_fixup m (path_text p (Some wl) [(0, 0, m)])]; split.
    1,3: subst p grp bg; cbn [andb negb]; rewrite ?andb_true_r; exists lc, wl; auto.
    all: apply Ok_inj in H; subst doc p grp bg; cbn [andb negb]; rewrite ?andb_true_r; reflexivity.
  - cbn [andb negb orb] in H. rewrite ?andb_false_r in H.
    destruct (so_draw_transparent o); cbn [od_del filter fst ocolor_eqb negb map_res svg_color snd] in H.
    all: destruct (color_to_webcolor dark (css3_of o)) as [wd|] eqn:Ewd; [|discriminate]; cbn [bind fst snd map] in H;
    exists wd; (split; [reflexivity|]); exists []; (split; [reflexivity|]);
    apply Ok_inj in H; subst doc p grp bg; cbn [andb negb]; rewrite ?andb_false_r; reflexivity.
Qed.

(* ================= Part J: reading the document back ================= *)
(* ---- attributes produced by quoteattr ---- *)
Definition qa_q (s : str) : Z := hd 0 (quoteattr s).
Definition qa_body (s : str) : str := removelast (tl (quoteattr s)).
Definition qattr (key s : str) : rattr := {| ra_key := key; ra_q := qa_q s; ra_body := qa_body s |}.
Lemma qattr_spec key s : name_ok key = true ->
  [32] ++ key ++ [61] ++ quoteattr s = render_attr (qattr key s) /\ attr_ok (qattr key s) /\
  unescape (ra_body (qattr key s)) = Some s /\ ~ In 62 (ra_body (qattr key s)).
Proof.
  intros Hk. destruct (quoteattr_spec s) as (q & body & Hq & Hq2 & Hnq & Hlt & Hgt & Hu).
  assert (E1 : qa_q s = q) by (unfold qa_q; rewrite Hq; reflexivity).
  assert (E2 : qa_body s = body) by (unfold qa_body; rewrite Hq; cbn [tl]; apply removelast_last).
  unfold render_attr, qattr, attr_ok. cbn [ra_key ra_q ra_body]. rewrite E1, E2, Hq.
  repeat split; auto.
Qed.
Definition lattr (key body : str) : rattr := {| ra_key := key; ra_q := 34; ra_body := body |}.

(* decoded attribute lists *)
Definition dkv (av : rattr * str) : text * text := (ra_key (fst av), snd av).
Lemma decode_attrs_ok (A : list (rattr * str)) :
  distinct_names (map (fun av => kv (fst av)) A) = true ->
  Forall (fun av => unescape (ra_body (fst av)) = Some (snd av)) A ->
  decode_attrs (map (fun av => kv (fst av)) A) = Some (map dkv A).
Proof.
  intros Hd Hu. unfold decode_attrs. rewrite Hd. clear Hd.
  induction Hu as [|[a v] t Ha _ IH]; [reflexivity|].
  cbn [map map_opt kv fst snd] in *. rewrite Ha, IH. reflexivity.
Qed.

(* ---- numbers in attribute values ---- *)
Lemma nl_digits : forall ds n acc, Forall (fun c => is_digit c = true) ds ->
  fold_left nl_step ds (Some (n, acc)) = Some (fold_left numd ds n, acc).
Proof.
  induction ds as [|c ds IH]; intros n acc Hd; [reflexivity|].
  inversion Hd as [|? ? Hc Hds]; subst. cbn [fold_left]. unfold nl_step at 2. rewrite Hc. apply IH. exact Hds.
Qed.
Lemma parse_numbers_dec v : 0 <= v -> parse_numbers (dec v) = Some [2 * v].
Proof.
  intros Hv. assert (Hdec : dec v = dec_nat v) by (unfold dec; destruct (v <? 0) eqn:E; [lia|reflexivity]).
  rewrite Hdec. destruct (dec_nat_spec v Hv) as (Hd & _ & Hf).
  unfold parse_numbers. rewrite nl_digits by exact Hd. rewrite (Hf NNone false) by reflexivity. reflexivity.
Qed.
Lemma parse_viewbox v : 0 <= v ->
  parse_numbers (lit "0 0 " ++ dec v ++ [32] ++ dec v) = Some [0; 0; 2 * v; 2 * v].
Proof.
  intros Hv. assert (Hdec : dec v = dec_nat v) by (unfold dec; destruct (v <? 0) eqn:E; [lia|reflexivity]).
  rewrite Hdec. destruct (dec_nat_spec v Hv) as (Hd & _ & Hf).
  unfold parse_numbers. change (lit "0 0 ") with [48; 32; 48; 32]. cbn [app fold_left].
  change (nl_step (nl_step (nl_step (nl_step (Some (NNone, [])) 48) 32) 48) 32) with (Some (NNone, [0; 0])).
  rewrite fold_left_app, nl_digits by exact Hd. rewrite (Hf NNone false) by reflexivity.
  cbn [fold_left]. unfold nl_step at 2. change (is_digit 32) with false. change (32 =? 46) with false.
  change ((32 =? 45) || is_ws 32 || (32 =? 44)) with true. cbv iota. cbn [num_value]. change (32 =? 45) with false. cbv iota.
  rewrite nl_digits by exact Hd. rewrite (Hf NNone false) by reflexivity. reflexivity.
Qed.
Definition unit_ok (u : str) : Prop := forallb (fun c => is_letter c || (c =? 37)) u = true.
Lemma span_num_digits : forall ds u, Forall (fun c => is_digit c = true) ds -> unit_ok u ->
  span_num (ds ++ u) = (ds, u).
Proof.
  induction ds as [|c ds IH]; intros u Hd Hu.
  - cbn [app]. destruct u as [|c r]; [reflexivity|]. cbn [span_num].
    unfold unit_ok in Hu. cbn [forallb] in Hu. apply andb_true_iff in Hu. destruct Hu as [Hc _].
    assert (E : is_digit c || (c =? 46) || (c =? 45) = false).
    { unfold is_letter, is_digit in *.
      destruct (Z.eqb_spec c 46); [subst; discriminate|]. destruct (Z.eqb_spec c 45); [subst; discriminate|].
      destruct ((48 <=? c) && (c <=? 57)) eqn:E; [|reflexivity].
      apply andb_true_iff in E. destruct E as [E1 E2]. apply Z.leb_le in E1, E2.
      exfalso. apply orb_true_iff in Hc. destruct Hc as [Hc|Hc].
      - apply orb_true_iff in Hc. destruct Hc as [Hc|Hc]; apply andb_true_iff in Hc; destruct Hc as [A B]; apply Z.leb_le in A, B; lia.
      - apply Z.eqb_eq in Hc. lia. }
    rewrite E. reflexivity.
  - inversion Hd as [|? ? Hc Hds]; subst. cbn [app span_num]. rewrite Hc. cbn [orb]. rewrite IH by assumption. reflexivity.
Qed.
Lemma parse_length_dec v u : 0 <= v -> unit_ok u -> parse_length (dec v ++ u) = Some (2 * v, u).
Proof.
  intros Hv Hu. unfold parse_length.
  assert (Hdec : dec v = dec_nat v) by (unfold dec; destruct (v <? 0) eqn:E; [lia|reflexivity]).
  rewrite span_num_digits; [|rewrite Hdec; apply dec_nat_numch; exact Hv|exact Hu].
  rewrite parse_numbers_dec by exact Hv. unfold unit_ok in Hu. rewrite Hu. reflexivity.
Qed.
Lemma parse_scale_dec z : 0 <= z -> parse_scale (lit "scale(" ++ dec z ++ [41]) = Some (2 * z).
Proof.
  intros Hz. unfold parse_scale. change (lit "scale(") with [115; 99; 97; 108; 101; 40]. change (txt "scale(") with [115; 99; 97; 108; 101; 40].
  cbn [app strip_prefix]. rewrite !Z.eqb_refl. rewrite rev_app_distr. cbn [rev app]. rewrite rev_involutive.
  rewrite parse_numbers_dec by exact Hz. reflexivity.
Qed.
Lemma unit_ok_plain u : unit_ok u -> ~ In 34 u /\ ~ In 60 u /\ ~ In 38 u.
Proof.
  unfold unit_ok. intros H. rewrite forallb_forall in H.
  repeat split; intro Hin; apply H in Hin; discriminate.
Qed.
Lemma digits_plain ds : Forall (fun c => is_digit c = true) ds -> ~ In 34 ds /\ ~ In 60 ds /\ ~ In 38 ds.
Proof. intros H. rewrite Forall_forall in H. repeat split; intro Hin; apply H in Hin; discriminate. Qed.

(* ---- the root element ---- *)
Definition optl {A} (b : bool) (l : list A) : list A := if b then l else [].
Definition oattr (key : str) (o : option str) : list (rattr * str) :=
  match o with Some s => [(qattr key s, s)] | None => [] end.
Definition over_of (o : svg_opts) : option str :=
  match so_svgversion o with Some v => if ver_ge2 v then None else Some (ver_str v) | None => None end.
Definition SVGNS : str := lit "http://www.w3.org/2000/svg".
Definition vbtxt (wtxt : str) : str := lit "0 0 " ++ wtxt ++ [32] ++ wtxt.
Definition svg_dattrs (o : svg_opts) (wtxt unit : str) : list (rattr * str) :=
  optl (so_svgns o) [(lattr (lit "xmlns") SVGNS, SVGNS)] ++
  oattr (lit "version") (over_of o) ++
  optl (negb (so_omitsize o)) [(lattr (lit "width") (wtxt ++ unit), wtxt ++ unit); (lattr (lit "height") (wtxt ++ unit), wtxt ++ unit)] ++
  optl (so_omitsize o || negb (lenZ unit =? 0)) [(lattr (lit "viewBox") (vbtxt wtxt), vbtxt wtxt)] ++
  oattr (lit "id") (truthy (so_svgid o)) ++ oattr (lit "class") (truthy (so_svgclass o)).

Definition keys_distinct (l : list text) : bool :=
  (fix go (l : list text) : bool := match l with [] => true | k :: r => negb (existsb (text_eqb k) r) && go r end) l.
Lemma distinct_names_keys : forall l, distinct_names l = keys_distinct (map fst l).
Proof.
  induction l as [|[k v] r IH]; [reflexivity|]. cbn [distinct_names map fst]. unfold keys_distinct in *. rewrite IH.
  f_equal. f_equal. clear. induction r as [|[k' v'] r IH]; [reflexivity|]. cbn [existsb map fst]. rewrite IH. reflexivity.
Qed.

Lemma ver_attr_eq o : ver_attr o = opt_str (over_of o) (fun s => lit " version=" ++ quoteattr s).
Proof. unfold ver_attr, over_of. destruct (so_svgversion o) as [v|]; [destruct (ver_ge2 v)|]; reflexivity. Qed.

Lemma qattr_render key s : name_ok key = true -> render_attr (qattr key s) = [32] ++ key ++ [61] ++ quoteattr s.
Proof. intros H. symmetry. apply qattr_spec. exact H. Qed.

Lemma svg_open_render o wtxt unit rest :
  lit "<svg"
     ++ (if so_svgns o then lit " xmlns=""http://www.w3.org/2000/svg""" else [])
     ++ ver_attr o
     ++ (if so_omitsize o then []
         else lit " width=""" ++ wtxt ++ unit ++ lit """ height=""" ++ wtxt ++ unit ++ lit """")
     ++ (if so_omitsize o || negb (lenZ unit =? 0)
         then lit " viewBox=""0 0 " ++ wtxt ++ [32] ++ wtxt ++ lit """" else [])
     ++ opt_str (truthy (so_svgid o)) (fun s => lit " id=" ++ quoteattr s)
     ++ opt_str (truthy (so_svgclass o)) (fun s => lit " class=" ++ quoteattr s)
     ++ [62] ++ rest
  = ([60] ++ lit "svg" ++ flat_map render_attr (map fst (svg_dattrs o wtxt unit)) ++ [62]) ++ rest.
Proof.
  rewrite ver_attr_eq. unfold svg_dattrs, vbtxt, SVGNS.
  destruct (so_svgns o), (over_of o) as [ov|], (so_omitsize o), (negb (lenZ unit =? 0)),
    (truthy (so_svgid o)) as [id|], (truthy (so_svgclass o)) as [cl|];
    cbn [optl oattr opt_str negb orb map fst flat_map app];
    rewrite ?qattr_render by reflexivity; unfold render_attr, lattr; cbn [ra_key ra_q ra_body]; reassoc.
Qed.

Definition root_doc (o : svg_opts) (W : Z) (unit : str) : svg_doc :=
  {| d_width := if so_omitsize o then None else Some (W, unit);
     d_height := if so_omitsize o then None else Some (W, unit);
     d_viewbox := if so_omitsize o || negb (lenZ unit =? 0) then Some [0; 0; W; W] else None;
     d_version := over_of o;
     d_xmlns := if so_svgns o then Some SVGNS else None;
     d_id := truthy (so_svgid o); d_class := truthy (so_svgclass o);
     d_title := None; d_desc := None; d_paths := [] |}.

Lemma svg_dattrs_ok o wtxt unit : ~ In 34 (wtxt ++ unit) -> ~ In 60 (wtxt ++ unit) -> ~ In 34 wtxt -> ~ In 60 wtxt ->
  Forall attr_ok (map fst (svg_dattrs o wtxt unit)).
Proof.
  intros H1 H2 H3 H4. unfold svg_dattrs.
  assert (Hq : forall k s, name_ok k = true -> attr_ok (qattr k s)) by (intros k s Hk; apply qattr_spec; exact Hk).
  assert (Hvb : ~ In 34 (vbtxt wtxt) /\ ~ In 60 (vbtxt wtxt)).
  { unfold vbtxt. change (lit "0 0 ") with [48; 32; 48; 32]. rewrite !in_app_iff. cbn [In]. split; intro H; intuition lia. }
  assert (Hl : forall k body, name_ok k = true -> ~ In 34 body -> ~ In 60 body -> attr_ok (lattr k body)).
  { intros k body Hk Ha Hb. unfold attr_ok, lattr. cbn [ra_key ra_q ra_body]. auto. }
  rewrite !map_app. repeat (apply Forall_app; split).
  - destruct (so_svgns o); cbn [optl map fst]; [|constructor]. constructor; [|constructor].
    apply Hl; [reflexivity| |]; unfold SVGNS; apply memZ_false; reflexivity.
  - destruct (over_of o); cbn [oattr map fst]; [|constructor]. constructor; [|constructor]. apply Hq. reflexivity.
  - destruct (negb (so_omitsize o)); cbn [optl map fst]; [|constructor].
    constructor; [|constructor; [|constructor]]; apply Hl; auto.
  - destruct (so_omitsize o || negb (lenZ unit =? 0)); cbn [optl map fst]; [|constructor].
    constructor; [|constructor]. apply Hl; [reflexivity|tauto|tauto].
  - destruct (truthy (so_svgid o)); cbn [oattr map fst]; [|constructor]. constructor; [|constructor]. apply Hq. reflexivity.
  - destruct (truthy (so_svgclass o)); cbn [oattr map fst]; [|constructor]. constructor; [|constructor]. apply Hq. reflexivity.
Qed.

Lemma read_root_ok o wtxt unit W :
  parse_length (wtxt ++ unit) = Some (W, unit) -> parse_numbers (vbtxt wtxt) = Some [0; 0; W; W] ->
  unescape (wtxt ++ unit) = Some (wtxt ++ unit) -> unescape (vbtxt wtxt) = Some (vbtxt wtxt) ->
  read_root (map (fun av => kv (fst av)) (svg_dattrs o wtxt unit)) = Some (root_doc o W unit).
Proof.
  intros Hpl Hvb Hu1 Hu2. unfold read_root.
  assert (Hns : unescape SVGNS = Some SVGNS) by reflexivity.
  assert (Hq : forall k s, name_ok k = true -> unescape (ra_body (qattr k s)) = Some s) by (intros k s Hk; apply qattr_spec; exact Hk).
  rewrite decode_attrs_ok.
  - unfold svg_dattrs, root_doc. cbn [opt_bind].
    generalize dependent (vbtxt wtxt). intros vb Hvb Hu2.
    generalize dependent (wtxt ++ unit). intros wu Hpl Hu1.
    generalize dependent SVGNS. intros ns Hns.
    destruct (so_svgns o), (over_of o) as [ov|], (so_omitsize o), (negb (lenZ unit =? 0)),
      (truthy (so_svgid o)) as [id|], (truthy (so_svgclass o)) as [cl|];
      unfold opt_attr, dkv; cbn [optl oattr negb orb map app fst snd ra_key lattr qattr];
      repeat match goal with |- context [txt ?s] => let v := eval vm_compute in (txt s) in change (txt s) with v end;
      norm_lit; cbn [lookup];
      repeat match goal with |- context [text_eqb ?a ?b] => let v := eval vm_compute in (text_eqb a b) in change (text_eqb a b) with v end;
      cbv iota; rewrite ?Hpl, ?Hvb; cbn [opt_bind]; rewrite ?Hpl, ?Hvb; cbn [opt_bind]; reflexivity.
  - rewrite distinct_names_keys, map_map. unfold svg_dattrs.
    destruct (so_svgns o), (over_of o) as [ov|], (so_omitsize o), (negb (lenZ unit =? 0)),
      (truthy (so_svgid o)) as [id|], (truthy (so_svgclass o)) as [cl|];
      cbn [optl oattr negb orb map app fst kv ra_key lattr qattr]; vm_compute; reflexivity.
  - unfold svg_dattrs. repeat (apply Forall_app; split).
    + destruct (so_svgns o); cbn [optl]; repeat constructor; try exact Hns.
    + destruct (over_of o); cbn [oattr]; repeat constructor; try (apply Hq; reflexivity).
    + destruct (negb (so_omitsize o)); cbn [optl]; repeat constructor; try exact Hu1.
    + destruct (so_omitsize o || negb (lenZ unit =? 0)); cbn [optl]; repeat constructor; try exact Hu2.
    + destruct (truthy (so_svgid o)); cbn [oattr]; repeat constructor; try (apply Hq; reflexivity).
    + destruct (truthy (so_svgclass o)); cbn [oattr]; repeat constructor; try (apply Hq; reflexivity).
Qed.

(* ---- path elements ---- *)
Definition plainch (c : Z) : bool := negb ((c =? 34) || (c =? 38) || (c =? 60) || (c =? 62)).
Lemma plain_facts s : forallb plainch s = true -> ~ In 34 s /\ ~ In 38 s /\ ~ In 60 s /\ ~ In 62 s.
Proof. intros H. rewrite forallb_forall in H. repeat split; intro Hin; apply H in Hin; discriminate. Qed.
Lemma numch_plain c : numch c = true -> plainch c = true.
Proof.
  unfold numch, plainch, is_digit. intros H.
  destruct (Z.eqb_spec c 34); [subst; discriminate|]. destruct (Z.eqb_spec c 38); [subst; discriminate|].
  destruct (Z.eqb_spec c 60); [subst; discriminate|]. destruct (Z.eqb_spec c 62); [subst; discriminate|]. reflexivity.
Qed.
Lemma dec_plain z : forallb plainch (dec z) = true.
Proof. apply forallb_forall. intros x Hx. apply numch_plain. pose proof (dec_numch z) as F. rewrite Forall_forall in F. apply F, Hx. Qed.
Lemma dec_nat_plain n : 0 <= n -> forallb plainch (dec_nat n) = true.
Proof.
  intros H. apply forallb_forall. intros x Hx. apply numch_plain. unfold numch.
  pose proof (dec_nat_numch n H) as F. rewrite Forall_forall in F. rewrite (F x Hx). reflexivity.
Qed.
Lemma print_half_plain h : forallb plainch (print_half h) = true.
Proof.
  unfold print_half. destruct (Z.even h); [apply dec_plain|].
  rewrite !forallb_app, dec_nat_plain by (apply Z.div_pos; lia). destruct (h <? 0); reflexivity.
Qed.
Lemma path_data_plain : forall cs first, forallb plainch (path_data first cs) = true.
Proof.
  induction cs as [|[[x yh] l] r IH]; intros first; [reflexivity|].
  cbn [path_data]. rewrite !forallb_app, !dec_plain, print_half_plain, IH. destruct first; reflexivity.
Qed.
Lemma safe_plain s : forallb safe s = true -> forallb plainch s = true.
Proof.
  intros H. apply forallb_forall. intros x Hx. apply (safe_no s x H) in Hx. apply safe_facts in Hx.
  unfold plainch. destruct (Z.eqb_spec x 34); [tauto|]. destruct (Z.eqb_spec x 38); [tauto|].
  destruct (Z.eqb_spec x 60); [tauto|]. destruct (Z.eqb_spec x 62); [tauto|]. reflexivity.
Qed.
Lemma lattr_ok k body : name_ok k = true -> forallb plainch body = true ->
  attr_ok (lattr k body) /\ unescape body = Some body.
Proof.
  intros Hk Hb. apply plain_facts in Hb. destruct Hb as (H1 & H2 & H3 & H4).
  split; [unfold attr_ok, lattr; cbn [ra_key ra_q ra_body]; auto|apply unescape_plain; assumption].
Qed.

Lemma lattr_attr_ok k body : name_ok k = true -> forallb plainch body = true -> attr_ok (lattr k body).
Proof. intros Hk Hb. apply lattr_ok; assumption. Qed.
Lemma plain_unescape body : forallb plainch body = true -> unescape body = Some body.
Proof. intros Hb. apply (lattr_ok (lit "d") body); [reflexivity|exact Hb]. Qed.
Definition trbody (z : Z) : str := lit "scale(" ++ dec z ++ [41].
Definition stroke_dattrs (w : option webcolor) : list (rattr * str) :=
  match w with
  | Some (WPlain c) => [(qattr (lit "stroke") c, c)]
  | Some (WAlpha c a) => [(qattr (lit "stroke") c, c); (qattr (lit "stroke-opacity") (alpha_str a), alpha_str a)]
  | None => []
  end.
Definition dark_dattrs (o : svg_opts) (tr : bool) (z : Z) (w : option webcolor) (d : str) : list (rattr * str) :=
  optl tr [(lattr (lit "transform") (trbody z), trbody z)] ++ oattr (lit "class") (truthy (so_lineclass o))
  ++ stroke_dattrs w ++ [(lattr (lit "d") d, d)].
Definition bgd (m : Z) : str := lit "M0 0h" ++ dec m ++ [118] ++ dec m ++ lit "h-" ++ dec m ++ [122].
Definition fill_dattrs (w : webcolor) : list (rattr * str) :=
  match w with
  | WPlain c => [(lattr (lit "fill") c, c)]
  | WAlpha c a => [(lattr (lit "fill") c, c); (lattr (lit "fill-opacity") (alpha_str a), alpha_str a)]
  end.
Definition bg_dattrs (w : webcolor) (m : Z) : list (rattr * str) :=
  fill_dattrs w ++ [(lattr (lit "d") (bgd m), bgd m)].
Definition render_empty (name : str) (A : list (rattr * str)) : str :=
  [60] ++ name ++ flat_map render_attr (map fst A) ++ [47; 62].

Lemma dark_path_render o (grp : bool) z w cs :
  path_text (lit "<path" ++ (if grp then [] else scale_info_of z) ++ clspart_of o) w cs
  = render_empty (lit "path") (dark_dattrs o (negb grp && negb (z =? 1)) z w (path_data true cs)).
Proof.
  unfold path_text, render_empty, dark_dattrs, clspart_of, scale_info_of, stroke_dattrs, trbody.
  destruct grp, (z =? 1), (truthy (so_lineclass o)) as [cl|], w as [[c|c a]|];
    cbn [optl oattr opt_str negb andb map fst flat_map app];
    rewrite ?qattr_render by reflexivity; unfold render_attr, lattr; cbn [ra_key ra_q ra_body]; reassoc.
Qed.
Lemma bg_path_render w m :
  lit "<path" ++ fillpart w ++ lit " d=""M0 0h" ++ dec m ++ bg_tail m = render_empty (lit "path") (bg_dattrs w m).
Proof.
  unfold render_empty, bg_dattrs, fill_dattrs, fillpart, bg_tail, bgd.
  destruct w as [c|c a]; cbn [map fst flat_map app]; unfold render_attr, lattr; cbn [ra_key ra_q ra_body]; reassoc.
Qed.

Lemma dark_dattrs_ok o tr z w d : forallb plainch d = true ->
  Forall attr_ok (map fst (dark_dattrs o tr z w d)) /\
  Forall (fun av => unescape (ra_body (fst av)) = Some (snd av)) (dark_dattrs o tr z w d).
Proof.
  intros Hd.
  assert (Hq : forall k s, name_ok k = true -> attr_ok (qattr k s) /\ unescape (ra_body (qattr k s)) = Some s).
  { intros k s Hk. pose proof (qattr_spec k s Hk). tauto. }
  assert (Htr : forallb plainch (trbody z) = true).
  { unfold trbody. rewrite !forallb_app, dec_plain. reflexivity. }
  unfold dark_dattrs. rewrite !map_app. split; repeat (apply Forall_app; split).
  - destruct tr; cbn [optl map fst]; [|constructor]. constructor; [|constructor]. apply lattr_attr_ok; [reflexivity|exact Htr].
  - destruct (truthy (so_lineclass o)); cbn [oattr map fst]; [|constructor]. constructor; [|constructor]. apply Hq. reflexivity.
  - destruct w as [[c|c a]|]; cbn [stroke_dattrs map fst]; repeat (constructor; [apply Hq; reflexivity|]); constructor.
  - cbn [map fst]. constructor; [|constructor]. apply lattr_attr_ok; [reflexivity|exact Hd].
  - destruct tr; cbn [optl]; [|constructor]. constructor; [|constructor]. cbn [fst snd lattr ra_body]. apply plain_unescape; exact Htr.
  - destruct (truthy (so_lineclass o)); cbn [oattr]; [|constructor]. constructor; [|constructor]. apply Hq. reflexivity.
  - destruct w as [[c|c a]|]; cbn [stroke_dattrs]; repeat (constructor; [apply Hq; reflexivity|]); constructor.
  - constructor; [|constructor]. cbn [fst snd lattr ra_body]. apply plain_unescape; exact Hd.
Qed.
Lemma bgd_plain m : forallb plainch (bgd m) = true.
Proof. unfold bgd. rewrite !forallb_app, !dec_plain. reflexivity. Qed.
Lemma bg_dattrs_ok w m : forallb safe (wc_text w) = true ->
  Forall attr_ok (map fst (bg_dattrs w m)) /\
  Forall (fun av => unescape (ra_body (fst av)) = Some (snd av)) (bg_dattrs w m).
Proof.
  intros Hs. pose proof (bgd_plain m) as Hd. pose proof (fun a => safe_plain _ (alpha_str_safe a)) as Ha.
  unfold bg_dattrs, fill_dattrs. rewrite !map_app. destruct w as [c|c a]; cbn [wc_text] in Hs; apply safe_plain in Hs;
    cbn [map fst app]; (split; [repeat (constructor; [apply lattr_attr_ok; [reflexivity|auto]|])|
                                repeat (constructor; [cbn [fst snd lattr ra_body]; apply plain_unescape; auto|])]); constructor.
Qed.

Definition dark_rec (o : svg_opts) (scales : list Z) (w : option webcolor) (segs : list lseg) : svg_path :=
  {| p_stroke := option_map wc_text w;
     p_stroke_opacity := match w with Some (WAlpha _ a) => Some (alpha_str a) | _ => None end;
     p_fill := None; p_class := truthy (so_lineclass o); p_scales := scales; p_segs := segs |}.
Definition bg_rec (scales : list Z) (w : webcolor) (segs : list lseg) : svg_path :=
  {| p_stroke := None; p_stroke_opacity := None; p_fill := Some (wc_text w); p_class := None;
     p_scales := scales; p_segs := segs |}.

Ltac eval_txt :=
  repeat match goal with |- context [txt ?s] => let v := eval vm_compute in (txt s) in change (txt s) with v end.
Ltac eval_text_eqb :=
  repeat match goal with |- context [text_eqb ?a ?b] => let v := eval vm_compute in (text_eqb a b) in change (text_eqb a b) with v end.

Lemma read_path_dark stack o tr z w d segs : 0 <= z -> forallb plainch d = true -> parse_path_data d = Some segs ->
  read_path stack (map (fun av => kv (fst av)) (dark_dattrs o tr z w d))
  = Some (dark_rec o (rev (group_scales stack) ++ (if tr then [2 * z] else [])) w segs).
Proof.
  intros Hz Hd Hp. unfold read_path. destruct (dark_dattrs_ok o tr z w d Hd) as [_ Hu].
  pose proof (parse_scale_dec z Hz) as Hsc. fold (trbody z) in Hsc.
  rewrite decode_attrs_ok; [| |exact Hu].
  - unfold dark_dattrs, dark_rec, stroke_dattrs. cbn [opt_bind]. clear Hu.
    generalize dependent (trbody z). intros tb Hsc.
    destruct tr, (truthy (so_lineclass o)) as [cl|], w as [[c|c a]|];
      unfold opt_attr, dkv; cbn [optl oattr map app fst snd ra_key lattr qattr wc_text option_map];
      eval_txt; norm_lit; cbn [lookup]; eval_text_eqb; cbv iota; rewrite ?Hsc; cbn [opt_bind]; rewrite Hp; cbn [opt_bind]; reflexivity.
  - rewrite distinct_names_keys, map_map. unfold dark_dattrs, stroke_dattrs.
    destruct tr, (truthy (so_lineclass o)) as [cl|], w as [[c|c a]|];
      cbn [optl oattr map app fst kv ra_key lattr qattr]; vm_compute; reflexivity.
Qed.
Lemma read_path_bg stack w m segs : forallb safe (wc_text w) = true -> parse_path_data (bgd m) = Some segs ->
  read_path stack (map (fun av => kv (fst av)) (bg_dattrs w m)) = Some (bg_rec (rev (group_scales stack) ++ []) w segs).
Proof.
  intros Hs Hp. unfold read_path. destruct (bg_dattrs_ok w m Hs) as [_ Hu].
  rewrite decode_attrs_ok; [| |exact Hu].
  - unfold bg_dattrs, fill_dattrs, bg_rec. cbn [opt_bind]. clear Hu. generalize dependent (bgd m). intros d Hp.
    destruct w as [c|c a]; unfold opt_attr, dkv; cbn [map app fst snd ra_key lattr wc_text];
      eval_txt; norm_lit; cbn [lookup]; eval_text_eqb; cbv iota; cbn [opt_bind]; rewrite Hp; cbn [opt_bind]; reflexivity.
  - rewrite distinct_names_keys, map_map. unfold bg_dattrs, fill_dattrs.
    destruct w as [c|c a]; cbn [map app fst kv ra_key lattr]; vm_compute; reflexivity.
Qed.

(* ---- lexing the whole document ---- *)
Definition kv' (av : rattr * str) : text * text := kv (fst av).
Definition ev_text (e : str) : list xev := match e with [] => [] | _ => [EText e] end.
Lemma flush_rev e evs : flush_text (rev e) evs = rev (ev_text e) ++ evs.
Proof.
  destruct e as [|c e']; [reflexivity|]. unfold flush_text.
  destruct (rev (c :: e')) eqn:E.
  - cbn [rev] in E. apply app_eq_nil in E. destruct E as [_ E]. discriminate.
  - rewrite <- E, rev_involutive. reflexivity.
Qed.
Definition tevs (name t : str) : list xev := [EOpen name []] ++ ev_text (escape t) ++ [EClose name].
Definition path_ev (P : list (rattr * str)) : xev := EEmpty (lit "path") (map kv' P).

Lemma run_telem name t evs : name_ok name = true ->
  run (([60] ++ name ++ [62]) ++ escape t ++ [60; 47] ++ name ++ [62]) (LText [], evs) = (LText [], rev (tevs name t) ++ evs).
Proof.
  intros Hn. rewrite run_app.
  pose proof (run_open name [] [] evs Hn (Forall_nil _)) as H1. cbn [flat_map map app] in H1. cbn [app]. cbn [app] in H1.
  rewrite H1. cbn [flush_text]. rewrite run_app.
  destruct (escape_spec t) as (Hlt & _ & _).
  rewrite run_text by exact Hlt. rewrite app_nil_r.
  rewrite (run_close name _ _ Hn). rewrite flush_rev. unfold tevs.
  rewrite !rev_app_distr. cbn [rev app]. rewrite <- app_assoc. reflexivity.
Qed.
Lemma run_paths : forall PS evs, Forall (fun P => Forall attr_ok (map fst P)) PS ->
  run (concat (map (render_empty (lit "path")) PS)) (LText [], evs) = (LText [], rev (map path_ev PS) ++ evs).
Proof.
  induction PS as [|P r IH]; intros evs H; [reflexivity|].
  inversion H as [|? ? HP Hr]; subst. cbn [map concat]. rewrite run_app.
  change (render_empty (lit "path") P) with ([60] ++ lit "path" ++ flat_map render_attr (map fst P) ++ [47; 62]).
  rewrite (run_empty (lit "path") (map fst P) [] evs eq_refl HP). cbn [flush_text].
  rewrite IH by exact Hr. cbn [map rev]. rewrite <- app_assoc. unfold path_ev, kv'. rewrite map_map. reflexivity.
Qed.

Definition g_dattrs (z : Z) : list (rattr * str) := optl (negb (z =? 1)) [(lattr (lit "transform") (trbody z), trbody z)].
Definition doc_events (o : svg_opts) (A : list (rattr * str)) (z : Z) (grp : bool) (PS : list (list (rattr * str))) : list xev :=
  ev_text (if so_xmldecl o then [10] else []) ++ [EOpen (lit "svg") (map kv' A)]
  ++ (match so_title o with Some t => tevs (lit "title") t | None => [] end)
  ++ (match so_desc o with Some t => tevs (lit "desc") t | None => [] end)
  ++ (if grp then [EOpen (lit "g") (map kv' (g_dattrs z))] else [])
  ++ map path_ev PS
  ++ (if grp then [EClose (lit "g")] else [])
  ++ [EClose (lit "svg")] ++ ev_text (if so_nl o then [10] else []).

Lemma g_open_render z : lit "<g" ++ scale_info_of z ++ [62] = [60] ++ lit "g" ++ flat_map render_attr (map fst (g_dattrs z)) ++ [62].
Proof.
  unfold g_dattrs, scale_info_of, trbody. destruct (z =? 1); cbn [negb optl map fst flat_map app];
    unfold render_attr, lattr; cbn [ra_key ra_q ra_body]; reassoc.
Qed.
Lemma trbody_plain z : forallb plainch (trbody z) = true.
Proof. unfold trbody. rewrite !forallb_app, dec_plain. reflexivity. Qed.
Lemma g_dattrs_ok z : Forall attr_ok (map fst (g_dattrs z)).
Proof.
  unfold g_dattrs. destruct (negb (z =? 1)); cbn [optl map fst]; [|constructor]. constructor; [|constructor].
  apply lattr_attr_ok; [reflexivity|apply trbody_plain].
Qed.

Theorem lex_final o z m grp PS :
  0 <= m * z -> unit_ok (unit_of o) -> Forall (fun P => Forall attr_ok (map fst P)) PS ->
  lex (final_text o (scale_info_of z) (dec (m * z)) (unit_of o) (ver_attr o) grp (map (render_empty (lit "path")) PS))
  = Some (doc_events o (svg_dattrs o (dec (m * z)) (unit_of o)) z grp PS).
Proof.
  intros Hmz Hunit HPS. unfold lex, final_text.
  set (A := svg_dattrs o (dec (m * z)) (unit_of o)).
  assert (Hdec : dec (m * z) = dec_nat (m * z)) by (unfold dec; destruct (m * z <? 0) eqn:E; [lia|reflexivity]).
  assert (HA : Forall attr_ok (map fst A)).
  { pose proof (digits_plain _ (dec_nat_numch _ Hmz)) as (D1 & D2 & D3). rewrite <- Hdec in *.
    destruct (unit_ok_plain _ Hunit) as (U1 & U2 & U3).
    apply svg_dattrs_ok; try assumption; rewrite in_app_iff; tauto. }
  (* the XML declaration *)
  assert (Hpi : exists acc0, acc0 = (if so_xmldecl o then [10] else []) /\
            forall rest, run ((if so_xmldecl o
                               then lit "<?xml version=""1.0""" ++ opt_str (so_encoding o) (fun e => lit " encoding=" ++ quoteattr e) ++ lit "?>" ++ [10]
                               else []) ++ rest) (LText [], []) = run rest (LText acc0, [])).
  { eexists. split; [reflexivity|]. intros rest. destruct (so_xmldecl o); [|reflexivity].
    replace ((lit "<?xml version=""1.0""" ++ opt_str (so_encoding o) (fun e => lit " encoding=" ++ quoteattr e) ++ lit "?>" ++ [10]) ++ rest)
      with (([60; 63] ++ (lit "xml version=""1.0""" ++ opt_str (so_encoding o) (fun e => lit " encoding=" ++ quoteattr e)) ++ [63; 62]) ++ 10 :: rest) by reassoc.
    rewrite run_app, run_pi; [reflexivity|].
    rewrite in_app_iff. intros [H|H]; [revert H; apply no_gt_forallb; reflexivity|].
    destruct (so_encoding o) as [e|]; cbn [opt_str] in H; [|destruct H].
    rewrite in_app_iff in H. destruct H as [H|H]; [revert H; apply no_gt_forallb; reflexivity|].
    destruct (quoteattr_spec e) as (q & body & Hq & Hq2 & _ & _ & Hgt & _). rewrite Hq in H.
    cbn [In] in H. rewrite in_app_iff in H. cbn [In] in H. destruct Hq2; subst q; intuition lia. }
  destruct Hpi as (acc0 & Eacc0 & Hpi).
  change (fold_left lstep) with (fun s st => run s st). cbv beta.
  rewrite Hpi. rewrite svg_open_render. fold A.
  rewrite run_app, (run_open (lit "svg") (map fst A) acc0 [] eq_refl HA).
  (* title, desc *)
  set (evs1 := EOpen (lit "svg") (map kv (map fst A)) :: flush_text acc0 []).
  assert (Ht : forall name (ot : option str) rest evs, name_ok name = true ->
            run (opt_str ot (fun t => ([60] ++ name ++ [62]) ++ escape t ++ [60; 47] ++ name ++ [62]) ++ rest) (LText [], evs)
            = run rest (LText [], rev (match ot with Some t => tevs name t | None => [] end) ++ evs)).
  { intros name ot rest evs Hn. destruct ot as [t|]; cbn [opt_str]; [|reflexivity]. rewrite run_app, run_telem by exact Hn. reflexivity. }
  replace (opt_str (so_title o) (fun t => lit "<title>" ++ escape t ++ lit "</title>"))
    with (opt_str (so_title o) (fun t => ([60] ++ lit "title" ++ [62]) ++ escape t ++ [60; 47] ++ lit "title" ++ [62]))
    by (destruct (so_title o); [cbn [opt_str]; reassoc|reflexivity]).
  replace (opt_str (so_desc o) (fun t => lit "<desc>" ++ escape t ++ lit "</desc>"))
    with (opt_str (so_desc o) (fun t => ([60] ++ lit "desc" ++ [62]) ++ escape t ++ [60; 47] ++ lit "desc" ++ [62]))
    by (destruct (so_desc o); [cbn [opt_str]; reassoc|reflexivity]).
  rewrite (Ht (lit "title")) by reflexivity. rewrite (Ht (lit "desc")) by reflexivity.
  set (evs2 := rev (match so_desc o with Some t => tevs (lit "desc") t | None => [] end)
               ++ rev (match so_title o with Some t => tevs (lit "title") t | None => [] end) ++ evs1).
  (* group, paths *)
  assert (Hg : forall rest evs, run ((if grp then lit "<g" ++ scale_info_of z ++ [62] else []) ++ rest) (LText [], evs)
               = run rest (LText [], rev (if grp then [EOpen (lit "g") (map kv' (g_dattrs z))] else []) ++ evs)).
  { intros rest evs. destruct grp; [|reflexivity]. rewrite run_app, g_open_render.
    rewrite (run_open (lit "g") (map fst (g_dattrs z)) [] evs eq_refl (g_dattrs_ok z)).
    cbn [flush_text rev app]. unfold kv'. rewrite map_map. reflexivity. }
  rewrite Hg, run_app, run_paths by exact HPS.
  assert (Hgc : forall rest evs, run ((if grp then lit "</g>" else []) ++ rest) (LText [], evs)
               = run rest (LText [], rev (if grp then [EClose (lit "g")] else []) ++ evs)).
  { intros rest evs. destruct grp; [|reflexivity]. rewrite run_app.
    change (lit "</g>") with ([60; 47] ++ lit "g" ++ [62]). rewrite (run_close (lit "g") [] evs eq_refl). reflexivity. }
  rewrite Hgc, run_app.
  change (lit "</svg>") with ([60; 47] ++ lit "svg" ++ [62]). rewrite (run_close (lit "svg") [] _ eq_refl). cbn [flush_text].
  assert (Hnl : forall evs, run (if so_nl o then [10] else []) (LText [], evs) = (LText (rev (if so_nl o then [10] else [])), evs)).
  { intros evs. destruct (so_nl o); reflexivity. }
  rewrite Hnl, flush_rev.
  (* the accumulated events, reversed *)
  unfold doc_events, evs2, evs1. subst acc0.
  f_equal.
  rewrite !rev_app_distr. cbn [rev app]. rewrite !rev_app_distr, !rev_involutive. repeat rewrite <- app_assoc. cbn [app].
  unfold kv'. rewrite map_map.
  destruct (so_xmldecl o); cbn [flush_text ev_text rev app]; reflexivity.
Qed.

(* ---- interpreting the events ---- *)
Definition mk (stack : list frame) (d : svg_doc) : option rstate :=
  Some {| r_stack := stack; r_seen_root := true; r_doc := d |}.
Definition add_paths (d : svg_doc) (ps : list svg_path) : svg_doc :=
  {| d_width := d_width d; d_height := d_height d; d_viewbox := d_viewbox d; d_version := d_version d;
     d_xmlns := d_xmlns d; d_id := d_id d; d_class := d_class d; d_title := d_title d; d_desc := d_desc d;
     d_paths := d_paths d ++ ps |}.

Lemma rstep_title st d t : d_title d = None ->
  fold_left rstep (tevs (lit "title") t) (mk (FSvg :: st) d) = mk (FSvg :: st) (set_title d (Some t)).
Proof.
  intros Hd. destruct (escape_spec t) as (_ & _ & Hu). unfold tevs.
  rewrite !fold_left_app. cbn [fold_left].
  assert (H1 : rstep (mk (FSvg :: st) d) (EOpen (lit "title") []) = mk (FTitle :: FSvg :: st) (set_title d (Some []))).
  { unfold rstep, mk. cbn [r_stack r_doc r_seen_root]. eval_txt. norm_lit. eval_text_eqb. cbv iota. rewrite Hd. reflexivity. }
  rewrite H1.
  assert (H2 : fold_left rstep (ev_text (escape t)) (mk (FTitle :: FSvg :: st) (set_title d (Some [])))
               = mk (FTitle :: FSvg :: st) (set_title d (Some t))).
  { destruct (escape t) as [|c e] eqn:E.
    - cbn [ev_text fold_left]. cbn in Hu. inversion Hu. reflexivity.
    - cbn [ev_text fold_left]. unfold rstep, mk. cbn [r_stack r_doc r_seen_root]. rewrite Hu. reflexivity. }
  rewrite H2. unfold rstep, mk. cbn [r_stack r_doc r_seen_root]. eval_txt. norm_lit. eval_text_eqb. reflexivity.
Qed.
Lemma rstep_desc st d t : d_desc d = None ->
  fold_left rstep (tevs (lit "desc") t) (mk (FSvg :: st) d) = mk (FSvg :: st) (set_desc d (Some t)).
Proof.
  intros Hd. destruct (escape_spec t) as (_ & _ & Hu). unfold tevs.
  rewrite !fold_left_app. cbn [fold_left].
  assert (H1 : rstep (mk (FSvg :: st) d) (EOpen (lit "desc") []) = mk (FDesc :: FSvg :: st) (set_desc d (Some []))).
  { unfold rstep, mk. cbn [r_stack r_doc r_seen_root]. eval_txt. norm_lit. eval_text_eqb. cbv iota. rewrite Hd. reflexivity. }
  rewrite H1.
  assert (H2 : fold_left rstep (ev_text (escape t)) (mk (FDesc :: FSvg :: st) (set_desc d (Some [])))
               = mk (FDesc :: FSvg :: st) (set_desc d (Some t))).
  { destruct (escape t) as [|c e] eqn:E.
    - cbn [ev_text fold_left]. cbn in Hu. inversion Hu. reflexivity.
    - cbn [ev_text fold_left]. unfold rstep, mk. cbn [r_stack r_doc r_seen_root]. rewrite Hu. reflexivity. }
  rewrite H2. unfold rstep, mk. cbn [r_stack r_doc r_seen_root]. eval_txt. norm_lit. eval_text_eqb. reflexivity.
Qed.

Lemma rstep_paths : forall PS recs stack d ps,
  in_container stack = true ->
  Forall2 (fun P rec => forall stk, in_container stk = true -> read_path stk (map kv' P) = Some (rec (rev (group_scales stk)))) PS recs ->
  fold_left rstep (map path_ev PS) (mk stack (add_paths d ps))
  = mk stack (add_paths d (ps ++ map (fun r => r (rev (group_scales stack))) recs)).
Proof.
  induction PS as [|P r IH]; intros recs stack d ps Hc H2.
  - inversion H2; subst. cbn. rewrite app_nil_r. reflexivity.
  - inversion H2 as [|? rc ? rcs HP Hr]; subst. cbn [map fold_left].
    assert (H1 : rstep (mk stack (add_paths d ps)) (path_ev P) = mk stack (add_paths d (ps ++ [rc (rev (group_scales stack))]))).
    { unfold rstep, mk, path_ev. cbn [r_stack r_doc r_seen_root]. eval_txt. norm_lit. eval_text_eqb. cbv iota.
      rewrite Hc, (HP stack Hc). cbn [opt_bind]. unfold add_path, add_paths. cbn [d_width d_height d_viewbox d_version d_xmlns d_id d_class d_title d_desc d_paths].
      rewrite <- app_assoc. reflexivity. }
    rewrite H1, (IH rcs stack d _ Hc Hr). rewrite <- app_assoc. reflexivity.
Qed.

Definition final_doc (o : svg_opts) (W : Z) (unit : str) (paths : list svg_path) : svg_doc :=
  {| d_width := if so_omitsize o then None else Some (W, unit);
     d_height := if so_omitsize o then None else Some (W, unit);
     d_viewbox := if so_omitsize o || negb (lenZ unit =? 0) then Some [0; 0; W; W] else None;
     d_version := over_of o;
     d_xmlns := if so_svgns o then Some SVGNS else None;
     d_id := truthy (so_svgid o); d_class := truthy (so_svgclass o);
     d_title := so_title o; d_desc := so_desc o; d_paths := paths |}.

Theorem read_events_final o z m grp PS recs :
  0 <= z -> 0 <= m * z -> unit_ok (unit_of o) ->
  Forall2 (fun P rec => forall stk, in_container stk = true -> read_path stk (map kv' P) = Some (rec (rev (group_scales stk)))) PS recs ->
  read_events (doc_events o (svg_dattrs o (dec (m * z)) (unit_of o)) z grp PS)
  = Some (final_doc o (2 * (m * z)) (unit_of o)
            (map (fun r => r (if grp && negb (z =? 1) then [2 * z] else [])) recs)).
Proof.
  intros Hz Hmz Hunit HPS. unfold read_events, doc_events. rewrite !fold_left_app.
  set (s0 := Some {| r_stack := []; r_seen_root := false; r_doc := empty_doc |}).
  assert (H0 : fold_left rstep (ev_text (if so_xmldecl o then [10] else [])) s0 = s0) by (destruct (so_xmldecl o); reflexivity).
  rewrite H0.
  assert (Hdec : dec (m * z) = dec_nat (m * z)) by (unfold dec; destruct (m * z <? 0) eqn:E; [lia|reflexivity]).
  pose proof (digits_plain _ (dec_nat_numch _ Hmz)) as (D1 & D2 & D3). rewrite <- Hdec in D1, D2, D3.
  destruct (unit_ok_plain _ Hunit) as (U1 & U2 & U3).
  assert (H1 : fold_left rstep [EOpen (lit "svg") (map kv' (svg_dattrs o (dec (m * z)) (unit_of o)))] s0
               = mk [FSvg] (root_doc o (2 * (m * z)) (unit_of o))).
  { cbn [fold_left]. unfold rstep, s0. cbn [r_stack r_doc r_seen_root]. eval_txt. norm_lit. eval_text_eqb. cbv iota.
    unfold kv'. rewrite (read_root_ok o (dec (m * z)) (unit_of o) (2 * (m * z))); [reflexivity| | | |].
    - apply parse_length_dec; assumption.
    - apply parse_viewbox; assumption.
    - apply unescape_plain; rewrite in_app_iff; tauto.
    - apply unescape_plain; unfold vbtxt; change (lit "0 0 ") with [48; 32; 48; 32]; rewrite !in_app_iff; cbn [In]; intuition lia. }
  rewrite H1.
  set (d1 := root_doc o (2 * (m * z)) (unit_of o)).
  assert (H2 : fold_left rstep (match so_title o with Some t => tevs (lit "title") t | None => [] end) (mk [FSvg] d1)
               = mk [FSvg] (set_title d1 (so_title o))).
  { destruct (so_title o) as [t|]; [apply rstep_title; reflexivity|reflexivity]. }
  rewrite H2.
  assert (H3 : fold_left rstep (match so_desc o with Some t => tevs (lit "desc") t | None => [] end) (mk [FSvg] (set_title d1 (so_title o)))
               = mk [FSvg] (set_desc (set_title d1 (so_title o)) (so_desc o))).
  { destruct (so_desc o) as [t|]; [apply rstep_desc; reflexivity|reflexivity]. }
  rewrite H3.
  set (d3 := set_desc (set_title d1 (so_title o)) (so_desc o)).
  set (stack := if grp then [FG (if z =? 1 then None else Some (2 * z)); FSvg] else [FSvg]).
  assert (H4 : fold_left rstep (if grp then [EOpen (lit "g") (map kv' (g_dattrs z))] else []) (mk [FSvg] d3) = mk stack (add_paths d3 [])).
  { unfold stack. assert (Hd3 : add_paths d3 [] = d3) by (unfold add_paths; rewrite app_nil_r; reflexivity). rewrite Hd3.
    destruct grp; [|reflexivity]. cbn [fold_left]. unfold rstep, mk. cbn [r_stack r_doc r_seen_root in_container].
    eval_txt. norm_lit. eval_text_eqb. cbv iota.
    unfold g_dattrs, kv'. destruct (z =? 1); cbn [negb optl map].
    - reflexivity.
    - unfold decode_attrs. cbn [distinct_names existsb negb andb map_opt kv fst snd lattr ra_key ra_body].
      rewrite (plain_unescape _ (trbody_plain z)). cbn [opt_bind]. eval_txt. norm_lit. unfold opt_attr. cbn [lookup]. eval_text_eqb. cbv iota.
      pose proof (parse_scale_dec z Hz) as Hsc. fold (trbody z) in Hsc. rewrite Hsc. reflexivity. }
  rewrite H4.
  assert (Hc : in_container stack = true) by (unfold stack; destruct grp; reflexivity).
  rewrite (rstep_paths PS recs stack d3 [] Hc HPS). cbn [app].
  assert (Hgs : rev (group_scales stack) = if grp && negb (z =? 1) then [2 * z] else []).
  { unfold stack. destruct grp, (z =? 1); reflexivity. }
  rewrite Hgs.
  set (d4 := add_paths d3 _).
  assert (H5 : fold_left rstep (if grp then [EClose (lit "g")] else []) (mk stack d4) = mk [FSvg] d4).
  { unfold stack. destruct grp; [|reflexivity]. cbn [fold_left]. unfold rstep, mk. cbn [r_stack r_doc r_seen_root].
    eval_txt. norm_lit. eval_text_eqb. reflexivity. }
  rewrite H5.
  assert (H6 : fold_left rstep [EClose (lit "svg")] (mk [FSvg] d4) = mk [] d4).
  { cbn [fold_left]. unfold rstep, mk. cbn [r_stack r_doc r_seen_root]. eval_txt. norm_lit. eval_text_eqb. reflexivity. }
  rewrite H6.
  assert (H7 : fold_left rstep (ev_text (if so_nl o then [10] else [])) (mk [] d4) = mk [] d4) by (destruct (so_nl o); reflexivity).
  rewrite H7. unfold mk. cbn [r_stack r_seen_root r_doc]. reflexivity.
Qed.

(* ================= Part K: the main theorems ================= *)
Definition lineclass_ok (o : svg_opts) : Prop :=
  match truthy (so_lineclass o) with Some cls => ~ In 34 cls | None => True end.

Lemma quoteattr_noquote s : s <> [] -> ~ In 34 s ->
  exists d, quoteattr s = 34 :: d ++ [34] /\ d <> [] /\ ~ In 34 d /\ ~ In 62 d.
Proof.
  intros Hne Hq. exists (flat_map attr_cp s).
  assert (H34 : ~ In 34 (flat_map attr_cp s)).
  { rewrite in_flat_map. intros (c & Hc & Hx). apply attr_cp_chars in Hx. destruct Hx as (_ & _ & Hx & _).
    specialize (Hx eq_refl). subst. contradiction. }
  split; [|split; [|split]].
  - unfold quoteattr. apply memZ_false in H34. rewrite H34. reflexivity.
  - destruct s as [|c t]; [congruence|]. cbn [flat_map]. intro H. apply app_eq_nil in H. destruct H as [H _].
    unfold attr_cp, escape_cp in H. destruct (c =? 10), (c =? 13), (c =? 9), (c =? 38), (c =? 62), (c =? 60); discriminate.
  - exact H34.
  - rewrite in_flat_map. intros (c & Hc & Hx). apply attr_cp_chars in Hx. lia.
Qed.
Lemma truthy_nonempty o s : truthy o = Some s -> s <> [].
Proof. destruct o as [[|c t]|]; cbn; intros H; inversion H; discriminate. Qed.
Lemma clspart_ok o : lineclass_ok o -> cls_ok (clspart_of o).
Proof.
  unfold lineclass_ok, clspart_of, cls_ok. destruct (truthy (so_lineclass o)) as [cls|] eqn:E; [|left; reflexivity].
  intros Hq. right. destruct (quoteattr_noquote cls (truthy_nonempty _ _ E) Hq) as (d & Hd & Hne & H34 & H62).
  exists d. cbn [opt_str]. rewrite Hd. split; [reassoc|auto].
Qed.

Lemma sort_two a b : sort_by_len [a; b] = if lenZ a <=? lenZ b then [a; b] else [b; a].
Proof. reflexivity. Qed.

Definition scales_of (z : Z) : list Z := if z =? 1 then [] else [2 * z].
Definition rect_segs (m : Z) : list lseg :=
  [(0, 0, 2 * m, 0); (2 * m, 0, 2 * m, 2 * m); (2 * m, 2 * m, 0, 2 * m); (0, 2 * m, 0, 0)].
Definition border_of (size : Z) (o : svg_opts) : Z := get_border size size (so_border o).

(* what the reader returns for the output of write_svg in the two-colour case *)
Theorem svg_read_two : forall matrix align size dark light o z doc,
  so_scale o = SInt z -> 0 < size ->
  length matrix = Z.to_nat size -> Forall (fun row => length row = Z.to_nat size) matrix ->
  ocolor_eqb (Some dark) light = false -> unit_ok (unit_of o) -> lineclass_ok o ->
  write_svg matrix align size (two_colors (Some dark) light) o = Ok doc ->
  let b := border_of size o in
  let m := size + 2 * b in
  let bg := (match light with Some _ => true | None => false end) in
  0 < z /\ 0 <= b /\
  exists wd, color_to_webcolor dark (css3_of o) = Ok wd /\
  exists paths, read_svg doc = Some (final_doc o (2 * (m * z)) (unit_of o) paths) /\
    let dp := dark_rec o (scales_of z) (Some wd) (map abs_seg (two_color_lines matrix b)) in
    if bg then exists lc wl, light = Some lc /\ color_to_webcolor lc (css3_of o) = Ok wl /\
                 (paths = [bg_rec (scales_of z) wl (rect_segs m); dp] \/ paths = [dp; bg_rec (scales_of z) wl (rect_segs m)])
    else paths = [dp].
Proof.
  intros matrix align size dark light o z doc Hscale Hsize Hlen Hrows Hdl Hunit Hcls H b m bg.
  assert (Hlines : two_color_lines matrix (get_border size size (so_border o)) <> []).
  { rewrite two_color_lines_z. destruct matrix as [|row rows]; [cbn in Hlen; lia|]. apply zrows_nonempty. }
  destruct (write_svg_two matrix align size dark light o z doc Hscale Hlines Hdl H)
    as (Hz & Hb & _ & wd & Hwd & bgpaths & Hbg & Hdoc).
  fold (border_of size o) in Hbg, Hdoc. fold b in Hbg, Hdoc. fold m in Hbg, Hdoc. fold bg in Hbg, Hdoc.
  assert (Hb0 : 0 <= b).
  { unfold b, border_of, get_border. destruct (so_border o) as [b'|]; [exact Hb|].
    unfold get_default_border_size. destruct ((17 <? size) && (size =? size)); lia. }
  assert (Hm : 0 <= m) by (unfold m; lia).
  assert (Hmz : 0 <= m * z) by (apply Z.mul_nonneg_nonneg; lia).
  split; [exact Hz|]. split; [exact Hb0|]. exists wd. split; [exact Hwd|].
  set (grp := negb (z =? 1) && bg) in *.
  set (lines := two_color_lines matrix b) in *.
  set (dtxt := path_data true (rel_coords lines 0 0)).
  set (DA := dark_dattrs o (negb grp && negb (z =? 1)) z (Some wd) dtxt).
  assert (Hdark : path_text (lit "<path" ++ (if grp then [] else scale_info_of z) ++ clspart_of o) (Some wd) (rel_coords lines 0 0)
                  = render_empty (lit "path") DA) by apply dark_path_render.
  assert (HDAok : Forall attr_ok (map fst DA)) by (apply dark_dattrs_ok, path_data_plain).
  assert (HDAread : forall stk, in_container stk = true ->
            read_path stk (map kv' DA) = Some (dark_rec o (rev (group_scales stk) ++ (if negb grp && negb (z =? 1) then [2 * z] else [])) (Some wd) (map abs_seg lines))).
  { intros stk _. apply read_path_dark; [lia|apply path_data_plain|apply parse_path_data_roundtrip]. }
  rewrite Hdark in Hdoc.
  assert (Hz0 : 0 <= z) by lia.
  destruct bg eqn:Ebg.
  - destruct Hbg as (lc & wl & Hl & Hwl & Hbgp).
    pose proof (webcolor_safe lc _ wl Hwl) as Hsafe.
    assert (Hgrp0 : (if grp then [] else scale_info_of z) = []).
    { unfold grp, scale_info_of. destruct (z =? 1); reflexivity. }
    rewrite Hgrp0 in Hbgp.
    rewrite (bg_fixup_result m (clspart_of o) wl (clspart_ok o Hcls) Hsafe), bg_path_render in Hbgp.
    set (BA := bg_dattrs wl m) in *.
    assert (HBAok : Forall attr_ok (map fst BA)) by (apply bg_dattrs_ok; exact Hsafe).
    assert (HBAread : forall stk, in_container stk = true ->
              read_path stk (map kv' BA) = Some (bg_rec (rev (group_scales stk) ++ []) wl (rect_segs m))).
    { intros stk _. apply read_path_bg; [exact Hsafe|]. unfold bgd. norm_lit. apply (parse_bg_path m Hm). }
    assert (Hsc : forall own : list Z, (if grp && negb (z =? 1) then [2 * z] else []) ++ (if negb grp && negb (z =? 1) then [2 * z] else []) = scales_of z).
    { intros _. unfold scales_of, grp. destruct (z =? 1); reflexivity. }
    assert (Hsc2 : (if grp && negb (z =? 1) then [2 * z] else []) ++ [] = scales_of z).
    { unfold scales_of, grp. destruct (z =? 1); reflexivity. }
    subst bgpaths. rewrite sort_two in Hdoc.
    destruct (lenZ (render_empty (lit "path") DA) <=? lenZ (render_empty (lit "path") BA)).
    + exists [dark_rec o (scales_of z) (Some wd) (map abs_seg lines); bg_rec (scales_of z) wl (rect_segs m)].
      split; [|exists lc, wl; auto].
      change [render_empty (lit "path") DA; render_empty (lit "path") BA] with (map (render_empty (lit "path")) [DA; BA]) in Hdoc.
      subst doc. unfold read_svg. rewrite lex_final by (try assumption; repeat constructor; assumption). cbn [opt_bind].
      rewrite (read_events_final o z m grp [DA; BA]
                 [fun sc => dark_rec o (sc ++ (if negb grp && negb (z =? 1) then [2 * z] else [])) (Some wd) (map abs_seg lines);
                  fun sc => bg_rec (sc ++ []) wl (rect_segs m)]); try assumption.
      * cbn [map]. rewrite (Hsc []), Hsc2. reflexivity.
      * repeat constructor; assumption.
    + exists [bg_rec (scales_of z) wl (rect_segs m); dark_rec o (scales_of z) (Some wd) (map abs_seg lines)].
      split; [|exists lc, wl; auto].
      change [render_empty (lit "path") BA; render_empty (lit "path") DA] with (map (render_empty (lit "path")) [BA; DA]) in Hdoc.
      subst doc. unfold read_svg. rewrite lex_final by (try assumption; repeat constructor; assumption). cbn [opt_bind].
      rewrite (read_events_final o z m grp [BA; DA]
                 [fun sc => bg_rec (sc ++ []) wl (rect_segs m);
                  fun sc => dark_rec o (sc ++ (if negb grp && negb (z =? 1) then [2 * z] else [])) (Some wd) (map abs_seg lines)]); try assumption.
      * cbn [map]. rewrite (Hsc []), Hsc2. reflexivity.
      * repeat constructor; assumption.
  - subst bgpaths. cbn [sort_by_len fold_right insert_by_len] in Hdoc.
    exists [dark_rec o (scales_of z) (Some wd) (map abs_seg lines)]. split; [|reflexivity].
    change [render_empty (lit "path") DA] with (map (render_empty (lit "path")) [DA]) in Hdoc.
    subst doc. unfold read_svg. rewrite lex_final by (try assumption; repeat constructor; assumption). cbn [opt_bind].
    rewrite (read_events_final o z m grp [DA]
               [fun sc => dark_rec o (sc ++ (if negb grp && negb (z =? 1) then [2 * z] else [])) (Some wd) (map abs_seg lines)]); try assumption.
    + cbn [map]. unfold grp. rewrite andb_false_r. cbn [andb negb app]. unfold scales_of. destruct (z =? 1); reflexivity.
    + repeat constructor; assumption.
Qed.

Lemma stroked_dark o sc w segs : stroked (dark_rec o sc (Some w) segs) = true.
Proof. reflexivity. Qed.
Lemma stroked_bg sc w segs : stroked (bg_rec sc w segs) = false.
Proof. reflexivity. Qed.
Lemma path_scale_of o z w segs : 0 < z -> path_scale (dark_rec o (scales_of z) w segs) = Some (2 * z).
Proof. intros Hz. unfold path_scale, dark_rec, scales_of. cbn [p_scales]. destruct (z =? 1) eqn:E; [apply Z.eqb_eq in E; subst|]; reflexivity. Qed.
Lemma page_user_final o W unit paths :
  negb (lenZ unit =? 0) && so_omitsize o = false -> page_user (final_doc o W unit paths) = Some (W, W).
Proof.
  intros H. unfold page_user, final_doc. cbn [d_viewbox d_width d_height].
  destruct (so_omitsize o); cbn [orb]; [reflexivity|].
  rewrite andb_false_r in H. destruct (lenZ unit =? 0) eqn:E; cbn [negb]; [|reflexivity].
  unfold lenZ in E. apply Z.eqb_eq in E. destruct unit; [reflexivity|cbn in E; lia].
Qed.

(* C10, geometry: the strokes read back from the document cover exactly the dark modules, shifted by the border *)
Theorem svg_dark_cells : forall matrix align size dark light o z doc,
  so_scale o = SInt z -> 0 < size ->
  length matrix = Z.to_nat size -> Forall (fun row => length row = Z.to_nat size) matrix ->
  ocolor_eqb (Some dark) light = false -> unit_ok (unit_of o) -> lineclass_ok o ->
  write_svg matrix align size (two_colors (Some dark) light) o = Ok doc ->
  let b := border_of size o in
  let m := size + 2 * b in
  exists d p cells,
    read_svg doc = Some d /\
    filter stroked (d_paths d) = [p] /\                       (* exactly one stroked path *)
    path_scale p = Some (2 * z) /\                            (* the document's own scale transform (half units) *)
    page_user d = Some (2 * (m * z), 2 * (m * z)) /\          (* page = (size + 2b) * scale, in half units *)
    stroke_cells p = Some cells /\
    cells = rows_dark matrix b b /\
    NoDup cells /\                                            (* every cell painted once *)
    (forall c r, In (c, r) cells <->
                 0 <= r - b < size /\ 0 <= c - b < size /\ mcell matrix (r - b) (c - b) <> 0) /\
    (forall c r, In (c, r) cells -> 0 <= c < m /\ 0 <= r < m).   (* nothing outside the page *)
Proof.
  intros matrix align size dark light o z doc Hscale Hsize Hlen Hrows Hdl Hunit Hcls H b m.
  destruct (svg_read_two matrix align size dark light o z doc Hscale Hsize Hlen Hrows Hdl Hunit Hcls H)
    as (Hz & Hb & wd & Hwd & paths & Hread & Hpaths).
  fold b in Hb, Hread, Hpaths. fold m in Hread, Hpaths.
  assert (Hlines : two_color_lines matrix (get_border size size (so_border o)) <> []).
  { rewrite two_color_lines_z. destruct matrix as [|row rows]; [cbn in Hlen; lia|]. apply zrows_nonempty. }
  destruct (write_svg_two matrix align size dark light o z doc Hscale Hlines Hdl H) as (_ & _ & Hu & _).
  set (dp := dark_rec o (scales_of z) (Some wd) (map abs_seg (two_color_lines matrix b))) in *.
  destruct (zrows_cells matrix b b 1) as (Hok & Hcells). rewrite <- two_color_lines_z in Hok, Hcells.
  assert (Hsc : stroke_cells dp = Some (rows_dark matrix b b)).
  { rewrite <- Hcells. apply (stroke_cells_abs _ Hok). reflexivity. }
  assert (Hfilter : filter stroked paths = [dp]).
  { cbv zeta in Hpaths. destruct light as [lc0|]; cbn [andb negb] in Hpaths.
    - destruct Hpaths as (lc & wl & _ & _ & [-> | ->]); reflexivity.
    - subst paths. reflexivity. }
  exists (final_doc o (2 * (m * z)) (unit_of o) paths), dp, (rows_dark matrix b b).
  split; [exact Hread|]. split; [exact Hfilter|]. split; [apply path_scale_of; exact Hz|].
  split; [apply page_user_final; exact Hu|]. split; [exact Hsc|]. split; [reflexivity|].
  split; [apply NoDup_rows_dark|]. split.
  - intros c r. apply rows_dark_spec; assumption.
  - intros c r Hin. apply (rows_dark_spec matrix size b c r Hlen Hrows) in Hin. unfold m. lia.
Qed.
Print Assumptions svg_dark_cells.

(* C10, page and colours *)
Theorem svg_page : forall matrix align size dark light o z doc,
  so_scale o = SInt z -> 0 < size ->
  length matrix = Z.to_nat size -> Forall (fun row => length row = Z.to_nat size) matrix ->
  ocolor_eqb (Some dark) light = false -> unit_ok (unit_of o) -> lineclass_ok o ->
  write_svg matrix align size (two_colors (Some dark) light) o = Ok doc ->
  let b := border_of size o in
  let m := size + 2 * b in
  let W := 2 * (m * z) in                                    (* (size + 2b) * scale in half units *)
  exists d p wd,
    read_svg doc = Some d /\
    (* width / height attributes, or the viewBox when they are omitted or carry a unit *)
    d_width d = (if so_omitsize o then None else Some (W, unit_of o)) /\
    d_height d = (if so_omitsize o then None else Some (W, unit_of o)) /\
    d_viewbox d = (if so_omitsize o || negb (lenZ (unit_of o) =? 0) then Some [0; 0; W; W] else None) /\
    page_user d = Some (W, W) /\
    (* the stroke colour is the web colour of the requested dark colour *)
    color_to_webcolor dark (css3_of o) = Ok wd /\
    filter stroked (d_paths d) = [p] /\
    p_stroke p = Some (wc_text wd) /\
    p_stroke_opacity p = (match wd with WAlpha _ a => Some (alpha_str a) | WPlain _ => None end) /\
    (* a requested light colour fills the whole page *)
    match light with
    | Some lc =>
        exists pf wl, color_to_webcolor lc (css3_of o) = Ok wl /\
          filter filled (d_paths d) = [pf] /\ p_fill pf = Some (wc_text wl) /\ p_stroke pf = None /\
          fill_rect pf = Some (0, 0, 2 * m, 2 * m) /\ path_scale pf = Some (2 * z) /\
          (2 * m) * (2 * z) / 2 = W
    | None => filter filled (d_paths d) = []
    end.
Proof.
  intros matrix align size dark light o z doc Hscale Hsize Hlen Hrows Hdl Hunit Hcls H b m W.
  destruct (svg_read_two matrix align size dark light o z doc Hscale Hsize Hlen Hrows Hdl Hunit Hcls H)
    as (Hz & Hb & wd & Hwd & paths & Hread & Hpaths).
  fold b in Hb, Hread, Hpaths. fold m in Hread, Hpaths. fold W in Hread.
  assert (Hlines : two_color_lines matrix (get_border size size (so_border o)) <> []).
  { rewrite two_color_lines_z. destruct matrix as [|row rows]; [cbn in Hlen; lia|]. apply zrows_nonempty. }
  destruct (write_svg_two matrix align size dark light o z doc Hscale Hlines Hdl H) as (_ & _ & Hu & _).
  set (dp := dark_rec o (scales_of z) (Some wd) (map abs_seg (two_color_lines matrix b))) in *.
  exists (final_doc o W (unit_of o) paths), dp, wd.
  split; [exact Hread|]. split; [reflexivity|]. split; [reflexivity|]. split; [reflexivity|].
  split; [apply page_user_final; exact Hu|]. split; [exact Hwd|].
  assert (Hrect : forall wl, fill_rect (bg_rec (scales_of z) wl (rect_segs m)) = Some (0, 0, 2 * m, 2 * m)).
  { intros wl. unfold fill_rect, bg_rec, rect_segs. cbn [p_segs]. rewrite !Z.eqb_refl. reflexivity. }
  assert (Hps : forall wl, path_scale (bg_rec (scales_of z) wl (rect_segs m)) = Some (2 * z)).
  { intros wl. unfold path_scale, bg_rec, scales_of. cbn [p_scales]. destruct (z =? 1) eqn:E; [apply Z.eqb_eq in E; subst|]; reflexivity. }
  assert (HW : 2 * m * (2 * z) / 2 = W).
  { unfold W. replace (2 * m * (2 * z)) with (2 * (m * z) * 2) by lia. apply Z.div_mul. lia. }
  cbn [d_paths final_doc]. cbv zeta in Hpaths.
  destruct light as [lc|]; cbn [andb] in Hpaths.
  - destruct Hpaths as (lc' & wl & Hl & Hwl & Hp). inversion Hl; subst lc'.
    assert (Hstroke : filter stroked paths = [dp]) by (destruct Hp as [-> | ->]; reflexivity).
    split; [exact Hstroke|]. split; [reflexivity|]. split; [reflexivity|].
    exists (bg_rec (scales_of z) wl (rect_segs m)), wl.
    split; [exact Hwl|]. split; [destruct Hp as [-> | ->]; reflexivity|]. repeat split; auto.
  - subst paths. repeat split; reflexivity.
Qed.
Print Assumptions svg_page.

(* C10, escaping: title, desc, id and class values survive the round trip through the XML reader, i.e. the
   document is well-formed whatever characters they contain *)
Theorem svg_escape : forall matrix align size dark light o z doc,
  so_scale o = SInt z -> 0 < size ->
  length matrix = Z.to_nat size -> Forall (fun row => length row = Z.to_nat size) matrix ->
  ocolor_eqb (Some dark) light = false -> unit_ok (unit_of o) -> lineclass_ok o ->
  write_svg matrix align size (two_colors (Some dark) light) o = Ok doc ->
  exists d p,
    read_svg doc = Some d /\
    d_title d = so_title o /\ d_desc d = so_desc o /\
    d_id d = truthy (so_svgid o) /\ d_class d = truthy (so_svgclass o) /\
    d_version d = over_of o /\
    filter stroked (d_paths d) = [p] /\ p_class p = truthy (so_lineclass o).
Proof.
  intros matrix align size dark light o z doc Hscale Hsize Hlen Hrows Hdl Hunit Hcls H.
  destruct (svg_read_two matrix align size dark light o z doc Hscale Hsize Hlen Hrows Hdl Hunit Hcls H)
    as (Hz & Hb & wd & Hwd & paths & Hread & Hpaths).
  set (dp := dark_rec o (scales_of z) (Some wd) (map abs_seg (two_color_lines matrix (border_of size o)))) in *.
  exists (final_doc o (2 * ((size + 2 * border_of size o) * z)) (unit_of o) paths), dp.
  split; [exact Hread|]. repeat (split; [reflexivity|]). split; [|reflexivity].
  cbn [d_paths final_doc].
  cbv zeta in Hpaths. destruct light as [lc0|]; cbn [andb negb] in Hpaths.
  - destruct Hpaths as (lc & wl & _ & _ & [-> | ->]); reflexivity.
  - subst paths. reflexivity.
Qed.
Print Assumptions svg_escape.

(* For every colour configuration: the title and the description occur in the output only in escaped form *)
Definition has_sub (X doc : str) : Prop := exists pre post, doc = pre ++ X ++ post.
Lemma has_sub_app_l X a b : has_sub X b -> has_sub X (a ++ b).
Proof. intros (pre & post & ->). exists (a ++ pre), post. rewrite <- app_assoc. reflexivity. Qed.
Lemma has_sub_here X rest : has_sub X (X ++ rest).
Proof. exists [], rest. reflexivity. Qed.
Lemma shape_if (c : bool) e (r : res str) (P : str -> Prop) :
  (forall d, r = Ok d -> P d) -> forall d, (if c then Err e else r) = Ok d -> P d.
Proof. intros H d. destruct c; [discriminate|apply H]. Qed.
Lemma shape_bind {A} (r : res A) (f : A -> res str) (P : str -> Prop) :
  (forall a d, f a = Ok d -> P d) -> forall d, bind r f = Ok d -> P d.
Proof. intros H d. destruct r as [a|e]; [apply H|discriminate]. Qed.
Lemma shape_ok (t : str) (P : str -> Prop) : P t -> forall d, Ok t = Ok d -> P d.
Proof. intros H d E. apply Ok_inj in E. subst. exact H. Qed.

Theorem svg_title_escaped : forall matrix align size colors o t,
  so_title o = Some t ->
  forall doc, write_svg matrix align size colors o = Ok doc ->
  has_sub (lit "<title>" ++ escape t ++ lit "</title>") doc.
Proof.
  intros matrix align size colors o t Ht. unfold write_svg. cbv zeta.
  repeat (apply shape_if || (apply shape_bind; intros ?)).
  apply shape_ok. rewrite Ht. cbn [opt_str].
  do 9 apply has_sub_app_l. apply has_sub_here.
Qed.
Print Assumptions svg_title_escaped.
Theorem svg_desc_escaped : forall matrix align size colors o t,
  so_desc o = Some t ->
  forall doc, write_svg matrix align size colors o = Ok doc ->
  has_sub (lit "<desc>" ++ escape t ++ lit "</desc>") doc.
Proof.
  intros matrix align size colors o t Ht. unfold write_svg. cbv zeta.
  repeat (apply shape_if || (apply shape_bind; intros ?)).
  apply shape_ok. rewrite Ht. cbn [opt_str].
  do 10 apply has_sub_app_l. apply has_sub_here.
Qed.
Print Assumptions svg_desc_escaped.

(* ================= Part L: the per-colour (multi-colour) path ================= *)

(* ---- colour-keyed dictionaries ---- *)
Lemma ocolor_eqb_neq a b : ocolor_eqb a b = false <-> a <> b.
Proof.
  split.
  - intros H E. apply ocolor_eqb_eq in E. congruence.
  - intros H. destruct (ocolor_eqb a b) eqn:E; [|reflexivity]. apply ocolor_eqb_eq in E. contradiction.
Qed.
Lemma od_get_set {A} k k0 (v : A) : forall d, od_get k (od_set k0 v d) = if ocolor_eqb k k0 then Some v else od_get k d.
Proof.
  induction d as [|[k' v'] r IH]; [reflexivity|]. cbn [od_set].
  destruct (ocolor_eqb k0 k') eqn:E0.
  - apply ocolor_eqb_eq in E0. subst k'. cbn [od_get]. destruct (ocolor_eqb k k0); reflexivity.
  - cbn [od_get]. rewrite IH. destruct (ocolor_eqb k k0) eqn:E1, (ocolor_eqb k k') eqn:E2; try reflexivity.
    apply ocolor_eqb_eq in E1, E2. subst. rewrite ocolor_eqb_refl in E0. discriminate.
Qed.
Lemma od_set_keys {A} k (v : A) : forall d,
  map fst (od_set k v d) = if existsb (ocolor_eqb k) (map fst d) then map fst d else map fst d ++ [k].
Proof.
  induction d as [|[k' v'] r IH]; [reflexivity|]. cbn [od_set map fst existsb].
  destruct (ocolor_eqb k k') eqn:E; cbn [orb map fst]; [reflexivity|]. rewrite IH.
  destruct (existsb (ocolor_eqb k) (map fst r)); reflexivity.
Qed.
Lemma existsb_ocolor_In k l : existsb (ocolor_eqb k) l = true <-> In k l.
Proof.
  rewrite existsb_exists. split.
  - intros (x & Hx & E). apply ocolor_eqb_eq in E. subst. exact Hx.
  - intros H. exists k. split; [exact H|apply ocolor_eqb_refl].
Qed.
Lemma od_set_NoDup {A} k (v : A) d : NoDup (map fst d) -> NoDup (map fst (od_set k v d)).
Proof.
  intros H. rewrite od_set_keys. destruct (existsb (ocolor_eqb k) (map fst d)) eqn:E; [exact H|].
  apply NoDup_app_disj; [exact H|constructor; [intros []|constructor]|].
  intros x Hx [<-|[]]. apply existsb_ocolor_In in Hx. congruence.
Qed.
Lemma od_get_In {A} k (v : A) : forall d, NoDup (map fst d) -> (In (k, v) d <-> od_get k d = Some v).
Proof.
  induction d as [|[k' v'] r IH]; intros Hnd; [cbn; split; [tauto|discriminate]|].
  cbn [map fst] in Hnd. inversion Hnd as [|? ? Hnot Hnd']; subst. cbn [In od_get].
  destruct (ocolor_eqb k k') eqn:E.
  - apply ocolor_eqb_eq in E. subst k'. split.
    + intros [H|H]; [inversion H; reflexivity|]. exfalso. apply Hnot. apply in_map_iff. exists (k, v). auto.
    + intros H. inversion H; subst. left. reflexivity.
  - apply ocolor_eqb_neq in E. rewrite <- (IH Hnd'). split; [intros [H|H]; [inversion H; congruence|exact H]|auto].
Qed.
Lemma od_get_key {A} k : forall (d : list (ocolor * A)), od_get k d <> None <-> In k (map fst d).
Proof.
  induction d as [|[k' v'] r IH]; [cbn; tauto|]. cbn [od_get map fst In].
  destruct (ocolor_eqb k k') eqn:E.
  - apply ocolor_eqb_eq in E. subst. split; [auto|discriminate].
  - apply ocolor_eqb_neq in E. rewrite IH. split; [auto|intros [H|H]; [congruence|exact H]].
Qed.

(* ---- accumulate: per colour, the relative coordinates of that colour's segments ---- *)
Definition segs_of (k : ocolor) (items : list (ocolor * seg)) : list seg :=
  map snd (filter (fun it => ocolor_eqb k (fst it)) items).
Fixpoint endxy (segs : list seg) (x y : Z) : Z * Z :=
  match segs with [] => (x, y) | (x1, x2, y1) :: r => endxy r x2 y1 end.

Lemma segs_of_cons k k0 s r : segs_of k ((k0, s) :: r) = if ocolor_eqb k k0 then s :: segs_of k r else segs_of k r.
Proof. unfold segs_of. cbn [filter fst]. destruct (ocolor_eqb k k0); reflexivity. Qed.
Lemma acc_get k : forall items d,
  od_get k (accumulate items d)
  = match od_get k d with
    | Some (cs, (x, y)) => Some (cs ++ rel_coords (segs_of k items) x y, endxy (segs_of k items) x y)
    | None => match segs_of k items with
              | [] => None
              | _ => Some (rel_coords (segs_of k items) 0 0, endxy (segs_of k items) 0 0)
              end
    end.
Proof.
  induction items as [|[k0 [[x1 x2] y1]] r IH]; intros d.
  - cbn [accumulate segs_of filter map rel_coords endxy]. destruct (od_get k d) as [[cs [x y]]|]; [rewrite app_nil_r|]; reflexivity.
  - cbn [accumulate]. rewrite segs_of_cons.
    destruct (od_get k0 d) as [[cs0 [x0 y0]]|] eqn:E0.
    + rewrite IH, od_get_set. destruct (ocolor_eqb k k0) eqn:E.
      * apply ocolor_eqb_eq in E. subst k0. rewrite E0. cbn [rel_coords endxy]. rewrite <- app_assoc. reflexivity.
      * reflexivity.
    + rewrite IH, od_get_set. destruct (ocolor_eqb k k0) eqn:E.
      * apply ocolor_eqb_eq in E. subst k0. rewrite E0. cbn [rel_coords endxy app]. rewrite !Z.sub_0_r. reflexivity.
      * reflexivity.
Qed.
Lemma acc_NoDup : forall items d, NoDup (map fst d) -> NoDup (map fst (accumulate items d)).
Proof.
  induction items as [|[k0 [[x1 x2] y1]] r IH]; intros d H; [exact H|]. cbn [accumulate].
  destruct (od_get k0 d) as [[cs0 [x0 y0]]|]; apply IH, od_set_NoDup, H.
Qed.

Definition coords0_of (items : list (ocolor * seg)) : list (ocolor * list coord) :=
  map (fun kv => (fst kv, fst (snd kv))) (accumulate items []).
Lemma coords0_spec items :
  NoDup (map fst (coords0_of items)) /\
  (forall k cs, In (k, cs) (coords0_of items) <-> segs_of k items <> [] /\ cs = rel_coords (segs_of k items) 0 0).
Proof.
  unfold coords0_of. pose proof (acc_NoDup items [] (NoDup_nil _)) as Hnd.
  split; [rewrite map_map; cbn [fst]; exact Hnd|].
  intros k cs. rewrite in_map_iff. split.
  - intros ([k' [cs' xy]] & E & Hin). cbn [fst snd] in E. inversion E; subst.
    apply (od_get_In k (cs, xy) _ Hnd) in Hin. rewrite acc_get in Hin. cbn [od_get] in Hin.
    destruct (segs_of k items); [discriminate|]. inversion Hin. split; [discriminate|reflexivity].
  - intros (Hne & ->). pose proof (acc_get k items []) as Hg. cbn [od_get] in Hg.
    destruct (segs_of k items) as [|s t] eqn:E; [congruence|]. rewrite <- E in *.
    exists (k, (rel_coords (segs_of k items) 0 0, endxy (segs_of k items) 0 0)). split; [reflexivity|].
    apply (od_get_In _ _ _ Hnd). exact Hg.
Qed.

(* ---- run-length coding of one row / of all rows ---- *)
Definition lcells (items : list (ocolor * seg)) : list (ocolor * (Z * Z)) :=
  flat_map (fun it => map (fun p => (fst it, p)) (seg_cells (snd it))) items.
Fixpoint labelled_row (row : list ocolor) (x r : Z) : list (ocolor * (Z * Z)) :=
  match row with [] => [] | c :: t => (c, (x, r)) :: labelled_row t (x + 1) r end.
Fixpoint labelled_rows (rows : list (list ocolor)) (r : Z) : list (ocolor * (Z * Z)) :=
  match rows with [] => [] | row :: t => labelled_row row 0 r ++ labelled_rows t (r + 1) end.

(* one row: the emitted (colour, segment) items are the maximal runs; as labelled cells they are the row itself *)
Lemma verbose_row_cells : forall row lc x1 x2 r, x1 <= x2 ->
  Forall (fun it => seg_ok (snd it)) (verbose_row row (Some lc) x1 x2 (2 * r + 1)) /\
  lcells (verbose_row row (Some lc) x1 x2 (2 * r + 1)) = map (fun p => (lc, p)) (span x1 x2 r) ++ labelled_row row x2 r.
Proof.
  assert (Hrow : forall r, (2 * r + 1 - 1) / 2 = r).
  { intros r. replace (2 * r + 1 - 1) with (r * 2) by lia. apply Z.div_mul. lia. }
  assert (Hodd : forall r, Z.odd (2 * r + 1) = true).
  { intros r. replace (2 * r + 1) with (1 + 2 * r) by lia. rewrite Z.odd_add_mul_2. reflexivity. }
  assert (Hsok : forall a b r, a <= b -> seg_ok (a, b, 2 * r + 1)) by (intros a b r Hab; split; [exact Hab|apply Hodd]).
  induction row as [|c t IH]; intros lc x1 x2 r Hle.
  - cbn [verbose_row labelled_row lcells flat_map fst snd seg_cells]. rewrite Hrow, !app_nil_r.
    split; [constructor; [apply Hsok; exact Hle|constructor]|reflexivity].
  - cbn [verbose_row labelled_row]. destruct (ocolor_eqb lc c) eqn:E; cbn [negb].
    + apply ocolor_eqb_eq in E. subst c. destruct (IH lc x1 (x2 + 1) r ltac:(lia)) as (Hok & Hc).
      split; [exact Hok|]. rewrite Hc, span_snoc by exact Hle. rewrite map_app, <- app_assoc. reflexivity.
    + destruct (IH c x2 (x2 + 1) r ltac:(lia)) as (Hok & Hc).
      split; [constructor; [apply Hsok; exact Hle|exact Hok]|].
      cbn [lcells flat_map fst snd seg_cells] in *. rewrite Hrow. fold (lcells (verbose_row t (Some c) x2 (x2 + 1) (2 * r + 1))).
      rewrite Hc. rewrite (span_snoc x2 x2 r) by lia. rewrite span_nil. reflexivity.
Qed.
Lemma verbose_row_start row r :
  Forall (fun it => seg_ok (snd it)) (verbose_row row None 0 0 (2 * r + 1)) /\
  lcells (verbose_row row None 0 0 (2 * r + 1)) = labelled_row row 0 r.
Proof.
  destruct row as [|c t]; [split; [constructor|reflexivity]|].
  cbn [verbose_row labelled_row]. destruct (verbose_row_cells t c 0 (0 + 1) r ltac:(lia)) as (Hok & Hc).
  split; [exact Hok|]. rewrite Hc. rewrite (span_snoc 0 0 r) by lia. rewrite span_nil. reflexivity.
Qed.
Lemma lcells_app a b : lcells (a ++ b) = lcells a ++ lcells b.
Proof. unfold lcells. apply flat_map_app. Qed.
Lemma verbose_rows_cells : forall rows r,
  Forall (fun it => seg_ok (snd it)) (verbose_rows rows (2 * r - 1)) /\
  lcells (verbose_rows rows (2 * r - 1)) = labelled_rows rows r.
Proof.
  induction rows as [|row t IH]; intros r; [split; [constructor|reflexivity]|].
  cbn [verbose_rows labelled_rows]. replace (2 * r - 1 + 2) with (2 * r + 1) by lia.
  destruct (verbose_row_start row r) as (Hok1 & Hc1).
  specialize (IH (r + 1)). replace (2 * (r + 1) - 1) with (2 * r + 1) in IH by lia. destruct IH as (Hok2 & Hc2).
  split; [apply Forall_app; auto|]. rewrite lcells_app, Hc1, Hc2. reflexivity.
Qed.

(* the cells of one colour *)
Definition cells_of (k : ocolor) (l : list (ocolor * (Z * Z))) : list (Z * Z) :=
  map snd (filter (fun lp => ocolor_eqb k (fst lp)) l).
Lemma cells_of_app k a b : cells_of k (a ++ b) = cells_of k a ++ cells_of k b.
Proof. unfold cells_of. rewrite filter_app, map_app. reflexivity. Qed.
Lemma cells_of_items k : forall items, cells_of k (lcells items) = flat_map seg_cells (segs_of k items).
Proof.
  induction items as [|[k0 s] t IH]; [reflexivity|].
  change (lcells ((k0, s) :: t)) with (map (fun p => (k0, p)) (seg_cells s) ++ lcells t).
  rewrite cells_of_app, IH. unfold segs_of. cbn [filter fst]. destruct (ocolor_eqb k k0) eqn:E.
  - cbn [map snd flat_map]. f_equal. unfold cells_of.
    induction (seg_cells s) as [|p ps IHp]; [reflexivity|]. cbn [map filter fst]. rewrite E. cbn [map snd]. f_equal. exact IHp.
  - replace (cells_of k (map (fun p => (k0, p)) (seg_cells s))) with (@nil (Z * Z)); [reflexivity|].
    unfold cells_of. induction (seg_cells s) as [|p ps IHp]; [reflexivity|]. cbn [map filter fst]. rewrite E. exact IHp.
Qed.

Definition cell_colour (rows : list (list ocolor)) (c r : Z) : option ocolor :=
  if (0 <=? c) && (0 <=? r)
  then match nth_error rows (Z.to_nat r) with Some row => nth_error row (Z.to_nat c) | None => None end
  else None.

Lemma In_labelled_row : forall row x r k c r',
  In (k, (c, r')) (labelled_row row x r) <-> r' = r /\ x <= c /\ nth_error row (Z.to_nat (c - x)) = Some k.
Proof.
  induction row as [|k0 t IH]; intros x r k c r'.
  - cbn. split; [tauto|]. intros (_ & _ & H). destruct (Z.to_nat (c - x)); discriminate.
  - cbn [labelled_row In]. rewrite IH. split.
    + intros [H|(-> & Hx & Hn)].
      * inversion H; subst. rewrite Z.sub_diag. cbn. repeat split; try lia.
      * replace (Z.to_nat (c - x)) with (S (Z.to_nat (c - (x + 1)))) by lia. cbn [nth_error]. repeat split; try lia; assumption.
    + intros (-> & Hx & Hn). destruct (Z.eq_dec c x) as [->|Hne].
      * left. rewrite Z.sub_diag in Hn. cbn in Hn. inversion Hn. reflexivity.
      * right. replace (Z.to_nat (c - x)) with (S (Z.to_nat (c - (x + 1)))) in Hn by lia. cbn [nth_error] in Hn.
        repeat split; try lia; assumption.
Qed.
Lemma In_labelled_rows : forall rows r0 k c r,
  In (k, (c, r)) (labelled_rows rows r0) <->
  r0 <= r /\ 0 <= c /\ exists row, nth_error rows (Z.to_nat (r - r0)) = Some row /\ nth_error row (Z.to_nat c) = Some k.
Proof.
  induction rows as [|row t IH]; intros r0 k c r.
  - cbn. split; [tauto|]. intros (_ & _ & row & H & _). destruct (Z.to_nat (r - r0)); discriminate.
  - cbn [labelled_rows]. rewrite in_app_iff, IH, In_labelled_row. rewrite Z.sub_0_r. split.
    + intros [(-> & Hc & Hn)|(Hr & Hc & row' & Hn1 & Hn2)].
      * repeat split; try lia. exists row. rewrite Z.sub_diag. cbn. auto.
      * repeat split; try lia. exists row'. replace (Z.to_nat (r - r0)) with (S (Z.to_nat (r - (r0 + 1)))) by lia. cbn. auto.
    + intros (Hr & Hc & row' & Hn1 & Hn2). destruct (Z.eq_dec r r0) as [->|Hne].
      * left. rewrite Z.sub_diag in Hn1. cbn in Hn1. inversion Hn1; subst. auto.
      * right. replace (Z.to_nat (r - r0)) with (S (Z.to_nat (r - (r0 + 1)))) in Hn1 by lia. cbn in Hn1.
        repeat split; try lia. exists row'. auto.
Qed.
Lemma NoDup_labelled_row : forall row x r, NoDup (map snd (labelled_row row x r)).
Proof.
  induction row as [|k t IH]; intros x r; cbn [labelled_row map snd]; [constructor|]. constructor; [|apply IH].
  rewrite in_map_iff. intros ([k' [c r']] & E & Hin). cbn in E. inversion E; subst. apply In_labelled_row in Hin. lia.
Qed.
Lemma NoDup_labelled_rows : forall rows r0, NoDup (map snd (labelled_rows rows r0)).
Proof.
  induction rows as [|row t IH]; intros r0; cbn [labelled_rows]; [constructor|]. rewrite map_app.
  apply NoDup_app_disj; [apply NoDup_labelled_row|apply IH|].
  intros [c r] H1 H2. apply in_map_iff in H1, H2. destruct H1 as ([k1 p1] & E1 & H1), H2 as ([k2 p2] & E2 & H2).
  cbn in E1, E2. subst. apply In_labelled_row in H1. apply In_labelled_rows in H2. lia.
Qed.
Lemma NoDup_map_filter {A B} (f : A -> B) (p : A -> bool) : forall l, NoDup (map f l) -> NoDup (map f (filter p l)).
Proof.
  induction l as [|a t IH]; intros H; [constructor|]. cbn [map] in H. inversion H as [|? ? Hn Ht]; subst.
  cbn [filter]. destruct (p a); [|apply IH, Ht]. cbn [map]. constructor; [|apply IH, Ht].
  intro Hin. apply Hn. apply in_map_iff in Hin. destruct Hin as (x & E & Hx). apply filter_In in Hx.
  apply in_map_iff. exists x. tauto.
Qed.
Lemma cells_of_grid rows k :
  NoDup (cells_of k (labelled_rows rows 0)) /\
  forall c r, In (c, r) (cells_of k (labelled_rows rows 0)) <-> cell_colour rows c r = Some k.
Proof.
  split; [apply NoDup_map_filter, NoDup_labelled_rows|].
  intros c r. unfold cells_of, cell_colour. rewrite in_map_iff. split.
  - intros ([k' [c' r']] & E & Hin). cbn in E. inversion E; subst. apply filter_In in Hin. destruct Hin as [Hin Hk].
    cbn in Hk. apply ocolor_eqb_eq in Hk. subst k'. apply In_labelled_rows in Hin.
    destruct Hin as (Hr & Hc & row & Hn1 & Hn2). rewrite Z.sub_0_r in Hn1.
    replace ((0 <=? c) && (0 <=? r)) with true by (symmetry; apply andb_true_iff; split; apply Z.leb_le; lia).
    rewrite Hn1. exact Hn2.
  - intros H. destruct ((0 <=? c) && (0 <=? r)) eqn:E; [|discriminate]. apply andb_true_iff in E. destruct E as [Ec Er].
    apply Z.leb_le in Ec, Er. destruct (nth_error rows (Z.to_nat r)) as [row|] eqn:En; [|discriminate].
    exists (k, (c, r)). split; [reflexivity|]. apply filter_In. split; [|cbn; apply ocolor_eqb_refl].
    apply In_labelled_rows. repeat split; try lia. exists row. rewrite Z.sub_0_r. auto.
Qed.

(* ---- stable sort by text length, on arbitrary items ---- *)
Fixpoint insert_on {A} (f : A -> str) (a : A) (l : list A) : list A :=
  match l with [] => [a] | b :: r => if lenZ (f a) <=? lenZ (f b) then a :: l else b :: insert_on f a r end.
Definition sort_on {A} (f : A -> str) (l : list A) : list A := fold_right (insert_on f) [] l.
Lemma insert_on_map {A} (f : A -> str) a : forall l, map f (insert_on f a l) = insert_by_len (f a) (map f l).
Proof.
  induction l as [|b r IH]; [reflexivity|]. cbn [insert_on map insert_by_len].
  destruct (lenZ (f a) <=? lenZ (f b)); [reflexivity|]. cbn [map]. rewrite IH. reflexivity.
Qed.
Lemma sort_on_map {A} (f : A -> str) : forall l, map f (sort_on f l) = sort_by_len (map f l).
Proof.
  induction l as [|a r IH]; [reflexivity|]. cbn [sort_on fold_right map sort_by_len].
  fold (sort_on f r). fold (sort_by_len (map f r)). rewrite insert_on_map, IH. reflexivity.
Qed.
Lemma insert_on_perm {A} (f : A -> str) a : forall l, Permutation (insert_on f a l) (a :: l).
Proof.
  induction l as [|b r IH]; [apply Permutation_refl|]. cbn [insert_on].
  destruct (lenZ (f a) <=? lenZ (f b)); [apply Permutation_refl|].
  eapply Permutation_trans; [apply perm_skip, IH|apply perm_swap].
Qed.
Lemma sort_on_perm {A} (f : A -> str) : forall l, Permutation (sort_on f l) l.
Proof.
  induction l as [|a r IH]; [apply Permutation_refl|]. cbn [sort_on fold_right]. fold (sort_on f r).
  eapply Permutation_trans; [apply insert_on_perm|apply perm_skip, IH].
Qed.
Lemma Forall2_map_same {A B C} (R : B -> C -> Prop) (f : A -> B) (g : A -> C) : forall l,
  Forall (fun x => R (f x) (g x)) l -> Forall2 R (map f l) (map g l).
Proof. induction 1; cbn [map]; constructor; auto. Qed.

(* ---- write_svg when the per-type path is taken ---- *)
Definition is_multi (cm : list (Z * ocolor)) (quiet ddark : ocolor) : bool :=
  (2 <? lenZ (distinct_colors (map snd cm)))
  || existsb (fun kv => negb (ocolor_eqb (snd kv) (if Z.shiftr (fst kv) 8 =? 0 then quiet else ddark))) cm.
Definition quiet_of (c : color_opts) : ocolor := pick (o_quiet_zone c) (o_light c).
Definition ddark_of (c : color_opts) : ocolor := pick (o_data_dark c) (o_dark c).
Lemma cm_get_quiet size colors : getZ TYPE_QUIET_ZONE (make_colormap size colors) = Ok (quiet_of colors).
Proof. unfold make_colormap. destruct (size <? 45); [destruct (size <? 21)|]; reflexivity. Qed.
Lemma cm_get_ddark size colors : getZ TYPE_DATA_DARK (make_colormap size colors) = Ok (ddark_of colors).
Proof. unfold make_colormap. destruct (size <? 45); [destruct (size <? 21)|]; reflexivity. Qed.

Definition ptriple := (ocolor * option webcolor * list coord)%type.
Definition t_key (T : ptriple) : ocolor := fst (fst T).
Definition t_col (T : ptriple) : option webcolor := snd (fst T).
Definition t_cs (T : ptriple) : list coord := snd T.

Lemma map_res_paths css p0 : forall coords paths,
  map_res (fun kv : ocolor * list coord => do w <- svg_color css (fst kv); Ok (fst kv, path_text p0 w (snd kv))) coords = Ok paths ->
  exists TS : list ptriple,
    map (fun T => (t_key T, t_cs T)) TS = coords /\
    Forall (fun T => svg_color css (t_key T) = Ok (t_col T)) TS /\
    map snd paths = map (fun T => path_text p0 (t_col T) (t_cs T)) TS.
Proof.
  induction coords as [|[k cs] r IH]; intros paths H.
  - cbn in H. apply Ok_inj in H. subst. exists []. repeat split; constructor.
  - cbn [map_res fst snd] in H. destruct (svg_color css k) as [w|] eqn:Ew; [|discriminate]. cbn [bind] in H.
    destruct (map_res _ r) as [t|] eqn:Et; [|discriminate]. cbn [bind] in H. apply Ok_inj in H. subst paths.
    destruct (IH t eq_refl) as (TS & H1 & H2 & H3). exists ((k, w, cs) :: TS). cbn [map t_key t_col t_cs fst snd].
    split; [rewrite H1; reflexivity|]. split; [constructor; [exact Ew|exact H2]|]. rewrite H3. reflexivity.
Qed.

Theorem write_svg_multi : forall matrix align size colors o z doc,
  so_scale o = SInt z ->
  is_multi (make_colormap size colors) (quiet_of colors) (ddark_of colors) = true ->
  write_svg matrix align size colors o = Ok doc ->
  let cm := make_colormap size colors in
  let b := border_of size o in
  let m := size + 2 * b in
  let grp := negb (z =? 1) in
  let p := lit "<path" ++ (if grp then [] else scale_info_of z) ++ clspart_of o in
  0 < z /\ (match so_border o with Some b' => 0 <= b' | None => True end) /\
  (negb (lenZ (unit_of o) =? 0) && so_omitsize o = false) /\
  exists rows, map_res (map_res (fun mt => getZ mt cm)) (iter_verbose_rows matrix align size size 1 b) = Ok rows /\
  exists TS : list ptriple,
    map (fun T => (t_key T, t_cs T)) TS
      = (if so_draw_transparent o then coords0_of (verbose_rows rows (-1)) else od_del None (coords0_of (verbose_rows rows (-1)))) /\
    Forall (fun T => svg_color (css3_of o) (t_key T) = Ok (t_col T)) TS /\
    doc = final_text o (scale_info_of z) (dec (m * z)) (unit_of o) (ver_attr o) grp
            (sort_by_len (map (fun T => path_text p (t_col T) (t_cs T)) TS)).
Proof.
  intros matrix align size colors o z doc Hscale Hmulti H cm b m grp p.
  unfold write_svg in H. rewrite Hscale in H.
  cbn [scale_le0 scale_is_1 scale_str scaled_str] in H.
  destruct (z <=? 0) eqn:Ez; [discriminate|]. apply Z.leb_gt in Ez.
  destruct (match so_border o with Some b0 => b0 <? 0 | None => false end) eqn:Eb; [discriminate|].
  fold (border_of size o) in H. fold b in H. fold m in H. fold (unit_of o) in H.
  destruct (negb (lenZ (unit_of o) =? 0) && so_omitsize o) eqn:Eu; [discriminate|].
  rewrite cm_get_quiet in H. cbn [bind] in H. rewrite cm_get_ddark in H. cbn [bind] in H.
  unfold is_multi in Hmulti. rewrite Hmulti in H. cbn [negb andb orb] in H.
  unfold multi_color_lines in H. fold cm in H.
  destruct (map_res (map_res (fun mt => getZ mt cm)) (iter_verbose_rows matrix align size size 1 b)) as [rows|] eqn:Erows;
    [|discriminate]. cbn [bind] in H.
  fold (coords0_of (verbose_rows rows (-1))) in H.
  fold (css3_of o) in H. fold (clspart_of o) in H.
  rewrite ?andb_true_r in H.
  match type of H with
  | bind (map_res ?F ?C) _ = _ => destruct (map_res F C) as [paths|] eqn:Ep; [|discriminate]
  end.
  cbn [bind] in H.
  split; [exact Ez|]. split; [destruct (so_border o) as [b'|]; [apply Z.ltb_ge in Eb; exact Eb|exact I]|].
  split; [reflexivity|]. exists rows. split; [reflexivity|].
  destruct (map_res_paths _ _ _ _ Ep) as (TS & H1 & H2 & H3).
  exists TS. split; [exact H1|]. split; [exact H2|].
  apply Ok_inj in H. subst doc. rewrite H3. subst p grp. reflexivity.
Qed.

(* ---- C10 for the per-colour path ---- *)
Lemma od_del_In {A} k (d : list (ocolor * A)) kv : In kv (od_del k d) <-> In kv d /\ fst kv <> k.
Proof.
  unfold od_del. rewrite filter_In. split; intros [H1 H2]; split; auto.
  - apply negb_true_iff in H2. apply ocolor_eqb_neq in H2. congruence.
  - apply negb_true_iff, ocolor_eqb_neq. congruence.
Qed.
Lemma segs_of_ok k items : Forall (fun it => seg_ok (snd it)) items -> Forall seg_ok (segs_of k items).
Proof.
  intros H. unfold segs_of. apply Forall_map. apply Forall_forall. intros it Hin. apply filter_In in Hin.
  rewrite Forall_forall in H. apply H. tauto.
Qed.

Theorem svg_colourful_cells : forall matrix align size colors o z doc,
  so_scale o = SInt z -> 0 < size -> unit_ok (unit_of o) ->
  is_multi (make_colormap size colors) (quiet_of colors) (ddark_of colors) = true ->     (* the per-type path is taken *)
  write_svg matrix align size colors o = Ok doc ->
  let cm := make_colormap size colors in
  let b := border_of size o in
  let m := size + 2 * b in
  exists (rows : list (list ocolor)) d (keys : list ocolor),
    (* rows = the configured colour of every module type delivered by matrix_iter_verbose (scale 1) *)
    Forall2 (Forall2 (fun mt k => getZ mt cm = Ok k)) (iter_verbose_rows matrix align size size 1 b) rows /\
    read_svg doc = Some d /\
    page_user d = Some (2 * (m * z), 2 * (m * z)) /\
    (* one path per colour key, in document order; the keys are pairwise different *)
    NoDup keys /\
    (forall k, In k keys -> k <> None \/ so_draw_transparent o = true) /\
    (forall k c r, cell_colour rows c r = Some k -> k <> None \/ so_draw_transparent o = true -> In k keys) /\
    Forall2 (fun k p =>
               exists ow cells,
                 svg_color (css3_of o) k = Ok ow /\ p_stroke p = option_map wc_text ow /\ p_fill p = None /\
                 path_scale p = Some (2 * z) /\
                 stroke_cells p = Some cells /\ NoDup cells /\
                 forall c r, In (c, r) cells <-> cell_colour rows c r = Some k)
            keys (d_paths d).
Proof.
  intros matrix align size colors o z doc Hscale Hsize Hunit Hmulti H cm b m.
  destruct (write_svg_multi matrix align size colors o z doc Hscale Hmulti H)
    as (Hz & Hb & Hu & rows & Hrows & TS & Hcoords & Hcol & Hdoc).
  fold cm in Hrows. fold b in Hrows, Hdoc. fold m in Hdoc.
  assert (Hb0 : 0 <= b).
  { unfold b, border_of, get_border. destruct (so_border o) as [b'|]; [exact Hb|].
    unfold get_default_border_size. destruct ((17 <? size) && (size =? size)); lia. }
  assert (Hmz : 0 <= m * z) by (apply Z.mul_nonneg_nonneg; unfold m; lia).
  assert (Hz0 : 0 <= z) by lia.
  set (items := verbose_rows rows (-1)) in *.
  destruct (verbose_rows_cells rows 0) as (Hitems_ok & Hitems_cells). change (2 * 0 - 1) with (-1) in Hitems_ok, Hitems_cells.
  fold items in Hitems_ok, Hitems_cells.
  destruct (coords0_spec items) as (Hnd0 & Hin0).
  set (coords := if so_draw_transparent o then coords0_of items else od_del None (coords0_of items)) in *.
  assert (Hcoords_in : forall k cs, In (k, cs) coords <->
            (segs_of k items <> [] /\ cs = rel_coords (segs_of k items) 0 0) /\ (so_draw_transparent o = true \/ k <> None)).
  { intros k cs. unfold coords. destruct (so_draw_transparent o).
    - rewrite Hin0. intuition.
    - rewrite od_del_In, Hin0. cbn [fst]. intuition congruence. }
  assert (Hcoords_nd : NoDup (map fst coords)).
  { unfold coords. destruct (so_draw_transparent o); [exact Hnd0|]. unfold od_del. apply NoDup_map_filter. exact Hnd0. }
  set (grp := negb (z =? 1)) in *.
  set (tr := negb grp && negb (z =? 1)).
  set (p := lit "<path" ++ (if grp then [] else scale_info_of z) ++ clspart_of o) in *.
  set (text := fun T : ptriple => path_text p (t_col T) (t_cs T)) in *.
  set (sorted := sort_on text TS).
  pose proof (sort_on_perm text TS) as Hperm. fold sorted in Hperm.
  set (DA := fun T : ptriple => dark_dattrs o tr z (t_col T) (path_data true (t_cs T))).
  assert (Htext : forall T, text T = render_empty (lit "path") (DA T)) by (intros T; apply dark_path_render).
  (* every triple carries the relative coordinates of its colour's segments *)
  assert (HTS : forall T, In T sorted ->
            svg_color (css3_of o) (t_key T) = Ok (t_col T) /\ t_cs T = rel_coords (segs_of (t_key T) items) 0 0 /\
            (so_draw_transparent o = true \/ t_key T <> None)).
  { intros T HT. apply (Permutation_in _ Hperm) in HT.
    rewrite Forall_forall in Hcol. split; [apply Hcol; exact HT|].
    assert (Hin : In (t_key T, t_cs T) coords).
    { rewrite <- Hcoords. apply in_map_iff. exists T. auto. }
    apply Hcoords_in in Hin. tauto. }
  set (scales := scales_of z).
  set (rec := fun T : ptriple => dark_rec o scales (t_col T) (map abs_seg (segs_of (t_key T) items))).
  (* reading the document *)
  assert (Hread : read_svg doc = Some (final_doc o (2 * (m * z)) (unit_of o) (map rec sorted))).
  { subst doc. rewrite <- (sort_on_map text TS). fold sorted.
    rewrite (map_ext text (fun T => render_empty (lit "path") (DA T)) Htext), <- (map_map DA (render_empty (lit "path"))).
    unfold read_svg. rewrite lex_final; [| exact Hmz | exact Hunit |].
    2: { apply Forall_map. apply Forall_forall. intros T _. apply dark_dattrs_ok, path_data_plain. }
    cbn [opt_bind].
    rewrite (read_events_final o z m grp (map DA sorted)
               (map (fun T sc => dark_rec o (sc ++ (if tr then [2 * z] else [])) (t_col T) (map abs_seg (segs_of (t_key T) items))) sorted));
      try assumption.
    - f_equal. f_equal. rewrite map_map. apply map_ext. intros T. unfold rec, scales, scales_of, tr, grp.
      destruct (z =? 1); reflexivity.
    - apply Forall2_map_same. apply Forall_forall. intros T HT stk _.
      destruct (HTS T HT) as (_ & Hcs & _).
      unfold DA. apply read_path_dark; [exact Hz0|apply path_data_plain|]. rewrite Hcs. apply parse_path_data_roundtrip. }
  exists rows, (final_doc o (2 * (m * z)) (unit_of o) (map rec sorted)), (map t_key sorted).
  split.
  { (* rows versus iter_verbose_rows *)
    clear - Hrows. revert rows Hrows. generalize (iter_verbose_rows matrix align size size 1 b) as grid.
    assert (Hrow : forall row krow, map_res (fun mt => getZ mt cm) row = Ok krow -> Forall2 (fun mt k => getZ mt cm = Ok k) row krow).
    { induction row as [|mt t IH]; intros krow H.
      - cbn in H. apply Ok_inj in H. subst. constructor.
      - cbn [map_res] in H. destruct (getZ mt cm) as [k|] eqn:Ek; [|discriminate]. cbn [bind] in H.
        destruct (map_res _ t) as [kt|] eqn:Et; [|discriminate]. cbn [bind] in H. apply Ok_inj in H. subst.
        constructor; [exact Ek|apply IH; reflexivity]. }
    induction grid as [|row t IH]; intros rows H.
    - cbn in H. apply Ok_inj in H. subst. constructor.
    - cbn [map_res] in H. destruct (map_res (fun mt => getZ mt cm) row) as [krow|] eqn:Ek; [|discriminate]. cbn [bind] in H.
      destruct (map_res _ t) as [kt|] eqn:Et; [|discriminate]. cbn [bind] in H. apply Ok_inj in H. subst.
      constructor; [apply Hrow; exact Ek|apply IH; reflexivity]. }
  split; [exact Hread|]. split; [apply page_user_final; exact Hu|].
  assert (Hkeys_perm : Permutation (map t_key sorted) (map fst coords)).
  { rewrite <- Hcoords, map_map. cbn [fst]. apply Permutation_map. exact Hperm. }
  split; [apply (Permutation_NoDup (Permutation_sym Hkeys_perm)); exact Hcoords_nd|].
  split.
  { intros k Hk. apply in_map_iff in Hk. destruct Hk as (T & <- & HT). destruct (HTS T HT) as (_ & _ & [Hd|Hd]); auto. }
  split.
  { intros k c r Hcell Hkeep. apply (Permutation_in _ (Permutation_sym Hkeys_perm)).
    apply in_map_iff. exists (k, rel_coords (segs_of k items) 0 0). split; [reflexivity|].
    apply Hcoords_in. split; [split; [|reflexivity]|tauto].
    apply (proj2 (cells_of_grid rows k)) in Hcell. rewrite <- Hitems_cells, cells_of_items in Hcell.
    intro E. rewrite E in Hcell. destruct Hcell. }
  cbn [d_paths final_doc]. apply Forall2_map_same. apply Forall_forall. intros T HT.
  destruct (HTS T HT) as (Hsvg & _ & _).
  exists (t_col T), (cells_of (t_key T) (labelled_rows rows 0)).
  split; [exact Hsvg|]. split; [reflexivity|]. split; [reflexivity|].
  split; [unfold rec, scales; apply path_scale_of; exact Hz|].
  split.
  - rewrite <- Hitems_cells, cells_of_items. apply (stroke_cells_abs _ (segs_of_ok _ _ Hitems_ok)). reflexivity.
  - apply cells_of_grid.
Qed.
Print Assumptions svg_colourful_cells.
Print Assumptions write_svg_multi.

(* nothing outside the page: the grid of module types has (size + 2b)^2 entries (IterLemmas) *)
Lemma Forall2_nth_error {A B} (R : A -> B -> Prop) : forall l1 l2 n b,
  Forall2 R l1 l2 -> nth_error l2 n = Some b -> exists a, nth_error l1 n = Some a /\ R a b.
Proof.
  intros l1 l2 n b H. revert n. induction H as [|x y t1 t2 Hxy Ht IH]; intros n Hn; [destruct n; discriminate|].
  destruct n as [|n]; cbn in *; [inversion Hn; subst; eauto|apply IH; exact Hn].
Qed.
Lemma Forall2_len {A B} (R : A -> B -> Prop) l1 l2 : Forall2 R l1 l2 -> length l1 = length l2.
Proof. induction 1; cbn; congruence. Qed.
Theorem colourful_cell_in_page : forall matrix align size b (R : Z -> ocolor -> Prop) rows c r k,
  0 < size -> 0 <= b ->
  Forall2 (Forall2 R) (iter_verbose_rows matrix align size size 1 b) rows ->
  cell_colour rows c r = Some k -> 0 <= c < size + 2 * b /\ 0 <= r < size + 2 * b.
Proof.
  intros matrix align size b R rows c r k Hsize Hb HF Hcell. unfold cell_colour in Hcell.
  destruct ((0 <=? c) && (0 <=? r)) eqn:E; [|discriminate]. apply andb_true_iff in E. destruct E as [Ec Er].
  apply Z.leb_le in Ec, Er.
  destruct (nth_error rows (Z.to_nat r)) as [row|] eqn:En; [|discriminate].
  destruct (Forall2_nth_error _ _ _ _ _ HF En) as (grow & Hg & Hrow).
  pose proof (IterLemmas.iter_verbose_rows_length matrix align size 1 b Hsize ltac:(lia) Hb) as Hlen.
  pose proof (IterLemmas.iter_verbose_rows_row_length matrix align size 1 b grow Hsize ltac:(lia) Hb (nth_error_In _ _ Hg)) as Hrl.
  unfold lenZ in Hlen, Hrl.
  assert (H1 : (Z.to_nat r < length (iter_verbose_rows matrix align size size 1 b))%nat) by (apply nth_error_Some; congruence).
  assert (H2 : (Z.to_nat c < length row)%nat) by (apply nth_error_Some; congruence).
  rewrite <- (Forall2_len _ _ _ Hrow) in H2. lia.
Qed.
Print Assumptions colourful_cell_in_page.

Print Assumptions svg_read_two.
Print Assumptions parse_path_data_roundtrip.
Print Assumptions escape_spec.
Print Assumptions quoteattr_spec.
Print Assumptions bg_fixup_result.
