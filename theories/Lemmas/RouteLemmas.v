(* C12: routing logic.  The tables EXT_TO_KW, PARSER_DEFAULTS, WRITER_DEFAULTS, VALID_SERIALIZERS are dumped from the current
   source (cli._EXT_TO_KW_MAPPING, the argparse parser, inspect.signature of every serializer) and tied by Tie/TieTables.v. *)
From Coq Require Import ZArith List Bool Lia.
From Segno Require Import Base.PyLite Ref.IsoData Model.Color Model.Route.
Import ListNotations.
Open Scope Z_scope.

Lemma lower_idem s : lower (lower s) = lower s.
Proof.
  unfold lower. rewrite map_map. apply map_ext. intro c. unfold lower_cp.
  destruct ((65 <=? c) && (c <=? 90)) eqn:E; [|rewrite E; reflexivity].
  apply andb_true_iff in E. destruct E as [E1 E2]. apply Z.leb_le in E1, E2.
  replace ((65 <=? c + 32) && (c + 32 <=? 90)) with false; [reflexivity|].
  symmetry. apply andb_false_iff. right. apply Z.leb_gt. lia.
Qed.

(* the output kind is case-insensitive: save(out, kind='SVG') = save(out, kind='svg') *)
Theorem resolve_kind_case k f s : resolve (Some k) f s = resolve (Some (lower k)) f s.
Proof. unfold resolve. now rewrite lower_idem. Qed.

Lemma ext_of_lower f : lower (ext_of f) = ext_of f.
Proof. unfold ext_of. apply lower_idem. Qed.

(* an extension / kind that is not one of the 12 serializer keys (nor svgz for file names) is refused with ValueError *)
Theorem resolve_unknown kind f s key z :
  resolve kind f s = Ok (key, z) -> mem_str key VALID_SERIALIZERS = true.
Proof.
  unfold resolve. set (ext := match kind with Some k => lower k | None => ext_of f end).
  set (is_stream := match kind with Some _ => false | None => s end).
  destruct (mem_str (if negb is_stream && str_eqb ext svgz then svg else ext) VALID_SERIALIZERS) eqn:E; [|discriminate].
  intros H. injection H as <- _. exact E.
Qed.
Theorem resolve_total kind f s :
  match resolve kind f s with Ok _ => True | Err e => e = ValueError end.
Proof. unfold resolve. destruct (mem_str _ VALID_SERIALIZERS); auto. Qed.

(* the twelve kinds resolve to themselves, svgz (file names only) to svg + gzip *)
Lemma resolve_kinds :
  forallb (fun k => match resolve (Some k) [] false with Ok (key, z) => str_eqb key k && negb z | Err _ => false end) VALID_SERIALIZERS = true.
Proof. vm_compute. reflexivity. Qed.
Lemma resolve_svgz : resolve None [120; 46; 83; 86; 71; 90] false = Ok (svg, true) /\ resolve (Some svgz) [] true = Ok (svg, true)
                     /\ resolve None [120; 46; 115; 118; 103; 122] true = Err ValueError.
Proof. vm_compute. repeat split; reflexivity. Qed.

(* command line: with no serializer option given, every keyword the CLI passes to a serializer carries exactly the
   serializer's own default value -- for every output kind (finite check over the dumped tables) *)
Definition fname (ext : str) : str := [120; 46] ++ ext.
Definition passed (ext : str) : config :=
  filter (fun '(k, _) => negb (mem_str k creation_keys)) (build_config default_config (Some (fname ext))).
Definition wdefault (ext k : str) : option str :=
  match assoc_str ext WRITER_DEFAULTS with Some l => assoc_str k l | None => None end.
Theorem cli_defaults_agree :
  forallb (fun '(ext, _) => forallb (fun '(k, v) => match wdefault ext k with Some d => str_eqb d v | None => false end) (passed ext)) EXT_TO_KW = true.
Proof. vm_compute. reflexivity. Qed.
(* ... and the CLI never passes a keyword the serializer does not accept *)
Theorem cli_passes_only_supported :
  forallb (fun '(ext, kws) => forallb (fun '(k, _) => mem_str k kws) (build_config default_config (Some (fname ext)))) EXT_TO_KW = true.
Proof. vm_compute. reflexivity. Qed.
(* every serializer key has a keyword table and vice versa *)
Theorem ext_tables_agree :
  forallb (fun k => match assoc_str k EXT_TO_KW with Some _ => true | None => false end) VALID_SERIALIZERS
  && forallb (fun '(e, _) => mem_str e VALID_SERIALIZERS) EXT_TO_KW
  && forallb (fun '(e, _) => match assoc_str e WRITER_DEFAULTS with Some _ => true | None => false end) EXT_TO_KW = true.
Proof. vm_compute. reflexivity. Qed.

(* sequence file names: name.ext -> name-MM-NN.ext (two digits), unchanged for a single symbol or a name without a dot *)
Theorem sequence_filename_single out n : sequence_filename out 1 n = out.
Proof. reflexivity. Qed.
Example sequence_filename_example :
  sequence_filename [115; 97; 46; 115; 118; 103] 3 2 = [115; 97; 45; 48; 51; 45; 48; 50; 46; 115; 118; 103].   (* "sa.svg" -> "sa-03-02.svg" *)
Proof. vm_compute. reflexivity. Qed.
Theorem sequence_filename_shape out m n :
  1 < m -> -1 < rfind_dot out ->
  sequence_filename out m n = firstn (Z.to_nat (rfind_dot out)) out ++ [45] ++ dec02 m ++ [45] ++ dec02 n ++ skipn (Z.to_nat (rfind_dot out)) out.
Proof.
  intros Hm Hd. unfold sequence_filename.
  replace (1 <? m) with true by (symmetry; apply Z.ltb_lt; exact Hm).
  replace (-1 <? rfind_dot out) with true by (symmetry; apply Z.ltb_lt; exact Hd). reflexivity.
Qed.
Print Assumptions cli_defaults_agree.
Print Assumptions resolve_unknown.
