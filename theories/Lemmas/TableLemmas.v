(* The frozen tables against definitions written from the standard. *)
From Coq Require Import ZArith List Bool Lia.
From Segno Require Import Base.PyLite Ref.IsoData Ref.Bch Ref.Geometry Ref.Gf256.
Import ListNotations.
Open Scope Z_scope.

(* Annex C: format information = BCH(15,5) codeword of the 5 data bits XOR the mask constant *)
Theorem format_info_is_bch : FORMAT_INFO = map format_word_qr (zrange 0 32).
Proof. vm_compute. reflexivity. Qed.
Theorem format_info_micro_is_bch : FORMAT_INFO_MICRO = map format_word_micro (zrange 0 32).
Proof. vm_compute. reflexivity. Qed.
(* Annex D: version information = (18,6) Golay codeword of the version number *)
Theorem version_info_is_golay : VERSION_INFO = map golay18_6 (zrange 7 41).
Proof. vm_compute. reflexivity. Qed.
(* Annex E: alignment pattern centres by formula *)
Theorem alignment_pos_is_annex_e : ALIGNMENT_POS = map align_centres (zrange 2 41).
Proof. vm_compute. reflexivity. Qed.
(* Table 7 vs Table 9: data capacity in bits = 8 * data codewords (- 4 for M1 / M3) *)
Definition data_codewords (infos : list (Z * Z * Z)) : Z := fold_left (fun a '(nb, _, nd) => a + nb * nd) infos 0.
Theorem capacity_is_data_codewords :
  forallb (fun '(v, row) =>
    forallb (fun '(l, cap) =>
      match assocZ v ECC with
      | Some erow => match assocOZ l erow with
                     | Some infos => cap =? 8 * data_codewords infos - (if (v =? -3) || (v =? -1) then 4 else 0)
                     | None => false end
      | None => false end) row) SYMBOL_CAPACITY = true.
Proof. vm_compute. reflexivity. Qed.
