(* Lemmas/PngLemmas.v -- properties C09 and C11 for the PNG serializer.

   Model:  Model/Png.v  (write_png, png_parts; DEFLATE is the section variable [deflate])
   Reader: Ref/PngReader.v (read_png, written from the PNG specification; [inflate] is a section variable)

   Main results (all closed under the global context once the sections are closed; [inflate_deflate] is the only
   hypothesis about the compressor):
     png_roundtrip_opts         THE statement for C09 / C11: whenever write_png accepts its arguments, read_png gives an
                                n x n image, n = (size + 2 border) * scale, whose pixel (x, y) has the colour configured
                                (through _make_colormap) for the type of module (y div scale - border, x div scale -
                                border), transparent where that colour is None
     png_roundtrip              the same for an arbitrary module type -> colour map (write_png_cm)
     png_roundtrip_two_colours  corollary on Ref.Pixel.pixel_grid when only dark / light are given: dark modules have
                                the dark colour, light modules and the quiet zone the light colour
     png_read_core              read_png (write_png ...) = the grid of palette indices, with the meaning of each index
     crc32_matches_spec         the writer's bytewise CRC-32 = the reader's bit-serial CRC, for all byte lists
     row_samples_pack           unpack (pack row) = row for every row length and bit depth 1, 2, 4
     chunk_wellformed, png_wellformed   length field = data length, CRC field = CRC(type ++ data), IHDR = image side
     png_err_scale / _border / _dpi / _colour, png_color_err_class, png_clr_map_err_class   refusals (ValueError)
     png_write_succeeds_default the hypotheses are satisfiable (default colours, any 0/1 matrix)
   Pixels are compared after [norm_px]: a fully transparent pixel (alpha 0) is compared without its RGB part. *)
From Coq Require Import ZArith List Bool Lia.
From Segno Require Import Base.PyLite Base.PyCase Ref.IsoData Ref.Pixel Model.Iter Model.Color Model.Png Ref.PngReader Lemmas.IterLemmas.
Import ListNotations.
Open Scope Z_scope.


(* ===== Part D: bit packing of scanlines (writer) and unpacking (reader), parametric in row width and bit depth ===== *)
(* Sample packing of the PNG writer (Model/Png.v: pack_group, pack_samples, scanline) against the sample
   unpacking of the independent reader (Ref/PngReader.v: byte_samples, row_samples, row_bytes). *)

Definition sample_ok (bd v : Z) : Prop := 0 <= v < 2 ^ bd.
Definition depth_ok (bd : Z) : Prop := bd = 1 \/ bd = 2 \/ bd = 4.

(* ---------- small list facts ---------- *)
Lemma Forall_repeat_ok : forall (P : Z -> Prop) x n, P x -> Forall P (repeat x n).
Proof. intros P x n H. induction n as [|n IH]; cbn [repeat]; constructor; auto. Qed.

Lemma sample_ok_0 : forall bd, 0 <= bd -> sample_ok bd 0.
Proof. intros bd H. unfold sample_ok. pose proof (Z.pow_pos_nonneg 2 bd). lia. Qed.

Lemma all_zero_repeat : forall l : list Z, Forall (eq 0) l -> l = repeat 0 (List.length l).
Proof.
  intros l H. induction H as [|x l Hx Hl IH].
  - reflexivity.
  - cbn [List.length repeat]. subst x. f_equal. exact IH.
Qed.

(* ---------- pack_group: positional numeral in base 2^bd ---------- *)
Lemma pack_fold_acc : forall bd g acc, 0 <= bd ->
  fold_left (fun x y => x * 2 ^ bd + y) g acc =
  acc * 2 ^ (bd * Z.of_nat (List.length g)) + fold_left (fun x y => x * 2 ^ bd + y) g 0.
Proof.
  intros bd g. induction g as [|y g IH]; intros acc Hbd.
  - cbn [fold_left List.length]. change (Z.of_nat 0) with 0. rewrite Z.mul_0_r, Z.pow_0_r. lia.
  - cbn [fold_left List.length].
    rewrite (IH (acc * 2 ^ bd + y)) by assumption. rewrite (IH (0 * 2 ^ bd + y)) by assumption.
    rewrite Nat2Z.inj_succ.
    replace (bd * Z.succ (Z.of_nat (List.length g))) with (bd + bd * Z.of_nat (List.length g)) by lia.
    rewrite Z.pow_add_r by lia. ring.
Qed.

Lemma pack_group_nil : forall bd, pack_group bd [] = 0.
Proof. reflexivity. Qed.

Lemma pack_group_cons : forall bd y g, 0 <= bd ->
  pack_group bd (y :: g) = y * 2 ^ (bd * Z.of_nat (List.length g)) + pack_group bd g.
Proof.
  intros bd y g Hbd. unfold pack_group. cbn [fold_left]. rewrite pack_fold_acc by assumption.
  rewrite Z.mul_0_l, Z.add_0_l. reflexivity.
Qed.

Lemma pack_group_range : forall bd g, 0 < bd -> Forall (sample_ok bd) g ->
  0 <= pack_group bd g < 2 ^ (bd * Z.of_nat (List.length g)).
Proof.
  intros bd g Hbd H. induction H as [|y g Hy Hg IH].
  - rewrite pack_group_nil. cbn [List.length]. change (Z.of_nat 0) with 0.
    rewrite Z.mul_0_r, Z.pow_0_r. lia.
  - rewrite pack_group_cons by lia. cbn [List.length]. rewrite Nat2Z.inj_succ.
    replace (bd * Z.succ (Z.of_nat (List.length g))) with (bd + bd * Z.of_nat (List.length g)) by lia.
    rewrite Z.pow_add_r by lia. unfold sample_ok in Hy.
    remember (2 ^ (bd * Z.of_nat (List.length g))) as W eqn:EW.
    remember (2 ^ bd) as B eqn:EB.
    clear EW EB Hg. nia.
Qed.

(* a multiple of 2^(bd*n) does not influence the n low-order samples *)
Lemma byte_samples_add_high : forall bd k n a p, 0 < bd -> (k <= n)%nat ->
  byte_samples bd k (a * 2 ^ (bd * Z.of_nat n) + p) = byte_samples bd k p.
Proof.
  intros bd k. induction k as [|k IH]; intros n a p Hbd Hk.
  - reflexivity.
  - cbn [byte_samples]. f_equal.
    + replace (Z.of_nat n) with (Z.of_nat k + (1 + Z.of_nat (n - S k))) by lia.
      replace (bd * (Z.of_nat k + (1 + Z.of_nat (n - S k))))
        with (bd * Z.of_nat k + (bd + bd * Z.of_nat (n - S k))) by ring.
      assert (H1 : 0 <= bd * Z.of_nat k) by (apply Z.mul_nonneg_nonneg; lia).
      assert (H2 : 0 <= bd * Z.of_nat (n - S k)) by (apply Z.mul_nonneg_nonneg; lia).
      rewrite !Z.pow_add_r by lia.
      remember (2 ^ (bd * Z.of_nat k)) as X eqn:EX.
      remember (2 ^ (bd * Z.of_nat (n - S k))) as C eqn:EC.
      assert (HX : X <> 0) by (subst X; apply Z.pow_nonzero; lia).
      replace (a * (X * (2 ^ bd * C)) + p) with (p + (a * C * 2 ^ bd) * X) by ring.
      rewrite Z.div_add by exact HX.
      replace (p / X + a * C * 2 ^ bd) with (p / X + (a * C) * 2 ^ bd) by ring.
      apply Z_mod_plus_full.
    + apply IH; lia.
Qed.

Lemma byte_samples_pack_group : forall bd g, 0 < bd -> Forall (sample_ok bd) g ->
  byte_samples bd (List.length g) (pack_group bd g) = g.
Proof.
  intros bd g Hbd H. induction H as [|y g Hy Hg IH].
  - reflexivity.
  - rewrite pack_group_cons by lia. cbn [List.length byte_samples].
    pose proof (pack_group_range bd g Hbd Hg) as HR.
    assert (HW : 2 ^ (bd * Z.of_nat (List.length g)) <> 0) by (apply Z.pow_nonzero; lia).
    f_equal.
    + rewrite Z.div_add_l by exact HW. rewrite (Z.div_small (pack_group bd g)) by exact HR.
      rewrite Z.add_0_r. apply Z.mod_small. exact Hy.
    + rewrite byte_samples_add_high by (try assumption; lia). exact IH.
Qed.

Lemma pack_group_zeros : forall bd g, Forall (eq 0) g -> pack_group bd g = 0.
Proof.
  intros bd g H. unfold pack_group. induction H as [|y g Hy Hg IH].
  - reflexivity.
  - cbn [fold_left]. subst y. rewrite Z.mul_0_l, Z.add_0_l. exact IH.
Qed.

Lemma padded_ok : forall bd k row, 0 < bd -> (List.length row <= k)%nat -> Forall (sample_ok bd) row ->
  Forall (sample_ok bd) (row ++ repeat 0 (k - List.length row)%nat) /\
  List.length (row ++ repeat 0 (k - List.length row)%nat) = k.
Proof.
  intros bd k row Hbd Hle HF. split.
  - apply Forall_app. split; [exact HF|]. apply Forall_repeat_ok. apply sample_ok_0. lia.
  - rewrite app_length, repeat_length. lia.
Qed.

(* ---------- pack_samples: unfolding and an induction principle ---------- *)
Lemma pack_samples_cons : forall f k bd x r,
  pack_samples (S f) k bd (x :: r) =
  pack_group bd (firstn k (x :: r) ++ repeat 0 (k - List.length (firstn k (x :: r)))%nat)
  :: pack_samples f k bd (skipn k (x :: r)).
Proof. reflexivity. Qed.

Lemma pack_samples_nil : forall f k bd, pack_samples f k bd [] = [].
Proof. destruct f; reflexivity. Qed.

Section PackInd.
  Variables (k : nat) (bd : Z).
  Hypothesis Hk : (0 < k)%nat.
  Variable P : list Z -> list Z -> Prop.
  Hypothesis P_nil : P [] [].
  Hypothesis P_last : forall row, row <> [] -> (List.length row <= k)%nat ->
     P row [pack_group bd (row ++ repeat 0 (k - List.length row)%nat)].
  Hypothesis P_step : forall row out, (k < List.length row)%nat -> List.length (firstn k row) = k ->
     P (skipn k row) out -> P row (pack_group bd (firstn k row) :: out).

  Lemma pack_samples_rect : forall fuel row, (List.length row <= fuel)%nat -> P row (pack_samples fuel k bd row).
  Proof.
    induction fuel as [|f IH]; intros row Hlen.
    - destruct row as [|x r]; [|cbn [List.length] in Hlen; lia]. exact P_nil.
    - destruct row as [|x r]; [exact P_nil|].
      rewrite pack_samples_cons. remember (x :: r) as row eqn:Erow.
      destruct (le_lt_dec (List.length row) k) as [Hle|Hgt].
      + rewrite (firstn_all2 (n := k) row) by exact Hle.
        rewrite (skipn_all2 (n := k) row) by exact Hle.
        rewrite pack_samples_nil.
        apply P_last; [subst row; discriminate|exact Hle].
      + assert (Hf : List.length (firstn k row) = k) by (rewrite firstn_length; lia).
        rewrite Hf. replace (k - k)%nat with 0%nat by lia. cbn [repeat]. rewrite app_nil_r.
        apply P_step; [exact Hgt|exact Hf|]. apply IH. rewrite skipn_length. lia.
  Qed.
End PackInd.

(* ---------- generic (in k and bd) versions ---------- *)
Lemma pack_samples_lenZ_gen : forall k bd fuel row, (0 < k)%nat -> (List.length row <= fuel)%nat ->
  lenZ (pack_samples fuel k bd row) = (lenZ row + Z.of_nat k - 1) / Z.of_nat k.
Proof.
  intros k bd fuel row Hk Hlen.
  refine (pack_samples_rect k bd Hk
            (fun row out => lenZ out = (lenZ row + Z.of_nat k - 1) / Z.of_nat k) _ _ _ fuel row Hlen).
  - unfold lenZ. cbn [List.length]. change (Z.of_nat 0) with 0. symmetry. apply Z.div_small. lia.
  - intros r Hne Hle. unfold lenZ. cbn [List.length]. change (Z.of_nat 1) with 1.
    destruct r as [|x r]; [congruence|].
    apply (Z.div_unique _ _ 1 (Z.of_nat (List.length (x :: r)) - 1)).
    + left. cbn [List.length] in *. lia.
    + lia.
  - intros r out Hgt Hf IH. unfold lenZ in *. cbn [List.length]. rewrite Nat2Z.inj_succ, IH.
    rewrite skipn_length, Nat2Z.inj_sub by lia.
    replace (Z.of_nat (List.length r) - Z.of_nat k + Z.of_nat k - 1) with (Z.of_nat (List.length r) - 1) by lia.
    replace (Z.of_nat (List.length r) + Z.of_nat k - 1)
      with (Z.of_nat (List.length r) - 1 + 1 * Z.of_nat k) by lia.
    rewrite Z.div_add by lia. lia.
Qed.

Lemma pack_samples_range_gen : forall k bd fuel row, (0 < k)%nat -> 0 < bd -> (List.length row <= fuel)%nat ->
  Forall (sample_ok bd) row ->
  Forall (fun b => 0 <= b < 2 ^ (bd * Z.of_nat k)) (pack_samples fuel k bd row).
Proof.
  intros k bd fuel row Hk Hbd Hlen.
  refine (pack_samples_rect k bd Hk
            (fun row out => Forall (sample_ok bd) row -> Forall (fun b => 0 <= b < 2 ^ (bd * Z.of_nat k)) out)
            _ _ _ fuel row Hlen).
  - intros _. constructor.
  - intros r Hne Hle HF. destruct (padded_ok bd k r Hbd Hle HF) as [HF' HL].
    constructor; [|constructor].
    pose proof (pack_group_range bd _ Hbd HF') as R. rewrite HL in R. exact R.
  - intros r out Hgt Hf IH HF. rewrite <- (firstn_skipn k r) in HF. apply Forall_app in HF.
    destruct HF as [HF1 HF2]. constructor; [|exact (IH HF2)].
    pose proof (pack_group_range bd _ Hbd HF1) as R. rewrite Hf in R. exact R.
Qed.

(* unpacking the packed row gives the row back, followed by the zero fill of the last byte *)
Lemma flat_samples_pack_gen : forall k bd fuel row, (0 < k)%nat -> 0 < bd -> (List.length row <= fuel)%nat ->
  Forall (sample_ok bd) row ->
  exists p, flat_map (byte_samples bd k) (pack_samples fuel k bd row) = row ++ repeat 0 p.
Proof.
  intros k bd fuel row Hk Hbd Hlen.
  refine (pack_samples_rect k bd Hk
            (fun row out => Forall (sample_ok bd) row ->
                            exists p, flat_map (byte_samples bd k) out = row ++ repeat 0 p)
            _ _ _ fuel row Hlen).
  - intros _. exists 0%nat. reflexivity.
  - intros r Hne Hle HF. destruct (padded_ok bd k r Hbd Hle HF) as [HF' HL].
    exists (k - List.length r)%nat. cbn [flat_map]. rewrite app_nil_r.
    pose proof (byte_samples_pack_group bd _ Hbd HF') as E. rewrite HL in E. exact E.
  - intros r out Hgt Hf IH HF. pose proof HF as HF0.
    rewrite <- (firstn_skipn k r) in HF0. apply Forall_app in HF0.
    destruct HF0 as [HF1 HF2]. destruct (IH HF2) as [p Hp]. exists p.
    cbn [flat_map]. rewrite Hp.
    pose proof (byte_samples_pack_group bd _ Hbd HF1) as E. rewrite Hf in E. rewrite E.
    rewrite app_assoc, firstn_skipn. reflexivity.
Qed.

Lemma pack_samples_all_zero_gen : forall k bd fuel row, (0 < k)%nat -> (List.length row <= fuel)%nat ->
  Forall (eq 0) row -> Forall (eq 0) (pack_samples fuel k bd row).
Proof.
  intros k bd fuel row Hk Hlen.
  refine (pack_samples_rect k bd Hk
            (fun row out => Forall (eq 0) row -> Forall (eq 0) out) _ _ _ fuel row Hlen).
  - intros _. constructor.
  - intros r Hne Hle HF. constructor; [|constructor]. symmetry. apply pack_group_zeros.
    apply Forall_app. split; [exact HF|]. apply Forall_repeat_ok. reflexivity.
  - intros r out Hgt Hf IH HF. rewrite <- (firstn_skipn k r) in HF. apply Forall_app in HF.
    destruct HF as [HF1 HF2]. constructor; [|exact (IH HF2)]. symmetry. apply pack_group_zeros. exact HF1.
Qed.

(* ---------- the statements for bit depth 1, 2, 4 ---------- *)
Ltac Zify.zify_post_hook ::= Z.to_euclidean_division_equations.

Lemma depth_ok_k : forall bd, depth_ok bd ->
  0 < bd /\ (0 < Z.to_nat (8 / bd))%nat /\ bd * Z.of_nat (Z.to_nat (8 / bd)) = 8.
Proof. intros bd [ -> | [ -> | -> ] ]; repeat split; try reflexivity; vm_compute; repeat constructor. Qed.

Lemma pack_samples_length : forall bd row, depth_ok bd ->
  lenZ (pack_samples (List.length row) (Z.to_nat (8 / bd)) bd row) = row_bytes (lenZ row) bd.
Proof.
  intros bd row Hbd. destruct (depth_ok_k bd Hbd) as [_ [Hk _]].
  rewrite pack_samples_lenZ_gen by (try exact Hk; lia).
  unfold row_bytes. destruct Hbd as [ -> | [ -> | -> ] ].
  - change (Z.of_nat (Z.to_nat (8 / 1))) with 8. lia.
  - change (Z.of_nat (Z.to_nat (8 / 2))) with 4. lia.
  - change (Z.of_nat (Z.to_nat (8 / 4))) with 2. lia.
Qed.

Lemma pack_samples_bytes : forall bd row, depth_ok bd -> Forall (sample_ok bd) row ->
  Forall (fun b => 0 <= b < 256) (pack_samples (List.length row) (Z.to_nat (8 / bd)) bd row).
Proof.
  intros bd row Hbd HF. destruct (depth_ok_k bd Hbd) as [Hpos [Hk H8]].
  pose proof (pack_samples_range_gen (Z.to_nat (8 / bd)) bd (List.length row) row Hk Hpos (le_n _) HF) as R.
  rewrite H8 in R. exact R.
Qed.

Lemma row_samples_pack : forall bd row, depth_ok bd -> Forall (sample_ok bd) row ->
  row_samples (lenZ row) bd (pack_samples (List.length row) (Z.to_nat (8 / bd)) bd row) = row.
Proof.
  intros bd row Hbd HF. destruct (depth_ok_k bd Hbd) as [Hpos [Hk _]].
  destruct (flat_samples_pack_gen (Z.to_nat (8 / bd)) bd (List.length row) row Hk Hpos (le_n _) HF) as [p Hp].
  unfold row_samples. rewrite Hp. unfold lenZ. rewrite Nat2Z.id.
  rewrite firstn_app. replace (List.length row - List.length row)%nat with 0%nat by lia.
  rewrite firstn_all. cbn [firstn]. apply app_nil_r.
Qed.

Lemma pack_samples_zeros : forall bd n, depth_ok bd ->
  pack_samples n (Z.to_nat (8 / bd)) bd (repeat 0 n) = repeat 0 (Z.to_nat (row_bytes (Z.of_nat n) bd)).
Proof.
  intros bd n Hbd. destruct (depth_ok_k bd Hbd) as [_ [Hk _]].
  pose proof (pack_samples_length bd (repeat 0 n) Hbd) as HL.
  unfold lenZ in HL. rewrite repeat_length in HL.
  rewrite <- HL, Nat2Z.id. apply all_zero_repeat.
  apply pack_samples_all_zero_gen; [exact Hk|rewrite repeat_length; lia|].
  apply Forall_repeat_ok. reflexivity.
Qed.

Lemma up_zero_row : forall (prev : list Z) n, List.length prev = n -> Forall (fun b => 0 <= b < 256) prev ->
  map (fun '(x, b) => (x + b) mod 256) (combine (repeat 0 n) prev) = prev.
Proof.
  intros prev n Hn HF. subst n. induction HF as [|b prev Hb HF IH].
  - reflexivity.
  - cbn [List.length repeat combine map]. rewrite IH. rewrite Z.add_0_l.
    rewrite Z.mod_small by exact Hb. reflexivity.
Qed.

Lemma scanline_length : forall bd ft row, depth_ok bd -> lenZ (scanline bd ft row) = 1 + row_bytes (lenZ row) bd.
Proof.
  intros bd ft row Hbd. rewrite <- (pack_samples_length bd row Hbd).
  unfold scanline, lenZ. cbn [List.length]. rewrite Nat2Z.inj_succ. lia.
Qed.


(* ===== Part A: CRC-32 (bytewise = bit-serial), big-endian integers, chunk syntax ===== *)
From Coq Require Import ZifyBool.
Ltac Zify.zify_post_hook ::= Z.to_euclidean_division_equations.

(* ====================================================================================================== *)
(* 1. CRC: the bytewise model (Model/Png.v) equals the bit-serial reference (Ref/PngReader.v)               *)
(* ====================================================================================================== *)

Lemma crc_feed_bit_shift : forall reg bit, crc_feed_bit reg bit = crc_shift (Z.lxor reg (Z.b2z bit)).
Proof.
  intros reg bit. unfold crc_feed_bit, crc_shift, crc_poly.
  assert (Hodd : Z.odd (Z.lxor reg (Z.b2z bit)) = xorb (Z.odd reg) bit).
  { rewrite <- !Z.bit0_odd, Z.lxor_spec. f_equal. destruct bit; reflexivity. }
  assert (Hshr : Z.shiftr (Z.lxor reg (Z.b2z bit)) 1 = reg / 2).
  { rewrite Z.shiftr_lxor.
    replace (Z.shiftr (Z.b2z bit) 1) with 0 by (destruct bit; reflexivity).
    rewrite Z.lxor_0_r, Z.shiftr_div_pow2 by lia. reflexivity. }
  rewrite Hodd, Hshr. reflexivity.
Qed.

Lemma crc_shift_lxor_shiftl : forall y a, crc_shift (Z.lxor y (Z.shiftl a 1)) = Z.lxor (crc_shift y) a.
Proof.
  intros y a. unfold crc_shift.
  assert (Hodd : Z.odd (Z.lxor y (Z.shiftl a 1)) = Z.odd y).
  { rewrite <- !Z.bit0_odd, Z.lxor_spec, (Z.shiftl_spec_low a 1 0) by lia. apply xorb_false_r. }
  assert (Hshr : Z.shiftr (Z.lxor y (Z.shiftl a 1)) 1 = Z.lxor (Z.shiftr y 1) a).
  { rewrite Z.shiftr_lxor, Z.shiftr_shiftl_l by lia.
    rewrite Z.sub_diag, Z.shiftl_0_r. reflexivity. }
  rewrite Hodd, Hshr. destruct (Z.odd y); [|reflexivity].
  rewrite !Z.lxor_assoc. f_equal. apply Z.lxor_comm.
Qed.

(* value of a little-endian bit list *)
Fixpoint bits_val (bs : list bool) : Z :=
  match bs with [] => 0 | b :: r => Z.b2z b + 2 * bits_val r end.

Lemma lxor_b2z_double : forall b v, Z.lxor (Z.b2z b) (Z.shiftl v 1) = Z.b2z b + 2 * v.
Proof.
  intros b v. rewrite Z.shiftl_mul_pow2 by lia. change (2 ^ 1) with 2. rewrite (Z.mul_comm v 2).
  symmetry. apply Z.add_nocarry_lxor.
  destruct b; cbn [Z.b2z]; [|apply Z.land_0_l].
  apply Z.bits_inj'. intros n Hn. rewrite Z.land_spec, Z.bits_0.
  destruct (Z.eq_dec n 0) as [->|Hne].
  - rewrite Z.testbit_even_0. apply andb_false_r.
  - rewrite (Z.bits_above_log2 1 n) by (cbn; lia). reflexivity.
Qed.

Fixpoint iter_shift (n : nat) (x : Z) : Z :=
  match n with O => x | S k => iter_shift k (crc_shift x) end.

Lemma fold_feed_bits : forall bs c,
  fold_left crc_feed_bit bs c = iter_shift (List.length bs) (Z.lxor c (bits_val bs)).
Proof.
  induction bs as [|b r IH]; intros c; cbn [fold_left List.length bits_val iter_shift].
  - rewrite Z.lxor_0_r. reflexivity.
  - rewrite IH, crc_feed_bit_shift, <- crc_shift_lxor_shiftl, Z.lxor_assoc, lxor_b2z_double.
    reflexivity.
Qed.

Lemma b2z_odd_mod2 : forall x, Z.b2z (Z.odd x) = x mod 2.
Proof. intros x. rewrite <- Z.bit0_odd. apply Z.bit0_mod. Qed.

Lemma bits_val_lsb_first : forall b, bits_val (bits_lsb_first b) = b mod 256.
Proof.
  intros b. unfold bits_lsb_first. cbn [map bits_val].
  change (2 ^ 0) with 1. change (2 ^ 1) with 2. change (2 ^ 2) with 4. change (2 ^ 3) with 8.
  change (2 ^ 4) with 16. change (2 ^ 5) with 32. change (2 ^ 6) with 64. change (2 ^ 7) with 128.
  rewrite !b2z_odd_mod2. lia.
Qed.

Lemma crc_byte_feed_bits : forall c b, crc_byte c b = fold_left crc_feed_bit (bits_lsb_first b) c.
Proof.
  intros c b. rewrite fold_feed_bits, bits_val_lsb_first. reflexivity.
Qed.

Lemma crc32_update_feed_bits : forall l c,
  crc32_update c l = fold_left crc_feed_bit (flat_map bits_lsb_first l) c.
Proof.
  unfold crc32_update.
  induction l as [|b l IH]; intros c; cbn [fold_left flat_map]; [reflexivity|].
  rewrite fold_left_app, IH, crc_byte_feed_bits. reflexivity.
Qed.

Theorem crc32_matches_spec : forall l : list Z, crc32 l = crc_ref l.
Proof.
  intros l. unfold crc32, crc_ref. rewrite crc32_update_feed_bits. reflexivity.
Qed.

(* ====================================================================================================== *)
(* 2. crc32 is a 32-bit value                                                                              *)
(* ====================================================================================================== *)

Lemma lxor_bound : forall n a b, 0 <= n -> 0 <= a < 2 ^ n -> 0 <= b < 2 ^ n -> 0 <= Z.lxor a b < 2 ^ n.
Proof.
  intros n a b Hn Ha Hb.
  assert (Hnn : 0 <= Z.lxor a b) by (apply Z.lxor_nonneg; lia).
  split; [exact Hnn|].
  destruct (Z.eq_dec (Z.lxor a b) 0) as [E|E]; [rewrite E; lia|].
  assert (Hn0 : n <> 0).
  { intros ->. change (2 ^ 0) with 1 in *. assert (a = 0) by lia. assert (b = 0) by lia.
    subst a b. apply E. reflexivity. }
  assert (Hlog : forall x, 0 <= x < 2 ^ n -> Z.log2 x < n).
  { intros x Hx. destruct (Z.eq_dec x 0) as [->|Hx0]; [cbn; lia|].
    apply Z.log2_lt_pow2; lia. }
  apply Z.log2_lt_pow2; [lia|].
  eapply Z.le_lt_trans; [apply Z.log2_lxor; lia|].
  apply Z.max_lub_lt; apply Hlog; assumption.
Qed.

Lemma lxor_bound32 : forall a b,
  0 <= a < 4294967296 -> 0 <= b < 4294967296 -> 0 <= Z.lxor a b < 4294967296.
Proof.
  intros a b Ha Hb. change 4294967296 with (2 ^ 32) in *. apply lxor_bound; [lia|assumption|assumption].
Qed.

Lemma crc_shift_range : forall c, 0 <= c < 4294967296 -> 0 <= crc_shift c < 4294967296.
Proof.
  intros c Hc. unfold crc_shift.
  assert (Hs : 0 <= Z.shiftr c 1 < 4294967296).
  { rewrite Z.shiftr_div_pow2 by lia. change (2 ^ 1) with 2. lia. }
  destruct (Z.odd c); [|exact Hs].
  apply lxor_bound32; [exact Hs|unfold crc_poly; lia].
Qed.

Lemma crc_byte_range : forall c b, 0 <= c < 4294967296 -> 0 <= crc_byte c b < 4294967296.
Proof.
  intros c b Hc. unfold crc_byte.
  do 8 apply crc_shift_range.
  apply lxor_bound32; [exact Hc|].
  assert (0 <= b mod 256 < 256) by (apply Z.mod_pos_bound; lia). lia.
Qed.

Lemma crc32_update_range : forall l c, 0 <= c < 4294967296 -> 0 <= crc32_update c l < 4294967296.
Proof.
  unfold crc32_update.
  induction l as [|b l IH]; intros c Hc; cbn [fold_left]; [exact Hc|].
  apply IH. apply crc_byte_range. exact Hc.
Qed.

Lemma crc32_range : forall l, 0 <= crc32 l < 4294967296.
Proof.
  intros l. unfold crc32. apply lxor_bound32; [|lia].
  apply crc32_update_range. lia.
Qed.

(* ====================================================================================================== *)
(* 3.-5. integers, slicing, list equality                                                                  *)
(* ====================================================================================================== *)

Lemma be_uint_be32 : forall n, 0 <= n < 4294967296 -> be_uint (be32 n) = n.
Proof.
  intros n Hn. unfold be_uint, be32. cbn [fold_left]. lia.
Qed.

Lemma be32_length : forall n, List.length (be32 n) = 4%nat.
Proof. reflexivity. Qed.

Lemma take_app : forall (a b : list Z), take (lenZ a) (a ++ b) = Some (a, b).
Proof.
  intros a b. unfold take, lenZ.
  assert (Hc : (0 <=? Z.of_nat (List.length a)) && (Z.of_nat (List.length a) <=? Z.of_nat (List.length (a ++ b))) = true).
  { rewrite app_length. lia. }
  rewrite Hc, Nat2Z.id.
  rewrite firstn_app, skipn_app, Nat.sub_diag, firstn_all, skipn_all.
  cbn [firstn skipn app]. rewrite app_nil_r. reflexivity.
Qed.

Lemma list_eqb_eq : forall a b, list_eqb a b = true <-> a = b.
Proof.
  induction a as [|x a IH]; intros [|y b]; cbn [list_eqb].
  - split; reflexivity.
  - split; discriminate.
  - split; discriminate.
  - rewrite andb_true_iff, Z.eqb_eq, IH. split.
    + intros [-> ->]. reflexivity.
    + intros E. injection E as -> ->. split; reflexivity.
Qed.

(* ====================================================================================================== *)
(* 6.-7. chunk                                                                                             *)
(* ====================================================================================================== *)

Lemma chunk_inv : forall name data bytes, chunk name data = Ok bytes ->
  lenZ data < 4294967296 /\ bytes = be32 (lenZ data) ++ name ++ data ++ be32 (crc32 (name ++ data)).
Proof.
  intros name data bytes H. unfold chunk, pack_u32 in H.
  destruct ((0 <=? lenZ data) && (lenZ data <? 4294967296)) eqn:E1; cbn [bind] in H; [|discriminate H].
  destruct ((0 <=? crc32 (name ++ data)) && (crc32 (name ++ data) <? 4294967296)) eqn:E2;
    cbn [bind] in H; [|discriminate H].
  injection H as <-. split; [lia|reflexivity].
Qed.

Lemma chunk_ok : forall name data, lenZ data < 4294967296 ->
  chunk name data = Ok (be32 (lenZ data) ++ name ++ data ++ be32 (crc32 (name ++ data))).
Proof.
  intros name data Hlen. unfold chunk, pack_u32.
  assert (H1 : (0 <=? lenZ data) && (lenZ data <? 4294967296) = true).
  { unfold lenZ in *. lia. }
  assert (H2 : (0 <=? crc32 (name ++ data)) && (crc32 (name ++ data) <? 4294967296) = true).
  { pose proof (crc32_range (name ++ data)) as Hr. lia. }
  rewrite H1. cbn [bind]. rewrite H2. cbn [bind]. reflexivity.
Qed.

(* ====================================================================================================== *)
(* 8. the reader's chunk layer accepts what the writer's chunk layer produces                              *)
(* ====================================================================================================== *)

Lemma parse_chunks_unfold : forall f l1 l2 l3 l4 t1 t2 t3 t4 rest,
  parse_chunks (S f) (l1 :: l2 :: l3 :: l4 :: t1 :: t2 :: t3 :: t4 :: rest) =
  let n := be_uint [l1; l2; l3; l4] in
  let ty := [t1; t2; t3; t4] in
  if 2147483647 <? n then None else
  match take n rest with
  | Some (data, c1 :: c2 :: c3 :: c4 :: rest') =>
      if be_uint [c1; c2; c3; c4] =? crc_ref (ty ++ data) then
        if list_eqb ty IEND then
          match data, rest' with [], [] => Some [(ty, data)] | _, _ => None end
        else
          match parse_chunks f rest' with
          | Some cs => Some ((ty, data) :: cs)
          | None => None
          end
      else None
  | _ => None
  end.
Proof. reflexivity. Qed.

Lemma parse_chunks_step : forall f lenb name data crcb rest,
  List.length lenb = 4%nat -> List.length name = 4%nat -> List.length crcb = 4%nat ->
  be_uint lenb = lenZ data -> lenZ data <= 2147483647 ->
  be_uint crcb = crc_ref (name ++ data) ->
  parse_chunks (S f) (lenb ++ name ++ data ++ crcb ++ rest) =
  if list_eqb name IEND then
    match data, rest with [], [] => Some [(name, data)] | _, _ => None end
  else
    match parse_chunks f rest with
    | Some cs => Some ((name, data) :: cs)
    | None => None
    end.
Proof.
  intros f lenb name data crcb rest Hl1 Hl2 Hl3 Hlen Hsz Hcrc.
  destruct lenb as [|l1 [|l2 [|l3 [|l4 [|l5 lenb]]]]]; try discriminate Hl1.
  destruct name as [|t1 [|t2 [|t3 [|t4 [|t5 name]]]]]; try discriminate Hl2.
  destruct crcb as [|c1 [|c2 [|c3 [|c4 [|c5 crcb]]]]]; try discriminate Hl3.
  cbn [app]. rewrite parse_chunks_unfold. cbv zeta.
  rewrite Hlen.
  destruct (2147483647 <? lenZ data) eqn:E; [lia|].
  rewrite take_app. cbv beta iota.
  rewrite Hcrc, Z.eqb_refl. reflexivity.
Qed.

Lemma parse_chunk_bytes : forall f name data bytes rest,
  List.length name = 4%nat -> lenZ data <= 2147483647 -> chunk name data = Ok bytes ->
  parse_chunks (S f) (bytes ++ rest) =
  if list_eqb name IEND then
    match data, rest with [], [] => Some [(name, data)] | _, _ => None end
  else
    match parse_chunks f rest with
    | Some cs => Some ((name, data) :: cs)
    | None => None
    end.
Proof.
  intros f name data bytes rest Hname Hsz Hc.
  apply chunk_inv in Hc. destruct Hc as [_ ->].
  rewrite <- !app_assoc.
  apply parse_chunks_step.
  - apply be32_length.
  - exact Hname.
  - apply be32_length.
  - apply be_uint_be32. unfold lenZ in *. lia.
  - exact Hsz.
  - rewrite be_uint_be32 by apply crc32_range. apply crc32_matches_spec.
Qed.

Lemma chunk_length_ge : forall name data bytes,
  chunk name data = Ok bytes -> (8 <= List.length bytes)%nat.
Proof.
  intros name data bytes Hc. apply chunk_inv in Hc. destruct Hc as [_ ->].
  rewrite !app_length, !be32_length. lia.
Qed.

Lemma parse_chunks_ok : forall (cs : list (list Z * list Z)) (bl : list (list Z)) (iend : list Z) (fuel : nat),
  map_res chunk_bytes cs = Ok bl ->
  chunk T_IEND [] = Ok iend ->
  Forall (fun c => List.length (fst c) = 4%nat /\ fst c <> IEND /\ lenZ (snd c) <= 2147483647) cs ->
  (List.length (concat bl ++ iend) <= fuel)%nat ->
  parse_chunks fuel (concat bl ++ iend) = Some (cs ++ [(T_IEND, [])]).
Proof.
  induction cs as [|[nm dat] cs IH]; intros bl iend fuel Hmap Hiend Hall Hfuel.
  - cbn [map_res] in Hmap. injection Hmap as <-.
    cbn [concat app] in *.
    pose proof (chunk_length_ge _ _ _ Hiend) as Hge.
    destruct fuel as [|f]; [lia|].
    rewrite <- (app_nil_r iend).
    rewrite (parse_chunk_bytes f T_IEND [] iend []); [reflexivity|reflexivity|cbn; lia|exact Hiend].
  - cbn [map_res] in Hmap. unfold chunk_bytes at 1 in Hmap. cbn [fst snd] in Hmap.
    destruct (chunk nm dat) as [b|e] eqn:Hc; cbn [bind] in Hmap; [|discriminate Hmap].
    destruct (map_res chunk_bytes cs) as [bl'|e] eqn:Hm; cbn [bind] in Hmap; [|discriminate Hmap].
    injection Hmap as <-.
    inversion Hall as [|c0 cs0 Hhd Hall']; subst c0 cs0. cbn [fst snd] in Hhd.
    destruct Hhd as (Hlen4 & Hne & Hsz).
    cbn [concat] in *. rewrite <- app_assoc in *.
    pose proof (chunk_length_ge _ _ _ Hc) as Hge.
    rewrite app_length in Hfuel.
    destruct fuel as [|f]; [lia|].
    rewrite (parse_chunk_bytes f nm dat b _ Hlen4 Hsz Hc).
    destruct (list_eqb nm IEND) eqn:E; [apply list_eqb_eq in E; contradiction|].
    rewrite (IH bl' iend f eq_refl Hiend Hall') by lia.
    reflexivity.
Qed.

(* ===== Part E: the IDAT stream as filtered scanlines ===== *)
Definition ser (frows : list (Z * list Z)) : list Z := flat_map (fun fr => fst fr :: snd fr) frows.

Lemma ser_app a b : ser (a ++ b) = ser a ++ ser b.
Proof. unfold ser. apply flat_map_app. Qed.

Lemma split_rows_ser rb : forall frows,
  Forall (fun fr => lenZ (snd fr) = rb) frows ->
  split_rows (List.length frows) rb (ser frows) = Some frows.
Proof.
  induction frows as [|[ft x] r IH]; intros HF; [reflexivity|].
  apply Forall_cons_iff in HF as [Hx Hr]. cbn [snd] in Hx.
  cbn [List.length split_rows ser flat_map fst snd app].
  fold (ser r). rewrite <- Hx, take_app. rewrite Hx, IH by assumption. reflexivity.
Qed.

Definition blk (zr : list Z) (xm : list Z * nat) : list (Z * list Z) := (0, fst xm) :: repeat (2, zr) (snd xm).
Definition bytes_ok (l : list Z) : Prop := Forall (fun b => 0 <= b < 256) l.

Lemma unfilter_up n m : forall x rest, List.length x = n -> bytes_ok x ->
  unfilter x (repeat (2, repeat 0 n) m ++ rest)
  = match unfilter x rest with Some t => Some (repeat x m ++ t) | None => None end.
Proof.
  induction m as [|m IH]; intros x rest Hlen Hb; cbn [repeat app].
  - destruct (unfilter x rest); reflexivity.
  - cbn [unfilter]. change (2 =? 0) with false. change (2 =? 2) with true. cbv iota.
    rewrite (up_zero_row x n Hlen Hb). rewrite IH by assumption.
    destruct (unfilter x rest); reflexivity.
Qed.

Lemma unfilter_blocks n : forall blocks prev,
  Forall (fun xm => List.length (fst xm) = n /\ bytes_ok (fst xm)) blocks ->
  unfilter prev (flat_map (blk (repeat 0 n)) blocks)
  = Some (flat_map (fun xm => repeat (fst xm) (S (snd xm))) blocks).
Proof.
  induction blocks as [|[x m] r IH]; intros prev HF; [reflexivity|].
  apply Forall_cons_iff in HF as [[Hlen Hb] Hr]. cbn [fst snd] in *.
  cbn [flat_map]. unfold blk at 1. cbn [fst snd]. rewrite <- app_comm_cons. cbn [unfilter].
  change (0 =? 0) with true. cbv iota.
  rewrite (unfilter_up n m x _ Hlen Hb). rewrite (IH x Hr).
  reflexivity.
Qed.

Definition P (bd : Z) (row : list Z) : list Z := pack_samples (List.length row) (Z.to_nat (8 / bd)) bd row.
Lemma scanline_P bd ft row : scanline bd ft row = ft :: P bd row.
Proof. reflexivity. Qed.

Definition framed (qz s b : Z) (r : list Z) : list Z :=
  repeat qz (Z.to_nat (b * s)) ++ repeat_each s r ++ repeat qz (Z.to_nat (b * s)).
Definition idat_blocks (bd W s b qz : Z) (rows : list (list Z)) : list (list Z * nat) :=
  repeat (P bd (repeat qz (Z.to_nat W)), O) (Z.to_nat (b * s))
  ++ map (fun r => (P bd (framed qz s b r), Z.to_nat (s - 1))) rows
  ++ repeat (P bd (repeat qz (Z.to_nat W)), O) (Z.to_nat (b * s)).
(* the picture as rows of samples *)
Definition png_grid (qz s b W : Z) (rows : list (list Z)) : list (list Z) :=
  repeat (repeat qz (Z.to_nat W)) (Z.to_nat (b * s))
  ++ flat_map (fun r => repeat (framed qz s b r) (Z.to_nat s)) rows
  ++ repeat (repeat qz (Z.to_nat W)) (Z.to_nat (b * s)).

Lemma concat_repeat_blk0 z x n :
  concat (repeat (0 :: x) n) = ser (flat_map (blk z) (repeat (x, O) n)).
Proof.
  induction n as [|n IH]; [reflexivity|]. cbn [repeat concat flat_map]. rewrite ser_app, <- IH.
  unfold blk, ser. cbn [fst snd repeat flat_map]. rewrite app_nil_r. reflexivity.
Qed.
Lemma concat_repeat_up z m : concat (repeat (2 :: z) m) = ser (repeat (2, z) m).
Proof. induction m as [|m IH]; [reflexivity|]. cbn [repeat concat]. rewrite IH. reflexivity. Qed.

Lemma png_idat_blocks bd W s b qz rows :
  png_idat bd W s b qz rows = ser (flat_map (blk (P bd (repeat 0 (Z.to_nat W)))) (idat_blocks bd W s b qz rows)).
Proof.
  unfold png_idat, idat_blocks. rewrite !flat_map_app, !ser_app. rewrite !scanline_P.
  rewrite <- !concat_repeat_blk0. f_equal. f_equal.
  induction rows as [|r rows IH]; [reflexivity|].
  cbn [flat_map map]. rewrite ser_app, <- IH. f_equal.
  unfold blk. cbn [fst snd]. rewrite scanline_P. cbn [ser flat_map fst snd]. rewrite <- app_comm_cons. f_equal. f_equal.
  rewrite concat_repeat_up. unfold ser. reflexivity.
Qed.

Lemma Forall_flat_map_blk (Q : Z * list Z -> Prop) z bl :
  Q (2, z) -> Forall (fun xm => Q (0, fst xm)) bl -> Forall Q (flat_map (blk z) bl).
Proof.
  intros Hz HF. induction bl as [|[x m] bl IH]; [constructor|].
  apply Forall_cons_iff in HF as [Hx Hr]. cbn [flat_map]. apply Forall_app. split; [|apply IH; exact Hr].
  unfold blk. cbn [fst snd] in *. constructor; [exact Hx|]. apply Forall_forall. intros y Hy.
  apply repeat_spec in Hy. subst y. exact Hz.
Qed.

Lemma length_flat_map_blk z bl :
  List.length (flat_map (blk z) bl) = fold_right (fun xm acc => (S (snd xm) + acc)%nat) O bl.
Proof.
  induction bl as [|[x m] bl IH]; [reflexivity|]. cbn [flat_map fold_right snd]. rewrite app_length, IH.
  unfold blk. cbn [List.length fst snd]. rewrite repeat_length. reflexivity.
Qed.
Lemma fold_right_app_nat (f : list Z * nat -> nat) a b :
  fold_right (fun xm acc => (f xm + acc)%nat) O (a ++ b)
  = (fold_right (fun xm acc => (f xm + acc)%nat) O a + fold_right (fun xm acc => (f xm + acc)%nat) O b)%nat.
Proof. induction a as [|x a IH]; [reflexivity|]. cbn [app fold_right]. rewrite IH. lia. Qed.
Lemma fold_right_repeat_nat (f : list Z * nat -> nat) x n :
  fold_right (fun xm acc => (f xm + acc)%nat) O (repeat x n) = (n * f x)%nat.
Proof. induction n as [|n IH]; [reflexivity|]. cbn [repeat fold_right]. rewrite IH. lia. Qed.
Lemma fold_right_map_const_nat {A} (g : A -> list Z * nat) (f : list Z * nat -> nat) c (l : list A) :
  (forall a, f (g a) = c) ->
  fold_right (fun xm acc => (f xm + acc)%nat) O (map g l) = (List.length l * c)%nat.
Proof. intros H. induction l as [|a l IH]; [reflexivity|]. cbn [map fold_right List.length]. rewrite IH, H. lia. Qed.

Lemma map_flat_map_repeat {A B} (f : A -> B) (g : list Z * nat -> A) (bl : list (list Z * nat)) :
  map f (flat_map (fun xm => repeat (g xm) (S (snd xm))) bl)
  = flat_map (fun xm => repeat (f (g xm)) (S (snd xm))) bl.
Proof.
  induction bl as [|xm bl IH]; [reflexivity|]. cbn [flat_map]. rewrite map_app, IH. f_equal.
  generalize (S (snd xm)) as k. intros k. induction k as [|k IHk]; [reflexivity|]. cbn [repeat map]. f_equal. exact IHk.
Qed.

Lemma lenZ_repeat {A} (x : A) n : 0 <= n -> lenZ (repeat x (Z.to_nat n)) = n.
Proof. intros H. unfold lenZ. rewrite repeat_length. lia. Qed.
Lemma lenZ_framed qz s b r size :
  1 <= s -> 0 <= b -> lenZ r = size -> lenZ (framed qz s b r) = (size + 2 * b) * s.
Proof.
  intros Hs Hb Hr. unfold framed, lenZ in *. rewrite !app_length, !repeat_length, repeat_each_length. nia.
Qed.
Lemma Forall_repeat {A} (Q : A -> Prop) x n : Q x -> Forall Q (repeat x n).
Proof. intros H. apply Forall_forall. intros y Hy. apply repeat_spec in Hy. subst. exact H. Qed.
Lemma Forall_repeat_each {A} (Q : A -> Prop) s l : Forall Q l -> Forall Q (repeat_each s l).
Proof.
  intros H. unfold repeat_each. induction l as [|x l IH]; [constructor|].
  apply Forall_cons_iff in H as [Hx Hl]. cbn [flat_map]. apply Forall_app. split; [apply Forall_repeat; exact Hx|apply IH; exact Hl].
Qed.
Lemma Forall_framed (Q : Z -> Prop) qz s b r : Q qz -> Forall Q r -> Forall Q (framed qz s b r).
Proof.
  intros Hq Hr. unfold framed. repeat (apply Forall_app; split); auto using Forall_repeat, Forall_repeat_each.
Qed.

Lemma P_props bd W row :
  depth_ok bd -> lenZ row = W -> Forall (sample_ok bd) row ->
  lenZ (P bd row) = row_bytes W bd /\ bytes_ok (P bd row) /\ row_samples W bd (P bd row) = row.
Proof.
  intros Hbd HW Hok. unfold P. subst W. split; [apply pack_samples_length; exact Hbd|].
  split; [apply pack_samples_bytes; assumption|apply row_samples_pack; assumption].
Qed.

Lemma row_bytes_nonneg W bd : depth_ok bd -> 0 <= W -> 0 <= row_bytes W bd.
Proof. intros [-> | [-> | ->]] HW; unfold row_bytes; apply Z.div_pos; lia. Qed.

Lemma flat_map_repeat0 {A} (g : list Z -> A) (x : list Z) (y : A) k :
  g x = y -> flat_map (fun xm : list Z * nat => repeat (g (fst xm)) (S (snd xm))) (repeat (x, O) k) = repeat y k.
Proof.
  intros H. set (F := fun xm : list Z * nat => repeat (g (fst xm)) (S (snd xm))).
  induction k as [|k IHk]; [reflexivity|]. cbn [repeat flat_map]. rewrite IHk. unfold F. cbn [fst snd repeat app].
  rewrite H. reflexivity.
Qed.

Lemma idat_decode bd W s b size qz rows :
  depth_ok bd -> 1 <= s -> 0 <= b -> 0 <= size -> W = (size + 2 * b) * s ->
  lenZ rows = size -> Forall (fun r => lenZ r = size) rows ->
  sample_ok bd qz -> Forall (Forall (sample_ok bd)) rows ->
  exists frows brows,
    split_rows (Z.to_nat W) (row_bytes W bd) (png_idat bd W s b qz rows) = Some frows
    /\ unfilter (repeat 0 (Z.to_nat (row_bytes W bd))) frows = Some brows
    /\ map (row_samples W bd) brows = png_grid qz s b W rows.
Proof.
  intros Hbd Hs Hb Hsize HW Hlen Hrl Hqz Hrows.
  assert (HW0 : 0 <= W) by nia.
  pose proof (row_bytes_nonneg W bd Hbd HW0) as Hrb0.
  set (rb := row_bytes W bd) in *.
  set (zr := P bd (repeat 0 (Z.to_nat W))).
  set (blocks := idat_blocks bd W s b qz rows).
  (* facts about the packed rows *)
  assert (Hq : lenZ (P bd (repeat qz (Z.to_nat W))) = rb /\ bytes_ok (P bd (repeat qz (Z.to_nat W)))
               /\ row_samples W bd (P bd (repeat qz (Z.to_nat W))) = repeat qz (Z.to_nat W)).
  { apply P_props; [exact Hbd|apply lenZ_repeat; exact HW0|apply Forall_repeat; exact Hqz]. }
  assert (Hfr : forall r, In r rows ->
               lenZ (P bd (framed qz s b r)) = rb /\ bytes_ok (P bd (framed qz s b r))
               /\ row_samples W bd (P bd (framed qz s b r)) = framed qz s b r).
  { intros r Hr. apply P_props; [exact Hbd| |].
    - rewrite HW. apply lenZ_framed; [exact Hs|exact Hb|]. rewrite Forall_forall in Hrl. apply Hrl. exact Hr.
    - apply Forall_framed; [exact Hqz|]. rewrite Forall_forall in Hrows. apply Hrows. exact Hr. }
  assert (Hzr : zr = repeat 0 (Z.to_nat rb)).
  { unfold zr, P. rewrite repeat_length. rewrite (pack_samples_zeros bd (Z.to_nat W) Hbd).
    rewrite Z2Nat.id by exact HW0. reflexivity. }
  assert (Hblocks : Forall (fun xm => lenZ (fst xm) = rb /\ bytes_ok (fst xm)) blocks).
  { unfold blocks, idat_blocks. repeat (apply Forall_app; split).
    - apply Forall_repeat. cbn [fst]. split; apply Hq.
    - apply Forall_forall. intros xm Hxm. apply in_map_iff in Hxm as [r [<- Hr]]. cbn [fst].
      destruct (Hfr r Hr) as [H1 [H2 _]]. split; assumption.
    - apply Forall_repeat. cbn [fst]. split; apply Hq. }
  exists (flat_map (blk zr) blocks), (flat_map (fun xm => repeat (fst xm) (S (snd xm))) blocks).
  split; [|split].
  - rewrite png_idat_blocks. fold zr. fold blocks.
    assert (HL : List.length (flat_map (blk zr) blocks) = Z.to_nat W).
    { rewrite length_flat_map_blk. unfold blocks, idat_blocks.
      rewrite !(fold_right_app_nat (fun xm => S (snd xm))).
      rewrite !(fold_right_repeat_nat (fun xm => S (snd xm))).
      rewrite (fold_right_map_const_nat (fun r => (P bd (framed qz s b r), Z.to_nat (s - 1))) (fun xm => S (snd xm)) (Z.to_nat s))
        by (intros a; cbn [snd]; lia).
      cbn [snd]. unfold lenZ in Hlen. nia. }
    rewrite <- HL. apply split_rows_ser.
    apply Forall_flat_map_blk.
    + cbn [snd]. rewrite Hzr. apply lenZ_repeat. exact Hrb0.
    + eapply Forall_impl; [|exact Hblocks]. intros xm [H1 _]. cbn [snd]. exact H1.
  - rewrite Hzr. apply unfilter_blocks.
    eapply Forall_impl; [|exact Hblocks]. intros xm [H1 H2]. split; [|exact H2]. unfold lenZ in H1. lia.
  - rewrite (map_flat_map_repeat (row_samples W bd) fst).
    unfold blocks, idat_blocks, png_grid. rewrite !flat_map_app. f_equal; [|f_equal].
    + destruct Hq as [_ [_ Hq3]]. apply flat_map_repeat0. exact Hq3.
    + subst blocks. clear Hblocks Hlen. induction rows as [|r rows IH]; [reflexivity|].
      set (F := fun xm : list Z * nat => repeat (row_samples W bd (fst xm)) (S (snd xm))) in *.
      cbn [map flat_map]. rewrite IH.
      * f_equal. unfold F. cbn [fst snd]. destruct (Hfr r (or_introl eq_refl)) as [_ [_ H3]]. rewrite H3.
        replace (S (Z.to_nat (s - 1))) with (Z.to_nat s) by lia. reflexivity.
      * apply Forall_cons_iff in Hrl. apply Hrl.
      * apply Forall_cons_iff in Hrows. apply Hrows.
      * intros r' Hr'. apply Hfr. right. exact Hr'.
    + destruct Hq as [_ [_ Hq3]]. apply flat_map_repeat0. exact Hq3.
Qed.

(* ===== Part G: quiet zone frame and scaling ===== *)
Definition frameU {A} (q : A) (n b : Z) (rows : list (list A)) : list (list A) :=
  repeat (repeat q (Z.to_nat (n + 2 * b))) (Z.to_nat b)
  ++ map (fun r => repeat q (Z.to_nat b) ++ r ++ repeat q (Z.to_nat b)) rows
  ++ repeat (repeat q (Z.to_nat (n + 2 * b))) (Z.to_nat b).

Lemma repeat_each_app {A} s (a b : list A) : repeat_each s (a ++ b) = repeat_each s a ++ repeat_each s b.
Proof. unfold repeat_each. apply flat_map_app. Qed.
Lemma repeat_each_repeat {A} s (x : A) k : repeat_each s (repeat x k) = repeat x (Z.to_nat s * k).
Proof.
  induction k as [|k IH]; [rewrite Nat.mul_0_r; reflexivity|].
  cbn [repeat]. rewrite repeat_each_cons, IH, <- repeat_app. f_equal. lia.
Qed.
Lemma map_repeat' {A B} (f : A -> B) x k : map f (repeat x k) = repeat (f x) k.
Proof. induction k as [|k IH]; [reflexivity|]. cbn [repeat map]. rewrite IH. reflexivity. Qed.
Lemma map_repeat_each {A B} (f : A -> B) s l : map f (repeat_each s l) = repeat_each s (map f l).
Proof.
  induction l as [|x l IH]; [reflexivity|]. cbn [map]. rewrite !repeat_each_cons, map_app, IH, map_repeat'. reflexivity.
Qed.
Lemma repeat_each_1 {A} (l : list A) : repeat_each 1 l = l.
Proof.
  induction l as [|x l IH]; [reflexivity|]. rewrite repeat_each_cons, IH. reflexivity.
Qed.

Lemma png_grid_frame qz s b size W rows :
  1 <= s -> 0 <= b -> 0 <= size -> W = (size + 2 * b) * s ->
  png_grid qz s b W rows = repeat_each s (map (repeat_each s) (frameU qz size b rows)).
Proof.
  intros Hs Hb Hsize HW. unfold png_grid, frameU.
  rewrite !map_app, !repeat_each_app, !map_repeat', !repeat_each_repeat.
  replace (Z.to_nat s * Z.to_nat (size + 2 * b))%nat with (Z.to_nat W) by nia.
  replace (Z.to_nat s * Z.to_nat b)%nat with (Z.to_nat (b * s)) by nia.
  f_equal. f_equal.
  induction rows as [|r rows IH]; [reflexivity|].
  cbn [flat_map map]. rewrite repeat_each_cons, IH. f_equal.
  unfold framed. rewrite !repeat_each_app, !repeat_each_repeat.
  replace (Z.to_nat s * Z.to_nat b)%nat with (Z.to_nat (b * s)) by nia. reflexivity.
Qed.

Lemma map_frameU {A B} (f : A -> B) q n b rows :
  map (map f) (frameU q n b rows) = frameU (f q) n b (map (map f) rows).
Proof.
  unfold frameU. rewrite !map_app, !map_repeat'. f_equal. f_equal.
  rewrite !map_map. apply map_ext. intros r. rewrite !map_app, !map_repeat'. reflexivity.
Qed.

Lemma zrange_aux_app n m : forall a, zrange_aux (n + m) a = zrange_aux n a ++ zrange_aux m (a + Z.of_nat n).
Proof.
  induction n as [|n IH]; intros a.
  - cbn [Nat.add zrange_aux app]. f_equal. lia.
  - cbn [Nat.add zrange_aux app]. rewrite IH. f_equal. f_equal. f_equal. lia.
Qed.
Lemma zrange_split a b c : a <= b <= c -> zrange a c = zrange a b ++ zrange b c.
Proof.
  intros H. unfold zrange. replace (Z.to_nat (c - a)) with (Z.to_nat (b - a) + Z.to_nat (c - b))%nat by lia.
  rewrite zrange_aux_app. f_equal. f_equal. lia.
Qed.
Lemma map_zrange_const {B} (f : Z -> B) q a b :
  (forall x, a <= x < b -> f x = q) -> map f (zrange a b) = repeat q (Z.to_nat (b - a)).
Proof.
  intros H. unfold zrange.
  assert (G : forall n a', (forall x, a' <= x < a' + Z.of_nat n -> f x = q) -> map f (zrange_aux n a') = repeat q n).
  { induction n as [|n IH]; intros a' Ha'; [reflexivity|]. cbn [zrange_aux map repeat]. rewrite Ha' by lia.
    f_equal. apply IH. intros x Hx. apply Ha'. lia. }
  apply G. intros x Hx. apply H. lia.
Qed.

Lemma frame_eq {B} (F : Z -> Z -> B) q size b :
  0 <= b -> 0 <= size ->
  (forall i j, ~ (0 <= i < size /\ 0 <= j < size) -> F i j = q) ->
  map (fun i => map (F i) (zrange (- b) (size + b))) (zrange (- b) (size + b))
  = frameU q size b (map (fun i => map (F i) (zrange 0 size)) (zrange 0 size)).
Proof.
  intros Hb Hsize Hout. unfold frameU.
  rewrite (zrange_split (- b) 0 (size + b)) at 1 by lia.
  rewrite (zrange_split 0 size (size + b)) at 1 by lia.
  rewrite !map_app. f_equal; [|f_equal].
  - rewrite (map_zrange_const _ (repeat q (Z.to_nat (size + 2 * b))) (- b) 0).
    + f_equal. lia.
    + intros i Hi. rewrite (map_zrange_const (F i) q).
      * f_equal. lia.
      * intros j Hj. apply Hout. lia.
  - rewrite map_map. apply map_ext_in. intros i Hi. apply zrange_In_inv in Hi.
    rewrite (zrange_split (- b) 0 (size + b)) by lia.
    rewrite (zrange_split 0 size (size + b)) by lia.
    rewrite !map_app. f_equal; [|f_equal].
    + rewrite (map_zrange_const (F i) q); [f_equal; lia|]. intros j Hj. apply Hout. lia.
    + rewrite (map_zrange_const (F i) q); [f_equal; lia|]. intros j Hj. apply Hout. lia.
  - rewrite (map_zrange_const _ (repeat q (Z.to_nat (size + 2 * b))) size (size + b)).
    + f_equal. lia.
    + intros i Hi. rewrite (map_zrange_const (F i) q).
      * f_equal. lia.
      * intros j Hj. apply Hout. lia.
Qed.

Lemma map_nth_zrange_aux {A} (d : A) (l : list A) : forall a,
  map (fun i => nth (Z.to_nat (i - a)) l d) (zrange_aux (List.length l) a) = l.
Proof.
  induction l as [|x l IH]; intros a; [reflexivity|].
  cbn [List.length zrange_aux map]. rewrite Z.sub_diag. cbn [Z.to_nat nth]. f_equal.
  transitivity (map (fun i => nth (Z.to_nat (i - (a + 1))) l d) (zrange_aux (List.length l) (a + 1))); [|apply IH].
  apply map_ext_in. intros i Hi. apply zrange_aux_In_inv in Hi.
  replace (Z.to_nat (i - a)) with (S (Z.to_nat (i - (a + 1)))) by lia. reflexivity.
Qed.
Lemma map_nth_zrange {A} (d : A) (l : list A) :
  map (fun i => nth (Z.to_nat i) l d) (zrange 0 (lenZ l)) = l.
Proof.
  unfold zrange, lenZ. rewrite Z.sub_0_r, Nat2Z.id.
  transitivity (map (fun i => nth (Z.to_nat (i - 0)) l d) (zrange_aux (List.length l) 0)); [|apply map_nth_zrange_aux].
  apply map_ext. intros i. rewrite Z.sub_0_r. reflexivity.
Qed.

Definition matrix_ok (matrix : list (list Z)) (size : Z) : Prop :=
  lenZ matrix = size /\ Forall (fun r => lenZ r = size) matrix.

Lemma matrix_as_grid matrix size :
  matrix_ok matrix size ->
  map (fun i => map (fun j => if (0 <=? i) && (i <? size) && (0 <=? j) && (j <? size) then mcell matrix i j else 0)
                    (zrange 0 size)) (zrange 0 size) = matrix.
Proof.
  intros [Hlen Hrows].
  transitivity (map (fun i => nth (Z.to_nat i) matrix []) (zrange 0 size)); [|rewrite <- Hlen; apply map_nth_zrange].
  apply map_ext_in. intros i Hi. apply zrange_In_inv in Hi.
  assert (Hr : lenZ (nth (Z.to_nat i) matrix []) = size).
  { rewrite Forall_forall in Hrows. apply Hrows. apply nth_In. unfold lenZ in Hlen. lia. }
  transitivity (map (fun j => nth (Z.to_nat j) (nth (Z.to_nat i) matrix []) 0) (zrange 0 size));
    [|rewrite <- Hr at 1; apply map_nth_zrange].
  apply map_ext_in. intros j Hj. apply zrange_In_inv in Hj.
  replace ((0 <=? i) && (i <? size) && (0 <=? j) && (j <? size)) with true by lia. reflexivity.
Qed.

Lemma iter_rows_frame matrix size s b :
  matrix_ok matrix size -> 0 <= size -> 0 <= b ->
  iter_rows matrix size size s b = repeat_each s (map (repeat_each s) (frameU 0 size b matrix)).
Proof.
  intros Hm Hsize Hb. unfold iter_rows. f_equal.
  set (F := fun i j => if (0 <=? i) && (i <? size) && (0 <=? j) && (j <? size) then mcell matrix i j else 0).
  transitivity (map (repeat_each s) (frameU 0 size b (map (fun i => map (F i) (zrange 0 size)) (zrange 0 size))));
    [|unfold F; rewrite (matrix_as_grid matrix size Hm); reflexivity].
  rewrite <- (frame_eq F 0 size b Hb Hsize).
  - rewrite map_map. reflexivity.
  - intros i j Hij. unfold F. replace ((0 <=? i) && (i <? size) && (0 <=? j) && (j <? size)) with false by lia. reflexivity.
Qed.

Lemma get_bit_outside m am w h sq mi i j :
  ~ (0 <= i < h /\ 0 <= j < w) -> get_bit m am w h sq mi i j = TYPE_QUIET_ZONE.
Proof.
  intros H. unfold get_bit. replace ((0 <=? i) && (i <? h) && (0 <=? j) && (j <? w)) with false by lia. reflexivity.
Qed.

Lemma iter_verbose_rows_frame m am size s b :
  0 <= size -> 0 <= b ->
  iter_verbose_rows m am size size s b
  = repeat_each s (map (repeat_each s) (frameU TYPE_QUIET_ZONE size b (iter_verbose_rows m am size size 1 0))).
Proof.
  intros Hsize Hb. unfold iter_verbose_rows. f_equal.
  rewrite repeat_each_1. change (- 0) with 0. rewrite Z.add_0_r.
  set (F := get_bit (mcell m) (mcell am) size size (size =? size) ((size =? size) && (size <? 21))).
  rewrite <- map_map with (g := repeat_each s) (f := fun i => map (F i) (zrange (- b) (size + b))).
  f_equal.
  rewrite (frame_eq F TYPE_QUIET_ZONE size b Hb Hsize).
  - f_equal. apply map_ext. intros i. rewrite repeat_each_1. reflexivity.
  - intros i j Hij. unfold F. apply get_bit_outside. lia.
Qed.

(* ===== Part F: colours, palette, tRNS ===== *)
Ltac inv_bind H :=
  match type of H with
  | bind ?e _ = Ok _ =>
      let x := fresh "x" in let E := fresh "E" in
      destruct e as [x|] eqn:E; cbn [bind] in H; [|discriminate H]
  end.

Tactic Notation "inv_bind_as" hyp(H) ident(x) ident(E) :=
  match type of H with
  | bind ?e _ = Ok _ => destruct e as [x|] eqn:E; cbn [bind] in H; [|discriminate H]
  end.

Lemma clr_eqb_eq a : forall b, clr_eqb a b = true <-> a = b.
Proof.
  unfold clr_eqb. induction a as [|x a IH]; intros [|y b]; cbn [str_eqb]; try (split; [discriminate|discriminate]); [tauto|].
  rewrite andb_true_iff, IH, Z.eqb_eq. split; [intros [-> ->]; reflexivity|intros H; injection H; auto].
Qed.
Lemma clr_eqb_refl a : clr_eqb a a = true.
Proof. apply clr_eqb_eq. reflexivity. Qed.
Lemma clr_eqb_neq a b : clr_eqb a b = false <-> a <> b.
Proof. rewrite <- (clr_eqb_eq a b). destruct (clr_eqb a b); split; congruence. Qed.
Lemma clr_mem_In c l : clr_mem c l = true <-> In c l.
Proof.
  unfold clr_mem. rewrite existsb_exists. split.
  - intros [x [Hx He]]. apply clr_eqb_eq in He. subst. exact Hx.
  - intros H. exists c. split; [exact H|apply clr_eqb_refl].
Qed.

Lemma index_of_spec c : forall l i, index_of c l = Ok i ->
  0 <= i < lenZ l /\ nth_error l (Z.to_nat i) = Some c.
Proof.
  induction l as [|x l IH]; intros i H; cbn [index_of] in H; [discriminate|].
  destruct (clr_eqb c x) eqn:E.
  - injection H as <-. apply clr_eqb_eq in E. subst. unfold lenZ. cbn [List.length]. split; [lia|reflexivity].
  - inv_bind H. injection H as <-. destruct (IH x0 eq_refl) as [H1 H2]. unfold lenZ in *. cbn [List.length].
    split; [lia|]. replace (Z.to_nat (x0 + 1)) with (S (Z.to_nat x0)) by lia. exact H2.
Qed.
Lemma index_of_head c l : index_of c (c :: l) = Ok 0.
Proof. cbn [index_of]. rewrite clr_eqb_refl. reflexivity. Qed.

(* map_res *)
Lemma map_res_Forall2 {A B} (f : A -> res B) : forall l r, map_res f l = Ok r -> Forall2 (fun x y => f x = Ok y) l r.
Proof.
  induction l as [|x l IH]; intros r H; cbn [map_res] in H.
  - injection H as <-. constructor.
  - inv_bind H. inv_bind H. injection H as <-. constructor; [exact E|apply IH; reflexivity].
Qed.
Lemma map_res_app {A B} (f : A -> res B) : forall l1 l2 r1 r2,
  map_res f l1 = Ok r1 -> map_res f l2 = Ok r2 -> map_res f (l1 ++ l2) = Ok (r1 ++ r2).
Proof.
  induction l1 as [|x l1 IH]; intros l2 r1 r2 H1 H2; cbn [map_res app] in *.
  - injection H1 as <-. exact H2.
  - inv_bind H1. inv_bind H1. injection H1 as <-. cbn [bind]. rewrite (IH l2 x1 r2 eq_refl H2). reflexivity.
Qed.
Lemma map_res_length {A B} (f : A -> res B) l r : map_res f l = Ok r -> List.length r = List.length l.
Proof. intros H. apply map_res_Forall2 in H. induction H; cbn [List.length]; congruence. Qed.

(* dedup / sort / partition: membership and length *)
Lemma dedup_In c : forall l, In c (dedup l) <-> In c l.
Proof.
  induction l as [|x l IH]; [tauto|]. cbn [dedup In]. rewrite filter_In, IH.
  destruct (clr_eqb c x) eqn:E.
  - apply clr_eqb_eq in E. subst. tauto.
  - cbn [negb]. intuition.
Qed.
Lemma dedup_NoDup : forall l, NoDup (dedup l).
Proof.
  induction l as [|x l IH]; [constructor|]. cbn [dedup]. constructor.
  - rewrite filter_In. intros [_ H]. rewrite clr_eqb_refl in H. discriminate.
  - apply NoDup_filter. exact IH.
Qed.
Lemma filter_length_le' {A} (f : A -> bool) l : (List.length (filter f l) <= List.length l)%nat.
Proof. induction l as [|x l IH]; [apply le_n|]. cbn [filter]. destruct (f x); cbn [List.length]; lia. Qed.
Lemma dedup_length l : (List.length (dedup l) <= List.length l)%nat.
Proof.
  induction l as [|x l IH]; [apply le_n|]. cbn [dedup List.length].
  pose proof (filter_length_le' (fun y => negb (clr_eqb y x)) (dedup l)). lia.
Qed.
Lemma insert_stable_In c x : forall l, In c (insert_stable x l) <-> c = x \/ In c l.
Proof.
  induction l as [|y l IH]; cbn [insert_stable In]; [intuition|].
  destruct (key_ltb x y); cbn [In]; [intuition|]. rewrite IH. intuition.
Qed.
Lemma insert_stable_length x : forall l, List.length (insert_stable x l) = S (List.length l).
Proof. induction l as [|y l IH]; cbn [insert_stable]; [reflexivity|]. destruct (key_ltb x y); cbn [List.length]; [reflexivity|]. rewrite IH. reflexivity. Qed.
Lemma sort_rgb_gen l : forall acc,
  (forall c, In c (fold_left (fun a x => insert_stable x a) l acc) <-> In c l \/ In c acc)
  /\ List.length (fold_left (fun a x => insert_stable x a) l acc) = (List.length l + List.length acc)%nat.
Proof.
  induction l as [|x l IH]; intros acc; cbn [fold_left]; [split; [intros c; cbn [In]; tauto|reflexivity]|].
  destruct (IH (insert_stable x acc)) as [H1 H2]. split.
  - intros c. rewrite H1, insert_stable_In. cbn [In]. intuition.
  - rewrite H2, insert_stable_length. cbn [List.length]. lia.
Qed.
Lemma sort_rgb_In c l : In c (sort_rgb l) <-> In c l.
Proof. unfold sort_rgb. destruct (sort_rgb_gen l []) as [H _]. rewrite H. cbn [In]. tauto. Qed.
Lemma sort_rgb_length l : List.length (sort_rgb l) = List.length l.
Proof. unfold sort_rgb. destruct (sort_rgb_gen l []) as [_ H]. rewrite H. cbn [List.length]. lia. Qed.
Lemma sort_len_desc_In c l : In c (sort_len_desc l) <-> In c l.
Proof.
  unfold sort_len_desc. rewrite in_app_iff, !filter_In. destruct (is_rgba c); cbn [negb]; intuition discriminate.
Qed.
Lemma filter_partition_length {A} (f : A -> bool) l :
  (List.length (filter f l) + List.length (filter (fun x => negb (f x)) l))%nat = List.length l.
Proof. induction l as [|x l IH]; [reflexivity|]. cbn [filter]. destruct (f x); cbn [negb List.length]; lia. Qed.
Lemma sort_len_desc_length l : List.length (sort_len_desc l) = List.length l.
Proof. unfold sort_len_desc. rewrite app_length. apply filter_partition_length. Qed.

(* ---------- pixels ---------- *)
(* the RGBA value of a colour tuple (R, G, B) or (R, G, B, A) *)
Definition px_of_clr (c : list Z) : rgba := (nth 0 c 0, nth 1 c 0, nth 2 c 0, nth 3 c 255).
(* fully transparent pixels are compared without their (invisible) RGB part *)
Definition norm_px (p : rgba) : rgba := let '(r, g, b, a) := p in if a =? 0 then (0, 0, 0, 0) else p.
(* what a module whose colour is c (png_transparent for None) must look like *)
Definition colour_px (c : list Z) : rgba :=
  if clr_eqb c png_transparent then (0, 0, 0, 0) else norm_px (px_of_clr c).
Definition rgb3 (c : list Z) : Z * Z * Z := (nth 0 c 0, nth 1 c 0, nth 2 c 0).

Lemma pack_u8_inv x y : pack_u8 x = Ok y -> y = [x] /\ 0 <= x <= 255.
Proof. unfold pack_u8. destruct ((0 <=? x) && (x <=? 255)) eqn:E; [|discriminate]. intros H. injection H as <-. split; [reflexivity|lia]. Qed.

Lemma plte_entry_inv c bytes : plte_entry c = Ok bytes ->
  bytes = [nth 0 c 0; nth 1 c 0; nth 2 c 0] /\ c <> png_transparent.
Proof.
  unfold plte_entry. destruct c as [|r [|g [|b rest]]]; cbn [firstn]; try discriminate.
  intros H. inv_bind H. inv_bind H. inv_bind H. injection H as <-.
  apply pack_u8_inv in E as [-> Hr]. apply pack_u8_inv in E0 as [-> Hg]. apply pack_u8_inv in E1 as [-> Hb].
  split; [reflexivity|]. intros Heq. injection Heq as -> _. lia.
Qed.

Lemma plte_data_ok palette pd : plte_data palette = Ok pd ->
  plte_entries pd = Some (map rgb3 palette) /\ lenZ pd = 3 * lenZ palette
  /\ Forall (fun c => c <> png_transparent) palette.
Proof.
  unfold plte_data. intros H. inv_bind H. injection H as <-. apply map_res_Forall2 in E.
  induction E as [|c y palette l Hc HF IH]; [repeat split; constructor|].
  destruct IH as [I1 [I2 I3]]. apply plte_entry_inv in Hc as [-> Hc].
  cbn [concat app map plte_entries]. rewrite I1. unfold lenZ in *. cbn [List.length].
  repeat split; [lia|constructor; assumption].
Qed.

Lemma trns_alpha_ok palette a : trns_alpha_data palette = Ok a ->
  a = map (fun c => nth 3 c 255) (filter is_rgba palette).
Proof.
  unfold trns_alpha_data. intros H. inv_bind H. injection H as <-. apply map_res_Forall2 in E.
  induction E as [|c y l r Hc HF IH]; [reflexivity|].
  cbn [concat map]. rewrite IH. destruct (nth_error c 3) as [v|] eqn:Ev; [|discriminate].
  apply pack_u8_inv in Hc as [-> _]. apply (nth_error_nth c 3 255) in Ev. rewrite Ev. reflexivity.
Qed.

Lemma map_opt_total {A B} (f : A -> option B) (g : A -> B) l :
  Forall (fun x => f x = Some (g x)) l -> map_opt f l = Some (map g l).
Proof. induction 1 as [|x l Hx HF IH]; [reflexivity|]. cbn [map_opt map]. rewrite Hx, IH. reflexivity. Qed.

Lemma filter_all {A} (f : A -> bool) l : Forall (fun x => f x = true) l -> filter f l = l.
Proof. induction 1 as [|x l Hx HF IH]; [reflexivity|]. cbn [filter]. rewrite Hx, IH. reflexivity. Qed.
Lemma filter_none {A} (f : A -> bool) l : Forall (fun x => f x = false) l -> filter f l = [].
Proof. induction 1 as [|x l Hx HF IH]; [reflexivity|]. cbn [filter]. rewrite Hx, IH. reflexivity. Qed.

Lemma nth_map_nth_error {A B} (f : A -> B) (d : B) : forall l i c, nth_error l i = Some c -> nth i (map f l) d = f c.
Proof. induction l as [|x l IH]; intros [|i] c H; cbn in *; try discriminate; [congruence|apply IH; exact H]. Qed.

Lemma nonrgba_alpha c : is_rgba c = false -> nth 3 c 255 = 255.
Proof. unfold is_rgba, lenZ. intros H. apply nth_overflow. lia. Qed.

Lemma alpha_lookup A B i c :
  Forall (fun c => is_rgba c = true) A -> Forall (fun c => is_rgba c = false) B ->
  nth_error (A ++ B) i = Some c ->
  nth i (map (fun c => nth 3 c 255) (filter is_rgba (A ++ B))) 255 = nth 3 c 255.
Proof.
  intros HA HB Hn. rewrite filter_app, (filter_all _ _ HA), (filter_none _ _ HB), app_nil_r.
  destruct (Nat.ltb i (List.length A)) eqn:Ei.
  - apply Nat.ltb_lt in Ei. rewrite nth_error_app1 in Hn by exact Ei. apply (nth_map_nth_error (fun c => nth 3 c 255) 255 A i c Hn).
  - apply Nat.ltb_ge in Ei. rewrite nth_error_app2 in Hn by exact Ei. apply nth_error_In in Hn.
    rewrite Forall_forall in HB. rewrite (nonrgba_alpha c (HB c Hn)). apply nth_overflow. rewrite map_length. exact Ei.
Qed.

Definition pal_pxf (pal : list (list Z)) (alphas : list Z) (v : Z) : rgba :=
  match palette_pixel (map rgb3 pal) alphas v with Some px => px | None => (0, 0, 0, 0) end.

Lemma pal_pxf_nth pal alphas i c : 0 <= i -> nth_error pal (Z.to_nat i) = Some c ->
  palette_pixel (map rgb3 pal) alphas i = Some (nth 0 c 0, nth 1 c 0, nth 2 c 0, nth (Z.to_nat i) alphas 255)
  /\ pal_pxf pal alphas i = (nth 0 c 0, nth 1 c 0, nth 2 c 0, nth (Z.to_nat i) alphas 255).
Proof.
  intros Hi Hn. unfold pal_pxf, palette_pixel. rewrite (map_nth_error rgb3 _ _ Hn). unfold rgb3. split; reflexivity.
Qed.

Lemma pal_decode pal pd depth trns :
  plte_data pal = Ok pd -> 1 <= lenZ pal <= 2 ^ depth ->
  lenZ (match trns with Some a => a | None => [] end) <= lenZ pal ->
  forall samples, Forall (Forall (fun v => 0 <= v < lenZ pal)) samples ->
  decode_pixels depth 3 (Some pd) trns samples
  = Some (map (map (pal_pxf pal (match trns with Some a => a | None => [] end))) samples).
Proof.
  intros Hpd Hn Ha samples Hs. destruct (plte_data_ok pal pd Hpd) as [H1 _].
  unfold decode_pixels. change (3 =? 0) with false. cbv iota. rewrite H1. cbv zeta.
  rewrite map_length. unfold lenZ in *.
  replace ((1 <=? Z.of_nat (List.length pal)) && (Z.of_nat (List.length pal) <=? 2 ^ depth)
           && (Z.of_nat (List.length (match trns with Some a => a | None => [] end)) <=? Z.of_nat (List.length pal)))
    with true by lia.
  apply map_opt_total. eapply Forall_impl; [|exact Hs]. intros row Hrow.
  apply map_opt_total. eapply Forall_impl; [|exact Hrow]. intros v Hv. cbv beta in Hv.
  destruct (nth_error pal (Z.to_nat v)) as [c|] eqn:Ec.
  - destruct (pal_pxf_nth pal (match trns with Some a => a | None => [] end) v c (proj1 Hv) Ec) as [E1 E2].
    rewrite E1, E2. reflexivity.
  - apply nth_error_None in Ec. lia.
Qed.

Definition bd_of (n : Z) : Z := if 2 <? n then (if n <? 5 then 2 else 4) else 1.
Lemma bd_of_ok n : 0 <= n <= 16 -> depth_ok (bd_of n) /\ n <= 2 ^ bd_of n.
Proof.
  intros Hn. unfold bd_of, depth_ok. destruct (2 <? n) eqn:E1; [destruct (n <? 5) eqn:E2|].
  - split; [right; left; reflexivity|change (2 ^ 2) with 4; lia].
  - split; [right; right; reflexivity|change (2 ^ 4) with 16; lia].
  - split; [left; reflexivity|change (2 ^ 1) with 2; lia].
Qed.

Lemma name_rgbs_len3 : forallb (fun c => Nat.eqb (List.length c) 3) name_rgbs = true.
Proof. vm_compute. reflexivity. Qed.
Lemma name_rgbs_In c : In c name_rgbs -> List.length c = 3%nat.
Proof. intros H. pose proof name_rgbs_len3 as F. rewrite forallb_forall in F. apply Nat.eqb_eq. apply F. exact H. Qed.

Lemma grey_shapes l :
  List.length (sort_rgb (dedup l)) = 2%nat ->
  forallb (fun c => clr_mem c [png_transparent; png_black; png_white]) (sort_rgb (dedup l)) = true ->
  sort_rgb (dedup l) = [png_black; png_white] \/ sort_rgb (dedup l) = [png_transparent; png_white]
  \/ sort_rgb (dedup l) = [png_transparent; png_black].
Proof.
  intros Hlen Hall. rewrite sort_rgb_length in Hlen. pose proof (dedup_NoDup l) as Hnd.
  rewrite forallb_forall in Hall.
  destruct (dedup l) as [|a [|b [|x y]]]; try discriminate Hlen.
  assert (Hab : a <> b). { inversion Hnd as [|? ? Hn _]. intros ->. apply Hn. left. reflexivity. }
  assert (Ha : In a [png_transparent; png_black; png_white]).
  { apply clr_mem_In. apply Hall. apply sort_rgb_In. left. reflexivity. }
  assert (Hb : In b [png_transparent; png_black; png_white]).
  { apply clr_mem_In. apply Hall. apply sort_rgb_In. right. left. reflexivity. }
  cbn [In] in Ha, Hb.
  destruct Ha as [<-|[<-|[<-|[]]]]; destruct Hb as [<-|[<-|[<-|[]]]];
    first [exfalso; apply Hab; reflexivity | left; reflexivity | right; left; reflexivity | right; right; reflexivity].
Qed.

Record plan_ok (clr_map : list (Z * list Z)) (p : png_plan) (plte trns : option (list Z))
               (pxf : Z -> rgba) (repl : list Z -> list Z) : Prop := {
  po_depth : depth_ok (pl_depth p);
  po_map : pl_clr_map p = map (fun mc => (fst mc, repl (snd mc))) clr_map;
  po_idx : forall c i, In c (map snd clr_map) -> index_of (repl c) (pl_palette p) = Ok i ->
           sample_ok (pl_depth p) i /\ 0 <= i < lenZ (pl_palette p) /\ norm_px (pxf i) = colour_px c;
  po_dec : forall samples, 1 <= lenZ (pl_palette p) -> Forall (Forall (fun v => 0 <= v < lenZ (pl_palette p))) samples ->
           decode_pixels (pl_depth p) (if pl_grey p then 0 else 3) plte trns samples = Some (map (map pxf) samples)
}.

Definition colour_chunks_of (plte trns : option (list Z)) : list (list Z * list Z) :=
  (match plte with Some pd => [(T_PLTE, pd)] | None => [] end)
  ++ (match trns with Some t => [(T_tRNS, t)] | None => [] end).

Lemma map_fst_snd_id {A B} (l : list (A * B)) : l = map (fun mc => (fst mc, snd mc)) l.
Proof. induction l as [|[a b] l IH]; [reflexivity|]. cbn [map fst snd]. f_equal. exact IH. Qed.

Lemma index_of_two c x y i : index_of c [x; y] = Ok i -> (i = 0 /\ c = x) \/ (i = 1 /\ c = y).
Proof.
  cbn [index_of]. destruct (clr_eqb c x) eqn:E1.
  - intros H. injection H as <-. apply clr_eqb_eq in E1. left. split; [reflexivity|exact E1].
  - destruct (clr_eqb c y) eqn:E2; cbn [bind]; [|discriminate].
    intros H. injection H as <-. apply clr_eqb_eq in E2. right. split; [reflexivity|exact E2].
Qed.

Lemma plan_sem_grey clr_map p colourl :
  png_make_plan clr_map = Ok p -> pl_grey p = true -> png_colour_chunks p = Ok colourl ->
  exists plte trns pxf repl,
    colourl = colour_chunks_of plte trns /\ plte = None
    /\ (forall t, trns = Some t -> lenZ t <= 16)
    /\ plan_ok clr_map p plte trns pxf repl.
Proof.
  intros Hplan Hgrey Hcc. unfold png_make_plan in Hplan. cbv zeta in Hplan.
  set (pal0 := sort_rgb (dedup (map snd clr_map))) in *.
  destruct ((lenZ pal0 =? 2) && forallb (fun c => clr_mem c [png_transparent; png_black; png_white]) pal0) eqn:Eg.
  2:{ exfalso. destruct (clr_mem png_transparent pal0).
      - destruct (sort_len_desc pal0) as [|q0 rest]; [discriminate Hplan|].
        destruct (find _ _); [|discriminate Hplan]. injection Hplan as <-. discriminate Hgrey.
      - injection Hplan as <-. discriminate Hgrey. }
  apply andb_true_iff in Eg as [Elen Eall]. apply Z.eqb_eq in Elen.
  assert (Hlen : List.length pal0 = 2%nat) by (unfold lenZ in Elen; lia).
  destruct (grey_shapes (map snd clr_map) Hlen Eall) as [Hs|[Hs|Hs]]; fold pal0 in Hs; clearbody pal0; subst pal0;
    cbn in Hplan; injection Hplan as <-; cbn in Hcc; injection Hcc as <-.
  - exists None, None, (grey_pixel 1 None), (fun c => c). split; [reflexivity|]. split; [reflexivity|]. split; [discriminate|].
    constructor; cbn [pl_depth pl_clr_map pl_palette pl_grey].
    + left. reflexivity.
    + apply map_fst_snd_id.
    + intros c i _ Hi. apply index_of_two in Hi as [[-> ->]|[-> ->]]; (split; [unfold sample_ok; change (2 ^ 1) with 2; lia|]); (split; [unfold lenZ; cbn; lia|reflexivity]).
    + intros samples _ _. reflexivity.
  - exists None, (Some [0; 0]), (grey_pixel 1 (Some 0)), (fun c => c). split; [reflexivity|]. split; [reflexivity|].
    split; [intros t Ht; injection Ht as <-; unfold lenZ; cbn; lia|].
    constructor; cbn [pl_depth pl_clr_map pl_palette pl_grey].
    + left. reflexivity.
    + apply map_fst_snd_id.
    + intros c i _ Hi. apply index_of_two in Hi as [[-> ->]|[-> ->]]; (split; [unfold sample_ok; change (2 ^ 1) with 2; lia|]); (split; [unfold lenZ; cbn; lia|reflexivity]).
    + intros samples _ _. reflexivity.
  - exists None, (Some [0; 1]), (grey_pixel 1 (Some 1)), (fun c => c). split; [reflexivity|]. split; [reflexivity|].
    split; [intros t Ht; injection Ht as <-; unfold lenZ; cbn; lia|].
    constructor; cbn [pl_depth pl_clr_map pl_palette pl_grey].
    + left. reflexivity.
    + apply map_fst_snd_id.
    + intros c i _ Hi. apply index_of_two in Hi as [[-> ->]|[-> ->]]; (split; [unfold sample_ok; change (2 ^ 1) with 2; lia|]); (split; [unfold lenZ; cbn; lia|reflexivity]).
    + intros samples _ _. reflexivity.
Qed.

Definition rgbaP (c : list Z) : Prop := is_rgba c = true.
Definition nrgbaP (c : list Z) : Prop := is_rgba c = false.

Lemma partition_props (l : list (list Z)) :
  Forall rgbaP (filter is_rgba l) /\ Forall nrgbaP (filter (fun c => negb (is_rgba c)) l).
Proof.
  split; apply Forall_forall; intros c Hc; apply filter_In in Hc as [_ Hc]; unfold rgbaP, nrgbaP.
  - exact Hc.
  - apply negb_true_iff. exact Hc.
Qed.
Lemma tl_prefix (A B : list (list Z)) : Forall rgbaP A -> Forall nrgbaP B ->
  exists A' B', tl (A ++ B) = A' ++ B' /\ Forall rgbaP A' /\ Forall nrgbaP B'.
Proof.
  intros HA HB. destruct A as [|a A].
  - exists [], (tl B). split; [reflexivity|]. split; [constructor|]. destruct B; [constructor|]. apply Forall_cons_iff in HB. apply HB.
  - exists A, B. split; [reflexivity|]. split; [|exact HB]. apply Forall_cons_iff in HA. apply HA.
Qed.
Lemma hd_nonrgba_prefix (A B : list (list Z)) : Forall rgbaP A -> is_rgba (hd [] (A ++ B)) = false -> A = [].
Proof.
  intros HA H. destruct A as [|a A]; [reflexivity|]. apply Forall_cons_iff in HA as [Ha _]. cbn [app hd] in H.
  unfold rgbaP in Ha. congruence.
Qed.
Lemma second_nonrgba (A B : list (list Z)) q0 q1 qr :
  A ++ B = q0 :: q1 :: qr -> is_rgba q1 = false -> Forall rgbaP A -> Forall nrgbaP B -> Forall nrgbaP (q1 :: qr).
Proof.
  intros E Hq HA HB. destruct A as [|a [|a' A]]; cbn [app] in E.
  - subst B. apply Forall_cons_iff in HB. apply HB.
  - injection E as _ E. subst B. exact HB.
  - injection E as _ E _. subst a'. apply Forall_cons_iff in HA as [_ HA]. apply Forall_cons_iff in HA as [Ha _].
    unfold rgbaP in Ha. congruence.
Qed.

Lemma pal_idx_generic pal A' B' c' i :
  pal = A' ++ B' -> Forall rgbaP A' -> Forall nrgbaP B' ->
  index_of c' pal = Ok i ->
  pal_pxf pal (map (fun c => nth 3 c 255) (filter is_rgba pal)) i = px_of_clr c' /\ 0 <= i < lenZ pal.
Proof.
  intros Hpal HA HB Hi. apply index_of_spec in Hi as [Hr Hn]. split; [|exact Hr].
  destruct (pal_pxf_nth pal (map (fun c => nth 3 c 255) (filter is_rgba pal)) i c' (proj1 Hr) Hn) as [_ E]. rewrite E.
  unfold px_of_clr. f_equal. subst pal. apply alpha_lookup; assumption.
Qed.

Lemma colour_px_opaque c : c <> png_transparent -> colour_px c = norm_px (px_of_clr c).
Proof. intros H. unfold colour_px. apply clr_eqb_neq in H. rewrite H. reflexivity. Qed.

Lemma nth3_app0 x : List.length x = 3%nat -> nth 3 (x ++ [0]) 255 = 0.
Proof. intros H. rewrite app_nth2 by lia. rewrite H. reflexivity. Qed.

Lemma plan_sem_pal clr_map p colourl :
  png_make_plan clr_map = Ok p -> pl_grey p = false -> png_colour_chunks p = Ok colourl ->
  (List.length clr_map <= 16)%nat ->
  exists plte trns pxf repl,
    colourl = colour_chunks_of plte trns /\ (exists pd, plte = Some pd /\ lenZ pd <= 48)
    /\ (forall t, trns = Some t -> lenZ t <= 16)
    /\ plan_ok clr_map p plte trns pxf repl.
Proof.
  intros Hplan Hgrey Hcc H16. unfold png_make_plan in Hplan. cbv zeta in Hplan.
  set (pal0 := sort_rgb (dedup (map snd clr_map))) in *.
  assert (Hn16 : 0 <= lenZ pal0 <= 16).
  { unfold lenZ, pal0. rewrite sort_rgb_length. pose proof (dedup_length (map snd clr_map)) as Hd.
    rewrite map_length in Hd. lia. }
  assert (Hmem : forall c, In c (map snd clr_map) -> In c (sort_len_desc pal0)).
  { intros c Hc. apply sort_len_desc_In. unfold pal0. apply sort_rgb_In. apply dedup_In. exact Hc. }
  destruct ((lenZ pal0 =? 2) && forallb (fun c => clr_mem c [png_transparent; png_black; png_white]) pal0) eqn:Eg.
  { exfalso. destruct (clr_mem png_transparent pal0).
    - inv_bind Hplan. injection Hplan as <-. discriminate Hgrey.
    - injection Hplan as <-. discriminate Hgrey. }
  change (if 2 <? lenZ pal0 then if lenZ pal0 <? 5 then 2 else 4 else 1) with (bd_of (lenZ pal0)) in Hplan.
  destruct (bd_of_ok (lenZ pal0) Hn16) as [Hbd Hbd2].
  destruct (partition_props pal0) as [HA HB].
  assert (Hlen1 : lenZ (sort_len_desc pal0) = lenZ pal0) by (unfold lenZ; rewrite sort_len_desc_length; reflexivity).
  destruct (clr_mem png_transparent pal0) eqn:Et.
  - (* a transparent colour is present *)
    destruct (sort_len_desc pal0) as [|q0 rest] eqn:E1; [discriminate Hplan|].
    set (opq := match rest with p1 :: _ => lenZ p1 =? 3 | [] => false end) in *.
    destruct (find (fun c => negb (clr_mem c (q0 :: rest)))
                   (if opq then name_rgbs else map (fun c => c ++ [0]) name_rgbs)) as [tc|] eqn:Ef;
      [|discriminate Hplan].
    injection Hplan as <-. cbn [pl_grey pl_palette pl_trans_idx pl_transparent pl_depth pl_clr_map] in *.
    apply find_some in Ef as [Htc Hnot]. apply negb_true_iff in Hnot.
    assert (Hlen2 : lenZ (tc :: rest) = lenZ pal0) by (rewrite <- Hlen1; unfold lenZ; cbn [List.length]; reflexivity).
    unfold png_colour_chunks in Hcc. cbn [pl_grey pl_palette pl_trans_idx pl_transparent hd] in Hcc.
    inv_bind Hcc. rename x into pd. rename E into Hpd.
    destruct (plte_data_ok _ _ Hpd) as [_ [Hpdlen HnoT]].
    set (repl := fun c => if clr_eqb c png_transparent then tc else c).
    assert (Hmap : map (fun '(mt, c) => (mt, if clr_eqb c png_transparent then tc else c)) clr_map
                   = map (fun mc => (fst mc, repl (snd mc))) clr_map).
    { apply map_ext. intros [mt c]. reflexivity. }
    destruct opq eqn:Eq1.
    + destruct rest as [|q1 qr]; [discriminate Eq1|]. unfold opq in Eq1.
      apply name_rgbs_In in Htc.
      assert (Htcn : is_rgba tc = false) by (unfold is_rgba, lenZ; rewrite Htc; reflexivity).
      rewrite Htcn in Hcc. cbn [bind pack_u8] in Hcc. change ((0 <=? 0) && (0 <=? 255)) with true in Hcc. cbn [bind] in Hcc.
      injection Hcc as <-.
      assert (Hq1 : is_rgba q1 = false) by (unfold is_rgba; apply Z.eqb_eq in Eq1; rewrite Eq1; reflexivity).
      pose proof (second_nonrgba _ _ q0 q1 qr E1 Hq1 HA HB) as Hrest.
      exists (Some pd), (Some [0]), (pal_pxf (tc :: q1 :: qr) [0]), repl.
      split; [reflexivity|]. split; [exists pd; split; [reflexivity|lia]|].
      split; [intros t Ht; injection Ht as <-; unfold lenZ; cbn; lia|].
      constructor; cbn [pl_depth pl_clr_map pl_palette pl_grey].
      * exact Hbd.
      * exact Hmap.
      * intros c i Hc Hi. pose proof (index_of_spec _ _ _ Hi) as [Hr Hn].
        split; [unfold sample_ok; lia|]. split; [exact Hr|].
        destruct (pal_pxf_nth (tc :: q1 :: qr) [0] i (repl c) (proj1 Hr) Hn) as [_ Epx]. rewrite Epx.
        unfold repl in *. destruct (clr_eqb c png_transparent) eqn:EcT.
        -- apply clr_eqb_eq in EcT. subst c. rewrite index_of_head in Hi. injection Hi as <-.
           reflexivity.
        -- apply clr_eqb_neq in EcT. rewrite (colour_px_opaque c EcT).
           assert (Hi0 : i <> 0).
           { intros ->. cbn in Hn. injection Hn as ->. apply Hmem in Hc. apply clr_mem_In in Hc. congruence. }
           replace (Z.to_nat i) with (S (Z.to_nat (i - 1))) in * by lia. cbn [nth_error] in Hn. apply nth_error_In in Hn.
           rewrite Forall_forall in Hrest. specialize (Hrest c Hn).
           unfold px_of_clr. rewrite (nonrgba_alpha c Hrest). cbn [nth]. destruct (Z.to_nat (i - 1)); reflexivity.
      * intros samples Hne Hs. apply (pal_decode (tc :: q1 :: qr) pd (bd_of (lenZ pal0)) (Some [0]) Hpd); [lia| |exact Hs].
        unfold lenZ in *. cbn [List.length] in *. lia.
    + (* RGBA colours are present: an unused named colour with alpha 0 *)
      apply in_map_iff in Htc as [x [<- Hx]]. apply name_rgbs_In in Hx.
      assert (Htcr : is_rgba (x ++ [0]) = true) by (unfold is_rgba, lenZ; rewrite app_length, Hx; reflexivity).
      rewrite Htcr in Hcc. cbv iota in Hcc.
      destruct (trns_alpha_data ((x ++ [0]) :: rest)) as [al|] eqn:E; cbn [bind] in Hcc; [|discriminate Hcc].
      apply trns_alpha_ok in E. injection Hcc as <-.
      destruct (tl_prefix _ _ HA HB) as [A' [B' [Etl [HA' HB']]]]. pose proof E1 as E1'. unfold sort_len_desc in E1'. rewrite E1' in Etl. cbn [tl] in Etl.
      assert (Epal : (x ++ [0]) :: rest = ((x ++ [0]) :: A') ++ B') by (rewrite Etl; reflexivity).
      assert (HA'' : Forall rgbaP ((x ++ [0]) :: A')) by (constructor; [exact Htcr|exact HA']).
      exists (Some pd), (Some al), (pal_pxf ((x ++ [0]) :: rest) al), repl.
      split; [reflexivity|]. split; [exists pd; split; [reflexivity|lia]|].
      assert (Hal : lenZ al <= lenZ ((x ++ [0]) :: rest)).
      { rewrite E. unfold lenZ. rewrite map_length. pose proof (filter_length_le' is_rgba ((x ++ [0]) :: rest)). lia. }
      split; [intros t Ht; injection Ht as <-; lia|].
      constructor; cbn [pl_depth pl_clr_map pl_palette pl_grey].
      * exact Hbd.
      * exact Hmap.
      * intros c i Hc Hi. rewrite E.
        destruct (pal_idx_generic _ _ _ _ _ Epal HA'' HB' Hi) as [Epx Hr]. rewrite Epx.
        split; [unfold sample_ok; lia|]. split; [exact Hr|].
        unfold repl in *. destruct (clr_eqb c png_transparent) eqn:EcT.
        -- apply clr_eqb_eq in EcT. subst c. unfold px_of_clr. rewrite (nth3_app0 x Hx). reflexivity.
        -- apply clr_eqb_neq in EcT. rewrite (colour_px_opaque c EcT). reflexivity.
      * intros samples Hne Hs. apply (pal_decode _ pd (bd_of (lenZ pal0)) (Some al) Hpd); [lia|exact Hal|exact Hs].
  - (* no transparent colour *)
    injection Hplan as <-. cbn [pl_grey pl_palette pl_trans_idx pl_transparent pl_depth pl_clr_map] in *.
    unfold png_colour_chunks in Hcc. cbn [pl_grey pl_palette pl_trans_idx pl_transparent] in Hcc.
    inv_bind Hcc. rename x into pd. rename E into Hpd.
    destruct (plte_data_ok _ _ Hpd) as [_ [Hpdlen HnoT]].
    assert (Hmap : clr_map = map (fun mc => (fst mc, (fun c : list Z => c) (snd mc))) clr_map) by apply map_fst_snd_id.
    assert (HcT : forall c i, index_of c (sort_len_desc pal0) = Ok i -> c <> png_transparent).
    { intros c i Hi. apply index_of_spec in Hi as [_ Hn]. apply nth_error_In in Hn.
      rewrite Forall_forall in HnoT. apply HnoT. exact Hn. }
    destruct (is_rgba (hd [] (sort_len_desc pal0))) eqn:Ehd.
    + destruct (trns_alpha_data (sort_len_desc pal0)) as [al|] eqn:E; cbn [bind] in Hcc; [|discriminate Hcc].
      apply trns_alpha_ok in E. injection Hcc as <-.
      assert (Hal : lenZ al <= lenZ (sort_len_desc pal0)).
      { rewrite E. unfold lenZ. rewrite map_length. pose proof (filter_length_le' is_rgba (sort_len_desc pal0)). lia. }
      exists (Some pd), (Some al), (pal_pxf (sort_len_desc pal0) al), (fun c => c).
      split; [reflexivity|]. split; [exists pd; split; [reflexivity|lia]|].
      split; [intros t Ht; injection Ht as <-; lia|].
      constructor; cbn [pl_depth pl_clr_map pl_palette pl_grey].
      * exact Hbd.
      * exact Hmap.
      * intros c i Hc Hi. rewrite E.
        destruct (pal_idx_generic (sort_len_desc pal0) _ _ _ _ eq_refl HA HB Hi) as [Epx Hr]. rewrite Epx.
        split; [unfold sample_ok; lia|]. split; [exact Hr|].
        rewrite (colour_px_opaque c (HcT c i Hi)). reflexivity.
      * intros samples Hne Hs. apply (pal_decode _ pd (bd_of (lenZ pal0)) (Some al) Hpd); [lia|exact Hal|exact Hs].
    + cbn [bind] in Hcc. injection Hcc as <-.
      pose proof (hd_nonrgba_prefix _ _ HA Ehd) as HA0.
      exists (Some pd), None, (pal_pxf (sort_len_desc pal0) []), (fun c => c).
      split; [reflexivity|]. split; [exists pd; split; [reflexivity|lia]|].
      split; [discriminate|].
      constructor; cbn [pl_depth pl_clr_map pl_palette pl_grey].
      * exact Hbd.
      * exact Hmap.
      * intros c i Hc Hi.
        destruct (pal_idx_generic (sort_len_desc pal0) _ _ _ _ eq_refl HA HB Hi) as [Epx Hr].
        assert (Hnil : map (fun c : list Z => nth 3 c 255) (filter is_rgba (sort_len_desc pal0)) = []).
        { unfold sort_len_desc. rewrite HA0. cbn [app]. rewrite (filter_none is_rgba _ HB). reflexivity. }
        rewrite Hnil in Epx. rewrite Epx.
        split; [unfold sample_ok; lia|]. split; [exact Hr|].
        rewrite (colour_px_opaque c (HcT c i Hi)). reflexivity.
      * intros samples Hne Hs. apply (pal_decode _ pd (bd_of (lenZ pal0)) None Hpd); [lia|unfold lenZ in *; cbn [List.length]; lia|exact Hs].
Qed.

From Coq Require Import QArith.
Open Scope Z_scope.
(* ===== Part H: putting the file together ===== *)
Lemma pack_u32_inv n y : pack_u32 n = Ok y -> y = be32 n /\ 0 <= n < 4294967296.
Proof. unfold pack_u32. destruct ((0 <=? n) && (n <? 4294967296)) eqn:E; [|discriminate]. intros H. injection H as <-. split; [reflexivity|lia]. Qed.

Lemma pre_chunks_inv p W ppm pre : png_pre_chunks p W ppm = Ok pre ->
  exists physl colourl,
    pre = (T_IHDR, be32 W ++ be32 W ++ [pl_depth p; if pl_grey p then 0 else 3; 0; 0; 0]) :: physl ++ colourl
    /\ 0 <= W < 4294967296
    /\ (physl = [] \/ exists d, physl = [(T_pHYs, be32 d ++ be32 d ++ [1])])
    /\ png_colour_chunks p = Ok colourl.
Proof.
  unfold png_pre_chunks. intros H. inv_bind_as H w Ew. apply pack_u32_inv in Ew as [-> HW].
  inv_bind_as H physl Ephys. inv_bind_as H colourl Ecol. injection H as <-.
  exists physl, colourl. split; [reflexivity|]. split; [exact HW|]. split; [|reflexivity].
  destruct ppm as [d|].
  - inv_bind_as Ephys xd Exd. apply pack_u32_inv in Exd as [-> _]. injection Ephys as <-. right. exists d. reflexivity.
  - injection Ephys as <-. left. reflexivity.
Qed.

Lemma parse_ihdr_ok W depth ct :
  1 <= W <= 2147483647 -> depth_ok depth -> ct = 0 \/ ct = 3 ->
  parse_ihdr (be32 W ++ be32 W ++ [depth; ct; 0; 0; 0])
  = Some {| ih_width := W; ih_height := W; ih_depth := depth; ih_ctype := ct |}.
Proof.
  intros HW Hd Hc. assert (HW' : 0 <= W < 4294967296) by lia.
  pose proof (be_uint_be32 W HW') as HB. unfold be32 in *. cbn [app]. unfold parse_ihdr. rewrite HB.
  replace ((1 <=? W) && (W <=? 2147483647) && (1 <=? W) && (W <=? 2147483647)
           && ((depth =? 1) || (depth =? 2) || (depth =? 4) || (depth =? 8))
           && ((ct =? 0) || (ct =? 3)) && (0 =? 0) && (0 =? 0) && (0 =? 0)) with true; [reflexivity|].
  unfold depth_ok in Hd. lia.
Qed.

Definition cstate0 : cstate := {| cs_plte := None; cs_trns := None; cs_idat := None; cs_idat_closed := false |}.

Lemma scan_ok ct physl plte trns z :
  (physl = [] \/ exists x, physl = [(T_pHYs, x)]) ->
  (ct = 0 /\ plte = None) \/ (ct = 3 /\ plte <> None) ->
  scan_chunks ct (physl ++ colour_chunks_of plte trns ++ [(T_IDAT, z); (T_IEND, [])]) cstate0
  = Some {| cs_plte := plte; cs_trns := trns; cs_idat := Some z; cs_idat_closed := false |}.
Proof.
  intros Hphys Hct. unfold colour_chunks_of, cstate0.
  destruct Hphys as [->|[x ->]]; destruct Hct as [[-> ->]|[-> Hp]];
    try (destruct plte as [pd|]; [|exfalso; apply Hp; reflexivity]); destruct trns as [t|]; reflexivity.
Qed.

(* ---------- colour index ---------- *)
Definition cif (ci : list (Z * Z)) (b : Z) : Z := match assocZ b ci with Some v => v | None => 0 end.
Definition type_of_key (verbose : bool) (t : Z) : Z :=
  if verbose then t else if t =? 1 then TYPE_FINDER_PATTERN_DARK else TYPE_QUIET_ZONE.

Lemma getZ_Ok {A} k (l : list (Z * A)) v : getZ k l = Ok v <-> assocZ k l = Some v.
Proof. unfold getZ. destruct (assocZ k l); split; intros H; try discriminate; congruence. Qed.

Lemma assocZ_map_snd {A B} (f : A -> B) k (l : list (Z * A)) :
  assocZ k (map (fun mc => (fst mc, f (snd mc))) l) = option_map f (assocZ k l).
Proof.
  induction l as [|[k' a] l IH]; [reflexivity|]. cbn [map assocZ fst snd]. destruct (k =? k'); [reflexivity|exact IH].
Qed.
Lemma assocZ_In {A} k (l : list (Z * A)) v : assocZ k l = Some v -> In v (map snd l).
Proof.
  induction l as [|[k' a] l IH]; cbn [assocZ map snd]; [discriminate|].
  destruct (k =? k'); [intros H; injection H as <-; left; reflexivity|intros H; right; apply IH; exact H].
Qed.

Lemma ci_many pal (repl : list Z -> list Z) : forall (cm : list (Z * list Z)) ci,
  map_res (fun '(mt, c) => do i <- index_of c pal; Ok (mt, i)) (map (fun mc => (fst mc, repl (snd mc))) cm) = Ok ci ->
  forall t v, assocZ t ci = Some v -> exists c, assocZ t cm = Some c /\ index_of (repl c) pal = Ok v.
Proof.
  induction cm as [|[k c0] cm IH]; intros ci H t v Hv; cbn [map map_res fst snd] in H.
  - injection H as <-. discriminate Hv.
  - inv_bind_as H y Ey. inv_bind_as Ey i Ei. injection Ey as <-. inv_bind_as H ci' Eci'. injection H as <-.
    cbn [assocZ] in Hv |- *. destruct (t =? k).
    + injection Hv as <-. exists c0. split; [reflexivity|exact Ei].
    + apply (IH ci' eq_refl t v Hv).
Qed.

Lemma ci_sem clr_map p verbose ci (repl : list Z -> list Z) :
  png_color_index p verbose = Ok ci ->
  pl_clr_map p = map (fun mc => (fst mc, repl (snd mc))) clr_map ->
  forall t v, getZ t ci = Ok v ->
  exists c, assocZ (type_of_key verbose t) clr_map = Some c /\ index_of (repl c) (pl_palette p) = Ok v.
Proof.
  intros Hci Hmap t v Hv. apply getZ_Ok in Hv. unfold png_color_index in Hci. unfold type_of_key.
  destruct verbose.
  - rewrite Hmap in Hci. apply (ci_many _ _ _ _ Hci t v Hv).
  - rewrite Hmap in Hci. inv_bind_as Hci qc Eqc. apply getZ_Ok in Eqc. rewrite assocZ_map_snd in Eqc.
    inv_bind_as Hci qi Eqi. inv_bind_as Hci dc Edc. apply getZ_Ok in Edc. rewrite assocZ_map_snd in Edc.
    inv_bind_as Hci di Edi. injection Hci as <-.
    destruct (assocZ TYPE_QUIET_ZONE clr_map) as [qc0|] eqn:Eq0; [|discriminate Eqc]. injection Eqc as <-.
    destruct (assocZ TYPE_FINDER_PATTERN_DARK clr_map) as [dc0|] eqn:Ed0; [|discriminate Edc]. injection Edc as <-.
    cbn [assocZ] in Hv. destruct (t =? 0) eqn:E0.
    + injection Hv as <-. replace (t =? 1) with false by lia. exists qc0. split; [exact Eq0|exact Eqi].
    + destruct (t =? 1) eqn:E1.
      * injection Hv as <-. exists dc0. split; [exact Ed0|exact Edi].
      * destruct (t =? TYPE_QUIET_ZONE); [|discriminate Hv]. injection Hv as <-. exists qc0. split; [exact Eq0|exact Eqi].
Qed.

Lemma map_res_getZ ci : forall row r, map_res (fun b => getZ b ci) row = Ok r ->
  r = map (cif ci) row /\ Forall (fun b => exists v, getZ b ci = Ok v) row.
Proof.
  induction row as [|b row IH]; intros r H; cbn [map_res] in H.
  - injection H as <-. split; [reflexivity|constructor].
  - inv_bind_as H y Ey. inv_bind_as H r' Er'. injection H as <-. destruct (IH r' eq_refl) as [-> HF]. split.
    + cbn [map]. f_equal. unfold cif. apply getZ_Ok in Ey. rewrite Ey. reflexivity.
    + constructor; [exists y; exact Ey|exact HF].
Qed.
Lemma map_res_rows ci : forall src rows, map_res (fun row => map_res (fun b => getZ b ci) row) src = Ok rows ->
  rows = map (map (cif ci)) src /\ Forall (Forall (fun b => exists v, getZ b ci = Ok v)) src.
Proof.
  induction src as [|row src IH]; intros rows H; cbn [map_res] in H.
  - injection H as <-. split; [reflexivity|constructor].
  - inv_bind_as H y Ey. inv_bind_as H r' Er'. injection H as <-. destruct (IH r' eq_refl) as [-> HF].
    apply map_res_getZ in Ey as [-> HR]. split; [reflexivity|constructor; assumption].
Qed.

(* ---------- validation ---------- *)
Lemma check_scale_inv s u : check_valid_scale (PInt s) = Ok u -> 1 <= s.
Proof. rewrite check_valid_scale_spec. destruct (s <? 1) eqn:E; [discriminate|lia]. Qed.
Lemma check_border_inv size border u :
  check_valid_border (match border with Some b => Some (PInt b) | None => None end) = Ok u ->
  0 <= get_border size size border.
Proof.
  destruct border as [b|]; cbn [get_border].
  - unfold check_valid_border, q_ltz, q_of, py_int, Qle_bool, Qeq_bool, inject_Z. cbn [Qnum Qden].
    destruct (0 * 1 <=? b * 1) eqn:E; [intros _; lia|]. cbn [negb]. rewrite orb_true_r. discriminate.
  - intros _. unfold get_default_border_size. destruct ((17 <? size) && (size =? size)); lia.
Qed.

Lemma Forall_png_grid (Q : Z -> Prop) qz s b W rows :
  Q qz -> Forall (Forall Q) rows -> Forall (Forall Q) (png_grid qz s b W rows).
Proof.
  intros Hq Hr. unfold png_grid. repeat (apply Forall_app; split).
  - apply Forall_repeat. apply Forall_repeat. exact Hq.
  - apply Forall_forall. intros x Hx. apply in_flat_map in Hx as [r [Hr1 Hr2]]. apply repeat_spec in Hr2. subst x.
    apply Forall_framed; [exact Hq|]. rewrite Forall_forall in Hr. apply Hr. exact Hr1.
  - apply Forall_repeat. apply Forall_repeat. exact Hq.
Qed.

(* the rows that write_png looks up in color_index *)
Definition png_src (verbose : bool) (matrix am : list (list Z)) (size : Z) : list (list Z) :=
  if verbose then iter_verbose_rows matrix am size size 1 0 else matrix.

Lemma any_differs_false full : forall l, any_differs full l = Ok false ->
  forall mt c, In (mt, c) l ->
  getZ (if is_dark_type mt then TYPE_FINDER_PATTERN_DARK else TYPE_QUIET_ZONE) full = Ok c.
Proof.
  induction l as [|[mt0 c0] l IH]; intros H mt c Hin; [destruct Hin|].
  cbn [any_differs] in H. inv_bind_as H ref Eref. destruct (clr_eqb c0 ref) eqn:Ec; cbn [negb] in H; [|discriminate H].
  apply clr_eqb_eq in Ec. subst ref. destruct Hin as [Hin|Hin].
  - injection Hin as <- <-. exact Eref.
  - apply (IH H mt c Hin).
Qed.
Lemma assocZ_In_pair {A} k (l : list (Z * A)) v : assocZ k l = Some v -> In (k, v) l.
Proof.
  induction l as [|[k' a] l IH]; cbn [assocZ]; [discriminate|].
  destruct (k =? k') eqn:E; [intros H; injection H as <-; left; f_equal; lia|intros H; right; apply IH; exact H].
Qed.

Lemma png_src_shape p matrix am size :
  0 < size -> matrix_ok matrix size ->
  lenZ (png_src p matrix am size) = size /\ Forall (fun r => lenZ r = size) (png_src p matrix am size)
  /\ png_src p matrix am size <> [].
Proof.
  intros Hs [Hm1 Hm2]. unfold png_src. destruct p.
  - pose proof (iter_verbose_rows_length matrix am size 1 0 Hs ltac:(lia) ltac:(lia)) as H1.
    split; [lia|]. split.
    + apply Forall_forall. intros r Hr.
      pose proof (iter_verbose_rows_row_length matrix am size 1 0 r Hs ltac:(lia) ltac:(lia) Hr). lia.
    + intros E. rewrite E in H1. unfold lenZ in H1. cbn in H1. lia.
  - split; [exact Hm1|]. split; [exact Hm2|]. intros ->. unfold lenZ in Hm1. cbn in Hm1. lia.
Qed.

Lemma ci_cheap p ci : png_color_index p false = Ok ci ->
  exists qi di, ci = [(0, qi); (1, di); (TYPE_QUIET_ZONE, qi)].
Proof.
  unfold png_color_index. intros H.
  inv_bind_as H qc Eqc. inv_bind_as H qi Eqi. inv_bind_as H dc Edc. inv_bind_as H di Edi. injection H as <-.
  exists qi, di. reflexivity.
Qed.

Lemma plan_sem clr_map p colourl :
  png_make_plan clr_map = Ok p -> png_colour_chunks p = Ok colourl -> (List.length clr_map <= 16)%nat ->
  exists plte trns pxf repl,
    colourl = colour_chunks_of plte trns
    /\ ((pl_grey p = true /\ plte = None) \/ (pl_grey p = false /\ plte <> None))
    /\ (forall pd, plte = Some pd -> lenZ pd <= 48)
    /\ (forall t, trns = Some t -> lenZ t <= 16)
    /\ plan_ok clr_map p plte trns pxf repl.
Proof.
  intros Hp Hc H16. destruct (pl_grey p) eqn:Eg.
  - destruct (plan_sem_grey clr_map p colourl Hp Eg Hc) as (plte & trns & pxf & repl & H1 & H2 & H3 & H4).
    exists plte, trns, pxf, repl. split; [exact H1|]. split; [left; split; [reflexivity|exact H2]|].
    split; [intros pd Hpd; congruence|]. split; assumption.
  - destruct (plan_sem_pal clr_map p colourl Hp Eg Hc H16) as (plte & trns & pxf & repl & H1 & [pd [H2 H2']] & H3 & H4).
    exists plte, trns, pxf, repl. split; [exact H1|]. split; [right; split; [reflexivity|congruence]|].
    split; [intros pd' Hpd; congruence|]. split; assumption.
Qed.

Definition cfg (clr_map : list (Z * list Z)) (t : Z) : list Z :=
  match assocZ t clr_map with Some c => c | None => png_transparent end.

Definition chunk_small (c : list Z * list Z) : Prop :=
  List.length (fst c) = 4%nat /\ fst c <> IEND /\ lenZ (snd c) <= 2147483647.

Lemma be32_len n : lenZ (be32 n) = 4.
Proof. reflexivity. Qed.

Section Roundtrip.
  Variable deflate : list Z -> list Z.
  Variable inflate : list Z -> option (list Z).
  Hypothesis inflate_deflate : forall l, inflate (deflate l) = Some l.

  Theorem png_read_core matrix am size scale border dpi cm file :
    write_png_cm deflate matrix am size scale border dpi cm = Ok file ->
    0 < size -> matrix_ok matrix size -> (List.length cm <= 16)%nat ->
    let b := get_border size size border in
    let W := (size + 2 * b) * scale in
    W <= 2147483647 ->
    (forall l, png_layout_of matrix am size scale border dpi cm = Ok l -> lenZ (deflate (pn_raw l)) <= 2147483647) ->
    exists clr_map p verbose ci pxf qz,
      png_clr_map cm = Ok clr_map /\ png_make_plan clr_map = Ok p /\
      png_use_verbose p = Ok verbose /\ png_color_index p verbose = Ok ci /\
      1 <= scale /\ 0 <= b /\
      (0 < b -> getZ TYPE_QUIET_ZONE ci = Ok qz) /\
      Forall (Forall (fun t => exists v, getZ t ci = Ok v)) (png_src verbose matrix am size) /\
      read_png inflate file
      = Some (W, W, map (map pxf) (png_grid qz scale b W (map (map (cif ci)) (png_src verbose matrix am size)))) /\
      (forall t v, getZ t ci = Ok v -> norm_px (pxf v) = colour_px (cfg clr_map (type_of_key verbose t))) /\
      (verbose = false -> forall t c, assocZ t clr_map = Some c ->
         colour_px c = colour_px (cfg clr_map (if is_dark_type t then TYPE_FINDER_PATTERN_DARK else TYPE_QUIET_ZONE))).
  Proof.
    intros Hw Hsize Hm H16 b W HW Hdefl.
    unfold write_png_cm in Hw. inv_bind_as Hw l El. inv_bind_as Hw prebytes Epre. inv_bind_as Hw idat Eidat.
    inv_bind_as Hw iend Eiend. injection Hw as <-.
    specialize (Hdefl l eq_refl).
    unfold png_layout_of in El. inv_bind_as El u1 Esc. inv_bind_as El u2 Ebd. cbv zeta in El.
    change (get_border size size border) with b in El. change ((size + 2 * b) * scale) with W in El.
    inv_bind_as El ppm Eppm. inv_bind_as El clr_map Ecm. inv_bind_as El p Ep. inv_bind_as El verbose Ev. inv_bind_as El ci Eci.
    inv_bind_as El qz Eqz. inv_bind_as El rows Erows. inv_bind_as El pre Epc. injection El as <-.
    cbn [pn_pre pn_raw] in *.
    apply check_scale_inv in Esc. apply (check_border_inv size) in Ebd. fold b in Ebd.
    assert (HW1 : 1 <= W) by (unfold W; nia).
    (* the plan and its chunks *)
    assert (H16' : (List.length clr_map <= 16)%nat).
    { unfold png_clr_map in Ecm. apply map_res_length in Ecm. lia. }
    destruct (pre_chunks_inv p W ppm pre Epc) as (physl & colourl & Hpre & HW32 & Hphys & Hcc).
    destruct (plan_sem clr_map p colourl Ep Hcc H16') as (plte & trns & pxf & repl & Hcol & Hgp & Hplen & Htlen & Hok).
    destruct Hok as [Hdepth Hmap Hidx Hdec].
    pose proof (ci_sem clr_map p verbose ci repl Eci Hmap) as Hci.
    assert (Hkey : forall t v, getZ t ci = Ok v ->
                   sample_ok (pl_depth p) v /\ 0 <= v < lenZ (pl_palette p)
                   /\ norm_px (pxf v) = colour_px (cfg clr_map (type_of_key verbose t))).
    { intros t v Hv. destruct (Hci t v Hv) as [c [Hc1 Hc2]]. unfold cfg. rewrite Hc1.
      apply (Hidx c v); [apply (assocZ_In _ _ _ Hc1)|exact Hc2]. }
    (* the rows of samples *)
    unfold png_index_rows in Erows. fold (png_src verbose matrix am size) in Erows.
    apply map_res_rows in Erows as [-> Hsrc].
    destruct (png_src_shape verbose matrix am size Hsize Hm) as (Hs1 & Hs2 & Hs3).
    set (src := png_src verbose matrix am size) in *.
    assert (Hne : 1 <= lenZ (pl_palette p)).
    { destruct src as [|r0 src']; [congruence|]. apply Forall_cons_iff in Hs2 as [Hr0 _].
      apply Forall_cons_iff in Hsrc as [Hr0' _]. destruct r0 as [|t0 r0]; [unfold lenZ in Hr0; cbn in Hr0; lia|].
      apply Forall_cons_iff in Hr0' as [[v0 Hv0] _]. destruct (Hkey t0 v0 Hv0) as [_ [H _]]. lia. }
    assert (Hd0 : 0 < 2 ^ pl_depth p) by (destruct Hdepth as [-> | [-> | ->]]; reflexivity).
    assert (Hqz : sample_ok (pl_depth p) qz /\ 0 <= qz < lenZ (pl_palette p)).
    { destruct (0 <? b) eqn:Eb.
      - destruct (Hkey _ _ Eqz) as [H1 [H2 _]]. split; assumption.
      - injection Eqz as <-. unfold sample_ok. lia. }
    assert (Hrows : Forall (Forall (fun v => sample_ok (pl_depth p) v /\ 0 <= v < lenZ (pl_palette p)))
                      (map (map (cif ci)) src)).
    { apply Forall_map. eapply Forall_impl; [|exact Hsrc]. intros r Hr. apply Forall_map.
      eapply Forall_impl; [|exact Hr]. intros t [v Hv]. cbv beta. unfold cif. pose proof Hv as Hv'. apply getZ_Ok in Hv'.
      rewrite Hv'. destruct (Hkey t v Hv) as [H1 [H2 _]]. split; assumption. }
    destruct (idat_decode (pl_depth p) W scale b size qz (map (map (cif ci)) src) Hdepth Esc Ebd ltac:(lia) eq_refl)
      as (frows & brows & Hsplit & Hunf & Hsamp).
    { unfold lenZ in *. rewrite map_length. exact Hs1. }
    { apply Forall_map. eapply Forall_impl; [|exact Hs2]. intros r Hr. cbv beta. unfold lenZ in *. rewrite map_length. exact Hr. }
    { apply Hqz. }
    { eapply Forall_impl; [|exact Hrows]. intros r Hr. eapply Forall_impl; [|exact Hr]. intros v Hv. apply Hv. }
    assert (Hcheap : verbose = false -> forall t c, assocZ t clr_map = Some c ->
              colour_px c = colour_px (cfg clr_map (if is_dark_type t then TYPE_FINDER_PATTERN_DARK else TYPE_QUIET_ZONE))).
    { intros -> t c Hc. unfold png_use_verbose in Ev. destruct (2 <? pl_ncolors p); [discriminate Ev|].
      set (key := if is_dark_type t then TYPE_FINDER_PATTERN_DARK else TYPE_QUIET_ZONE).
      assert (Hin : In (t, repl c) (pl_clr_map p)).
      { apply assocZ_In_pair. rewrite Hmap, assocZ_map_snd, Hc. reflexivity. }
      pose proof (any_differs_false _ _ Ev t (repl c) Hin) as Hkey'. fold key in Hkey'.
      apply getZ_Ok in Hkey'. rewrite Hmap, assocZ_map_snd in Hkey'.
      destruct (assocZ key clr_map) as [ck|] eqn:Eck; [|discriminate Hkey']. cbn [option_map] in Hkey'. injection Hkey' as Hrepl.
      destruct (ci_cheap p ci Eci) as (qi & di & Eci').
      set (k := if is_dark_type t then 1 else 0).
      assert (Hk : exists v, getZ k ci = Ok v) by (rewrite Eci'; unfold k; destruct (is_dark_type t); eexists; reflexivity).
      destruct Hk as [v Hv]. destruct (Hci k v Hv) as [c' [Hc'1 Hc'2]].
      assert (Ekey : type_of_key false k = key) by (unfold type_of_key, k, key; destruct (is_dark_type t); reflexivity).
      rewrite Ekey, Eck in Hc'1. injection Hc'1 as <-.
      destruct (Hidx ck v (assocZ_In _ _ _ Eck) Hc'2) as [_ [_ H1]].
      rewrite Hrepl in Hc'2. destruct (Hidx c v (assocZ_In _ _ _ Hc) Hc'2) as [_ [_ H2]].
      unfold cfg. rewrite Eck. congruence. }
    exists clr_map, p, verbose, ci, pxf, qz.
    split; [first [reflexivity|assumption]|]. split; [first [reflexivity|assumption]|].
    split; [first [reflexivity|assumption]|]. split; [first [reflexivity|assumption]|]. split; [exact Esc|]. split; [exact Ebd|].
    split; [intros Hb; replace (0 <? b) with true in Eqz by lia; exact Eqz|].
    split; [exact Hsrc|]. split; [|split; [intros t v Hv; apply (Hkey t v Hv)|exact Hcheap]].
    (* reading the file *)
    set (raw := png_idat (pl_depth p) W scale b qz (map (map (cif ci)) src)) in *.
    set (z := deflate raw) in *.
    set (ihd := be32 W ++ be32 W ++ [pl_depth p; if pl_grey p then 0 else 3; 0; 0; 0]) in *.
    assert (Hsmall : Forall chunk_small (pre ++ [(T_IDAT, z)])).
    { rewrite Hpre, Hcol. unfold colour_chunks_of. unfold chunk_small.
      apply Forall_app. split; [|constructor; [|constructor]].
      - constructor; [|apply Forall_app; split; [|apply Forall_app; split]].
        + cbn [fst snd]. split; [reflexivity|]. split; [discriminate|]. unfold ihd, lenZ. cbn. lia.
        + destruct Hphys as [->|[d ->]]; [constructor|]. constructor; [|constructor].
          cbn [fst snd]. split; [reflexivity|]. split; [discriminate|]. unfold lenZ. cbn. lia.
        + destruct plte as [pd|]; [|constructor]. constructor; [|constructor].
          cbn [fst snd]. split; [reflexivity|]. split; [discriminate|]. specialize (Hplen pd eq_refl). lia.
        + destruct trns as [t|]; [|constructor]. constructor; [|constructor].
          cbn [fst snd]. split; [reflexivity|]. split; [discriminate|]. specialize (Htlen t eq_refl). lia.
      - cbn [fst snd]. split; [reflexivity|]. split; [discriminate|]. exact Hdefl. }
    assert (Hbytes : map_res chunk_bytes (pre ++ [(T_IDAT, z)]) = Ok (prebytes ++ [idat])).
    { apply map_res_app; [exact Epre|]. cbn [map_res]. unfold chunk_bytes. cbn [fst snd]. rewrite Eidat. reflexivity. }
    assert (Hfile : png_signature ++ concat prebytes ++ idat ++ iend
                    = png_signature ++ (concat (prebytes ++ [idat]) ++ iend)).
    { rewrite concat_app. cbn [concat]. rewrite app_nil_r, <- app_assoc. reflexivity. }
    change (137 :: 80 :: 78 :: 71 :: 13 :: 10 :: 26 :: 10 :: concat prebytes ++ idat ++ iend)
      with (png_signature ++ concat prebytes ++ idat ++ iend).
    rewrite Hfile. unfold read_png. change 8 with (lenZ png_signature). rewrite take_app.
    change (list_eqb png_signature SIGNATURE) with true. cbv iota.
    rewrite (parse_chunks_ok _ _ _ _ Hbytes Eiend Hsmall (le_n _)).
    rewrite Hpre. rewrite <- !app_comm_cons. change (list_eqb T_IHDR IHDR) with true. cbv iota.
    unfold ihd.
    assert (Hct : (if pl_grey p then 0 else 3) = 0 \/ (if pl_grey p then 0 else 3) = 3) by (destruct (pl_grey p); auto).
    rewrite (parse_ihdr_ok W (pl_depth p) _ ltac:(lia) Hdepth Hct). cbn [ih_ctype].
    rewrite Hcol, <- !app_assoc. cbn [app].
    fold cstate0.
    rewrite (scan_ok (if pl_grey p then 0 else 3) physl plte trns z).
    2:{ destruct Hphys as [->|[d ->]]; [left; reflexivity|right; eexists; reflexivity]. }
    2:{ destruct Hgp as [[-> ->]|[-> Hp]]; [left; split; reflexivity|right; split; [reflexivity|exact Hp]]. }
    unfold decode_image. cbn [cs_idat cs_plte cs_trns ih_depth ih_width ih_height ih_ctype].
    unfold z. rewrite inflate_deflate. cbv zeta. cbn [ih_depth ih_width ih_height ih_ctype]. rewrite Hsplit, Hunf, Hsamp.
    rewrite Hdec; [reflexivity|exact Hne|].
    apply Forall_png_grid; [apply Hqz|].
    eapply Forall_impl; [|exact Hrows]. intros r Hr. eapply Forall_impl; [|exact Hr]. intros v Hv. apply Hv.
  Qed.
End Roundtrip.

(* ===== Part J: the theorems ===== *)
Definition png_ncolors (clr_map : list (Z * list Z)) : Z := lenZ (sort_rgb (dedup (map snd clr_map))).
Definition bits_ok (matrix : list (list Z)) : Prop := Forall (Forall (fun v => v = 0 \/ v = 1)) matrix.

Lemma plan_ncolors clr_map p : png_make_plan clr_map = Ok p -> pl_ncolors p = png_ncolors clr_map.
Proof.
  unfold png_make_plan, png_ncolors. cbv zeta. set (pal0 := sort_rgb (dedup (map snd clr_map))).
  destruct ((lenZ pal0 =? 2) && forallb (fun c => clr_mem c [png_transparent; png_black; png_white]) pal0).
  - destruct (clr_mem png_transparent pal0).
    + intros H. inv_bind_as H ti Eti. injection H as <-. reflexivity.
    + intros H. injection H as <-. reflexivity.
  - destruct (clr_mem png_transparent pal0).
    + destruct (sort_len_desc pal0) as [|q0 rest]; [discriminate|].
      destruct (find _ _); [|discriminate]. intros H. injection H as <-. reflexivity.
    + intros H. injection H as <-. reflexivity.
Qed.

Lemma frameU_b0 {A} (q q' : A) n b rows : b <= 0 -> frameU q n b rows = frameU q' n b rows.
Proof. intros Hb. unfold frameU. replace (Z.to_nat b) with O by lia. reflexivity. Qed.

Lemma Forall_frameU {A} (Q : A -> Prop) q n b rows :
  (0 < b -> Q q) -> Forall (Forall Q) rows -> Forall (Forall Q) (frameU q n b rows).
Proof.
  intros Hq Hr. destruct (Z.ltb_spec 0 b) as [Hb|Hb].
  - specialize (Hq Hb). unfold frameU. repeat (apply Forall_app; split).
    + apply Forall_repeat. apply Forall_repeat. exact Hq.
    + apply Forall_map. eapply Forall_impl; [|exact Hr]. intros r Hrr.
      repeat (apply Forall_app; split); auto using Forall_repeat.
    + apply Forall_repeat. apply Forall_repeat. exact Hq.
  - unfold frameU. replace (Z.to_nat b) with O by lia. cbn [repeat app]. rewrite app_nil_r.
    apply Forall_map. eapply Forall_impl; [|exact Hr]. intros r Hrr. rewrite app_nil_r. exact Hrr.
Qed.
Lemma Forall_scaled {A} (Q : A -> Prop) s U :
  Forall (Forall Q) U -> Forall (Forall Q) (repeat_each s (map (repeat_each s) U)).
Proof.
  intros H. apply Forall_repeat_each. apply Forall_map. eapply Forall_impl; [|exact H].
  intros r Hr. apply Forall_repeat_each. exact Hr.
Qed.
Lemma scaled_map {A B} (f : A -> B) s (U : list (list A)) :
  repeat_each s (map (repeat_each s) (map (map f) U)) = map (map f) (repeat_each s (map (repeat_each s) U)).
Proof.
  rewrite map_repeat_each. f_equal. rewrite !map_map. apply map_ext. intros r. symmetry. apply map_repeat_each.
Qed.

Lemma map_map_ext_in {A B} (f g : A -> B) (l : list (list A)) (Q : A -> Prop) :
  Forall (Forall Q) l -> (forall x, Q x -> f x = g x) -> map (map f) l = map (map g) l.
Proof.
  intros HF H. apply map_ext_in. intros r Hr. apply map_ext_in. intros x Hx.
  rewrite Forall_forall in HF. specialize (HF r Hr). rewrite Forall_forall in HF. apply H. apply HF. exact Hx.
Qed.

(* the module type that matrix_iter_verbose reports for module (i, j) *)
Definition module_type (matrix am : list (list Z)) (size i j : Z) : Z :=
  get_bit (mcell matrix) (mcell am) size size true (size <? 21) i j.
(* the matrix is a symbol: the dark module types are exactly the modules with value 1 (dark module = 1,
   separators = 0, the alignment patterns of [am] are the ones in [matrix]) *)
Definition dark_types_agree (matrix am : list (list Z)) (size : Z) : Prop :=
  forall i j, 0 <= i < size -> 0 <= j < size ->
  is_dark_type (module_type matrix am size i j) = (mcell matrix i j =? 1).
(* every module type that occurs has a colour in the colour map *)
Definition types_configured {A} (matrix am : list (list Z)) (size : Z) (cmap : list (Z * A)) : Prop :=
  forall i j, 0 <= i < size -> 0 <= j < size -> assocZ (module_type matrix am size i j) cmap <> None.

Section Theorems.
  Variable deflate : list Z -> list Z.
  Variable inflate : list Z -> option (list Z).
  Hypothesis inflate_deflate : forall l, inflate (deflate l) = Some l.

  (* the cheap path (at most two colours, colour depends on the module value only), stated on pixel_grid *)
  Lemma png_roundtrip_cheap matrix am size scale border dpi cm file :
    write_png_cm deflate matrix am size scale border dpi cm = Ok file ->
    0 < size -> matrix_ok matrix size -> bits_ok matrix -> (List.length cm <= 16)%nat ->
    let b := get_border size size border in
    let n := image_side size scale b in
    n <= 2147483647 ->
    (forall l, png_layout_of matrix am size scale border dpi cm = Ok l -> lenZ (deflate (pn_raw l)) <= 2147483647) ->
    exists clr_map p verbose img,
      png_clr_map cm = Ok clr_map /\ png_make_plan clr_map = Ok p /\ png_use_verbose p = Ok verbose /\
      1 <= scale /\ 0 <= b /\
      read_png inflate file = Some (n, n, img) /\
      (verbose = true ->
         map (map norm_px) img
         = map (map (fun t => colour_px (cfg clr_map t))) (iter_verbose_rows matrix am size size scale b)) /\
      (verbose = false ->
         map (map norm_px) img
         = map (map (fun v => colour_px (cfg clr_map (if v =? 1 then TYPE_FINDER_PATTERN_DARK else TYPE_QUIET_ZONE))))
               (pixel_grid matrix size scale b)
         /\ forall t c, assocZ t clr_map = Some c ->
            colour_px c = colour_px (cfg clr_map (if is_dark_type t then TYPE_FINDER_PATTERN_DARK else TYPE_QUIET_ZONE))).
  Proof.
    intros Hw Hsize Hm Hbits H16 b n Hn Hdefl.
    destruct (png_read_core deflate inflate inflate_deflate matrix am size scale border dpi cm file Hw Hsize Hm H16 Hn Hdefl)
      as (clr_map & p & verbose & ci & pxf & qz & Hcm & Hp & Hv & Hci & Hs & Hb & Hqz & Hsrc & Hread & Hcol & Hcheap).
    fold b in Hb, Hqz, Hread.
    exists clr_map, p, verbose. eexists. split; [exact Hcm|]. split; [exact Hp|]. split; [exact Hv|].
    split; [exact Hs|]. split; [exact Hb|]. split; [exact Hread|].
    rewrite (png_grid_frame qz scale b size _ _ Hs Hb ltac:(lia) eq_refl).
    split.
    - (* verbose iterator *)
      intros ->. unfold png_src in *.
      set (V0 := iter_verbose_rows matrix am size size 1 0) in *.
      assert (Hfr : frameU qz size b (map (map (cif ci)) V0) = map (map (cif ci)) (frameU TYPE_QUIET_ZONE size b V0)).
      { rewrite map_frameU. destruct (Z.ltb_spec 0 b) as [Hb0|Hb0].
        - specialize (Hqz Hb0). apply getZ_Ok in Hqz. unfold cif. rewrite Hqz. reflexivity.
        - apply frameU_b0. exact Hb0. }
      rewrite Hfr, scaled_map. unfold V0. rewrite <- (iter_verbose_rows_frame matrix am size scale b ltac:(lia) Hb).
      assert (Hcells : Forall (Forall (fun t => exists v, getZ t ci = Ok v)) (iter_verbose_rows matrix am size size scale b)).
      { rewrite (iter_verbose_rows_frame matrix am size scale b ltac:(lia) Hb).
        apply Forall_scaled. apply Forall_frameU; [intros Hb0; exists qz; apply Hqz; exact Hb0|exact Hsrc]. }
      transitivity (map (map (fun v => norm_px (pxf (cif ci v)))) (iter_verbose_rows matrix am size size scale b)).
      { rewrite !map_map. apply map_ext. intros r. rewrite !map_map. reflexivity. }
      apply (map_map_ext_in _ _ _ _ Hcells). intros t [v Hv'].
      assert (Ecif : cif ci t = v) by (unfold cif; apply getZ_Ok in Hv'; rewrite Hv'; reflexivity).
      rewrite Ecif, (Hcol t v Hv'). reflexivity.
    - (* cheap iterator *)
      intros ->. split; [|apply Hcheap; reflexivity]. unfold png_src in *.
      destruct (ci_cheap p ci Hci) as (qi & di & Eci).
      assert (Hfr : frameU qz size b (map (map (cif ci)) matrix) = map (map (cif ci)) (frameU 0 size b matrix)).
      { rewrite map_frameU. destruct (Z.ltb_spec 0 b) as [Hb0|Hb0].
        - specialize (Hqz Hb0). rewrite Eci in Hqz. injection Hqz as <-. rewrite Eci. reflexivity.
        - apply frameU_b0. exact Hb0. }
      rewrite Hfr, scaled_map, <- (iter_rows_frame matrix size scale b Hm ltac:(lia) Hb).
      rewrite (iter_rows_is_pixel_grid matrix size scale b Hsize Hs Hb).
      assert (Hcells : Forall (Forall (fun v => v = 0 \/ v = 1)) (pixel_grid matrix size scale b)).
      { rewrite <- (iter_rows_is_pixel_grid matrix size scale b Hsize Hs Hb).
        rewrite (iter_rows_frame matrix size scale b Hm ltac:(lia) Hb).
        apply Forall_scaled. apply Forall_frameU; [intros _; left; reflexivity|exact Hbits]. }
      transitivity (map (map (fun v => norm_px (pxf (cif ci v)))) (pixel_grid matrix size scale b)).
      { rewrite !map_map. apply map_ext. intros r. rewrite !map_map. reflexivity. }
      apply (map_map_ext_in _ _ _ _ Hcells). intros v Hv'.
      assert (Hg : getZ v ci = Ok (cif ci v)).
      { rewrite Eci. destruct Hv' as [-> | ->]; reflexivity. }
      rewrite (Hcol v _ Hg). reflexivity.
  Qed.

  (* C09 / C11: for every colour configuration that write_png accepts, pixel (x, y) of the (size + 2 border) * scale
     square has the colour configured for the type of module (y div scale - border, x div scale - border) -- the
     type reported by matrix_iter_verbose, TYPE_QUIET_ZONE outside the symbol -- and is transparent where that
     colour is None.  (Without per-type colours this is `dark` for the dark modules and `light` for the light
     modules and the quiet zone: png_roundtrip_two_colours.) *)
  Theorem png_roundtrip matrix am size scale border dpi cm file clr_map :
    write_png_cm deflate matrix am size scale border dpi cm = Ok file ->
    0 < size -> matrix_ok matrix size -> bits_ok matrix -> (List.length cm <= 16)%nat ->
    let b := get_border size size border in
    let n := image_side size scale b in
    n <= 2147483647 ->
    (forall l, png_layout_of matrix am size scale border dpi cm = Ok l -> lenZ (deflate (pn_raw l)) <= 2147483647) ->
    png_clr_map cm = Ok clr_map ->
    dark_types_agree matrix am size -> types_configured matrix am size clr_map ->
    exists img,
      read_png inflate file = Some (n, n, img) /\
      map (map norm_px) img
      = map (map (fun t => colour_px (cfg clr_map t))) (iter_verbose_rows matrix am size size scale b).
  Proof.
    intros Hw Hsize Hm Hbits H16 b n Hn Hdefl Hcm Hagree Hconf.
    destruct (png_roundtrip_cheap matrix am size scale border dpi cm file Hw Hsize Hm Hbits H16 Hn Hdefl)
      as (clr_map' & p & verbose & img & Hcm' & Hp & Hv & Hs & Hb & Hread & Htrue & Hfalse).
    fold b in Hb, Htrue, Hfalse. rewrite Hcm in Hcm'. injection Hcm' as <-.
    exists img. split; [exact Hread|]. destruct verbose; [apply Htrue; reflexivity|].
    destruct (Hfalse eq_refl) as [Himg Hcheap]. rewrite Himg.
    rewrite pixel_grid_is_gridZ, (iter_verbose_rows_is_grid matrix am size scale b Hsize Hs Hb).
    unfold gridZ. rewrite !map_map. apply map_ext_in. intros y Hy. rewrite !map_map. apply map_ext_in. intros x Hx.
    unfold pixel_spec, verbose_spec, module_at.
    set (i := y / scale - b). set (j := x / scale - b).
    destruct ((0 <=? i) && (i <? size) && (0 <=? j) && (j <? size)) eqn:Ein.
    - assert (Hi : 0 <= i < size) by lia. assert (Hj : 0 <= j < size) by lia.
      fold (mcell matrix i j). fold (module_type matrix am size i j).
      specialize (Hagree i j Hi Hj). specialize (Hconf i j Hi Hj).
      destruct (assocZ (module_type matrix am size i j) clr_map) as [c|] eqn:Ec; [|congruence].
      rewrite <- Hagree. rewrite <- (Hcheap _ c Ec). unfold cfg. rewrite Ec. reflexivity.
    - change (0 =? 1) with false. cbv iota. rewrite get_bit_outside by lia. reflexivity.
  Qed.
End Theorems.

(* ===== Part K: dark / light only ===== *)
Lemma clr_map_rel : forall cm clr_map, png_clr_map cm = Ok clr_map ->
  Forall2 (fun a b => fst a = fst b /\ png_color (snd a) = Ok (snd b)) cm clr_map.
Proof.
  unfold png_clr_map. intros cm clr_map H. apply map_res_Forall2 in H.
  induction H as [|[t oc] [t' c] cm clr_map H HF IH]; constructor; [|exact IH].
  cbn [fst snd]. inv_bind_as H v Ev. injection H as <- <-. split; reflexivity.
Qed.
Lemma clr_map_assoc cm clr_map t oc : png_clr_map cm = Ok clr_map -> assocZ t cm = Some oc ->
  exists c, png_color oc = Ok c /\ assocZ t clr_map = Some c.
Proof.
  intros H. apply clr_map_rel in H. induction H as [|[k o] [k' c] cm clr_map [Hk Hc] HF IH]; [discriminate|].
  cbn [fst snd] in Hk, Hc. subst k'. cbn [assocZ]. destruct (t =? k).
  - intros E. injection E as <-. exists c. split; [exact Hc|reflexivity].
  - exact IH.
Qed.
Lemma clr_map_colours cm clr_map c : png_clr_map cm = Ok clr_map -> In c (map snd clr_map) ->
  exists oc, In oc (map snd cm) /\ png_color oc = Ok c.
Proof.
  intros H. apply clr_map_rel in H. induction H as [|[k o] [k' c'] cm clr_map [Hk Hc] HF IH]; [intros []|].
  cbn [fst snd map In] in *. intros [<-|Hin].
  - exists o. split; [left; reflexivity|exact Hc].
  - destruct (IH Hin) as [oc [H1 H2]]. exists oc. split; [right; exact H1|exact H2].
Qed.

Lemma cm_dl_entries size dark light oc :
  In oc (map snd (make_colormap size (png_opts_dark_light dark light))) -> oc = dark \/ oc = light.
Proof.
  intros H. apply in_map_iff in H as [[t o] [<- H]]. unfold make_colormap in H. apply filter_In in H as [H _].
  cbn [png_opts_dark_light o_dark o_light o_finder_dark o_finder_light o_data_dark o_data_light o_version_dark
       o_version_light o_format_dark o_format_light o_alignment_dark o_alignment_light o_timing_dark
       o_timing_light o_separator o_dark_module o_quiet_zone pick In] in H.
  cbn [snd]. repeat (destruct H as [H|H]; [injection H as _ <-; auto|]). destruct H.
Qed.
Lemma cm_dl_assoc size dark light :
  assocZ TYPE_FINDER_PATTERN_DARK (make_colormap size (png_opts_dark_light dark light)) = Some dark
  /\ assocZ TYPE_QUIET_ZONE (make_colormap size (png_opts_dark_light dark light)) = Some light.
Proof.
  unfold make_colormap. destruct (size <? 45); [destruct (size <? 21)|]; split; reflexivity.
Qed.
Lemma make_colormap_length size o : (List.length (make_colormap size o) <= 16)%nat.
Proof.
  unfold make_colormap. etransitivity; [apply filter_length_le'|]. cbn [List.length]. lia.
Qed.

Lemma ncolors_two (clr_map : list (Z * list Z)) a b :
  (forall c, In c (map snd clr_map) -> c = a \/ c = b) -> png_ncolors clr_map <= 2.
Proof.
  intros H. unfold png_ncolors, lenZ. rewrite sort_rgb_length.
  assert (Hincl : incl (dedup (map snd clr_map)) [a; b]).
  { intros c Hc. apply (proj1 (dedup_In c _)) in Hc. destruct (H c Hc) as [-> | ->]; [left|right; left]; reflexivity. }
  pose proof (NoDup_incl_length (dedup_NoDup (map snd clr_map)) Hincl) as HL. cbn [List.length] in HL. lia.
Qed.

Lemma write_ok_clr_map deflate matrix am size scale border dpi cm file :
  write_png_cm deflate matrix am size scale border dpi cm = Ok file -> exists clr_map, png_clr_map cm = Ok clr_map.
Proof.
  unfold write_png_cm, png_layout_of. intros H. inv_bind_as H l El.
  inv_bind_as El u1 E1. inv_bind_as El u2 E2. cbv zeta in El. inv_bind_as El ppm E3. inv_bind_as El clr_map E4.
  exists clr_map. reflexivity.
Qed.

Lemma clr_map_entry cm clr_map mt c : png_clr_map cm = Ok clr_map -> In (mt, c) clr_map ->
  exists oc, In (mt, oc) cm /\ png_color oc = Ok c.
Proof.
  intros H. apply clr_map_rel in H. induction H as [|[k o] [k' c'] cm clr_map [Hk Hc] HF IH]; [intros []|].
  cbn [fst snd] in Hk, Hc. subst k'. intros [Hin|Hin].
  - injection Hin as -> ->. exists o. split; [left; reflexivity|exact Hc].
  - destruct (IH Hin) as [oc [H1 H2]]. exists oc. split; [right; exact H1|exact H2].
Qed.

Lemma cm_dl_typed size dark light t oc :
  In (t, oc) (make_colormap size (png_opts_dark_light dark light)) -> oc = if is_dark_type t then dark else light.
Proof.
  intros H. unfold make_colormap in H. apply filter_In in H as [H _].
  cbn [png_opts_dark_light o_dark o_light o_finder_dark o_finder_light o_data_dark o_data_light o_version_dark
       o_version_light o_format_dark o_format_light o_alignment_dark o_alignment_light o_timing_dark
       o_timing_light o_separator o_dark_module o_quiet_zone pick In] in H.
  repeat (destruct H as [H|H]; [injection H as <- <-; reflexivity|]). destruct H.
Qed.

Lemma plan_clr_map_repl clr_map p : png_make_plan clr_map = Ok p ->
  exists repl : list Z -> list Z, pl_clr_map p = map (fun mc => (fst mc, repl (snd mc))) clr_map.
Proof.
  unfold png_make_plan. cbv zeta. set (pal0 := sort_rgb (dedup (map snd clr_map))).
  destruct ((lenZ pal0 =? 2) && forallb (fun c => clr_mem c [png_transparent; png_black; png_white]) pal0).
  - destruct (clr_mem png_transparent pal0).
    + intros H. inv_bind_as H ti Eti. injection H as <-. exists (fun c => c). apply map_fst_snd_id.
    + intros H. injection H as <-. exists (fun c => c). apply map_fst_snd_id.
  - destruct (clr_mem png_transparent pal0).
    + destruct (sort_len_desc pal0) as [|q0 rest]; [discriminate|].
      destruct (find _ _) as [tc|]; [|discriminate]. intros H. injection H as <-.
      exists (fun c => if clr_eqb c png_transparent then tc else c). cbn [pl_clr_map]. apply map_ext. intros [mt c]. reflexivity.
    + intros H. injection H as <-. exists (fun c => c). apply map_fst_snd_id.
Qed.

Lemma any_differs_same full : forall l v, any_differs full l = Ok v ->
  (forall mt c, In (mt, c) l -> getZ (if is_dark_type mt then TYPE_FINDER_PATTERN_DARK else TYPE_QUIET_ZONE) full = Ok c) ->
  v = false.
Proof.
  induction l as [|[mt c] l IH]; intros v H Hall; cbn [any_differs] in H; [injection H as <-; reflexivity|].
  rewrite (Hall mt c (or_introl eq_refl)) in H. cbn [bind] in H. rewrite clr_eqb_refl in H. cbn [negb] in H.
  apply (IH v H). intros mt' c' Hin. apply Hall. right. exact Hin.
Qed.

Section TwoColours.
  Variable deflate : list Z -> list Z.
  Variable inflate : list Z -> option (list Z).
  Hypothesis inflate_deflate : forall l, inflate (deflate l) = Some l.

  (* C09 for the usual call: only `dark` and `light` are given (None = transparent, RGB(A) tuples, names, hex).
     dc / lc are the parsed colours (png_transparent for None). *)
  Theorem png_roundtrip_two_colours matrix am size scale border dpi dark light dc lc file :
    write_png deflate matrix am size scale border dpi (png_opts_dark_light dark light) = Ok file ->
    0 < size -> matrix_ok matrix size -> bits_ok matrix ->
    let b := get_border size size border in
    let n := image_side size scale b in
    n <= 2147483647 ->
    (forall pre raw post, png_parts matrix am size scale border dpi (png_opts_dark_light dark light) = Ok (pre, raw, post) ->
                          lenZ (deflate raw) <= 2147483647) ->
    png_color dark = Ok dc -> png_color light = Ok lc ->
    exists img,
      read_png inflate file = Some (n, n, img) /\
      map (map norm_px) img
      = map (map (fun v => colour_px (if v =? 1 then dc else lc))) (pixel_grid matrix size scale b).
  Proof.
    intros Hw Hsize Hm Hbits b n Hn Hdefl Hdark Hlight. unfold write_png in Hw.
    set (cm := make_colormap size (png_opts_dark_light dark light)) in *.
    assert (Hdefl' : forall l, png_layout_of matrix am size scale border dpi cm = Ok l -> lenZ (deflate (pn_raw l)) <= 2147483647).
    { intros l Hl. unfold write_png_cm in Hw. rewrite Hl in Hw. cbn [bind] in Hw.
      inv_bind_as Hw pre Epre. inv_bind_as Hw idat Eidat. inv_bind_as Hw iend Eiend.
      apply (Hdefl pre (pn_raw l) iend). unfold png_parts, png_parts_cm. fold cm. rewrite Hl. cbn [bind].
      rewrite Epre. cbn [bind]. rewrite Eiend. reflexivity. }
    destruct (png_roundtrip_cheap deflate inflate inflate_deflate matrix am size scale border dpi cm file
                Hw Hsize Hm Hbits (make_colormap_length _ _) Hn Hdefl')
      as (clr_map & p & verbose & img & Hcm & Hp & Hv & Hs & Hb & Hread & _ & Hfalse).
    fold b in Hfalse.
    destruct (cm_dl_assoc size dark light) as [Hfd Hqz]. fold cm in Hfd, Hqz.
    destruct (clr_map_assoc cm clr_map _ _ Hcm Hfd) as [dc' [Hdc' Hfd']].
    destruct (clr_map_assoc cm clr_map _ _ Hcm Hqz) as [lc' [Hlc' Hqz']].
    rewrite Hdark in Hdc'. injection Hdc' as <-. rewrite Hlight in Hlc'. injection Hlc' as <-.
    assert (Hnc : png_ncolors clr_map <= 2).
    { apply (ncolors_two clr_map dc lc). intros c Hc. destruct (clr_map_colours cm clr_map c Hcm Hc) as [oc [Hoc1 Hoc2]].
      destruct (cm_dl_entries size dark light oc Hoc1) as [-> | ->]; [left|right]; congruence. }
    assert (Hverb : verbose = false).
    { unfold png_use_verbose in Hv. rewrite (plan_ncolors _ _ Hp) in Hv. replace (2 <? png_ncolors clr_map) with false in Hv by lia.
      destruct (plan_clr_map_repl _ _ Hp) as [repl Hrepl].
      apply (any_differs_same _ _ _ Hv). intros mt c' Hin. rewrite Hrepl in Hin |- *.
      apply in_map_iff in Hin as [[mt0 c] [Heq Hin]]. cbn [fst snd] in Heq. injection Heq as -> <-.
      apply getZ_Ok. rewrite assocZ_map_snd.
      assert (Hc : c = if is_dark_type mt then dc else lc).
      { destruct (clr_map_entry cm clr_map mt c Hcm Hin) as [oc [Hoc1 Hoc2]].
        rewrite (cm_dl_typed _ _ _ _ _ Hoc1) in Hoc2. destruct (is_dark_type mt); congruence. }
      destruct (is_dark_type mt); subst c; [rewrite Hfd'|rewrite Hqz']; reflexivity. }
    destruct (Hfalse Hverb) as [Himg _].
    exists img. split; [exact Hread|]. rewrite Himg. apply map_ext. intros r. apply map_ext. intros v.
    unfold cfg. destruct (v =? 1); [rewrite Hfd'|rewrite Hqz']; reflexivity.
  Qed.
End TwoColours.

(* for the sizes of real symbols (the version information needs size >= 45) every module type reported by
   matrix_iter_verbose has a colour in the map produced by _make_colormap *)
Lemma make_colormap_configured matrix am size o :
  size <= 41 \/ 45 <= size -> types_configured matrix am size (make_colormap size o).
Proof.
  intros Hsz i j Hi Hj. unfold module_type, get_bit.
  replace ((0 <=? i) && (i <? size) && (0 <=? j) && (j <? size)) with true by lia.
  cbv zeta. unfold make_colormap.
  destruct (size <? 45) eqn:E45; [destruct (size <? 21) eqn:E21|].
  - cbn [negb andb orb].
    repeat match goal with |- context [if ?c then _ else _] => destruct c end; cbv; discriminate.
  - replace (41 <? size) with false by lia. cbn [negb andb orb].
    repeat match goal with |- context [if ?c then _ else _] => destruct c end; cbv; discriminate.
  - assert (E21 : (size <? 21) = false) by lia. rewrite E21. cbn [negb andb orb].
    repeat match goal with |- context [if ?c then _ else _] => destruct c end; cbv; discriminate.
Qed.

Lemma clr_map_assoc_none cm clr_map t : png_clr_map cm = Ok clr_map -> assocZ t cm = None -> assocZ t clr_map = None.
Proof.
  intros H. apply clr_map_rel in H. induction H as [|[k o] [k' c] cm clr_map [Hk Hc] HF IH]; [reflexivity|].
  cbn [fst snd] in Hk, Hc. subst k'. cbn [assocZ]. destruct (t =? k); [discriminate|exact IH].
Qed.

(* the colour configured for module type t (None = transparent; also for a type without entry) and its pixel *)
Definition configured (cm : list (Z * ocolor)) (t : Z) : ocolor :=
  match assocZ t cm with Some oc => oc | None => None end.
Definition ocolor_px (oc : ocolor) : rgba :=
  match png_color oc with Ok c => colour_px c | Err _ => (0, 0, 0, 0) end.

Lemma cfg_configured cm clr_map t : png_clr_map cm = Ok clr_map ->
  colour_px (cfg clr_map t) = ocolor_px (configured cm t).
Proof.
  intros H. unfold cfg, configured, ocolor_px. destruct (assocZ t cm) as [oc|] eqn:E.
  - destruct (clr_map_assoc cm clr_map t oc H E) as [c [H1 H2]]. rewrite H1, H2. reflexivity.
  - rewrite (clr_map_assoc_none cm clr_map t H E). reflexivity.
Qed.

Section Main.
  Variable deflate : list Z -> list Z.
  Variable inflate : list Z -> option (list Z).
  Hypothesis inflate_deflate : forall l, inflate (deflate l) = Some l.

  (* C09 / C11, the statement for write_png as it is called (colour options through _make_colormap):
     whenever write_png accepts its arguments, the file is a PNG of n x n pixels, n = (size + 2 border) * scale, in
     which pixel (x, y) has the colour configured for the type of module (y div scale - border, x div scale - border)
     (quiet zone outside the symbol), transparent (alpha 0) where that colour is None. *)
  Theorem png_roundtrip_opts matrix am size scale border dpi opts file :
    write_png deflate matrix am size scale border dpi opts = Ok file ->
    0 < size -> size <= 41 \/ 45 <= size -> matrix_ok matrix size -> bits_ok matrix ->
    dark_types_agree matrix am size ->
    let b := get_border size size border in
    let n := image_side size scale b in
    n <= 2147483647 ->
    (forall pre raw post, png_parts matrix am size scale border dpi opts = Ok (pre, raw, post) ->
                          lenZ (deflate raw) <= 2147483647) ->
    exists img,
      read_png inflate file = Some (n, n, img) /\
      map (map norm_px) img
      = map (map (fun t => ocolor_px (configured (make_colormap size opts) t)))
            (iter_verbose_rows matrix am size size scale b).
  Proof.
    intros Hw Hsize Hsz Hm Hbits Hagree b n Hn Hdefl. unfold write_png in Hw.
    set (cm := make_colormap size opts) in *.
    assert (Hdefl' : forall l, png_layout_of matrix am size scale border dpi cm = Ok l -> lenZ (deflate (pn_raw l)) <= 2147483647).
    { intros l Hl. unfold write_png_cm in Hw. rewrite Hl in Hw. cbn [bind] in Hw.
      inv_bind_as Hw pre Epre. inv_bind_as Hw idat Eidat. inv_bind_as Hw iend Eiend.
      apply (Hdefl pre (pn_raw l) iend). unfold png_parts, png_parts_cm. fold cm. rewrite Hl. cbn [bind].
      rewrite Epre. cbn [bind]. rewrite Eiend. reflexivity. }
    destruct (write_ok_clr_map _ _ _ _ _ _ _ _ _ Hw) as [clr_map Hcm].
    assert (Hconf : types_configured matrix am size clr_map).
    { intros i j Hi Hj. pose proof (make_colormap_configured matrix am size opts Hsz i j Hi Hj) as Hc. fold cm in Hc.
      destruct (assocZ (module_type matrix am size i j) cm) as [oc|] eqn:E; [|congruence].
      destruct (clr_map_assoc cm clr_map _ oc Hcm E) as [c [_ H2]]. rewrite H2. discriminate. }
    destruct (png_roundtrip deflate inflate inflate_deflate matrix am size scale border dpi cm file clr_map
                Hw Hsize Hm Hbits (make_colormap_length _ _) Hn Hdefl' Hcm Hagree Hconf) as [img [Hr Himg]].
    exists img. split; [exact Hr|]. rewrite Himg. apply map_ext. intros r. apply map_ext. intros t.
    apply (cfg_configured cm clr_map t Hcm).
  Qed.
End Main.

(* ===== Part L: well-formedness of the chunk layer, error behaviour, examples ===== *)
(* one serialized chunk: 4-byte length, type, data, 4-byte CRC *)
Definition chunk_ser (c : list Z * list Z) : list Z :=
  be32 (lenZ (snd c)) ++ fst c ++ snd c ++ be32 (crc32 (fst c ++ snd c)).

Theorem chunk_wellformed name data bytes :
  chunk name data = Ok bytes ->
  bytes = chunk_ser (name, data)
  /\ be_uint (be32 (lenZ data)) = lenZ data                      (* the length field is the data length *)
  /\ be_uint (be32 (crc32 (name ++ data))) = crc_ref (name ++ data).  (* the CRC field is the CRC of type+data *)
Proof.
  intros H. apply chunk_inv in H as [Hlen ->]. split; [reflexivity|]. split.
  - apply be_uint_be32. unfold lenZ in *. lia.
  - rewrite be_uint_be32 by apply crc32_range. apply crc32_matches_spec.
Qed.

Lemma chunks_ser_concat : forall cs bl, map_res chunk_bytes cs = Ok bl ->
  concat bl = flat_map chunk_ser cs /\ Forall (fun c => lenZ (snd c) < 4294967296) cs.
Proof.
  intros cs bl H. apply map_res_Forall2 in H. induction H as [|c y cs bl Hc HF IH]; [split; [reflexivity|constructor]|].
  destruct IH as [IH1 IH2]. unfold chunk_bytes in Hc. apply chunk_inv in Hc as [Hlen ->].
  cbn [concat flat_map]. rewrite IH1. split; [destruct c; reflexivity|constructor; assumption].
Qed.

Section Wellformed.
  Variable deflate : list Z -> list Z.

  (* The file is the signature followed by well-formed chunks IHDR .. IDAT IEND, for all inputs on which write_png
     succeeds; the IHDR chunk announces a square image of side (size + 2 border) * scale. *)
  Theorem png_wellformed matrix am size scale border dpi cm file :
    write_png_cm deflate matrix am size scale border dpi cm = Ok file ->
    exists l rest depth ctype,
      png_layout_of matrix am size scale border dpi cm = Ok l
      /\ let W := (size + 2 * get_border size size border) * scale in
         let chunks := pn_pre l ++ [(T_IDAT, deflate (pn_raw l)); (T_IEND, [])] in
         file = png_signature ++ flat_map chunk_ser chunks
         /\ Forall (fun c => be_uint (be32 (lenZ (snd c))) = lenZ (snd c)
                             /\ be_uint (be32 (crc32 (fst c ++ snd c))) = crc_ref (fst c ++ snd c)) chunks
         /\ pn_pre l = (T_IHDR, be32 W ++ be32 W ++ [depth; ctype; 0; 0; 0]) :: rest
         /\ 0 <= W < 4294967296.
  Proof.
    unfold write_png_cm. intros H. inv_bind_as H l El. inv_bind_as H prebytes Epre. inv_bind_as H idat Eidat.
    inv_bind_as H iend Eiend. injection H as <-.
    destruct (chunks_ser_concat _ _ Epre) as [Hc1 Hc2].
    pose proof (chunk_inv _ _ _ Eidat) as [Hl1 ->]. pose proof (chunk_inv _ _ _ Eiend) as [Hl2 ->].
    assert (Hpre : exists rest depth ctype W', pn_pre l = (T_IHDR, be32 W' ++ be32 W' ++ [depth; ctype; 0; 0; 0]) :: rest
                   /\ W' = (size + 2 * get_border size size border) * scale /\ 0 <= W' < 4294967296).
    { unfold png_layout_of in El. inv_bind_as El u1 E1. inv_bind_as El u2 E2. cbv zeta in El.
      inv_bind_as El ppm E3. inv_bind_as El clr_map E4. inv_bind_as El p E5. inv_bind_as El vb E5'. inv_bind_as El ci E6.
      inv_bind_as El qz E7. inv_bind_as El rows E8. inv_bind_as El pre E9. injection El as <-. cbn [pn_pre].
      destruct (pre_chunks_inv _ _ _ _ E9) as (physl & colourl & Hp & HW & _).
      exists (physl ++ colourl), (pl_depth p), (if pl_grey p then 0 else 3), ((size + 2 * get_border size size border) * scale).
      split; [exact Hp|]. split; [reflexivity|exact HW]. }
    destruct Hpre as (rest & depth & ctype & W' & Hpre & -> & HW).
    exists l, rest, depth, ctype. split; [reflexivity|]. cbv zeta. split; [|split; [|split; [exact Hpre|exact HW]]].
    - rewrite flat_map_app, <- Hc1. cbn [flat_map]. rewrite app_nil_r. reflexivity.
    - apply Forall_app. split.
      + eapply Forall_impl; [|exact Hc2]. intros c Hc. split; [apply be_uint_be32; unfold lenZ in *; lia|].
        rewrite be_uint_be32 by apply crc32_range. apply crc32_matches_spec.
      + constructor; [|constructor; [|constructor]]; cbn [fst snd];
          (split; [apply be_uint_be32; unfold lenZ in *; lia|rewrite be_uint_be32 by apply crc32_range; apply crc32_matches_spec]).
  Qed.

  (* ----- error behaviour ----- *)
  Theorem png_err_scale matrix am size scale border dpi cm :
    scale < 1 -> write_png_cm deflate matrix am size scale border dpi cm = Err ValueError.
  Proof.
    intros H. unfold write_png_cm, png_layout_of. rewrite check_valid_scale_spec.
    replace (scale <? 1) with true by lia. reflexivity.
  Qed.
  Theorem png_err_border matrix am size scale b dpi cm :
    1 <= scale -> b < 0 -> write_png_cm deflate matrix am size scale (Some b) dpi cm = Err ValueError.
  Proof.
    intros Hs H. unfold write_png_cm, png_layout_of. rewrite check_valid_scale_spec.
    replace (scale <? 1) with false by lia. cbn [bind].
    unfold check_valid_border, q_ltz, q_of, py_int, QArith_base.Qle_bool, QArith_base.Qeq_bool, QArith_base.inject_Z.
    cbn [QArith_base.Qnum QArith_base.Qden].
    replace (0 * 1 <=? b * 1) with false by lia. cbn [negb]. rewrite orb_true_r. reflexivity.
  Qed.
  Definition border_valid (border : option Z) : Prop := match border with Some b => 0 <= b | None => True end.
  Lemma check_border_ok border : border_valid border ->
    check_valid_border (match border with Some b => Some (PInt b) | None => None end) = Ok tt.
  Proof.
    destruct border as [b|]; [|reflexivity]. cbn [border_valid]. intros Hb.
    unfold check_valid_border, q_ltz, q_of, py_int, QArith_base.Qle_bool, QArith_base.Qeq_bool, QArith_base.inject_Z.
    cbn [QArith_base.Qnum QArith_base.Qden]. replace (0 * 1 <=? b * 1) with true by lia.
    rewrite (proj1 (Zeq_is_eq_bool (b * 1) (b * 1)) eq_refl). reflexivity.
  Qed.
  Theorem png_err_dpi matrix am size scale border d cm :
    1 <= scale -> border_valid border -> d < 0 ->
    write_png_cm deflate matrix am size scale border (Some d) cm = Err ValueError.
  Proof.
    intros Hs Hb Hd. unfold write_png_cm, png_layout_of. rewrite check_valid_scale_spec.
    replace (scale <? 1) with false by lia. cbn [bind]. rewrite (check_border_ok border Hb). cbn [bind]. cbv zeta.
    unfold png_dpi. replace (d =? 0) with false by lia. replace (d <? 0) with true by lia. reflexivity.
  Qed.
  Definition dpi_valid (dpi : option Z) : Prop := match dpi with Some d => 0 <= d | None => True end.
  Theorem png_err_colour matrix am size scale border dpi cm e :
    1 <= scale -> border_valid border -> dpi_valid dpi -> png_clr_map cm = Err e ->
    write_png_cm deflate matrix am size scale border dpi cm = Err e.
  Proof.
    intros Hs Hb Hd Hc. unfold write_png_cm, png_layout_of. rewrite check_valid_scale_spec.
    replace (scale <? 1) with false by lia. cbn [bind]. rewrite (check_border_ok border Hb). cbn [bind]. cbv zeta.
    assert (Hdpi : exists ppm, png_dpi dpi = Ok ppm).
    { unfold png_dpi. destruct dpi as [d|]; [|eexists; reflexivity]. cbn [dpi_valid] in Hd.
      destruct (d =? 0); [eexists; reflexivity|]. replace (d <? 0) with false by lia. eexists; reflexivity. }
    destruct Hdpi as [ppm ->]. cbn [bind]. rewrite Hc. reflexivity.
  Qed.
End Wellformed.

(* ===== Part M: exception class of colour parsing ===== *)
Lemma int16_2_err a b e : int16_2 a b = Err e -> e = ValueError.
Proof.
  unfold int16_2. destruct (hexval a), (hexval b); try discriminate; intros H; injection H as <-; reflexivity.
Qed.
Lemma pairs_hex_err : forall n s e, (List.length s <= n)%nat -> pairs_hex s = Err e -> e = ValueError.
Proof.
  induction n as [|n IH]; intros s e Hn H.
  - destruct s; [discriminate H|cbn in Hn; lia].
  - destruct s as [|a [|b r]]; cbn [pairs_hex] in H; [discriminate H|injection H as <-; reflexivity|].
    destruct (int16_2 a b) as [v|e1] eqn:E1; cbn [bind] in H.
    + destruct (pairs_hex r) as [t|e2] eqn:E2; cbn [bind] in H; [discriminate H|].
      injection H as <-. apply (IH r e2); [cbn [List.length] in Hn; lia|exact E2].
    + injection H as <-. apply (int16_2_err a b e1 E1).
Qed.
Lemma hex_err s e : hex_to_rgb_or_rgba s false = Err e -> e = ValueError.
Proof.
  unfold hex_to_rgb_or_rgba. destruct s as [|c0 rest]; [intros H; injection H as <-; reflexivity|].
  cbv zeta. set (color := if (2 <? lenZ (if c0 =? 35 then rest else c0 :: rest)) && (lenZ (if c0 =? 35 then rest else c0 :: rest) <? 5)
                          then flat_map (fun c => [c; c]) (if c0 =? 35 then rest else c0 :: rest)
                          else if c0 =? 35 then rest else c0 :: rest).
  destruct (negb ((lenZ color =? 6) || (lenZ color =? 8))); [intros H; injection H as <-; reflexivity|].
  destruct (pairs_hex color) as [vals|e1] eqn:E1; cbn [bind andb]; [discriminate|].
  intros H. injection H as <-. apply (pairs_hex_err (List.length color) color e1 (le_n _) E1).
Qed.
Lemma color_to_rgba_err c e : color_to_rgba c false = Err e -> e = ValueError.
Proof.
  unfold color_to_rgba. destruct c as [s|parts].
  - destruct (assoc_str (py_lower s) NAME2RGB) as [[[r g] b]|]; [discriminate|].
    destruct (hex_to_rgb_or_rgba s false) as [l|e1] eqn:E1.
    + destruct l as [|r [|g [|b [|a l]]]]; discriminate.
    + apply hex_err in E1. subst e1. intros H. injection H as <-. reflexivity.
  - destruct parts as [|r [|g [|b [|a [|x l]]]]]; try (intros H; injection H as <-; reflexivity).
    + destruct ((0 <=? r) && (r <=? 255) && ((0 <=? g) && (g <=? 255)) && ((0 <=? b) && (b <=? 255))); [discriminate|].
      intros H. injection H as <-. reflexivity.
    + destruct ((0 <=? r) && (r <=? 255) && ((0 <=? g) && (g <=? 255)) && ((0 <=? b) && (b <=? 255)));
        [|intros H; injection H as <-; reflexivity].
      unfold alpha_value. destruct ((0 <=? a) && (a <=? 255)); cbn [bind]; [discriminate|].
      intros H. injection H as <-. reflexivity.
Qed.
(* an unparsable colour is always refused with ValueError *)
Theorem png_color_err_class c e : png_color c = Err e -> e = ValueError.
Proof.
  destruct c as [c|]; [|discriminate]. cbn [png_color]. unfold color_to_rgb_or_rgba.
  destruct (color_to_rgba c false) as [l|e1] eqn:E1; cbn [bind].
  - destruct l as [|r [|g [|b [|a [|x l]]]]]; try discriminate. destruct (a =? opaque false); discriminate.
  - intros H. injection H as <-. apply (color_to_rgba_err c e1 E1).
Qed.
Theorem png_clr_map_err_class : forall cm e, png_clr_map cm = Err e -> e = ValueError.
Proof.
  unfold png_clr_map. induction cm as [|[t oc] cm IH]; intros e H; cbn [map_res] in H; [discriminate H|].
  destruct (png_color oc) as [v|e1] eqn:E1; cbn [bind] in H.
  - destruct (map_res _ cm) as [l|e2] eqn:E2; cbn [bind] in H; [discriminate H|]. injection H as <-. apply (IH e2 eq_refl).
  - injection H as <-. apply (png_color_err_class oc e1 E1).
Qed.

(* ===== Part N: write_png succeeds for the default colours (the hypotheses of the theorems are satisfiable) ===== *)
Lemma rows_bw_ok ci matrix : bits_ok matrix -> (exists a, assocZ 0 ci = Some a) -> (exists a, assocZ 1 ci = Some a) ->
  map_res (fun row => map_res (fun b => getZ b ci) row) matrix = Ok (map (map (cif ci)) matrix).
Proof.
  intros Hb [a0 H0] [a1 H1]. induction Hb as [|row matrix Hrow Hm IH]; [reflexivity|].
  cbn [map_res map]. rewrite IH.
  assert (Hr : map_res (fun b => getZ b ci) row = Ok (map (cif ci) row)).
  { clear IH. induction Hrow as [|v row Hv Hr IHr]; [reflexivity|]. cbn [map_res map]. rewrite IHr.
    unfold getZ, cif. destruct Hv as [-> | ->]; [rewrite H0|rewrite H1]; reflexivity. }
  rewrite Hr. reflexivity.
Qed.

Definition dpi_ok (dpi : option Z) : Prop :=
  match dpi with Some d => 0 <= d /\ dpi_to_ppm d < 4294967296 | None => True end.

Theorem png_write_succeeds_default deflate matrix am size scale border dpi :
  0 < size -> bits_ok matrix -> 1 <= scale -> border_valid border -> dpi_ok dpi ->
  (size + 2 * get_border size size border) * scale < 4294967296 ->
  exists pre raw post,
    png_parts matrix am size scale border dpi png_default_opts = Ok (pre, raw, post)
    /\ (lenZ (deflate raw) < 4294967296 ->
        exists file, write_png deflate matrix am size scale border dpi png_default_opts = Ok file).
Proof.
  intros Hsize Hbits Hs Hb Hdpi HW.
  assert (Hb0 : 0 <= get_border size size border).
  { destruct border as [b|]; cbn [get_border border_valid] in *; [exact Hb|].
    unfold get_default_border_size. destruct ((17 <? size) && (size =? size)); lia. }
  set (b := get_border size size border) in *. set (W := (size + 2 * b) * scale) in *.
  assert (HW0 : 0 <= W) by (unfold W; nia).
  assert (Hplan : exists clr_map,
            png_clr_map (make_colormap size png_default_opts) = Ok clr_map
            /\ png_make_plan clr_map = Ok {| pl_grey := true; pl_depth := 1; pl_palette := [png_black; png_white];
                                             pl_clr_map := clr_map; pl_transparent := false; pl_trans_idx := None;
                                             pl_ncolors := 2 |}
            /\ any_differs clr_map clr_map = Ok false
            /\ assocZ TYPE_QUIET_ZONE clr_map = Some png_white
            /\ assocZ TYPE_FINDER_PATTERN_DARK clr_map = Some png_black).
  { unfold make_colormap. destruct (size <? 45); [destruct (size <? 21)|]; eexists; (split; [vm_compute; reflexivity|]);
      (split; [vm_compute; reflexivity|]); (split; [vm_compute; reflexivity|]); split; reflexivity. }
  destruct Hplan as (clr_map & Hcm & Hp & Hany & Hq & Hd).
  set (p := {| pl_grey := true; pl_depth := 1; pl_palette := [png_black; png_white]; pl_clr_map := clr_map;
               pl_transparent := false; pl_trans_idx := None; pl_ncolors := 2 |}) in *.
  assert (Hverb : png_use_verbose p = Ok false).
  { unfold png_use_verbose. cbn [p pl_ncolors pl_clr_map]. change (2 <? 2) with false. cbv iota. exact Hany. }
  assert (Hci : png_color_index p false = Ok [(0, 1); (1, 0); (TYPE_QUIET_ZONE, 1)]).
  { unfold png_color_index. cbn [p pl_ncolors pl_clr_map pl_palette].
    unfold getZ. rewrite Hq, Hd. reflexivity. }
  assert (Hppm : exists ppm, png_dpi dpi = Ok ppm /\ match ppm with Some d => 0 <= d < 4294967296 | None => True end).
  { unfold png_dpi. destruct dpi as [d|]; [|exists None; split; [reflexivity|exact I]]. destruct Hdpi as [Hd0 Hd1].
    destruct (d =? 0); [exists None; split; [reflexivity|exact I]|]. replace (d <? 0) with false by lia.
    exists (Some (dpi_to_ppm d)). split; [reflexivity|]. unfold dpi_to_ppm in *. split; [apply Z.div_pos; lia|exact Hd1]. }
  destruct Hppm as (ppm & Hppm & Hppm2).
  set (ci := [(0, 1); (1, 0); (TYPE_QUIET_ZONE, 1)]) in *.
  set (phys := match ppm with Some d => [(T_pHYs, be32 d ++ be32 d ++ [1])] | None => [] end).
  set (pre := (T_IHDR, be32 W ++ be32 W ++ [1; 0; 0; 0; 0]) :: phys).
  assert (Hpre : png_pre_chunks p W ppm = Ok pre).
  { unfold png_pre_chunks, pack_u32. replace ((0 <=? W) && (W <? 4294967296)) with true by lia. cbn [bind].
    unfold pre, phys. destruct ppm as [d|].
    - replace ((0 <=? d) && (d <? 4294967296)) with true by lia. cbn [bind]. cbn [p pl_grey pl_depth png_colour_chunks pl_trans_idx].
      reflexivity.
    - cbn [bind]. reflexivity. }
  set (rows := map (map (cif ci)) matrix).
  set (qz := if 0 <? b then 1 else 0).
  assert (Hlay : png_layout_of matrix am size scale border dpi (make_colormap size png_default_opts)
                 = Ok {| pn_pre := pre; pn_raw := png_idat 1 W scale b qz rows |}).
  { unfold png_layout_of. rewrite check_valid_scale_spec. replace (scale <? 1) with false by lia. cbn [bind].
    rewrite (check_border_ok border Hb). cbn [bind]. cbv zeta. fold b. fold W. rewrite Hppm. cbn [bind].
    rewrite Hcm. cbn [bind]. rewrite Hp. cbn [bind]. rewrite Hverb. cbn [bind]. rewrite Hci. cbn [bind].
    assert (Hqz : (if 0 <? b then getZ TYPE_QUIET_ZONE ci else Ok 0) = Ok qz) by (unfold qz; destruct (0 <? b); reflexivity).
    rewrite Hqz. cbn [bind]. unfold png_index_rows.
    rewrite (rows_bw_ok ci matrix Hbits) by (eexists; reflexivity). cbn [bind]. fold p. rewrite Hpre. reflexivity. }
  assert (Hbytes : exists prebytes, map_res chunk_bytes pre = Ok prebytes).
  { unfold pre, phys. cbn [map_res]. unfold chunk_bytes at 1. cbn [fst snd]. rewrite chunk_ok by (unfold lenZ; cbn; lia). cbn [bind].
    destruct ppm as [d|]; cbn [map_res].
    - unfold chunk_bytes. cbn [fst snd]. rewrite chunk_ok by (unfold lenZ; cbn; lia). cbn [bind]. eexists; reflexivity.
    - eexists; reflexivity. }
  destruct Hbytes as [prebytes Hbytes].
  exists prebytes, (png_idat 1 W scale b qz rows), (chunk_ser (T_IEND, [])).
  assert (Hiend : chunk T_IEND [] = Ok (chunk_ser (T_IEND, []))) by (apply chunk_ok; unfold lenZ; cbn; lia).
  split.
  - unfold png_parts, png_parts_cm. rewrite Hlay. cbn [bind pn_pre pn_raw]. rewrite Hbytes. cbn [bind]. rewrite Hiend. reflexivity.
  - intros Hz. eexists. unfold write_png, write_png_cm. rewrite Hlay. cbn [bind pn_pre pn_raw]. rewrite Hbytes. cbn [bind].
    rewrite (chunk_ok T_IDAT _ Hz). cbn [bind]. rewrite Hiend. reflexivity.
Qed.

(* ===== Part O: examples (all values on the right-hand sides were produced by Python: zlib.crc32, segno) ===== *)
Example crc32_empty : crc32 [] = 0. Proof. vm_compute. reflexivity. Qed.
Example crc32_IEND : crc32 [73; 69; 78; 68] = 2923585666. Proof. vm_compute. reflexivity. Qed.
Example crc32_check : crc32 [49; 50; 51; 52; 53; 54; 55; 56; 57] = 3421780262. Proof. vm_compute. reflexivity. Qed.
Example crc32_300_bytes : crc32 (map (fun i => (i * 7 + 3) mod 256) (zrange 0 300)) = 3725481934.
Proof. vm_compute. reflexivity. Qed.
Example crc_ref_300_bytes : crc_ref (map (fun i => (i * 7 + 3) mod 256) (zrange 0 300)) = 3725481934.
Proof. vm_compute. reflexivity. Qed.

(* int(dpi // 0.0254) *)
Example dpi_values : map dpi_to_ppm [72; 96; 150; 300; 600; 127; 254; 1; 109092169] = [2834; 3779; 5905; 11811; 23622; 5000; 10000; 39; 4294967283].
Proof. vm_compute. reflexivity. Qed.

Definition ex_matrix : list (list Z) := [[1; 0]; [0; 1]].
Definition ex_id (l : list Z) : list Z := l.
Definition ex_some (l : list Z) : option (list Z) := Some l.
Definition s_ (l : list Z) : ocolor := Some (CStr l).

(* write_png(m, (2, 2), out, scale=1, border=1): IHDR, raw IDAT and IEND as written by segno *)
Example ex_parts_bw :
  png_parts ex_matrix [] 2 1 (Some 1) None png_default_opts
  = Ok ([[0; 0; 0; 13; 73; 72; 68; 82; 0; 0; 0; 4; 0; 0; 0; 4; 1; 0; 0; 0; 0; 129; 138; 163; 211]],
        [0; 240; 0; 176; 0; 208; 0; 240],
        [0; 0; 0; 0; 73; 69; 78; 68; 174; 66; 96; 130]).
Proof. vm_compute. reflexivity. Qed.

(* scale=2, border=1, dark='darkblue', light=None, dpi=300: palette + tRNS + pHYs, "Up" rows *)
Example ex_parts_blue_transparent :
  png_parts ex_matrix [] 2 2 (Some 1) (Some 300)
            (png_opts_dark_light (s_ [100; 97; 114; 107; 98; 108; 117; 101]) None)
  = Ok ([[0; 0; 0; 13; 73; 72; 68; 82; 0; 0; 0; 8; 0; 0; 0; 8; 1; 3; 0; 0; 0; 254; 193; 44; 200];
         [0; 0; 0; 9; 112; 72; 89; 115; 0; 0; 46; 35; 0; 0; 46; 35; 1; 120; 165; 63; 118];
         [0; 0; 0; 6; 80; 76; 84; 69; 240; 248; 255; 0; 0; 139; 108; 222; 231; 19];
         [0; 0; 0; 1; 116; 82; 78; 83; 0; 64; 230; 216; 102]],
        [0; 0; 0; 0; 0; 48; 2; 0; 0; 12; 2; 0; 0; 0; 0; 0],
        [0; 0; 0; 0; 73; 69; 78; 68; 174; 66; 96; 130]).
Proof. vm_compute. reflexivity. Qed.

(* ----- error behaviour on concrete inputs (exception classes observed with Python in comments) ----- *)
Definition ex_write (scale : Z) (border dpi : option Z) (o : color_opts) : res (list Z) :=
  write_png ex_id ex_matrix [] 2 scale border dpi o.
Definition is_err {A} (r : res A) (e : exn) : bool := match r with Err e' => exn_eqb e e' | Ok _ => false end.

Example err_scale_0 : is_err (ex_write 0 None None png_default_opts) ValueError = true.          (* ValueError *)
Proof. vm_compute. reflexivity. Qed.
Example err_border_neg : is_err (ex_write 1 (Some (-1)) None png_default_opts) ValueError = true. (* ValueError *)
Proof. vm_compute. reflexivity. Qed.
Example err_dpi_neg : is_err (ex_write 1 None (Some (-1)) png_default_opts) ValueError = true.     (* ValueError *)
Proof. vm_compute. reflexivity. Qed.
(* dark='xyz' *)
Example err_colour : is_err (ex_write 1 None None (png_opts_dark_light (s_ [120; 121; 122]) (s_ [35; 102; 102; 102]))) ValueError = true.
Proof. vm_compute. reflexivity. Qed.
(* dark='' (ValueError since the fix of _hex_to_rgb_or_rgba; IndexError before) *)
Example err_colour_empty : is_err (ex_write 1 None None (png_opts_dark_light (s_ []) (s_ [35; 102; 102; 102]))) ValueError = true.
Proof. vm_compute. reflexivity. Qed.
(* dark=None, light=None (IndexError before the fix): a fully transparent image, one palette entry *)
Example all_transparent_parts :
  png_parts ex_matrix [] 2 1 (Some 1) None (png_opts_dark_light None None)
  = Ok ([[0; 0; 0; 13; 73; 72; 68; 82; 0; 0; 0; 4; 0; 0; 0; 4; 1; 3; 0; 0; 0; 147; 63; 12; 61];
         [0; 0; 0; 3; 80; 76; 84; 69; 240; 248; 255; 227; 217; 202; 50];
         [0; 0; 0; 1; 116; 82; 78; 83; 0; 64; 230; 216; 102]],
        [0; 0; 0; 0; 0; 0; 0; 0],
        [0; 0; 0; 0; 73; 69; 78; 68; 174; 66; 96; 130]).
Proof. vm_compute. reflexivity. Qed.
Example all_transparent_read :
  match ex_write 1 (Some 1) None (png_opts_dark_light None None) with Ok f => read_png ex_some f | Err _ => None end
  = Some (4, 4, repeat (repeat (240, 248, 255, 0) 4) 4).
Proof. vm_compute. reflexivity. Qed.
(* dark=(0, 0, 0, 1), light=None, border=0: an integer alpha of 1 is a (nearly transparent) RGBA colour *)
Example alpha_one_parts :
  png_parts ex_matrix [] 2 1 (Some 0) None (png_opts_dark_light (Some (CTuple [0; 0; 0; 1])) None)
  = Ok ([[0; 0; 0; 13; 73; 72; 68; 82; 0; 0; 0; 2; 0; 0; 0; 2; 1; 3; 0; 0; 0; 72; 120; 159; 103];
         [0; 0; 0; 6; 80; 76; 84; 69; 240; 248; 255; 0; 0; 0; 22; 180; 189; 187];
         [0; 0; 0; 2; 116; 82; 78; 83; 0; 1; 1; 148; 253; 174]],
        [0; 128; 0; 64],
        [0; 0; 0; 0; 73; 69; 78; 68; 174; 66; 96; 130]).
Proof. vm_compute. reflexivity. Qed.
(* dpi=110000000: struct.error ('L' format requires 0 <= number <= 4294967295) -> TypeErr in the model *)
Example err_dpi_huge : is_err (ex_write 1 None (Some 110000000) png_default_opts) TypeErr = true.
Proof. vm_compute. reflexivity. Qed.
Example dpi_largest_ok : is_err (ex_write 1 None (Some 109092169) png_default_opts) TypeErr = false
                         /\ is_err (ex_write 1 None (Some 109092170) png_default_opts) TypeErr = true.
Proof. vm_compute. split; reflexivity. Qed.
(* hexadecimal colours with characters other than 0-9a-fA-F are refused (ValueError) since the fix:
   '#-1-1-1' (struct.error before), '#-f-f-f-f' with light=None, '#-1-1-1-1' (was taken for "transparent") *)
Example err_negative_hex : is_err (ex_write 1 None None (png_opts_dark_light (s_ [35; 45; 49; 45; 49; 45; 49]) (s_ [35; 102; 102; 102]))) ValueError = true.
Proof. vm_compute. reflexivity. Qed.
Example err_negative_hex_rgba : is_err (ex_write 1 None None (png_opts_dark_light (s_ [35; 45; 102; 45; 102; 45; 102; 45; 102]) None)) ValueError = true.
Proof. vm_compute. reflexivity. Qed.
Example err_negative_hex_placeholder : is_err (ex_write 1 None None (png_opts_dark_light (s_ [35; 45; 49; 45; 49; 45; 49; 45; 49]) (s_ [35; 102; 102; 102]))) ValueError = true.
Proof. vm_compute. reflexivity. Qed.
(* a matrix cell that is neither 0 nor 1: KeyError: 2 *)
Example err_cell : is_err (write_png ex_id [[1; 2]; [0; 1]] [] 2 1 None None png_default_opts) KeyErr = true.
Proof. vm_compute. reflexivity. Qed.

(* dark and light the same colour: a valid one-colour indexed image (palette of one entry, every pixel index 0) *)
Example one_colour :
  match ex_write 1 (Some 0) None (png_opts_dark_light (s_ [35; 48; 48; 48]) (s_ [98; 108; 97; 99; 107])) with
  | Ok f => read_png ex_some f
  | Err _ => None end
  = Some (2, 2, [[(0, 0, 0, 255); (0, 0, 0, 255)]; [(0, 0, 0, 255); (0, 0, 0, 255)]]).
Proof. vm_compute. reflexivity. Qed.

(* quiet_zone='black' with the default dark / light (two colours, but not a plain dark/light map): the verbose
   iterator is used since the fix; M2 symbol of segno.make('A', micro=True), scale=1, border=1 *)
Definition opts_qz_black : color_opts :=
  {| o_dark := s_ [35; 48; 48; 48]; o_light := s_ [35; 102; 102; 102];
     o_finder_dark := None; o_finder_light := None; o_data_dark := None; o_data_light := None;
     o_version_dark := None; o_version_light := None; o_format_dark := None; o_format_light := None;
     o_alignment_dark := None; o_alignment_light := None; o_timing_dark := None; o_timing_light := None;
     o_separator := None; o_dark_module := None; o_quiet_zone := Some (s_ [98; 108; 97; 99; 107]) |}.
Definition ex_m2 : list (list Z) := [[1; 1; 1; 1; 1; 1; 1; 0; 1; 0; 1; 0; 1];
 [1; 0; 0; 0; 0; 0; 1; 0; 1; 0; 0; 0; 1];
 [1; 0; 1; 1; 1; 0; 1; 0; 0; 0; 1; 1; 0];
 [1; 0; 1; 1; 1; 0; 1; 0; 1; 0; 1; 0; 0];
 [1; 0; 1; 1; 1; 0; 1; 0; 1; 0; 0; 0; 0];
 [1; 0; 0; 0; 0; 0; 1; 0; 1; 0; 0; 1; 1];
 [1; 1; 1; 1; 1; 1; 1; 0; 1; 0; 0; 1; 1];
 [0; 0; 0; 0; 0; 0; 0; 0; 1; 1; 0; 0; 1];
 [1; 1; 1; 0; 1; 1; 0; 1; 1; 1; 0; 0; 0];
 [0; 0; 0; 0; 0; 1; 1; 1; 0; 0; 1; 0; 0];
 [1; 1; 1; 1; 0; 1; 1; 1; 0; 1; 0; 1; 1];
 [0; 0; 0; 1; 1; 0; 0; 1; 0; 0; 0; 0; 1];
 [1; 0; 1; 1; 0; 0; 1; 1; 1; 1; 1; 1; 0]].
Definition ex_am2 : list (list Z) := repeat (repeat 2 13) 13.
Example quiet_zone_black_parts :
  png_parts ex_m2 ex_am2 13 1 (Some 1) None opts_qz_black
  = Ok ([[0; 0; 0; 13; 73; 72; 68; 82; 0; 0; 0; 15; 0; 0; 0; 15; 1; 0; 0; 0; 0; 19; 173; 168; 231]],
        [0; 0; 0; 0; 0; 168; 0; 62; 184; 0; 34; 228; 0; 34; 172; 0; 34; 188; 0; 62; 176; 0; 0; 176; 0; 127; 152; 0; 9; 28;
         0; 124; 108; 0; 4; 80; 0; 115; 120; 0; 38; 4; 0; 0; 0],
        [0; 0; 0; 0; 73; 69; 78; 68; 174; 66; 96; 130]).
Proof. vm_compute. reflexivity. Qed.
(* ... and the symbol is still there: black frame, modules as in the matrix *)
Example quiet_zone_black_read :
  match write_png ex_id ex_m2 ex_am2 13 1 (Some 1) None opts_qz_black with
  | Ok f => read_png ex_some f
  | Err _ => None end
  = Some (15, 15, map (map (fun v => if v =? 1 then (0, 0, 0, 255) else (255, 255, 255, 255)))
                      (repeat (repeat 1 15) 1 ++ map (fun r => 1 :: r ++ [1]) ex_m2 ++ repeat (repeat 1 15) 1)).
Proof. vm_compute. reflexivity. Qed.

(* the hypotheses of the round-trip theorems are satisfiable *)
Example roundtrip_instance :
  exists img, read_png ex_some (match ex_write 2 (Some 1) (Some 300) (png_opts_dark_light (s_ [100; 97; 114; 107; 98; 108; 117; 101]) None)
                               with Ok f => f | Err _ => [] end) = Some (8, 8, img)
  /\ map (map norm_px) img
     = map (map (fun v => colour_px (if v =? 1 then [0; 0; 139] else png_transparent))) (pixel_grid ex_matrix 2 2 1).
Proof.
  destruct (png_roundtrip_two_colours ex_id ex_some (fun l => eq_refl) ex_matrix [] 2 2 (Some 1) (Some 300)
              (s_ [100; 97; 114; 107; 98; 108; 117; 101]) None [0; 0; 139] png_transparent
              (match ex_write 2 (Some 1) (Some 300) (png_opts_dark_light (s_ [100; 97; 114; 107; 98; 108; 117; 101]) None)
               with Ok f => f | Err _ => [] end)) as [img H].
  - vm_compute. reflexivity.
  - lia.
  - split; [reflexivity|]. repeat constructor.
  - unfold bits_ok, ex_matrix. repeat (apply Forall_cons || apply Forall_nil); lia.
  - vm_compute. discriminate.
  - intros pre raw post H. vm_compute in H. injection H as _ <- _. vm_compute. discriminate.
  - vm_compute. reflexivity.
  - reflexivity.
  - exists img. exact H.
Qed.

(* base64.b64encode (used by as_png_data_uri): lengths 0, 1, 2, 3, 58, 59, 60 cover every padding case *)
Definition ex_bytes (n : Z) : list Z := map (fun i => (i * 37 + 11) mod 256) (zrange 0 n).
Example b64_0 : b64encode (ex_bytes 0) = [].
Proof. vm_compute. reflexivity. Qed.
Example b64_1 : b64encode (ex_bytes 1) = [67; 119; 61; 61].
Proof. vm_compute. reflexivity. Qed.
Example b64_2 : b64encode (ex_bytes 2) = [67; 122; 65; 61].
Proof. vm_compute. reflexivity. Qed.
Example b64_3 : b64encode (ex_bytes 3) = [67; 122; 66; 86].
Proof. vm_compute. reflexivity. Qed.
Example b64_58 : b64encode (ex_bytes 58) = [67; 122; 66; 86; 101; 112; 47; 69; 54; 81; 52; 122; 87; 72; 50; 105; 120; 43; 119; 82; 78; 108; 117; 65; 112; 99; 114; 118; 70; 68; 108; 101; 103; 54; 106; 78; 56; 104; 99; 56; 89; 89; 97; 114; 48; 80; 85; 97; 80; 50; 83; 74; 114; 116; 80; 52; 72; 85; 74; 110; 106; 76; 72; 87; 43; 121; 66; 70; 97; 111; 43; 48; 50; 102; 52; 106; 83; 65; 61; 61].
Proof. vm_compute. reflexivity. Qed.
Example b64_59 : b64encode (ex_bytes 59) = [67; 122; 66; 86; 101; 112; 47; 69; 54; 81; 52; 122; 87; 72; 50; 105; 120; 43; 119; 82; 78; 108; 117; 65; 112; 99; 114; 118; 70; 68; 108; 101; 103; 54; 106; 78; 56; 104; 99; 56; 89; 89; 97; 114; 48; 80; 85; 97; 80; 50; 83; 74; 114; 116; 80; 52; 72; 85; 74; 110; 106; 76; 72; 87; 43; 121; 66; 70; 97; 111; 43; 48; 50; 102; 52; 106; 83; 71; 48; 61].
Proof. vm_compute. reflexivity. Qed.
Example b64_60 : b64encode (ex_bytes 60) = [67; 122; 66; 86; 101; 112; 47; 69; 54; 81; 52; 122; 87; 72; 50; 105; 120; 43; 119; 82; 78; 108; 117; 65; 112; 99; 114; 118; 70; 68; 108; 101; 103; 54; 106; 78; 56; 104; 99; 56; 89; 89; 97; 114; 48; 80; 85; 97; 80; 50; 83; 74; 114; 116; 80; 52; 72; 85; 74; 110; 106; 76; 72; 87; 43; 121; 66; 70; 97; 111; 43; 48; 50; 102; 52; 106; 83; 71; 50; 83].
Proof. vm_compute. reflexivity. Qed.
(* as_png_data_uri = 'data:image/png;base64,' + base64 of the very same file *)
Example data_uri_is_file :
  as_png_data_uri ex_id ex_matrix [] 2 1 (Some 1) None png_default_opts
  = match write_png ex_id ex_matrix [] 2 1 (Some 1) None png_default_opts with
    | Ok f => Ok (data_uri_prefix ++ b64encode f) | Err e => Err e end.
Proof. reflexivity. Qed.

(* the hypotheses of the main theorem hold for this symbol: dark module types = modules with value 1 *)
Lemma ex_m2_agree_b :
  forallb (fun i => forallb (fun j => Bool.eqb (is_dark_type (module_type ex_m2 ex_am2 13 i j)) (mcell ex_m2 i j =? 1))
                            (zrange 0 13)) (zrange 0 13) = true.
Proof. vm_compute. reflexivity. Qed.
Lemma ex_m2_agree : dark_types_agree ex_m2 ex_am2 13.
Proof.
  intros i j Hi Hj. pose proof ex_m2_agree_b as F. rewrite forallb_forall in F.
  specialize (F i (zrange_In 0 13 i Hi)). rewrite forallb_forall in F. specialize (F j (zrange_In 0 13 j Hj)).
  apply Bool.eqb_prop in F. exact F.
Qed.
Example roundtrip_opts_instance :
  exists img,
    read_png ex_some (match write_png ex_id ex_m2 ex_am2 13 2 None None opts_qz_black with Ok f => f | Err _ => [] end)
    = Some (34, 34, img)
    /\ map (map norm_px) img
       = map (map (fun t => ocolor_px (configured (make_colormap 13 opts_qz_black) t)))
             (iter_verbose_rows ex_m2 ex_am2 13 13 2 2).
Proof.
  apply (png_roundtrip_opts ex_id ex_some (fun l => eq_refl) ex_m2 ex_am2 13 2 None None opts_qz_black).
  - vm_compute. reflexivity.
  - lia.
  - left. lia.
  - split; [reflexivity|]. unfold ex_m2. repeat (apply Forall_cons || apply Forall_nil); reflexivity.
  - unfold bits_ok, ex_m2. repeat (apply Forall_cons || apply Forall_nil); lia.
  - exact ex_m2_agree.
  - vm_compute. discriminate.
  - intros pre raw post H. vm_compute in H. injection H as _ <- _. vm_compute. discriminate.
Qed.


(* ===== assumptions ===== *)
Print Assumptions crc32_matches_spec.
Print Assumptions row_samples_pack.
Print Assumptions chunk_wellformed.
Print Assumptions png_wellformed.
Print Assumptions png_read_core.
Print Assumptions png_roundtrip_cheap.
Print Assumptions png_roundtrip.
Print Assumptions png_roundtrip_opts.
Print Assumptions png_roundtrip_two_colours.
Print Assumptions make_colormap_configured.
Print Assumptions png_err_scale.
Print Assumptions png_err_border.
Print Assumptions png_err_dpi.
Print Assumptions png_err_colour.
Print Assumptions png_color_err_class.
Print Assumptions png_clr_map_err_class.
Print Assumptions png_write_succeeds_default.
