(* Where the models still lower with the ASCII mapping only (Model/Color.v [lower]: file extension / `kind` in
   Model/Route.v, `encoding` of the EPC helper in Model/Helpers.v), Python's str.lower() (Base/PyCase.v [py_lower]) gives
   the same answers: the lowered string is only compared with names that are ASCII and contain no 'k' -- and 'k' (from
   the Kelvin sign U+212A) is the only ASCII-only image of a non-ASCII code point under lower().  DESIGN.md 11.14.1. *)
From Coq Require Import ZArith List Bool Lia.
From Segno Require Import Base.PyLite Base.PyCase Ref.IsoData Model.Color Model.Helpers.
Import ListNotations.
Open Scope Z_scope.

Lemma lower_is_ascii_lower s : lower s = ascii_lower s.
Proof. reflexivity. Qed.

Lemma case_str_eqb_eq (a : list Z) : forall b, str_eqb a b = true <-> a = b.
Proof.
  induction a as [|x a IH]; intros [|y b]; cbn [str_eqb]; split; intros H; try reflexivity; try discriminate H.
  - apply andb_prop in H. destruct H as [H1 H2]. apply Z.eqb_eq in H1. apply IH in H2. congruence.
  - injection H as -> ->. rewrite Z.eqb_refl. cbn [andb]. apply IH. reflexivity.
Qed.

(* one comparison *)
Theorem str_eqb_lower_agree s n : k_free_ascii n = true -> str_eqb (py_lower s) n = str_eqb (lower s) n.
Proof.
  intros Hn. apply eq_true_iff_eq. rewrite !case_str_eqb_eq, lower_is_ascii_lower. apply py_lower_is_ascii_lower. exact Hn.
Qed.
(* membership in / position in a table of such names *)
Theorem existsb_lower_agree s tbl :
  forallb k_free_ascii tbl = true -> existsb (str_eqb (py_lower s)) tbl = existsb (str_eqb (lower s)) tbl.
Proof.
  induction tbl as [|n r IH]; [reflexivity|]. cbn [forallb existsb]. intros H. apply andb_prop in H. destruct H as [Hn Hr].
  rewrite (str_eqb_lower_agree s n Hn), (IH Hr). reflexivity.
Qed.
Theorem index_of_lower_agree s tbl :
  forallb k_free_ascii tbl = true -> forall i, index_of (py_lower s) tbl i = index_of (lower s) tbl i.
Proof.
  induction tbl as [|n r IH]; [reflexivity|]. cbn [forallb index_of]. intros H i. apply andb_prop in H. destruct H as [Hn Hr].
  rewrite (str_eqb_lower_agree s n Hn), (IH Hr). reflexivity.
Qed.

(* the tables: serializer keys (and the alias "svgz"), EPC encodings *)
Lemma serializers_k_free : forallb k_free_ascii ([115; 118; 103; 122] :: VALID_SERIALIZERS) = true.
Proof. vm_compute. reflexivity. Qed.
Lemma epc_encodings_k_free : forallb k_free_ascii EPC_ENCODINGS = true.
Proof. vm_compute. reflexivity. Qed.

(* _make_epc_qr_data: `encodings.index(encoding.lower())` with Python's lower() *)
Theorem epc_requested_py_lower s :
  epc_requested (EncName s) = match index_of (py_lower s) EPC_ENCODINGS 1 with Some i => Ok (Some i) | None => Err ValueError end.
Proof. unfold epc_requested. rewrite (index_of_lower_agree s _ epc_encodings_k_free). reflexivity. Qed.
(* writers.save: `ext == 'svgz'` and `ext in _VALID_SERIALIZERS` with Python's lower() *)
Theorem serializer_tests_py_lower s :
  str_eqb (py_lower s) [115; 118; 103; 122] = str_eqb (lower s) [115; 118; 103; 122] /\
  existsb (str_eqb (py_lower s)) VALID_SERIALIZERS = existsb (str_eqb (lower s)) VALID_SERIALIZERS /\
  (existsb (str_eqb (lower s)) VALID_SERIALIZERS = true -> py_lower s = lower s).
Proof.
  pose proof serializers_k_free as H. cbn [forallb] in H. apply andb_prop in H. destruct H as [Hz Hv].
  split; [exact (str_eqb_lower_agree s _ Hz)|]. split; [exact (existsb_lower_agree s _ Hv)|].
  intros He. apply existsb_exists in He. destruct He as (n & Hn & E). apply case_str_eqb_eq in E.
  rewrite E. apply py_lower_is_ascii_lower; [exact (proj1 (forallb_forall _ _) Hv n Hn)|]. rewrite <- lower_is_ascii_lower. exact E.
Qed.
Print Assumptions epc_requested_py_lower.
Print Assumptions serializer_tests_py_lower.
