(* Property C10: the EPS, PDF and LaTeX (PGF) serializers draw exactly the dark modules.

   Model   : theories/Model/Vector.v      (write_eps, write_pdf / pdf_content, write_tex)
   Readers : theories/Ref/VectorReader.v  (eps_read, pdf_read_content, pdf_read_file, pgf_read, stroke_cells)

   Main results (all for integer scales `PInt s`, s >= 1, border None or >= 0; section 14 and 15):
     pdf_dark_cells, pdf_page, pdf_length_ok, pdf_xref_ok, write_pdf_errors, write_pdf_ValueError_iff
     eps_dark_cells (contains eps_page), write_eps_errors, write_eps_ValueError_iff
     tex_dark_cells, write_tex_errors, write_tex_ValueError_iff
     dark_cells_spec, dark_cells_NoDup, dark_cells_on_page   (what the covered cells are)
   They build on IterLemmas.matrix_to_lines_artefact / lines_rows_runs (run-length form of matrix_to_lines).

   zlib is not modelled: [deflate] is arbitrary; pdf_length_ok / pdf_xref_ok hold for ANY stream bytes.
   PDF colour operands other than "0.0" / "1.0" are printed by the parameter [color_text]; the theorems
   assume only that every such text is one numeric token ([color_text_ok]). *)
From Coq Require Import String Ascii.
From Coq Require Import ZArith List Bool Lia ZifyBool QArith Qround Qreduction Qcanon.
From Segno Require Import Base.PyLite Base.PyCase Model.Iter Model.Color Model.Vector Ref.Pixel Ref.VectorReader.
From Segno Require Import Lemmas.IterLemmas.
Import ListNotations.
Open Scope Z_scope.
Ltac Zify.zify_post_hook ::= Z.to_euclidean_division_equations.

(* ------------------------------------------------------------------ *)
(** * 1. Decimal printing / parsing *)

Lemma lit_str_of s : lit s = str_of s.
Proof. reflexivity. Qed.

Lemma digits_val_app a c : digits_val (a ++ [c]) = 10 * digits_val a + (c - 48).
Proof. unfold digits_val. rewrite fold_left_app. reflexivity. Qed.

Lemma all_digits_app a b : all_digits (a ++ b) = all_digits a && all_digits b.
Proof. apply forallb_app. Qed.

Lemma dec_fuel_digits f : forall n, 0 <= n -> all_digits (dec_fuel f n) = true.
Proof.
  induction f as [|f IH]; intros n Hn; cbn [dec_fuel]; [reflexivity|].
  rewrite all_digits_app. apply andb_true_intro. split.
  - destruct (n <? 10); [reflexivity|]. apply IH. lia.
  - unfold all_digits. cbn [forallb]. unfold is_digit. lia.
Qed.

Lemma dec_fuel_val f : forall n, 0 <= n < 2 ^ Z.of_nat f -> digits_val (dec_fuel f n) = n.
Proof.
  induction f as [|f IH]; intros n Hn.
  - cbn in *. lia.
  - cbn [dec_fuel]. rewrite digits_val_app.
    rewrite Nat2Z.inj_succ, Z.pow_succ_r in Hn by lia.
    destruct (n <? 10) eqn:E.
    + unfold digits_val. cbn [fold_left]. lia.
    + rewrite IH by lia. lia.
Qed.

Lemma dec_fuel_nonempty f n : dec_fuel (S f) n <> [].
Proof. cbn [dec_fuel]. destruct (n <? 10); intro H; apply app_eq_nil in H; destruct H; discriminate. Qed.

Lemma log2_fuel n : 0 <= n -> 0 <= n < 2 ^ Z.of_nat (S (Z.to_nat (Z.log2 n))).
Proof.
  intros Hn. rewrite Nat2Z.inj_succ, Z2Nat.id by apply Z.log2_nonneg.
  destruct (Z.eq_dec n 0) as [->|Hz]; [cbn; lia|].
  pose proof (Z.log2_spec n ltac:(lia)). lia.
Qed.

Lemma dec_nat_digits n : 0 <= n -> all_digits (dec_nat n) = true.
Proof. intros; apply dec_fuel_digits; assumption. Qed.
Lemma dec_nat_val n : 0 <= n -> digits_val (dec_nat n) = n.
Proof. intros; apply dec_fuel_val, log2_fuel; assumption. Qed.
Lemma dec_nat_nonempty n : nonempty (dec_nat n) = true.
Proof. unfold dec_nat. pose proof (dec_fuel_nonempty (Z.to_nat (Z.log2 n)) n). destruct (dec_fuel _ n); [congruence|reflexivity]. Qed.

(* number of digits *)
Lemma dec_fuel_length f : forall n k, 0 <= n < 10 ^ Z.of_nat k -> (1 <= k)%nat -> (List.length (dec_fuel f n) <= k)%nat.
Proof.
  induction f as [|f IH]; intros n k Hn Hk; cbn [dec_fuel]; [cbn; lia|].
  rewrite app_length. cbn [List.length].
  destruct (n <? 10) eqn:E; [cbn; lia|].
  destruct k as [|k]; [lia|]. destruct k as [|k]; [cbn in Hn; lia|].
  specialize (IH (n / 10) (S k)).
  rewrite (Nat2Z.inj_succ (S k)), Z.pow_succ_r in Hn by lia.
  assert (List.length (dec_fuel f (n / 10)) <= S k)%nat by (apply IH; lia). lia.
Qed.

Lemma span_digits_all ds : all_digits ds = true -> forall rest, (match rest with c :: _ => is_digit c = false | [] => True end) ->
  span_digits (ds ++ rest) = (ds, rest).
Proof.
  induction ds as [|c ds IH]; intros Hd rest Hr.
  - cbn [app]. destruct rest as [|c r]; [reflexivity|]. cbn [span_digits]. rewrite Hr. reflexivity.
  - cbn in Hd. apply andb_prop in Hd. destruct Hd as [Hc Hd]. cbn [app span_digits]. rewrite Hc.
    rewrite (IH Hd rest Hr). reflexivity.
Qed.
Lemma span_digits_all_nil ds : all_digits ds = true -> span_digits ds = (ds, []).
Proof. intros H. rewrite <- (app_nil_r ds) at 1. apply span_digits_all; auto. Qed.

Lemma split_sign_digits s : all_digits s = true -> split_sign s = (false, s).
Proof.
  destruct s as [|c r]; [reflexivity|]. intros H. cbn in H. apply andb_prop in H. destruct H as [Hc _].
  unfold is_digit in Hc. unfold split_sign.
  destruct (c =? 45) eqn:E1; [lia|]. destruct (c =? 43) eqn:E2; [lia|]. reflexivity.
Qed.

Lemma parse_number_digits s : all_digits s = true -> nonempty s = true ->
  parse_number s = Some (inject_Z (digits_val s)).
Proof.
  intros Hd Hn. unfold parse_number. rewrite (split_sign_digits s Hd), (span_digits_all_nil s Hd), Hn. reflexivity.
Qed.

Lemma parse_number_dec n : parse_number (dec n) = Some (inject_Z n).
Proof.
  unfold dec. destruct (n <? 0) eqn:E.
  - unfold parse_number. cbn [split_sign]. change (45 =? 45) with true. cbv iota.
    rewrite (span_digits_all_nil _ (dec_nat_digits (- n) ltac:(lia))).
    rewrite dec_nat_nonempty, dec_nat_val by lia. f_equal. f_equal. lia.
  - rewrite parse_number_digits by (try apply dec_nat_digits; try apply dec_nat_nonempty; lia).
    rewrite dec_nat_val by lia. reflexivity.
Qed.

Lemma parse_int_dec n : parse_int (dec n) = Some n.
Proof.
  unfold dec. destruct (n <? 0) eqn:E.
  - unfold parse_int. cbn [split_sign]. change (45 =? 45) with true. cbv iota.
    rewrite dec_nat_nonempty, dec_nat_digits, dec_nat_val by lia. cbn. f_equal. lia.
  - unfold parse_int. rewrite split_sign_digits by (apply dec_nat_digits; lia).
    rewrite dec_nat_nonempty, dec_nat_digits, dec_nat_val by lia. reflexivity.
Qed.

(* ------------------------------------------------------------------ *)
(** * 2. Generic list lemmas for the readers *)

Lemma skipn_app_exact {A} (a b : list A) : skipn (List.length a) (a ++ b) = b.
Proof. induction a; cbn; auto. Qed.
Lemma firstn_app_exact {A} (a b : list A) : firstn (List.length a) (a ++ b) = a.
Proof. induction a; cbn; f_equal; auto. Qed.
Lemma skipnZ_app {A} n (a b : list A) : n = lenZ a -> skipnZ n (a ++ b) = b.
Proof. intros ->. unfold skipnZ, lenZ. rewrite Nat2Z.id. apply skipn_app_exact. Qed.
Lemma firstnZ_app {A} n (a b : list A) : n = lenZ a -> firstnZ n (a ++ b) = a.
Proof. intros ->. unfold firstnZ, lenZ. rewrite Nat2Z.id. apply firstn_app_exact. Qed.
Lemma lenB_lenZ s : lenB s = lenZ s.
Proof. reflexivity. Qed.
Lemma lenZ_app {A} (a b : list A) : lenZ (a ++ b) = lenZ a + lenZ b.
Proof. unfold lenZ. rewrite app_length. lia. Qed.
Lemma lenZ_nonneg {A} (a : list A) : 0 <= lenZ a.
Proof. unfold lenZ. lia. Qed.

Lemma strip_prefix_app p : forall s t r, strip_prefix p s = Some t -> strip_prefix p (s ++ r) = Some (t ++ r).
Proof.
  induction p as [|x p IH]; intros s t r H; cbn [strip_prefix] in *.
  - inversion H. reflexivity.
  - destruct s as [|y s]; [discriminate|]. cbn [app]. destruct (x =? y); [|discriminate]. apply IH. exact H.
Qed.
Lemma strip_prefix_self p r : strip_prefix p (p ++ r) = Some r.
Proof. induction p as [|x p IH]; cbn [strip_prefix app]; [reflexivity|]. rewrite Z.eqb_refl. exact IH. Qed.
Lemma strip_prefix_len p : forall s t, strip_prefix p s = Some t -> (List.length p <= List.length s)%nat.
Proof.
  induction p as [|x p IH]; intros s t H; cbn [strip_prefix] in *; [cbn; lia|].
  destruct s as [|y s]; [discriminate|]. destruct (x =? y); [|discriminate]. apply IH in H. cbn. lia.
Qed.
Lemma strip_prefix_none_app p : forall s r, strip_prefix p s = None -> (List.length p <= List.length s)%nat ->
  strip_prefix p (s ++ r) = None.
Proof.
  induction p as [|x p IH]; intros s r H Hl; cbn [strip_prefix] in *; [discriminate|].
  destruct s as [|y s]; [cbn in Hl; lia|]. cbn [app]. destruct (x =? y); [|reflexivity].
  apply IH; [exact H|cbn in Hl; lia].
Qed.
Lemma find_after_len p : forall s t, find_after p s = Some t -> (List.length p <= List.length s)%nat.
Proof.
  induction s as [|c s IH]; intros t H; cbn [find_after] in H.
  - destruct (strip_prefix p []) eqn:E; [|discriminate]. apply strip_prefix_len in E. exact E.
  - destruct (strip_prefix p (c :: s)) eqn:E.
    + apply strip_prefix_len in E. exact E.
    + apply IH in H. cbn. lia.
Qed.
Lemma find_after_app p : forall s t r, find_after p s = Some t -> find_after p (s ++ r) = Some (t ++ r).
Proof.
  induction s as [|c s IH]; intros t r H.
  - cbn [find_after] in H. destruct (strip_prefix p []) eqn:E; [|discriminate]. inversion H; subst.
    pose proof (strip_prefix_app p [] t r E) as E'. cbn [app] in E'. cbn [app].
    destruct r as [|c r]; cbn [find_after]; rewrite E'; reflexivity.
  - cbn [find_after] in H. cbn [app find_after]. destruct (strip_prefix p (c :: s)) eqn:E.
    + inversion H; subst. change (c :: s ++ r) with ((c :: s) ++ r). rewrite (strip_prefix_app _ _ _ r E). reflexivity.
    + change (c :: s ++ r) with ((c :: s) ++ r). rewrite strip_prefix_none_app; [apply IH; exact H|exact E|].
      apply find_after_len in H. cbn. lia.
Qed.

Lemma cut_first_app sep a b : forallb (fun c => negb (c =? sep)) a = true -> cut_first sep (a ++ sep :: b) = Some (a, b).
Proof.
  induction a as [|c a IH]; intros H; cbn [app cut_first].
  - rewrite Z.eqb_refl. reflexivity.
  - cbn in H. apply andb_prop in H. destruct H as [Hc Ha]. destruct (c =? sep); [discriminate|]. rewrite IH by exact Ha. reflexivity.
Qed.

Lemma drop_while_stop f c r : f c = false -> drop_while f (c :: r) = c :: r.
Proof. intros H. cbn. rewrite H. reflexivity. Qed.

(* words *)
Definition word_ok (w : bytes) : bool := nonempty w && forallb (fun c => negb (is_ws c)) w.

Lemma split_by_nonnil f s : split_by f s <> [].
Proof. destruct s as [|c r]; cbn; [discriminate|]. destruct (f c); [discriminate|]. unfold cons_hd. destruct (split_by f r); discriminate. Qed.
Lemma cons_hd_app c a b : a <> [] -> cons_hd c (a ++ b) = cons_hd c a ++ b.
Proof. destruct a; [congruence|reflexivity]. Qed.
Lemma split_by_sep f a c b : f c = true -> split_by f (a ++ c :: b) = split_by f a ++ split_by f b.
Proof.
  intros Hc. induction a as [|x a IH]; cbn [app split_by].
  - rewrite Hc. reflexivity.
  - destruct (f x); rewrite IH; [reflexivity|]. apply cons_hd_app. apply split_by_nonnil.
Qed.
Lemma split_by_none f w : forallb (fun c => negb (f c)) w = true -> split_by f w = [w].
Proof.
  induction w as [|c w IH]; intros H; [reflexivity|]. cbn in H. apply andb_prop in H. destruct H as [Hc Hw].
  cbn [split_by]. destruct (f c); [discriminate|]. rewrite IH by exact Hw. reflexivity.
Qed.
Lemma words_sep a c b : is_ws c = true -> words (a ++ c :: b) = words a ++ words b.
Proof. intros H. unfold words. rewrite split_by_sep by exact H. apply filter_app. Qed.
Lemma words_word w : word_ok w = true -> words w = [w].
Proof.
  unfold word_ok. intros H. apply andb_prop in H. destruct H as [Hn Hw]. unfold words.
  rewrite split_by_none by exact Hw. cbn. rewrite Hn. reflexivity.
Qed.
Lemma words_join ws : forallb word_ok ws = true -> words (join sp ws) = ws.
Proof.
  induction ws as [|w r IH]; intros H; [reflexivity|].
  cbn in H. apply andb_prop in H. destruct H as [Hw Hr].
  destruct r as [|w2 r]; [cbn [join]; apply words_word; exact Hw|].
  change (join sp (w :: w2 :: r)) with (w ++ sp ++ join sp (w2 :: r)).
  unfold sp at 1. cbn [app]. rewrite words_sep by reflexivity. rewrite words_word by exact Hw.
  rewrite IH by exact Hr. reflexivity.
Qed.

Lemma digits_no_ws ds : all_digits ds = true -> forallb (fun c => negb (is_ws c)) ds = true.
Proof.
  intros H. apply forallb_forall. intros c Hc. unfold all_digits in H. rewrite forallb_forall in H.
  specialize (H c Hc). unfold is_digit in H. unfold is_ws. lia.
Qed.
Lemma word_ok_dec n : word_ok (dec n) = true.
Proof.
  unfold word_ok, dec. destruct (n <? 0) eqn:E.
  - cbn [nonempty forallb]. rewrite digits_no_ws by (apply dec_nat_digits; lia). reflexivity.
  - rewrite dec_nat_nonempty, digits_no_ws by (apply dec_nat_digits; lia). reflexivity.
Qed.

(* ------------------------------------------------------------------ *)
(** * 3. PDF file structure: /Length, xref offsets, startxref *)

Lemma dec_nat_length_le n k : 0 <= n < 10 ^ Z.of_nat k -> (1 <= k)%nat -> (List.length (dec_nat n) <= k)%nat.
Proof. intros. apply dec_fuel_length; assumption. Qed.

Lemma digits_val_zeros k s : digits_val (repeat 48 k ++ s) = digits_val s.
Proof. induction k as [|k IH]; [reflexivity|]. cbn [repeat app]. unfold digits_val in *. cbn [fold_left]. exact IH. Qed.
Lemma all_digits_zeros k : all_digits (repeat 48 k) = true.
Proof. induction k; cbn; auto. Qed.

Lemma pad0_dec p : 0 <= p < 10 ^ 10 ->
  List.length (pad0 10 (dec p)) = 10%nat /\ all_digits (pad0 10 (dec p)) = true /\ digits_val (pad0 10 (dec p)) = p.
Proof.
  intros Hp. unfold pad0, dec. destruct (p <? 0) eqn:E; [lia|].
  pose proof (dec_nat_length_le p 10 ltac:(change (Z.of_nat 10) with 10; lia) ltac:(lia)) as Hl.
  rewrite app_length, repeat_length, all_digits_app, all_digits_zeros, digits_val_zeros, dec_nat_digits, dec_nat_val by lia.
  repeat split. lia.
Qed.

Lemma list10 {A} (l : list A) : List.length l = 10%nat ->
  exists a0 a1 a2 a3 a4 a5 a6 a7 a8 a9, l = [a0;a1;a2;a3;a4;a5;a6;a7;a8;a9].
Proof.
  intros H. do 10 (destruct l as [|? l]; [discriminate|]). destruct l; [|discriminate].
  repeat eexists.
Qed.

Lemma xref_entry_model p rest : 0 <= p < 10 ^ 10 ->
  xref_entry (firstn 20 (pdf_xref_entry p ++ rest)) = Some (p, 0, true) /\
  skipn 20 (pdf_xref_entry p ++ rest) = rest.
Proof.
  intros Hp. destruct (pad0_dec p Hp) as [Hl [Hd Hv]].
  unfold pdf_xref_entry. destruct (list10 _ Hl) as (a0&a1&a2&a3&a4&a5&a6&a7&a8&a9&E).
  rewrite E in *. split.
  - cbn [app firstn]. change (lit " 00000 n" ++ crlf) with [32;48;48;48;48;48;32;110;13;10]. cbn [app firstn].
    unfold xref_entry. rewrite Hd, Hv. reflexivity.
  - change (lit " 00000 n" ++ crlf) with [32;48;48;48;48;48;32;110;13;10]. reflexivity.
Qed.

(* the seven chunks of the file *)
Definition pdf_xref_part (ps : list Z) (date : str) : bytes :=
  lit "xref" ++ crlf ++ lit "0 " ++ dec (lenZ ps + 1) ++ crlf ++ lit "0000000000 65535 f" ++ crlf
  ++ flat_map pdf_xref_entry ps
  ++ lit "trailer <</Size " ++ dec (lenZ ps + 1) ++ lit "/Root 1 0 R/Info 5 0 R>>" ++ crlf
  ++ lit "startxref" ++ crlf ++ dec (nth 5 ps 0) ++ crlf ++ lit "%%EOF" ++ crlf.

Definition pdf_obj4 (graphic : bytes) : bytes := pdf_obj4_head (lenZ graphic) ++ graphic ++ pdf_obj4_tail.

Definition pdf_offsets (w h date : str) (graphic : bytes) : list Z :=
  let p1 := lenZ pdf_header in
  let p2 := p1 + lenZ pdf_obj1 in
  let p3 := p2 + lenZ pdf_obj2 in
  let p4 := p3 + lenZ (pdf_obj3 w h) in
  let p5 := p4 + lenZ (pdf_obj4 graphic) in
  let p6 := p5 + lenZ (pdf_obj5 date) in [p1; p2; p3; p4; p5; p6].

Definition pdf_chunks (w h date : str) (graphic : bytes) : list bytes :=
  [pdf_header; pdf_obj1; pdf_obj2; pdf_obj3 w h; pdf_obj4 graphic; pdf_obj5 date;
   pdf_xref_part (pdf_offsets w h date graphic) date].

Lemma pdf_file_chunks w h date graphic : pdf_file w h date graphic = concat (pdf_chunks w h date graphic).
Proof.
  unfold pdf_file, pdf_chunks, pdf_offsets, pdf_xref_part, pdf_obj4. cbn [concat nth].
  rewrite !lenZ_app. rewrite app_nil_r. rewrite <- !app_assoc.
  replace (lenZ pdf_header + lenZ pdf_obj1 + lenZ pdf_obj2 + lenZ (pdf_obj3 w h) +
           (lenZ (pdf_obj4_head (lenZ graphic)) + (lenZ graphic + lenZ pdf_obj4_tail)))
    with (lenZ pdf_header + lenZ pdf_obj1 + lenZ pdf_obj2 + lenZ (pdf_obj3 w h) +
           lenZ (pdf_obj4_head (lenZ graphic)) + lenZ graphic + lenZ pdf_obj4_tail) by lia.
  reflexivity.
Qed.

Lemma skipn_concat_firstn (cs : list bytes) i :
  skipn (List.length (concat (firstn i cs))) (concat cs) = concat (skipn i cs).
Proof. rewrite <- (firstn_skipn i cs) at 2. rewrite concat_app. apply skipn_app_exact. Qed.

Lemma offsets_are_prefix_lengths w h date graphic k : (k < 6)%nat ->
  nth k (pdf_offsets w h date graphic) 0 = lenZ (concat (firstn (S k) (pdf_chunks w h date graphic))).
Proof.
  intros Hk. unfold pdf_offsets, pdf_chunks.
  do 6 (destruct k as [|k]; [cbn [nth firstn concat]; rewrite ?lenZ_app, ?app_nil_r; change (lenZ (@nil Z)) with 0; lia|]).
  lia.
Qed.

Lemma skip_to_chunk w h date graphic k : (k < 6)%nat ->
  skipnZ (nth k (pdf_offsets w h date graphic) 0) (pdf_file w h date graphic)
  = concat (skipn (S k) (pdf_chunks w h date graphic)).
Proof.
  intros Hk. rewrite offsets_are_prefix_lengths by exact Hk. rewrite pdf_file_chunks.
  unfold skipnZ, lenZ. rewrite Nat2Z.id. apply skipn_concat_firstn.
Qed.

Lemma forallb_rev {A} (f : A -> bool) l : forallb f (rev l) = forallb f l.
Proof.
  induction l as [|a l IH]; [reflexivity|]. cbn [rev forallb]. rewrite forallb_app, IH. cbn. rewrite andb_true_r. apply andb_comm.
Qed.
Lemma nonempty_rev (l : bytes) : nonempty (rev l) = nonempty l.
Proof. destruct l as [|a l]; [reflexivity|]. cbn [rev]. destruct (rev l); reflexivity. Qed.
Lemma drop_while_digits f ds r : (forall c, is_digit c = true -> f c = false) -> all_digits ds = true -> nonempty ds = true ->
  drop_while f (ds ++ r) = ds ++ r.
Proof.
  intros Hf Hd Hn. destruct ds as [|c ds]; [discriminate|]. cbn in Hd. apply andb_prop in Hd. destruct Hd as [Hc _].
  cbn [app]. apply drop_while_stop. apply Hf. exact Hc.
Qed.
Lemma digit_not_eol c : is_digit c = true -> is_eol c = false.
Proof. unfold is_digit, is_eol. lia. Qed.
Lemma digit_not_ws c : is_digit c = true -> is_ws c = false.
Proof. unfold is_digit, is_ws. lia. Qed.

(* the tail of the file *)
Lemma startxref_tail body p : 0 <= p ->
  pdf_startxref (body ++ lit "startxref" ++ crlf ++ dec p ++ crlf ++ lit "%%EOF" ++ crlf) = Some p.
Proof.
  intros Hp. unfold pdf_startxref. rewrite !rev_app_distr. rewrite <- !app_assoc.
  change (rev crlf) with [10; 13]. change (rev (lit "%%EOF")) with (rev (str_of "%%EOF")).
  cbn [app]. change (drop_while is_eol (10 :: 13 :: ?x)) with (drop_while is_eol x).
  set (tl := rev (dec p) ++ 10 :: 13 :: rev (lit "startxref") ++ rev body).
  assert (E1 : drop_while is_eol (rev (str_of "%%EOF") ++ 10 :: 13 :: tl) = rev (str_of "%%EOF") ++ 10 :: 13 :: tl) by reflexivity.
  rewrite E1, strip_prefix_self.
  change (drop_while is_eol (10 :: 13 :: tl)) with (drop_while is_eol tl).
  unfold dec in tl. destruct (p <? 0) eqn:E; [lia|]. subst tl.
  assert (Hd : all_digits (rev (dec_nat p)) = true) by (unfold all_digits; rewrite forallb_rev; apply dec_nat_digits; lia).
  assert (Hn : nonempty (rev (dec_nat p)) = true) by (rewrite nonempty_rev; apply dec_nat_nonempty).
  rewrite (drop_while_digits is_eol _ _ digit_not_eol Hd Hn).
  rewrite span_digits_all by (try exact Hd; reflexivity). rewrite Hn.
  change (drop_while is_eol (10 :: 13 :: ?x)) with (drop_while is_eol x).
  change (rev (lit "startxref")) with (rev (str_of "startxref")).
  assert (E2 : forall x, drop_while is_eol (rev (str_of "startxref") ++ x) = rev (str_of "startxref") ++ x) by reflexivity.
  rewrite E2, strip_prefix_self, rev_involutive, dec_nat_val by lia. reflexivity.
Qed.

Section PdfStructure.
Variables (w h date : str) (graphic : bytes).
Let file := pdf_file w h date graphic.
Let offs := pdf_offsets w h date graphic.
Hypothesis Hsize : lenZ file < 10 ^ 10.

Lemma file_len : lenZ file = nth 5 offs 0 + lenZ (pdf_xref_part offs date).
Proof.
  unfold file, offs. rewrite pdf_file_chunks. unfold pdf_chunks, pdf_offsets. cbn [concat nth].
  rewrite app_nil_r, !lenZ_app. lia.
Qed.

Lemma offs_bounds k : (k < 6)%nat -> 0 <= nth k offs 0 < 10 ^ 10 /\ nth k offs 0 < lenZ file.
Proof.
  intros Hk. pose proof file_len as HL. assert (0 < lenZ (pdf_xref_part offs date)).
  { unfold pdf_xref_part. rewrite lenZ_app. change (lenZ (lit "xref")) with 4.
    pose proof (lenZ_nonneg (crlf ++ lit "0 " ++ dec (lenZ offs + 1) ++ crlf ++ lit "0000000000 65535 f" ++ crlf
  ++ flat_map pdf_xref_entry offs
  ++ lit "trailer <</Size " ++ dec (lenZ offs + 1) ++ lit "/Root 1 0 R/Info 5 0 R>>" ++ crlf
  ++ lit "startxref" ++ crlf ++ dec (nth 5 offs 0) ++ crlf ++ lit "%%EOF" ++ crlf)). lia. }
  pose proof Hsize as Hs. set (X := lenZ (pdf_xref_part offs date)) in *. set (F := lenZ file) in *.
  unfold offs, pdf_offsets in HL |- *. cbn [nth] in HL.
  pose proof (lenZ_nonneg pdf_header). pose proof (lenZ_nonneg pdf_obj1). pose proof (lenZ_nonneg pdf_obj2).
  pose proof (lenZ_nonneg (pdf_obj3 w h)). pose proof (lenZ_nonneg (pdf_obj4 graphic)). pose proof (lenZ_nonneg (pdf_obj5 date)).
  do 6 (destruct k as [|k]; [cbn [nth]; lia|]). lia.
Qed.

Lemma xref_part_tail ps d : exists B,
  pdf_xref_part ps d = B ++ (lit "startxref" ++ crlf ++ dec (nth 5 ps 0) ++ crlf ++ lit "%%EOF" ++ crlf).
Proof.
  unfold pdf_xref_part.
  exists (lit "xref" ++ crlf ++ lit "0 " ++ dec (lenZ ps + 1) ++ crlf ++ lit "0000000000 65535 f" ++ crlf
  ++ flat_map pdf_xref_entry ps
  ++ lit "trailer <</Size " ++ dec (lenZ ps + 1) ++ lit "/Root 1 0 R/Info 5 0 R>>" ++ crlf).
  rewrite <- !app_assoc. reflexivity.
Qed.

Lemma pdf_startxref_ok : pdf_startxref file = Some (nth 5 offs 0).
Proof.
  unfold file. rewrite pdf_file_chunks. unfold pdf_chunks.
  change (concat [pdf_header; pdf_obj1; pdf_obj2; pdf_obj3 w h; pdf_obj4 graphic; pdf_obj5 date; pdf_xref_part (pdf_offsets w h date graphic) date])
    with (pdf_header ++ pdf_obj1 ++ pdf_obj2 ++ pdf_obj3 w h ++ pdf_obj4 graphic ++ pdf_obj5 date ++ pdf_xref_part offs date ++ []).
  rewrite app_nil_r. destruct (xref_part_tail offs date) as [B ->].
  set (T := lit "startxref" ++ _). rewrite !app_assoc. subst T.
  apply startxref_tail.
  apply (offs_bounds 5). lia.
Qed.
End PdfStructure.

Lemma dec_nonneg n : 0 <= n -> dec n = dec_nat n.
Proof. intros H. unfold dec. destruct (n <? 0) eqn:E; [lia|reflexivity]. Qed.

Lemma xref_head R :
  pdf_xref_at (lit "xref" ++ crlf ++ lit "0 " ++ dec 7 ++ crlf ++ lit "0000000000 65535 f" ++ crlf ++ R)
  = match xref_entries 6 R with Some (es, r) => Some ((0, 65535, false) :: es, r) | None => None end.
Proof. reflexivity. Qed.

Lemma xref_entries_model ps T : Forall (fun p => 0 <= p < 10 ^ 10) ps ->
  xref_entries (List.length ps) (flat_map pdf_xref_entry ps ++ T) = Some (map (fun p => (p, 0, true)) ps, T).
Proof.
  induction 1 as [|p ps Hp _ IH]; [reflexivity|].
  cbn [List.length flat_map map xref_entries]. rewrite <- app_assoc.
  destruct (xref_entry_model p (flat_map pdf_xref_entry ps ++ T) Hp) as [E1 E2].
  rewrite E1, E2, IH. reflexivity.
Qed.

Section PdfStructure2.
Variables (w h date : str) (graphic : bytes).
Let file := pdf_file w h date graphic.
Let offs := pdf_offsets w h date graphic.
Hypothesis Hsize : lenZ file < 10 ^ 10.

Definition pdf_trailer_text (p6 : Z) : bytes :=
  lit "trailer <</Size " ++ dec 7 ++ lit "/Root 1 0 R/Info 5 0 R>>" ++ crlf
  ++ lit "startxref" ++ crlf ++ dec p6 ++ crlf ++ lit "%%EOF" ++ crlf.

Lemma offs_Forall : Forall (fun p => 0 <= p < 10 ^ 10) offs.
Proof.
  pose proof (offs_bounds w h date graphic Hsize) as Hb. fold offs in Hb.
  assert (forall k, (k < 6)%nat -> 0 <= nth k offs 0 < 10 ^ 10) as Hk by (intros k Hk; apply Hb; exact Hk).
  unfold offs, pdf_offsets in *.
  repeat apply Forall_cons; try apply Forall_nil.
  - apply (Hk 0%nat); lia.
  - apply (Hk 1%nat); lia.
  - apply (Hk 2%nat); lia.
  - apply (Hk 3%nat); lia.
  - apply (Hk 4%nat); lia.
  - apply (Hk 5%nat); lia.
Qed.

Lemma pdf_xref_model :
  pdf_xref file (nth 5 offs 0)
  = Some ((0, 65535, false) :: map (fun p => (p, 0, true)) offs, pdf_trailer_text (nth 5 offs 0)).
Proof.
  unfold pdf_xref, file, offs. rewrite skip_to_chunk by lia. fold offs.
  unfold pdf_chunks. cbn [skipn concat]. rewrite app_nil_r. fold offs. unfold pdf_xref_part.
  change (lenZ offs + 1) with 7.
  rewrite xref_head.
  change 6%nat with (List.length offs).
  rewrite xref_entries_model by apply offs_Forall. reflexivity.
Qed.
End PdfStructure2.

(* bodies of the objects = text after "k 0 obj" *)
Definition body1 : bytes := lit " <</Type /Catalog /Pages 2 0 R>>" ++ crlf ++ lit "endobj" ++ crlf.
Definition body2 : bytes := lit " <</Type /Pages /Kids [3 0 R] /Count 1>>" ++ crlf ++ lit "endobj" ++ crlf.
Definition body3 (w h : str) : bytes :=
  lit " <</Type /Page /Parent 2 0 R /MediaBox [0 0 " ++ w ++ sp ++ h ++ lit "] /Contents 4 0 R>>" ++ crlf ++ lit "endobj" ++ crlf.
Definition body4 (graphic : bytes) : bytes :=
  lit " <</Length " ++ dec (lenZ graphic) ++ lit " /Filter /FlateDecode>>" ++ crlf ++ lit "stream" ++ crlf ++ graphic ++ pdf_obj4_tail.
Definition body5 (date : str) : bytes :=
  lit " <</CreationDate(D:" ++ date ++ lit ")/Producer(" ++ CREATOR ++ lit ")/Creator(" ++ CREATOR ++ lit ")"
  ++ crlf ++ lit ">>" ++ crlf ++ lit "endobj" ++ crlf.

Lemma obj1_split R : strip_prefix (obj_header 1) (pdf_obj1 ++ R) = Some (body1 ++ R).
Proof. reflexivity. Qed.
Lemma obj2_split R : strip_prefix (obj_header 2) (pdf_obj2 ++ R) = Some (body2 ++ R).
Proof. reflexivity. Qed.
Lemma obj3_split w h R : strip_prefix (obj_header 3) (pdf_obj3 w h ++ R) = Some (body3 w h ++ R).
Proof. unfold pdf_obj3, body3. rewrite <- !app_assoc. reflexivity. Qed.
Lemma obj4_split g R : strip_prefix (obj_header 4) (pdf_obj4 g ++ R) = Some (body4 g ++ R).
Proof. unfold pdf_obj4, pdf_obj4_head, body4. rewrite <- !app_assoc. reflexivity. Qed.
Lemma obj5_split d R : strip_prefix (obj_header 5) (pdf_obj5 d ++ R) = Some (body5 d ++ R).
Proof. unfold pdf_obj5, body5. rewrite <- !app_assoc. reflexivity. Qed.

Lemma stream_of_body4 g R : pdf_stream_of (body4 g ++ R) = Some (lenZ g, g).
Proof.
  unfold body4. rewrite <- !app_assoc.
  set (R1 := lit " /Filter /FlateDecode>>" ++ _).
  unfold pdf_stream_of.
  assert (E1 : forall X, find_after (str_of "/Length") (lit " <</Length " ++ X) = Some (32 :: X)) by reflexivity.
  rewrite E1. change (drop_while is_ws (32 :: ?x)) with (drop_while is_ws x).
  pose proof (lenZ_nonneg g) as Hg. rewrite dec_nonneg by exact Hg.
  rewrite (drop_while_digits is_ws _ _ digit_not_ws (dec_nat_digits _ Hg) (dec_nat_nonempty _)).
  rewrite span_digits_all by (try (apply dec_nat_digits; exact Hg); reflexivity).
  rewrite dec_nat_nonempty, dec_nat_val by exact Hg. subst R1.
  assert (E2 : forall X, find_after (str_of "stream") (lit " /Filter /FlateDecode>>" ++ crlf ++ lit "stream" ++ crlf ++ X) = Some (13 :: 10 :: X)) by reflexivity.
  rewrite E2.
  assert (Hle : (lenZ g <=? lenB (g ++ pdf_obj4_tail ++ R)) = true).
  { change (lenB (g ++ pdf_obj4_tail ++ R)) with (lenZ (g ++ pdf_obj4_tail ++ R)). rewrite lenZ_app. pose proof (lenZ_nonneg (pdf_obj4_tail ++ R)). lia. }
  rewrite Hle, skipnZ_app, firstnZ_app by reflexivity.
  reflexivity.
Qed.

Lemma mediabox_of_body3 w h R : word_ok w = true -> word_ok h = true ->
  forallb (fun c => negb (c =? 93)) w = true -> forallb (fun c => negb (c =? 93)) h = true ->
  pdf_mediabox_of (body3 w h ++ R) = all_some [Some 0%Q; Some 0%Q; parse_number w; parse_number h].
Proof.
  intros Hw Hh Hw93 Hh93. unfold body3. rewrite <- !app_assoc. unfold pdf_mediabox_of.
  assert (E1 : forall X, find_after (str_of "/MediaBox") (lit " <</Type /Page /Parent 2 0 R /MediaBox [0 0 " ++ X)
                         = Some (32 :: 91 :: (lit "0 0 " ++ X))) by reflexivity.
  rewrite E1. change (drop_while is_ws (32 :: 91 :: ?x)) with (91 :: x).
  assert (E2 : forall X, lit "0 0 " ++ w ++ sp ++ h ++ lit "] /Contents 4 0 R>>" ++ X
                         = (lit "0 0 " ++ w ++ sp ++ h) ++ 93 :: (lit " /Contents 4 0 R>>" ++ X)).
  { intros X. rewrite <- !app_assoc. reflexivity. }
  rewrite E2. rewrite cut_first_app.
  2:{ rewrite !forallb_app, Hw93, Hh93. reflexivity. }
  change (lit "0 0 " ++ w ++ sp ++ h) with (join sp [lit "0"; lit "0"; w; h]).
  rewrite words_join by (cbn [forallb]; rewrite Hw, Hh; reflexivity).
  reflexivity.
Qed.

Section PdfStructure3.
Variables (w h date : str) (graphic : bytes).
Let file := pdf_file w h date graphic.
Let offs := pdf_offsets w h date graphic.
Hypothesis Hsize : lenZ file < 10 ^ 10.

Lemma object_at_chunk i : (i < 6)%nat ->
  object_at file (Z.of_nat (S i)) (nth i offs 0)
  = strip_prefix (obj_header (Z.of_nat (S i))) (concat (skipn (S i) (pdf_chunks w h date graphic))).
Proof.
  intros Hi. unfold object_at.
  destruct (offs_bounds w h date graphic Hsize i Hi) as [Hb1 Hb2]. fold offs file in Hb1, Hb2.
  change (lenB file) with (lenZ file).
  replace ((0 <=? nth i offs 0) && (nth i offs 0 <? lenZ file)) with true by lia.
  unfold file, offs. rewrite skip_to_chunk by exact Hi. reflexivity.
Qed.

Definition rest_after (k : nat) : bytes := concat (skipn (S k) (pdf_chunks w h date graphic)).

Lemma object1_at : object_at file 1 (nth 0 offs 0) = Some (body1 ++ rest_after 1).
Proof. pose proof (object_at_chunk 0 ltac:(lia)) as H0. change (Z.of_nat 1) with 1 in H0. rewrite H0. unfold pdf_chunks. cbn [skipn concat]. apply obj1_split. Qed.
Lemma object2_at : object_at file 2 (nth 1 offs 0) = Some (body2 ++ rest_after 2).
Proof. pose proof (object_at_chunk 1 ltac:(lia)) as H0. change (Z.of_nat 2) with 2 in H0. rewrite H0. unfold pdf_chunks. cbn [skipn concat]. apply obj2_split. Qed.
Lemma object3_at : object_at file 3 (nth 2 offs 0) = Some (body3 w h ++ rest_after 3).
Proof. pose proof (object_at_chunk 2 ltac:(lia)) as H0. change (Z.of_nat 3) with 3 in H0. rewrite H0. unfold pdf_chunks. cbn [skipn concat]. apply obj3_split. Qed.
Lemma object4_at : object_at file 4 (nth 3 offs 0) = Some (body4 graphic ++ rest_after 4).
Proof. pose proof (object_at_chunk 3 ltac:(lia)) as H0. change (Z.of_nat 4) with 4 in H0. rewrite H0. unfold pdf_chunks. cbn [skipn concat]. apply obj4_split. Qed.
Lemma object5_at : object_at file 5 (nth 4 offs 0) = Some (body5 date ++ rest_after 5).
Proof. pose proof (object_at_chunk 4 ltac:(lia)) as H0. change (Z.of_nat 5) with 5 in H0. rewrite H0. unfold pdf_chunks. cbn [skipn concat]. apply obj5_split. Qed.

(* the sixth in-use entry does NOT point at an object: it is the offset of the xref keyword itself *)
Lemma object6_missing : object_at file 6 (nth 5 offs 0) = None.
Proof.
  pose proof (object_at_chunk 5 ltac:(lia)) as H0. change (Z.of_nat 6) with 6 in H0. rewrite H0. unfold pdf_chunks. cbn [skipn concat]. unfold pdf_xref_part. reflexivity.
Qed.

Hypothesis Hw : word_ok w = true.
Hypothesis Hh : word_ok h = true.
Hypothesis Hw93 : forallb (fun c => negb (c =? 93)) w = true.
Hypothesis Hh93 : forallb (fun c => negb (c =? 93)) h = true.
Variables qw qh : Q.
Hypothesis Hqw : parse_number w = Some qw.
Hypothesis Hqh : parse_number h = Some qh.

Lemma pdf_read_file_model :
  pdf_read_file 5 file
  = Some {| pd_xref_pos := nth 5 offs 0;
            pd_entries := (0, 65535, false) :: map (fun p => (p, 0, true)) offs;
            pd_mediabox := [0%Q; 0%Q; qw; qh];
            pd_length := lenZ graphic;
            pd_stream := graphic |}.
Proof.
  unfold pdf_read_file.
  assert (E0 : exists r, strip_prefix (str_of "%PDF-1.") file = Some r).
  { unfold file. rewrite pdf_file_chunks. unfold pdf_chunks. cbn [concat]. eexists. reflexivity. }
  destruct E0 as [r0 ->].
  unfold file at 1. rewrite pdf_startxref_ok by exact Hsize. fold offs.
  unfold file at 1. rewrite pdf_xref_model by exact Hsize. fold offs file.
  assert (E1 : exists r, strip_prefix (str_of "trailer") (pdf_trailer_text (nth 5 offs 0)) = Some r) by (eexists; reflexivity).
  destruct E1 as [r1 ->].
  change (map Z.of_nat (seq 1 (Z.to_nat 5))) with [1; 2; 3; 4; 5].
  set (entries := (0, 65535, false) :: map (fun p => (p, 0, true)) offs).
  assert (N1 : nth_error entries (Z.to_nat 1) = Some (nth 0 offs 0, 0, true)) by reflexivity.
  assert (N2 : nth_error entries (Z.to_nat 2) = Some (nth 1 offs 0, 0, true)) by reflexivity.
  assert (N3 : nth_error entries (Z.to_nat 3) = Some (nth 2 offs 0, 0, true)) by reflexivity.
  assert (N4 : nth_error entries (Z.to_nat 4) = Some (nth 3 offs 0, 0, true)) by reflexivity.
  assert (N5 : nth_error entries (Z.to_nat 5) = Some (nth 4 offs 0, 0, true)) by reflexivity.
  cbv zeta. cbn [forallb]. rewrite N1, N2, N3, N4, N5.
  rewrite object1_at, object2_at, object3_at, object4_at, object5_at. cbn [andb].
  rewrite mediabox_of_body3 by assumption. rewrite Hqw, Hqh. cbn [all_some].
  rewrite stream_of_body4. reflexivity.
Qed.
End PdfStructure3.

(* ------------------------------------------------------------------ *)
(** * 4. Floats k + 0.5 *)

Lemma Qred_half k : Qred ((2 * k + 1) # 2) = (2 * k + 1) # 2.
Proof.
  apply Qred_identity. cbn [Qnum Qden]. rewrite Z.gcd_comm.
  replace (2 * k + 1) with (1 + k * 2) by lia. rewrite Z.gcd_add_mult_diag_r. reflexivity.
Qed.

Lemma float_repr_half q k : (q == (2 * k + 1) # 2)%Q -> 0 <= k -> float_repr q = dec k ++ [46; 53].
Proof.
  intros Hq Hk. unfold float_repr. rewrite (Qred_complete _ _ Hq), Qred_half. cbn [Qnum Qden].
  change (Z.log2 2) with 1. change (10 ^ 1) with 10. change (5 ^ 1) with 5. change (1 =? 0) with false. cbv iota.
  destruct (2 * k + 1 <? 0) eqn:E; [lia|]. cbn [app].
  replace (Z.abs (2 * k + 1) * 5 / 10) with k by lia.
  replace (Z.abs (2 * k + 1) * 5 mod 10) with 5 by lia.
  reflexivity.
Qed.

Lemma digits_val_app2 a b : digits_val (a ++ b) = digits_val a * 10 ^ lenB b + digits_val b.
Proof.
  revert a. induction b as [|c b IH] using rev_ind; intros a.
  - rewrite app_nil_r. cbn. lia.
  - rewrite app_assoc, !digits_val_app, IH. unfold lenB. rewrite app_length. cbn [List.length].
    rewrite Nat2Z.inj_add. change (Z.of_nat 1) with 1. rewrite Z.pow_add_r by lia. change (10 ^ 1) with 10.
    change (digits_val []) with 0. lia.
Qed.

Lemma parse_number_half k : 0 <= k -> parse_number (dec k ++ [46; 53]) = Some ((k * 10 + 5) # 10).
Proof.
  intros Hk. rewrite dec_nonneg by exact Hk. unfold parse_number.
  assert (Hs : split_sign (dec_nat k ++ [46; 53]) = (false, dec_nat k ++ [46; 53])).
  { pose proof (dec_nat_digits k Hk) as Hd. pose proof (dec_nat_nonempty k) as Hn.
    destruct (dec_nat k) as [|c r]; [discriminate|]. cbn in Hd. apply andb_prop in Hd. destruct Hd as [Hc _].
    unfold is_digit in Hc. cbn [app]. unfold split_sign.
    destruct (c =? 45) eqn:E1; [lia|]. destruct (c =? 43) eqn:E2; [lia|]. reflexivity. }
  rewrite Hs. rewrite span_digits_all by (try (apply dec_nat_digits; exact Hk); reflexivity).
  change (all_digits [53]) with true. cbn [andb orb]. rewrite dec_nat_nonempty.
  rewrite dec_nat_val by exact Hk. reflexivity.
Qed.

Lemma word_ok_half k : 0 <= k -> word_ok (dec k ++ [46; 53]) = true.
Proof.
  intros Hk. pose proof (word_ok_dec k) as H. unfold word_ok in *. apply andb_prop in H. destruct H as [Hn Hw].
  rewrite forallb_app, Hw. destruct (dec k); [discriminate|reflexivity].
Qed.

Lemma Qred_inject_Z z : Qred (inject_Z z) = inject_Z z.
Proof. apply Qred_identity. cbn. apply Z.gcd_1_r. Qed.
Lemma Qred_eq_Z q z : (q == inject_Z z)%Q -> Qred q = inject_Z z.
Proof. intros H. rewrite (Qred_complete _ _ H). apply Qred_inject_Z. Qed.

(* ------------------------------------------------------------------ *)
(** * 5. Runs and cells (pure geometry) *)

Fixpoint row_cells (row : list Z) (c : Z) : list Z :=
  match row with
  | [] => []
  | bit :: r => (if bit =? 0 then [] else [c]) ++ row_cells r (c + 1)
  end.
Fixpoint matrix_cells (rows : list (list Z)) (r : Z) : list (Z * Z) :=
  match rows with
  | [] => []
  | row :: rest => map (fun c => (c, r)) (row_cells row 0) ++ matrix_cells rest (r + 1)
  end.
(* the dark modules (column, row), row-major, shifted by the border *)
Definition dark_cells (m : list (list Z)) (b : Z) : list (Z * Z) :=
  map (fun cr => (b + fst cr, b + snd cr)) (matrix_cells m 0).

Definition runs_cells (rs : list (Z * Z)) : list Z := flat_map (fun ab => zrange (fst ab) (snd ab)) rs.

Lemma zrange_split a b c : a <= b <= c -> zrange a c = zrange a b ++ zrange b c.
Proof.
  intros H. unfold zrange. replace (Z.to_nat (c - a)) with (Z.to_nat (b - a) + Z.to_nat (c - b))%nat by lia.
  generalize (Z.to_nat (c - b)). intros n2.
  assert (G : forall n1 a0 b0, b0 = a0 + Z.of_nat n1 -> zrange_aux (n1 + n2) a0 = zrange_aux n1 a0 ++ zrange_aux n2 b0).
  { induction n1 as [|n1 IH]; intros a0 b0 Hb; cbn [zrange_aux Nat.add app].
    - f_equal. lia.
    - f_equal. apply IH. lia. }
  apply G. lia.
Qed.
Lemma zrange_one c : zrange c (c + 1) = [c].
Proof. unfold zrange. replace (c + 1 - c) with 1 by lia. reflexivity. Qed.
Lemma zrange_empty a : zrange a a = [].
Proof. unfold zrange. rewrite Z.sub_diag. reflexivity. Qed.

Lemma runs_of_valid row : forall c ab, In ab (runs_of row c) -> fst ab < snd ab.
Proof.
  induction row as [|bit r IH]; intros c ab Hin; cbn [runs_of] in Hin; [destruct Hin|].
  destruct (bit =? 0); [apply IH in Hin; exact Hin|].
  unfold attach in Hin. destruct (runs_of r (c + 1)) as [|[a' b'] rest] eqn:E.
  - destruct Hin as [<-|[]]. cbn. lia.
  - assert (Hall : forall x, In x ((a', b') :: rest) -> fst x < snd x) by (intros x Hx; apply (IH (c + 1)); rewrite E; exact Hx).
    destruct (a' =? c + 1) eqn:Ea.
    + destruct Hin as [<-|Hin]; [|apply Hall; right; exact Hin].
      specialize (Hall (a', b') (or_introl eq_refl)). cbn in *. lia.
    + destruct Hin as [<-|Hin]; [cbn; lia|apply Hall; exact Hin].
Qed.

Lemma runs_cells_attach a1 a2 rs : a1 <= a2 -> (forall ab, In ab rs -> fst ab < snd ab) ->
  runs_cells (attach a1 a2 rs) = zrange a1 a2 ++ runs_cells rs.
Proof.
  intros Ha Hv. unfold attach. destruct rs as [|[a' b'] rest]; [reflexivity|].
  destruct (a' =? a2) eqn:E; [|reflexivity].
  specialize (Hv (a', b') (or_introl eq_refl)). cbn [fst snd] in Hv.
  unfold runs_cells. cbn [flat_map fst snd]. rewrite app_assoc. f_equal.
  assert (a' = a2) by lia. subst a'. apply zrange_split. lia.
Qed.

Lemma runs_cells_row row : forall c, runs_cells (runs_of row c) = row_cells row c.
Proof.
  induction row as [|bit r IH]; intros c; cbn [runs_of row_cells]; [reflexivity|].
  destruct (bit =? 0); [apply IH|].
  rewrite runs_cells_attach; [|lia|apply runs_of_valid]. rewrite zrange_one, IH. reflexivity.
Qed.

(* cells of the (row, start, stop) triples *)
Definition triple_cells (t : Z * Z * Z) : list (Z * Z) :=
  let '(r, a, b) := t in map (fun c => (c, r)) (zrange a b).
Lemma matrix_runs_cells m : forall r0, flat_map triple_cells (matrix_runs m r0) = matrix_cells m r0.
Proof.
  induction m as [|row rest IH]; intros r0; cbn [matrix_runs matrix_cells]; [reflexivity|].
  rewrite flat_map_app, IH. f_equal.
  rewrite <- runs_cells_row. unfold runs_cells. generalize (runs_of row 0). intros rs.
  induction rs as [|[a b] rs IHrs]; [reflexivity|].
  cbn [map flat_map triple_cells fst snd]. rewrite map_app, IHrs. reflexivity.
Qed.

(* all runs, including the start-up artefact of matrix_to_lines *)
Definition all_runs (m : list (list Z)) : list (Z * Z * Z) :=
  (if first_light m then [(0, 0, 0)] else []) ++ matrix_runs m 0.
Lemma all_runs_cells m : flat_map triple_cells (all_runs m) = matrix_cells m 0.
Proof.
  unfold all_runs. rewrite flat_map_app, matrix_runs_cells.
  destruct (first_light m); [|reflexivity]. cbn [flat_map triple_cells]. rewrite zrange_empty. reflexivity.
Qed.

Lemma lines_all_runs m x y d : Forall2 (line_at x y d) (matrix_to_lines m x y d) (all_runs m).
Proof.
  rewrite matrix_to_lines_artefact. unfold all_runs. apply Forall2_app; [|apply lines_rows_runs].
  destruct (first_light m); [apply Forall2_cons; [|apply Forall2_nil]|apply Forall2_nil].
  unfold line_at. cbn [l_x1 l_x2 l_y]. change (inject_Z 0) with 0%Q. repeat split; ring.
Qed.

(* characterisation of dark_cells *)
Lemma row_cells_In row : forall c0 c, In c (row_cells row c0) <-> c0 <= c < c0 + lenZ row /\ nth (Z.to_nat (c - c0)) row 0 <> 0.
Proof.
  induction row as [|bit r IH]; intros c0 c; cbn [row_cells].
  - cbn. split; [intros []|]. unfold lenZ. cbn. lia.
  - rewrite in_app_iff, IH. unfold lenZ. cbn [List.length]. rewrite Nat2Z.inj_succ. fold (lenZ r).
    destruct (Z.eq_dec c c0) as [->|Hne].
    + rewrite Z.sub_diag. cbn [Z.to_nat nth]. destruct (bit =? 0) eqn:E.
      * split; [intros [[]|[H _]]; lia|intros [_ H]; lia].
      * split; [intros _; split; [pose proof (lenZ_nonneg r); lia|lia]|intros _; left; left; reflexivity].
    + destruct (Z.lt_ge_cases c c0) as [Hlt|Hge].
      * split; [|intros [H _]; lia].
        intros [H|[H _]]; [|lia]. destruct (bit =? 0); [destruct H|destruct H as [H|[]]; lia].
      * replace (Z.to_nat (c - c0)) with (S (Z.to_nat (c - (c0 + 1)))) by lia. cbn [nth].
        split.
        -- intros [H|[H1 H2]]; [destruct (bit =? 0); [destruct H|destruct H as [H|[]]; lia]|].
           split; [lia|exact H2].
        -- intros [H1 H2]. right. split; [lia|exact H2].
Qed.

(* ------------------------------------------------------------------ *)
(** * 5b. The colour conversion of Model/Color.v fails with ValueError only *)

Lemma int16_2_err' a b e : int16_2 a b = Err e -> e = ValueError.
Proof. unfold int16_2. destruct (hexval a); destruct (hexval b); intros H; inversion H; reflexivity. Qed.
Lemma pairs_hex_err' : forall n s e, (List.length s <= n)%nat -> pairs_hex s = Err e -> e = ValueError.
Proof.
  induction n as [|n IH]; intros s e Hl H.
  - destruct s; [discriminate|cbn in Hl; lia].
  - destruct s as [|a [|b r]]; cbn [pairs_hex] in H; [discriminate|inversion H; reflexivity|].
    destruct (int16_2 a b) eqn:E1; cbn [bind] in H; [|inversion H; subst; eapply int16_2_err'; exact E1].
    destruct (pairs_hex r) eqn:E2; cbn [bind] in H; [discriminate|]. inversion H; subst.
    apply (IH r); [cbn [List.length] in Hl; lia|exact E2].
Qed.
Lemma alpha_value_err' c af e : alpha_value c af = Err e -> e = ValueError.
Proof.
  unfold alpha_value. destruct (_ && _); [|intros H; inversion H; reflexivity].
  destruct af; [destruct (assocZ c _)|]; discriminate.
Qed.
Lemma hex_err' s af e : hex_to_rgb_or_rgba s af = Err e -> e = ValueError.
Proof.
  unfold hex_to_rgb_or_rgba. intros H. destruct s as [|c0 rest]; [inversion H; reflexivity|].
  cbv zeta in H.
  match type of H with context [pairs_hex ?x] => set (col := x) in H end.
  destruct (negb _) in H; [inversion H; reflexivity|].
  destruct (pairs_hex col) as [vals|e'] eqn:Ep; cbn [bind] in H.
  - destruct (af && _) in H; [|discriminate].
    destruct vals as [|r [|g [|b [|a [|x vals]]]]]; try (inversion H; reflexivity).
    destruct (alpha_value a af) as [a'|e'] eqn:Ea; cbn [bind] in H; [discriminate|].
    inversion H; subst. eapply alpha_value_err'; exact Ea.
  - inversion H; subst. eapply (pairs_hex_err' (List.length col)); [apply Nat.le_refl|exact Ep].
Qed.
Lemma color_to_rgba_err' c af e : color_to_rgba c af = Err e -> e = ValueError.
Proof.
  unfold color_to_rgba. intros H. destruct c as [s|parts].
  - destruct (assoc_str (py_lower s) _) as [[[r g] b]|]; [discriminate|].
    destruct (hex_to_rgb_or_rgba s af) as [l|e'] eqn:Eh.
    + destruct l as [|r [|g [|b [|a l]]]]; discriminate.
    + apply hex_err' in Eh. subst e'. inversion H; reflexivity.
  - destruct parts as [|r [|g [|b [|a [|x parts]]]]]; try (inversion H; reflexivity).
    + destruct (_ && _) in H; [discriminate|inversion H; reflexivity].
    + destruct (_ && _) in H; [|inversion H; reflexivity].
      destruct (alpha_value a af) as [a'|e'] eqn:Ea; cbn [bind] in H; [discriminate|].
      inversion H; subst. eapply alpha_value_err'; exact Ea.
Qed.
Lemma color_to_rgb_err c e : color_to_rgb c = Err e -> e = ValueError.
Proof.
  unfold color_to_rgb, color_to_rgb_or_rgba.
  destruct (color_to_rgba c true) as [l|e'] eqn:E; cbn [bind].
  - destruct l as [|r [|g [|b [|a [|x l]]]]]; cbn [bind]; try (destruct (lenZ _ =? 3); intros H; inversion H; reflexivity).
    destruct (a =? opaque true); cbn [bind]; destruct (lenZ _ =? 3); intros H; inversion H; reflexivity.
  - intros H. inversion H; subst. eapply color_to_rgba_err'; exact E.
Qed.

(* ------------------------------------------------------------------ *)
(** * 6. Validation of scale and border *)

Definition border_ok (border : option Z) : Prop := match border with Some b => 0 <= b | None => True end.

Lemma get_border_nonneg size border : border_ok border -> 0 <= get_border size size border.
Proof. unfold get_border, get_default_border_size. destruct border; cbn; intros; [assumption|]. destruct (_ && _); lia. Qed.

Lemma check_border_int border :
  check_valid_border (option_map PInt border)
  = match border with Some b => if b <? 0 then Err ValueError else Ok tt | None => Ok tt end.
Proof.
  destruct border as [b|]; [|reflexivity]. cbn [option_map]. unfold check_valid_border, q_ltz. cbn [q_of py_int].
  assert (E1 : Qeq_bool (inject_Z b) (inject_Z b) = true) by (apply Qeq_bool_iff; reflexivity).
  rewrite E1. cbn [negb orb].
  destruct (b <? 0) eqn:E.
  - destruct (Qle_bool (inject_Z 0) (inject_Z b)) eqn:E2; [|reflexivity].
    apply Qle_bool_iff in E2. rewrite <- Zle_Qle in E2. lia.
  - assert (H : Qle_bool (inject_Z 0) (inject_Z b) = true) by (apply Qle_bool_iff; rewrite <- Zle_Qle; lia).
    rewrite H. reflexivity.
Qed.

Lemma valid_whb_int size s border : 1 <= s -> border_ok border ->
  valid_width_height_and_border size size (PInt s) border
  = Ok (PInt ((size + 2 * get_border size size border) * s), PInt ((size + 2 * get_border size size border) * s),
        get_border size size border).
Proof.
  intros Hs Hb. unfold valid_width_height_and_border. rewrite check_valid_scale_spec, check_border_int.
  destruct (s <? 1) eqn:E; [lia|]. cbn [bind].
  destruct border as [b|]; cbn [border_ok] in Hb; [destruct (b <? 0) eqn:E2; [lia|]|]; reflexivity.
Qed.

Lemma valid_whb_err size s border e :
  valid_width_height_and_border size size (PInt s) border = Err e -> e = ValueError /\ (s <= 0 \/ exists b, border = Some b /\ b < 0).
Proof.
  unfold valid_width_height_and_border. rewrite check_valid_scale_spec, check_border_int.
  destruct (s <? 1) eqn:E; cbn [bind].
  - intros H. inversion H. split; [reflexivity|left; lia].
  - destruct border as [b|]; [destruct (b <? 0) eqn:E2|]; cbn [bind]; intros H; inversion H.
    split; [reflexivity|right; exists b; split; [reflexivity|lia]].
Qed.

(* ------------------------------------------------------------------ *)
(** * 7. The picture every writer must produce, and the cells it covers *)

(* centre line of grid row (b + r), counted from the top of a page whose first symbol row is [rows_above]
   = height + border rows above the bottom edge; pitch s *)
Definition row_y (s rows_above r : Z) : Q := Qred (inject_Z s * (inject_Z (rows_above - r) - (1 # 2))).
(* the stroke for the run (row r, columns [a, c)) of a symbol with border b, pitch s *)
Definition nice_seg (s b rows_above : Z) (t : Z * Z * Z) : segment :=
  let '(r, a, c) := t in
  ((inject_Z (s * (b + a)), row_y s rows_above r), (inject_Z (s * (b + c)), row_y s rows_above r)).

Lemma is_int_Z q z : (q == inject_Z z)%Q -> is_int q = true /\ Qfloor q = z.
Proof.
  intros H. assert (Hf : Qfloor q = z) by (rewrite H; apply Qfloor_Z).
  split; [|exact Hf]. unfold is_int. rewrite Hf. apply Qeq_bool_iff. symmetry. exact H.
Qed.

Lemma Qeq_bool_refl q : Qeq_bool q q = true.
Proof. apply Qeq_bool_iff. reflexivity. Qed.

Lemma inject_Z_nonzero s : s <> 0 -> ~ (inject_Z s == 0)%Q.
Proof. intros Hs H. apply Hs. apply (inject_Z_injective s 0). exact H. Qed.

Lemma zrange_shift b a c : zrange (b + a) (b + c) = map (Z.add b) (zrange a c).
Proof.
  unfold zrange. replace (b + c - (b + a)) with (c - a) by lia. generalize (Z.to_nat (c - a)). intros n.
  revert a. induction n as [|n IH]; intros a; [reflexivity|]. cbn [zrange_aux map]. f_equal.
  replace (b + a + 1) with (b + (a + 1)) by lia. apply IH.
Qed.

Lemma seg_cells_nice s b size r a c : 1 <= s -> a <= c ->
  seg_cells (inject_Z s) (inject_Z ((size + 2 * b) * s)) (inject_Z s) (nice_seg s b (size + b) (r, a, c))
  = Some (map (fun cr => (b + fst cr, b + snd cr)) (triple_cells (r, a, c))).
Proof.
  intros Hs Hac. unfold seg_cells, nice_seg.
  assert (Hs0 : ~ (inject_Z s == 0)%Q) by (apply inject_Z_nonzero; lia).
  assert (E1 : (inject_Z (s * (b + a)) / inject_Z s == inject_Z (b + a))%Q) by (rewrite inject_Z_mult; field; exact Hs0).
  assert (E2 : (inject_Z (s * (b + c)) / inject_Z s == inject_Z (b + c))%Q) by (rewrite inject_Z_mult; field; exact Hs0).
  assert (E3 : ((inject_Z ((size + 2 * b) * s) - row_y s (size + b) r) / inject_Z s - (1 # 2) == inject_Z (b + r))%Q).
  { unfold row_y. rewrite Qred_correct. rewrite !inject_Z_mult, !inject_Z_plus, inject_Z_mult.
    unfold Zminus. rewrite !inject_Z_plus, inject_Z_opp. change (inject_Z 2) with 2%Q. field. exact Hs0. }
  destruct (is_int_Z _ _ E1) as [I1 F1]. destruct (is_int_Z _ _ E2) as [I2 F2]. destruct (is_int_Z _ _ E3) as [I3 F3].
  rewrite !Qeq_bool_refl, I1, I2, I3, F1, F2, F3.
  assert (Hle : Qle_bool (inject_Z (s * (b + a)) / inject_Z s) (inject_Z (s * (b + c)) / inject_Z s) = true).
  { apply Qle_bool_iff. rewrite E1, E2. rewrite <- Zle_Qle. lia. }
  rewrite Hle. cbn [andb]. f_equal. unfold triple_cells. rewrite zrange_shift, !map_map. apply map_ext.
  intros x. cbn [fst snd]. reflexivity.
Qed.

Lemma concat_some_map {A B} (f : A -> option (list B)) (g : A -> list B) l :
  (forall a, In a l -> f a = Some (g a)) -> concat_some (map f l) = Some (flat_map g l).
Proof.
  induction l as [|a l IH]; intros H; [reflexivity|]. cbn [map concat_some flat_map].
  rewrite (H a (or_introl eq_refl)), IH by (intros x Hx; apply H; right; exact Hx). reflexivity.
Qed.

Lemma runs_ordered_row row : forall c ab, In ab (runs_of row c) -> fst ab <= snd ab.
Proof. intros c ab H. apply runs_of_valid in H. lia. Qed.
Lemma all_runs_ordered m : forall t, In t (all_runs m) -> snd (fst t) <= snd t.
Proof.
  intros t H. unfold all_runs in H. apply in_app_or in H. destruct H as [H|H].
  - destruct (first_light m); [|destruct H]. destruct H as [<-|[]]. cbn. lia.
  - revert H. generalize 0 at 1. induction m as [|row rest IH]; intros r0 H; [destruct H|].
    cbn [matrix_runs] in H. apply in_app_or in H. destruct H as [H|H]; [|apply (IH _ H)].
    apply in_map_iff in H. destruct H as [ab [<- Hab]]. cbn [fst snd]. apply (runs_ordered_row _ _ _ Hab).
Qed.

Lemma flat_map_map_comm {A B C} (f : A -> list B) (g : B -> C) l :
  flat_map (fun a => map g (f a)) l = map g (flat_map f l).
Proof. induction l as [|a l IH]; [reflexivity|]. cbn [flat_map]. rewrite map_app, IH. reflexivity. Qed.

(* the strokes [nice_seg] over all runs of the matrix cover exactly the dark modules *)
Theorem nice_segs_cover m size s b : 1 <= s ->
  stroke_cells (inject_Z s) (inject_Z ((size + 2 * b) * s)) (inject_Z s) (map (nice_seg s b (size + b)) (all_runs m))
  = Some (dark_cells m b).
Proof.
  intros Hs. unfold stroke_cells. rewrite map_map.
  rewrite (concat_some_map _ (fun t => map (fun cr => (b + fst cr, b + snd cr)) (triple_cells t))).
  - rewrite flat_map_map_comm, all_runs_cells. reflexivity.
  - intros [[r a] c] Hin. apply seg_cells_nice; [exact Hs|]. apply (all_runs_ordered m _ Hin).
Qed.

(* ------------------------------------------------------------------ *)
(** * 8. Interpreting the PDF content stream *)

Lemma fold_opt_app {A S} (f : A -> S -> option S) a b st :
  fold_opt f (a ++ b) st = match fold_opt f a st with Some st' => fold_opt f b st' | None => None end.
Proof. revert st. induction a as [|x a IH]; intros st; [reflexivity|]. cbn [app fold_opt]. destruct (f x st); [apply IH|reflexivity]. Qed.

Lemma lex_dec n : lex_word (dec n) = TNum (inject_Z n).
Proof. unfold lex_word. rewrite parse_number_dec. reflexivity. Qed.
Lemma lex_half q k : (q == (2 * k + 1) # 2)%Q -> 0 <= k -> lex_word (float_repr q) = TNum ((k * 10 + 5) # 10).
Proof. intros Hq Hk. unfold lex_word. rewrite (float_repr_half q k Hq Hk), parse_number_half by exact Hk. reflexivity. Qed.
Lemma half_value k : ((k * 10 + 5) # 10 == inject_Z k + (1 # 2))%Q.
Proof. unfold Qeq, Qplus, inject_Z. cbn [Qnum Qden]. lia. Qed.

(* scale-and-translate matrices *)
Definition st_mat (ctm : matrix6) (k e f : Q) : Prop :=
  let '(A, B, C, D, E, F) := ctm in (A == k /\ B == 0 /\ C == 0 /\ D == k /\ E == e /\ F == f)%Q.
Definition id6 : matrix6 := (1, 0, 0, 1, 0, 0)%Q.
Lemma st_mat_id : st_mat id6 1 0 0.
Proof. cbn. repeat split; reflexivity. Qed.
Lemma st_mat_mul ctm k e f a e' f' : st_mat ctm k e f ->
  st_mat (mat_mul (a, 0, 0, a, e', f')%Q ctm) (a * k) (e' * k + e) (f' * k + f).
Proof.
  destruct ctm as [[[[[A B] C] D] E] F]. cbn. intros (HA & HB & HC & HD & HE & HF).
  rewrite HA, HB, HC, HD, HE, HF. repeat split; ring.
Qed.
Lemma st_mat_scale ctm k e f : st_mat ctm k e f -> exists A, mat_scale ctm = Some A /\ (A == k)%Q.
Proof.
  destruct ctm as [[[[[A B] C] D] E] F]. cbn. intros (HA & HB & HC & HD & HE & HF). exists A. split; [|exact HA].
  assert (E1 : Qeq_bool B 0 = true) by (apply Qeq_bool_iff; exact HB).
  assert (E2 : Qeq_bool C 0 = true) by (apply Qeq_bool_iff; exact HC).
  assert (E3 : Qeq_bool A D = true) by (apply Qeq_bool_iff; rewrite HA, HD; reflexivity).
  rewrite E1, E2, E3. reflexivity.
Qed.
Lemma st_mat_apply ctm k e f x y : st_mat ctm k e f ->
  (fst (mat_apply ctm x y) == k * x + e /\ snd (mat_apply ctm x y) == k * y + f)%Q.
Proof.
  destruct ctm as [[[[[A B] C] D] E] F]. cbn. intros (HA & HB & HC & HD & HE & HF).
  rewrite HA, HB, HC, HD, HE, HF. split; ring.
Qed.

Definition mk_pdf g sv ops cur path out : pdf_state :=
  {| p_g := g; p_saved := sv; p_ops := ops; p_cur := cur; p_path := path; p_out := out |}.

Definition pdf_line_toks (l : line) : list tok :=
  [TNum (inject_Z (qz (l_x1 l))); TNum (inject_Z (qz (l_y l))); TWord (lit "m");
   TNum (inject_Z (qz (l_x2 l))); TNum (inject_Z (qz (l_y l))); TWord (lit "l")].
Lemma lex_pdf_line l : map lex_word (pdf_line_words l) = pdf_line_toks l.
Proof. unfold pdf_line_words, pdf_line_toks. cbn [map]. rewrite !lex_dec. reflexivity. Qed.
Lemma lex_pdf_lines ls : map lex_word (flat_map pdf_line_words ls) = flat_map pdf_line_toks ls.
Proof.
  induction ls as [|l ls IH]; [reflexivity|].
  change (flat_map pdf_line_words (l :: ls)) with (pdf_line_words l ++ flat_map pdf_line_words ls).
  change (flat_map pdf_line_toks (l :: ls)) with (pdf_line_toks l ++ flat_map pdf_line_toks ls).
  rewrite map_app. f_equal; [apply lex_pdf_line|exact IH].
Qed.

Definition line_seg (ctm : matrix6) (l : line) : segment :=
  (mat_apply ctm (inject_Z (qz (l_x1 l))) (inject_Z (qz (l_y l))),
   mat_apply ctm (inject_Z (qz (l_x2 l))) (inject_Z (qz (l_y l)))).
Fixpoint cur_after (ctm : matrix6) (cur : option point) (ls : list line) : option point :=
  match ls with [] => cur | l :: r => cur_after ctm (Some (snd (line_seg ctm l))) r end.

Lemma pdf_run_line g sv cur path out l X :
  fold_opt pdf_tok (pdf_line_toks l ++ X) (mk_pdf g sv [] cur path out)
  = fold_opt pdf_tok X (mk_pdf g sv [] (Some (snd (line_seg (g_ctm g) l))) (path ++ [ESeg (line_seg (g_ctm g) l)]) out).
Proof. reflexivity. Qed.

Lemma pdf_run_lines ls : forall g sv cur path out X,
  fold_opt pdf_tok (flat_map pdf_line_toks ls ++ X) (mk_pdf g sv [] cur path out)
  = fold_opt pdf_tok X (mk_pdf g sv [] (cur_after (g_ctm g) cur ls) (path ++ map (fun l => ESeg (line_seg (g_ctm g) l)) ls) out).
Proof.
  induction ls as [|l ls IH]; intros g sv cur path out X.
  - cbn [flat_map map app cur_after]. rewrite app_nil_r. reflexivity.
  - change (flat_map pdf_line_toks (l :: ls)) with (pdf_line_toks l ++ flat_map pdf_line_toks ls).
    rewrite <- app_assoc, pdf_run_line, IH. cbn [map cur_after]. rewrite <- app_assoc. reflexivity.
Qed.

Lemma segs_of_segs (ss : list segment) : segs_of (map ESeg ss) = Some ss.
Proof. unfold segs_of. induction ss as [|s ss IH]; [reflexivity|]. cbn [map all_some] in *. rewrite IH. reflexivity. Qed.

Lemma pdf_op_S g sv cur path out :
  pdf_op (lit "S") (mk_pdf g sv [] cur path out)
  = match segs_of path, mat_scale (g_ctm g) with
    | Some segs, Some k => Some (mk_pdf g sv [] None [] (out ++ [Stroke (red_rgb (g_stroke g)) (Qred (g_lw g * k)) (map red_seg segs)]))
    | _, _ => None end.
Proof. reflexivity. Qed.

Lemma pdf_run_S g sv cur path out segs k : segs_of path = Some segs -> mat_scale (g_ctm g) = Some k ->
  fold_opt pdf_tok [TWord (lit "S")] (mk_pdf g sv [] cur path out)
  = Some (mk_pdf g sv [] None [] (out ++ [Stroke (red_rgb (g_stroke g)) (Qred (g_lw g * k)) (map red_seg segs)])).
Proof.
  intros H1 H2. cbn [fold_opt pdf_tok]. rewrite pdf_op_S, H1, H2. reflexivity.
Qed.

Lemma st_mat_proper ctm k e f k' e' f' : st_mat ctm k e f -> (k == k')%Q -> (e == e')%Q -> (f == f')%Q -> st_mat ctm k' e' f'.
Proof.
  destruct ctm as [[[[[A B] C] D] E] F]. cbn. intros (HA & HB & HC & HD & HE & HF) Hk He Hf.
  rewrite <- Hk, <- He, <- Hf. repeat split; assumption.
Qed.

Lemma color_to_rgb_3 c rgb : color_to_rgb c = Ok rgb -> exists r g b, rgb = [r; g; b].
Proof.
  unfold color_to_rgb. destruct (color_to_rgb_or_rgba c true) as [l|e]; cbn [bind]; [|discriminate].
  destruct (lenZ l =? 3) eqn:E; [|discriminate]. intros H. inversion H; subst.
  destruct rgb as [|r [|g [|b [|x l]]]]; try (unfold lenZ in E; cbn in E; lia). exists r, g, b. reflexivity.
  unfold lenZ in E. cbn [List.length] in E. lia.
Qed.

(* the line coordinates as integers *)
Lemma line_at_qz l r a c : line_at 0 0 (-1 # 1) l (r, a, c) ->
  qz (l_x1 l) = a /\ qz (l_x2 l) = c /\ qz (l_y l) = - r.
Proof.
  unfold line_at. intros (Hy & H1 & H2). unfold qz. repeat split; apply py_int_integral; cbn [q_of].
  - rewrite H1. ring.
  - rewrite H2. ring.
  - rewrite Hy, inject_Z_opp. ring.
Qed.

Section PdfContent.
Variable color_text : Z -> str.
Variable color_val : Z -> Q.
Hypothesis color_text_ok : forall c, word_ok (color_text c) = true /\ parse_number (color_text c) = Some (color_val c).

(* the rational denoted by the operand printed for colour component c *)
Definition pdf_comp_val (c : Z) : Q :=
  if c =? 0 then 0 # 10 else if c =? 255 then 10 # 10 else color_val c.
Definition rgb_val (l : list Z) : rgb :=
  match l with
  | [r; g; b] => (Qred (pdf_comp_val r), Qred (pdf_comp_val g), Qred (pdf_comp_val b))
  | _ => (0, 0, 0)%Q end.

Lemma component_ok c :
  word_ok (pdf_component color_text c) = true /\ lex_word (pdf_component color_text c) = TNum (pdf_comp_val c).
Proof.
  unfold pdf_component, pdf_comp_val. destruct (c =? 0); [split; reflexivity|].
  destruct (c =? 255); [split; reflexivity|].
  destruct (color_text_ok c) as [H1 H2]. split; [exact H1|]. unfold lex_word. rewrite H2. reflexivity.
Qed.

Lemma word_ok_pdf_lines ls : forallb word_ok (flat_map pdf_line_words ls) = true.
Proof.
  induction ls as [|l ls IH]; [reflexivity|].
  change (flat_map pdf_line_words (l :: ls)) with (pdf_line_words l ++ flat_map pdf_line_words ls).
  rewrite forallb_app. apply andb_true_intro. split; [|exact IH]. unfold pdf_line_words. cbn [forallb]. rewrite !word_ok_dec. reflexivity.
Qed.

Lemma red_line_seg ctm s b size l r a c : 1 <= s ->
  st_mat ctm (inject_Z s) (inject_Z b * inject_Z s) (((size + b - 1) * 10 + 5 # 10) * inject_Z s) ->
  line_at 0 0 (-1 # 1) l (r, a, c) ->
  red_seg (line_seg ctm l) = nice_seg s b (size + b) (r, a, c).
Proof.
  intros Hs Hm Hl. destruct (line_at_qz l r a c Hl) as (E1 & E2 & E3).
  unfold line_seg, red_seg, red_point, nice_seg. cbn [fst snd]. rewrite E1, E2, E3.
  destruct (st_mat_apply ctm _ _ _ (inject_Z a) (inject_Z (- r)) Hm) as [X1 Y1].
  destruct (st_mat_apply ctm _ _ _ (inject_Z c) (inject_Z (- r)) Hm) as [X2 Y2].
  assert (HY : forall q, (q == inject_Z s * inject_Z (- r) + ((size + b - 1) * 10 + 5 # 10) * inject_Z s)%Q ->
               Qred q = row_y s (size + b) r).
  { intros q Hq. unfold row_y. apply Qred_complete. rewrite Hq, half_value.
    unfold Zminus. rewrite !inject_Z_plus, !inject_Z_opp. change (inject_Z 1) with 1%Q. ring. }
  rewrite (HY _ Y1), (HY _ Y2).
  rewrite (Qred_eq_Z _ (s * (b + a))) by (rewrite X1, inject_Z_mult, inject_Z_plus; ring).
  rewrite (Qred_eq_Z _ (s * (b + c))) by (rewrite X2, inject_Z_mult, inject_Z_plus; ring).
  reflexivity.
Qed.

Lemma red_line_segs ctm s b size ls ts : 1 <= s ->
  st_mat ctm (inject_Z s) (inject_Z b * inject_Z s) (((size + b - 1) * 10 + 5 # 10) * inject_Z s) ->
  Forall2 (line_at 0 0 (-1 # 1)) ls ts ->
  map red_seg (map (line_seg ctm) ls) = map (nice_seg s b (size + b)) ts.
Proof.
  intros Hs Hm. induction 1 as [|l [[r a] c] ls ts Hl _ IH]; [reflexivity|].
  cbn [map]. rewrite IH. f_equal. apply red_line_seg; assumption.
Qed.
End PdfContent.

Lemma pn_ne_one_int s : pn_ne_one (PInt s) = negb (s =? 1).
Proof.
  unfold pn_ne_one, q_of. f_equal. destruct (s =? 1) eqn:E.
  - apply Qeq_bool_iff. assert (s = 1) by lia. subst. reflexivity.
  - destruct (Qeq_bool (inject_Z s) 1) eqn:E2; [|reflexivity]. apply Qeq_bool_iff in E2.
    apply (inject_Z_injective s 1) in E2. lia.
Qed.

Section PdfContent2.
Variable color_text : Z -> str.
Variable color_val : Z -> Q.
Hypothesis color_text_ok : forall c, word_ok (color_text c) = true /\ parse_number (color_text c) = Some (color_val c).

Notation comp_val := (pdf_comp_val color_val).
Notation rgbv := (rgb_val color_val).

(* tokens of the three optional prefixes *)
Definition bg_toks (fill : option (list Z)) (W : Z) : list tok :=
  match fill with
  | Some rgb => map (fun c => TNum (comp_val c)) rgb
                ++ [TWord (lit "rg"); TNum 0; TNum 0; TNum (inject_Z W); TNum (inject_Z W); TWord (lit "re"); TWord (lit "f"); TWord (lit "q")]
  | None => [] end.
Definition sc_toks (s : Z) : list tok :=
  if pn_ne_one (PInt s) then [TNum (inject_Z s); TNum 0; TNum 0; TNum (inject_Z s); TNum 0; TNum 0; TWord (lit "cm")] else [].
Definition fg_toks (stroke : option (list Z)) : list tok :=
  match stroke with Some rgb => map (fun c => TNum (comp_val c)) rgb ++ [TWord (lit "RG")] | None => [] end.

Definition ctm_s (s : Z) : matrix6 :=
  if pn_ne_one (PInt s) then mat_mul (inject_Z s, 0, 0, inject_Z s, 0, 0)%Q id6 else id6.
Definition ctm_f (s b k : Z) : matrix6 := mat_mul (1, 0, 0, 1, inject_Z b, (k * 10 + 5) # 10)%Q (ctm_s s).

Lemma ctm_s_st s : st_mat (ctm_s s) (inject_Z s) 0 0.
Proof.
  unfold ctm_s. rewrite pn_ne_one_int. destruct (s =? 1) eqn:E; cbn [negb].
  - assert (s = 1) by lia. subst s. apply st_mat_id.
  - eapply st_mat_proper; [apply st_mat_mul, st_mat_id| | |]; ring.
Qed.
Lemma ctm_f_st s b k : st_mat (ctm_f s b k) (inject_Z s) (inject_Z b * inject_Z s) ((k * 10 + 5 # 10) * inject_Z s).
Proof. unfold ctm_f. eapply st_mat_proper; [apply st_mat_mul, ctm_s_st| | |]; ring. Qed.

(* the state after the prefix, for the three optional parts *)
Definition out_bg (fill : option (list Z)) (W : Z) : list paint :=
  match fill with
  | Some [r; g; b] =>
      [FillRect (red_rgb (comp_val r, comp_val g, comp_val b)) (red_point (mat_apply id6 0 0))
                (red_point (mat_apply id6 (0 + inject_Z W) (0 + inject_Z W)))]
  | _ => [] end.
Definition g_bg (fill : option (list Z)) : rgb :=
  match fill with Some [r; g; b] => (comp_val r, comp_val g, comp_val b) | _ => (0, 0, 0)%Q end.
Definition g_fg (stroke : option (list Z)) : rgb :=
  match stroke with Some [r; g; b] => (comp_val r, comp_val g, comp_val b) | _ => (0, 0, 0)%Q end.
Definition sv_bg (fill : option (list Z)) : list gstate :=
  match fill with
  | Some [r; g; b] => [{| g_ctm := id6; g_fill := (comp_val r, comp_val g, comp_val b); g_stroke := (0, 0, 0)%Q; g_lw := 1 |}]
  | _ => [] end.

Definition ok3 (o : option (list Z)) : Prop := match o with Some l => exists r g b, l = [r; g; b] | None => True end.

Lemma pdf_run_prefix fill stroke s b k W X : ok3 fill -> ok3 stroke ->
  fold_opt pdf_tok (bg_toks fill W ++ sc_toks s ++ fg_toks stroke
                    ++ [TNum 1; TNum 0; TNum 0; TNum 1; TNum (inject_Z b); TNum ((k * 10 + 5) # 10); TWord (lit "cm")] ++ X) pdf_init
  = fold_opt pdf_tok X
      (mk_pdf {| g_ctm := ctm_f s b k; g_fill := g_bg fill; g_stroke := g_fg stroke; g_lw := 1 |}
              (sv_bg fill) [] None [] (out_bg fill W)).
Proof.
  intros Hf Hs. unfold sc_toks, ctm_f, ctm_s.
  destruct fill as [fl|]; [destruct Hf as (r & g & bb & ->)|];
  destruct stroke as [sl|]; try destruct Hs as (r' & g' & b' & ->);
  destruct (pn_ne_one (PInt s)); reflexivity.
Qed.

Lemma comps_ok rgb :
  forallb word_ok (map (pdf_component color_text) rgb) = true /\
  map lex_word (map (pdf_component color_text) rgb) = map (fun c => TNum (comp_val c)) rgb.
Proof.
  induction rgb as [|c l [IH1 IH2]]; [split; reflexivity|].
  destruct (component_ok color_text color_val color_text_ok c) as [H1 H2].
  cbn [map forallb]. rewrite H1, IH1, H2, IH2. split; reflexivity.
Qed.

Theorem pdf_content_reads : forall m size s border dark light content,
  1 <= s -> border_ok border -> 0 < size ->
  pdf_content color_text m size size (PInt s) border dark light = Ok content ->
  let b := get_border size size border in
  let W := (size + 2 * b) * s in
  exists fill stroke,
    (match light with Some c => exists rgb, color_to_rgb c = Ok rgb /\ fill = Some rgb | None => fill = None end) /\
    (if color_is_black dark then stroke = None else exists rgb, color_to_rgb dark = Ok rgb /\ stroke = Some rgb) /\
    pdf_read_content content
    = Some (match fill with Some rgb => [FillRect (rgbv rgb) (0, 0)%Q (inject_Z W, inject_Z W)] | None => [] end
            ++ [Stroke (match stroke with Some rgb => rgbv rgb | None => (0, 0, 0)%Q end) (inject_Z s)
                       (map (nice_seg s b (size + b)) (all_runs m))]).
Proof.
  intros m size s border dark light content Hs Hb Hsize Hc b W.
  unfold pdf_content, pdf_words in Hc. rewrite valid_whb_int in Hc by assumption. fold b in Hc. cbn [bind] in Hc.
  assert (Hb0 : 0 <= b) by (apply get_border_nonneg; exact Hb).
  (* light *)
  set (fill := match light with Some c => match color_to_rgb c with Ok rgb => Some rgb | Err _ => None end | None => None end).
  assert (Hfill : match light with Some c => exists rgb, color_to_rgb c = Ok rgb /\ fill = Some rgb | None => fill = None end
                  /\ ok3 fill).
  { subst fill. destruct light as [c|]; [|split; [reflexivity|exact I]].
    destruct (color_to_rgb c) as [rgb|e] eqn:E; [|cbn [bind] in Hc; discriminate].
    split; [exists rgb; split; reflexivity|]. apply (color_to_rgb_3 c rgb E). }
  destruct Hfill as [Hfill Hok3f].
  set (stroke := if color_is_black dark then None else match color_to_rgb dark with Ok rgb => Some rgb | Err _ => None end).
  assert (Hstroke : (if color_is_black dark then stroke = None else exists rgb, color_to_rgb dark = Ok rgb /\ stroke = Some rgb)
                    /\ ok3 stroke).
  { subst stroke. destruct (color_is_black dark); [split; [reflexivity|exact I]|].
    destruct light as [c|]; [destruct (color_to_rgb c) as [rgbl|e] eqn:El; cbn [bind] in Hc; [|discriminate]|];
    (destruct (color_to_rgb dark) as [rgb|e] eqn:E; [|cbn [bind] in Hc; discriminate]);
    (split; [exists rgb; split; reflexivity|apply (color_to_rgb_3 dark rgb E)]). }
  destruct Hstroke as [Hstroke Hok3s].
  exists fill, stroke. split; [exact Hfill|]. split; [exact Hstroke|].
  (* the words *)
  set (K := size + b - 1).
  assert (HK : 0 <= K) by (subst K; lia).
  assert (Hy : (inject_Z (size + b) - (1 # 2) == (2 * K + 1) # 2)%Q).
  { subst K. unfold Qeq, Qminus, Qplus, Qopp, inject_Z. cbn [Qnum Qden]. lia. }
  set (ws := match fill with Some rgb => map (pdf_component color_text) rgb ++ [lit "rg"; lit "0"; lit "0"; dec W; dec W; lit "re"; lit "f"; lit "q"] | None => [] end
             ++ (if pn_ne_one (PInt s) then [dec s; lit "0"; lit "0"; dec s; lit "0"; lit "0"; lit "cm"] else [])
             ++ match stroke with Some rgb => map (pdf_component color_text) rgb ++ [lit "RG"] | None => [] end
             ++ [lit "1"; lit "0"; lit "0"; lit "1"; dec b; float_repr (inject_Z (size + b) - (1 # 2)); lit "cm"]
             ++ flat_map pdf_line_words (matrix_to_lines m 0 0 (-1 # 1)) ++ [lit "S"]).
  assert (Hcontent : content = join sp ws).
  { subst ws fill stroke. cbn [pn_text pn_mul] in Hc. fold W in Hc.
    destruct light as [c|]; [destruct (color_to_rgb c) as [rgbl|e] eqn:El; cbn [bind] in Hc; [|discriminate]|];
    (destruct (color_is_black dark); [|destruct (color_to_rgb dark) as [rgb|e] eqn:E; cbn [bind] in Hc; [|discriminate]]);
    cbn [bind] in Hc; inversion Hc; reflexivity. }
  assert (Hwok : forallb word_ok ws = true).
  { subst ws. rewrite (float_repr_half _ K Hy HK).
    assert (Happ : forall a b : list bytes, forallb word_ok a = true -> forallb word_ok b = true -> forallb word_ok (a ++ b) = true)
      by (intros a0 b0 Hxa Hxb; rewrite forallb_app, Hxa, Hxb; reflexivity).
    apply Happ; [|apply Happ; [|apply Happ; [|apply Happ; [|apply Happ]]]].
    - destruct fill as [rgb|]; [|reflexivity]. rewrite forallb_app. destruct (comps_ok rgb) as [H1 _].
      apply andb_true_intro. split; [exact H1|]. cbn [forallb]. rewrite !word_ok_dec. reflexivity.
    - destruct (pn_ne_one (PInt s)); [|reflexivity]. cbn [forallb]. rewrite !word_ok_dec. reflexivity.
    - destruct stroke as [rgb|]; [|reflexivity]. rewrite forallb_app. destruct (comps_ok rgb) as [H1 _].
      apply andb_true_intro. split; [exact H1|reflexivity].
    - cbn [forallb]. rewrite word_ok_dec, (word_ok_half K HK). reflexivity.
    - apply word_ok_pdf_lines.
    - reflexivity. }
  assert (Hlex : map lex_word ws
                 = bg_toks fill W ++ sc_toks s ++ fg_toks stroke
                   ++ [TNum 1; TNum 0; TNum 0; TNum 1; TNum (inject_Z b); TNum ((K * 10 + 5) # 10); TWord (lit "cm")]
                   ++ flat_map pdf_line_toks (matrix_to_lines m 0 0 (-1 # 1)) ++ [TWord (lit "S")]).
  { subst ws. rewrite !map_app.
    assert (Happ : forall a a' b b' : list tok, a = a' -> b = b' -> a ++ b = a' ++ b') by (intros; subst; reflexivity).
    apply Happ; [|apply Happ; [|apply Happ; [|apply Happ; [|apply Happ; [|reflexivity]]]]].
    - unfold bg_toks. destruct fill as [rgb|]; [|reflexivity]. rewrite map_app. destruct (comps_ok rgb) as [_ H2].
      apply Happ; [exact H2|]. cbn [map]. rewrite !lex_dec. reflexivity.
    - unfold sc_toks. destruct (pn_ne_one (PInt s)); [|reflexivity]. cbn [map]. rewrite !lex_dec. reflexivity.
    - unfold fg_toks. destruct stroke as [rgb|]; [|reflexivity]. rewrite map_app. destruct (comps_ok rgb) as [_ H2].
      apply Happ; [exact H2|reflexivity].
    - cbn [map]. rewrite lex_dec, (lex_half _ K Hy HK). reflexivity.
    - apply lex_pdf_lines. }
  unfold pdf_read_content. rewrite Hcontent, words_join by exact Hwok. rewrite Hlex.
  rewrite (pdf_run_prefix fill stroke s b K W _ Hok3f Hok3s).
  rewrite pdf_run_lines. cbn [app g_ctm].
  rewrite <- (map_map (line_seg (ctm_f s b K)) ESeg).
  destruct (st_mat_scale _ _ _ _ (ctm_f_st s b K)) as [A [HA1 HA2]].
  erewrite pdf_run_S; [|apply segs_of_segs|exact HA1].
  unfold mk_pdf. cbn [p_ops p_path p_out g_stroke g_lw].
  assert (E1 : out_bg fill W = match fill with Some rgb => [FillRect (rgbv rgb) (0, 0)%Q (inject_Z W, inject_Z W)] | None => [] end).
  { unfold out_bg, rgb_val. destruct fill as [rgb|]; [|reflexivity]. destruct Hok3f as (r & g & bb & ->).
    unfold red_rgb, red_point, mat_apply, id6. cbn [fst snd].
    rewrite (Qred_eq_Z (1 * 0 + 0 * 0 + 0) 0) by ring.
    rewrite (Qred_eq_Z (0 * 0 + 1 * 0 + 0) 0) by ring.
    rewrite (Qred_eq_Z (1 * (0 + inject_Z W) + 0 * (0 + inject_Z W) + 0) W) by ring.
    rewrite (Qred_eq_Z (0 * (0 + inject_Z W) + 1 * (0 + inject_Z W) + 0) W) by ring.
    reflexivity. }
  assert (E2 : red_rgb (g_fg stroke) = match stroke with Some rgb => rgbv rgb | None => (0, 0, 0)%Q end).
  { unfold g_fg, rgb_val. destruct stroke as [rgb|]; [|reflexivity]. destruct Hok3s as (r & g & bb & ->). reflexivity. }
  assert (E3 : Qred (1 * A) = inject_Z s) by (apply Qred_eq_Z; rewrite HA2; ring).
  assert (E4 : map red_seg (map (line_seg (ctm_f s b K)) (matrix_to_lines m 0 0 (-1 # 1))) = map (nice_seg s b (size + b)) (all_runs m)).
  { apply (red_line_segs (ctm_f s b K) s b size); [exact Hs| |apply lines_all_runs]. subst K. apply ctm_f_st. }
  rewrite E1, E2, E3, E4. reflexivity.
Qed.
End PdfContent2.

(* ------------------------------------------------------------------ *)
(** * 9. EPS: lines, comments, wrapping *)

Definition no10 (s : bytes) : bool := forallb (fun c => negb (Z.eqb 10 c)) s.

Lemma lines_of_write_lines L : forallb no10 L = true -> lines_of (write_lines L) = L ++ [[]].
Proof.
  induction L as [|l L IH]; intros H; [reflexivity|].
  cbn in H. apply andb_prop in H. destruct H as [Hl HL].
  unfold write_lines. cbn [flat_map]. fold (write_lines L). unfold nl. rewrite <- app_assoc. cbn [app].
  unfold lines_of. rewrite split_by_sep by reflexivity. rewrite split_by_none by exact Hl.
  fold (lines_of (write_lines L)). rewrite IH by exact HL. reflexivity.
Qed.

Lemma no10_join ws : forallb word_ok ws = true -> no10 (join sp ws) = true.
Proof.
  induction ws as [|w r IH]; intros H; [reflexivity|].
  cbn in H. apply andb_prop in H. destruct H as [Hw Hr].
  assert (Hw10 : no10 w = true).
  { unfold word_ok in Hw. apply andb_prop in Hw. destruct Hw as [_ Hw]. unfold no10.
    apply forallb_forall. intros c Hc. rewrite forallb_forall in Hw. specialize (Hw c Hc). unfold is_ws in Hw. lia. }
  destruct r as [|w2 r]; [exact Hw10|].
  change (join sp (w :: w2 :: r)) with (w ++ sp ++ join sp (w2 :: r)).
  unfold no10 in *. rewrite !forallb_app, Hw10, IH by exact Hr. reflexivity.
Qed.

(* words of a path line: well-formed and not starting with '%' *)
Definition pw_ok (w : bytes) : bool := word_ok w && match w with c :: _ => negb (c =? 37) | [] => false end.
Lemma pw_ok_word w : pw_ok w = true -> word_ok w = true.
Proof. unfold pw_ok. intros H. apply andb_prop in H. tauto. Qed.

Lemma join_snoc cw w : cw <> [] -> join sp cw ++ sp ++ w = join sp (cw ++ [w]).
Proof.
  induction cw as [|a cw IH]; intros Hne; [congruence|].
  destruct cw as [|a2 cw]; [reflexivity|].
  change (join sp (a :: a2 :: cw)) with (a ++ sp ++ join sp (a2 :: cw)).
  change ((a :: a2 :: cw) ++ [w]) with (a :: (a2 :: cw) ++ [w]).
  assert (E : join sp (a :: (a2 :: cw) ++ [w]) = a ++ sp ++ join sp ((a2 :: cw) ++ [w])) by reflexivity.
  rewrite E, <- IH by discriminate. rewrite <- !app_assoc. reflexivity.
Qed.

Definition eps_line_words (l : bytes) : list bytes := if is_comment l then [] else words l.

Lemma join_not_comment cw : cw <> [] -> forallb pw_ok cw = true -> is_comment (join sp cw) = false.
Proof.
  destruct cw as [|w r]; [congruence|]. intros _ H. cbn in H. apply andb_prop in H. destruct H as [Hw _].
  unfold pw_ok in Hw. apply andb_prop in Hw. destruct Hw as [_ Hw]. destruct w as [|c w]; [discriminate|].
  assert (Hc : forall t, is_comment (c :: t) = false).
  { intros t. unfold is_comment. destruct (c =? 37) eqn:E; [discriminate|].
    destruct c as [|p|p]; try reflexivity. do 6 (destruct p as [p|p|]; try reflexivity). lia. }
  destruct r as [|w2 r]; cbn [join app]; apply Hc.
Qed.

Lemma forallb_pw_word ws : forallb pw_ok ws = true -> forallb word_ok ws = true.
Proof.
  intros H. apply forallb_forall. intros w Hw. rewrite forallb_forall in H. apply pw_ok_word, H, Hw.
Qed.

Lemma wrap_words_words width ws : forall cw, cw <> [] -> forallb pw_ok cw = true -> forallb pw_ok ws = true ->
  flat_map eps_line_words (wrap_words width (join sp cw) ws) = cw ++ ws /\
  forallb no10 (wrap_words width (join sp cw) ws) = true.
Proof.
  induction ws as [|w ws IH]; intros cw Hne Hcw Hws.
  - cbn [wrap_words flat_map forallb]. rewrite !app_nil_r. unfold eps_line_words.
    rewrite join_not_comment, words_join, no10_join by (try apply forallb_pw_word; assumption). split; reflexivity.
  - cbn in Hws. apply andb_prop in Hws. destruct Hws as [Hw Hws]. cbn [wrap_words].
    destruct (lenZ (join sp cw) + 1 + lenZ w <=? width).
    + rewrite join_snoc by exact Hne.
      destruct (IH (cw ++ [w])) as [E1 E2].
      * destruct cw; discriminate.
      * rewrite forallb_app, Hcw. cbn. rewrite Hw. reflexivity.
      * exact Hws.
      * rewrite <- app_assoc in E1. split; [exact E1|exact E2].
    + change w with (join sp [w]) at 1 3.
      destruct (IH [w]) as [E1 E2]; [discriminate|cbn; rewrite Hw; reflexivity|exact Hws|].
      assert (F1 : eps_line_words (join sp cw) = cw).
      { unfold eps_line_words. rewrite join_not_comment, words_join by (try apply forallb_pw_word; assumption). reflexivity. }
      assert (F2 : no10 (join sp cw) = true) by (apply no10_join, forallb_pw_word; exact Hcw).
      split.
      * change (eps_line_words (join sp cw) ++ flat_map eps_line_words (wrap_words width (join sp [w]) ws) = cw ++ [w] ++ ws).
        rewrite F1. f_equal. exact E1.
      * change (no10 (join sp cw) && forallb no10 (wrap_words width (join sp [w]) ws) = true).
        rewrite F2. exact E2.
Qed.

Lemma wrap254_words ws : forallb pw_ok ws = true ->
  flat_map eps_line_words (wrap254 ws) = ws /\ forallb no10 (wrap254 ws) = true.
Proof.
  destruct ws as [|w ws]; intros H; [split; reflexivity|].
  cbn in H. apply andb_prop in H. destruct H as [Hw Hws].
  unfold wrap254. change w with (join sp [w]) at 1 3.
  destruct (wrap_words_words 254 ws [w]) as [E1 E2]; [discriminate|cbn; rewrite Hw; reflexivity|exact Hws|].
  split; [exact E1|exact E2].
Qed.

(* ------------------------------------------------------------------ *)
(** * 10. '{:f}' numbers *)

Lemma pad0_dec_k k p : (1 <= k)%nat -> 0 <= p < 10 ^ Z.of_nat k ->
  List.length (pad0 k (dec p)) = k /\ all_digits (pad0 k (dec p)) = true /\ digits_val (pad0 k (dec p)) = p.
Proof.
  intros Hk Hp. unfold pad0. rewrite dec_nonneg by lia.
  pose proof (dec_nat_length_le p k Hp Hk) as Hl.
  rewrite app_length, repeat_length, all_digits_app, all_digits_zeros, digits_val_zeros, dec_nat_digits, dec_nat_val by lia.
  repeat split. lia.
Qed.

Lemma split_sign_digit_head c r : is_digit c = true -> split_sign (c :: r) = (false, c :: r).
Proof. unfold is_digit, split_sign. intros H. destruct (c =? 45) eqn:E1; [lia|]. destruct (c =? 43) eqn:E2; [lia|]. reflexivity. Qed.

Lemma parse_number_frac (neg : bool) ip frac : 0 <= ip -> all_digits frac = true ->
  parse_number ((if neg then [45] else []) ++ dec ip ++ 46 :: frac)
  = Some (Qmake (if neg then - (ip * 10 ^ lenB frac + digits_val frac) else ip * 10 ^ lenB frac + digits_val frac)
                (Z.to_pos (10 ^ lenB frac))).
Proof.
  intros Hip Hf. rewrite dec_nonneg by exact Hip. unfold parse_number.
  assert (Hs : split_sign ((if neg then [45] else []) ++ dec_nat ip ++ 46 :: frac) = (neg, dec_nat ip ++ 46 :: frac)).
  { destruct neg; [reflexivity|]. cbn [app].
    pose proof (dec_nat_digits ip Hip) as Hd. pose proof (dec_nat_nonempty ip) as Hn.
    destruct (dec_nat ip) as [|c r]; [discriminate|]. cbn in Hd. apply andb_prop in Hd. destruct Hd as [Hc _].
    cbn [app]. apply split_sign_digit_head. exact Hc. }
  rewrite Hs. rewrite span_digits_all by (try (apply dec_nat_digits; exact Hip); reflexivity).
  rewrite Hf, dec_nat_nonempty, dec_nat_val by exact Hip. cbn [andb orb]. reflexivity.
Qed.

Lemma round_half_even_nonneg a b : 0 <= a -> 0 < b -> 0 <= round_half_even a b.
Proof.
  intros Ha Hb. unfold round_half_even.
  assert (0 <= a / b) by (apply Z.div_pos; lia).
  destruct (2 * (a mod b) <? b); [lia|]. destruct (b <? 2 * (a mod b)); [lia|]. destruct (Z.even (a / b)); lia.
Qed.

(* the rational denoted by the six-decimal text *)
Definition f6_val (q : Q) : Q :=
  let m := round_half_even (Z.abs (Qnum q) * 1000000) (Zpos (Qden q)) in
  (if Qnum q <? 0 then - m else m) # 1000000.

Lemma fmt_f6_ok q : word_ok (fmt_f6 q) = true /\ lex_word (fmt_f6 q) = TNum (f6_val q).
Proof.
  unfold fmt_f6, f6_val.
  set (m := round_half_even (Z.abs (Qnum q) * 1000000) (Zpos (Qden q))).
  assert (Hm : 0 <= m) by (apply round_half_even_nonneg; lia).
  assert (Hip : 0 <= m / 1000000) by (apply Z.div_pos; lia).
  destruct (pad0_dec_k 6 (m mod 1000000) ltac:(lia) ltac:(change (10 ^ Z.of_nat 6) with 1000000; lia)) as (L1 & L2 & L3).
  set (frac := pad0 6 (dec (m mod 1000000))) in *.
  split.
  - unfold word_ok. apply andb_true_intro. split.
    + destruct (Qnum q <? 0); [reflexivity|]. cbn [app]. pose proof (dec_nat_nonempty (m / 1000000)) as Hn.
      rewrite dec_nonneg by exact Hip. destruct (dec_nat (m / 1000000)); [discriminate|reflexivity].
    + rewrite !forallb_app. rewrite (digits_no_ws _ L2).
      pose proof (word_ok_dec (m / 1000000)) as Hw. unfold word_ok in Hw. apply andb_prop in Hw. destruct Hw as [_ Hw].
      rewrite Hw. destruct (Qnum q <? 0); reflexivity.
  - unfold lex_word. change ([46] ++ frac) with (46 :: frac).
    rewrite (parse_number_frac (Qnum q <? 0) (m / 1000000) frac Hip L2).
    assert (Hl : lenB frac = 6) by (unfold lenB; rewrite L1; reflexivity).
    rewrite Hl, L3. change (10 ^ 6) with 1000000. change (Z.to_pos 1000000) with 1000000%positive.
    replace (m / 1000000 * 1000000 + m mod 1000000) with m by lia. reflexivity.
Qed.

(* colour component as printed by write_eps *)
Definition eps_comp_val (c : Z) : Q := f6_val (c # 255)%Q.
Lemma eps_component_ok c : word_ok (eps_component c) = true /\ lex_word (eps_component c) = TNum (eps_comp_val c).
Proof. apply fmt_f6_ok. Qed.

(* accuracy: all 256 byte values are within half a unit of the sixth decimal of c/255 *)
Lemma eps_comp_accuracy :
  forallb (fun c => let v := eps_comp_val c in
                    Qle_bool (v - (c # 255)) (1 # 2000000) && Qle_bool ((c # 255) - v) (1 # 2000000)) (zrange 0 256) = true.
Proof. vm_compute. reflexivity. Qed.

(* ------------------------------------------------------------------ *)
(** * 11. Interpreting the EPS program *)

Definition mk_eps stack dict sx sy color cur path out : eps_state :=
  {| e_stack := stack; e_dict := dict; e_proc := None; e_sx := sx; e_sy := sy; e_color := color;
     e_cur := cur; e_path := path; e_out := out |}.
Definition eps_dict : list (bytes * list tok) :=
  [(lit "l", [TWord (lit "rlineto")]); (lit "m", [TWord (lit "rmoveto")])].

Definition eps_rest_line_toks (l : line) (x y : Q) : list tok :=
  [TNum (inject_Z (qz (l_x1 l - x))); TNum (inject_Z (qz (l_y l - y))); TWord (lit "m");
   TNum (inject_Z (qz (l_x2 l - l_x1 l))); TNum 0; TWord (lit "l")].
Fixpoint eps_rest_toks (ls : list line) (x y : Q) : list tok :=
  match ls with
  | [] => []
  | l :: r => eps_rest_line_toks l x y ++ eps_rest_toks r (l_x2 l) (l_y l)
  end.
Lemma lex_eps_rest ls : forall x y, map lex_word (eps_rest ls x y) = eps_rest_toks ls x y.
Proof.
  induction ls as [|l ls IH]; intros x y; [reflexivity|].
  cbn [eps_rest eps_rest_toks]. rewrite map_app. f_equal; [|apply IH].
  cbn [map]. rewrite !lex_dec. reflexivity.
Qed.
Lemma pw_ok_dec n : pw_ok (dec n) = true.
Proof.
  unfold pw_ok. rewrite word_ok_dec. cbn [andb]. unfold dec. destruct (n <? 0) eqn:E; [reflexivity|].
  pose proof (dec_nat_digits n ltac:(lia)) as Hd. pose proof (dec_nat_nonempty n) as Hn.
  destruct (dec_nat n) as [|c r]; [discriminate|]. cbn in Hd. apply andb_prop in Hd. destruct Hd as [Hc _].
  unfold is_digit in Hc. lia.
Qed.
Lemma pw_ok_eps_rest ls : forall x y, forallb pw_ok (eps_rest ls x y) = true.
Proof.
  induction ls as [|l ls IH]; intros x y; [reflexivity|].
  cbn [eps_rest]. rewrite forallb_app. apply andb_true_intro. split; [|apply IH].
  cbn [forallb]. rewrite !pw_ok_dec. reflexivity.
Qed.

(* path construction: every later line is  dx dy m  len 0 l  *)
Fixpoint eps_segs (sx sy cx cy : Q) (ls : list line) (x y : Q) : list segment * point :=
  match ls with
  | [] => ([], (cx, cy))
  | l :: r =>
      let p1x := (cx + sx * inject_Z (qz (l_x1 l - x)))%Q in
      let p1y := (cy + sy * inject_Z (qz (l_y l - y)))%Q in
      let p2x := (p1x + sx * inject_Z (qz (l_x2 l - l_x1 l)))%Q in
      let p2y := (p1y + sy * 0)%Q in
      let '(ss, c) := eps_segs sx sy p2x p2y r (l_x2 l) (l_y l) in
      (((p1x, p1y), (p2x, p2y)) :: ss, c)
  end.

Lemma eps_run_rest_line sx sy col cx cy segs out l x y X :
  fold_opt eps_tok (eps_rest_line_toks l x y ++ X) (mk_eps [] eps_dict sx sy col (Some (cx, cy)) (EPSegs segs) out)
  = let p1x := (cx + sx * inject_Z (qz (l_x1 l - x)))%Q in
    let p1y := (cy + sy * inject_Z (qz (l_y l - y)))%Q in
    let p2x := (p1x + sx * inject_Z (qz (l_x2 l - l_x1 l)))%Q in
    let p2y := (p1y + sy * 0)%Q in
    fold_opt eps_tok X (mk_eps [] eps_dict sx sy col (Some (p2x, p2y)) (EPSegs (segs ++ [((p1x, p1y), (p2x, p2y))])) out).
Proof. reflexivity. Qed.

Lemma eps_run_rest ls : forall sx sy col cx cy segs out x y X,
  fold_opt eps_tok (eps_rest_toks ls x y ++ X) (mk_eps [] eps_dict sx sy col (Some (cx, cy)) (EPSegs segs) out)
  = fold_opt eps_tok X (mk_eps [] eps_dict sx sy col (Some (snd (eps_segs sx sy cx cy ls x y)))
                               (EPSegs (segs ++ fst (eps_segs sx sy cx cy ls x y))) out).
Proof.
  induction ls as [|l ls IH]; intros sx sy col cx cy segs out x y X.
  - cbn [eps_rest_toks eps_segs app fst snd]. rewrite app_nil_r. reflexivity.
  - cbn [eps_rest_toks]. rewrite <- app_assoc, eps_run_rest_line. cbv zeta. rewrite IH.
    cbn [eps_segs].
    destruct (eps_segs sx sy _ _ ls (l_x2 l) (l_y l)) as [ss c] eqn:E. cbn [fst snd].
    rewrite <- app_assoc. reflexivity.
Qed.

Lemma qz_Z q z : (q == inject_Z z)%Q -> qz q = z.
Proof. intros H. unfold qz. apply py_int_integral. exact H. Qed.

Lemma row_y_eq s rows r q : (q == inject_Z s * (inject_Z rows - (1 # 2) - inject_Z r))%Q -> Qred q = row_y s rows r.
Proof.
  intros H. unfold row_y. apply Qred_complete. rewrite H. unfold Zminus. rewrite inject_Z_plus, inject_Z_opp. ring.
Qed.

Section EpsSegs.
Variables (s b size : Z) (sx sy y0 : Q).
Hypothesis Hsx : (sx == inject_Z s)%Q.
Hypothesis Hsy : (sy == inject_Z s)%Q.
Hypothesis Hy0 : (y0 == inject_Z (size + b) - (1 # 2))%Q.

Lemma eps_segs_nice ls ts : Forall2 (line_at (inject_Z b) y0 (-1 # 1)) ls ts ->
  forall cx cy x y xz rz,
  (x == inject_Z xz)%Q -> (y == y0 - inject_Z rz)%Q -> (cx == sx * x)%Q -> (cy == sy * y)%Q ->
  map red_seg (fst (eps_segs sx sy cx cy ls x y)) = map (nice_seg s b (size + b)) ts.
Proof.
  induction 1 as [|l [[r a] c] ls ts Hl _ IH]; intros cx cy x y xz rz Hx Hy Hcx Hcy; [reflexivity|].
  destruct Hl as (Ly & L1 & L2).
  assert (Q1 : qz (l_x1 l - x) = b + a - xz).
  { apply qz_Z. rewrite L1, Hx. unfold Zminus. rewrite !inject_Z_plus, inject_Z_opp. ring. }
  assert (Q2 : qz (l_y l - y) = rz - r).
  { apply qz_Z. rewrite Ly, Hy. unfold Zminus. rewrite !inject_Z_plus, inject_Z_opp. ring. }
  assert (Q3 : qz (l_x2 l - l_x1 l) = c - a).
  { apply qz_Z. rewrite L1, L2. unfold Zminus. rewrite !inject_Z_plus, inject_Z_opp. ring. }
  cbn [eps_segs]. rewrite Q1, Q2, Q3.
  set (p1x := (cx + sx * inject_Z (b + a - xz))%Q).
  set (p1y := (cy + sy * inject_Z (rz - r))%Q).
  set (p2x := (p1x + sx * inject_Z (c - a))%Q).
  set (p2y := (p1y + sy * 0)%Q).
  assert (E1x : (p1x == inject_Z (s * (b + a)))%Q).
  { subst p1x. rewrite Hcx, Hx, Hsx. unfold Zminus. rewrite !inject_Z_mult, !inject_Z_plus, inject_Z_opp. ring. }
  assert (E1y : (p1y == inject_Z s * (inject_Z (size + b) - (1 # 2) - inject_Z r))%Q).
  { subst p1y. rewrite Hcy, Hy, Hsy, Hy0. unfold Zminus. rewrite !inject_Z_plus, inject_Z_opp. ring. }
  assert (E2x : (p2x == inject_Z (s * (b + c)))%Q).
  { subst p2x. rewrite E1x, Hsx. unfold Zminus. rewrite !inject_Z_mult, !inject_Z_plus, inject_Z_opp. ring. }
  assert (E2y : (p2y == inject_Z s * (inject_Z (size + b) - (1 # 2) - inject_Z r))%Q).
  { subst p2y. rewrite E1y. ring. }
  specialize (IH p2x p2y (l_x2 l) (l_y l) (b + c) r).
  destruct (eps_segs sx sy p2x p2y ls (l_x2 l) (l_y l)) as [ss cc] eqn:E. cbn [fst map] in *.
  rewrite IH.
  - f_equal. unfold red_seg, red_point, nice_seg. cbn [fst snd].
    rewrite (Qred_eq_Z _ _ E1x), (Qred_eq_Z _ _ E2x), (row_y_eq _ _ _ _ E1y), (row_y_eq _ _ _ _ E2y). reflexivity.
  - rewrite L2, inject_Z_plus. reflexivity.
  - rewrite Ly. ring.
  - rewrite E2x, Hsx, L2, inject_Z_mult, inject_Z_plus. ring.
  - rewrite E2y, Hsy, Ly, Hy0. ring.
Qed.
End EpsSegs.

Lemma all_runs_head m t ts : all_runs m = t :: ts -> fst (fst t) = 0.
Proof.
  unfold all_runs. destruct m as [|row rest]; [discriminate|].
  destruct (first_light (row :: rest)) eqn:E; cbn [app].
  - intros H. inversion H. reflexivity.
  - cbn [matrix_runs]. unfold first_light in E. destruct row as [|bit r]; [discriminate|].
    cbn [runs_of]. rewrite E. unfold attach. destruct (runs_of r (0 + 1)) as [|[a' b'] rs].
    + cbn [map app]. intros H. inversion H. reflexivity.
    + destruct (a' =? 0 + 1); cbn [map app]; intros H; inversion H; reflexivity.
Qed.
Lemma all_runs_nonempty m : m <> [] -> all_runs m <> [].
Proof.
  destruct m as [|row rest]; [congruence|]. intros _. unfold all_runs.
  destruct (first_light (row :: rest)) eqn:E; [discriminate|].
  cbn [app matrix_runs]. unfold first_light in E. destruct row as [|bit r]; [discriminate|].
  cbn [runs_of]. rewrite E. unfold attach. destruct (runs_of r (0 + 1)) as [|[a' b'] rs]; [discriminate|].
  destruct (a' =? 0 + 1); discriminate.
Qed.

Lemma pw_ok_fmt_f6 q : pw_ok (fmt_f6 q) = true.
Proof.
  unfold pw_ok. destruct (fmt_f6_ok q) as [Hw _]. rewrite Hw. cbn [andb]. unfold fmt_f6.
  destruct (Qnum q <? 0); [reflexivity|]. cbn [app].
  set (ip := round_half_even _ _ / 1000000).
  pose proof (pw_ok_dec ip) as H. unfold pw_ok in H. apply andb_prop in H. destruct H as [_ H].
  destruct (dec ip) as [|c r]; [discriminate|]. exact H.
Qed.

Lemma eps_line_words_join ws : ws <> [] -> forallb pw_ok ws = true -> eps_line_words (join sp ws) = ws.
Proof.
  intros Hne H. unfold eps_line_words. rewrite join_not_comment by assumption.
  apply words_join, forallb_pw_word, H.
Qed.

Lemma no10_dec n : no10 (dec n) = true.
Proof.
  pose proof (word_ok_dec n) as H. unfold word_ok in H. apply andb_prop in H. destruct H as [_ H].
  unfold no10. apply forallb_forall. intros c Hc. rewrite forallb_forall in H. specialize (H c Hc). unfold is_ws in H. lia.
Qed.

Definition eps_rgb (l : list Z) : rgb :=
  match l with
  | [r; g; b] => (Qred (eps_comp_val r), Qred (eps_comp_val g), Qred (eps_comp_val b))
  | _ => (0, 0, 0)%Q end.

Definition defs_words : list str :=
  [lit "/m"; lit "{"; lit "rmoveto"; lit "}"; lit "bind"; lit "def"; lit "/l"; lit "{"; lit "rlineto"; lit "}"; lit "bind"; lit "def"].
Definition defs_toks : list tok := map lex_word defs_words.
Definition eps_fill_toks (fill : option (list Z)) (black : bool) : list tok :=
  match fill with
  | Some rgb => map (fun c => TNum (eps_comp_val c)) rgb
                ++ [TWord (lit "setrgbcolor"); TWord (lit "clippath"); TWord (lit "fill")]
                ++ (if black then [TNum 0; TNum 0; TNum 0; TWord (lit "setrgbcolor")] else [])
  | None => [] end.
Definition eps_stroke_toks (stroke : option (list Z)) : list tok :=
  match stroke with Some rgb => map (fun c => TNum (eps_comp_val c)) rgb ++ [TWord (lit "setrgbcolor")] | None => [] end.
Definition eps_scale_toks (s : Z) : list tok :=
  if pn_ne_one (PInt s) then [TNum (inject_Z s); TNum (inject_Z s); TWord (lit "scale")] else [].
Definition eps_sx (s : Z) : Q := if pn_ne_one (PInt s) then (1 * inject_Z s)%Q else 1%Q.
Definition eps_vals (l : list Z) : rgb :=
  match l with [r; g; b] => (eps_comp_val r, eps_comp_val g, eps_comp_val b) | _ => (0, 0, 0)%Q end.
Definition eps_col (fill stroke : option (list Z)) (black : bool) : rgb :=
  match stroke with
  | Some l => eps_vals l
  | None => if black then (0, 0, 0)%Q else match fill with Some l => eps_vals l | None => (0, 0, 0)%Q end
  end.
Definition eps_out_fill (fill : option (list Z)) : list paint :=
  match fill with Some l => [FillPage (red_rgb (eps_vals l))] | None => [] end.

Lemma eps_run_prefix fill stroke black s X : ok3 fill -> ok3 stroke ->
  fold_opt eps_tok (defs_toks ++ eps_fill_toks fill black ++ eps_stroke_toks stroke ++ eps_scale_toks s
                    ++ [TWord (lit "newpath")] ++ X) eps_init
  = fold_opt eps_tok X (mk_eps [] eps_dict (eps_sx s) (eps_sx s) (eps_col fill stroke black) None (EPSegs []) (eps_out_fill fill)).
Proof.
  intros Hf Hs. unfold eps_scale_toks, eps_sx.
  destruct fill as [fl|]; [destruct Hf as (r & g & bb & ->)|];
  destruct stroke as [sl|]; try destruct Hs as (r' & g' & b' & ->);
  destruct black; destruct (pn_ne_one (PInt s)); reflexivity.
Qed.

Definition eps_first_toks (l0 : line) (yq : Q) : list tok :=
  [TNum (inject_Z (qz (l_x1 l0))); TNum yq; TWord (lit "moveto");
   TNum (inject_Z (qz (l_x2 l0 - l_x1 l0))); TNum 0; TWord (lit "l")].

Lemma eps_run_first sx sy col out l0 yq X :
  fold_opt eps_tok (eps_first_toks l0 yq ++ X) (mk_eps [] eps_dict sx sy col None (EPSegs []) out)
  = let p1x := (sx * inject_Z (qz (l_x1 l0)))%Q in
    let p1y := (sy * yq)%Q in
    let p2x := (p1x + sx * inject_Z (qz (l_x2 l0 - l_x1 l0)))%Q in
    let p2y := (p1y + sy * 0)%Q in
    fold_opt eps_tok X (mk_eps [] eps_dict sx sy col (Some (p2x, p2y)) (EPSegs [((p1x, p1y), (p2x, p2y))]) out).
Proof. reflexivity. Qed.

Lemma eps_tok_stroke sx sy col cur segs out :
  eps_tok (TWord (lit "stroke")) (mk_eps [] eps_dict sx sy col cur (EPSegs segs) out)
  = if Qeq_bool sx sy
    then Some (mk_eps [] eps_dict sx sy col None (EPSegs []) (out ++ [Stroke (red_rgb col) (Qred sx) (map red_seg segs)]))
    else None.
Proof. reflexivity. Qed.

(* the lines written by write_eps, as a function of the converted colours *)
Definition eps_header (date : str) (W : Z) : list str :=
  [lit "%!PS-Adobe-3.0 EPSF-3.0"; lit "%%Creator: " ++ CREATOR; lit "%%CreationDate: " ++ date;
   lit "%%DocumentData: Clean7Bit"; lit "%%BoundingBox: 0 0 " ++ dec W ++ sp ++ dec W;
   lit "/m { rmoveto } bind def"; lit "/l { rlineto } bind def"].
Definition eps_fill_lines (fill : option (list Z)) (black : bool) : list str :=
  match fill with
  | Some rgb => [join sp (eps_color_words rgb ++ [lit "setrgbcolor"; lit "clippath"; lit "fill"])]
                ++ (if black then [lit "0 0 0 setrgbcolor"] else [])
  | None => [] end.
Definition eps_stroke_lines (stroke : option (list Z)) : list str :=
  match stroke with Some rgb => [join sp (eps_color_words rgb ++ [lit "setrgbcolor"])] | None => [] end.
Definition eps_scale_lines (s : Z) : list str :=
  if pn_ne_one (PInt s) then [join sp [dec s; dec s; lit "scale"]] else [].
Definition eps_lines (date : str) (W s : Z) (fill stroke : option (list Z)) (black : bool) (pw : list str) : list str :=
  eps_header date W ++ eps_fill_lines fill black ++ eps_stroke_lines stroke ++ eps_scale_lines s
  ++ [lit "newpath"] ++ wrap254 pw ++ [lit "stroke"; lit "%%EOF"].

Lemma comps_eps_ok rgb :
  forallb pw_ok (eps_color_words rgb) = true /\
  map lex_word (eps_color_words rgb) = map (fun c => TNum (eps_comp_val c)) rgb.
Proof.
  unfold eps_color_words. induction rgb as [|c l [IH1 IH2]]; [split; reflexivity|].
  destruct (eps_component_ok c) as [_ H2]. cbn [map forallb]. unfold eps_component at 1. rewrite pw_ok_fmt_f6, IH1.
  split; [reflexivity|]. f_equal; [exact H2|exact IH2].
Qed.

Lemma forallb_app_intro {A} (f : A -> bool) a b : forallb f a = true -> forallb f b = true -> forallb f (a ++ b) = true.
Proof. intros Ha Hb. rewrite forallb_app, Ha, Hb. reflexivity. Qed.

Section EpsLines.
Variables (date : str) (W s : Z) (fill stroke : option (list Z)) (black : bool) (pw : list str).
Hypothesis Hdate : no10 date = true.
Hypothesis Hpw : forallb pw_ok pw = true.

Lemma eps_lines_no10 : forallb no10 (eps_lines date W s fill stroke black pw) = true.
Proof.
  unfold eps_lines.
  apply forallb_app_intro; [|apply forallb_app_intro; [|apply forallb_app_intro; [|apply forallb_app_intro; [|apply forallb_app_intro; [|apply forallb_app_intro]]]]].
  - unfold eps_header. cbn [forallb]. unfold no10 at 3 5. rewrite !forallb_app.
    change (forallb (fun c => negb (10 =? c)) date) with (no10 date). rewrite Hdate.
    change (forallb (fun c => negb (10 =? c)) (dec W)) with (no10 (dec W)). rewrite no10_dec. reflexivity.
  - unfold eps_fill_lines. destruct fill as [rgb|]; [|reflexivity]. apply forallb_app_intro; [|destruct black; reflexivity].
    cbn [forallb]. rewrite no10_join; [reflexivity|]. apply forallb_pw_word. apply forallb_app_intro; [apply comps_eps_ok|reflexivity].
  - unfold eps_stroke_lines. destruct stroke as [rgb|]; [|reflexivity].
    cbn [forallb]. rewrite no10_join; [reflexivity|]. apply forallb_pw_word. apply forallb_app_intro; [apply comps_eps_ok|reflexivity].
  - unfold eps_scale_lines. destruct (pn_ne_one (PInt s)); [|reflexivity]. cbn [forallb]. rewrite no10_join; [reflexivity|].
    cbn [forallb]. rewrite !word_ok_dec. reflexivity.
  - reflexivity.
  - apply wrap254_words. exact Hpw.
  - reflexivity.
Qed.

Definition eps_prog_words : list str :=
  defs_words
  ++ match fill with
     | Some rgb => eps_color_words rgb ++ [lit "setrgbcolor"; lit "clippath"; lit "fill"]
                   ++ (if black then [lit "0"; lit "0"; lit "0"; lit "setrgbcolor"] else [])
     | None => [] end
  ++ match stroke with Some rgb => eps_color_words rgb ++ [lit "setrgbcolor"] | None => [] end
  ++ (if pn_ne_one (PInt s) then [dec s; dec s; lit "scale"] else [])
  ++ [lit "newpath"] ++ pw ++ [lit "stroke"].

Lemma header_words : flat_map eps_line_words (eps_header date W) = defs_words.
Proof.
  unfold eps_header. cbn [flat_map].
  assert (E1 : eps_line_words (lit "%!PS-Adobe-3.0 EPSF-3.0") = []) by (vm_compute; reflexivity).
  assert (E2 : eps_line_words (lit "%%Creator: " ++ CREATOR) = []) by (vm_compute; reflexivity).
  assert (E3 : eps_line_words (lit "%%CreationDate: " ++ date) = []) by reflexivity.
  assert (E4 : eps_line_words (lit "%%DocumentData: Clean7Bit") = []) by (vm_compute; reflexivity).
  assert (E5 : eps_line_words (lit "%%BoundingBox: 0 0 " ++ dec W ++ sp ++ dec W) = []) by reflexivity.
  assert (E6 : eps_line_words (lit "/m { rmoveto } bind def") = [lit "/m"; lit "{"; lit "rmoveto"; lit "}"; lit "bind"; lit "def"]) by (vm_compute; reflexivity).
  assert (E7 : eps_line_words (lit "/l { rlineto } bind def") = [lit "/l"; lit "{"; lit "rlineto"; lit "}"; lit "bind"; lit "def"]) by (vm_compute; reflexivity).
  rewrite E1, E2, E3, E4, E5, E6, E7. reflexivity.
Qed.

Lemma eps_lines_words : flat_map eps_line_words (eps_lines date W s fill stroke black pw ++ [[]]) = eps_prog_words.
Proof.
  unfold eps_lines, eps_prog_words.
  assert (FA : forall (a b : list str) (a' b' : list str), flat_map eps_line_words a = a' -> flat_map eps_line_words b = b' ->
               flat_map eps_line_words (a ++ b) = a' ++ b') by (intros a0 b0 a1 b1 <- <-; apply flat_map_app).
  rewrite <- !app_assoc.
  apply FA; [apply header_words|]. apply FA; [|apply FA; [|apply FA; [|apply FA; [|apply FA]]]].
  - unfold eps_fill_lines. destruct fill as [rgb|]; [|reflexivity]. rewrite (app_assoc (eps_color_words rgb)). apply FA.
    + cbn [flat_map]. rewrite app_nil_r. rewrite eps_line_words_join; [reflexivity| |].
      * destruct (eps_color_words rgb); discriminate.
      * apply forallb_app_intro; [apply comps_eps_ok|reflexivity].
    + destruct black; reflexivity.
  - unfold eps_stroke_lines. destruct stroke as [rgb|]; [|reflexivity]. cbn [flat_map]. rewrite app_nil_r.
    apply eps_line_words_join; [destruct (eps_color_words rgb); discriminate|].
    apply forallb_app_intro; [apply comps_eps_ok|reflexivity].
  - unfold eps_scale_lines. destruct (pn_ne_one (PInt s)); [|reflexivity]. cbn [flat_map]. rewrite app_nil_r.
    apply eps_line_words_join; [discriminate|]. cbn [forallb]. rewrite !pw_ok_dec. reflexivity.
  - reflexivity.
  - apply wrap254_words. exact Hpw.
  - reflexivity.
Qed.
End EpsLines.

Lemma eps_bbox_lines date W rest :
  first_some (fun l => match strip_prefix (str_of "%%BoundingBox:") l with
                       | Some r => match all_some (map parse_int (words r)) with
                                   | Some [a; b; c; d] => Some (a, b, c, d)
                                   | _ => None end
                       | None => None end) (eps_header date W ++ rest) = Some (0, 0, W, W).
Proof.
  unfold eps_header. cbn [app first_some].
  change (strip_prefix (str_of "%%BoundingBox:") (lit "%!PS-Adobe-3.0 EPSF-3.0")) with (@None bytes).
  change (strip_prefix (str_of "%%BoundingBox:") (lit "%%Creator: " ++ CREATOR)) with (@None bytes).
  change (strip_prefix (str_of "%%BoundingBox:") (lit "%%CreationDate: " ++ date)) with (@None bytes).
  change (strip_prefix (str_of "%%BoundingBox:") (lit "%%DocumentData: Clean7Bit")) with (@None bytes).
  cbv iota.
  change (strip_prefix (str_of "%%BoundingBox:") (lit "%%BoundingBox: 0 0 " ++ dec W ++ sp ++ dec W))
    with (Some (32 :: join sp [lit "0"; lit "0"; dec W; dec W])).
  cbv iota. change (32 :: ?x) with ([] ++ 32 :: x). rewrite words_sep by reflexivity.
  rewrite words_join by (cbn [forallb]; rewrite !word_ok_dec; reflexivity).
  change (words []) with (@nil bytes). cbn [app map]. rewrite !parse_int_dec. reflexivity.
Qed.

Lemma lex_prog_words s fill stroke black pw ptoks : map lex_word pw = ptoks ->
  map lex_word (eps_prog_words s fill stroke black pw)
  = defs_toks ++ eps_fill_toks fill black ++ eps_stroke_toks stroke ++ eps_scale_toks s
    ++ [TWord (lit "newpath")] ++ ptoks ++ [TWord (lit "stroke")].
Proof.
  intros Hp. unfold eps_prog_words. rewrite !map_app.
  assert (Happ : forall a a' b b' : list tok, a = a' -> b = b' -> a ++ b = a' ++ b') by (intros; subst; reflexivity).
  apply Happ; [reflexivity|]. apply Happ; [|apply Happ; [|apply Happ; [|apply Happ; [reflexivity|apply Happ; [exact Hp|reflexivity]]]]].
  - unfold eps_fill_toks. destruct fill as [rgb|]; [|reflexivity]. rewrite !map_app.
    apply Happ; [apply comps_eps_ok|]. apply Happ; [reflexivity|]. destruct black; reflexivity.
  - unfold eps_stroke_toks. destruct stroke as [rgb|]; [|reflexivity]. rewrite map_app. apply Happ; [apply comps_eps_ok|reflexivity].
  - unfold eps_scale_toks. destruct (pn_ne_one (PInt s)); [|reflexivity]. cbn [map]. rewrite !lex_dec. reflexivity.
Qed.

Lemma Ok_inj {A} (a b : A) : Ok a = Ok b -> a = b.
Proof. congruence. Qed.

Theorem eps_reads : forall m size s border dark light date file,
  1 <= s -> border_ok border -> 0 < size -> m <> [] -> no10 date = true ->
  write_eps m size size date (PInt s) border dark light = Ok file ->
  let b := get_border size size border in
  let W := (size + 2 * b) * s in
  exists fill stroke,
    (match light with Some c => exists rgb, color_to_rgb c = Ok rgb /\ fill = Some rgb | None => fill = None end) /\
    (if color_is_black dark then stroke = None else exists rgb, color_to_rgb dark = Ok rgb /\ stroke = Some rgb) /\
    eps_read file
    = Some {| eps_box := (0, 0, W, W);
              eps_paint := match fill with Some rgb => [FillPage (eps_rgb rgb)] | None => [] end
                           ++ [Stroke (match stroke with Some rgb => eps_rgb rgb | None => (0, 0, 0)%Q end) (inject_Z s)
                                      (map (nice_seg s b (size + b)) (all_runs m))] |}.
Proof.
  intros m size s border dark light date file Hs Hb Hsize Hm Hdate Hc b W.
  unfold write_eps in Hc. rewrite valid_whb_int in Hc by assumption. fold b in Hc. cbn [bind] in Hc.
  assert (Hb0 : 0 <= b) by (apply get_border_nonneg; exact Hb).
  set (black := color_is_black dark) in *.
  set (y0 := (inject_Z (size + b) - (1 # 2))%Q) in *.
  set (ls := matrix_to_lines m (inject_Z b) y0 (-1 # 1)) in *.
  pose proof (lines_all_runs m (inject_Z b) y0 (-1 # 1)) as Hruns. fold ls in Hruns.
  destruct (all_runs m) as [|t0 ts] eqn:Eruns; [exfalso; apply (all_runs_nonempty m Hm); exact Eruns|].
  pose proof (all_runs_head m t0 ts Eruns) as Hr0.
  inversion Hruns as [|l0 t0' lr ts' Hl0 Hlr Els Ets]. subst t0' ts'.
  rewrite <- Els in Hc.
  set (stroke := if black then None else match color_to_rgb dark with Ok rgb => Some rgb | Err _ => None end).
  set (fill := match light with Some c => match color_to_rgb c with Ok rgb => Some rgb | Err _ => None end | None => None end).
  assert (Hstroke : (if black then stroke = None else exists rgb, color_to_rgb dark = Ok rgb /\ stroke = Some rgb) /\ ok3 stroke).
  { subst stroke. destruct black; [split; [reflexivity|exact I]|].
    destruct (color_to_rgb dark) as [rgb|e] eqn:E; [|cbn [bind] in Hc; discriminate].
    split; [exists rgb; split; reflexivity|apply (color_to_rgb_3 dark rgb E)]. }
  assert (Hfill : match light with Some c => exists rgb, color_to_rgb c = Ok rgb /\ fill = Some rgb | None => fill = None end /\ ok3 fill).
  { subst fill. destruct light as [c|]; [|split; [reflexivity|exact I]].
    destruct (color_to_rgb c) as [rgb|e] eqn:E.
    - split; [exists rgb; split; reflexivity|apply (color_to_rgb_3 c rgb E)].
    - exfalso. destruct black; [|destruct (color_to_rgb dark)]; cbn [bind] in Hc; discriminate. }
  destruct Hstroke as [Hstroke Hok3s]. destruct Hfill as [Hfill Hok3f].
  exists fill, stroke. split; [exact Hfill|]. split; [exact Hstroke|].
  set (pw := eps_path_words (l0 :: lr) y0).
  assert (Hfile : file = write_lines (eps_lines date W s fill stroke black pw)).
  { subst fill stroke pw. cbn [pn_text pn_mul] in Hc. fold W in Hc.
    destruct black; [|destruct (color_to_rgb dark) as [rgb|e] eqn:E; cbn [bind] in Hc; [|discriminate]];
    (destruct light as [c|]; [destruct (color_to_rgb c) as [rgbl|e2] eqn:El; cbn [bind] in Hc; [|discriminate]|]);
    cbn [bind] in Hc; apply Ok_inj in Hc; symmetry; exact Hc. }
  (* the path words *)
  destruct t0 as [[r0 a0] c0]. cbn [fst] in Hr0. subst r0.
  destruct Hl0 as (Ly0 & L10 & L20).
  set (K := size + b - 1). assert (HK : 0 <= K) by (subst K; lia).
  assert (Hy : (l_y l0 == (2 * K + 1) # 2)%Q).
  { rewrite Ly0. subst y0 K. unfold Qeq, Qminus, Qplus, Qmult, Qopp, inject_Z. cbn [Qnum Qden]. lia. }
  assert (Hpwok : forallb pw_ok pw = true).
  { subst pw. cbn [eps_path_words]. apply forallb_app_intro; [|apply pw_ok_eps_rest].
    rewrite (float_repr_half _ K Hy HK). cbn [forallb]. rewrite !pw_ok_dec.
    assert (Hh : pw_ok (dec K ++ [46; 53]) = true).
    { unfold pw_ok. rewrite (word_ok_half K HK). pose proof (pw_ok_dec K) as H. unfold pw_ok in H.
      apply andb_prop in H. destruct H as [_ H]. destruct (dec K); [discriminate|exact H]. }
    rewrite Hh. reflexivity. }
  assert (Hlexpw : map lex_word pw = eps_first_toks l0 ((K * 10 + 5) # 10) ++ eps_rest_toks lr (l_x2 l0) y0).
  { subst pw. cbn [eps_path_words]. rewrite map_app, lex_eps_rest. f_equal.
    cbn [map]. rewrite !lex_dec, (lex_half _ K Hy HK). reflexivity. }
  unfold eps_read. rewrite Hfile, lines_of_write_lines by (apply eps_lines_no10; assumption).
  unfold eps_bbox. rewrite lines_of_write_lines by (apply eps_lines_no10; assumption).
  unfold eps_lines at 1. unfold eps_header at 1. cbn [app].
  change (strip_prefix (str_of "%!PS-Adobe-") (lit "%!PS-Adobe-3.0 EPSF-3.0")) with (Some (lit "3.0 EPSF-3.0")).
  change (find_after (str_of " EPSF-") (lit "%!PS-Adobe-3.0 EPSF-3.0")) with (Some (lit "3.0")).
  unfold eps_lines at 1. rewrite <- app_assoc. rewrite eps_bbox_lines.
  unfold eps_program_words. rewrite lines_of_write_lines by (apply eps_lines_no10; assumption).
  change (fun l : bytes => if is_comment l then [] else words l) with eps_line_words.
  rewrite eps_lines_words by assumption.
  rewrite (lex_prog_words _ _ _ _ _ _ Hlexpw).
  rewrite eps_run_prefix by assumption.
  rewrite <- app_assoc, eps_run_first. cbv zeta. rewrite eps_run_rest.
  set (sx := eps_sx s).
  assert (Hsx : (sx == inject_Z s)%Q).
  { subst sx. unfold eps_sx. rewrite pn_ne_one_int. destruct (s =? 1) eqn:E1; cbn [negb].
    - assert (Hs1 : s = 1) by lia. rewrite Hs1. reflexivity.
    - ring. }
  cbn [fold_opt]. rewrite eps_tok_stroke, Qeq_bool_refl. unfold mk_eps. cbn [e_proc e_out].
  f_equal. f_equal.
  assert (E1 : eps_out_fill fill = match fill with Some rgb => [FillPage (eps_rgb rgb)] | None => [] end).
  { unfold eps_out_fill. destruct fill as [rgb|]; [|reflexivity]. destruct Hok3f as (r & g & bb & ->). reflexivity. }
  assert (E2 : red_rgb (eps_col fill stroke black) = match stroke with Some rgb => eps_rgb rgb | None => (0, 0, 0)%Q end).
  { unfold eps_col. destruct stroke as [rgb|] eqn:Es.
    - destruct Hok3s as (r & g & bb & ->). reflexivity.
    - destruct black; [reflexivity|]. destruct Hstroke as (rgb & _ & Habs). discriminate. }
  assert (E3 : Qred sx = inject_Z s) by (apply Qred_eq_Z; exact Hsx).
  rewrite E1, E2, E3. f_equal. f_equal. f_equal.
  cbn [app map]. rewrite (qz_Z (l_x1 l0) (b + a0)) by (rewrite L10, inject_Z_plus; reflexivity).
  rewrite (qz_Z (l_x2 l0 - l_x1 l0) (c0 - a0)) by (rewrite L10, L20; unfold Zminus; rewrite inject_Z_plus, inject_Z_opp; ring).
  f_equal.
  - unfold red_seg, red_point, nice_seg. cbn [fst snd].
    rewrite (Qred_eq_Z (sx * inject_Z (b + a0)) (s * (b + a0))) by (rewrite Hsx, inject_Z_mult; reflexivity).
    rewrite (Qred_eq_Z (sx * inject_Z (b + a0) + sx * inject_Z (c0 - a0)) (s * (b + c0)))
      by (rewrite Hsx; unfold Zminus; rewrite !inject_Z_mult, !inject_Z_plus, inject_Z_opp; ring).
    rewrite (row_y_eq s (size + b) 0 (sx * ((K * 10 + 5) # 10)))
      by (rewrite Hsx, half_value; subst K; unfold Zminus; rewrite !inject_Z_plus, inject_Z_opp; change (inject_Z 0) with 0%Q; change (inject_Z 1) with 1%Q; ring).
    rewrite (row_y_eq s (size + b) 0 (sx * ((K * 10 + 5) # 10) + sx * 0))
      by (rewrite Hsx, half_value; subst K; unfold Zminus; rewrite !inject_Z_plus, inject_Z_opp; change (inject_Z 0) with 0%Q; change (inject_Z 1) with 1%Q; ring).
    reflexivity.
  - apply (eps_segs_nice s b size sx sx y0 Hsx Hsx ltac:(reflexivity) lr ts Hlr _ _ _ _ (b + c0) 0).
    + rewrite L20, inject_Z_plus. reflexivity.
    + change (inject_Z 0) with 0%Q. ring.
    + rewrite L20. unfold Zminus. rewrite !inject_Z_plus, inject_Z_opp. ring.
    + rewrite half_value. subst y0 K. unfold Zminus. rewrite !inject_Z_plus, inject_Z_opp. change (inject_Z 1) with 1%Q. ring.
Qed.

(* ------------------------------------------------------------------ *)
(** * 12. TeX / PGF *)

(* general form of seg_cells_nice: any height Y that lies on the centre line of grid row b + r *)
Lemma seg_cells_row s b top Y r a c : 1 <= s -> a <= c ->
  ((top - Y) / inject_Z s - (1 # 2) == inject_Z (b + r))%Q ->
  seg_cells (inject_Z s) top (inject_Z s) ((inject_Z (s * (b + a)), Y), (inject_Z (s * (b + c)), Y))
  = Some (map (fun cr => (b + fst cr, b + snd cr)) (triple_cells (r, a, c))).
Proof.
  intros Hs Hac E3. unfold seg_cells.
  assert (Hs0 : ~ (inject_Z s == 0)%Q) by (apply inject_Z_nonzero; lia).
  assert (E1 : (inject_Z (s * (b + a)) / inject_Z s == inject_Z (b + a))%Q) by (rewrite inject_Z_mult; field; exact Hs0).
  assert (E2 : (inject_Z (s * (b + c)) / inject_Z s == inject_Z (b + c))%Q) by (rewrite inject_Z_mult; field; exact Hs0).
  destruct (is_int_Z _ _ E1) as [I1 F1]. destruct (is_int_Z _ _ E2) as [I2 F2]. destruct (is_int_Z _ _ E3) as [I3 F3].
  rewrite !Qeq_bool_refl, I1, I2, I3, F1, F2, F3.
  assert (Hle : Qle_bool (inject_Z (s * (b + a)) / inject_Z s) (inject_Z (s * (b + c)) / inject_Z s) = true).
  { apply Qle_bool_iff. rewrite E1, E2. rewrite <- Zle_Qle. lia. }
  rewrite Hle. cbn [andb]. f_equal. unfold triple_cells. rewrite zrange_shift, !map_map. apply map_ext.
  intros x. cbn [fst snd]. reflexivity.
Qed.

(* the PGF stroke of a run: y axis pointing up, row b + r centred at y = -(b + r) * s *)
Definition tex_seg (s b : Z) (t : Z * Z * Z) : segment :=
  let '(r, a, c) := t in
  ((inject_Z (s * (b + a)), inject_Z (- (s * (b + r)))), (inject_Z (s * (b + c)), inject_Z (- (s * (b + r))))).

Theorem tex_segs_cover m s b : 1 <= s ->
  stroke_cells (inject_Z s) (inject_Z s * (1 # 2)) (inject_Z s) (map (tex_seg s b) (all_runs m)) = Some (dark_cells m b).
Proof.
  intros Hs. unfold stroke_cells. rewrite map_map.
  rewrite (concat_some_map _ (fun t => map (fun cr => (b + fst cr, b + snd cr)) (triple_cells t))).
  - rewrite flat_map_map_comm, all_runs_cells. reflexivity.
  - intros [[r a] c] Hin. unfold tex_seg. apply seg_cells_row; [exact Hs|apply (all_runs_ordered m _ Hin)|].
    assert (Hs0 : ~ (inject_Z s == 0)%Q) by (apply inject_Z_nonzero; lia).
    rewrite inject_Z_opp, inject_Z_mult, !inject_Z_plus. field. exact Hs0.
Qed.

(* lines of the document *)
Definition tex_mv (unit : str) (s : Z) (l : line) : str :=
  lit "  \pgfpathmoveto{" ++ tex_point unit (pn_mul (PInt (qz (l_x1 l))) (PInt s)) (pn_mul (PInt (qz (l_y l))) (PInt s)) ++ lit "}".
Definition tex_ln (unit : str) (s : Z) (l : line) : str :=
  lit "  \pgfpathlineto{" ++ tex_point unit (pn_mul (PInt (qz (l_x2 l))) (PInt s)) (pn_mul (PInt (qz (l_y l))) (PInt s)) ++ lit "}".
Definition has_url (url : option str) : bool := match url with Some (_ :: _) => true | _ => false end.
Definition tex_color (dark : option str) : option str :=
  match dark with Some ((_ :: _) as d) => if str_eqb d (lit "black") then None else Some d | _ => None end.
Definition tex_lines (date : str) (s : Z) (unit : str) (dark url : option str) (ls : list line) : list str :=
  [lit "% Creator:  " ++ CREATOR; lit "% Date:     " ++ date;
   (match url with Some ((_ :: _) as u) => lit "\href{" ++ u ++ lit "}{" | _ => [] end) ++ lit "\begin{pgfpicture}";
   lit "  \pgfsetlinewidth{" ++ dec s ++ unit ++ lit "}"]
  ++ (match tex_color dark with Some d => [lit "  \color{" ++ d ++ lit "}"] | None => [] end)
  ++ flat_map (fun l => [tex_mv unit s l; tex_ln unit s l]) ls
  ++ [lit "  \pgfusepath{stroke}"; lit "\end{pgfpicture}" ++ (if has_url url then lit "}" else [])].

Lemma write_lines_app a b : write_lines (a ++ b) = write_lines a ++ write_lines b.
Proof. unfold write_lines. apply flat_map_app. Qed.

Lemma tex_lines_pairs unit s ls :
  write_lines (flat_map (fun l => [tex_mv unit s l; tex_ln unit s l]) ls) = flat_map (tex_line unit (PInt s)) ls.
Proof.
  induction ls as [|l ls IH]; [reflexivity|].
  change (flat_map (fun l => [tex_mv unit s l; tex_ln unit s l]) (l :: ls))
    with ([tex_mv unit s l; tex_ln unit s l] ++ flat_map (fun l => [tex_mv unit s l; tex_ln unit s l]) ls).
  rewrite write_lines_app, IH. cbn [flat_map]. f_equal.
  unfold write_lines, tex_mv, tex_ln, tex_line. cbn [flat_map]. rewrite app_nil_r, <- !app_assoc. reflexivity.
Qed.

Lemma write_tex_lines m size date s border dark unit url : 1 <= s -> border_ok border ->
  write_tex m size size date (PInt s) border dark unit url
  = Ok (write_lines (tex_lines date s unit dark url
          (matrix_to_lines m (inject_Z (get_border size size border)) (inject_Z (- get_border size size border)) (-1 # 1)))).
Proof.
  intros Hs Hb. unfold write_tex. rewrite check_valid_scale_spec, check_border_int.
  destruct (s <? 1) eqn:E; [lia|]. cbn [bind].
  assert (Hbo : match border with Some b0 => if b0 <? 0 then Err ValueError else Ok tt | None => Ok tt end = Ok tt).
  { destruct border as [b0|]; [|reflexivity]. cbn in Hb. destruct (b0 <? 0) eqn:E2; [lia|reflexivity]. }
  rewrite Hbo. cbn [bind]. f_equal.
  unfold tex_lines. rewrite !write_lines_app, tex_lines_pairs.
  unfold write_lines. cbn [flat_map pn_text]. unfold tex_color, has_url.
  destruct url as [[|u0 u]|]; destruct dark as [[|d0 d]|]; try destruct (str_eqb (d0 :: d) (lit "black"));
    cbn [flat_map app]; rewrite ?app_nil_r; repeat (progress (cbn [app]; rewrite <- ?app_assoc)); reflexivity.
Qed.

Definition unit_ok (u : str) : bool := forallb (fun c => negb (is_numch c) && negb (c =? 125) && negb (10 =? c)) u.
Definition txt_ok (t : str) : bool := forallb (fun c => negb (c =? 125) && negb (10 =? c)) t.

Lemma bytes_eqb_refl a : bytes_eqb a a = true.
Proof. induction a as [|x a IH]; [reflexivity|]. cbn. rewrite Z.eqb_refl. exact IH. Qed.

Lemma span_by_app f a rest : forallb f a = true -> (match rest with c :: _ => f c = false | [] => True end) ->
  span_by f (a ++ rest) = (a, rest).
Proof.
  induction a as [|c a IH]; intros Ha Hr.
  - cbn [app]. destruct rest as [|c r]; [reflexivity|]. cbn [span_by]. rewrite Hr. reflexivity.
  - cbn in Ha. apply andb_prop in Ha. destruct Ha as [Hc Ha]. cbn [app span_by]. rewrite Hc, (IH Ha Hr). reflexivity.
Qed.

Lemma dec_numch n : forallb is_numch (dec n) = true.
Proof.
  unfold dec. destruct (n <? 0) eqn:E.
  - cbn [forallb]. apply andb_true_intro. split; [reflexivity|].
    apply forallb_forall. intros c Hc. pose proof (dec_nat_digits (- n) ltac:(lia)) as Hd.
    unfold all_digits in Hd. rewrite forallb_forall in Hd. unfold is_numch. rewrite (Hd c Hc). reflexivity.
  - apply forallb_forall. intros c Hc. pose proof (dec_nat_digits n ltac:(lia)) as Hd.
    unfold all_digits in Hd. rewrite forallb_forall in Hd. unfold is_numch. rewrite (Hd c Hc). reflexivity.
Qed.
Lemma dec_no125 n : forallb (fun c => negb (c =? 125)) (dec n) = true.
Proof.
  apply forallb_forall. intros c Hc. pose proof (dec_numch n) as H. rewrite forallb_forall in H. specialize (H c Hc).
  unfold is_numch, is_digit in H. lia.
Qed.

Section Tex.
Variable unit : str.
Hypothesis Hunit : unit_ok unit = true.

Lemma unit_head : match unit with c :: _ => is_numch c = false | [] => True end.
Proof.
  destruct unit as [|c u]; [exact I|]. unfold unit_ok in Hunit. cbn in Hunit.
  apply andb_prop in Hunit. destruct Hunit as [H _]. destruct (is_numch c); [discriminate|reflexivity].
Qed.
Lemma unit_no125 : forallb (fun c => negb (c =? 125)) unit = true.
Proof.
  apply forallb_forall. intros c Hc. unfold unit_ok in Hunit. rewrite forallb_forall in Hunit. specialize (Hunit c Hc). lia.
Qed.

Lemma pgf_dimen_dec n : pgf_dimen (dec n ++ unit) = Some (inject_Z n, unit).
Proof.
  unfold pgf_dimen. rewrite span_by_app by (try apply dec_numch; apply unit_head). rewrite parse_number_dec. reflexivity.
Qed.
Lemma pgf_braced_dec n rest : pgf_braced (123 :: dec n ++ unit ++ 125 :: rest) = Some (dec n ++ unit, rest).
Proof.
  unfold pgf_braced. rewrite app_assoc. apply cut_first_app. rewrite forallb_app, dec_no125, unit_no125. reflexivity.
Qed.
Lemma pgf_qpoint_dec x y :
  pgf_qpoint (123 :: lit "\pgfqpoint{" ++ dec x ++ unit ++ lit "}{" ++ dec y ++ unit ++ lit "}" ++ lit "}")
  = Some (inject_Z x, inject_Z y, unit).
Proof.
  unfold pgf_qpoint.
  assert (E : forall X, strip_prefix (str_of "{\pgfqpoint") (123 :: lit "\pgfqpoint{" ++ X) = Some (123 :: X)) by reflexivity.
  rewrite E.
  change (lit "}{" ++ dec y ++ unit ++ lit "}" ++ lit "}") with (125 :: 123 :: dec y ++ unit ++ 125 :: [125]).
  rewrite pgf_braced_dec, pgf_braced_dec, !pgf_dimen_dec, bytes_eqb_refl. reflexivity.
Qed.

Definition mk_pgf href lw col cur segs units out : pgf_state :=
  {| t_open := true; t_closed := false; t_href := href; t_lw := lw; t_color := col; t_cur := cur;
     t_segs := segs; t_units := units; t_out := out |}.

Lemma pgf_line_mv s l href lw col cur segs units out :
  pgf_line (tex_mv unit s l) (mk_pgf href lw col cur segs units out)
  = Some (mk_pgf href lw col (Some (inject_Z (qz (l_x1 l) * s), inject_Z (qz (l_y l) * s))) segs (units ++ [unit]) out).
Proof.
  unfold tex_mv, tex_point. cbn [pn_mul pn_text]. rewrite <- !app_assoc.
  assert (E : forall X, pgf_line (lit "  \pgfpathmoveto{" ++ X) (mk_pgf href lw col cur segs units out)
              = match pgf_qpoint (123 :: X) with
                | Some (x, y, u) => Some (mk_pgf href lw col (Some (x, y)) segs (units ++ [u]) out)
                | None => None end) by reflexivity.
  rewrite E, pgf_qpoint_dec. reflexivity.
Qed.
Lemma pgf_line_ln s l href lw col c0 segs units out :
  pgf_line (tex_ln unit s l) (mk_pgf href lw col (Some c0) segs units out)
  = Some (mk_pgf href lw col (Some (inject_Z (qz (l_x2 l) * s), inject_Z (qz (l_y l) * s)))
                 (segs ++ [(c0, (inject_Z (qz (l_x2 l) * s), inject_Z (qz (l_y l) * s)))]) (units ++ [unit]) out).
Proof.
  unfold tex_ln, tex_point. cbn [pn_mul pn_text]. rewrite <- !app_assoc.
  assert (E : forall X, pgf_line (lit "  \pgfpathlineto{" ++ X) (mk_pgf href lw col (Some c0) segs units out)
              = match pgf_qpoint (123 :: X) with
                | Some (x, y, u) => Some (mk_pgf href lw col (Some (x, y)) (segs ++ [(c0, (x, y))]) (units ++ [u]) out)
                | None => None end) by reflexivity.
  rewrite E, pgf_qpoint_dec. reflexivity.
Qed.

Definition tex_raw_seg (s : Z) (l : line) : segment :=
  ((inject_Z (qz (l_x1 l) * s), inject_Z (qz (l_y l) * s)), (inject_Z (qz (l_x2 l) * s), inject_Z (qz (l_y l) * s))).

Lemma pgf_run_pairs s ls : forall href lw col cur segs units out X,
  fold_opt pgf_line (flat_map (fun l => [tex_mv unit s l; tex_ln unit s l]) ls ++ X) (mk_pgf href lw col cur segs units out)
  = fold_opt pgf_line X (mk_pgf href lw col (match ls with [] => cur | _ => Some (snd (tex_raw_seg s (last ls {| l_x1 := 0; l_x2 := 0; l_y := 0 |}))) end)
                                (segs ++ map (tex_raw_seg s) ls) (units ++ flat_map (fun _ => [unit; unit]) ls) out).
Proof.
  induction ls as [|l ls IH]; intros href lw col cur segs units out X.
  - cbn [flat_map map app]. rewrite !app_nil_r. reflexivity.
  - change (flat_map (fun l0 => [tex_mv unit s l0; tex_ln unit s l0]) (l :: ls))
      with ([tex_mv unit s l; tex_ln unit s l] ++ flat_map (fun l0 => [tex_mv unit s l0; tex_ln unit s l0]) ls).
    rewrite <- app_assoc. cbn [app fold_opt]. rewrite pgf_line_mv, pgf_line_ln, IH.
    cbn [flat_map map]. rewrite <- !app_assoc. cbn [app].
    destruct ls as [|l2 ls]; [reflexivity|]. reflexivity.
Qed.
End Tex.

Lemma txt_no10 t : txt_ok t = true -> no10 t = true.
Proof.
  intros H. unfold no10. apply forallb_forall. intros c Hc. unfold txt_ok in H. rewrite forallb_forall in H.
  specialize (H c Hc). lia.
Qed.
Lemma txt_no125 t : txt_ok t = true -> forallb (fun c => negb (c =? 125)) t = true.
Proof.
  intros H. apply forallb_forall. intros c Hc. unfold txt_ok in H. rewrite forallb_forall in H. specialize (H c Hc). lia.
Qed.
Lemma unit_no10 u : unit_ok u = true -> no10 u = true.
Proof.
  intros H. unfold no10. apply forallb_forall. intros c Hc. unfold unit_ok in H. rewrite forallb_forall in H.
  specialize (H c Hc). lia.
Qed.
Lemma no10_app a b : no10 a = true -> no10 b = true -> no10 (a ++ b) = true.
Proof. unfold no10. intros Ha Hb. rewrite forallb_app, Ha, Hb. reflexivity. Qed.

Definition opt_ok (o : option str) : Prop := match o with Some t => txt_ok t = true | None => True end.

Section TexMain.
Variables (unit date : str) (dark url : option str) (s : Z).
Hypothesis Hunit : unit_ok unit = true.
Hypothesis Hdate : no10 date = true.
Hypothesis Hdark : opt_ok dark.
Hypothesis Hurl : opt_ok url.

Lemma tex_mv_no10 l : no10 (tex_mv unit s l) = true.
Proof.
  unfold tex_mv, tex_point. cbn [pn_mul pn_text].
  repeat first [apply no10_dec | apply unit_no10; exact Hunit | apply no10_app | reflexivity].
Qed.
Lemma tex_ln_no10 l : no10 (tex_ln unit s l) = true.
Proof.
  unfold tex_ln, tex_point. cbn [pn_mul pn_text].
  repeat first [apply no10_dec | apply unit_no10; exact Hunit | apply no10_app | reflexivity].
Qed.

Lemma tex_lines_no10 ls : forallb no10 (tex_lines date s unit dark url ls) = true.
Proof.
  unfold tex_lines. apply forallb_app_intro; [|apply forallb_app_intro; [|apply forallb_app_intro]].
  - cbn [forallb]. apply andb_true_intro. split; [reflexivity|].
    apply andb_true_intro. split; [apply no10_app; [reflexivity|exact Hdate]|].
    apply andb_true_intro. split.
    + apply no10_app; [|reflexivity]. destruct url as [[|u0 u]|]; try reflexivity.
      apply no10_app; [reflexivity|]. apply no10_app; [apply txt_no10; exact Hurl|reflexivity].
    + apply andb_true_intro. split; [|reflexivity].
      apply no10_app; [reflexivity|]. apply no10_app; [apply no10_dec|]. apply no10_app; [apply unit_no10; exact Hunit|reflexivity].
  - unfold tex_color. destruct dark as [[|d0 d]|]; try reflexivity.
    destruct (str_eqb (d0 :: d) (lit "black")); [reflexivity|].
    cbn [forallb]. apply andb_true_intro. split; [|reflexivity].
    apply no10_app; [reflexivity|]. apply no10_app; [apply txt_no10; exact Hdark|reflexivity].
  - induction ls as [|l ls IH]; [reflexivity|]. cbn [flat_map app forallb]. rewrite tex_mv_no10, tex_ln_no10. exact IH.
  - cbn [forallb]. destruct (has_url url); reflexivity.
Qed.

Lemma pgf_open_line :
  pgf_line ((match url with Some ((_ :: _) as u) => lit "\href{" ++ u ++ lit "}{" | _ => [] end) ++ lit "\begin{pgfpicture}") pgf_init
  = Some (mk_pgf (has_url url) None None None [] [] []).
Proof.
  destruct url as [[|u0 u]|]; try reflexivity.
  rewrite <- !app_assoc.
  assert (E : forall X, pgf_line (lit "\href{" ++ X) pgf_init
              = let '(href, l1) := match cut_first 125 X with
                                   | Some (_, 123 :: r1) => (true, r1)
                                   | _ => (false, lit "\href{" ++ X) end in
                if bytes_eqb l1 (str_of "\begin{pgfpicture}")
                then Some (mk_pgf href None None None [] [] []) else None) by reflexivity.
  rewrite E. change (lit "}{" ++ lit "\begin{pgfpicture}") with (125 :: 123 :: lit "\begin{pgfpicture}").
  rewrite cut_first_app by (apply txt_no125; exact Hurl). reflexivity.
Qed.

Lemma pgf_lw_line href :
  pgf_line (lit "  \pgfsetlinewidth{" ++ dec s ++ unit ++ lit "}") (mk_pgf href None None None [] [] [])
  = Some (mk_pgf href (Some (inject_Z s, unit)) None None [] [] []).
Proof.
  assert (E : forall X, pgf_line (lit "  \pgfsetlinewidth{" ++ X) (mk_pgf href None None None [] [] [])
              = match pgf_braced (123 :: X) with
                | Some (d, []) => match pgf_dimen d with
                                  | Some (q, u) => Some (mk_pgf href (Some (q, u)) None None [] [] [])
                                  | None => None end
                | _ => None end) by reflexivity.
  rewrite E. change (lit "}") with [125]. rewrite (pgf_braced_dec unit Hunit), (pgf_dimen_dec unit Hunit). reflexivity.
Qed.

Lemma pgf_color_line href lw d : txt_ok d = true ->
  pgf_line (lit "  \color{" ++ d ++ lit "}") (mk_pgf href lw None None [] [] [])
  = Some (mk_pgf href lw (Some d) None [] [] []).
Proof.
  intros Hd.
  assert (E : forall X, pgf_line (lit "  \color{" ++ X) (mk_pgf href lw None None [] [] [])
              = match cut_first 125 X with
                | Some (c, []) => Some (mk_pgf href lw (Some c) None [] [] [])
                | _ => None end) by reflexivity.
  rewrite E. change (lit "}") with [125]. rewrite cut_first_app by (apply txt_no125; exact Hd). reflexivity.
Qed.

Lemma pgf_stroke_line href w u col cur segs units out :
  pgf_line (lit "  \pgfusepath{stroke}") (mk_pgf href (Some (w, u)) col cur segs units out)
  = if forallb (bytes_eqb u) units
    then Some (mk_pgf href (Some (w, u)) col None [] [] (out ++ [(col, Qred w, map red_seg segs)])) else None.
Proof. reflexivity. Qed.

Lemma pgf_end_lines (href : bool) lw col out :
  fold_opt pgf_line [lit "\end{pgfpicture}" ++ (if href then lit "}" else []); @nil Z] (mk_pgf href lw col None [] [] out)
  = Some {| t_open := true; t_closed := true; t_href := href; t_lw := lw; t_color := col; t_cur := None;
            t_segs := []; t_units := []; t_out := out |}.
Proof. destruct href; reflexivity. Qed.

Lemma units_same (ls : list line) : forallb (bytes_eqb unit) (flat_map (fun _ : line => [unit; unit]) ls) = true.
Proof. induction ls as [|l ls IH]; [reflexivity|]. cbn [app flat_map forallb]. rewrite bytes_eqb_refl. exact IH. Qed.

Lemma tex_raw_segs b ls ts : Forall2 (line_at (inject_Z b) (inject_Z (- b)) (-1 # 1)) ls ts ->
  map red_seg (map (tex_raw_seg s) ls) = map (tex_seg s b) ts.
Proof.
  induction 1 as [|l [[r a] c] ls ts Hl _ IH]; [reflexivity|]. cbn [map]. rewrite IH. f_equal.
  destruct Hl as (Ly & L1 & L2).
  unfold tex_raw_seg, tex_seg, red_seg, red_point. cbn [fst snd].
  rewrite (qz_Z (l_x1 l) (b + a)) by (rewrite L1, inject_Z_plus; reflexivity).
  rewrite (qz_Z (l_x2 l) (b + c)) by (rewrite L2, inject_Z_plus; reflexivity).
  rewrite (qz_Z (l_y l) (- b - r)) by (rewrite Ly; unfold Zminus; rewrite inject_Z_plus, !inject_Z_opp; ring).
  rewrite !Qred_inject_Z.
  replace ((b + a) * s) with (s * (b + a)) by ring. replace ((b + c) * s) with (s * (b + c)) by ring.
  replace ((- b - r) * s) with (- (s * (b + r))) by ring. reflexivity.
Qed.

Theorem tex_reads : forall m size border file,
  1 <= s -> border_ok border ->
  write_tex m size size date (PInt s) border dark unit url = Ok file ->
  pgf_read file = Some {| pgf_unit := Some unit;
                          pgf_strokes := [(tex_color dark, inject_Z s, map (tex_seg s (get_border size size border)) (all_runs m))] |}.
Proof.
  intros m size border file Hs Hb Hw. rewrite write_tex_lines in Hw by assumption. apply Ok_inj in Hw. subst file.
  set (b := get_border size size border).
  set (ls := matrix_to_lines m (inject_Z b) (inject_Z (- b)) (-1 # 1)).
  unfold pgf_read. rewrite lines_of_write_lines by apply tex_lines_no10.
  unfold tex_lines. rewrite <- !app_assoc. cbn [app fold_opt].
  change (pgf_line (lit "% Creator:  " ++ CREATOR) pgf_init) with (Some pgf_init). cbv iota.
  change (pgf_line (lit "% Date:     " ++ date) pgf_init) with (Some pgf_init). cbv iota.
  rewrite pgf_open_line, pgf_lw_line.
  assert (Hcol : forall X, fold_opt pgf_line ((match tex_color dark with Some d => [lit "  \color{" ++ d ++ lit "}"] | None => [] end) ++ X)
                                    (mk_pgf (has_url url) (Some (inject_Z s, unit)) None None [] [] [])
                           = fold_opt pgf_line X (mk_pgf (has_url url) (Some (inject_Z s, unit)) (tex_color dark) None [] [] [])).
  { intros X. unfold tex_color. destruct dark as [[|d0 d]|]; try reflexivity.
    destruct (str_eqb (d0 :: d) (lit "black")); [reflexivity|].
    rewrite fold_opt_app. cbn [fold_opt]. rewrite pgf_color_line by exact Hdark. reflexivity. }
  rewrite Hcol. rewrite (pgf_run_pairs unit Hunit).
  assert (Hcons : forall (a : bytes) r st, fold_opt pgf_line (a :: r) st = match pgf_line a st with Some st' => fold_opt pgf_line r st' | None => None end) by reflexivity.
  cbn [app]. rewrite Hcons, pgf_stroke_line, units_same.
  rewrite pgf_end_lines. cbn [t_closed t_lw t_out app]. f_equal. f_equal. f_equal.
  rewrite Qred_inject_Z. f_equal. apply tex_raw_segs. apply lines_all_runs.
Qed.
End TexMain.

(* ------------------------------------------------------------------ *)
(** * 13. What [dark_cells] is: exactly the dark modules, each once, inside the page *)

Lemma NoDup_app_intro {A} (a b : list A) : NoDup a -> NoDup b -> (forall x, In x a -> In x b -> False) -> NoDup (a ++ b).
Proof.
  induction a as [|x a IH]; intros Ha Hb Hd; [exact Hb|]. inversion Ha as [|? ? Hx Ha']; subst.
  cbn [app]. constructor.
  - intros Hin. apply in_app_or in Hin. destruct Hin as [Hin|Hin]; [exact (Hx Hin)|]. apply (Hd x); [left; reflexivity|exact Hin].
  - apply IH; [exact Ha'|exact Hb|]. intros y Hy1 Hy2. apply (Hd y); [right; exact Hy1|exact Hy2].
Qed.

Lemma NoDup_map_inj {A B} (f : A -> B) l : (forall x y, f x = f y -> x = y) -> NoDup l -> NoDup (map f l).
Proof.
  intros Hf. induction 1 as [|x l Hx _ IH]; cbn [map]; constructor; [|exact IH].
  intros Hin. apply in_map_iff in Hin. destruct Hin as [y [E Hy]]. apply Hf in E. subst y. exact (Hx Hy).
Qed.

Lemma row_cells_NoDup row : forall c0, NoDup (row_cells row c0).
Proof.
  induction row as [|bit r IH]; intros c0; cbn [row_cells]; [constructor|].
  destruct (bit =? 0); cbn [app]; [apply IH|]. constructor; [|apply IH].
  intros H. apply row_cells_In in H. lia.
Qed.

Lemma matrix_cells_In m : forall r0 c r,
  In (c, r) (matrix_cells m r0) <->
  r0 <= r < r0 + lenZ m /\ In c (row_cells (nth (Z.to_nat (r - r0)) m []) 0).
Proof.
  induction m as [|row rest IH]; intros r0 c r; cbn [matrix_cells].
  - unfold lenZ. cbn. split; [intros []|lia].
  - rewrite in_app_iff, in_map_iff, IH. unfold lenZ. cbn [List.length]. rewrite Nat2Z.inj_succ. fold (lenZ rest).
    pose proof (lenZ_nonneg rest) as Hn.
    split.
    + intros [[c' [E Hc']]|[Hr Hc]].
      * inversion E; subst. rewrite Z.sub_diag. cbn [Z.to_nat nth]. split; [lia|exact Hc'].
      * replace (Z.to_nat (r - r0)) with (S (Z.to_nat (r - (r0 + 1)))) by lia. cbn [nth]. split; [lia|exact Hc].
    + intros [Hr Hc]. destruct (Z.eq_dec r r0) as [->|Hne].
      * left. exists c. rewrite Z.sub_diag in Hc. cbn [Z.to_nat nth] in Hc. split; [reflexivity|exact Hc].
      * right. replace (Z.to_nat (r - r0)) with (S (Z.to_nat (r - (r0 + 1)))) in Hc by lia. cbn [nth] in Hc.
        split; [lia|exact Hc].
Qed.

Lemma matrix_cells_NoDup m : forall r0, NoDup (matrix_cells m r0).
Proof.
  induction m as [|row rest IH]; intros r0; cbn [matrix_cells]; [constructor|].
  apply NoDup_app_intro.
  - apply NoDup_map_inj; [|apply row_cells_NoDup]. intros x y H. inversion H. reflexivity.
  - apply IH.
  - intros [c r] H1 H2. apply in_map_iff in H1. destruct H1 as [c' [E _]]. inversion E; subst.
    apply matrix_cells_In in H2. lia.
Qed.

(* a size x size matrix *)
Definition square (m : list (list Z)) (size : Z) : Prop := lenZ m = size /\ forall row, In row m -> lenZ row = size.

Theorem dark_cells_spec : forall m size b x y, square m size ->
  (In (x, y) (dark_cells m b) <->
   b <= x < b + size /\ b <= y < b + size /\ module_at m size (y - b) (x - b) <> 0).
Proof.
  intros m size b x y [Hlen Hrows]. unfold dark_cells. rewrite in_map_iff. split.
  - intros [[c r] [E Hin]]. cbn [fst snd] in E. inversion E; subst x y. clear E.
    apply matrix_cells_In in Hin. destruct Hin as [Hr Hc]. rewrite Z.sub_0_r in Hc. apply row_cells_In in Hc.
    rewrite Z.sub_0_r in Hc. destruct Hc as [Hc Hnz].
    assert (Hrow : lenZ (nth (Z.to_nat r) m []) = size).
    { apply Hrows. apply nth_In. unfold lenZ in Hr. lia. }
    rewrite Hrow in Hc. unfold module_at. replace (b + r - b) with r by lia. replace (b + c - b) with c by lia.
    replace ((0 <=? r) && (r <? size) && (0 <=? c) && (c <? size)) with true by lia.
    repeat split; try lia; exact Hnz.
  - intros (Hx & Hy & Hnz). exists (x - b, y - b). cbn [fst snd]. split; [f_equal; lia|].
    unfold module_at in Hnz. replace ((0 <=? y - b) && (y - b <? size) && (0 <=? x - b) && (x - b <? size)) with true in Hnz by lia.
    apply matrix_cells_In. rewrite Z.sub_0_r. split; [lia|]. apply row_cells_In. rewrite Z.sub_0_r.
    assert (Hrow : lenZ (nth (Z.to_nat (y - b)) m []) = size).
    { apply Hrows. apply nth_In. unfold lenZ in Hlen. lia. }
    rewrite Hrow. split; [lia|exact Hnz].
Qed.

Theorem dark_cells_NoDup : forall m b, NoDup (dark_cells m b).
Proof.
  intros m b. unfold dark_cells. apply NoDup_map_inj; [|apply matrix_cells_NoDup].
  intros [c r] [c' r'] H. cbn [fst snd] in H. inversion H. f_equal; lia.
Qed.

(* every covered cell lies on the page of (size + 2b) x (size + 2b) cells *)
Corollary dark_cells_on_page : forall m size b x y, square m size -> 0 <= b ->
  In (x, y) (dark_cells m b) -> 0 <= x < size + 2 * b /\ 0 <= y < size + 2 * b.
Proof. intros m size b x y Hsq Hb H. apply (dark_cells_spec m size b x y Hsq) in H. lia. Qed.

(* ------------------------------------------------------------------ *)
(** * 14. Main theorems *)

(** ** PDF *)
Section PdfTheorems.
Variable deflate : list Z -> list Z.
Variable color_text : Z -> str.
Variable color_val : Z -> Q.
Hypothesis color_text_ok : forall c, word_ok (color_text c) = true /\ parse_number (color_text c) = Some (color_val c).

Definition pdf_page_fill (fill : option (list Z)) (W : Z) : list paint :=
  match fill with Some rgb => [FillRect (rgb_val color_val rgb) (0, 0)%Q (inject_Z W, inject_Z W)] | None => [] end.
Definition pdf_stroke_color (stroke : option (list Z)) : rgb :=
  match stroke with Some rgb => rgb_val color_val rgb | None => (0, 0, 0)%Q end.
Definition light_is (light : option pycolor) (fill : option (list Z)) : Prop :=
  match light with Some c => exists rgb, color_to_rgb c = Ok rgb /\ fill = Some rgb | None => fill = None end.
Definition dark_is (dark : pycolor) (stroke : option (list Z)) : Prop :=
  if color_is_black dark then stroke = None else exists rgb, color_to_rgb dark = Ok rgb /\ stroke = Some rgb.

Theorem pdf_dark_cells : forall m size s border dark light content,
  1 <= s -> border_ok border -> 0 < size ->
  pdf_content color_text m size size (PInt s) border dark light = Ok content ->
  let b := get_border size size border in
  let W := (size + 2 * b) * s in
  exists fill stroke segs,
    light_is light fill /\ dark_is dark stroke /\
    pdf_read_content content = Some (pdf_page_fill fill W ++ [Stroke (pdf_stroke_color stroke) (inject_Z s) segs]) /\
    stroke_cells (inject_Z s) (inject_Z W) (inject_Z s) segs = Some (dark_cells m b).
Proof.
  intros m size s border dark light content Hs Hb Hsize Hc b W.
  destruct (pdf_content_reads color_text color_val color_text_ok m size s border dark light content Hs Hb Hsize Hc)
    as (fill & stroke & H1 & H2 & H3).
  exists fill, stroke, (map (nice_seg s b (size + b)) (all_runs m)).
  split; [exact H1|]. split; [exact H2|]. split; [exact H3|]. apply nice_segs_cover. exact Hs.
Qed.

(* /Length and the cross-reference table, for ANY stream bytes and ANY MediaBox / date texts *)
Theorem pdf_length_ok : forall w h date stream,
  let file := pdf_file w h date stream in
  lenZ file < 10 ^ 10 ->
  exists rest, object_at file 4 (nth 3 (pdf_offsets w h date stream) 0) = Some (body4 stream ++ rest) /\
               pdf_stream_of (body4 stream ++ rest) = Some (lenZ stream, stream).
Proof.
  intros w h date stream file Hsize. exists (rest_after w h date stream 4). split.
  - apply object4_at. exact Hsize.
  - apply stream_of_body4.
Qed.

Theorem pdf_xref_ok : forall w h date stream,
  let file := pdf_file w h date stream in
  let offs := pdf_offsets w h date stream in
  lenZ file < 10 ^ 10 ->
  pdf_startxref file = Some (nth 5 offs 0) /\
  (exists after, pdf_xref file (nth 5 offs 0) = Some ((0, 65535, false) :: map (fun p => (p, 0, true)) offs, after)) /\
  (forall k, 1 <= k <= 5 -> exists body, object_at file k (nth (Z.to_nat (k - 1)) offs 0) = Some body) /\
  object_at file 6 (nth 5 offs 0) = None.
Proof.
  intros w h date stream file offs Hsize. split; [apply pdf_startxref_ok; exact Hsize|].
  split; [eexists; apply pdf_xref_model; exact Hsize|]. split; [|apply object6_missing; exact Hsize].
  intros k Hk.
  assert (Hcases : k = 1 \/ k = 2 \/ k = 3 \/ k = 4 \/ k = 5) by lia.
  destruct Hcases as [->|[->|[->|[->| ->]]]]; eexists.
  - apply object1_at; exact Hsize.
  - apply object2_at; exact Hsize.
  - apply object3_at; exact Hsize.
  - apply object4_at; exact Hsize.
  - apply object5_at; exact Hsize.
Qed.

(* the whole file, integer scale: MediaBox = page of (size + 2b) * s points; stream = deflate(content) *)
Theorem pdf_page : forall m size s border dark light date file,
  1 <= s -> border_ok border ->
  write_pdf deflate color_text m size size date (PInt s) border dark light = Ok file ->
  lenZ file < 10 ^ 10 ->
  let W := (size + 2 * get_border size size border) * s in
  exists content,
    pdf_content color_text m size size (PInt s) border dark light = Ok content /\
    pdf_read_file 5 file
    = Some {| pd_xref_pos := nth 5 (pdf_offsets (dec W) (dec W) date (deflate content)) 0;
              pd_entries := (0, 65535, false) :: map (fun p => (p, 0, true)) (pdf_offsets (dec W) (dec W) date (deflate content));
              pd_mediabox := [0%Q; 0%Q; inject_Z W; inject_Z W];
              pd_length := lenZ (deflate content);
              pd_stream := deflate content |}.
Proof.
  intros m size s border dark light date file Hs Hb Hw Hsize W.
  unfold write_pdf in Hw. destruct (pdf_content color_text m size size (PInt s) border dark light) as [content|e] eqn:Ec;
    cbn [bind] in Hw; [|discriminate].
  rewrite valid_whb_int in Hw by assumption. cbn [bind pn_text] in Hw. fold W in Hw. apply Ok_inj in Hw. subst file.
  exists content. split; [reflexivity|].
  assert (H93 : forall n, forallb (fun c => negb (c =? 93)) (dec n) = true).
  { intros n. apply forallb_forall. intros c Hc. pose proof (dec_numch n) as H. rewrite forallb_forall in H. specialize (H c Hc).
    unfold is_numch, is_digit in H. lia. }
  apply (pdf_read_file_model (dec W) (dec W) date (deflate content) Hsize (word_ok_dec W) (word_ok_dec W) (H93 W) (H93 W)
           (inject_Z W) (inject_Z W) (parse_number_dec W) (parse_number_dec W)).
Qed.

Theorem write_pdf_errors : forall m w h date s border dark light e,
  write_pdf deflate color_text m w h date (PInt s) border dark light = Err e -> e = ValueError.
Proof.
  intros m w h date s border dark light e H. unfold write_pdf, pdf_content, pdf_words in H.
  unfold valid_width_height_and_border in H. rewrite check_valid_scale_spec, check_border_int in H.
  destruct (s <? 1); cbn [bind] in H; [inversion H; reflexivity|].
  destruct border as [b0|]; [destruct (b0 <? 0)|]; cbn [bind] in H; try (inversion H; reflexivity).
  all: destruct light as [c|]; [destruct (color_to_rgb c) eqn:El; cbn [bind] in H; [|inversion H; subst; apply (color_to_rgb_err _ _ El)]|];
       (destruct (color_is_black dark); [|destruct (color_to_rgb dark) eqn:Ed; cbn [bind] in H; [|inversion H; subst; apply (color_to_rgb_err _ _ Ed)]]);
       cbn [bind] in H; discriminate.
Qed.
End PdfTheorems.

(** ** EPS *)
Definition eps_page_fill (fill : option (list Z)) : list paint :=
  match fill with Some rgb => [FillPage (eps_rgb rgb)] | None => [] end.
Definition eps_stroke_color (stroke : option (list Z)) : rgb :=
  match stroke with Some rgb => eps_rgb rgb | None => (0, 0, 0)%Q end.

(* eps_page and eps_dark_cells in one statement: BoundingBox, optional fill of the whole page, one stroke *)
Theorem eps_dark_cells : forall m size s border dark light date file,
  1 <= s -> border_ok border -> 0 < size -> m <> [] -> no10 date = true ->
  write_eps m size size date (PInt s) border dark light = Ok file ->
  let b := get_border size size border in
  let W := (size + 2 * b) * s in
  exists fill stroke segs,
    light_is light fill /\ dark_is dark stroke /\
    eps_read file = Some {| eps_box := (0, 0, W, W);
                            eps_paint := eps_page_fill fill ++ [Stroke (eps_stroke_color stroke) (inject_Z s) segs] |} /\
    stroke_cells (inject_Z s) (inject_Z W) (inject_Z s) segs = Some (dark_cells m b).
Proof.
  intros m size s border dark light date file Hs Hb Hsize Hm Hdate Hw b W.
  destruct (eps_reads m size s border dark light date file Hs Hb Hsize Hm Hdate Hw) as (fill & stroke & H1 & H2 & H3).
  exists fill, stroke, (map (nice_seg s b (size + b)) (all_runs m)).
  split; [exact H1|]. split; [exact H2|]. split; [exact H3|]. apply nice_segs_cover. exact Hs.
Qed.

Lemma valid_err w h s border e : valid_width_height_and_border w h (PInt s) border = Err e -> e = ValueError.
Proof.
  unfold valid_width_height_and_border. rewrite check_valid_scale_spec, check_border_int.
  destruct (s <? 1); cbn [bind]; [intros H; inversion H; reflexivity|].
  destruct border as [b0|]; [destruct (b0 <? 0)|]; cbn [bind]; intros H; inversion H; reflexivity.
Qed.

Lemma lines_nonempty_m m x y d : m <> [] -> matrix_to_lines m x y d <> [].
Proof.
  intros Hm E. pose proof (lines_all_runs m x y d) as HF. rewrite E in HF.
  destruct (all_runs m) eqn:Er; [exact (all_runs_nonempty m Hm Er)|inversion HF].
Qed.

(* StopIteration (modelled as AssertErr, see Model/Vector.v) only for the empty matrix *)
Theorem write_eps_errors : forall m w h date s border dark light e,
  write_eps m w h date (PInt s) border dark light = Err e ->
  e = ValueError \/ (e = AssertErr /\ m = []).
Proof.
  intros m w h date s border dark light e H. unfold write_eps in H.
  destruct (valid_width_height_and_border w h (PInt s) border) as [[[w' h'] b]|e0] eqn:Ev; cbn [bind] in H;
    [|inversion H; subst; left; eapply valid_err; exact Ev].
  destruct (if color_is_black dark then Ok [] else color_to_rgb dark) as [st|e1] eqn:ES; cbn [bind] in H.
  2:{ inversion H; subst e1. left. destruct (color_is_black dark); [discriminate|]. eapply color_to_rgb_err; exact ES. }
  destruct (match light with Some c => do rgb <- color_to_rgb c; Ok (Some rgb) | None => Ok None end) as [fl|e2] eqn:EF;
    cbn [bind] in H.
  2:{ inversion H; subst e2. left. destruct light as [c|]; [|discriminate].
      destruct (color_to_rgb c) eqn:El; cbn [bind] in EF; [discriminate|]. inversion EF; subst. eapply color_to_rgb_err; exact El. }
  destruct (matrix_to_lines m (inject_Z b) (inject_Z (h + b) - (1 # 2)) (-1 # 1)) eqn:El2; [|discriminate].
  inversion H; subst. right. split; [reflexivity|]. destruct m as [|row rest]; [reflexivity|exfalso].
  eapply lines_nonempty_m; [|exact El2]. discriminate.
Qed.

(** ** TeX *)
Theorem tex_dark_cells : forall m size s border dark unit url date file,
  1 <= s -> border_ok border ->
  unit_ok unit = true -> no10 date = true -> opt_ok dark -> opt_ok url ->
  write_tex m size size date (PInt s) border dark unit url = Ok file ->
  let b := get_border size size border in
  exists segs,
    pgf_read file = Some {| pgf_unit := Some unit; pgf_strokes := [(tex_color dark, inject_Z s, segs)] |} /\
    stroke_cells (inject_Z s) (inject_Z s * (1 # 2)) (inject_Z s) segs = Some (dark_cells m b).
Proof.
  intros m size s border dark unit url date file Hs Hb Hu Hd Hdk Hurl Hw b.
  exists (map (tex_seg s b) (all_runs m)). split.
  - apply (tex_reads unit date dark url s Hu Hd Hdk Hurl m size border file Hs Hb Hw).
  - apply tex_segs_cover. exact Hs.
Qed.

Theorem write_tex_errors : forall m w h date s border dark unit url e,
  write_tex m w h date (PInt s) border dark unit url = Err e -> e = ValueError.
Proof.
  intros m w h date s border dark unit url e H. unfold write_tex in H.
  rewrite check_valid_scale_spec, check_border_int in H.
  destruct (s <? 1); cbn [bind] in H; [inversion H; reflexivity|].
  destruct border as [b0|]; [destruct (b0 <? 0)|]; cbn [bind] in H; try discriminate; inversion H; reflexivity.
Qed.

(* the inputs that are rejected *)
Definition bad_scale_border (s : Z) (border : option Z) : Prop := s <= 0 \/ exists b0, border = Some b0 /\ b0 < 0.
Definition bad_color (c : pycolor) : Prop := color_to_rgb c = Err ValueError.

Lemma valid_ok_or_bad w h s border :
  (bad_scale_border s border /\ valid_width_height_and_border w h (PInt s) border = Err ValueError) \/
  (~ bad_scale_border s border /\ exists r, valid_width_height_and_border w h (PInt s) border = Ok r).
Proof.
  unfold valid_width_height_and_border, bad_scale_border. rewrite check_valid_scale_spec, check_border_int.
  destruct (s <? 1) eqn:E; cbn [bind]; [left; split; [left; lia|reflexivity]|].
  destruct border as [b0|]; [destruct (b0 <? 0) eqn:E2|]; cbn [bind].
  - left. split; [right; exists b0; split; [reflexivity|lia]|reflexivity].
  - right. split; [|eexists; reflexivity]. intros [H|[b1 [H1 H2]]]; [lia|inversion H1; lia].
  - right. split; [|eexists; reflexivity]. intros [H|[b1 [H1 H2]]]; [lia|discriminate].
Qed.

Lemma color_ok_or_bad c : bad_color c \/ exists rgb, color_to_rgb c = Ok rgb.
Proof.
  unfold bad_color. destruct (color_to_rgb c) as [rgb|e] eqn:E; [right; exists rgb; reflexivity|left].
  rewrite (color_to_rgb_err c e E). reflexivity.
Qed.

Theorem write_tex_ValueError_iff : forall m w h date s border dark unit url,
  write_tex m w h date (PInt s) border dark unit url = Err ValueError <-> bad_scale_border s border.
Proof.
  intros. unfold write_tex, bad_scale_border. rewrite check_valid_scale_spec, check_border_int.
  destruct (s <? 1) eqn:E; cbn [bind]; [split; [left; lia|reflexivity]|].
  destruct border as [b0|]; [destruct (b0 <? 0) eqn:E2|]; cbn [bind].
  - split; [right; exists b0; split; [reflexivity|lia]|reflexivity].
  - split; [discriminate|]. intros [H|[b1 [H1 H2]]]; [lia|inversion H1; lia].
  - split; [discriminate|]. intros [H|[b1 [H1 H2]]]; [lia|discriminate].
Qed.

Section PdfErr.
Variable deflate : list Z -> list Z.
Variable color_text : Z -> str.

Theorem write_pdf_ValueError_iff : forall m w h date s border dark light,
  write_pdf deflate color_text m w h date (PInt s) border dark light = Err ValueError <->
  bad_scale_border s border \/ (exists c, light = Some c /\ bad_color c) \/ (color_is_black dark = false /\ bad_color dark).
Proof.
  intros. unfold write_pdf, pdf_content, pdf_words.
  destruct (valid_ok_or_bad w h s border) as [[Hbad ->]|[Hgood [[[w' h'] b] ->]]]; cbn [bind].
  - split; [intros _; left; exact Hbad|reflexivity].
  - destruct light as [c|].
    + destruct (color_ok_or_bad c) as [Hc|[rgb Hc]]; [unfold bad_color in Hc|]; rewrite Hc; cbn [bind].
      * split; [intros _; right; left; exists c; split; [reflexivity|exact Hc]|reflexivity].
      * destruct (color_is_black dark) eqn:Eb; cbn [bind].
        -- split; [discriminate|]. intros [H|[[c' [H1 H2]]|[H1 H2]]]; [contradiction| |discriminate].
           inversion H1; subst c'. unfold bad_color in H2. congruence.
        -- destruct (color_ok_or_bad dark) as [Hd|[rgbd Hd]]; [unfold bad_color in Hd|]; rewrite Hd; cbn [bind].
           ++ split; [intros _; right; right; split; [reflexivity|exact Hd]|reflexivity].
           ++ split; [discriminate|]. intros [H|[[c' [H1 H2]]|[H1 H2]]]; [contradiction| |unfold bad_color in H2; congruence].
              inversion H1; subst c'. unfold bad_color in H2. congruence.
    + destruct (color_is_black dark) eqn:Eb; cbn [bind].
      * split; [discriminate|]. intros [H|[[c' [H1 H2]]|[H1 H2]]]; [contradiction|discriminate|discriminate].
      * destruct (color_ok_or_bad dark) as [Hd|[rgbd Hd]]; [unfold bad_color in Hd|]; rewrite Hd; cbn [bind].
        -- split; [intros _; right; right; split; [reflexivity|exact Hd]|reflexivity].
        -- split; [discriminate|]. intros [H|[[c' [H1 H2]]|[H1 H2]]]; [contradiction|discriminate|unfold bad_color in H2; congruence].
Qed.
End PdfErr.

Theorem write_eps_ValueError_iff : forall m w h date s border dark light,
  write_eps m w h date (PInt s) border dark light = Err ValueError <->
  bad_scale_border s border \/ (color_is_black dark = false /\ bad_color dark) \/ (exists c, light = Some c /\ bad_color c).
Proof.
  intros. unfold write_eps.
  destruct (valid_ok_or_bad w h s border) as [[Hbad ->]|[Hgood [[[w' h'] b] ->]]]; cbn [bind].
  - split; [intros _; left; exact Hbad|reflexivity].
  - destruct (color_is_black dark) eqn:Eb; cbn [bind].
    + destruct light as [c|].
      * destruct (color_ok_or_bad c) as [Hc|[rgb Hc]]; [unfold bad_color in Hc|]; rewrite Hc; cbn [bind].
        -- split; [intros _; right; right; exists c; split; [reflexivity|exact Hc]|reflexivity].
        -- split; [destruct (matrix_to_lines _ _ _ _); discriminate|].
           intros [H|[[H1 H2]|[c' [H1 H2]]]]; [contradiction|discriminate|]. inversion H1; subst c'. unfold bad_color in H2. congruence.
      * cbn [bind]. split; [destruct (matrix_to_lines _ _ _ _); discriminate|].
        intros [H|[[H1 H2]|[c' [H1 H2]]]]; [contradiction|discriminate|discriminate].
    + destruct (color_ok_or_bad dark) as [Hd|[rgbd Hd]]; [unfold bad_color in Hd|]; rewrite Hd; cbn [bind].
      * split; [intros _; right; left; split; [reflexivity|exact Hd]|reflexivity].
      * destruct light as [c|].
        -- destruct (color_ok_or_bad c) as [Hc|[rgb Hc]]; [unfold bad_color in Hc|]; rewrite Hc; cbn [bind].
           ++ split; [intros _; right; right; exists c; split; [reflexivity|exact Hc]|reflexivity].
           ++ split; [destruct (matrix_to_lines _ _ _ _); discriminate|].
              intros [H|[[H1 H2]|[c' [H1 H2]]]]; [contradiction|unfold bad_color in H2; congruence|].
              inversion H1; subst c'. unfold bad_color in H2. congruence.
        -- cbn [bind]. split; [destruct (matrix_to_lines _ _ _ _); discriminate|].
           intros [H|[[H1 H2]|[c' [H1 H2]]]]; [contradiction|unfold bad_color in H2; congruence|discriminate].
Qed.

(* ------------------------------------------------------------------ *)
(** * 15b. Assumptions *)
Print Assumptions dark_cells_spec.
Print Assumptions dark_cells_NoDup.
Print Assumptions pdf_dark_cells.
Print Assumptions pdf_page.
Print Assumptions pdf_length_ok.
Print Assumptions pdf_xref_ok.
Print Assumptions write_pdf_errors.
Print Assumptions write_pdf_ValueError_iff.
Print Assumptions eps_dark_cells.
Print Assumptions write_eps_errors.
Print Assumptions write_eps_ValueError_iff.
Print Assumptions eps_comp_accuracy.
Print Assumptions tex_dark_cells.
Print Assumptions write_tex_errors.
Print Assumptions write_tex_ValueError_iff.

(* ------------------------------------------------------------------ *)
(** * 16. Regression anchors: byte-exact outputs of the CPython implementation (segno 1.6.x, this repository) *)

Definition ex_m : list (list Z) := [[0;1;0];[1;1;0];[0;0;1]].
Definition ex_red : pycolor := CStr (lit "red").
Definition ex_yellow : option pycolor := Some (CStr (lit "#ff0")).
(* write_eps(m, (3, 3), out, scale=2, border=1, dark="red", light="#ff0"), %%CreationDate masked *)
Example ex_eps : write_eps ex_m 3 3 (lit "2026-10-01 01:28:16") (PInt 2) (Some 1) ex_red ex_yellow
  = Ok [37;33;80;83;45;65;100;111;98;101;45;51;46;48;32;69;80;83;70;45;51;46;48;10;37;37;67;114;101;97;116;111;114;58;32;83;101;103;110;111;32;60;104;116;116;112;115;58;47;47;112;121;112;105;46;111;114;103;47;112;114;111;106;101;99;116;47;115;101;103;110;111;47;62;10;37;37;67;114;101;97;116;105;111;110;68;97;116;101;58;32;50;48;50;54;45;49;48;45;48;49;32;48;49;58;50;56;58;49;54;10;37;37;68;111;99;117;109;101;110;116;68;97;116;97;58;32;67;108;101;97;110;55;66;105;116;10;37;37;66;111;117;110;100;105;110;103;66;111;120;58;32;48;32;48;32;49;48;32;49;48;10;47;109;32;123;32;114;109;111;118;101;116;111;32;125;32;98;105;110;100;32;100;101;102;10;47;108;32;123;32;114;108;105;110;101;116;111;32;125;32;98;105;110;100;32;100;101;102;10;49;46;48;48;48;48;48;48;32;49;46;48;48;48;48;48;48;32;48;46;48;48;48;48;48;48;32;115;101;116;114;103;98;99;111;108;111;114;32;99;108;105;112;112;97;116;104;32;102;105;108;108;10;49;46;48;48;48;48;48;48;32;48;46;48;48;48;48;48;48;32;48;46;48;48;48;48;48;48;32;115;101;116;114;103;98;99;111;108;111;114;10;50;32;50;32;115;99;97;108;101;10;110;101;119;112;97;116;104;10;49;32;51;46;53;32;109;111;118;101;116;111;32;48;32;48;32;108;32;49;32;48;32;109;32;49;32;48;32;108;32;45;50;32;45;49;32;109;32;50;32;48;32;108;32;48;32;45;49;32;109;32;49;32;48;32;108;10;115;116;114;111;107;101;10;37;37;69;79;70;10].
Proof. vm_compute. reflexivity. Qed.
(* the inflated content stream and the whole file (deflate := the bytes zlib produced) of write_pdf with the same options *)
Example ex_pdf_content : pdf_content (fun _ => []) ex_m 3 3 (PInt 2) (Some 1) ex_red ex_yellow
  = Ok [49;46;48;32;49;46;48;32;48;46;48;32;114;103;32;48;32;48;32;49;48;32;49;48;32;114;101;32;102;32;113;32;50;32;48;32;48;32;50;32;48;32;48;32;99;109;32;49;46;48;32;48;46;48;32;48;46;48;32;82;71;32;49;32;48;32;48;32;49;32;49;32;51;46;53;32;99;109;32;48;32;48;32;109;32;48;32;48;32;108;32;49;32;48;32;109;32;50;32;48;32;108;32;48;32;45;49;32;109;32;50;32;45;49;32;108;32;50;32;45;50;32;109;32;51;32;45;50;32;108;32;83].
Proof. vm_compute. reflexivity. Qed.
Example ex_pdf_file : write_pdf (fun _ => [120;218;51;212;51;80;48;4;98;3;32;46;74;87;0;50;20;12;193;168;40;85;33;77;161;80;193;8;44;4;33;147;115;225;74;65;56;200;93;193;16;162;1;8;141;245;76;65;242;32;46;132;204;1;75;230;130;181;230;0;177;174;33;152;3;164;114;64;148;17;144;103;12;162;114;20;130;1;188;112;26;2]) (fun _ => []) ex_m 3 3 (lit "20261001012816+00'00'") (PInt 2) (Some 1) ex_red ex_yellow
  = Ok [37;80;68;70;45;49;46;52;13;37;226;227;207;211;13;10;49;32;48;32;111;98;106;32;60;60;47;84;121;112;101;32;47;67;97;116;97;108;111;103;32;47;80;97;103;101;115;32;50;32;48;32;82;62;62;13;10;101;110;100;111;98;106;13;10;50;32;48;32;111;98;106;32;60;60;47;84;121;112;101;32;47;80;97;103;101;115;32;47;75;105;100;115;32;91;51;32;48;32;82;93;32;47;67;111;117;110;116;32;49;62;62;13;10;101;110;100;111;98;106;13;10;51;32;48;32;111;98;106;32;60;60;47;84;121;112;101;32;47;80;97;103;101;32;47;80;97;114;101;110;116;32;50;32;48;32;82;32;47;77;101;100;105;97;66;111;120;32;91;48;32;48;32;49;48;32;49;48;93;32;47;67;111;110;116;101;110;116;115;32;52;32;48;32;82;62;62;13;10;101;110;100;111;98;106;13;10;52;32;48;32;111;98;106;32;60;60;47;76;101;110;103;116;104;32;56;50;32;47;70;105;108;116;101;114;32;47;70;108;97;116;101;68;101;99;111;100;101;62;62;13;10;115;116;114;101;97;109;13;10;120;218;51;212;51;80;48;4;98;3;32;46;74;87;0;50;20;12;193;168;40;85;33;77;161;80;193;8;44;4;33;147;115;225;74;65;56;200;93;193;16;162;1;8;141;245;76;65;242;32;46;132;204;1;75;230;130;181;230;0;177;174;33;152;3;164;114;64;148;17;144;103;12;162;114;20;130;1;188;112;26;2;13;10;101;110;100;115;116;114;101;97;109;13;10;101;110;100;111;98;106;13;10;53;32;48;32;111;98;106;32;60;60;47;67;114;101;97;116;105;111;110;68;97;116;101;40;68;58;50;48;50;54;49;48;48;49;48;49;50;56;49;54;43;48;48;39;48;48;39;41;47;80;114;111;100;117;99;101;114;40;83;101;103;110;111;32;60;104;116;116;112;115;58;47;47;112;121;112;105;46;111;114;103;47;112;114;111;106;101;99;116;47;115;101;103;110;111;47;62;41;47;67;114;101;97;116;111;114;40;83;101;103;110;111;32;60;104;116;116;112;115;58;47;47;112;121;112;105;46;111;114;103;47;112;114;111;106;101;99;116;47;115;101;103;110;111;47;62;41;13;10;62;62;13;10;101;110;100;111;98;106;13;10;120;114;101;102;13;10;48;32;55;13;10;48;48;48;48;48;48;48;48;48;48;32;54;53;53;51;53;32;102;13;10;48;48;48;48;48;48;48;48;49;54;32;48;48;48;48;48;32;110;13;10;48;48;48;48;48;48;48;48;54;53;32;48;48;48;48;48;32;110;13;10;48;48;48;48;48;48;48;49;50;50;32;48;48;48;48;48;32;110;13;10;48;48;48;48;48;48;48;50;48;55;32;48;48;48;48;48;32;110;13;10;48;48;48;48;48;48;48;51;54;51;32;48;48;48;48;48;32;110;13;10;48;48;48;48;48;48;48;53;50;52;32;48;48;48;48;48;32;110;13;10;116;114;97;105;108;101;114;32;60;60;47;83;105;122;101;32;55;47;82;111;111;116;32;49;32;48;32;82;47;73;110;102;111;32;53;32;48;32;82;62;62;13;10;115;116;97;114;116;120;114;101;102;13;10;53;50;52;13;10;37;37;69;79;70;13;10].
Proof. vm_compute. reflexivity. Qed.
(* write_tex(m, (3, 3), out, scale=2, border=1, dark="red", url="http://x") *)
Example ex_tex : write_tex ex_m 3 3 (lit "2026-10-01T01:28:16") (PInt 2) (Some 1) (Some (lit "red")) (lit "pt") (Some (lit "http://x"))
  = Ok [37;32;67;114;101;97;116;111;114;58;32;32;83;101;103;110;111;32;60;104;116;116;112;115;58;47;47;112;121;112;105;46;111;114;103;47;112;114;111;106;101;99;116;47;115;101;103;110;111;47;62;10;37;32;68;97;116;101;58;32;32;32;32;32;50;48;50;54;45;49;48;45;48;49;84;48;49;58;50;56;58;49;54;10;92;104;114;101;102;123;104;116;116;112;58;47;47;120;125;123;92;98;101;103;105;110;123;112;103;102;112;105;99;116;117;114;101;125;10;32;32;92;112;103;102;115;101;116;108;105;110;101;119;105;100;116;104;123;50;112;116;125;10;32;32;92;99;111;108;111;114;123;114;101;100;125;10;32;32;92;112;103;102;112;97;116;104;109;111;118;101;116;111;123;92;112;103;102;113;112;111;105;110;116;123;50;112;116;125;123;45;50;112;116;125;125;10;32;32;92;112;103;102;112;97;116;104;108;105;110;101;116;111;123;92;112;103;102;113;112;111;105;110;116;123;50;112;116;125;123;45;50;112;116;125;125;10;32;32;92;112;103;102;112;97;116;104;109;111;118;101;116;111;123;92;112;103;102;113;112;111;105;110;116;123;52;112;116;125;123;45;50;112;116;125;125;10;32;32;92;112;103;102;112;97;116;104;108;105;110;101;116;111;123;92;112;103;102;113;112;111;105;110;116;123;54;112;116;125;123;45;50;112;116;125;125;10;32;32;92;112;103;102;112;97;116;104;109;111;118;101;116;111;123;92;112;103;102;113;112;111;105;110;116;123;50;112;116;125;123;45;52;112;116;125;125;10;32;32;92;112;103;102;112;97;116;104;108;105;110;101;116;111;123;92;112;103;102;113;112;111;105;110;116;123;54;112;116;125;123;45;52;112;116;125;125;10;32;32;92;112;103;102;112;97;116;104;109;111;118;101;116;111;123;92;112;103;102;113;112;111;105;110;116;123;54;112;116;125;123;45;54;112;116;125;125;10;32;32;92;112;103;102;112;97;116;104;108;105;110;101;116;111;123;92;112;103;102;113;112;111;105;110;116;123;56;112;116;125;123;45;54;112;116;125;125;10;32;32;92;112;103;102;117;115;101;112;97;116;104;123;115;116;114;111;107;101;125;10;92;101;110;100;123;112;103;102;112;105;99;116;117;114;101;125;125;10].
Proof. vm_compute. reflexivity. Qed.
(* '{0:f}'.format(1 / 255.0 * c) for c in range(256), as printed by CPython 3 *)
Example ex_eps_color_table : map eps_component (zrange 0 256)
  = [[48;46;48;48;48;48;48;48];
     [48;46;48;48;51;57;50;50];
     [48;46;48;48;55;56;52;51];
     [48;46;48;49;49;55;54;53];
     [48;46;48;49;53;54;56;54];
     [48;46;48;49;57;54;48;56];
     [48;46;48;50;51;53;50;57];
     [48;46;48;50;55;52;53;49];
     [48;46;48;51;49;51;55;51];
     [48;46;48;51;53;50;57;52];
     [48;46;48;51;57;50;49;54];
     [48;46;48;52;51;49;51;55];
     [48;46;48;52;55;48;53;57];
     [48;46;48;53;48;57;56;48];
     [48;46;48;53;52;57;48;50];
     [48;46;48;53;56;56;50;52];
     [48;46;48;54;50;55;52;53];
     [48;46;48;54;54;54;54;55];
     [48;46;48;55;48;53;56;56];
     [48;46;48;55;52;53;49;48];
     [48;46;48;55;56;52;51;49];
     [48;46;48;56;50;51;53;51];
     [48;46;48;56;54;50;55;53];
     [48;46;48;57;48;49;57;54];
     [48;46;48;57;52;49;49;56];
     [48;46;48;57;56;48;51;57];
     [48;46;49;48;49;57;54;49];
     [48;46;49;48;53;56;56;50];
     [48;46;49;48;57;56;48;52];
     [48;46;49;49;51;55;50;53];
     [48;46;49;49;55;54;52;55];
     [48;46;49;50;49;53;54;57];
     [48;46;49;50;53;52;57;48];
     [48;46;49;50;57;52;49;50];
     [48;46;49;51;51;51;51;51];
     [48;46;49;51;55;50;53;53];
     [48;46;49;52;49;49;55;54];
     [48;46;49;52;53;48;57;56];
     [48;46;49;52;57;48;50;48];
     [48;46;49;53;50;57;52;49];
     [48;46;49;53;54;56;54;51];
     [48;46;49;54;48;55;56;52];
     [48;46;49;54;52;55;48;54];
     [48;46;49;54;56;54;50;55];
     [48;46;49;55;50;53;52;57];
     [48;46;49;55;54;52;55;49];
     [48;46;49;56;48;51;57;50];
     [48;46;49;56;52;51;49;52];
     [48;46;49;56;56;50;51;53];
     [48;46;49;57;50;49;53;55];
     [48;46;49;57;54;48;55;56];
     [48;46;50;48;48;48;48;48];
     [48;46;50;48;51;57;50;50];
     [48;46;50;48;55;56;52;51];
     [48;46;50;49;49;55;54;53];
     [48;46;50;49;53;54;56;54];
     [48;46;50;49;57;54;48;56];
     [48;46;50;50;51;53;50;57];
     [48;46;50;50;55;52;53;49];
     [48;46;50;51;49;51;55;51];
     [48;46;50;51;53;50;57;52];
     [48;46;50;51;57;50;49;54];
     [48;46;50;52;51;49;51;55];
     [48;46;50;52;55;48;53;57];
     [48;46;50;53;48;57;56;48];
     [48;46;50;53;52;57;48;50];
     [48;46;50;53;56;56;50;52];
     [48;46;50;54;50;55;52;53];
     [48;46;50;54;54;54;54;55];
     [48;46;50;55;48;53;56;56];
     [48;46;50;55;52;53;49;48];
     [48;46;50;55;56;52;51;49];
     [48;46;50;56;50;51;53;51];
     [48;46;50;56;54;50;55;53];
     [48;46;50;57;48;49;57;54];
     [48;46;50;57;52;49;49;56];
     [48;46;50;57;56;48;51;57];
     [48;46;51;48;49;57;54;49];
     [48;46;51;48;53;56;56;50];
     [48;46;51;48;57;56;48;52];
     [48;46;51;49;51;55;50;53];
     [48;46;51;49;55;54;52;55];
     [48;46;51;50;49;53;54;57];
     [48;46;51;50;53;52;57;48];
     [48;46;51;50;57;52;49;50];
     [48;46;51;51;51;51;51;51];
     [48;46;51;51;55;50;53;53];
     [48;46;51;52;49;49;55;54];
     [48;46;51;52;53;48;57;56];
     [48;46;51;52;57;48;50;48];
     [48;46;51;53;50;57;52;49];
     [48;46;51;53;54;56;54;51];
     [48;46;51;54;48;55;56;52];
     [48;46;51;54;52;55;48;54];
     [48;46;51;54;56;54;50;55];
     [48;46;51;55;50;53;52;57];
     [48;46;51;55;54;52;55;49];
     [48;46;51;56;48;51;57;50];
     [48;46;51;56;52;51;49;52];
     [48;46;51;56;56;50;51;53];
     [48;46;51;57;50;49;53;55];
     [48;46;51;57;54;48;55;56];
     [48;46;52;48;48;48;48;48];
     [48;46;52;48;51;57;50;50];
     [48;46;52;48;55;56;52;51];
     [48;46;52;49;49;55;54;53];
     [48;46;52;49;53;54;56;54];
     [48;46;52;49;57;54;48;56];
     [48;46;52;50;51;53;50;57];
     [48;46;52;50;55;52;53;49];
     [48;46;52;51;49;51;55;51];
     [48;46;52;51;53;50;57;52];
     [48;46;52;51;57;50;49;54];
     [48;46;52;52;51;49;51;55];
     [48;46;52;52;55;48;53;57];
     [48;46;52;53;48;57;56;48];
     [48;46;52;53;52;57;48;50];
     [48;46;52;53;56;56;50;52];
     [48;46;52;54;50;55;52;53];
     [48;46;52;54;54;54;54;55];
     [48;46;52;55;48;53;56;56];
     [48;46;52;55;52;53;49;48];
     [48;46;52;55;56;52;51;49];
     [48;46;52;56;50;51;53;51];
     [48;46;52;56;54;50;55;53];
     [48;46;52;57;48;49;57;54];
     [48;46;52;57;52;49;49;56];
     [48;46;52;57;56;48;51;57];
     [48;46;53;48;49;57;54;49];
     [48;46;53;48;53;56;56;50];
     [48;46;53;48;57;56;48;52];
     [48;46;53;49;51;55;50;53];
     [48;46;53;49;55;54;52;55];
     [48;46;53;50;49;53;54;57];
     [48;46;53;50;53;52;57;48];
     [48;46;53;50;57;52;49;50];
     [48;46;53;51;51;51;51;51];
     [48;46;53;51;55;50;53;53];
     [48;46;53;52;49;49;55;54];
     [48;46;53;52;53;48;57;56];
     [48;46;53;52;57;48;50;48];
     [48;46;53;53;50;57;52;49];
     [48;46;53;53;54;56;54;51];
     [48;46;53;54;48;55;56;52];
     [48;46;53;54;52;55;48;54];
     [48;46;53;54;56;54;50;55];
     [48;46;53;55;50;53;52;57];
     [48;46;53;55;54;52;55;49];
     [48;46;53;56;48;51;57;50];
     [48;46;53;56;52;51;49;52];
     [48;46;53;56;56;50;51;53];
     [48;46;53;57;50;49;53;55];
     [48;46;53;57;54;48;55;56];
     [48;46;54;48;48;48;48;48];
     [48;46;54;48;51;57;50;50];
     [48;46;54;48;55;56;52;51];
     [48;46;54;49;49;55;54;53];
     [48;46;54;49;53;54;56;54];
     [48;46;54;49;57;54;48;56];
     [48;46;54;50;51;53;50;57];
     [48;46;54;50;55;52;53;49];
     [48;46;54;51;49;51;55;51];
     [48;46;54;51;53;50;57;52];
     [48;46;54;51;57;50;49;54];
     [48;46;54;52;51;49;51;55];
     [48;46;54;52;55;48;53;57];
     [48;46;54;53;48;57;56;48];
     [48;46;54;53;52;57;48;50];
     [48;46;54;53;56;56;50;52];
     [48;46;54;54;50;55;52;53];
     [48;46;54;54;54;54;54;55];
     [48;46;54;55;48;53;56;56];
     [48;46;54;55;52;53;49;48];
     [48;46;54;55;56;52;51;49];
     [48;46;54;56;50;51;53;51];
     [48;46;54;56;54;50;55;53];
     [48;46;54;57;48;49;57;54];
     [48;46;54;57;52;49;49;56];
     [48;46;54;57;56;48;51;57];
     [48;46;55;48;49;57;54;49];
     [48;46;55;48;53;56;56;50];
     [48;46;55;48;57;56;48;52];
     [48;46;55;49;51;55;50;53];
     [48;46;55;49;55;54;52;55];
     [48;46;55;50;49;53;54;57];
     [48;46;55;50;53;52;57;48];
     [48;46;55;50;57;52;49;50];
     [48;46;55;51;51;51;51;51];
     [48;46;55;51;55;50;53;53];
     [48;46;55;52;49;49;55;54];
     [48;46;55;52;53;48;57;56];
     [48;46;55;52;57;48;50;48];
     [48;46;55;53;50;57;52;49];
     [48;46;55;53;54;56;54;51];
     [48;46;55;54;48;55;56;52];
     [48;46;55;54;52;55;48;54];
     [48;46;55;54;56;54;50;55];
     [48;46;55;55;50;53;52;57];
     [48;46;55;55;54;52;55;49];
     [48;46;55;56;48;51;57;50];
     [48;46;55;56;52;51;49;52];
     [48;46;55;56;56;50;51;53];
     [48;46;55;57;50;49;53;55];
     [48;46;55;57;54;48;55;56];
     [48;46;56;48;48;48;48;48];
     [48;46;56;48;51;57;50;50];
     [48;46;56;48;55;56;52;51];
     [48;46;56;49;49;55;54;53];
     [48;46;56;49;53;54;56;54];
     [48;46;56;49;57;54;48;56];
     [48;46;56;50;51;53;50;57];
     [48;46;56;50;55;52;53;49];
     [48;46;56;51;49;51;55;51];
     [48;46;56;51;53;50;57;52];
     [48;46;56;51;57;50;49;54];
     [48;46;56;52;51;49;51;55];
     [48;46;56;52;55;48;53;57];
     [48;46;56;53;48;57;56;48];
     [48;46;56;53;52;57;48;50];
     [48;46;56;53;56;56;50;52];
     [48;46;56;54;50;55;52;53];
     [48;46;56;54;54;54;54;55];
     [48;46;56;55;48;53;56;56];
     [48;46;56;55;52;53;49;48];
     [48;46;56;55;56;52;51;49];
     [48;46;56;56;50;51;53;51];
     [48;46;56;56;54;50;55;53];
     [48;46;56;57;48;49;57;54];
     [48;46;56;57;52;49;49;56];
     [48;46;56;57;56;48;51;57];
     [48;46;57;48;49;57;54;49];
     [48;46;57;48;53;56;56;50];
     [48;46;57;48;57;56;48;52];
     [48;46;57;49;51;55;50;53];
     [48;46;57;49;55;54;52;55];
     [48;46;57;50;49;53;54;57];
     [48;46;57;50;53;52;57;48];
     [48;46;57;50;57;52;49;50];
     [48;46;57;51;51;51;51;51];
     [48;46;57;51;55;50;53;53];
     [48;46;57;52;49;49;55;54];
     [48;46;57;52;53;48;57;56];
     [48;46;57;52;57;48;50;48];
     [48;46;57;53;50;57;52;49];
     [48;46;57;53;54;56;54;51];
     [48;46;57;54;48;55;56;52];
     [48;46;57;54;52;55;48;54];
     [48;46;57;54;56;54;50;55];
     [48;46;57;55;50;53;52;57];
     [48;46;57;55;54;52;55;49];
     [48;46;57;56;48;51;57;50];
     [48;46;57;56;52;51;49;52];
     [48;46;57;56;56;50;51;53];
     [48;46;57;57;50;49;53;55];
     [48;46;57;57;54;48;55;56];
     [49;46;48;48;48;48;48;48]].
Proof. vm_compute. reflexivity. Qed.
