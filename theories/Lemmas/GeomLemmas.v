(* C02: every symbol the model of segno's encoder builds has the ISO/IEC 18004 geometry -- function
   patterns, both format information copies, both version information copies -- for ARBITRARY data bits.

   Structure
     0. definitions used by the finite checks (base matrix, explicit cell lists of add_format_info /
        add_version_info, "last write wins" lookup)
     B. finite facts, decided by vm_compute: per version (44) the data independent base matrix against
        Ref/Geometry.v; per (version, level, mask) the cells written by add_format_info / add_version_info
        against ISO Figure 25 / 27 and Ref/Bch.v
     A. generic facts about mset / set_all / place_visit / apply_mask / rows_of (data bits arbitrary)
     C. combination: encode_core_c02
     D. readable corollaries (function patterns, format copies, version copies, Prop-level B)

   Note on masks: encode_core does not validate [mask = Some k] (encode does, via normalize_mask_int).
   No extra hypothesis is needed: whenever calc_format_info finds a word at all (-28 <= k < 32) that
   word is the ISO word for data bits  level*8 + k  (resp. symbol_number*4 + k), which is what
   iso_format_word computes; B2 is therefore checked for every mask in that window, not only 0..7 / 0..3. *)
From Coq Require Import ZArith List Bool Lia ZifyBool FMapPositive.
From Segno Require Import Base.PyLite Ref.IsoData Ref.Geometry Ref.Bch Ref.Decoder Ref.Spec.
From Segno Require Import Model.Bits Model.Segment Model.Version Model.Stream Model.Matrix Model.Encode.
Import ListNotations.
Open Scope Z_scope.

(* ------------------------------------------------------------------ *)
(* 0. Definitions used by the finite checks                            *)
(* ------------------------------------------------------------------ *)

(* the matrix every symbol of a given size starts from (data independent) *)
Definition base_matrix (s : Z) : res mat :=
  do m1 <- add_finder_patterns s (make_matrix s true true); add_alignment_patterns s m1.

Definition ob_eqb (a b : option bool) : bool :=
  match a, b with Some x, Some y => Bool.eqb x y | None, None => true | _, _ => false end.
Definition is_none (a : option bool) : bool := match a with None => true | Some _ => false end.
Definition in_sq (s i j : Z) : bool := (0 <=? i) && (i <? s) && (0 <=? j) && (j <? s).

(* value written LAST at map key [p] by [set_all size _ cells] *)
Fixpoint last_write (size : Z) (cells : list (Z * Z * bool)) (p : positive) : option bool :=
  match cells with
  | [] => None
  | (i, j, b) :: r =>
      match last_write size r p with
      | Some b' => Some b'
      | None => if Pos.eqb (idx size i j) p then Some b else None
      end
  end.

(* the cell lists of add_format_info / add_version_info, verbatim *)
Definition fmt_cells (size : Z) (micro : bool) (fi : Z) : list (Z * Z * bool) :=
  flat_map (fun i =>
      let vbit := Z.testbit fi i in
      let hbit := Z.testbit fi (14 - i) in
      let voffset := if micro then 1 else if 6 <=? i then 1 else 0 in
      let hoffset := if micro then 1 else if 6 <=? i then 1 else 0 in
      [(i + voffset, 8, vbit); (8, i + hoffset, hbit)] ++
      (if micro then [] else [(8, size - 1 - i, vbit); (size - 1 - i, 8, hbit)])) (zrange 0 8).

Definition ver_cells (size vi : Z) : list (Z * Z * bool) :=
  flat_map (fun i =>
    let b1 := Z.testbit vi (i * 3) in
    let b2 := Z.testbit vi (i * 3 + 1) in
    let b3 := Z.testbit vi (i * 3 + 2) in
    [(size - 11, i, b1); (size - 10, i, b2); (size - 9, i, b3);
     (i, size - 11, b1); (i, size - 10, b2); (i, size - 9, b3)]) (zrange 0 6).

(* everything add_format_info (incl. the dark module) and add_version_info write, in order *)
Definition fv_cells (v : Z) (e : option Z) (mask : Z) : res (list (Z * Z * bool)) :=
  let size := calc_matrix_size v in
  do fi <- calc_format_info v e mask;
  do vc <- (if v <? 7 then Ok [] else do vi <- nthZ VERSION_INFO (v - 7); Ok (ver_cells size vi));
  Ok ((fmt_cells size (v <? 1) fi ++ (if v <? 1 then [] else [(size - 8, 8, true)])) ++ vc).

(* B1: per version, the base matrix carries every ISO function module (the dark module position is
   only reserved: it is written by add_format_info) *)
Definition base_check (v : Z) : bool :=
  let s := calc_matrix_size v in
  let cs := align_centres (version_of_size s) in
  match base_matrix s with
  | Err _ => false
  | Ok m2 =>
      forallb (fun '(i, j) =>
        match iso_function_value s cs i j with
        | Some b => ob_eqb (mget s m2 i j) (Some b) || ((0 <? v) && (i =? s - 8) && (j =? 8))
        | None => true end) (all_cells s)
  end.

Definition present_at (s : Z) (m : mat) (ij : Z * Z) : bool :=
  let '(i, j) := ij in in_sq s i j && negb (is_none (mget s m i j)).

(* B1 (regions): unset cells of the base matrix = unset cells of function_matrix = ISO data modules;
   format / version / dark module positions are reserved *)
Definition regions_check (v : Z) : bool :=
  let s := calc_matrix_size v in
  let cs := align_centres (version_of_size s) in
  (s =? size_of_version v) && (version_of_size s =? v) &&
  match base_matrix s, function_matrix s with
  | Ok m2, Ok fm =>
      forallb (fun '(i, j) =>
        let data := mtype_eqb (iso_type s cs i j) Data in
        Bool.eqb (is_none (mget s m2 i j)) data && Bool.eqb (is_none (mget s fm i j)) data) (all_cells s)
      && (if 0 <? v then
            forallb (fun k => present_at s m2 (format_pos_qr_1 k) && present_at s m2 (format_pos_qr_2 s k)) (zrange 0 15)
            && present_at s m2 (s - 8, 8)
          else forallb (fun k => present_at s m2 (format_pos_micro k)) (zrange 0 15))
      && (if 7 <=? v then
            forallb (fun k => present_at s m2 (version_pos_ll s k) && present_at s m2 (version_pos_ur s k)) (zrange 0 18)
          else true)
  | _, _ => false
  end.

(* B2: per (version, level, mask) *)
Definition bits_at (s : Z) (cells : list (Z * Z * bool)) (n : Z) (pos : Z -> Z * Z) (w : Z) : bool :=
  forallb (fun k => let '(i, j) := pos k in
     in_sq s i j && match last_write s cells (idx s i j) with
                    | Some b => Bool.eqb b (Z.testbit w k) | None => false end) (zrange 0 n)
  && (word_of (map (Z.testbit w) (rev (zrange 0 n))) =? w).

(* every written cell lies inside the symbol, and where ISO prescribes a function module value the
   value finally written is that value (only the dark module is concerned) *)
Definition cells_ok (s : Z) (cs : list Z) (cells : list (Z * Z * bool)) : bool :=
  forallb (fun '(i, j, _) => in_sq s i j && match iso_function_value s cs i j with
                                            | None => true
                                            | Some b' => ob_eqb (last_write s cells (idx s i j)) (Some b') end) cells.

Definition triple_check (v : Z) (e : option Z) (mask : Z) : bool :=
  match fv_cells v e mask with
  | Err _ => negb ((0 <=? mask) && (mask <? (if v <? 1 then 4 else 8)))
  | Ok cells =>
      let s := calc_matrix_size v in
      let cs := align_centres (version_of_size s) in
      cells_ok s cs cells &&
      (if 0 <? v then ob_eqb (last_write s cells (idx s (s - 8) 8)) (Some true) else true) &&
      match iso_format_word v e mask with
      | None => false
      | Some w => if 0 <? v then bits_at s cells 15 format_pos_qr_1 w && bits_at s cells 15 (format_pos_qr_2 s) w
                  else bits_at s cells 15 format_pos_micro w
      end &&
      (if 7 <=? v then bits_at s cells 18 (version_pos_ll s) (golay18_6 v)
                       && bits_at s cells 18 (version_pos_ur s) (golay18_6 v)
       else true)
  end.

(* ------------------------------------------------------------------ *)
(* B. Finite facts                                                      *)
(* ------------------------------------------------------------------ *)
Lemma base_check_all : forallb base_check all_versions = true.
Proof. vm_compute. reflexivity. Qed.

Lemma regions_check_all : forallb regions_check all_versions = true.
Proof. vm_compute. reflexivity. Qed.

(* the (version, level) pairs are those of Table 7 (SYMBOL_CAPACITY); masks: every integer for which a
   format word exists at all (this includes the regular 0..7 / 0..3, for which the lookup succeeds) *)
Lemma triple_check_all :
  forallb (fun v => match assocZ v SYMBOL_CAPACITY with
                    | Some row => forallb (fun '(e, _) => forallb (fun mask => triple_check v e mask)
                                                                  (zrange (-28) 32)) row
                    | None => false end) all_versions = true.
Proof. vm_compute. reflexivity. Qed.

(* number of regular triples *)
Lemma triple_count :
  lenZ (flat_map (fun v => match assocZ v SYMBOL_CAPACITY with
                           | Some row => flat_map (fun '(e, _) => map (fun mask => (v, e, mask))
                                                     (zrange 0 (if v <? 1 then 4 else 8))) row
                           | None => [] end) all_versions) = 1312.
Proof. vm_compute. reflexivity. Qed.

Lemma micro_symbol_numbers :
  forallb (fun '(_, row) => forallb (fun '(_, n) => (0 <=? n) && (n <=? 7)) row) ERROR_LEVEL_TO_MICRO_MAPPING = true.
Proof. vm_compute. reflexivity. Qed.

(* ------------------------------------------------------------------ *)
(* A. Generic facts about the map operations                           *)
(* ------------------------------------------------------------------ *)
Lemma bind_ok {A B} (r : res A) (f : A -> res B) b :
  bind r f = Ok b -> exists a, r = Ok a /\ f a = Ok b.
Proof. destruct r as [a|e]; cbn [bind]; intros H; [eauto|discriminate]. Qed.

Lemma Ok_inj {A} (a b : A) : Ok a = Ok b -> a = b.
Proof. congruence. Qed.

Lemma idx_inj s i j i' j' :
  0 <= i -> 0 <= j < s -> 0 <= i' -> 0 <= j' < s -> idx s i j = idx s i' j' -> i = i' /\ j = j'.
Proof.
  unfold idx. intros Hi Hj Hi' Hj' H.
  apply Z2Pos.inj in H; [|nia|nia].
  assert (Hii : i = i').
  { destruct (Z.lt_trichotomy i i') as [Hlt|[Heq|Hgt]]; [exfalso; nia|exact Heq|exfalso; nia]. }
  subst i'. split; [reflexivity|lia].
Qed.

Lemma find_mset s m i j b p :
  PM.find p (mset s m i j b) = if Pos.eqb (idx s i j) p then Some b else PM.find p m.
Proof.
  unfold mset. destruct (Pos.eqb_spec (idx s i j) p) as [->|Hne].
  - apply PM.gss.
  - apply PM.gso. congruence.
Qed.

Lemma mget_mset s m i j b i' j' :
  0 <= i -> 0 <= j < s -> 0 <= i' -> 0 <= j' < s ->
  mget s (mset s m i j b) i' j' = if (i =? i') && (j =? j') then Some b else mget s m i' j'.
Proof.
  intros Hi Hj Hi' Hj'. unfold mget. rewrite find_mset.
  destruct (Pos.eqb_spec (idx s i j) (idx s i' j')) as [Heq|Hne].
  - apply idx_inj in Heq; try assumption. destruct Heq as [-> ->]. rewrite !Z.eqb_refl. reflexivity.
  - destruct ((i =? i') && (j =? j')) eqn:E; [|reflexivity].
    exfalso. apply Hne. f_equal; lia.
Qed.

Lemma set_all_app s m a b : set_all s m (a ++ b) = set_all s (set_all s m a) b.
Proof. unfold set_all. apply fold_left_app. Qed.

Lemma find_set_all s cells : forall m p,
  PM.find p (set_all s m cells) =
  match last_write s cells p with Some b => Some b | None => PM.find p m end.
Proof.
  induction cells as [|[[i j] b] r IH]; intros m p.
  - reflexivity.
  - change (set_all s m ((i, j, b) :: r)) with (set_all s (mset s m i j b) r).
    rewrite IH. cbn [last_write]. destruct (last_write s r p) as [b'|]; [reflexivity|].
    rewrite find_mset. destruct (Pos.eqb (idx s i j) p); reflexivity.
Qed.

Lemma last_write_In s cells : forall p b,
  last_write s cells p = Some b -> exists i j, In (i, j, b) cells /\ idx s i j = p.
Proof.
  induction cells as [|[[i j] b0] r IH]; intros p b H; cbn [last_write] in H; [discriminate|].
  destruct (last_write s r p) as [b'|] eqn:E.
  - injection H as ->. destruct (IH p b E) as (i' & j' & Hin & Hp). exists i', j'. split; [right; exact Hin|exact Hp].
  - destruct (Pos.eqb_spec (idx s i j) p) as [Hp|Hp]; [|discriminate].
    injection H as ->. exists i, j. split; [left; reflexivity|exact Hp].
Qed.

(* coordinate-level reading of set_all: last entry for (i, j) wins *)
Fixpoint last_cell (cells : list (Z * Z * bool)) (i j : Z) : option bool :=
  match cells with
  | [] => None
  | (i', j', b) :: r =>
      match last_cell r i j with
      | Some x => Some x
      | None => if (i' =? i) && (j' =? j) then Some b else None
      end
  end.

Lemma last_write_cell s cells i j :
  0 <= i -> 0 <= j < s ->
  Forall (fun c => 0 <= fst (fst c) /\ 0 <= snd (fst c) < s) cells ->
  last_write s cells (idx s i j) = last_cell cells i j.
Proof.
  intros Hi Hj Hall. induction Hall as [|[[i' j'] b] r Hc Hr IH]; [reflexivity|].
  cbn [last_write last_cell]. rewrite IH. destruct (last_cell r i j); [reflexivity|].
  cbn [fst snd] in Hc. destruct Hc as [Hi' Hj'].
  destruct (Pos.eqb_spec (idx s i' j') (idx s i j)) as [Heq|Hne].
  - apply idx_inj in Heq; try assumption. destruct Heq as [-> ->]. rewrite !Z.eqb_refl. reflexivity.
  - destruct ((i' =? i) && (j' =? j)) eqn:E; [|reflexivity]. exfalso. apply Hne. f_equal; lia.
Qed.

Lemma mget_set_all s m cells i j :
  0 <= i -> 0 <= j < s ->
  Forall (fun c => 0 <= fst (fst c) /\ 0 <= snd (fst c) < s) cells ->
  mget s (set_all s m cells) i j =
  match last_cell cells i j with Some b => Some b | None => mget s m i j end.
Proof.
  intros Hi Hj Hall. unfold mget. rewrite find_set_all, last_write_cell by assumption. reflexivity.
Qed.

(* place_visit never changes a present cell ... *)
Lemma place_visit_keep s visit : forall m bs p b,
  PM.find p m = Some b -> PM.find p (fst (place_visit s m visit bs)) = Some b.
Proof.
  induction visit as [|[i j] r IH]; intros m bs p b H; cbn [place_visit]; [exact H|].
  destruct (mget s m i j) as [x|] eqn:E; [apply IH; exact H|].
  destruct bs as [|b0 bs']; [apply IH; exact H|].
  apply IH. rewrite find_mset. destruct (Pos.eqb_spec (idx s i j) p) as [Hp|Hp]; [|exact H].
  subst p. unfold mget in E. congruence.
Qed.
(* ... and writes only absent cells of the visit list *)
Lemma place_visit_writes s visit : forall m bs p,
  PM.find p (fst (place_visit s m visit bs)) = PM.find p m \/
  (PM.find p m = None /\ exists i j, In (i, j) visit /\ idx s i j = p).
Proof.
  induction visit as [|[i j] r IH]; intros m bs p; cbn [place_visit]; [left; reflexivity|].
  assert (Hrec : forall m' bs', PM.find p m' = PM.find p m ->
            PM.find p (fst (place_visit s m' r bs')) = PM.find p m \/
            (PM.find p m = None /\ exists i0 j0, In (i0, j0) ((i, j) :: r) /\ idx s i0 j0 = p)).
  { intros m' bs' Hm'. destruct (IH m' bs' p) as [Heq|[Hn (i0 & j0 & Hin & Hp)]].
    - left. congruence.
    - right. split; [congruence|]. exists i0, j0. split; [right; exact Hin|exact Hp]. }
  destruct (mget s m i j) as [x|] eqn:E; [apply Hrec; reflexivity|].
  destruct bs as [|b0 bs']; [apply Hrec; reflexivity|].
  destruct (Pos.eqb_spec (idx s i j) p) as [Hp|Hp].
  - right. unfold mget in E. subst p. split; [exact E|]. exists i, j. split; [left; reflexivity|reflexivity].
  - apply Hrec. rewrite find_mset. destruct (Pos.eqb_spec (idx s i j) p); [contradiction|reflexivity].
Qed.

Lemma add_codewords_keep s v m final m' p b :
  add_codewords s v m final = Ok m' -> PM.find p m = Some b -> PM.find p m' = Some b.
Proof.
  unfold add_codewords. intros H Hp.
  pose proof (place_visit_keep s (visit_order s v) m final p b Hp) as Hk.
  destruct (place_visit s m (visit_order s v) final) as [mm rest]. cbn [fst] in Hk.
  destruct rest; [|discriminate]. injection H as <-. exact Hk.
Qed.

(* apply_mask changes only cells of reg, and only present ones *)
Lemma apply_mask_other s f reg : forall m p,
  (forall i j, In (i, j) reg -> idx s i j <> p) ->
  PM.find p (apply_mask s m reg f) = PM.find p m.
Proof.
  unfold apply_mask. induction reg as [|[i j] r IH]; intros m p H; cbn [fold_left]; [reflexivity|].
  rewrite IH by (intros i0 j0 Hin; apply H; right; exact Hin).
  destruct (mget s m i j) as [b|]; [|reflexivity].
  rewrite find_mset. destruct (Pos.eqb_spec (idx s i j) p) as [Hp|Hp]; [|reflexivity].
  exfalso. apply (H i j); [left; reflexivity|exact Hp].
Qed.

Lemma apply_mask_presence s f reg : forall m p,
  is_none (PM.find p (apply_mask s m reg f)) = is_none (PM.find p m).
Proof.
  unfold apply_mask. induction reg as [|[i j] r IH]; intros m p; cbn [fold_left]; [reflexivity|].
  rewrite IH. destruct (mget s m i j) as [b|] eqn:E; [|reflexivity].
  rewrite find_mset. destruct (Pos.eqb_spec (idx s i j) p) as [Hp|Hp]; [|reflexivity].
  subst p. unfold mget in E. rewrite E. reflexivity.
Qed.

Lemma region_In s fm i j : In (i, j) (region s fm) -> mget s fm i j = None.
Proof.
  unfold region. intros H. apply filter_In in H. destruct H as [_ H].
  destruct (mget s fm i j); [discriminate|reflexivity].
Qed.

(* the mask search returns a masked copy of its input *)
Lemma best_mask_loop_shape s micro m reg : forall ks sc best k mk,
  best_mask_loop s micro m reg ks sc best = Some (k, mk) ->
  best = Some (k, mk) \/ (In k ks /\ mk = apply_mask s m reg (mask_fn micro k)).
Proof.
  induction ks as [|k0 r IH]; intros sc best k mk H; cbn [best_mask_loop] in H; [left; exact H|].
  cbv zeta in H.
  match type of H with (if ?c then _ else _) = _ => destruct c end.
  - apply IH in H. destruct H as [H|[Hin Hmk]].
    + injection H as <- <-. right. split; [left; reflexivity|reflexivity].
    + right. split; [right; exact Hin|exact Hmk].
  - apply IH in H. destruct H as [H|[Hin Hmk]]; [left; exact H|].
    right. split; [right; exact Hin|exact Hmk].
Qed.

Lemma find_best_mask_shape s m mask k m4 :
  find_and_apply_best_mask s m mask = Ok (k, m4) ->
  exists fm, function_matrix s = Ok fm /\
             m4 = apply_mask s m (region s fm) (mask_fn (s <? 21) k) /\
             (mask = None -> 0 <= k < (if s <? 21 then 4 else 8)).
Proof.
  unfold find_and_apply_best_mask. intros H. apply bind_ok in H. destruct H as (fm & Hfm & H).
  exists fm. split; [exact Hfm|]. destruct mask as [k0|].
  - injection H as <- <-. split; [reflexivity|discriminate].
  - destruct (best_mask_loop s (s <? 21) m (region s fm) (zrange 0 (if s <? 21 then 4 else 8))
                (if s <? 21 then -1 else max_penalty) None) as [[k1 m1]|] eqn:E; [|discriminate].
    injection H as <- <-. apply best_mask_loop_shape in E. destruct E as [E|[Hin Hmk]]; [discriminate|].
    split; [exact Hmk|]. intros _. apply zrange_In_inv in Hin. exact Hin.
Qed.

(* rows_of / cell *)
Lemma nth_map_zrange_aux {A} (f : Z -> A) d : forall n a k,
  (k < n)%nat -> nth k (map f (zrange_aux n a)) d = f (a + Z.of_nat k).
Proof.
  induction n as [|n IH]; intros a k Hk; [lia|]. cbn [zrange_aux map].
  destruct k as [|k]; cbn [nth].
  - f_equal. lia.
  - rewrite IH by lia. f_equal. lia.
Qed.
Lemma nth_map_zrange {A} (f : Z -> A) d n i :
  0 <= i < n -> nth (Z.to_nat i) (map f (zrange 0 n)) d = f i.
Proof.
  intros H. unfold zrange. rewrite nth_map_zrange_aux by lia. f_equal. lia.
Qed.
Lemma lenZ_map_zrange {A} (f : Z -> A) n : 0 <= n -> lenZ (map f (zrange 0 n)) = n.
Proof. intros H. unfold lenZ, zrange. rewrite map_length, zrange_aux_length. lia. Qed.

Lemma rows_of_len s m : 0 <= s -> lenZ (rows_of s m) = s.
Proof. intros H. unfold rows_of. apply lenZ_map_zrange. exact H. Qed.
Lemma rows_of_row_len s m r : 0 <= s -> In r (rows_of s m) -> lenZ r = s.
Proof.
  intros H Hin. unfold rows_of in Hin. apply in_map_iff in Hin. destruct Hin as (i & <- & _).
  apply lenZ_map_zrange. exact H.
Qed.
Lemma rows_of_square s m : 0 <= s -> square_ok (rows_of s m) = true.
Proof.
  intros H. unfold square_ok. apply forallb_forall. intros r Hr.
  rewrite (rows_of_row_len s m r H Hr), rows_of_len by exact H. apply Z.eqb_refl.
Qed.
Lemma cell_rows_of s m i j :
  0 <= i < s -> 0 <= j < s ->
  cell (rows_of s m) i j = match mget s m i j with Some b => b | None => false end.
Proof.
  intros Hi Hj. unfold cell, rows_of.
  rewrite (nth_map_zrange (fun i => map (fun j => match mget s m i j with Some b => b | None => false end) (zrange 0 s)) [] s i Hi).
  rewrite (nth_map_zrange (fun j => match mget s m i j with Some b => b | None => false end) false s j Hj).
  reflexivity.
Qed.

(* restatement of add_format_info / add_version_info as one set_all *)
Lemma add_format_info_eq s v e k m :
  add_format_info s v e k m =
  do fi <- calc_format_info v e k;
  Ok (set_all s m (fmt_cells s (v <? 1) fi ++ (if v <? 1 then [] else [(s - 8, 8, true)]))).
Proof.
  unfold add_format_info, fmt_cells. destruct (calc_format_info v e k) as [fi|err]; cbn [bind]; [|reflexivity].
  destruct (v <? 1).
  - rewrite app_nil_r. reflexivity.
  - rewrite set_all_app. reflexivity.
Qed.
Lemma add_version_info_eq s v m :
  add_version_info s v m =
  do vc <- (if v <? 7 then Ok [] else do vi <- nthZ VERSION_INFO (v - 7); Ok (ver_cells s vi));
  Ok (set_all s m vc).
Proof.
  unfold add_version_info, ver_cells. destruct (v <? 7); [reflexivity|].
  destruct (nthZ VERSION_INFO (v - 7)); reflexivity.
Qed.
Lemma add_info_cells v e k m4 m5 m6 :
  add_format_info (calc_matrix_size v) v e k m4 = Ok m5 ->
  add_version_info (calc_matrix_size v) v m5 = Ok m6 ->
  exists cells, fv_cells v e k = Ok cells /\ m6 = set_all (calc_matrix_size v) m4 cells.
Proof.
  rewrite add_format_info_eq, add_version_info_eq. intros H5 H6.
  apply bind_ok in H5. destruct H5 as (fi & Hfi & H5). cbv beta in H5. apply Ok_inj in H5. subst m5.
  apply bind_ok in H6. destruct H6 as (vc & Hvc & H6). cbv beta in H6. apply Ok_inj in H6. subst m6.
  unfold fv_cells. cbv zeta. rewrite Hfi. cbn [bind]. rewrite Hvc. cbn [bind].
  eexists. split; [reflexivity|]. symmetry. apply set_all_app.
Qed.

(* ------------------------------------------------------------------ *)
(* C. Lifting the finite facts and combining                           *)
(* ------------------------------------------------------------------ *)
Lemma version_in v : -3 <= v <= 40 -> In v all_versions.
Proof. intros H. apply zrange_In. lia. Qed.

Lemma size_facts v : -3 <= v <= 40 -> 11 <= calc_matrix_size v /\ calc_matrix_size v = size_of_version v.
Proof. intros H. unfold calc_matrix_size, size_of_version. destruct (0 <? v) eqn:E; lia. Qed.

Lemma oz_eqb_true a b : oz_eqb a b = true -> a = b.
Proof.
  destruct a as [x|], b as [y|]; cbn [oz_eqb]; intros H; try discriminate; [|reflexivity].
  apply Z.eqb_eq in H. congruence.
Qed.
Lemma assocOZ_In {A} e (row : list (option Z * A)) x : assocOZ e row = Some x -> In (e, x) row.
Proof.
  induction row as [|[k' v'] r IH]; cbn [assocOZ]; [discriminate|].
  destruct (oz_eqb e k') eqn:E; intros H.
  - apply oz_eqb_true in E. left. congruence.
  - right. apply IH. exact H.
Qed.
Lemma assocZ_In {A} k (l : list (Z * A)) x : assocZ k l = Some x -> In (k, x) l.
Proof.
  induction l as [|[k' v'] r IH]; cbn [assocZ]; [discriminate|].
  destruct (Z.eqb k k') eqn:E; intros H.
  - apply Z.eqb_eq in E. left. congruence.
  - right. apply IH. exact H.
Qed.

Lemma nthZ_bound {A} (l : list A) i x : nthZ l i = Ok x -> 0 <= i < lenZ l.
Proof.
  unfold nthZ, lenZ. destruct (i <? 0) eqn:E; [discriminate|].
  destruct (nth_error l (Z.to_nat i)) eqn:En; [|discriminate]. intros _.
  assert (Hlt : (Z.to_nat i < List.length l)%nat) by (apply nth_error_Some; congruence). lia.
Qed.

(* a format word exists only for masks in a finite window *)
Lemma calc_format_info_mask v e mask fi : calc_format_info v e mask = Ok fi -> -28 <= mask < 32.
Proof.
  unfold calc_format_info. destruct (0 <? v).
  - cbv zeta. intros H. apply nthZ_bound in H. change (lenZ FORMAT_INFO) with 32 in H.
    destruct (oz_eqb e (Some ERROR_LEVEL_L)); [lia|].
    destruct (oz_eqb e (Some ERROR_LEVEL_H)); [lia|].
    destruct (oz_eqb e (Some ERROR_LEVEL_Q)); lia.
  - intros H. apply bind_ok in H. destruct H as (row & Hrow & H).
    apply bind_ok in H. destruct H as (n & Hn & H). apply nthZ_bound in H.
    change (lenZ FORMAT_INFO_MICRO) with 32 in H.
    rewrite Z.shiftl_mul_pow2 in H by lia. change (2 ^ 2) with 4 in H.
    unfold getZ in Hrow. destruct (assocZ v ERROR_LEVEL_TO_MICRO_MAPPING) as [row'|] eqn:E1; [|discriminate].
    apply Ok_inj in Hrow. subst row'. apply assocZ_In in E1.
    unfold getOZ in Hn. destruct (assocOZ e row) as [n'|] eqn:E2; [|discriminate].
    apply Ok_inj in Hn. subst n'. apply assocOZ_In in E2.
    pose proof micro_symbol_numbers as T. rewrite forallb_forall in T.
    specialize (T _ E1). cbv beta iota in T. rewrite forallb_forall in T.
    specialize (T _ E2). cbv beta iota in T. lia.
Qed.

Lemma triple_check_lift v e cap mask :
  -3 <= v <= 40 -> capacity v e = Ok cap -> -28 <= mask < 32 -> triple_check v e mask = true.
Proof.
  intros Hv Hc Hm. pose proof triple_check_all as H. rewrite forallb_forall in H.
  specialize (H v (version_in v Hv)). cbv beta in H.
  unfold capacity, getZ in Hc. revert H Hc.
  destruct (assocZ v SYMBOL_CAPACITY) as [row|]; intros H Hc; [|discriminate].
  cbn [bind] in Hc. unfold getOZ in Hc. destruct (assocOZ e row) as [c|] eqn:E; [|discriminate].
  apply assocOZ_In in E. rewrite forallb_forall in H. specialize (H (e, c) E). cbv beta iota in H.
  rewrite forallb_forall in H. apply H. apply zrange_In. exact Hm.
Qed.

Lemma base_check_lift v : -3 <= v <= 40 -> base_check v = true.
Proof. intros Hv. pose proof base_check_all as H. rewrite forallb_forall in H. apply H, version_in, Hv. Qed.

Lemma all_cells_In s i j : 0 <= i < s -> 0 <= j < s -> In (i, j) (all_cells s).
Proof.
  intros Hi Hj. unfold all_cells. apply in_flat_map. exists i. split; [apply zrange_In; exact Hi|].
  apply in_map. apply zrange_In. exact Hj.
Qed.

Lemma flat_map_nil {A B} (f : A -> list B) l : (forall x, In x l -> f x = []) -> flat_map f l = [].
Proof.
  induction l as [|a r IH]; intros H; cbn [flat_map]; [reflexivity|].
  rewrite (H a (or_introl eq_refl)), IH; [reflexivity|]. intros x Hx. apply H. right. exact Hx.
Qed.

Lemma ob_eqb_some a b : ob_eqb a (Some b) = true -> a = Some b.
Proof. destruct a as [x|]; cbn [ob_eqb]; intros H; [|discriminate]. apply eqb_prop in H. congruence. Qed.

Lemma final_cell s m4 cells i j :
  0 <= i < s -> 0 <= j < s ->
  cell (rows_of s (set_all s m4 cells)) i j =
  match last_write s cells (idx s i j) with
  | Some b => b
  | None => match PM.find (idx s i j) m4 with Some b => b | None => false end
  end.
Proof.
  intros Hi Hj. rewrite cell_rows_of by assumption. unfold mget. rewrite find_set_all.
  destruct (last_write s cells (idx s i j)); reflexivity.
Qed.

Lemma word_of_read rows n pos w :
  (forall k, 0 <= k < n -> cell rows (fst (pos k)) (snd (pos k)) = Z.testbit w k) ->
  read_word rows n pos = word_of (map (Z.testbit w) (rev (zrange 0 n))).
Proof.
  intros H. unfold read_word. f_equal. apply map_ext_in. intros k Hk.
  rewrite <- in_rev in Hk. apply zrange_In_inv in Hk. specialize (H k Hk).
  destruct (pos k) as [i j]. exact H.
Qed.

Lemma bits_at_read s m4 cells n pos w :
  bits_at s cells n pos w = true -> read_word (rows_of s (set_all s m4 cells)) n pos = w.
Proof.
  unfold bits_at. intros H. apply andb_prop in H. destruct H as [Hall Hw]. apply Z.eqb_eq in Hw.
  rewrite (word_of_read _ n pos w); [exact Hw|].
  intros k Hk. rewrite forallb_forall in Hall. specialize (Hall k (zrange_In 0 n k Hk)).
  cbv beta in Hall. destruct (pos k) as [i j]. cbn [fst snd].
  apply andb_prop in Hall. destruct Hall as [Hsq Hb]. unfold in_sq in Hsq.
  rewrite final_cell by lia. destruct (last_write s cells (idx s i j)) as [b|]; [|discriminate].
  apply eqb_prop. exact Hb.
Qed.

(* function pattern modules of the finished symbol *)
Lemma function_cell v e k m2 m4 cells i j b :
  -3 <= v <= 40 ->
  base_matrix (calc_matrix_size v) = Ok m2 ->
  (forall p x, PM.find p m2 = Some x -> PM.find p m4 = Some x) ->
  fv_cells v e k = Ok cells ->
  triple_check v e k = true ->
  0 <= i < calc_matrix_size v -> 0 <= j < calc_matrix_size v ->
  iso_function_value (calc_matrix_size v) (align_centres (version_of_size (calc_matrix_size v))) i j = Some b ->
  cell (rows_of (calc_matrix_size v) (set_all (calc_matrix_size v) m4 cells)) i j = b.
Proof.
  intros Hv Hbase Hkeep Hcells Ht Hi Hj Hiso.
  set (s := calc_matrix_size v) in *. set (cs := align_centres (version_of_size s)) in *.
  unfold triple_check in Ht. rewrite Hcells in Ht. cbv zeta in Ht. fold s in Ht. fold cs in Ht.
  apply andb_prop in Ht. destruct Ht as [Ht _]. apply andb_prop in Ht. destruct Ht as [Ht _].
  apply andb_prop in Ht. destruct Ht as [Hok Hdark].
  pose proof (base_check_lift v Hv) as Hb. unfold base_check in Hb. cbv zeta in Hb. fold s in Hb. fold cs in Hb.
  rewrite Hbase in Hb. rewrite forallb_forall in Hb. specialize (Hb (i, j) (all_cells_In s i j Hi Hj)).
  cbv beta iota in Hb. rewrite Hiso in Hb.
  rewrite final_cell by assumption.
  destruct (last_write s cells (idx s i j)) as [b'|] eqn:Elw.
  - destruct (last_write_In s cells _ _ Elw) as (i' & j' & Hin & Hidx).
    unfold cells_ok in Hok. rewrite forallb_forall in Hok. specialize (Hok _ Hin). cbv beta iota in Hok.
    apply andb_prop in Hok. destruct Hok as [Hsq Hval]. unfold in_sq in Hsq.
    apply idx_inj in Hidx; try lia. destruct Hidx as [-> ->].
    rewrite Hiso, Elw in Hval. cbn [ob_eqb] in Hval. apply eqb_prop in Hval. exact Hval.
  - apply orb_prop in Hb. destruct Hb as [Hb|Hb].
    + apply ob_eqb_some in Hb. unfold mget in Hb. apply Hkeep in Hb. rewrite Hb. reflexivity.
    + exfalso. apply andb_prop in Hb. destruct Hb as [Hb Hj8]. apply andb_prop in Hb. destruct Hb as [Hv0 Hi8].
      rewrite Hv0 in Hdark. apply Z.eqb_eq in Hi8. apply Z.eqb_eq in Hj8. subst i j.
      rewrite Elw in Hdark. discriminate.
Qed.

Lemma function_patterns_ok v e k m2 m4 cells :
  -3 <= v <= 40 ->
  base_matrix (calc_matrix_size v) = Ok m2 ->
  (forall p x, PM.find p m2 = Some x -> PM.find p m4 = Some x) ->
  fv_cells v e k = Ok cells ->
  triple_check v e k = true ->
  function_pattern_errors (rows_of (calc_matrix_size v) (set_all (calc_matrix_size v) m4 cells)) = [].
Proof.
  intros Hv Hbase Hkeep Hcells Ht. destruct (size_facts v Hv) as [Hs _].
  unfold function_pattern_errors. cbv zeta. rewrite rows_of_len by lia.
  apply flat_map_nil. intros i Hi. apply flat_map_nil. intros j Hj.
  apply zrange_In_inv in Hi. apply zrange_In_inv in Hj.
  destruct (iso_function_value (calc_matrix_size v) (align_centres (version_of_size (calc_matrix_size v))) i j)
    as [b|] eqn:Hiso; [|reflexivity].
  rewrite (function_cell v e k m2 m4 cells i j b Hv Hbase Hkeep Hcells Ht Hi Hj Hiso).
  rewrite eqb_reflx. reflexivity.
Qed.

(* the part of the pipeline after the data independent base matrix *)
Theorem pipeline_c02 : forall v e k cap mask final m1 m2 m3 m4 m5 m6,
  -3 <= v <= 40 ->
  capacity v e = Ok cap ->
  add_finder_patterns (calc_matrix_size v) (make_matrix (calc_matrix_size v) true true) = Ok m1 ->
  add_alignment_patterns (calc_matrix_size v) m1 = Ok m2 ->
  add_codewords (calc_matrix_size v) v m2 final = Ok m3 ->
  find_and_apply_best_mask (calc_matrix_size v) m3 mask = Ok (k, m4) ->
  add_format_info (calc_matrix_size v) v e k m4 = Ok m5 ->
  add_version_info (calc_matrix_size v) v m5 = Ok m6 ->
  c02_check (rows_of (calc_matrix_size v) m6) v e k = [].
Proof.
  intros v e k cap mask final m1 m2 m3 m4 m5 m6 Hv Hcap H1 H2 H3 H4 H5 H6.
  destruct (size_facts v Hv) as [Hs Hsize].
  destruct (add_info_cells v e k m4 m5 m6 H5 H6) as (cells & Hcells & Hm6). subst m6.
  assert (Hmask : -28 <= k < 32).
  { unfold fv_cells in Hcells. cbv zeta in Hcells. apply bind_ok in Hcells.
    destruct Hcells as (fi & Hfi & _). apply calc_format_info_mask in Hfi. exact Hfi. }
  pose proof (triple_check_lift v e cap k Hv Hcap Hmask) as Ht.
  assert (Hbase : base_matrix (calc_matrix_size v) = Ok m2).
  { unfold base_matrix. rewrite H1. cbn [bind]. exact H2. }
  assert (Hkeep : forall p x, PM.find p m2 = Some x -> PM.find p m4 = Some x).
  { intros p x Hp. apply find_best_mask_shape in H4. destruct H4 as (fm & Hfm & Hm4 & _).
    subst m4. rewrite apply_mask_other.
    - apply (add_codewords_keep _ _ _ _ _ _ _ H3 Hp).
    - intros i j Hin Hidx. apply region_In in Hin. unfold mget in Hin. rewrite Hidx in Hin.
      unfold function_matrix in Hfm. rewrite H1 in Hfm. cbn [bind] in Hfm. rewrite H2 in Hfm. cbn [bind] in Hfm.
      apply Ok_inj in Hfm. subst fm.
      destruct (calc_matrix_size v <? 21); [congruence|].
      rewrite find_mset in Hin. destruct (Pos.eqb _ p); congruence. }
  pose proof (function_patterns_ok v e k m2 m4 cells Hv Hbase Hkeep Hcells Ht) as Hfp.
  unfold triple_check in Ht. rewrite Hcells in Ht. cbv zeta in Ht.
  apply andb_prop in Ht. destruct Ht as [Ht Hver]. apply andb_prop in Ht. destruct Ht as [_ Hfmt].
  unfold c02_check. cbv zeta. rewrite rows_of_len by lia. rewrite Hfp.
  rewrite rows_of_square by lia. rewrite Hsize, Z.eqb_refl. cbn [andb app].
  destruct (iso_format_word v e k) as [w|]; [|discriminate].
  rewrite <- Hsize.
  assert (Hf : (if 0 <? v
                then (if read_word (rows_of (calc_matrix_size v) (set_all (calc_matrix_size v) m4 cells)) 15 format_pos_qr_1 =? w then [] else [4]) ++
                     (if read_word (rows_of (calc_matrix_size v) (set_all (calc_matrix_size v) m4 cells)) 15 (format_pos_qr_2 (calc_matrix_size v)) =? w then [] else [5])
                else (if read_word (rows_of (calc_matrix_size v) (set_all (calc_matrix_size v) m4 cells)) 15 format_pos_micro =? w then [] else [4])) = @nil Z).
  { destruct (0 <? v).
    - apply andb_prop in Hfmt. destruct Hfmt as [Ha Hb].
      rewrite (bits_at_read _ m4 _ _ _ _ Ha), (bits_at_read _ m4 _ _ _ _ Hb), Z.eqb_refl. reflexivity.
    - rewrite (bits_at_read _ m4 _ _ _ _ Hfmt), Z.eqb_refl. reflexivity. }
  rewrite Hf. cbn [app].
  destruct (7 <=? v); [|reflexivity].
  apply andb_prop in Hver. destruct Hver as [Ha Hb].
  rewrite (bits_at_read _ m4 _ _ _ _ Ha), (bits_at_read _ m4 _ _ _ _ Hb), Z.eqb_refl. reflexivity.
Qed.
Print Assumptions pipeline_c02.

Lemma data_stream_capacity segs e v eci sa buff :
  data_stream segs e v eci sa = Ok buff -> exists cap, capacity v e = Ok cap.
Proof.
  unfold data_stream. cbv zeta. intros H.
  apply bind_ok in H. destruct H as (vr & _ & H).
  apply bind_ok in H. destruct H as (body & _ & H).
  apply bind_ok in H. destruct H as (cap & Hcap & _). exists cap. exact Hcap.
Qed.

Theorem encode_core_c02 : forall segs error version mask eci boost sa code,
  -3 <= version <= 40 ->
  encode_core segs error version mask eci boost sa = Ok code ->
  c02_check (c_matrix code) (c_version code) (c_error code) (c_mask code) = [].
Proof.
  intros segs error version mask eci boost sa code Hv H.
  unfold encode_core in H. cbv zeta in H.
  apply bind_ok in H. destruct H as (e & _ & H).
  apply bind_ok in H. destruct H as (buff & Hds & H).
  apply bind_ok in H. destruct H as (final & _ & H).
  apply bind_ok in H. destruct H as (m1 & H1 & H).
  apply bind_ok in H. destruct H as (m2 & H2 & H).
  apply bind_ok in H. destruct H as (m3 & H3 & H).
  apply bind_ok in H. destruct H as ([k m4] & H4 & H).
  apply bind_ok in H. destruct H as (m5 & H5 & H).
  apply bind_ok in H. destruct H as (m6 & H6 & H).
  apply Ok_inj in H. subst code. cbn [c_matrix c_version c_error c_mask].
  destruct (data_stream_capacity _ _ _ _ _ _ Hds) as (cap & Hcap).
  exact (pipeline_c02 version e k cap mask final m1 m2 m3 m4 m5 m6 Hv Hcap H1 H2 H3 H4 H5 H6).
Qed.
Print Assumptions encode_core_c02.

(* ------------------------------------------------------------------ *)
(* D. Readable corollaries                                             *)
(* ------------------------------------------------------------------ *)
(* what c02_check = [] means *)
Lemma c02_check_sound rows v l mask :
  c02_check rows v l mask = [] ->
  square_ok rows = true /\ lenZ rows = size_of_version v /\
  function_pattern_errors rows = [] /\
  (exists w, iso_format_word v l mask = Some w /\
     if 0 <? v then read_word rows 15 format_pos_qr_1 = w /\ read_word rows 15 (format_pos_qr_2 (lenZ rows)) = w
     else read_word rows 15 format_pos_micro = w) /\
  (7 <= v -> read_word rows 18 (version_pos_ll (lenZ rows)) = golay18_6 v /\
             read_word rows 18 (version_pos_ur (lenZ rows)) = golay18_6 v).
Proof.
  unfold c02_check. cbv zeta. intros H.
  apply app_eq_nil in H. destruct H as [H1 H]. apply app_eq_nil in H. destruct H as [H2 H].
  apply app_eq_nil in H. destruct H as [H3 H4].
  destruct (square_ok rows && (lenZ rows =? size_of_version v)) eqn:E1; [|discriminate].
  apply andb_prop in E1. destruct E1 as [Esq Esz]. apply Z.eqb_eq in Esz.
  split; [exact Esq|]. split; [exact Esz|]. split.
  { destruct (function_pattern_errors rows); [reflexivity|discriminate]. }
  split.
  - destruct (iso_format_word v l mask) as [w|]; [|discriminate]. exists w. split; [reflexivity|].
    destruct (0 <? v).
    + apply app_eq_nil in H3. destruct H3 as [Ha Hb].
      destruct (read_word rows 15 format_pos_qr_1 =? w) eqn:Ea; [|discriminate].
      destruct (read_word rows 15 (format_pos_qr_2 (lenZ rows)) =? w) eqn:Eb; [|discriminate].
      apply Z.eqb_eq in Ea. apply Z.eqb_eq in Eb. split; assumption.
    + destruct (read_word rows 15 format_pos_micro =? w) eqn:Ea; [|discriminate].
      apply Z.eqb_eq in Ea. exact Ea.
  - intros H7. destruct (7 <=? v) eqn:E7; [|lia].
    apply app_eq_nil in H4. destruct H4 as [Ha Hb].
    destruct (read_word rows 18 (version_pos_ll (lenZ rows)) =? golay18_6 v) eqn:Ea; [|discriminate].
    destruct (read_word rows 18 (version_pos_ur (lenZ rows)) =? golay18_6 v) eqn:Eb; [|discriminate].
    apply Z.eqb_eq in Ea. apply Z.eqb_eq in Eb. split; assumption.
Qed.

Lemma flat_map_nil_inv {A B} (f : A -> list B) l : flat_map f l = [] -> forall x, In x l -> f x = [].
Proof.
  induction l as [|a r IH]; cbn [flat_map]; intros H x Hx; [destruct Hx|].
  apply app_eq_nil in H. destruct H as [Ha Hr]. destruct Hx as [<-|Hx]; [exact Ha|apply IH; assumption].
Qed.

Lemma function_pattern_errors_cell rows i j b :
  function_pattern_errors rows = [] ->
  0 <= i < lenZ rows -> 0 <= j < lenZ rows ->
  iso_function_value (lenZ rows) (align_centres (version_of_size (lenZ rows))) i j = Some b ->
  cell rows i j = b.
Proof.
  unfold function_pattern_errors. cbv zeta. intros H Hi Hj Hiso.
  pose proof (flat_map_nil_inv _ _ H i (zrange_In _ _ _ Hi)) as H1. cbv beta in H1.
  pose proof (flat_map_nil_inv _ _ H1 j (zrange_In _ _ _ Hj)) as H2. cbv beta in H2.
  rewrite Hiso in H2. destruct (Bool.eqb b (cell rows i j)) eqn:E; [|discriminate].
  apply eqb_prop in E. congruence.
Qed.

Lemma version_of_size_of_version v : -3 <= v <= 40 -> version_of_size (size_of_version v) = v.
Proof. intros H. unfold version_of_size, size_of_version. destruct (0 <? v) eqn:E; [destruct (17 + 4 * v <? 21) eqn:E2|destruct (9 + 2 * (v + 4) <? 21) eqn:E2]; try lia.
  - rewrite <- (Z.div_unique (17 + 4 * v - 17) 4 v 0); lia.
  - rewrite <- (Z.div_unique (9 + 2 * (v + 4) - 9) 2 (v + 4) 0); lia.
Qed.

Lemma encode_core_version segs error version mask eci boost sa code :
  encode_core segs error version mask eci boost sa = Ok code -> c_version code = version.
Proof.
  intros H. unfold encode_core in H. cbv zeta in H.
  apply bind_ok in H. destruct H as (e & _ & H).
  apply bind_ok in H. destruct H as (buff & _ & H).
  apply bind_ok in H. destruct H as (final & _ & H).
  apply bind_ok in H. destruct H as (m1 & _ & H).
  apply bind_ok in H. destruct H as (m2 & _ & H).
  apply bind_ok in H. destruct H as (m3 & _ & H).
  apply bind_ok in H. destruct H as ([k m4] & _ & H).
  apply bind_ok in H. destruct H as (m5 & _ & H).
  apply bind_ok in H. destruct H as (m6 & _ & H).
  apply Ok_inj in H. subst code. reflexivity.
Qed.

(* (3) no function pattern module of an encoded symbol differs from ISO *)
Theorem encode_core_function_patterns : forall segs error version mask eci boost sa code,
  -3 <= version <= 40 ->
  encode_core segs error version mask eci boost sa = Ok code ->
  function_pattern_errors (c_matrix code) = [] /\
  forall i j b, 0 <= i < size_of_version version -> 0 <= j < size_of_version version ->
    iso_function_value (size_of_version version) (align_centres version) i j = Some b ->
    cell (c_matrix code) i j = b.
Proof.
  intros segs error version mask eci boost sa code Hv H.
  pose proof (encode_core_version _ _ _ _ _ _ _ _ H) as Hver.
  pose proof (encode_core_c02 _ _ _ _ _ _ _ _ Hv H) as Hc. apply c02_check_sound in Hc.
  destruct Hc as (_ & Hlen & Hfp & _). rewrite Hver in Hlen. split; [exact Hfp|].
  intros i j b Hi Hj Hiso. apply function_pattern_errors_cell; rewrite ?Hlen; try assumption.
  rewrite version_of_size_of_version by exact Hv. exact Hiso.
Qed.
Print Assumptions encode_core_function_patterns.

(* (4) both copies of the format information *)
Theorem encode_core_format_copies : forall segs error version mask eci boost sa code,
  -3 <= version <= 40 ->
  encode_core segs error version mask eci boost sa = Ok code ->
  exists w, iso_format_word (c_version code) (c_error code) (c_mask code) = Some w /\
    if 0 <? c_version code
    then read_word (c_matrix code) 15 format_pos_qr_1 = w /\
         read_word (c_matrix code) 15 (format_pos_qr_2 (lenZ (c_matrix code))) = w
    else read_word (c_matrix code) 15 format_pos_micro = w.
Proof.
  intros segs error version mask eci boost sa code Hv H.
  pose proof (encode_core_c02 _ _ _ _ _ _ _ _ Hv H) as Hc. apply c02_check_sound in Hc.
  destruct Hc as (_ & _ & _ & Hf & _). exact Hf.
Qed.
Print Assumptions encode_core_format_copies.

(* (5) both copies of the version information *)
Theorem encode_core_version_copies : forall segs error version mask eci boost sa code,
  -3 <= version <= 40 ->
  encode_core segs error version mask eci boost sa = Ok code ->
  7 <= c_version code ->
  read_word (c_matrix code) 18 (version_pos_ll (lenZ (c_matrix code))) = golay18_6 (c_version code) /\
  read_word (c_matrix code) 18 (version_pos_ur (lenZ (c_matrix code))) = golay18_6 (c_version code).
Proof.
  intros segs error version mask eci boost sa code Hv H.
  pose proof (encode_core_c02 _ _ _ _ _ _ _ _ Hv H) as Hc. apply c02_check_sound in Hc.
  destruct Hc as (_ & _ & _ & _ & Hver). exact Hver.
Qed.
Print Assumptions encode_core_version_copies.

(* Prop-level reading of B1 *)
Lemma mtype_eqb_true a b : mtype_eqb a b = true <-> a = b.
Proof. split; [destruct a, b; cbn [mtype_eqb]; intros H; try discriminate; reflexivity|intros ->; destruct b; reflexivity]. Qed.

Lemma is_none_eqb_iff (o : option bool) (t : mtype) :
  Bool.eqb (is_none o) (mtype_eqb t Data) = true -> (o = None <-> t = Data).
Proof.
  intros H. apply eqb_prop in H. rewrite <- mtype_eqb_true, <- H.
  destruct o; cbn [is_none]; split; intros; congruence.
Qed.

Theorem base_matrix_geometry v :
  -3 <= v <= 40 ->
  exists m2 fm,
    base_matrix (size_of_version v) = Ok m2 /\ function_matrix (size_of_version v) = Ok fm /\
    forall i j, 0 <= i < size_of_version v -> 0 <= j < size_of_version v ->
      (forall b, iso_function_value (size_of_version v) (align_centres v) i j = Some b ->
                 mget (size_of_version v) m2 i j = Some b \/ (0 < v /\ i = size_of_version v - 8 /\ j = 8)) /\
      (mget (size_of_version v) m2 i j = None <-> iso_type (size_of_version v) (align_centres v) i j = Data) /\
      (mget (size_of_version v) fm i j = None <-> iso_type (size_of_version v) (align_centres v) i j = Data) /\
      (In (i, j) (region (size_of_version v) fm) <-> iso_type (size_of_version v) (align_centres v) i j = Data).
Proof.
  intros Hv. destruct (size_facts v Hv) as [Hs Hsize].
  pose proof regions_check_all as Hr. rewrite forallb_forall in Hr. specialize (Hr v (version_in v Hv)).
  pose proof (base_check_lift v Hv) as Hb.
  unfold regions_check in Hr. unfold base_check in Hb. cbv zeta in Hr, Hb.
  rewrite Hsize in Hr, Hb. rewrite (version_of_size_of_version v Hv) in Hr, Hb.
  destruct (base_matrix (size_of_version v)) as [m2|]; [|discriminate].
  destruct (function_matrix (size_of_version v)) as [fm|]; [|rewrite andb_false_r in Hr; discriminate].
  exists m2, fm. split; [reflexivity|]. split; [reflexivity|].
  intros i j Hi Hj.
  apply andb_prop in Hr. destruct Hr as [_ Hr]. apply andb_prop in Hr. destruct Hr as [Hr _].
  apply andb_prop in Hr. destruct Hr as [Hr _].
  rewrite forallb_forall in Hr, Hb.
  specialize (Hr (i, j) (all_cells_In _ i j Hi Hj)). specialize (Hb (i, j) (all_cells_In _ i j Hi Hj)).
  cbv beta iota zeta in Hr, Hb. apply andb_prop in Hr. destruct Hr as [Hr2 Hrf].
  apply is_none_eqb_iff in Hr2. apply is_none_eqb_iff in Hrf.
  split; [|split; [exact Hr2|split; [exact Hrf|]]].
  - intros b Hiso. rewrite Hiso in Hb. apply orb_prop in Hb. destruct Hb as [Hb|Hb].
    + left. apply ob_eqb_some. exact Hb.
    + right. lia.
  - rewrite <- Hrf. split; [apply region_In|]. intros Hn. unfold region. apply filter_In.
    split; [apply all_cells_In; assumption|]. rewrite Hn. reflexivity.
Qed.
Print Assumptions base_matrix_geometry.

(* format / version / dark module positions are reserved (present) in the base matrix *)
Theorem base_matrix_reserved v m2 :
  -3 <= v <= 40 -> base_matrix (size_of_version v) = Ok m2 ->
  let s := size_of_version v in
  (forall k, 0 <= k < 15 ->
     if 0 <? v then present_at s m2 (format_pos_qr_1 k) = true /\ present_at s m2 (format_pos_qr_2 s k) = true
     else present_at s m2 (format_pos_micro k) = true) /\
  (0 < v -> present_at s m2 (s - 8, 8) = true) /\
  (7 <= v -> forall k, 0 <= k < 18 ->
     present_at s m2 (version_pos_ll s k) = true /\ present_at s m2 (version_pos_ur s k) = true).
Proof.
  intros Hv Hm2. cbv zeta. destruct (size_facts v Hv) as [Hs Hsize].
  pose proof regions_check_all as Hr. rewrite forallb_forall in Hr. specialize (Hr v (version_in v Hv)).
  unfold regions_check in Hr. cbv zeta in Hr. rewrite Hsize in Hr. rewrite Hm2 in Hr.
  destruct (function_matrix (size_of_version v)) as [fm|]; [|rewrite andb_false_r in Hr; discriminate].
  apply andb_prop in Hr. destruct Hr as [_ Hr]. apply andb_prop in Hr. destruct Hr as [Hr Hvv].
  apply andb_prop in Hr. destruct Hr as [_ Hff].
  split; [|split].
  - intros k Hk. destruct (0 <? v).
    + apply andb_prop in Hff. destruct Hff as [Hff _]. rewrite forallb_forall in Hff.
      specialize (Hff k (zrange_In _ _ _ Hk)). cbv beta in Hff. apply andb_prop in Hff. exact Hff.
    + rewrite forallb_forall in Hff. exact (Hff k (zrange_In _ _ _ Hk)).
  - intros H0. destruct (0 <? v) eqn:E; [|lia]. apply andb_prop in Hff. destruct Hff as [_ Hd]. exact Hd.
  - intros H7 k Hk. destruct (7 <=? v) eqn:E; [|lia]. rewrite forallb_forall in Hvv.
    specialize (Hvv k (zrange_In _ _ _ Hk)). cbv beta in Hvv. apply andb_prop in Hvv. exact Hvv.
Qed.
Print Assumptions base_matrix_reserved.

(* Prop-level reading of B2 for the 1312 regular (version, level, mask) triples *)
Lemma bits_at_spec s cells n pos w :
  bits_at s cells n pos w = true ->
  forall k, 0 <= k < n ->
    0 <= fst (pos k) < s /\ 0 <= snd (pos k) < s /\
    last_write s cells (idx s (fst (pos k)) (snd (pos k))) = Some (Z.testbit w k).
Proof.
  unfold bits_at. intros H k Hk. apply andb_prop in H. destruct H as [Hall _].
  rewrite forallb_forall in Hall. specialize (Hall k (zrange_In _ _ _ Hk)). cbv beta in Hall.
  destruct (pos k) as [i j]. cbn [fst snd]. apply andb_prop in Hall. destruct Hall as [Hsq Hb].
  unfold in_sq in Hsq. split; [lia|]. split; [lia|].
  destruct (last_write s cells (idx s i j)) as [b|]; [|discriminate]. apply eqb_prop in Hb. congruence.
Qed.

Theorem format_version_cells v e mask cap :
  -3 <= v <= 40 -> capacity v e = Ok cap -> 0 <= mask < (if v <? 1 then 4 else 8) ->
  let s := size_of_version v in
  let bit_at cells (pos : Z * Z) := last_write s cells (idx s (fst pos) (snd pos)) in
  exists cells w,
    fv_cells v e mask = Ok cells /\ iso_format_word v e mask = Some w /\
    (forall k, 0 <= k < 15 ->
       if 0 <? v then bit_at cells (format_pos_qr_1 k) = Some (Z.testbit w k) /\
                      bit_at cells (format_pos_qr_2 s k) = Some (Z.testbit w k)
       else bit_at cells (format_pos_micro k) = Some (Z.testbit w k)) /\
    (0 < v -> bit_at cells (s - 8, 8) = Some true) /\
    (7 <= v -> forall k, 0 <= k < 18 ->
       bit_at cells (version_pos_ll s k) = Some (Z.testbit (golay18_6 v) k) /\
       bit_at cells (version_pos_ur s k) = Some (Z.testbit (golay18_6 v) k)) /\
    (forall i j b, In (i, j, b) cells ->
       0 <= i < s /\ 0 <= j < s /\
       forall b', iso_function_value s (align_centres v) i j = Some b' -> bit_at cells (i, j) = Some b').
Proof.
  intros Hv Hcap Hm. cbv zeta. destruct (size_facts v Hv) as [Hs Hsize].
  assert (Hm' : -28 <= mask < 32) by (destruct (v <? 1); lia).
  pose proof (triple_check_lift v e cap mask Hv Hcap Hm') as Ht. unfold triple_check in Ht.
  destruct (fv_cells v e mask) as [cells|err].
  2:{ exfalso. destruct (v <? 1); lia. }
  cbv zeta in Ht. rewrite Hsize in Ht. rewrite (version_of_size_of_version v Hv) in Ht.
  apply andb_prop in Ht. destruct Ht as [Ht Hver]. apply andb_prop in Ht. destruct Ht as [Ht Hfmt].
  apply andb_prop in Ht. destruct Ht as [Hok Hdark].
  destruct (iso_format_word v e mask) as [w|]; [|discriminate].
  exists cells, w. split; [reflexivity|]. split; [reflexivity|]. split; [|split; [|split]].
  - intros k Hk. destruct (0 <? v).
    + apply andb_prop in Hfmt. destruct Hfmt as [Ha Hb].
      split; [apply (bits_at_spec _ _ _ _ _ Ha k Hk)|apply (bits_at_spec _ _ _ _ _ Hb k Hk)].
    + apply (bits_at_spec _ _ _ _ _ Hfmt k Hk).
  - intros H0. destruct (0 <? v) eqn:E; [|lia]. cbn [fst snd]. apply ob_eqb_some. exact Hdark.
  - intros H7 k Hk. destruct (7 <=? v) eqn:E; [|lia]. apply andb_prop in Hver. destruct Hver as [Ha Hb].
    split; [apply (bits_at_spec _ _ _ _ _ Ha k Hk)|apply (bits_at_spec _ _ _ _ _ Hb k Hk)].
  - intros i j b Hin. unfold cells_ok in Hok. rewrite forallb_forall in Hok. specialize (Hok _ Hin).
    cbv beta iota in Hok. apply andb_prop in Hok. destruct Hok as [Hsq Hval]. unfold in_sq in Hsq.
    split; [lia|]. split; [lia|]. intros b' Hiso. rewrite Hiso in Hval. cbn [fst snd].
    apply ob_eqb_some. exact Hval.
Qed.
Print Assumptions format_version_cells.
