(* C07: the model of segno's mode detection (find_mode) and segment construction (make_segment) meets the
   specification "the most compact applicable mode is chosen; a requested mode is honoured or refused",
   for byte strings of unbounded length. *)
From Coq Require Import String.
From Coq Require Import ZArith List Bool Lia ZifyBool.
From Segno Require Import Base.PyLite Ref.IsoData Ref.Spec Model.Bits Model.Segment.
Import ListNotations.
Open Scope Z_scope.
Ltac Zify.zify_post_hook ::= Z.to_euclidean_division_equations.

Definition byte (b : Z) : Prop := 0 <= b < 256.

(* ------------------------------------------------------------------------------------------------ *)
(* 0. generic helpers                                                                               *)
(* ------------------------------------------------------------------------------------------------ *)

Lemma list_pair_ind (P : list Z -> Prop) :
  P [] -> (forall a, P [a]) -> (forall a b r, P r -> P (a :: b :: r)) -> forall l, P l.
Proof.
  intros H0 H1 H2. fix IH 1. intros l. destruct l as [|a [|b r]].
  - exact H0.
  - apply H1.
  - apply H2. apply IH.
Qed.

Lemma forallb_ext_in {A} (f g : A -> bool) (l : list A) :
  (forall x, In x l -> f x = g x) -> forallb f l = forallb g l.
Proof.
  induction l as [|a r IH]; intros H; cbn [forallb]; [reflexivity|].
  rewrite (H a (or_introl eq_refl)). rewrite IH; [reflexivity|].
  intros x Hx. apply H. right. exact Hx.
Qed.

Lemma forallb_Forall {A} (f : A -> bool) (P : A -> Prop) (l : list A) :
  (forall x, In x l -> (f x = true <-> P x)) -> (forallb f l = true <-> Forall P l).
Proof.
  intros H. rewrite forallb_forall, Forall_forall. split; intros H1 x Hx; apply (H x Hx); apply H1; exact Hx.
Qed.

Lemma memZ_In (x : Z) (l : list Z) : memZ x l = true <-> In x l.
Proof.
  unfold memZ. rewrite existsb_exists. split.
  - intros (y & Hy & E). apply Z.eqb_eq in E. subst y. exact Hy.
  - intros H. exists x. split; [exact H|apply Z.eqb_refl].
Qed.

Lemma lenZ_nonempty {A} (l : list A) : l <> [] <-> (lenZ l =? 0) = false.
Proof.
  destruct l as [|a r]; unfold lenZ; cbn [List.length]; split; intros H; try congruence; try lia.
Qed.

Lemma even_cons2 {A} (a b : A) (r : list A) : Z.even (lenZ (a :: b :: r)) = Z.even (lenZ r).
Proof.
  unfold lenZ. cbn [List.length].
  replace (Z.of_nat (S (S (List.length r)))) with (Z.of_nat (List.length r) + 2 * 1) by lia.
  apply Z.even_add_mul_2.
Qed.

Lemma even_half (n : Z) : Z.even n = true <-> n / 2 * 2 = n.
Proof.
  rewrite Z.even_spec. split.
  - intros [k Hk]. lia.
  - intros H. exists (n / 2). lia.
Qed.

(* ------------------------------------------------------------------------------------------------ *)
(* 1. finite facts about single bytes / byte pairs                                                  *)
(* ------------------------------------------------------------------------------------------------ *)

Lemma alnum_fin :
  forallb (fun b => Bool.eqb (is_alnum_char b) (memZ b iso_alnum_chars)) (zrange 0 256) = true.
Proof. vm_compute. reflexivity. Qed.

(* segno's 45-character string is ISO/IEC 18004 Table 5 *)
Lemma is_alnum_char_iso (b : Z) : byte b -> is_alnum_char b = memZ b iso_alnum_chars.
Proof.
  intros Hb. pose proof alnum_fin as H. rewrite forallb_forall in H.
  apply Bool.eqb_prop. apply H. apply zrange_In. exact Hb.
Qed.

Lemma kanji_fin :
  forallb (fun hi => forallb (fun lo => Bool.eqb (kanji_pair hi lo) (sjis_kanji_pair hi lo)) (zrange 0 256))
          (zrange 0 256) = true.
Proof. vm_compute. reflexivity. Qed.

(* shifts / lor / land formulation of the code = arithmetic formulation with the two trail ranges *)
Lemma kanji_pair_sjis (hi lo : Z) : byte hi -> byte lo -> kanji_pair hi lo = sjis_kanji_pair hi lo.
Proof.
  intros Hhi Hlo. pose proof kanji_fin as H. rewrite forallb_forall in H.
  specialize (H hi (zrange_In 0 256 hi Hhi)). rewrite forallb_forall in H.
  apply Bool.eqb_prop. apply H. apply zrange_In. exact Hlo.
Qed.

Lemma is_digit_def (b : Z) : is_digit b = ((48 <=? b) && (b <=? 57)).
Proof. reflexivity. Qed.

Lemma is_digit_iff (b : Z) : is_digit b = true <-> 48 <= b <= 57.
Proof. unfold is_digit. lia. Qed.

(* Hanzi (GB 2312): specification side predicate and the test performed by the model's packer *)
Definition gb2312_pair (hi lo : Z) : bool :=
  let code := hi * 256 + lo in
  (((41377 <=? code) && (code <=? 43774)) || ((45217 <=? code) && (code <=? 64254)))   (* A1A1-AAFE, B0A1-FAFE *)
  && ((161 <=? lo) && (lo <=? 254)).                                                    (* trail byte A1..FE *)
Fixpoint gb_pairs_ok (l : list Z) : bool :=
  match l with [] => true | hi :: lo :: r => gb2312_pair hi lo && gb_pairs_ok r | _ => false end.

Definition hanzi_pair_model (hi lo : Z) : bool :=
  let code := Z.lor (Z.shiftl hi 8) lo in
  ((161 <=? lo) && (lo <=? 254))
  && (((41377 <=? code) && (code <=? 43774)) || ((45217 <=? code) && (code <=? 64254))).

Lemma hanzi_fin :
  forallb (fun hi => forallb (fun lo => Bool.eqb (hanzi_pair_model hi lo) (gb2312_pair hi lo)) (zrange 0 256))
          (zrange 0 256) = true.
Proof. vm_compute. reflexivity. Qed.

Lemma hanzi_pair_gb2312 (hi lo : Z) : byte hi -> byte lo -> hanzi_pair_model hi lo = gb2312_pair hi lo.
Proof.
  intros Hhi Hlo. pose proof hanzi_fin as H. rewrite forallb_forall in H.
  specialize (H hi (zrange_In 0 256 hi Hhi)). rewrite forallb_forall in H.
  apply Bool.eqb_prop. apply H. apply zrange_In. exact Hlo.
Qed.

(* ------------------------------------------------------------------------------------------------ *)
(* 2. lists of bytes: digits, alphanumeric, pairs                                                   *)
(* ------------------------------------------------------------------------------------------------ *)

Lemma digits_forallb (data : list Z) :
  forallb is_digit data = true <-> Forall (fun b => 48 <= b <= 57) data.
Proof. apply forallb_Forall. intros x _. apply is_digit_iff. Qed.

Lemma alnum_forallb (data : list Z) :
  Forall byte data ->
  (forallb is_alnum_char data = true <-> Forall (fun b => In b iso_alnum_chars) data).
Proof.
  intros Hb. apply forallb_Forall. intros x Hx.
  rewrite Forall_forall in Hb. rewrite (is_alnum_char_iso x (Hb x Hx)). apply memZ_In.
Qed.

Lemma digit_is_alnum (b : Z) : 48 <= b <= 57 -> In b iso_alnum_chars.
Proof. intros H. unfold iso_alnum_chars. apply in_or_app. left. apply zrange_In. lia. Qed.

Lemma all_pairs_ext (p q : Z -> Z -> bool) (l : list Z) :
  Forall byte l -> (forall hi lo, byte hi -> byte lo -> p hi lo = q hi lo) -> all_pairs p l = all_pairs q l.
Proof.
  intros Hb Hpq. revert Hb. induction l as [| a | a b r IH] using list_pair_ind; intros Hb.
  - reflexivity.
  - reflexivity.
  - cbn [all_pairs]. inversion Hb as [| x1 l1 Ha Hb1]; subst. inversion Hb1 as [| x2 l2 Hb' Hr]; subst.
    rewrite (Hpq a b Ha Hb'). rewrite (IH Hr). reflexivity.
Qed.

Lemma pairs_ok_all_pairs (l : list Z) : pairs_ok l = all_pairs sjis_kanji_pair l.
Proof.
  induction l as [| a | a b r IH] using list_pair_ind; [reflexivity|reflexivity|].
  cbn [pairs_ok all_pairs]. rewrite IH. reflexivity.
Qed.

Lemma gb_pairs_ok_all_pairs (l : list Z) : gb_pairs_ok l = all_pairs gb2312_pair l.
Proof.
  induction l as [| a | a b r IH] using list_pair_ind; [reflexivity|reflexivity|].
  cbn [gb_pairs_ok all_pairs]. rewrite IH. reflexivity.
Qed.

Lemma all_pairs_kanji_spec (l : list Z) : Forall byte l -> all_pairs kanji_pair l = pairs_ok l.
Proof.
  intros Hb. rewrite pairs_ok_all_pairs. apply all_pairs_ext; [exact Hb|]. apply kanji_pair_sjis.
Qed.

Lemma all_pairs_hanzi_spec (l : list Z) : Forall byte l -> all_pairs hanzi_pair_model l = gb_pairs_ok l.
Proof.
  intros Hb. rewrite gb_pairs_ok_all_pairs. apply all_pairs_ext; [exact Hb|]. apply hanzi_pair_gb2312.
Qed.

(* a successful pair scan leaves no dangling byte *)
Lemma all_pairs_even (p : Z -> Z -> bool) (l : list Z) : all_pairs p l = true -> Z.even (lenZ l) = true.
Proof.
  induction l as [| a | a b r IH] using list_pair_ind; intros H.
  - reflexivity.
  - discriminate H.
  - rewrite even_cons2. apply IH. cbn [all_pairs] in H. apply andb_true_iff in H. apply H.
Qed.

Lemma pairs_ok_even (l : list Z) : pairs_ok l = true -> Z.even (lenZ l) = true.
Proof. rewrite pairs_ok_all_pairs. apply all_pairs_even. Qed.

Lemma is_kanji_nonempty (data : list Z) :
  data <> [] -> is_kanji data = Z.even (lenZ data) && all_pairs kanji_pair data.
Proof. destruct data; [congruence|reflexivity]. Qed.

(* is_kanji (non-empty, even length, every pair in range) = pairs_ok *)
Lemma is_kanji_spec (data : list Z) : Forall byte data -> data <> [] -> is_kanji data = pairs_ok data.
Proof.
  intros Hb Hne. rewrite (is_kanji_nonempty data Hne). rewrite (all_pairs_kanji_spec data Hb).
  destruct (pairs_ok data) eqn:Hp.
  - rewrite (pairs_ok_even data Hp). reflexivity.
  - apply andb_false_r.
Qed.

Lemma spec_mode_nonempty (data : list Z) :
  data <> [] ->
  spec_mode data = if forallb (fun b => (48 <=? b) && (b <=? 57)) data then 1
                   else if forallb (fun b => memZ b iso_alnum_chars) data then 2
                   else if pairs_ok data then 8 else 4.
Proof. destruct data; [congruence|reflexivity]. Qed.

(* ------------------------------------------------------------------------------------------------ *)
(* 3. find_mode = spec_mode                                                                         *)
(* ------------------------------------------------------------------------------------------------ *)

Theorem find_mode_is_spec : forall data,
  Forall (fun b => 0 <= b < 256) data -> find_mode data = spec_mode data.
Proof.
  intros data Hb. destruct (list_eq_dec Z.eq_dec data []) as [He|Hne].
  - subst data. reflexivity.
  - rewrite (spec_mode_nonempty data Hne). unfold find_mode.
    rewrite (proj1 (lenZ_nonempty data) Hne). cbn [negb andb].
    change (forallb is_digit data) with (forallb (fun b => (48 <=? b) && (b <=? 57)) data).
    rewrite (forallb_ext_in is_alnum_char (fun b => memZ b iso_alnum_chars) data).
    + rewrite (is_kanji_spec data Hb Hne). reflexivity.
    + intros x Hx. apply is_alnum_char_iso. rewrite Forall_forall in Hb. apply (Hb x Hx).
Qed.
Print Assumptions find_mode_is_spec.

(* ------------------------------------------------------------------------------------------------ *)
(* 4. readable characterisations of the automatic choice                                            *)
(* ------------------------------------------------------------------------------------------------ *)

Lemma find_mode_cases (data : list Z) :
  find_mode data = 1 \/ find_mode data = 2 \/ find_mode data = 8 \/ find_mode data = 4.
Proof.
  unfold find_mode, MODE_NUMERIC, MODE_ALPHANUMERIC, MODE_KANJI, MODE_BYTE.
  destruct (negb (lenZ data =? 0) && forallb is_digit data); [auto|].
  destruct (negb (lenZ data =? 0) && forallb is_alnum_char data); [auto|].
  destruct (is_kanji data); auto.
Qed.

(* Hanzi is never chosen automatically *)
Lemma find_mode_never_hanzi (data : list Z) : find_mode data = 13 -> False.
Proof. intros H. destruct (find_mode_cases data) as [E|[E|[E|E]]]; rewrite E in H; discriminate H. Qed.

Lemma find_mode_numeric_intro (data : list Z) :
  data <> [] -> Forall (fun b => 48 <= b <= 57) data -> find_mode data = 1.
Proof.
  intros Hne Hd. unfold find_mode. rewrite (proj1 (lenZ_nonempty data) Hne).
  rewrite (proj2 (digits_forallb data) Hd). reflexivity.
Qed.

Lemma find_mode_numeric_elim (data : list Z) :
  find_mode data = 1 -> data <> [] /\ Forall (fun b => 48 <= b <= 57) data.
Proof.
  unfold find_mode, MODE_NUMERIC, MODE_ALPHANUMERIC, MODE_KANJI, MODE_BYTE.
  destruct (lenZ data =? 0) eqn:Hl; cbn [negb andb].
  - destruct (is_kanji data); discriminate.
  - destruct (forallb is_digit data) eqn:Hd.
    + intros _. split; [apply lenZ_nonempty; exact Hl|apply digits_forallb; exact Hd].
    + destruct (forallb is_alnum_char data); [discriminate|]. destruct (is_kanji data); discriminate.
Qed.

Theorem find_mode_numeric_iff (data : list Z) :
  find_mode data = 1 <-> data <> [] /\ Forall (fun b => 48 <= b <= 57) data.
Proof.
  split; [apply find_mode_numeric_elim|]. intros [Hne Hd]. apply find_mode_numeric_intro; assumption.
Qed.

Lemma find_mode_alnum_intro (data : list Z) :
  Forall byte data ->
  data <> [] -> Forall (fun b => In b iso_alnum_chars) data -> ~ Forall (fun b => 48 <= b <= 57) data ->
  find_mode data = 2.
Proof.
  intros Hb Hne Ha Hnd. unfold find_mode. rewrite (proj1 (lenZ_nonempty data) Hne). cbn [negb andb].
  destruct (forallb is_digit data) eqn:Hd.
  - exfalso. apply Hnd. apply digits_forallb. exact Hd.
  - rewrite (proj2 (alnum_forallb data Hb) Ha). reflexivity.
Qed.

Lemma find_mode_alnum_elim (data : list Z) :
  Forall byte data ->
  find_mode data = 2 ->
  data <> [] /\ Forall (fun b => In b iso_alnum_chars) data /\ ~ Forall (fun b => 48 <= b <= 57) data.
Proof.
  intros Hb. unfold find_mode, MODE_NUMERIC, MODE_ALPHANUMERIC, MODE_KANJI, MODE_BYTE.
  destruct (lenZ data =? 0) eqn:Hl; cbn [negb andb].
  - destruct (is_kanji data); discriminate.
  - destruct (forallb is_digit data) eqn:Hd; [discriminate|].
    destruct (forallb is_alnum_char data) eqn:Ha.
    + intros _. split; [apply lenZ_nonempty; exact Hl|]. split; [apply (alnum_forallb data Hb); exact Ha|].
      intros Hd'. apply digits_forallb in Hd'. congruence.
    + destruct (is_kanji data); discriminate.
Qed.

Theorem find_mode_alnum_iff (data : list Z) :
  Forall byte data ->
  (find_mode data = 2 <->
   data <> [] /\ Forall (fun b => In b iso_alnum_chars) data /\ ~ Forall (fun b => 48 <= b <= 57) data).
Proof.
  intros Hb. split; [apply find_mode_alnum_elim; exact Hb|].
  intros (Hne & Ha & Hnd). apply find_mode_alnum_intro; assumption.
Qed.

(* numeric or alphanumeric is guessed exactly for non-empty Table 5 strings *)
Lemma find_mode_le2_iff (data : list Z) :
  Forall byte data ->
  (find_mode data = 1 \/ find_mode data = 2 <-> data <> [] /\ Forall (fun b => In b iso_alnum_chars) data).
Proof.
  intros Hb. split.
  - intros [H|H].
    + apply find_mode_numeric_elim in H. destruct H as [Hne Hd]. split; [exact Hne|].
      eapply Forall_impl; [|exact Hd]. intros b. apply digit_is_alnum.
    + apply (find_mode_alnum_elim data Hb) in H. destruct H as (Hne & Ha & _). split; assumption.
  - intros [Hne Ha]. unfold find_mode. rewrite (proj1 (lenZ_nonempty data) Hne). cbn [negb andb].
    rewrite (proj2 (alnum_forallb data Hb) Ha). destruct (forallb is_digit data); [left|right]; reflexivity.
Qed.

Lemma find_mode_kanji_elim (data : list Z) : find_mode data = 8 -> is_kanji data = true.
Proof.
  unfold find_mode, MODE_NUMERIC, MODE_ALPHANUMERIC, MODE_KANJI, MODE_BYTE.
  destruct (negb (lenZ data =? 0) && forallb is_digit data); [discriminate|].
  destruct (negb (lenZ data =? 0) && forallb is_alnum_char data); [discriminate|].
  destruct (is_kanji data); [reflexivity|discriminate].
Qed.

(* kanji is guessed for non-empty Shift JIS double-byte strings that are not alphanumeric
   (no Table 5 string is a valid pair sequence, so the last conjunct is automatic, see below) *)
Theorem find_mode_kanji_iff (data : list Z) :
  Forall byte data ->
  (find_mode data = 8 <->
   data <> [] /\ pairs_ok data = true /\ ~ Forall (fun b => In b iso_alnum_chars) data).
Proof.
  intros Hb. split.
  - intros H. pose proof (find_mode_kanji_elim data H) as Hk.
    assert (Hne : data <> []) by (intros ->; discriminate Hk).
    split; [exact Hne|]. split; [rewrite <- (is_kanji_spec data Hb Hne); exact Hk|].
    intros Ha. assert (H12 : find_mode data = 1 \/ find_mode data = 2) by (apply find_mode_le2_iff; auto).
    rewrite H in H12. destruct H12 as [H12|H12]; discriminate H12.
  - intros (Hne & Hp & Hna). rewrite (find_mode_is_spec data Hb). rewrite (spec_mode_nonempty data Hne).
    destruct (forallb (fun b => (48 <=? b) && (b <=? 57)) data) eqn:Hd.
    + exfalso. apply Hna. change (forallb is_digit data = true) in Hd. apply digits_forallb in Hd.
      eapply Forall_impl; [|exact Hd]. intros b. apply digit_is_alnum.
    + destruct (forallb (fun b => memZ b iso_alnum_chars) data) eqn:Ha.
      * exfalso. apply Hna.
        apply (proj1 (forallb_Forall (fun b => memZ b iso_alnum_chars) (fun b => In b iso_alnum_chars) data
                        (fun x _ => memZ_In x iso_alnum_chars)) Ha).
      * rewrite Hp. reflexivity.
Qed.

(* ------------------------------------------------------------------------------------------------ *)
(* 5. the packers                                                                                   *)
(* ------------------------------------------------------------------------------------------------ *)

Lemma pack_kanji_spec (l : list Z) :
  match pack_kanji l with
  | Ok _ => all_pairs kanji_pair l = true
  | Err e => all_pairs kanji_pair l = false /\ (e = ValueError \/ (e = IndexErr /\ Z.even (lenZ l) = false))
  end.
Proof.
  induction l as [| a | a b r IH] using list_pair_ind.
  - reflexivity.
  - cbn [pack_kanji all_pairs]. split; [reflexivity|]. right. split; reflexivity.
  - cbn [pack_kanji all_pairs]. rewrite even_cons2.
    destruct (kanji_pair a b) eqn:Hk; cbn [negb andb].
    + unfold kanji_pair in Hk. cbv zeta in Hk.
      set (code := Z.lor (Z.shiftl a 8) b) in *.
      destruct ((33088 <=? code) && (code <=? 40956)) eqn:H1; cbn [bind].
      * destruct (pack_kanji r) as [bs|e]; cbn [bind]; exact IH.
      * destruct ((57408 <=? code) && (code <=? 60351)) eqn:H2; cbn [bind].
        -- destruct (pack_kanji r) as [bs|e]; cbn [bind]; exact IH.
        -- cbn [orb andb] in Hk. discriminate Hk.
    + split; [reflexivity|]. left. reflexivity.
Qed.

Lemma pack_hanzi_spec (l : list Z) :
  match pack_hanzi l with
  | Ok _ => all_pairs hanzi_pair_model l = true
  | Err e => all_pairs hanzi_pair_model l = false /\ (e = ValueError \/ (e = IndexErr /\ Z.even (lenZ l) = false))
  end.
Proof.
  induction l as [| a | a b r IH] using list_pair_ind.
  - reflexivity.
  - cbn [pack_hanzi all_pairs]. split; [reflexivity|]. right. split; reflexivity.
  - cbn [pack_hanzi all_pairs]. rewrite even_cons2. unfold hanzi_pair_model. cbv zeta.
    set (code := Z.lor (Z.shiftl a 8) b) in *.
    destruct ((161 <=? b) && (b <=? 254)) eqn:H0; cbn [negb andb].
    + destruct ((41377 <=? code) && (code <=? 43774)) eqn:H1; cbn [bind orb].
      * destruct (pack_hanzi r) as [bs|e]; cbn [bind]; exact IH.
      * destruct ((45217 <=? code) && (code <=? 64254)) eqn:H2; cbn [bind].
        -- destruct (pack_hanzi r) as [bs|e]; cbn [bind]; exact IH.
        -- split; [reflexivity|]. left. reflexivity.
    + split; [reflexivity|]. left. reflexivity.
Qed.

(* the packer of an auto-detected kanji segment cannot fail *)
Lemma pack_kanji_of_is_kanji (data : list Z) : is_kanji data = true -> exists bs, pack_kanji data = Ok bs.
Proof.
  intros Hk. assert (Hne : data <> []) by (intros ->; discriminate Hk).
  rewrite (is_kanji_nonempty data Hne) in Hk. apply andb_true_iff in Hk. destruct Hk as [_ Hp].
  pose proof (pack_kanji_spec data) as Hs. destruct (pack_kanji data) as [bs|e].
  - exists bs. reflexivity.
  - destruct Hs as [Hs _]. congruence.
Qed.

(* ------------------------------------------------------------------------------------------------ *)
(* 6. make_segment on bytes                                                                         *)
(* ------------------------------------------------------------------------------------------------ *)

Definition valid_mode (m : Z) : Prop := m = 1 \/ m = 2 \/ m = 4 \/ m = 8 \/ m = 13.

(* what it means that [data] can be written in mode [m] *)
Definition representable (m : Z) (data : list Z) : Prop :=
  m = 4
  \/ (m = 1 /\ data <> [] /\ Forall (fun b => 48 <= b <= 57) data)
  \/ (m = 2 /\ data <> [] /\ Forall (fun b => In b iso_alnum_chars) data)
  \/ (m = 8 /\ Z.even (lenZ data) = true /\ pairs_ok data = true)
  \/ (m = 13 /\ Z.even (lenZ data) = true /\ gb_pairs_ok data = true).

(* number of characters of [data] in mode [m] *)
Definition char_count (m : Z) (data : list Z) : Z :=
  if (m =? 8) || (m =? 13) then lenZ data / 2 else lenZ data.

(* the part of make_segment after the mode has been fixed *)
Definition pack_for (smode : Z) (data : list Z) : res bits :=
  if smode =? 1 then Ok (pack_numeric (S (List.length data)) data)
  else if smode =? 2 then Ok (pack_alnum data)
  else if smode =? 4 then Ok (flat_map (fun b => bits_of b 8) data)
  else if smode =? 13 then pack_hanzi data
  else pack_kanji data.

Definition seg_core (data : list Z) (smode : Z) (e : enc) : res segment :=
  if ((smode =? 8) || (smode =? 13)) && negb (char_count smode data * 2 =? lenZ data) then Err ValueError else
  do bs <- pack_for smode data;
  Ok {| s_bits := bs; s_count := char_count smode data; s_mode := smode;
        s_enc := if smode =? 4 then Some e else None |}.

Definition eff_enc (mode : option Z) (oe : option enc) : enc :=
  match (if oz_eqb mode (Some 13) then Some enc_gb2312 else oe) with Some e => e | None => enc_latin1 end.

Lemma make_segment_auto_eq (data : list Z) (oe : option enc) :
  make_segment (PBytes data) None oe = seg_core data (find_mode data) (eff_enc None oe).
Proof. reflexivity. Qed.

Lemma make_segment_req_eq (data : list Z) (m : Z) (oe : option enc) :
  make_segment (PBytes data) (Some m) oe =
  if m <? (if m =? 4 then 4 else find_mode data) then Err ValueError
  else seg_core data m (eff_enc (Some m) oe).
Proof.
  unfold make_segment. cbn [data_to_bytes bind oz_eqb]. unfold MODE_BYTE.
  destruct (m <? (if m =? 4 then 4 else find_mode data)); reflexivity.
Qed.

Lemma seg_core_Ok (data : list Z) (sm : Z) (e : enc) (s : segment) :
  seg_core data sm e = Ok s ->
  s_mode s = sm /\ s_count s = char_count sm data
  /\ ((sm =? 8) || (sm =? 13) = true -> char_count sm data * 2 = lenZ data)
  /\ pack_for sm data = Ok (s_bits s).
Proof.
  unfold seg_core.
  destruct (((sm =? 8) || (sm =? 13)) && negb (char_count sm data * 2 =? lenZ data)) eqn:Ht; [discriminate|].
  destruct (pack_for sm data) as [bs|x]; cbn [bind]; [|discriminate].
  intros [= <-]. cbn [s_mode s_count s_bits]. repeat split. intros Htwo. rewrite Htwo in Ht. lia.
Qed.

Lemma seg_core_Err (data : list Z) (sm : Z) (e : enc) (x : exn) :
  seg_core data sm e = Err x ->
  (x = ValueError /\ (sm =? 8) || (sm =? 13) = true /\ char_count sm data * 2 <> lenZ data)
  \/ (((sm =? 8) || (sm =? 13) = true -> char_count sm data * 2 = lenZ data) /\ pack_for sm data = Err x).
Proof.
  unfold seg_core.
  destruct (((sm =? 8) || (sm =? 13)) && negb (char_count sm data * 2 =? lenZ data)) eqn:Ht.
  - intros [= <-]. left. split; [reflexivity|]. lia.
  - destruct (pack_for sm data) as [bs|y]; cbn [bind]; [discriminate|].
    intros [= <-]. right. split; [|reflexivity]. intros Htwo. rewrite Htwo in Ht. lia.
Qed.

(* ---- automatic mode ---- *)

Theorem make_segment_auto : forall data oe s,
  Forall byte data -> make_segment (PBytes data) None oe = Ok s -> s_mode s = spec_mode data.
Proof.
  intros data oe s Hb H. rewrite make_segment_auto_eq in H. apply seg_core_Ok in H.
  destruct H as [H _]. rewrite H. apply find_mode_is_spec. exact Hb.
Qed.
Print Assumptions make_segment_auto.

Theorem make_segment_auto_total : forall data oe,
  Forall byte data -> exists s, make_segment (PBytes data) None oe = Ok s.
Proof.
  intros data oe Hb. rewrite make_segment_auto_eq.
  destruct (find_mode_cases data) as [E|[E|[E|E]]].
  - rewrite E. eexists. reflexivity.
  - rewrite E. eexists. reflexivity.
  - pose proof (find_mode_kanji_elim data E) as Hk. rewrite E.
    destruct (pack_kanji_of_is_kanji data Hk) as [bs Hbs].
    assert (Hne : data <> []) by (intros ->; discriminate Hk).
    rewrite (is_kanji_nonempty data Hne) in Hk. apply andb_true_iff in Hk. destruct Hk as [Hev _].
    apply even_half in Hev.
    unfold seg_core. change (char_count 8 data) with (lenZ data / 2).
    change (pack_for 8 data) with (pack_kanji data). rewrite Hbs. cbn [bind].
    replace (lenZ data / 2 * 2 =? lenZ data) with true by lia.
    eexists. reflexivity.
  - rewrite E. eexists. reflexivity.
Qed.
Print Assumptions make_segment_auto_total.

(* ---- requested mode ---- *)

Lemma repr_1 (data : list Z) : representable 1 data <-> data <> [] /\ Forall (fun b => 48 <= b <= 57) data.
Proof.
  unfold representable. split.
  - intros [H|[(H & H1)|[(H & H1)|[(H & H1)|(H & H1)]]]]; try discriminate H. exact H1.
  - intros H. right. left. split; [reflexivity|exact H].
Qed.
Lemma repr_2 (data : list Z) : representable 2 data <-> data <> [] /\ Forall (fun b => In b iso_alnum_chars) data.
Proof.
  unfold representable. split.
  - intros [H|[(H & H1)|[(H & H1)|[(H & H1)|(H & H1)]]]]; try discriminate H. exact H1.
  - intros H. right. right. left. split; [reflexivity|exact H].
Qed.
Lemma repr_8 (data : list Z) : representable 8 data <-> Z.even (lenZ data) = true /\ pairs_ok data = true.
Proof.
  unfold representable. split.
  - intros [H|[(H & H1)|[(H & H1)|[(H & H1)|(H & H1)]]]]; try discriminate H. exact H1.
  - intros H. right. right. right. left. split; [reflexivity|exact H].
Qed.
Lemma repr_13 (data : list Z) : representable 13 data <-> Z.even (lenZ data) = true /\ gb_pairs_ok data = true.
Proof.
  unfold representable. split.
  - intros [H|[(H & H1)|[(H & H1)|[(H & H1)|(H & H1)]]]]; try discriminate H. exact H1.
  - intros H. right. right. right. right. split; [reflexivity|exact H].
Qed.

(* empty data: kanji / hanzi / byte accept it, numeric / alphanumeric refuse it *)
Lemma representable_empty (m : Z) : valid_mode m -> (representable m [] <-> m = 4 \/ m = 8 \/ m = 13).
Proof.
  intros Hm. split.
  - intros [H|[(H & H1 & _)|[(H & H1 & _)|[(H & _)|(H & _)]]]]; auto; exfalso; apply H1; reflexivity.
  - intros [-> | [-> | ->]].
    + left. reflexivity.
    + apply repr_8. split; reflexivity.
    + apply repr_13. split; reflexivity.
Qed.

(* the whole behaviour for a requested mode: accepted exactly when representable, otherwise ValueError *)
Lemma make_segment_requested_dec (data : list Z) (m : Z) (oe : option enc) :
  valid_mode m -> Forall byte data ->
  (representable m data /\
   exists s, make_segment (PBytes data) (Some m) oe = Ok s /\ s_mode s = m /\ s_count s = char_count m data)
  \/ (~ representable m data /\ make_segment (PBytes data) (Some m) oe = Err ValueError).
Proof.
  intros Hm Hb. rewrite make_segment_req_eq.
  destruct Hm as [-> | [-> | [-> | [-> | ->]]]].
  - (* numeric *)
    change (1 =? 4) with false. cbv iota.
    destruct (find_mode_cases data) as [E|[E|[E|E]]]; rewrite E.
    + left. split; [apply repr_1; apply find_mode_numeric_elim; exact E|].
      eexists. split; [reflexivity|]. split; reflexivity.
    + right. split; [|reflexivity]. intros Hr. apply repr_1 in Hr. destruct Hr as [Hne Hd].
      pose proof (find_mode_numeric_intro data Hne Hd) as E1. rewrite E in E1. discriminate E1.
    + right. split; [|reflexivity]. intros Hr. apply repr_1 in Hr. destruct Hr as [Hne Hd].
      pose proof (find_mode_numeric_intro data Hne Hd) as E1. rewrite E in E1. discriminate E1.
    + right. split; [|reflexivity]. intros Hr. apply repr_1 in Hr. destruct Hr as [Hne Hd].
      pose proof (find_mode_numeric_intro data Hne Hd) as E1. rewrite E in E1. discriminate E1.
  - (* alphanumeric *)
    change (2 =? 4) with false. cbv iota.
    destruct (find_mode_cases data) as [E|[E|[E|E]]]; rewrite E.
    + left. split; [apply repr_2; apply (find_mode_le2_iff data Hb); left; exact E|].
      eexists. split; [reflexivity|]. split; reflexivity.
    + left. split; [apply repr_2; apply (find_mode_le2_iff data Hb); right; exact E|].
      eexists. split; [reflexivity|]. split; reflexivity.
    + right. split; [|reflexivity]. intros Hr. apply repr_2 in Hr.
      apply (find_mode_le2_iff data Hb) in Hr. rewrite E in Hr. destruct Hr as [Hr|Hr]; discriminate Hr.
    + right. split; [|reflexivity]. intros Hr. apply repr_2 in Hr.
      apply (find_mode_le2_iff data Hb) in Hr. rewrite E in Hr. destruct Hr as [Hr|Hr]; discriminate Hr.
  - (* byte *)
    left. split; [left; reflexivity|]. eexists. split; [reflexivity|]. split; reflexivity.
  - (* kanji *)
    change (8 =? 4) with false. cbv iota.
    assert (Hlt : (8 <? find_mode data) = false)
      by (destruct (find_mode_cases data) as [E|[E|[E|E]]]; rewrite E; reflexivity).
    rewrite Hlt. unfold seg_core.
    change (char_count 8 data) with (lenZ data / 2). change (pack_for 8 data) with (pack_kanji data).
    change ((8 =? 8) || (8 =? 13)) with true. cbn [andb].
    destruct (lenZ data / 2 * 2 =? lenZ data) eqn:Hev; cbn [negb].
    + assert (Hev' : Z.even (lenZ data) = true) by (apply even_half; lia).
      pose proof (pack_kanji_spec data) as Hs. destruct (pack_kanji data) as [bs|x]; cbn [bind].
      * left. split; [apply repr_8; split; [exact Hev'|rewrite <- (all_pairs_kanji_spec data Hb); exact Hs]|].
        eexists. split; [reflexivity|]. split; reflexivity.
      * right. destruct Hs as [Hf [-> | [_ Hodd]]]; [|congruence].
        split; [|reflexivity]. intros Hr. apply repr_8 in Hr. destruct Hr as [_ Hp].
        rewrite <- (all_pairs_kanji_spec data Hb) in Hp. congruence.
    + right. split; [|reflexivity]. intros Hr. apply repr_8 in Hr. destruct Hr as [He _].
      apply even_half in He. lia.
  - (* hanzi *)
    change (13 =? 4) with false. cbv iota.
    assert (Hlt : (13 <? find_mode data) = false)
      by (destruct (find_mode_cases data) as [E|[E|[E|E]]]; rewrite E; reflexivity).
    rewrite Hlt. unfold seg_core.
    change (char_count 13 data) with (lenZ data / 2). change (pack_for 13 data) with (pack_hanzi data).
    change ((13 =? 8) || (13 =? 13)) with true. cbn [andb].
    destruct (lenZ data / 2 * 2 =? lenZ data) eqn:Hev; cbn [negb].
    + assert (Hev' : Z.even (lenZ data) = true) by (apply even_half; lia).
      pose proof (pack_hanzi_spec data) as Hs. destruct (pack_hanzi data) as [bs|x]; cbn [bind].
      * left. split; [apply repr_13; split; [exact Hev'|rewrite <- (all_pairs_hanzi_spec data Hb); exact Hs]|].
        eexists. split; [reflexivity|]. split; reflexivity.
      * right. destruct Hs as [Hf [-> | [_ Hodd]]]; [|congruence].
        split; [|reflexivity]. intros Hr. apply repr_13 in Hr. destruct Hr as [_ Hp].
        rewrite <- (all_pairs_hanzi_spec data Hb) in Hp. congruence.
    + right. split; [|reflexivity]. intros Hr. apply repr_13 in Hr. destruct Hr as [He _].
      apply even_half in He. lia.
Qed.

(* a requested mode is honoured only if the data is representable in it *)
Theorem make_segment_requested : forall data m oe s,
  valid_mode m -> Forall byte data ->
  make_segment (PBytes data) (Some m) oe = Ok s -> s_mode s = m /\ representable m data.
Proof.
  intros data m oe s Hm Hb H.
  destruct (make_segment_requested_dec data m oe Hm Hb) as [(Hr & s' & Hs' & Hmode & _)|(_ & He)].
  - rewrite Hs' in H. injection H as <-. split; assumption.
  - rewrite He in H. discriminate H.
Qed.
Print Assumptions make_segment_requested.

(* ... and refused with ValueError (never IndexErr or anything else) exactly when it is not *)
Theorem make_segment_refusal : forall data m oe e,
  valid_mode m -> Forall byte data ->
  make_segment (PBytes data) (Some m) oe = Err e -> e = ValueError /\ ~ representable m data.
Proof.
  intros data m oe e Hm Hb H.
  destruct (make_segment_requested_dec data m oe Hm Hb) as [(_ & s' & Hs' & _)|(Hnr & He)].
  - rewrite Hs' in H. discriminate H.
  - rewrite He in H. injection H as <-. split; [reflexivity|exact Hnr].
Qed.
Print Assumptions make_segment_refusal.

(* conversely: representable data is accepted (also when empty, for byte / kanji / hanzi) *)
Theorem make_segment_accepts : forall data m oe,
  valid_mode m -> Forall byte data -> representable m data ->
  exists s, make_segment (PBytes data) (Some m) oe = Ok s /\ s_mode s = m /\ s_count s = char_count m data.
Proof.
  intros data m oe Hm Hb Hr.
  destruct (make_segment_requested_dec data m oe Hm Hb) as [(_ & Hs)|(Hnr & _)].
  - exact Hs.
  - contradiction.
Qed.
Print Assumptions make_segment_accepts.

Corollary make_segment_accepts_nonempty : forall data m oe,
  valid_mode m -> Forall byte data -> representable m data -> data <> [] ->
  exists s, make_segment (PBytes data) (Some m) oe = Ok s.
Proof.
  intros data m oe Hm Hb Hr _. destruct (make_segment_accepts data m oe Hm Hb Hr) as (s & Hs & _).
  exists s. exact Hs.
Qed.

Corollary make_segment_requested_iff : forall data m oe,
  valid_mode m -> Forall byte data ->
  ((exists s, make_segment (PBytes data) (Some m) oe = Ok s) <-> representable m data).
Proof.
  intros data m oe Hm Hb. split.
  - intros [s Hs]. apply (make_segment_requested data m oe s Hm Hb Hs).
  - intros Hr. destruct (make_segment_accepts data m oe Hm Hb Hr) as (s & Hs & _). exists s. exact Hs.
Qed.

(* ---- character count ---- *)

(* holds for every mode argument: the count is taken from the final mode; two-byte modes have no dangling byte *)
Theorem make_segment_count : forall data mode oe s,
  make_segment (PBytes data) mode oe = Ok s ->
  (s_mode s = 1 \/ s_mode s = 2 \/ s_mode s = 4 -> s_count s = lenZ data)
  /\ (s_mode s = 8 \/ s_mode s = 13 -> s_count s = lenZ data / 2 /\ lenZ data = 2 * s_count s).
Proof.
  intros data mode oe s H.
  assert (Hc : exists e, seg_core data (s_mode s) e = Ok s).
  { destruct mode as [m|].
    - rewrite make_segment_req_eq in H.
      destruct (m <? (if m =? 4 then 4 else find_mode data)); [discriminate H|].
      pose proof (seg_core_Ok _ _ _ _ H) as (Hmode & _). rewrite Hmode. eexists. exact H.
    - rewrite make_segment_auto_eq in H.
      pose proof (seg_core_Ok _ _ _ _ H) as (Hmode & _). rewrite Hmode. eexists. exact H. }
  destruct Hc as [e Hc]. apply seg_core_Ok in Hc. destruct Hc as (_ & Hcount & Htwo & _).
  unfold char_count in *. split.
  - intros Hm. rewrite Hcount. replace ((s_mode s =? 8) || (s_mode s =? 13)) with false by lia. reflexivity.
  - intros Hm. assert (Ht : (s_mode s =? 8) || (s_mode s =? 13) = true) by lia.
    rewrite Ht in *. specialize (Htwo eq_refl). split; [exact Hcount|lia].
Qed.
Print Assumptions make_segment_count.

(* ------------------------------------------------------------------------------------------------ *)
(* 7. examples                                                                                      *)
(* ------------------------------------------------------------------------------------------------ *)

Definition seg_summary (r : res segment) : res (Z * Z) :=
  match r with Ok s => Ok (s_mode s, s_count s) | Err e => Err e end.

Example ex_find_kanji : find_mode [0x93; 0x5F] = 8 /\ spec_mode [0x93; 0x5F] = 8.
Proof. vm_compute. split; reflexivity. Qed.
Example ex_find_trail_00 : find_mode [0x82; 0x00] = 4 /\ spec_mode [0x82; 0x00] = 4.
Proof. vm_compute. split; reflexivity. Qed.
Example ex_find_trail_7F : find_mode [0x82; 0x7F] = 4 /\ spec_mode [0x82; 0x7F] = 4.
Proof. vm_compute. split; reflexivity. Qed.
Example ex_find_odd : find_mode [0x93; 0x5F; 0x93] = 4 /\ spec_mode [0x93; 0x5F; 0x93] = 4.
Proof. vm_compute. split; reflexivity. Qed.
Example ex_find_empty : find_mode [] = 4 /\ spec_mode [] = 4.
Proof. vm_compute. split; reflexivity. Qed.
Example ex_find_digits : find_mode [49; 50; 51] = 1 /\ find_mode [49; 65] = 2 /\ find_mode [49; 97] = 4.
Proof. vm_compute. repeat split; reflexivity. Qed.

Example ex_auto_kanji : seg_summary (make_segment (PBytes [0x93; 0x5F; 0xE4; 0xAA]) None None) = Ok (8, 2).
Proof. vm_compute. reflexivity. Qed.
Example ex_req_numeric_refused : seg_summary (make_segment (PBytes [49; 65]) (Some 1) None) = Err ValueError.
Proof. vm_compute. reflexivity. Qed.
Example ex_req_alnum_digits : seg_summary (make_segment (PBytes [49; 50]) (Some 2) None) = Ok (2, 2).
Proof. vm_compute. reflexivity. Qed.
Example ex_req_kanji_odd : seg_summary (make_segment (PBytes [0x93; 0x5F; 0x93]) (Some 8) None) = Err ValueError.
Proof. vm_compute. reflexivity. Qed.
Example ex_req_kanji_bad_trail : seg_summary (make_segment (PBytes [0x82; 0x7F]) (Some 8) None) = Err ValueError.
Proof. vm_compute. reflexivity. Qed.
Example ex_req_kanji_digits : seg_summary (make_segment (PBytes [49; 50]) (Some 8) None) = Err ValueError.
Proof. vm_compute. reflexivity. Qed.
Example ex_req_hanzi : seg_summary (make_segment (PBytes [0xB0; 0xA1]) (Some 13) None) = Ok (13, 1).
Proof. vm_compute. reflexivity. Qed.
Example ex_req_hanzi_gap : seg_summary (make_segment (PBytes [0xAB; 0xA1]) (Some 13) None) = Err ValueError.
Proof. vm_compute. reflexivity. Qed.
Example ex_req_empty :
  seg_summary (make_segment (PBytes []) (Some 1) None) = Err ValueError /\
  seg_summary (make_segment (PBytes []) (Some 2) None) = Err ValueError /\
  seg_summary (make_segment (PBytes []) (Some 4) None) = Ok (4, 0) /\
  seg_summary (make_segment (PBytes []) (Some 8) None) = Ok (8, 0) /\
  seg_summary (make_segment (PBytes []) (Some 13) None) = Ok (13, 0) /\
  seg_summary (make_segment (PBytes []) None None) = Ok (4, 0).
Proof. vm_compute. repeat split; reflexivity. Qed.
