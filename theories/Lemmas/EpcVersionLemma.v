(* C16, last sentence of the EPC part: "its symbol always has error level M and version <= 13".
   make_epc_qr calls make_qr(data, error='m', boost_error=False) with the payload BYTES (at most 331 of them, theorem
   epc_layout); the bytes start with "BCD" LF, so they form a single byte-mode segment.  For every such segment the
   version search of the model returns a QR version between 1 and 13 (13-M holds exactly 331 bytes in byte mode); the
   level is not touched because boosting is off (Model/Encode.v only calls boost_error_level when asked to). *)
From Coq Require Import ZArith List Bool Lia.
From Segno Require Import Base.PyLite Ref.IsoData Ref.Spec Model.Bits Model.Segment Model.Version Lemmas.VersionLemmas.
Import ListNotations.
Open Scope Z_scope.

Lemma epc_version_finite :
  forallb (fun n => match spec_version (Some false) false (Some 0) [((4, n), false)] false with
                    | Some v => (1 <=? v) && (v <=? 13)
                    | None => false
                    end) (zrange 0 332) = true.
Proof. vm_compute. reflexivity. Qed.

(* the bound is sharp: 332 bytes need version 14 *)
Example epc_version_sharp :
  spec_version (Some false) false (Some 0) [((4, 331), false)] false = Some 13 /\
  spec_version (Some false) false (Some 0) [((4, 332), false)] false = Some 14.
Proof. split; vm_compute; reflexivity. Qed.

Theorem epc_version_le_13 seg :
  wf_seg seg -> s_mode seg = MODE_BYTE -> s_count seg <= 331 ->
  exists v, find_version [seg] (Some ERROR_LEVEL_M) false (Some false) false = Ok v /\ 1 <= v <= 13.
Proof.
  intros Hwf Hmode Hcount.
  assert (Hc0 : 0 <= s_count seg) by (destruct Hwf as (_ & H & _); exact H).
  rewrite (find_version_spec [seg] (Some ERROR_LEVEL_M) false (Some false) false);
    [|constructor; [exact Hwf|constructor]|discriminate|reflexivity].
  cbn [map]. unfold abs_seg. rewrite Hmode. cbn [andb].
  pose proof epc_version_finite as HF. rewrite forallb_forall in HF.
  specialize (HF (s_count seg) (zrange_In 0 332 (s_count seg) ltac:(lia))).
  change MODE_BYTE with 4. change ERROR_LEVEL_M with 0.
  destruct (spec_version (Some false) false (Some 0) [(4, s_count seg, false)] false) as [v|]; [|discriminate HF].
  exists v. split; [reflexivity|].
  apply andb_true_iff in HF. destruct HF as [H1 H2]. apply Z.leb_le in H1. apply Z.leb_le in H2. lia.
Qed.
Print Assumptions epc_version_le_13.
