(* The final message fills the encoding region exactly, hence after add_codewords every module has a value.

   This discharges the hypothesis [Hplaced] of Tie/TieEncode.v (src_encode_is_model): Python's matrix holds the
   placeholder 2 in unset cells and xors it with the mask, the model's finite map leaves such cells absent, so both
   sides agree only when placement assigns every module that the function patterns leave free.

   Three ingredients:
   1. the data stream of _encode (Model/Encode.data_stream) has at least [capacity] bits -- for ANY segments, also
      overflowing ones (no assumption that the content fits: _encode itself does not check it);
   2. make_final_message of a stream with at least [capacity] bits has exactly
        8 * (total codewords of Table 9) - (4 for M1/M3) + remainder bits
      bits (surplus bits of the stream are ignored by the block builder) -- arbitrary data;
   3. geometry (one kernel computation over the 44 rows of the ECC table, versions -3 .. 40, every level of every row):
      the number of ISO data positions of the symbol (= cells left unset by make_matrix + finder + alignment patterns,
      PlaceLemmas.version_facts) is that same number.
   With PlaceLemmas (placement along the free cells of the visiting order = data positions) the matrix is full. *)
From Coq Require Import ZArith List Bool Lia ZifyBool FMapPositive.
From Segno Require Import Base.PyLite Ref.IsoData Ref.Geometry Ref.Decoder.
From Segno Require Import Model.Bits Model.Segment Model.Version Model.Stream Model.Matrix Model.Encode.
From Segno Require Import Lemmas.PackLemmas Lemmas.PadLemmas Lemmas.BlockLemmas Lemmas.PlaceLemmas.
Import ListNotations.
Open Scope Z_scope.
Ltac Zify.zify_post_hook ::= Z.to_euclidean_division_equations.

(* ------------------------------------------------------------------------------------------------ *)
(* 1. the data stream has at least [capacity] bits                                                   *)
(* ------------------------------------------------------------------------------------------------ *)
Theorem data_stream_length : forall segs error version eci sa buff,
  data_stream segs error version eci sa = Ok buff ->
  exists cap, capacity version error = Ok cap /\ cap <= lenZ buff.
Proof.
  intros segs error version eci sa buff H. unfold data_stream in H. cbv zeta in H.
  bind_step H vr Evr. bind_step H body Ebody. bind_step H cap Ecap. bind_step H b1 Eb1.
  injection H as <-. exists cap. split; [reflexivity|].
  destruct (capacity_has_ecc _ _ _ Ecap) as [infos Hinfos].
  destruct (ecc_facts _ _ _ Hinfos) as (_ & _ & Hcap & _).
  assert (Ecap' : cap = 8 * data_codewords infos - (if is_m1_m3 version then 4 else 0)) by congruence.
  set (b2 := write_padding_bits b1 version).
  pose proof (lenZ_nonneg b2) as Hb2.
  unfold write_pad_codewords. cbv zeta.
  destruct (is_m1_m3 version) eqn:Es.
  - match goal with |- _ <= lenZ (?B ++ _) => set (buff1 := B) end.
    rewrite lenZ_app, lenZ_zeros. lia.
  - rewrite lenZ_app, lenZ_pad_codewords. lia.
Qed.
Print Assumptions data_stream_length.

(* ------------------------------------------------------------------------------------------------ *)
(* 2. number of codewords of a bit buffer; length of the final message                               *)
(* ------------------------------------------------------------------------------------------------ *)
Lemma toints_fuel_length : forall f bs, (List.length bs < f)%nat ->
  Z.of_nat (List.length (toints_fuel f bs)) = (Z.of_nat (List.length bs) + 7) / 8.
Proof.
  induction f as [|f IH]; intros bs Hf; [lia|].
  cbn [toints_fuel]. destruct bs as [|b r]; [reflexivity|].
  assert (Hs : List.length (skipn 8 (b :: r)) = (List.length (b :: r) - 8)%nat) by apply skipn_length.
  cbn [List.length] in *. rewrite Nat2Z.inj_succ, IH by lia. rewrite Hs. lia.
Qed.

Lemma toints_length bs : lenZ (toints bs) = (lenZ bs + 7) / 8.
Proof. unfold lenZ, toints. apply toints_fuel_length. lia. Qed.

Lemma lenZ_bits_of x n : 0 <= n -> lenZ (bits_of x n) = n.
Proof. intros Hn. unfold lenZ. rewrite bits_of_length. lia. Qed.

Lemma lenZ_rev {A} (l : list A) : lenZ (rev l) = lenZ l.
Proof. unfold lenZ. now rewrite rev_length. Qed.

(* the stream may be longer than the capacity (the surplus is ignored), the data are arbitrary *)
Theorem final_message_length : forall version error infos buff final,
  ec_infos version error = Ok infos ->
  8 * data_codewords infos - (if is_m1_m3 version then 4 else 0) <= lenZ buff ->
  make_final_message version error buff = Ok final ->
  lenZ final = 8 * total_codewords infos - (if is_m1_m3 version then 4 else 0) + remainder_bits version.
Proof.
  intros version error infos buff final Hinfos Hle Hfinal.
  destruct (ecc_facts _ _ _ Hinfos) as (Hv & Hg & _ & Hmicro).
  pose proof (groups_info_ok _ Hg) as Hok.
  pose proof (shapes_data_codewords infos Hok) as HNd.
  pose proof (shapes_total_codewords infos Hok) as HNt.
  rewrite sumZ_fst_split in HNt.
  assert (HN : sumZ (map snd (shapes_of infos)) <= lenZ (toints buff)).
  { rewrite HNd, toints_length. destruct (is_m1_m3 version); lia. }
  destruct (make_blocks_aux_spec infos (toints buff) Hok (toints_elt _) HN) as (ds & es & M1 & _ & M3 & M4 & _).
  assert (Lds : lenZ (concat ds) = sumZ (map snd (shapes_of infos))) by (rewrite <- sumZ_lenZ_concat, M3; reflexivity).
  assert (Les : lenZ (concat es) = sumZ (map (fun '(t, d) => t - d) (shapes_of infos)))
    by (rewrite <- sumZ_lenZ_concat, M4; reflexivity).
  pose proof (remainder_bits_nonneg version) as Hrem.
  unfold make_final_message in Hfinal. rewrite Hinfos in Hfinal. cbn [bind] in Hfinal.
  unfold make_blocks in Hfinal. rewrite M1 in Hfinal. cbn [bind] in Hfinal.
  change (flat_map (fun x : Z => bits_of x 8)) with bits8 in Hfinal.
  destruct (is_m1_m3 version) eqn:Es.
  - assert (Hv0 : version <= 0) by (unfold is_m1_m3, VERSION_M1, VERSION_M3 in Es; lia).
    destruct (Hmicro Hv0) as (t & d & ->).
    change (shapes_of [(1, t, d)]) with [(t, d)] in *. cbn [map snd] in M3.
    destruct ds as [|b0 [|b1 ds']]; try discriminate M3. injection M3 as Lb0.
    cbn [concat] in Lds. rewrite app_nil_r in Lds.
    destruct (rev b0) as [|last front] eqn:Er; cbn [bind] in Hfinal; [discriminate Hfinal|].
    match type of Hfinal with Ok ?X = Ok _ => assert (Efin : final = X) by congruence end.
    rewrite Efin. clear Efin Hfinal.
    assert (Lfront : lenZ front = lenZ b0 - 1).
    { rewrite <- (lenZ_rev b0), Er. unfold lenZ. cbn [List.length]. lia. }
    rewrite !lenZ_app, !lenZ_bits8, !interleave_length, lenZ_bits_of, lenZ_zeros, Les by lia.
    cbn [concat]. rewrite app_nil_r, lenZ_rev. lia.
  - cbn [bind app] in Hfinal.
    match type of Hfinal with Ok ?X = Ok _ => assert (Efin : final = X) by congruence end.
    rewrite Efin. clear Efin Hfinal.
    rewrite !lenZ_app, !lenZ_bits8, !interleave_length, lenZ_zeros, Les, Lds. lia.
Qed.
Print Assumptions final_message_length.

(* ------------------------------------------------------------------------------------------------ *)
(* 3. geometry against the tables: one computation over all 44 rows of ECC (versions -3 .. 40),       *)
(*    every level of every row                                                                       *)
(* ------------------------------------------------------------------------------------------------ *)
Lemma region_size_all :
  forallb (fun '(v, row) =>
    let n := lenZ (data_positions (calc_matrix_size v)) in
    forallb (fun '(l, infos) =>
      n =? 8 * total_codewords infos - (if is_m1_m3 v then 4 else 0) + remainder_bits v)
      (row : list (option Z * list (Z * Z * Z)))) ECC = true.
Proof. vm_cast_no_check (eq_refl true). Qed.

Theorem region_size : forall version error infos,
  ec_infos version error = Ok infos ->
  lenZ (data_positions (calc_matrix_size version))
  = 8 * total_codewords infos - (if is_m1_m3 version then 4 else 0) + remainder_bits version.
Proof.
  intros version error infos H. destruct (ec_infos_In _ _ _ H) as (row & Hr & Hi).
  pose proof region_size_all as T. rewrite forallb_forall in T. specialize (T _ Hr). cbv beta iota zeta in T.
  rewrite forallb_forall in T. specialize (T _ Hi). cbv beta iota in T. lia.
Qed.
Print Assumptions region_size.

(* the message of _encode has exactly as many bits as the symbol has data modules; no guard: an (version, error)
   pair outside the tables makes data_stream fail *)
Theorem final_message_fills_region : forall segs error version eci sa buff final,
  data_stream segs error version eci sa = Ok buff ->
  make_final_message version error buff = Ok final ->
  -3 <= version <= 40 /\
  lenZ final = lenZ (data_positions (calc_matrix_size version)).
Proof.
  intros segs error version eci sa buff final Hbuff Hfinal.
  destruct (data_stream_length _ _ _ _ _ _ Hbuff) as (cap & Hcap & Hle).
  destruct (capacity_has_ecc _ _ _ Hcap) as [infos Hinfos].
  destruct (ecc_facts _ _ _ Hinfos) as (Hv & _ & Hcap' & _).
  assert (Ecap : cap = 8 * data_codewords infos - (if is_m1_m3 version then 4 else 0)) by congruence.
  split; [exact Hv|].
  rewrite (region_size _ _ _ Hinfos).
  apply (final_message_length version error infos buff final Hinfos); [lia|exact Hfinal].
Qed.
Print Assumptions final_message_fills_region.

(* ------------------------------------------------------------------------------------------------ *)
(* 4. placing exactly as many bits as there are data modules fills the matrix                        *)
(* ------------------------------------------------------------------------------------------------ *)
Theorem exact_placement_full : forall version size m2 final m3,
  -3 <= version <= 40 -> size = calc_matrix_size version ->
  base_matrix size = Ok m2 ->
  add_codewords size version m2 final = Ok m3 ->
  List.length final = List.length (data_positions size) ->
  forall i j, 0 <= i < size -> 0 <= j < size -> mget size m3 i j <> None.
Proof.
  intros version size m2 final m3 Hv Hsize Hbase Hcw Hlen i j Hi Hj.
  destruct (version_facts version size m2 Hv Hsize Hbase) as (Hdp & Hnd & _ & _ & _).
  pose proof (NoDup_pidx_data_positions version size m2 Hv Hsize Hbase) as Hnd_dp.
  apply add_codewords_place in Hcw; [|exact Hnd]. rewrite Hdp in Hcw. destruct Hcw as [-> _].
  assert (Hrange : in_rangeb size (i, j) = true) by (apply in_rangeb_spec; cbn [fst snd]; lia).
  destruct (freeb size m2 (i, j)) eqn:Hfree.
  - (* a data module: it received a bit of the message *)
    assert (Hin : In (i, j) (data_positions size)).
    { apply (data_positions_In version size m2 Hv Hsize Hbase). split; assumption. }
    pose proof (read_place size (data_positions size) Hnd_dp m2 final Hlen) as Hread.
    apply (in_map (cget size (place size m2 (data_positions size) final))) in Hin.
    rewrite Hread in Hin. apply in_map_iff in Hin. destruct Hin as (b & Hb & _).
    unfold cget in Hb. cbn [fst snd] in Hb. rewrite <- Hb. discriminate.
  - (* a function module: untouched by the placement *)
    rewrite place_notin_cell.
    + unfold freeb in Hfree. cbn [fst snd] in Hfree. destruct (mget size m2 i j); [discriminate|discriminate Hfree].
    + intro Hin. apply in_map_iff in Hin. destruct Hin as (c & Hc & Hcin).
      apply (data_positions_In version size m2 Hv Hsize Hbase) in Hcin. destruct Hcin as [Hcr Hcf].
      change (idx size i j) with (pidx size (i, j)) in Hc. apply pidx_inj in Hc; [|assumption|assumption].
      subst c. rewrite Hfree in Hcf. discriminate Hcf.
Qed.
Print Assumptions exact_placement_full.

(* ------------------------------------------------------------------------------------------------ *)
(* 5. the hypothesis Hplaced of Tie/TieEncode.src_encode_is_model                                    *)
(*    bound: versions -3 .. 40 (M1 .. M4 = -3 .. 0), the only ones with rows in SYMBOL_CAPACITY / ECC; *)
(*    segments, error level (any with a table entry), ECI flag, Structured Append header: arbitrary    *)
(* ------------------------------------------------------------------------------------------------ *)
Theorem placed_full : forall segs error version eci sa buff final m1 m2 m3,
  data_stream segs error version eci sa = Ok buff ->
  make_final_message version error buff = Ok final ->
  add_finder_patterns (calc_matrix_size version) (make_matrix (calc_matrix_size version) true true) = Ok m1 ->
  add_alignment_patterns (calc_matrix_size version) m1 = Ok m2 ->
  add_codewords (calc_matrix_size version) version m2 final = Ok m3 ->
  -3 <= version <= 40 /\
  lenZ final = lenZ (data_positions (calc_matrix_size version)) /\
  forall i j, 0 <= i < calc_matrix_size version -> 0 <= j < calc_matrix_size version ->
              mget (calc_matrix_size version) m3 i j <> None.
Proof.
  intros segs error version eci sa buff final m1 m2 m3 Hbuff Hfinal Hm1 Hm2 Hm3.
  destruct (final_message_fills_region _ _ _ _ _ _ _ Hbuff Hfinal) as [Hv Hlen].
  split; [exact Hv|]. split; [exact Hlen|].
  apply (exact_placement_full version (calc_matrix_size version) m2 final m3 Hv eq_refl); [|exact Hm3|].
  - unfold base_matrix. rewrite Hm1. cbn [bind]. exact Hm2.
  - unfold lenZ in Hlen. lia.
Qed.
Print Assumptions placed_full.

(* the placement of _encode cannot fail either: with the exact length, add_codewords has no bits left over *)
Theorem add_codewords_total : forall segs error version eci sa buff final m2,
  data_stream segs error version eci sa = Ok buff ->
  make_final_message version error buff = Ok final ->
  base_matrix (calc_matrix_size version) = Ok m2 ->
  exists m3, add_codewords (calc_matrix_size version) version m2 final = Ok m3.
Proof.
  intros segs error version eci sa buff final m2 Hbuff Hfinal Hbase.
  destruct (final_message_fills_region _ _ _ _ _ _ _ Hbuff Hfinal) as [Hv Hlen].
  destruct (version_facts version _ m2 Hv eq_refl Hbase) as (Hdp & Hnd & _ & _ & _).
  unfold add_codewords. rewrite place_visit_path by exact Hnd. rewrite Hdp.
  rewrite skipn_all2 by (unfold lenZ in Hlen; lia). eexists. reflexivity.
Qed.
Print Assumptions add_codewords_total.
