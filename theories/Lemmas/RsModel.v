(* The model of segno's Reed-Solomon error-word computation (Model/Stream.v: in-place extended synthetic
   division with the log/antilog tables) is the LFSR remainder of Ref/Rs.v, hence produces valid
   Reed-Solomon codewords for data blocks of ANY length; no IndexErr/KeyErr can occur. *)
From Coq Require Import ZArith List Bool Lia Ring.
From Segno Require Import Base.PyLite Ref.IsoData Ref.Gf256 Ref.Rs Ref.Spec Model.Stream.
Import ListNotations.
Open Scope Z_scope.

(* ------------------------------------------------------------------------------------------------ *)
(* 1. finite fact about the generator polynomial table                                               *)
(* ------------------------------------------------------------------------------------------------ *)
(* every entry (ec, g): 0 < ec <= 255, |g| = ec, exponents in 0..254, and the monic polynomial
   x^ec + sum gexp(g_i) x^(ec-1-i) vanishes at alpha^0 .. alpha^(ec-1) *)
Lemma gen_poly_roots_ok :
  forallb (fun p : Z * list Z =>
     (0 <? fst p) && (fst p <=? 255) && (lenZ (snd p) =? fst p)
     && forallb (fun x => (0 <=? x) && (x <? 255)) (snd p)
     && forallb (fun i => gpoly_eval (1 :: map gexp (snd p)) (gexp i) =? 0) (zrange 0 (fst p))) GEN_POLY = true.
Proof. vm_compute. reflexivity. Qed.

Definition exps_ok (gen : list Z) : Prop := Forall (fun g => 0 <= g < 255) gen.

Lemma assocZ_In {A} k (l : list (Z * A)) v : assocZ k l = Some v -> In (k, v) l.
Proof.
  induction l as [|[k' v'] l IH]; cbn [assocZ]; intros H. discriminate.
  destruct (k =? k') eqn:E.
  - apply Z.eqb_eq in E. injection H as ->. subst. now left.
  - right; auto.
Qed.

Lemma gen_poly_facts n gen : assocZ n GEN_POLY = Some gen ->
  0 < n <= 255 /\ lenZ gen = n /\ exps_ok gen /\
  forall i, 0 <= i < n -> gpoly_eval (1 :: map gexp gen) (gexp i) = 0.
Proof.
  intros H. apply assocZ_In in H. pose proof gen_poly_roots_ok as G. rewrite forallb_forall in G.
  specialize (G _ H). cbn [fst snd] in G.
  apply andb_true_iff in G. destruct G as [G G5]. apply andb_true_iff in G. destruct G as [G G4].
  apply andb_true_iff in G. destruct G as [G G3]. apply andb_true_iff in G. destruct G as [G1 G2].
  apply Z.ltb_lt in G1. apply Z.leb_le in G2. apply Z.eqb_eq in G3.
  split; [lia|]. split; [exact G3|]. split.
  - apply Forall_forall. intros g Hg. rewrite forallb_forall in G4. specialize (G4 g Hg).
    apply andb_true_iff in G4. destruct G4 as [A B]. apply Z.leb_le in A. apply Z.ltb_lt in B. lia.
  - intros i Hi. rewrite forallb_forall in G5. apply Z.eqb_eq. apply G5. apply zrange_In. lia.
Qed.

(* ------------------------------------------------------------------------------------------------ *)
(* 2. bridge Z-level arithmetic <-> the field F                                                      *)
(* ------------------------------------------------------------------------------------------------ *)
Definition toF (a : Z) : F :=
  match bool_dec ((0 <=? a) && (a <? 256)) true with
  | left H => exist _ a H
  | right _ => f0
  end.

Lemma val_fadd x y : val (fadd x y) = Z.lxor (val x) (val y). Proof. reflexivity. Qed.
Lemma val_fmul x y : val (fmul x y) = gmul (val x) (val y). Proof. reflexivity. Qed.

Lemma toF_val a : elt a -> val (toF a) = a.
Proof.
  intros H. unfold toF. destruct (bool_dec ((0 <=? a) && (a <? 256)) true) as [E|E]. reflexivity.
  exfalso. apply E. now apply elt_b.
Qed.
Lemma toF_of_val x : toF (val x) = x.
Proof. apply F_eq. apply toF_val. apply val_elt. Qed.
Lemma toF_0 : toF 0 = f0. Proof. apply F_eq. rewrite toF_val by apply elt0. reflexivity. Qed.
Lemma toF_1 : toF 1 = f1. Proof. apply F_eq. rewrite toF_val by apply elt1. reflexivity. Qed.
Lemma toF_lxor a b : elt a -> elt b -> toF (Z.lxor a b) = fadd (toF a) (toF b).
Proof.
  intros Ha Hb. apply F_eq. rewrite val_fadd, !toF_val; auto. now apply lxor_elt.
Qed.
Lemma toF_gmul a b : elt a -> elt b -> toF (gmul a b) = fmul (toF a) (toF b).
Proof.
  intros Ha Hb. apply F_eq. rewrite val_fmul, !toF_val; auto. now apply gmul_elt.
Qed.
Lemma map_val_toF l : Forall elt l -> map val (map toF l) = l.
Proof. induction 1 as [|a l Ha Hl IH]; cbn [map]. reflexivity. now rewrite toF_val, IH. Qed.
Lemma map_toF_inj l l' : Forall elt l -> Forall elt l' -> map toF l = map toF l' -> l = l'.
Proof. intros H H' E. rewrite <- (map_val_toF l H), <- (map_val_toF l' H'). now rewrite E. Qed.
Lemma map_toF_repeat0 n : map toF (repeat 0 n) = repeat f0 n.
Proof. induction n as [|n IH]; cbn [repeat map]. reflexivity. now rewrite toF_0, IH. Qed.

Lemma gpoly_eval_from_toF p x : Forall elt p -> elt x -> forall acc, elt acc ->
  val (peval_from (toF acc) (map toF p) (toF x)) = fold_left (fun a c => Z.lxor (gmul a x) c) p acc.
Proof.
  intros Hp Hx. induction Hp as [|c p Hc Hp IH]; intros acc Ha.
  - cbn [map peval_from fold_left]. now apply toF_val.
  - cbn [map fold_left]. unfold peval_from. cbn [fold_left].
    rewrite <- toF_gmul by auto. rewrite <- toF_lxor by auto using gmul_elt.
    apply IH. apply lxor_elt; auto using gmul_elt.
Qed.
Lemma gpoly_eval_toF p x : Forall elt p -> elt x -> val (peval (map toF p) (toF x)) = gpoly_eval p x.
Proof.
  intros Hp Hx. unfold peval, gpoly_eval. rewrite <- toF_0. apply gpoly_eval_from_toF; auto. apply elt0.
Qed.

(* ------------------------------------------------------------------------------------------------ *)
(* 3. the table lookups of the model never fail and compute the field product                        *)
(* ------------------------------------------------------------------------------------------------ *)
Lemma gen_exp_ok k : 0 <= k < 510 -> gen_exp k = Ok (gexp k).
Proof.
  intros Hk. unfold gen_exp, nthZ. destruct (k <? 0) eqn:E; [lia|].
  rewrite (nth_error_nth' GALIOS_EXP 0) by (rewrite (proj1 table_lengths); lia). reflexivity.
Qed.
Lemma gen_log_ok a : elt a -> gen_log a = Ok (glog a).
Proof.
  intros Ha. unfold elt in Ha. unfold gen_log, nthZ. destruct (a <? 0) eqn:E; [lia|].
  rewrite (nth_error_nth' GALIOS_LOG 0) by (rewrite (proj2 table_lengths); lia). reflexivity.
Qed.
(* key identity: exp[log coef + g] = coef * alpha^g *)
Lemma gen_exp_mul f g : elt f -> f <> 0 -> 0 <= g < 255 -> gen_exp (glog f + g) = Ok (gmul f (gexp g)).
Proof.
  intros Hf Hz Hg. destruct (gexp_glog f Hf Hz) as [_ L].
  destruct (glog_gexp g) as (G1 & G2 & _); [lia|].
  rewrite gen_exp_ok by lia. f_equal. rewrite gmul_nz_eq by auto. rewrite G1.
  rewrite Z.mod_small by lia. reflexivity.
Qed.

(* Z-level mirror of the LFSR of Rs.v *)
Fixpoint zipxor (u v : list Z) : list Z :=
  match u, v with a :: u', b :: v' => Z.lxor a b :: zipxor u' v' | _, _ => [] end.
(* xor m into the first |m| cells of l *)
Fixpoint xorpre (m l : list Z) : list Z :=
  match m, l with a :: m', b :: l' => Z.lxor b a :: xorpre m' l' | _, _ => l end.
Definition zstep (gen : list Z) (r : list Z) (d : Z) : list Z :=
  let f := Z.lxor d (hd 0 r) in zipxor (tl r ++ [0]) (map (fun g => gmul f (gexp g)) gen).
Definition zrs_rem (gen data : list Z) : list Z := fold_left (zstep gen) data (repeat 0 (length gen)).

Lemma zipxor_length u : forall v, length (zipxor u v) = Nat.min (length u) (length v).
Proof. induction u as [|a u IH]; intros [|b v]; cbn [zipxor length Nat.min]; auto. Qed.
Lemma zipxor_elt u : forall v, Forall elt u -> Forall elt v -> Forall elt (zipxor u v).
Proof.
  induction u as [|a u IH]; intros [|b v] Hu Hv; cbn [zipxor]; try constructor.
  - inversion Hu as [|? ? Ha Hu']; inversion Hv as [|? ? Hb Hv']; subst. now apply lxor_elt.
  - inversion Hu as [|? ? Ha Hu']; inversion Hv as [|? ? Hb Hv']; subst. now apply IH.
Qed.
Lemma xorpre_length m : forall l, length (xorpre m l) = length l.
Proof. induction m as [|a m IH]; intros [|b l]; cbn [xorpre length]; auto. Qed.
Lemma xorpre_cons r x rest : xorpre r (x :: rest) = Z.lxor x (hd 0 r) :: xorpre (tl r) rest.
Proof. destruct r as [|h t]; cbn [xorpre hd tl]. now rewrite Z.lxor_0_r. reflexivity. Qed.
Lemma xorpre_repeat0 n : forall l, xorpre (repeat 0 n) l = l.
Proof. induction n as [|n IH]; intros [|b l]; cbn [repeat xorpre]; auto. now rewrite Z.lxor_0_r, IH. Qed.
Lemma xorpre_map0 gen : forall l, xorpre (map (fun g => gmul 0 (gexp g)) gen) l = l.
Proof. induction gen as [|g gen IH]; intros [|b l]; cbn [map xorpre]; auto. now rewrite gmul_0_l, Z.lxor_0_r, IH. Qed.
Lemma xorpre_self_zero r : xorpre r (repeat 0 (length r)) = r.
Proof. induction r as [|a r IH]; cbn [length repeat xorpre]. reflexivity. now rewrite Z.lxor_0_l, IH. Qed.
Lemma xorpre_xorpre t : forall m rest, length m = S (length t) -> (S (length t) <= length rest)%nat ->
  xorpre m (xorpre t rest) = xorpre (zipxor (t ++ [0]) m) rest.
Proof.
  induction t as [|h t IH]; intros [|a m] [|b rest] Hm Hr; cbn [length] in *; try lia.
  - destruct m; [|discriminate]. cbn [app zipxor xorpre]. now rewrite Z.lxor_0_l.
  - cbn [app xorpre zipxor]. rewrite IH by lia. now rewrite Z.lxor_assoc.
Qed.

Lemma xor_gen_ok f gen : exps_ok gen -> elt f -> f <> 0 -> forall blk, (length gen <= length blk)%nat ->
  xor_gen (glog f) gen blk = Ok (xorpre (map (fun g => gmul f (gexp g)) gen) blk).
Proof.
  intros Hg Hf Hz. induction Hg as [|g gen Hg0 Hg IH]; intros blk Hl.
  - reflexivity.
  - destruct blk as [|b blk]; cbn [length] in Hl; [lia|].
    cbn [xor_gen map xorpre]. rewrite gen_exp_mul by auto. cbn [bind].
    rewrite IH by lia. reflexivity.
Qed.
Lemma div_step_ok gen f blk : exps_ok gen -> (length gen <= length blk)%nat -> elt f ->
  (if f =? 0 then Ok blk else do l <- gen_log f; xor_gen l gen blk)
  = Ok (xorpre (map (fun g => gmul f (gexp g)) gen) blk).
Proof.
  intros Hg Hl Hf. destruct (f =? 0) eqn:E.
  - apply Z.eqb_eq in E. subst f. now rewrite xorpre_map0.
  - apply Z.eqb_neq in E. rewrite gen_log_ok by auto. cbn [bind]. now apply xor_gen_ok.
Qed.

Lemma exps_elt gen f : exps_ok gen -> elt f -> Forall elt (map (fun g => gmul f (gexp g)) gen).
Proof.
  intros Hg Hf. apply Forall_forall. intros y Hy. apply in_map_iff in Hy. destruct Hy as (g & <- & Hin).
  unfold exps_ok in Hg. rewrite Forall_forall in Hg. specialize (Hg g Hin).
  apply gmul_elt; auto. apply glog_gexp. lia.
Qed.
Lemma hd_elt r : Forall elt r -> elt (hd 0 r).
Proof. intros H. destruct r; cbn [hd]. apply elt0. now inversion H. Qed.
Lemma tl_elt r : Forall elt r -> Forall elt (tl r).
Proof. intros H. destruct r; cbn [tl]. constructor. now inversion H. Qed.
Lemma zstep_elt gen r d : exps_ok gen -> Forall elt r -> elt d -> Forall elt (zstep gen r d).
Proof.
  intros Hg Hr Hd. unfold zstep. apply zipxor_elt.
  - apply Forall_app. split. now apply tl_elt. constructor. apply elt0. constructor.
  - apply exps_elt; auto. apply lxor_elt; auto using hd_elt.
Qed.
Lemma zstep_length gen r d : length r = length gen -> length (zstep gen r d) = length gen.
Proof.
  intros H. unfold zstep. rewrite zipxor_length, app_length, map_length. cbn [length].
  destruct r; cbn [tl length] in *; lia.
Qed.
Lemma zfold_elt gen : exps_ok gen -> forall d r, Forall elt d -> Forall elt r -> Forall elt (fold_left (zstep gen) d r).
Proof.
  intros Hg. induction d as [|x d IH]; intros r Hd Hr; cbn [fold_left]; auto.
  inversion Hd as [|? ? Hx Hd']; subst. apply IH; auto. now apply zstep_elt.
Qed.
Lemma zfold_length gen : forall d r, length r = length gen -> length (fold_left (zstep gen) d r) = length gen.
Proof. induction d as [|x d IH]; intros r Hr; cbn [fold_left]; auto. apply IH. now apply zstep_length. Qed.

(* the invariant: with register r, the not yet processed part of the block is (rest of data ++ zeros) xor r *)
Lemma division_inv gen : exps_ok gen -> forall d r, Forall elt d -> Forall elt r -> length r = length gen ->
  division (length d) gen (xorpre r (d ++ repeat 0 (length gen))) = Ok (fold_left (zstep gen) d r).
Proof.
  intros Hg. induction d as [|x d IH]; intros r Hd Hr Hlen.
  - cbn [length division app fold_left]. f_equal. rewrite <- Hlen. apply xorpre_self_zero.
  - inversion Hd as [|? ? Hx Hd']; subst.
    cbn [length app fold_left]. rewrite xorpre_cons.
    set (f := Z.lxor x (hd 0 r)). set (rest := d ++ repeat 0 (length gen)).
    assert (Hf : elt f) by (apply lxor_elt; auto using hd_elt).
    assert (Hrest : length rest = (length d + length gen)%nat)
      by (unfold rest; now rewrite app_length, repeat_length).
    cbn [division].
    rewrite (div_step_ok gen f (xorpre (tl r) rest)); auto.
    2:{ rewrite xorpre_length. lia. }
    cbn [bind].
    replace (xorpre (map (fun g => gmul f (gexp g)) gen) (xorpre (tl r) rest)) with (xorpre (zstep gen r x) rest).
    + apply IH; auto. now apply zstep_elt. now apply zstep_length.
    + unfold zstep. fold f. destruct r as [|h t].
      * destruct gen; [|discriminate]. reflexivity.
      * cbn [tl]. cbn [length] in Hlen. symmetry. apply xorpre_xorpre. rewrite map_length; lia. lia.
Qed.

Lemma error_words_zrs_rem gen data : exps_ok gen -> Forall elt data ->
  error_words gen data (lenZ gen) = Ok (zrs_rem gen data).
Proof.
  intros Hg Hd. unfold error_words, lenZ, zrs_rem. rewrite Nat2Z.id.
  rewrite <- (xorpre_repeat0 (length gen) (data ++ repeat 0 (length gen))).
  apply division_inv; auto.
  - clear. induction (length gen) as [|n IH]; cbn [repeat]; constructor; auto. apply elt0.
  - apply repeat_length.
Qed.

(* Z-level LFSR = Rs.step *)
Lemma map_toF_zipxor u : forall v, Forall elt u -> Forall elt v -> map toF (zipxor u v) = zipadd (map toF u) (map toF v).
Proof.
  induction u as [|a u IH]; intros [|b v] Hu Hv; cbn [zipxor map zipadd]; auto.
  inversion Hu as [|? ? Ha Hu']; inversion Hv as [|? ? Hb Hv']; subst.
  rewrite toF_lxor, IH; auto.
Qed.
Definition gsF (gen : list Z) : list F := map (fun g => toF (gexp g)) gen.
Lemma zstep_step gen r d : exps_ok gen -> Forall elt r -> elt d ->
  map toF (zstep gen r d) = step (gsF gen) (map toF r) (toF d).
Proof.
  intros Hg Hr Hd. unfold zstep, step, gsF.
  assert (Hf : elt (Z.lxor d (hd 0 r))) by (apply lxor_elt; auto using hd_elt).
  rewrite map_toF_zipxor.
  - f_equal.
    + rewrite map_app. cbn [map]. rewrite toF_0. f_equal. destruct r; reflexivity.
    + rewrite !map_map. apply map_ext_in. intros g Hin.
      unfold exps_ok in Hg. rewrite Forall_forall in Hg. specialize (Hg g Hin).
      rewrite toF_gmul; auto. 2:{ apply glog_gexp. lia. }
      f_equal. rewrite toF_lxor; auto using hd_elt. f_equal.
      destruct r; cbn [hd map]. apply toF_0. reflexivity.
  - apply Forall_app. split. now apply tl_elt. constructor. apply elt0. constructor.
  - now apply exps_elt.
Qed.
Lemma zfold_fold gen : exps_ok gen -> forall d r, Forall elt d -> Forall elt r ->
  map toF (fold_left (zstep gen) d r) = fold_left (step (gsF gen)) (map toF d) (map toF r).
Proof.
  intros Hg. induction d as [|x d IH]; intros r Hd Hr; cbn [fold_left map]. reflexivity.
  inversion Hd as [|? ? Hx Hd']; subst. rewrite IH; auto using zstep_elt. now rewrite zstep_step.
Qed.
Lemma zrs_rem_rs_rem gen data : exps_ok gen -> Forall elt data ->
  map toF (zrs_rem gen data) = rs_rem (gsF gen) (map toF data).
Proof.
  intros Hg Hd. unfold zrs_rem, rs_rem. rewrite zfold_fold; auto.
  - rewrite map_toF_repeat0. unfold ec, gsF. now rewrite map_length.
  - clear. induction (length gen) as [|n IH]; cbn [repeat]; constructor; auto. apply elt0.
Qed.

Theorem division_is_rs_rem gen data : Forall (fun g => 0 <= g < 255) gen -> Forall elt data ->
  exists e, error_words gen data (lenZ gen) = Ok e /\ length e = length gen /\ Forall elt e /\
            map toF e = rs_rem (map (fun g => toF (gexp g)) gen) (map toF data).
Proof.
  intros Hg Hd. exists (zrs_rem gen data). split; [|split; [|split]].
  - now apply error_words_zrs_rem.
  - unfold zrs_rem. apply zfold_length. apply repeat_length.
  - unfold zrs_rem. apply zfold_elt; auto.
    clear. induction (length gen) as [|n IH]; cbn [repeat]; constructor; auto. apply elt0.
  - now apply zrs_rem_rs_rem.
Qed.
Print Assumptions division_is_rs_rem.

(* ------------------------------------------------------------------------------------------------ *)
(* 4. the error words of the model complete the data block to a Reed-Solomon codeword                *)
(* ------------------------------------------------------------------------------------------------ *)
Lemma gexp_elt i : 0 <= i < 510 -> elt (gexp i).
Proof. intros H. now apply glog_gexp. Qed.

Lemma gen_root n gen i : assocZ n GEN_POLY = Some gen -> 0 <= i < n ->
  peval_from f1 (gsF gen) (toF (gexp i)) = f0.
Proof.
  intros Hg Hi. destruct (gen_poly_facts n gen Hg) as (Hn & Hl & Hr & Hroot).
  specialize (Hroot i Hi).
  assert (Hp : Forall elt (1 :: map gexp gen)).
  { constructor. apply elt1. apply Forall_forall. intros y Hy. apply in_map_iff in Hy. destruct Hy as (g & <- & Hin).
    unfold exps_ok in Hr. rewrite Forall_forall in Hr. specialize (Hr g Hin). apply gexp_elt. lia. }
  rewrite <- (gpoly_eval_toF _ _ Hp) in Hroot by (apply gexp_elt; lia).
  apply F_eq. change (val f0) with 0. rewrite <- Hroot. f_equal.
  unfold peval, peval_from, gsF. cbn [map fold_left]. rewrite map_map. f_equal.
  rewrite toF_1. ring.
Qed.

Theorem error_words_total : forall ec gen data, assocZ ec GEN_POLY = Some gen -> Forall elt data ->
  exists e, error_words gen data ec = Ok e.
Proof.
  intros n gen data Hg Hd. destruct (gen_poly_facts n gen Hg) as (Hn & Hl & Hr & _).
  destruct (division_is_rs_rem gen data Hr Hd) as (e & He & _). rewrite Hl in He. eauto.
Qed.
Print Assumptions error_words_total.

Theorem error_words_valid : forall ec gen data e, assocZ ec GEN_POLY = Some gen -> Forall elt data ->
  error_words gen data ec = Ok e ->
  length e = Z.to_nat ec /\ Forall elt e /\ syndromes_zero ec (data ++ e) = true.
Proof.
  intros n gen data e Hg Hd He. destruct (gen_poly_facts n gen Hg) as (Hn & Hl & Hr & _).
  destruct (division_is_rs_rem gen data Hr Hd) as (e' & He' & Hlen & Helt & Hmap).
  rewrite Hl in He'. rewrite He' in He. injection He as <-.
  split. { unfold lenZ in Hl. lia. }
  split; [exact Helt|].
  unfold syndromes_zero. apply forallb_forall. intros i Hi. apply zrange_In_inv in Hi. apply Z.eqb_eq.
  rewrite <- gpoly_eval_toF; [| apply Forall_app; auto | apply gexp_elt; lia].
  rewrite map_app, Hmap. fold (gsF gen).
  rewrite (rs_rem_correct (gsF gen) (toF (gexp i))).
  - reflexivity.
  - apply (gen_root n); auto.
  - unfold ec, gsF. rewrite map_length. unfold lenZ in Hl. lia.
Qed.
Print Assumptions error_words_valid.

(* ------------------------------------------------------------------------------------------------ *)
(* 5. unique decoding of the blocks produced by the model                                            *)
(* ------------------------------------------------------------------------------------------------ *)
(* number of positions in which two words differ *)
Fixpoint zhamming (a b : list Z) : nat :=
  match a, b with
  | x :: a', y :: b' => ((if (x =? y)%Z then 0 else 1) + zhamming a' b')%nat
  | _, _ => 0%nat
  end.
Lemma hamming_toF a : forall b, Forall elt a -> Forall elt b -> hamming (map toF a) (map toF b) = zhamming a b.
Proof.
  unfold hamming. induction a as [|x a IH]; intros [|y b] Ha Hb; cbn [map zipadd zhamming]; try reflexivity.
  inversion Ha as [|? ? Hx Ha']; inversion Hb as [|? ? Hy Hb']; subst.
  rewrite weight_cons, IH by auto. f_equal.
  unfold fis0. rewrite val_fadd, !toF_val by auto.
  destruct (x =? y) eqn:E.
  - apply Z.eqb_eq in E. subst. now rewrite Z.lxor_nilpotent.
  - destruct (Z.lxor x y =? 0) eqn:E2; [|reflexivity].
    apply Z.eqb_eq, Z.lxor_eq in E2. apply Z.eqb_neq in E. contradiction.
Qed.
Lemma syndromes_codeword n w : 0 <= n <= 255 -> Forall elt w -> syndromes_zero n w = true ->
  codeword (Z.to_nat n) (map toF w).
Proof.
  intros Hn Hw H i Hi. unfold syndromes_zero in H. rewrite forallb_forall in H.
  assert (Hin : In (Z.of_nat i) (zrange 0 n)) by (apply zrange_In; lia).
  specialize (H _ Hin). apply Z.eqb_eq in H.
  assert (E : apow i = toF (gexp (Z.of_nat i))).
  { apply F_eq. rewrite apow_val by lia. rewrite toF_val; auto. apply gexp_elt; lia. }
  rewrite E. apply F_eq. rewrite gpoly_eval_toF; auto. apply gexp_elt; lia.
Qed.

(* two words with ec zero syndromes within distance t (2t <= ec) of the same received word are equal *)
Theorem rs_words_unique_decoding (n : Z) (t : nat) (r w w' : list Z) :
  0 <= n <= 255 -> Forall elt r -> Forall elt w -> Forall elt w' ->
  (length r <= 255)%nat -> length r = length w -> length r = length w' ->
  syndromes_zero n w = true -> syndromes_zero n w' = true ->
  (zhamming r w <= t)%nat -> (zhamming r w' <= t)%nat -> (2 * t <= Z.to_nat n)%nat -> w = w'.
Proof.
  intros Hn Hr Hw Hw' Hlen H1 H2 Hs Hs' Hd Hd' Ht.
  apply map_toF_inj; auto.
  apply (rs_unique_decoding (Z.to_nat n) t (map toF r)); rewrite ?map_length; auto.
  - now apply syndromes_codeword.
  - now apply syndromes_codeword.
  - now rewrite hamming_toF.
  - now rewrite hamming_toF.
Qed.
Print Assumptions rs_words_unique_decoding.

Lemma app_inj_len {A} (a : list A) : forall a' b b', length a = length a' -> a ++ b = a' ++ b' -> a = a' /\ b = b'.
Proof.
  induction a as [|x a IH]; intros [|y a'] b b' Hl H; cbn [length] in Hl; try discriminate; cbn [app] in H.
  - auto.
  - injection H as -> H. injection Hl as Hl. destruct (IH _ _ _ Hl H) as [-> ->]. auto.
Qed.

(* the blocks the encoder produces can be told apart by any decoder correcting up to ec/2 errors *)
Theorem error_words_unique_decoding (ec : Z) (t : nat) (gen data data' e e' r : list Z) :
  assocZ ec GEN_POLY = Some gen -> Forall elt data -> Forall elt data' -> Forall elt r ->
  error_words gen data ec = Ok e -> error_words gen data' ec = Ok e' ->
  length data = length data' -> length r = length (data ++ e) -> (length r <= 255)%nat ->
  (zhamming r (data ++ e) <= t)%nat -> (zhamming r (data' ++ e') <= t)%nat -> (2 * t <= Z.to_nat ec)%nat ->
  data = data' /\ e = e'.
Proof.
  intros Hg Hd Hd' Hr He He' Hl Hlr Hr255 Ht1 Ht2 Ht.
  destruct (gen_poly_facts ec gen Hg) as (Hn & _).
  destruct (error_words_valid ec gen data e Hg Hd He) as (L1 & E1 & S1).
  destruct (error_words_valid ec gen data' e' Hg Hd' He') as (L2 & E2 & S2).
  apply app_inj_len; auto.
  apply (rs_words_unique_decoding ec t r); auto; try lia.
  - apply Forall_app; auto.
  - apply Forall_app; auto.
  - rewrite Hlr, !app_length. lia.
Qed.
Print Assumptions error_words_unique_decoding.

(* a concrete block: 4 data bytes, 7 error words (the generator of Version 1-L) *)
Example error_words_example :
  match error_words [87; 229; 146; 149; 238; 102; 21] [32; 65; 205; 69] 7 with
  | Ok e => (length e =? 7)%nat && syndromes_zero 7 ([32; 65; 205; 69] ++ e)
  | Err _ => false
  end = true.
Proof. vm_compute. reflexivity. Qed.
