(* C03 and a layer of C01: the reference decoder's block reading (Ref/Decoder.v: bits -> codewords ->
   de-interleaving by ISO Table 9) inverts the model's construction of the final message
   (Model/Stream.v: data bits -> codewords -> blocks -> Reed-Solomon error words -> interleaving).
   Hence every block of every symbol is a valid Reed-Solomon codeword and the data codewords come back
   unchanged.  The data bit stream is arbitrary (unbounded). *)
From Coq Require Import ZArith List Bool Lia ZifyBool.
From Segno Require Import Base.PyLite Ref.IsoData Ref.Gf256 Ref.Decoder Ref.Spec.
From Segno Require Import Model.Bits Model.Segment Model.Version Model.Stream.
From Segno Require Import Lemmas.RsModel Lemmas.PackLemmas.
Import ListNotations.
Open Scope Z_scope.
Ltac Zify.zify_post_hook ::= Z.to_euclidean_division_equations.

(* ------------------------------------------------------------------------------------------------ *)
(* 0. small list facts                                                                               *)
(* ------------------------------------------------------------------------------------------------ *)
Definition sumZ (l : list Z) : Z := fold_right Z.add 0 l.

Lemma sumZ_app a b : sumZ (a ++ b) = sumZ a + sumZ b.
Proof. unfold sumZ. induction a as [|x a IH]; cbn [fold_right app] in *; lia. Qed.
Lemma sumZ_repeat x n : sumZ (repeat x n) = Z.of_nat n * x.
Proof. unfold sumZ. induction n as [|n IH]; cbn [fold_right repeat] in *; lia. Qed.
Lemma sumZ_lenZ_concat {A} (ls : list (list A)) : sumZ (map lenZ ls) = lenZ (concat ls).
Proof.
  induction ls as [|l ls IH]; cbn [map sumZ fold_right concat]; [reflexivity|].
  rewrite lenZ_app. fold (sumZ (map lenZ ls)). lia.
Qed.
Lemma fold_left_sumZ {A} (g : Z -> A -> Z) (f : A -> Z) : (forall a x, g a x = a + f x) ->
  forall l a, fold_left g l a = a + sumZ (map f l).
Proof.
  intros Hg l. induction l as [|x l IH]; intros a; cbn [fold_left map sumZ fold_right]; [lia|].
  rewrite IH, Hg. fold (sumZ (map f l)). lia.
Qed.

Lemma firstn_plus {A} (a b : nat) : forall l : list A, firstn (a + b) l = firstn a l ++ firstn b (skipn a l).
Proof.
  induction a as [|a IH]; intros l; [reflexivity|].
  destruct l as [|x l]; cbn [Nat.add firstn skipn app]; [now rewrite firstn_nil | now rewrite IH].
Qed.
Lemma skipn_plus {A} (a b : nat) : forall l : list A, skipn (a + b) l = skipn b (skipn a l).
Proof.
  induction a as [|a IH]; intros l; [reflexivity|].
  destruct l as [|x l]; cbn [Nat.add skipn]; [now rewrite skipn_nil | now rewrite IH].
Qed.
Lemma lenZ_firstn {A} (n : Z) (l : list A) : 0 <= n <= lenZ l -> lenZ (firstn (Z.to_nat n) l) = n.
Proof. intros H. unfold lenZ in *. rewrite firstn_length. lia. Qed.
Lemma lenZ_skipn {A} (n : Z) (l : list A) : 0 <= n <= lenZ l -> lenZ (skipn (Z.to_nat n) l) = lenZ l - n.
Proof. intros H. unfold lenZ in *. rewrite skipn_length. lia. Qed.
Lemma Forall_firstn {A} (P : A -> Prop) n : forall l, Forall P l -> Forall P (firstn n l).
Proof.
  induction n as [|n IH]; intros l H; [constructor|].
  destruct H as [|x l Hx Hl]; cbn [firstn]; constructor; auto.
Qed.
Lemma Forall_skipn {A} (P : A -> Prop) n : forall l, Forall P l -> Forall P (skipn n l).
Proof.
  induction n as [|n IH]; intros l H; [exact H|].
  destruct H as [|x l Hx Hl]; cbn [skipn]; auto.
Qed.

Lemma assocOZ_In {A} k (l : list (option Z * A)) v : assocOZ k l = Some v -> In (k, v) l.
Proof.
  induction l as [|[k' v'] l IH]; cbn [assocOZ]; intros H; [discriminate|].
  destruct (oz_eqb k k') eqn:E.
  - injection H as ->. left. f_equal.
    destruct k as [x|], k' as [y|]; cbn [oz_eqb] in E; try discriminate E; [|reflexivity].
    apply Z.eqb_eq in E. now subst.
  - right; auto.
Qed.

(* ------------------------------------------------------------------------------------------------ *)
(* 1. finite facts about ISO Table 9 (ECC) and the capacity table                                    *)
(* ------------------------------------------------------------------------------------------------ *)
(* one (num_blocks, num_total, num_data) group *)
Definition group_ok (g : Z * Z * Z) : bool :=
  let '(nb, t, d) := g in
  (0 <? nb) && (0 <? d) && (d <? t) && (t <=? 255)
  && match assocZ (t - d) GEN_POLY with Some _ => true | None => false end.

(* one or two groups; with two groups the second one has blocks exactly one data codeword longer and
   the same number of error words ("shorter blocks first") *)
Definition groups_ok (infos : list (Z * Z * Z)) : bool :=
  match infos with
  | [g] => group_ok g
  | [(nb1, t1, d1); (nb2, t2, d2)] =>
      group_ok (nb1, t1, d1) && group_ok (nb2, t2, d2) && (t2 =? t1 + 1) && (d2 =? d1 + 1)
  | _ => false
  end.

Definition data_codewords (infos : list (Z * Z * Z)) : Z :=
  sumZ (map (fun '(nb, t, d) => nb * d) infos).
Definition total_codewords (infos : list (Z * Z * Z)) : Z :=
  sumZ (map (fun '(nb, t, d) => nb * t) infos).

Lemma ecc_table_all :
  forallb (fun '(v, row) =>
    (-3 <=? v) && (v <=? 40) &&
    forallb (fun '(l, infos) =>
      groups_ok infos
      && match capacity v l with
         | Ok c => c =? 8 * data_codewords infos - (if is_m1_m3 v then 4 else 0)
         | Err _ => false end
      && (if v <=? 0 then match infos with [(1, _, _)] => true | _ => false end else true)
      && match ec_infos v l with Ok infos' => true | Err _ => false end) row) ECC = true.
Proof. vm_compute. reflexivity. Qed.

(* every (version, level) with a capacity has an ECC entry *)
Lemma capacity_table_all :
  forallb (fun '(v, row) =>
    forallb (fun '(l, c) => match ec_infos v l with Ok _ => true | Err _ => false end)
            (row : list (option Z * Z))) SYMBOL_CAPACITY = true.
Proof. vm_compute. reflexivity. Qed.

Lemma ec_infos_In v l infos : ec_infos v l = Ok infos ->
  exists row, In (v, row) ECC /\ In (l, infos) row.
Proof.
  unfold ec_infos, getZ, getOZ. destruct (assocZ v ECC) as [row|] eqn:E1; cbn [bind]; [|discriminate].
  destruct (assocOZ l row) as [x|] eqn:E2; [|discriminate]. intros H. injection H as ->.
  exists row. split; [now apply assocZ_In | now apply assocOZ_In].
Qed.

Lemma group_ok_spec nb t d : group_ok (nb, t, d) = true ->
  0 < nb /\ 0 < d < t /\ t <= 255 /\ exists gen, assocZ (t - d) GEN_POLY = Some gen.
Proof.
  unfold group_ok. intros H.
  destruct (assocZ (t - d) GEN_POLY) as [gen|]; [|rewrite andb_false_r in H; discriminate H].
  repeat split; try lia. now exists gen.
Qed.

(* the lifted table facts *)
Theorem ecc_facts : forall v l infos, ec_infos v l = Ok infos ->
  -3 <= v <= 40
  /\ groups_ok infos = true
  /\ capacity v l = Ok (8 * data_codewords infos - (if is_m1_m3 v then 4 else 0))
  /\ (v <= 0 -> exists t d, infos = [(1, t, d)]).
Proof.
  intros v l infos H. destruct (ec_infos_In _ _ _ H) as (row & Hr & Hi).
  pose proof ecc_table_all as T. rewrite forallb_forall in T. specialize (T _ Hr). cbv beta iota in T.
  apply andb_true_iff in T. destruct T as [Tv T]. rewrite forallb_forall in T. specialize (T _ Hi).
  cbv beta iota in T.
  apply andb_true_iff in T. destruct T as [T _].
  apply andb_true_iff in T. destruct T as [T T3].
  apply andb_true_iff in T. destruct T as [T1 T2].
  split; [lia|]. split; [exact T1|]. split.
  - destruct (capacity v l) as [c|]; [|discriminate T2]. f_equal. lia.
  - intros Hv. destruct (v <=? 0) eqn:E; [|lia].
    destruct infos as [|[[nb t] d] rest]; [discriminate T3|].
    destruct nb as [|[?|?|]|]; try discriminate T3.
    destruct rest as [|? ?]; [|discriminate T3]. now exists t, d.
Qed.
Print Assumptions ecc_facts.

Theorem groups_ok_cases infos : groups_ok infos = true ->
  (exists nb t d, infos = [(nb, t, d)] /\ group_ok (nb, t, d) = true)
  \/ (exists nb1 nb2 t d, infos = [(nb1, t, d); (nb2, t + 1, d + 1)]
      /\ group_ok (nb1, t, d) = true /\ group_ok (nb2, t + 1, d + 1) = true).
Proof.
  unfold groups_ok. intros H.
  destruct infos as [|[[nb1 t1] d1] [|[[nb2 t2] d2] [|? ?]]]; try discriminate H.
  - left. now exists nb1, t1, d1.
  - right. exists nb1, nb2, t1, d1.
    apply andb_true_iff in H. destruct H as [H H4]. apply andb_true_iff in H. destruct H as [H H3].
    apply andb_true_iff in H. destruct H as [H1 H2].
    assert (t2 = t1 + 1) as -> by lia. assert (d2 = d1 + 1) as -> by lia. auto.
Qed.

Theorem capacity_has_ecc : forall v l cap, capacity v l = Ok cap -> exists infos, ec_infos v l = Ok infos.
Proof.
  intros v l cap. unfold capacity, getZ, getOZ.
  destruct (assocZ v SYMBOL_CAPACITY) as [row|] eqn:E1; cbn [bind]; [|discriminate].
  destruct (assocOZ l row) as [x|] eqn:E2; [|discriminate]. intros _.
  apply assocZ_In in E1. apply assocOZ_In in E2.
  pose proof capacity_table_all as T. rewrite forallb_forall in T. specialize (T _ E1). cbv beta iota in T.
  rewrite forallb_forall in T. specialize (T _ E2). cbv beta iota in T.
  destruct (ec_infos v l) as [infos|]; [now exists infos | discriminate T].
Qed.
Print Assumptions capacity_has_ecc.

(* ------------------------------------------------------------------------------------------------ *)
(* 2. bits <-> codewords                                                                             *)
(* ------------------------------------------------------------------------------------------------ *)
Lemma byte_of_bits b1 b2 b3 b4 b5 b6 b7 b8 :
  bits_of (int_of_bits [b1; b2; b3; b4; b5; b6; b7; b8]) 8 = [b1; b2; b3; b4; b5; b6; b7; b8]
  /\ elt (int_of_bits [b1; b2; b3; b4; b5; b6; b7; b8]).
Proof.
  destruct b1, b2, b3, b4, b5, b6, b7, b8; vm_compute; (split; [reflexivity | split; [discriminate | reflexivity]]).
Qed.

Lemma take_pad_length n : forall bs, length (take_pad n bs) = n.
Proof. induction n as [|n IH]; intros [|b r]; cbn [take_pad length]; auto. Qed.

Lemma int_of_bits_8_elt l : length l = 8%nat -> elt (int_of_bits l).
Proof.
  intros H. do 8 (destruct l as [|? l]; [discriminate H|]). destruct l; [|discriminate H].
  apply byte_of_bits.
Qed.

Lemma toints_fuel_elt : forall f bs, Forall elt (toints_fuel f bs).
Proof.
  induction f as [|f IH]; intros bs; cbn [toints_fuel]; [constructor|].
  destruct bs as [|b r]; [constructor|]. constructor; [|apply IH].
  apply int_of_bits_8_elt, take_pad_length.
Qed.
Lemma toints_elt bs : Forall elt (toints bs).
Proof. apply toints_fuel_elt. Qed.

(* the fuel of toints is irrelevant once it exceeds the number of bits *)
Lemma toints_fuel_irrel : forall f g bs, (length bs < f)%nat -> (length bs < g)%nat ->
  toints_fuel f bs = toints_fuel g bs.
Proof.
  induction f as [|f IH]; intros g bs Hf Hg; [lia|]. destruct g as [|g]; [lia|].
  cbn [toints_fuel]. destruct bs as [|b r]; [reflexivity|]. f_equal.
  assert (L : (length (skipn 8 (b :: r)) <= length r)%nat) by (rewrite skipn_length; cbn [length]; lia).
  cbn [length] in Hf, Hg. apply IH; lia.
Qed.

Lemma toints_cons8 b1 b2 b3 b4 b5 b6 b7 b8 r :
  toints (b1 :: b2 :: b3 :: b4 :: b5 :: b6 :: b7 :: b8 :: r)
  = int_of_bits [b1; b2; b3; b4; b5; b6; b7; b8] :: toints r.
Proof.
  unfold toints. remember (toints_fuel (S (length r)) r) as rhs eqn:Er.
  cbn [toints_fuel take_pad skipn]. subst rhs. f_equal. apply toints_fuel_irrel; cbn [length]; lia.
Qed.

Definition bits8 (cws : list Z) : list bool := flat_map (fun x => bits_of x 8) cws.

Lemma bits8_app a b : bits8 (a ++ b) = bits8 a ++ bits8 b.
Proof. apply flat_map_app. Qed.
Lemma lenZ_bits8 cws : lenZ (bits8 cws) = 8 * lenZ cws.
Proof. apply fixed_length. lia. Qed.

(* whole codewords *)
Lemma toints_whole : forall (k : nat) bs, length bs = (8 * k)%nat ->
  bits8 (toints bs) = bs /\ length (toints bs) = k.
Proof.
  induction k as [|k IH]; intros bs H.
  - destruct bs; [|discriminate H]. split; reflexivity.
  - do 8 (destruct bs as [|? bs]; [cbn [length] in H; lia|]).
    rewrite toints_cons8. destruct (IH bs) as [I1 I2]; [cbn [length] in H; lia|].
    split.
    + unfold bits8. cbn [flat_map]. fold (bits8 (toints bs)). rewrite I1.
      rewrite (proj1 (byte_of_bits _ _ _ _ _ _ _ _)). reflexivity.
    + cbn [length]. now rewrite I2.
Qed.

Lemma toints_app : forall (k : nat) a b, length a = (8 * k)%nat -> toints (a ++ b) = toints a ++ toints b.
Proof.
  induction k as [|k IH]; intros a b H.
  - destruct a; [|discriminate H]. reflexivity.
  - do 8 (destruct a as [|? a]; [cbn [length] in H; lia|]).
    cbn [app]. rewrite !toints_cons8. cbn [app]. f_equal. apply IH. cbn [length] in H; lia.
Qed.

(* M1/M3: the last data codeword has 4 bits; toints fills it with zero bits *)
Lemma toints_half : forall (k : nat) bs, length bs = (8 * k + 4)%nat ->
  toints bs = toints (bs ++ [false; false; false; false]).
Proof.
  induction k as [|k IH]; intros bs H.
  - do 4 (destruct bs as [|? bs]; [discriminate H|]). destruct bs; [|discriminate H]. reflexivity.
  - do 8 (destruct bs as [|? bs]; [cbn [length] in H; lia|]).
    cbn [app]. rewrite !toints_cons8. f_equal. apply IH. cbn [length] in H; lia.
Qed.

(* item 2 of the task, in Z *)
Theorem toints_bits_roundtrip : forall buff, lenZ buff mod 8 = 0 ->
  flat_map (fun x => bits_of x 8) (toints buff) = buff
  /\ Forall (fun x => 0 <= x <= 255) (toints buff)
  /\ lenZ (toints buff) = lenZ buff / 8.
Proof.
  intros buff H. destruct (toints_whole (Z.to_nat (lenZ buff / 8)) buff) as [H1 H2].
  { unfold lenZ in *. lia. }
  split; [exact H1|]. split.
  - eapply Forall_impl; [|apply toints_elt]. unfold elt. intros; lia.
  - unfold lenZ in *. lia.
Qed.
Print Assumptions toints_bits_roundtrip.

Theorem toints_bits_roundtrip_half : forall buff, lenZ buff mod 8 = 4 ->
  toints buff = toints (buff ++ [false; false; false; false])
  /\ flat_map (fun x => bits_of x 8) (toints buff) = buff ++ [false; false; false; false]
  /\ Forall (fun x => 0 <= x <= 255) (toints buff)
  /\ lenZ (toints buff) = (lenZ buff + 4) / 8.
Proof.
  intros buff H.
  assert (E : toints buff = toints (buff ++ [false; false; false; false])).
  { apply (toints_half (Z.to_nat (lenZ buff / 8))). unfold lenZ in *. lia. }
  split; [exact E|].
  destruct (toints_whole (Z.to_nat ((lenZ buff + 4) / 8)) (buff ++ [false; false; false; false])) as [H1 H2].
  { rewrite app_length. cbn [length]. unfold lenZ in *. lia. }
  rewrite E. split; [exact H1|]. split.
  - eapply Forall_impl; [|apply toints_elt]. unfold elt. intros; lia.
  - unfold lenZ in *. lia.
Qed.
Print Assumptions toints_bits_roundtrip_half.

Lemma bits_of_8_cons x : exists b r, bits_of x 8 = b :: r.
Proof. unfold bits_of. change (Z.to_nat 8) with 8%nat. cbn [bits_of_aux]. eauto. Qed.

Lemma chunks8_bits8 : forall cws fuel, Forall elt cws -> (length cws < fuel)%nat ->
  chunks8 fuel (bits8 cws) = cws.
Proof.
  induction cws as [|c cws IH]; intros fuel He Hf.
  - destruct fuel; reflexivity.
  - destruct fuel as [|fuel]; [lia|]. inversion He as [|? ? Hc Hcws]; subst.
    unfold bits8. cbn [flat_map chunks8]. fold (bits8 cws).
    destruct (bits_of_8_cons c) as (b & r & Eb). rewrite Eb. cbn [app].
    change (b :: r ++ bits8 cws) with ((b :: r) ++ bits8 cws). rewrite <- Eb. clear Eb.
    rewrite firstn_exact, skipn_exact by (rewrite bits_of_length; reflexivity).
    rewrite word_of_bits_of by (unfold elt in Hc; lia).
    f_equal. apply IH; [exact Hcws | cbn [length] in Hf; lia].
Qed.

Theorem chunks8_codewords : forall cws fuel, Forall (fun x => 0 <= x <= 255) cws -> (length cws < fuel)%nat ->
  chunks8 fuel (flat_map (fun x => bits_of x 8) cws) = cws.
Proof.
  intros cws fuel H Hf. apply chunks8_bits8; [|exact Hf].
  eapply Forall_impl; [|exact H]. unfold elt. intros; lia.
Qed.
Print Assumptions chunks8_codewords.

(* ------------------------------------------------------------------------------------------------ *)
(* 3. interleaving round trip (for ANY list of blocks)                                               *)
(* ------------------------------------------------------------------------------------------------ *)
Definition isnil (b : list Z) : bool := match b with [] => true | _ => false end.
Definition hd_list (b : list Z) : list Z := match b with [] => [] | x :: _ => [x] end.
Definition tl_list (b : list Z) : list Z := match b with [] => [] | _ :: r => r end.
Definition heads (blocks : list (list Z)) : list Z := flat_map hd_list blocks.
Definition tails (blocks : list (list Z)) : list (list Z) := map tl_list blocks.
(* blockwise concatenation *)
Definition app2 (acc blocks : list (list Z)) : list (list Z) := map (fun p => fst p ++ snd p) (combine acc blocks).

Lemma interleave_fuel_S f blocks :
  interleave_fuel (S f) blocks
  = if forallb isnil blocks then [] else heads blocks ++ interleave_fuel f (tails blocks).
Proof. reflexivity. Qed.

Definition deal_step : list (list Z) * list Z * list (list Z) * list Z -> Z * list Z ->
                       list (list Z) * list Z * list (list Z) * list Z :=
  fun '(acc', cw', out, ls) '(n, blk) =>
    if 0 <? n then match cw' with
                   | c :: r => (acc', r, out ++ [blk ++ [c]], ls ++ [n - 1])
                   | [] => (acc', [], out ++ [blk], ls ++ [0]) end
    else (acc', cw', out ++ [blk], ls ++ [n]).

Lemma deal_S f lens cw acc :
  deal (S f) lens cw acc
  = if forallb (fun n => n <=? 0) lens then (acc, cw)
    else let '(_, cw2, out, ls) := fold_left deal_step (combine lens acc) (acc, cw, [], []) in
         deal f ls cw2 out.
Proof. reflexivity. Qed.

Lemma deal_step_pos a0 c cw out ls n blk : 0 < n ->
  deal_step (a0, c :: cw, out, ls) (n, blk) = (a0, cw, out ++ [blk ++ [c]], ls ++ [n - 1]).
Proof. intros H. unfold deal_step. destruct (0 <? n) eqn:E; [reflexivity | lia]. Qed.
Lemma deal_step_zero a0 cw out ls n blk : n <= 0 ->
  deal_step (a0, cw, out, ls) (n, blk) = (a0, cw, out ++ [blk], ls ++ [n]).
Proof. intros H. unfold deal_step. destruct (0 <? n) eqn:E; [lia | reflexivity]. Qed.

(* one round of the decoder's distribution consumes exactly the heads emitted by the encoder *)
Lemma deal_step_fold : forall blocks acc a0 rest out ls, length acc = length blocks ->
  fold_left deal_step (combine (map lenZ blocks) acc) (a0, heads blocks ++ rest, out, ls)
  = (a0, rest, out ++ app2 acc (map hd_list blocks), ls ++ map lenZ (tails blocks)).
Proof.
  induction blocks as [|b blocks IH]; intros acc a0 rest out ls Hl.
  - destruct acc; [|discriminate Hl]. cbn. now rewrite !app_nil_r.
  - destruct acc as [|blk acc]; [discriminate Hl|]. injection Hl as Hl.
    cbn [map combine fold_left]. destruct b as [|x r].
    + rewrite deal_step_zero by (unfold lenZ; cbn [length]; lia).
      unfold heads. cbn [flat_map hd_list app]. fold (heads blocks). rewrite IH by exact Hl.
      unfold app2, tails. cbn [map combine hd_list tl_list fst snd]. rewrite app_nil_r, <- !app_assoc. reflexivity.
    + unfold heads. cbn [flat_map hd_list app]. fold (heads blocks).
      rewrite deal_step_pos by (rewrite lenZ_cons; pose proof (lenZ_nonneg r); lia).
      rewrite IH by exact Hl.
      unfold app2, tails. cbn [map combine hd_list tl_list fst snd]. rewrite <- !app_assoc.
      rewrite lenZ_cons. replace (lenZ r + 1 - 1) with (lenZ r) by lia. reflexivity.
Qed.

Lemma forallb_lens_isnil blocks : forallb (fun n => n <=? 0) (map lenZ blocks) = forallb isnil blocks.
Proof.
  induction blocks as [|b blocks IH]; [reflexivity|]. cbn [map forallb]. rewrite IH. f_equal.
  destruct b as [|x r]; [reflexivity|]. rewrite lenZ_cons. pose proof (lenZ_nonneg r). cbn [isnil]. lia.
Qed.

Lemma allnil_app2 : forall blocks acc, forallb isnil blocks = true -> length acc = length blocks ->
  app2 acc blocks = acc.
Proof.
  induction blocks as [|b blocks IH]; intros acc H Hl.
  - destruct acc; [reflexivity | discriminate Hl].
  - destruct acc as [|a acc]; [discriminate Hl|]. injection Hl as Hl.
    cbn [forallb] in H. apply andb_true_iff in H. destruct H as [Hb H].
    destruct b; [|discriminate Hb]. unfold app2. cbn [combine map fst snd]. rewrite app_nil_r. f_equal.
    apply IH; assumption.
Qed.
Lemma allnil_concat : forall blocks, forallb isnil blocks = true -> concat blocks = [].
Proof.
  induction blocks as [|b blocks IH]; intros H; [reflexivity|].
  cbn [forallb] in H. apply andb_true_iff in H. destruct H as [Hb H].
  destruct b; [|discriminate Hb]. cbn [concat app]. auto.
Qed.
Lemma allnil_interleave f blocks : forallb isnil blocks = true -> interleave_fuel f blocks = [].
Proof. intros H. destruct f; [reflexivity|]. rewrite interleave_fuel_S, H. reflexivity. Qed.

Lemma app2_length : forall blocks acc, length acc = length blocks -> length (app2 acc blocks) = length blocks.
Proof. intros blocks acc H. unfold app2. rewrite map_length, combine_length. lia. Qed.

Lemma app2_heads_tails : forall blocks acc, length acc = length blocks ->
  app2 (app2 acc (map hd_list blocks)) (tails blocks) = app2 acc blocks.
Proof.
  induction blocks as [|b blocks IH]; intros acc Hl.
  - destruct acc; [reflexivity | discriminate Hl].
  - destruct acc as [|a acc]; [discriminate Hl|]. injection Hl as Hl.
    unfold app2, tails in *. cbn [map combine fst snd]. rewrite IH by exact Hl. f_equal.
    rewrite <- app_assoc. f_equal. destruct b; reflexivity.
Qed.

Lemma tails_lt f blocks : forallb isnil blocks = false ->
  Forall (fun b => (length b < S f)%nat) blocks -> Forall (fun b : list Z => (length b < f)%nat) (tails blocks).
Proof.
  intros E H. unfold tails. rewrite Forall_map.
  assert (f <> 0%nat).
  { intros ->. assert (forallb isnil blocks = true); [|congruence].
    apply forallb_forall. intros b Hb. rewrite Forall_forall in H. specialize (H _ Hb).
    destruct b; [reflexivity | cbn [length] in H; lia]. }
  eapply Forall_impl; [|exact H]. intros [|x r] Hb; cbn [tl_list length] in *; lia.
Qed.

Lemma lt0_allnil blocks : Forall (fun b : list Z => (length b < 0)%nat) blocks -> blocks = [].
Proof. intros H. destruct H as [|b ? Hb]; [reflexivity | lia]. Qed.

Lemma deal_interleave : forall fuel f blocks acc rest,
  Forall (fun b => (length b < fuel)%nat) blocks -> Forall (fun b => (length b < f)%nat) blocks ->
  length acc = length blocks ->
  deal fuel (map lenZ blocks) (interleave_fuel f blocks ++ rest) acc = (app2 acc blocks, rest).
Proof.
  induction fuel as [|fuel IH]; intros f blocks acc rest H1 H2 Hl.
  - apply lt0_allnil in H1. subst blocks. destruct acc; [|discriminate Hl].
    destruct f; reflexivity.
  - rewrite deal_S, forallb_lens_isnil. destruct (forallb isnil blocks) eqn:E.
    + rewrite allnil_interleave by exact E. rewrite allnil_app2 by assumption. reflexivity.
    + destruct f as [|f]. { apply lt0_allnil in H2. subst blocks. discriminate E. }
      rewrite interleave_fuel_S, E, <- app_assoc, deal_step_fold by exact Hl.
      cbn [app]. rewrite IH.
      * rewrite app2_heads_tails by exact Hl. reflexivity.
      * apply tails_lt; assumption.
      * apply tails_lt; assumption.
      * rewrite app2_length by (rewrite map_length; exact Hl). unfold tails. now rewrite !map_length.
Qed.

Lemma fold_max_nat_ge : forall (blocks : list (list Z)) a,
  (a <= fold_left (fun a b => Nat.max a (length b)) blocks a)%nat
  /\ Forall (fun b => (length b <= fold_left (fun a b => Nat.max a (length b)) blocks a)%nat) blocks.
Proof.
  induction blocks as [|b blocks IH]; intros a; cbn [fold_left]; [split; [lia | constructor]|].
  destruct (IH (Nat.max a (length b))) as [I1 I2]. split; [lia|]. constructor; [lia | exact I2].
Qed.
Lemma fold_max_Z_ge : forall (l : list Z) a,
  a <= fold_left Z.max l a /\ Forall (fun x => x <= fold_left Z.max l a) l.
Proof.
  induction l as [|x l IH]; intros a; cbn [fold_left]; [split; [lia | constructor]|].
  destruct (IH (Z.max a x)) as [I1 I2]. split; [lia|]. constructor; [lia | exact I2].
Qed.

Lemma app2_nils : forall blocks, app2 (map (fun _ => []) (map lenZ blocks)) blocks = blocks.
Proof.
  induction blocks as [|b blocks IH]; [reflexivity|].
  unfold app2 in *. cbn [map combine fst snd app]. now rewrite IH.
Qed.

Lemma interleave_fuel_enough blocks :
  Forall (fun b : list Z => (length b < S (fold_left (fun a b => Nat.max a (length b)) blocks O))%nat) blocks.
Proof.
  eapply Forall_impl; [|apply (fold_max_nat_ge blocks O)]. cbv beta. intros; lia.
Qed.

(* item 3: the decoder's de-interleaving inverts the model's interleaving *)
Theorem deinterleave_interleave : forall blocks rest,
  deinterleave (map lenZ blocks) (interleave blocks ++ rest) = (blocks, rest).
Proof.
  intros blocks rest. unfold deinterleave, interleave.
  rewrite deal_interleave.
  - now rewrite app2_nils.
  - destruct (fold_max_Z_ge (map lenZ blocks) 0) as [G1 G2]. rewrite Forall_map in G2.
    eapply Forall_impl; [|exact G2]. cbv beta. unfold lenZ. intros; lia.
  - apply interleave_fuel_enough.
  - now rewrite !map_length.
Qed.
Print Assumptions deinterleave_interleave.

Corollary deinterleave_interleave_nil : forall blocks,
  deinterleave (map lenZ blocks) (interleave blocks) = (blocks, []).
Proof. intros blocks. rewrite <- (app_nil_r (interleave blocks)) at 1. apply deinterleave_interleave. Qed.

(* the shape named in the task: n, ..., n, n+1, ..., n+1 (shorter blocks first) is a special case *)
Corollary deinterleave_interleave_table9 : forall (n : Z) (blocks1 blocks2 : list (list Z)),
  Forall (fun b => lenZ b = n) blocks1 -> Forall (fun b => lenZ b = n + 1) blocks2 ->
  deinterleave (repeat n (length blocks1) ++ repeat (n + 1) (length blocks2)) (interleave (blocks1 ++ blocks2))
  = (blocks1 ++ blocks2, []).
Proof.
  intros n b1 b2 H1 H2. rewrite <- deinterleave_interleave_nil. f_equal.
  rewrite map_app. f_equal.
  - induction H1 as [|b l Hb Hl IH]; cbn [map length repeat]; [reflexivity | now rewrite Hb, IH].
  - induction H2 as [|b l Hb Hl IH]; cbn [map length repeat]; [reflexivity | now rewrite Hb, IH].
Qed.

(* interleaving is a rearrangement: length and element-wise properties are preserved *)
Lemma heads_tails_length : forall blocks, (length (heads blocks) + length (concat (tails blocks)) = length (concat blocks))%nat.
Proof.
  induction blocks as [|b blocks IH]; [reflexivity|].
  unfold heads, tails in *. cbn [flat_map map concat]. rewrite !app_length.
  destruct b; cbn [hd_list tl_list length]; lia.
Qed.
Lemma interleave_fuel_length : forall f blocks, Forall (fun b => (length b < f)%nat) blocks ->
  length (interleave_fuel f blocks) = length (concat blocks).
Proof.
  induction f as [|f IH]; intros blocks H.
  - apply lt0_allnil in H. now subst.
  - rewrite interleave_fuel_S. destruct (forallb isnil blocks) eqn:E.
    + now rewrite allnil_concat.
    + rewrite app_length, IH by (apply tails_lt; assumption). apply heads_tails_length.
Qed.
Lemma interleave_length blocks : lenZ (interleave blocks) = lenZ (concat blocks).
Proof. unfold lenZ, interleave. f_equal. apply interleave_fuel_length, interleave_fuel_enough. Qed.

Lemma interleave_fuel_Forall (P : Z -> Prop) : forall f blocks, Forall (Forall P) blocks ->
  Forall P (interleave_fuel f blocks).
Proof.
  induction f as [|f IH]; intros blocks H; [constructor|].
  rewrite interleave_fuel_S. destruct (forallb isnil blocks); [constructor|].
  apply Forall_app. split.
  - unfold heads. induction H as [|b l Hb Hl IHl]; cbn [flat_map]; [constructor|].
    apply Forall_app. split; [|exact IHl]. destruct Hb; cbn [hd_list]; auto.
  - apply IH. unfold tails. rewrite Forall_map. eapply Forall_impl; [|exact H].
    intros b Hb. destruct Hb; cbn [tl_list]; auto.
Qed.
Lemma interleave_Forall (P : Z -> Prop) blocks : Forall (Forall P) blocks -> Forall P (interleave blocks).
Proof. apply interleave_fuel_Forall. Qed.

Lemma interleave_fuel_single : forall f (b : list Z), (length b < f)%nat -> interleave_fuel f [b] = b.
Proof.
  induction f as [|f IH]; intros b H; [lia|].
  rewrite interleave_fuel_S. destruct b as [|x r]; [reflexivity|].
  cbn [forallb isnil andb heads flat_map hd_list tails map tl_list app]. f_equal.
  destruct r as [|y r']; [destruct f; reflexivity|].
  apply IH. cbn [length] in *; lia.
Qed.
Lemma interleave_single b : interleave [b] = b.
Proof. unfold interleave. apply interleave_fuel_single. cbn [fold_left]. lia. Qed.

(* ------------------------------------------------------------------------------------------------ *)
(* 4. the model's blocks                                                                             *)
(* ------------------------------------------------------------------------------------------------ *)
(* a data block with its error words: bytes, and a valid Reed-Solomon codeword *)
Definition blockQ (d e : list Z) : Prop :=
  Forall elt d /\ Forall elt e /\ syndromes_zero (lenZ e) (d ++ e) = true.

Lemma blocks_of_info_spec gen nd nec : assocZ nec GEN_POLY = Some gen -> 0 <= nd -> 0 <= nec ->
  forall (n : nat) cw, Forall elt cw -> Z.of_nat n * nd <= lenZ cw ->
  exists ds es, blocks_of_info n nd nec gen cw = Ok (ds, es, skipn (n * Z.to_nat nd) cw)
    /\ concat ds = firstn (n * Z.to_nat nd) cw
    /\ map lenZ ds = repeat nd n /\ map lenZ es = repeat nec n /\ Forall2 blockQ ds es.
Proof.
  intros Hg Hnd Hnec. induction n as [|n IH]; intros cw Hcw Hlen.
  - exists [], []. cbn [blocks_of_info Nat.mul skipn firstn concat map repeat]. repeat split; constructor.
  - cbn [blocks_of_info].
    set (block := firstn (Z.to_nat nd) cw).
    assert (Hb : Forall elt block) by (apply Forall_firstn; exact Hcw).
    destruct (error_words_total nec gen block Hg Hb) as [e He].
    destruct (error_words_valid nec gen block e Hg Hb He) as (Le & Ee & Se).
    rewrite He. cbn [bind].
    assert (Hlen' : Z.of_nat n * nd + nd <= lenZ cw) by lia.
    assert (Hn0 : 0 <= Z.of_nat n * nd) by (apply Z.mul_nonneg_nonneg; lia).
    destruct (IH (skipn (Z.to_nat nd) cw)) as (ds & es & I1 & I2 & I3 & I4 & I5).
    { apply Forall_skipn; exact Hcw. }
    { rewrite lenZ_skipn by lia. lia. }
    rewrite I1. cbn [bind].
    exists (block :: ds), (e :: es).
    assert (Lb : lenZ block = nd) by (apply lenZ_firstn; lia).
    assert (Le' : lenZ e = nec) by (unfold lenZ; lia).
    cbn [Nat.mul]. split; [|split; [|split; [|split]]].
    + rewrite skipn_plus. reflexivity.
    + cbn [concat]. rewrite I2, firstn_plus. reflexivity.
    + cbn [map repeat]. now rewrite Lb, I3.
    + cbn [map repeat]. now rewrite Le', I4.
    + constructor; [|exact I5]. unfold blockQ. rewrite Le'. auto.
Qed.

(* Table 9 rows expanded into one (total, data) pair per block, as in Decoder.block_shapes *)
Definition shapes_of (infos : list (Z * Z * Z)) : list (Z * Z) :=
  flat_map (fun '(nb, tot, dat) => repeat (tot, dat) (Z.to_nat nb)) infos.
Definition info_ok (g : Z * Z * Z) : Prop :=
  let '(nb, t, d) := g in 0 <= nb /\ 0 < d < t /\ t <= 255 /\ exists gen, assocZ (t - d) GEN_POLY = Some gen.

Lemma shapes_of_cons nb t d infos :
  shapes_of ((nb, t, d) :: infos) = repeat (t, d) (Z.to_nat nb) ++ shapes_of infos.
Proof. reflexivity. Qed.

Lemma map_repeat' {A B} (f : A -> B) x n : map f (repeat x n) = repeat (f x) n.
Proof. induction n as [|n IH]; cbn [repeat map]; [reflexivity | now rewrite IH]. Qed.

Lemma shapes_data_nonneg infos : Forall info_ok infos -> 0 <= sumZ (map snd (shapes_of infos)).
Proof.
  intros H. induction H as [|[[nb t] d] l (Hnb & Hd & _) Hl IHl]; [cbn; lia|].
  rewrite shapes_of_cons, map_app, map_repeat', sumZ_app, sumZ_repeat. cbn [snd].
  assert (0 <= Z.of_nat (Z.to_nat nb) * d) by (apply Z.mul_nonneg_nonneg; lia). lia.
Qed.

Lemma make_blocks_aux_spec : forall infos cw, Forall info_ok infos -> Forall elt cw ->
  sumZ (map snd (shapes_of infos)) <= lenZ cw ->
  exists ds es, make_blocks_aux infos cw = Ok (ds, es)
    /\ concat ds = firstn (Z.to_nat (sumZ (map snd (shapes_of infos)))) cw
    /\ map lenZ ds = map snd (shapes_of infos)
    /\ map lenZ es = map (fun '(t, d) => t - d) (shapes_of infos)
    /\ Forall2 blockQ ds es.
Proof.
  induction infos as [|[[nb t] d] infos IH]; intros cw Hok Hcw Hlen.
  - exists [], []. cbn [make_blocks_aux shapes_of flat_map map sumZ fold_right concat]. repeat split; constructor.
  - inversion Hok as [|? ? Hg Hrest]; subst. destruct Hg as (Hnb & Hd & Ht & gen & Hgen).
    rewrite shapes_of_cons, !map_app, !map_repeat' in *. cbn [snd] in *.
    rewrite sumZ_app, sumZ_repeat in *.
    pose proof (shapes_data_nonneg infos Hrest) as G.
    set (S2 := sumZ (map snd (shapes_of infos))) in *.
    assert (Hn0 : 0 <= Z.of_nat (Z.to_nat nb) * d) by (apply Z.mul_nonneg_nonneg; lia).
    cbn [make_blocks_aux]. unfold getZ. rewrite Hgen. cbn [bind].
    destruct (blocks_of_info_spec gen d (t - d) Hgen ltac:(lia) ltac:(lia) (Z.to_nat nb) cw Hcw)
      as (ds & es & B1 & B2 & B3 & B4 & B5).
    { lia. }
    rewrite B1. cbn [bind].
    set (n1 := (Z.to_nat nb * Z.to_nat d)%nat) in *.
    assert (Hn1 : Z.of_nat n1 = Z.of_nat (Z.to_nat nb) * d) by (subst n1; lia).
    destruct (IH (skipn n1 cw)) as (ds2 & es2 & I1 & I2 & I3 & I4 & I5).
    { exact Hrest. }
    { apply Forall_skipn; exact Hcw. }
    { unfold lenZ in *. rewrite skipn_length. lia. }
    rewrite I1. cbn [bind].
    exists (ds ++ ds2), (es ++ es2). split; [reflexivity|]. split; [|split; [|split]].
    + rewrite concat_app, B2, I2.
      replace (Z.to_nat (Z.of_nat (Z.to_nat nb) * d + S2)) with (n1 + Z.to_nat S2)%nat by lia.
      now rewrite firstn_plus.
    + now rewrite map_app, B3, I3.
    + now rewrite map_app, B4, I4.
    + apply Forall2_app; assumption.
Qed.

(* ------------------------------------------------------------------------------------------------ *)
(* 5. the decoder's block reader on a stream built from blocks                                       *)
(* ------------------------------------------------------------------------------------------------ *)
Lemma sumZ_fst_split (l : list (Z * Z)) :
  sumZ (map fst l) = sumZ (map snd l) + sumZ (map (fun '(t, d) => t - d) l).
Proof. unfold sumZ. induction l as [|[t d] l IH]; cbn [map fold_right fst snd] in *; lia. Qed.
Lemma sumZ_map_mul8 {A} (f : A -> Z) l : sumZ (map (fun x => 8 * f x) l) = 8 * sumZ (map f l).
Proof. unfold sumZ. induction l as [|x l IH]; cbn [map fold_right] in *; lia. Qed.

Lemma fold_shapes_data (shapes : list (Z * Z)) :
  fold_left (fun a '(t, d) => a + d) shapes 0 = sumZ (map snd shapes).
Proof. rewrite (fold_left_sumZ _ snd); [lia|]. intros a [t d]; reflexivity. Qed.
Lemma fold_shapes_ec (shapes : list (Z * Z)) :
  fold_left (fun a '(t, d) => a + (t - d)) shapes 0 = sumZ (map (fun '(t, d) => t - d) shapes).
Proof. rewrite (fold_left_sumZ _ (fun '(t, d) => t - d)); [lia|]. intros a [t d]; reflexivity. Qed.
Lemma fold_shapes_data8 (shapes : list (Z * Z)) :
  fold_left (fun a '(t, d) => a + 8 * d) shapes 0 = 8 * sumZ (map snd shapes).
Proof.
  rewrite (fold_left_sumZ _ (fun x => 8 * snd x)); [rewrite sumZ_map_mul8; lia|]. intros a [t d]; reflexivity.
Qed.
Lemma fold_shapes_total8 (shapes : list (Z * Z)) :
  fold_left (fun a '(t, d) => a + 8 * t) shapes 0 = 8 * sumZ (map fst shapes).
Proof.
  rewrite (fold_left_sumZ _ (fun x => 8 * fst x)); [rewrite sumZ_map_mul8; lia|]. intros a [t d]; reflexivity.
Qed.

Lemma read_blocks_core v l ds es dbits rest :
  map lenZ ds = map snd (block_shapes v l) ->
  map lenZ es = map (fun '(t, d) => t - d) (block_shapes v l) ->
  Forall (Forall elt) ds -> Forall (Forall elt) es ->
  (if (v =? -3) || (v =? -1) then dbits ++ [false; false; false; false] else dbits) = bits8 (interleave ds) ->
  read_blocks v l (dbits ++ bits8 (interleave es) ++ rest)
  = {| rb_data := ds; rb_ec := es; rb_rest := rest |}.
Proof.
  intros Hds Hes Eds Ees Hbits.
  assert (E1 : fold_left (fun a '(t, d) => a + d) (block_shapes v l) 0 = lenZ (interleave ds)).
  { rewrite fold_shapes_data, <- Hds, sumZ_lenZ_concat, interleave_length. reflexivity. }
  assert (E2 : fold_left (fun a '(t, d) => a + (t - d)) (block_shapes v l) 0 = lenZ (interleave es)).
  { rewrite fold_shapes_ec, <- Hes, sumZ_lenZ_concat, interleave_length. reflexivity. }
  pose proof (interleave_Forall elt ds Eds) as Fd. pose proof (interleave_Forall elt es Ees) as Fe.
  unfold read_blocks. cbv zeta. rewrite E1, E2, <- Hds, <- Hes.
  set (N := lenZ (interleave ds)) in *. set (M := lenZ (interleave es)) in *.
  assert (LN : lenZ (bits8 (interleave ds)) = 8 * N) by apply lenZ_bits8.
  assert (LM : lenZ (bits8 (interleave es)) = 8 * M) by apply lenZ_bits8.
  assert (N0 : 0 <= N) by apply lenZ_nonneg. assert (M0 : 0 <= M) by apply lenZ_nonneg.
  set (short := (v =? -3) || (v =? -1)) in *.
  assert (Ld : lenZ dbits = if short then N * 8 - 4 else N * 8).
  { destruct short; rewrite <- Hbits in LN; [rewrite lenZ_app in LN; change (lenZ [false; false; false; false]) with 4 in LN|]; lia. }
  rewrite (firstn_exact dbits) by (unfold lenZ in Ld; lia).
  rewrite (skipn_exact dbits) by (unfold lenZ in Ld; lia).
  rewrite Hbits.
  rewrite (firstn_exact (bits8 (interleave es))) by (unfold lenZ in LM; lia).
  rewrite (skipn_exact (bits8 (interleave es))) by (unfold lenZ in LM; lia).
  rewrite !chunks8_bits8.
  - rewrite !deinterleave_interleave_nil. reflexivity.
  - exact Fe.
  - rewrite app_length. unfold lenZ in *. lia.
  - exact Fd.
  - destruct short; unfold lenZ in *; lia.
Qed.

Lemma bits_of_8_split x : bits_of x 8 = bits_of (Z.shiftr x 4) 4 ++ bits_of x 4.
Proof.
  unfold bits_of. change (Z.to_nat 8) with 8%nat. change (Z.to_nat 4) with 4%nat.
  cbn [bits_of_aux app]. rewrite !Z.shiftr_spec by (cbn; lia). reflexivity.
Qed.

Lemma bits_of_codewords_bits8 v cws :
  bits_of_codewords v cws
  = if (v =? -3) || (v =? -1) then firstn (length (bits8 cws) - 4) (bits8 cws) else bits8 cws.
Proof. reflexivity. Qed.

Lemma ec_infos_blocks v l infos : ec_infos v (level_code l) = Ok infos ->
  ec_blocks v l = infos /\ block_shapes v l = shapes_of infos.
Proof.
  unfold ec_infos, getZ, getOZ, block_shapes, ec_blocks.
  destruct (assocZ v ECC) as [row|]; cbn [bind]; [|discriminate].
  destruct (assocOZ (level_code l) row) as [x|]; [|discriminate]. intros H. injection H as ->.
  split; reflexivity.
Qed.

Lemma groups_info_ok infos : groups_ok infos = true -> Forall info_ok infos.
Proof.
  intros H. destruct (groups_ok_cases infos H) as [(nb & t & d & -> & G)|(nb1 & nb2 & t & d & -> & G1 & G2)].
  - apply group_ok_spec in G. destruct G as (? & ? & ? & ?). constructor; [|constructor].
    unfold info_ok. repeat split; try lia; assumption.
  - apply group_ok_spec in G1, G2. destruct G1 as (? & ? & ? & ?), G2 as (? & ? & ? & ?).
    constructor; [|constructor; [|constructor]]; unfold info_ok; repeat split; try lia; assumption.
Qed.

Lemma shapes_data_codewords infos : Forall info_ok infos ->
  sumZ (map snd (shapes_of infos)) = data_codewords infos.
Proof.
  unfold data_codewords. intros H. induction H as [|[[nb t] d] l (Hnb & _) Hl IHl]; [reflexivity|].
  rewrite shapes_of_cons, map_app, map_repeat', sumZ_app, sumZ_repeat, IHl. unfold sumZ. cbn [snd map fold_right].
  rewrite Z2Nat.id by lia. reflexivity.
Qed.

Lemma shapes_bounds infos : Forall info_ok infos -> Forall (fun '(t, d) => 0 < d < t /\ t <= 255) (shapes_of infos).
Proof.
  intros H. induction H as [|[[nb t] d] l (Hnb & Hd & Ht & _) Hl IHl]; [constructor|].
  rewrite shapes_of_cons. apply Forall_app. split; [|exact IHl].
  apply Forall_forall. intros x Hx. apply repeat_spec in Hx. subst x. lia.
Qed.

Lemma remainder_bits_nonneg v : 0 <= remainder_bits v <= 7.
Proof.
  unfold remainder_bits.
  destruct (memZ v [2; 3; 4; 5; 6]); [lia|].
  destruct (memZ v [14; 15; 16; 17; 18; 19; 20; 28; 29; 30; 31; 32; 33; 34]); [lia|].
  destruct (memZ v [21; 22; 23; 24; 25; 26; 27]); lia.
Qed.

Lemma Forall2_blockQ_elt ds es : Forall2 blockQ ds es ->
  Forall (Forall elt) ds /\ Forall (Forall elt) es
  /\ Forall (fun '(d, e) => syndromes_zero (lenZ e) (d ++ e) = true) (combine ds es).
Proof.
  intros H. induction H as [|d e ds es (Q1 & Q2 & Q3) H IH]; [repeat split; constructor|].
  destruct IH as (I1 & I2 & I3). cbn [combine]. repeat split; constructor; assumption.
Qed.

(* ------------------------------------------------------------------------------------------------ *)
(* 6. the data codewords taken from the bit stream                                                   *)
(* ------------------------------------------------------------------------------------------------ *)
(* only the first N codewords (the first cap bits) of the stream matter *)
Lemma data_codewords_of_buff (short : bool) (N : Z) (buff : list bool) :
  0 <= N ->
  8 * N - (if short then 4 else 0) <= lenZ buff ->
  (short = true -> lenZ buff = 8 * N - 4) ->
  N <= lenZ (toints buff)
  /\ bits8 (firstn (Z.to_nat N) (toints buff))
     = firstn (Z.to_nat (8 * N - (if short then 4 else 0))) buff
       ++ (if short then [false; false; false; false] else []).
Proof.
  intros HN Hle Hs. pose proof (lenZ_nonneg buff) as Hb0. destruct short.
  - specialize (Hs eq_refl).
    assert (E : toints buff = toints (buff ++ [false; false; false; false])).
    { apply (toints_half (Z.to_nat (N - 1))). unfold lenZ in *. lia. }
    destruct (toints_whole (Z.to_nat N) (buff ++ [false; false; false; false])) as [W1 W2].
    { rewrite app_length. cbn [length]. unfold lenZ in *. lia. }
    rewrite E. split; [unfold lenZ; lia|].
    rewrite !firstn_all2 by (unfold lenZ in *; lia). exact W1.
  - set (a := firstn (Z.to_nat (8 * N)) buff). set (b := skipn (Z.to_nat (8 * N)) buff).
    assert (La : length a = (8 * Z.to_nat N)%nat).
    { subst a. rewrite firstn_length. unfold lenZ in *. lia. }
    assert (E : toints buff = toints a ++ toints b).
    { rewrite <- (toints_app (Z.to_nat N) a b La). f_equal. symmetry. apply firstn_skipn. }
    destruct (toints_whole (Z.to_nat N) a La) as [W1 W2].
    rewrite E. split.
    + unfold lenZ. rewrite app_length. lia.
    + rewrite firstn_exact by exact W2. rewrite W1, app_nil_r. subst a. do 2 f_equal. lia.
Qed.

(* ------------------------------------------------------------------------------------------------ *)
(* 7. main lemma                                                                                     *)
(* ------------------------------------------------------------------------------------------------ *)
Lemma is_m1_m3_short v : is_m1_m3 v = ((v =? -3) || (v =? -1)).
Proof. reflexivity. Qed.

Lemma final_message_blocks : forall version lvl infos buff tail,
  ec_infos version (level_code lvl) = Ok infos ->
  iso_capacity version lvl <= lenZ buff ->
  (is_m1_m3 version = true -> lenZ buff = iso_capacity version lvl) ->
  exists ds es final,
    make_blocks infos buff = Ok (ds, es)
    /\ make_final_message version (level_code lvl) buff = Ok final
    /\ capacity version (level_code lvl) = Ok (iso_capacity version lvl)
    /\ concat ds = firstn (Z.to_nat (sumZ (map snd (block_shapes version lvl)))) (toints buff)
    /\ bits8 (concat ds) = firstn (Z.to_nat (iso_capacity version lvl)) buff
                           ++ (if is_m1_m3 version then [false; false; false; false] else [])
    /\ map lenZ ds = map snd (block_shapes version lvl)
    /\ map lenZ es = map (fun '(t, d) => t - d) (block_shapes version lvl)
    /\ Forall2 blockQ ds es
    /\ read_blocks version lvl (final ++ tail)
       = {| rb_data := ds; rb_ec := es; rb_rest := zeros (remainder_bits version) ++ tail |}
    /\ lenZ final = fold_left (fun a '(t, d) => a + 8 * t) (block_shapes version lvl) 0
                    - (if is_m1_m3 version then 4 else 0) + remainder_bits version.
Proof.
  intros version lvl infos buff tail Hinfos Hle Hexact.
  destruct (ecc_facts _ _ _ Hinfos) as (Hv & Hg & Hcap & Hmicro).
  pose proof (groups_info_ok _ Hg) as Hok.
  destruct (ec_infos_blocks _ _ _ Hinfos) as [_ Hshapes].
  pose proof (shapes_data_nonneg infos Hok) as HN0.
  pose proof (shapes_data_codewords infos Hok) as HNd.
  assert (Hic : iso_capacity version lvl
                = 8 * sumZ (map snd (shapes_of infos)) - (if is_m1_m3 version then 4 else 0)).
  { unfold iso_capacity. rewrite fold_shapes_data8, Hshapes, <- is_m1_m3_short. reflexivity. }
  rewrite fold_shapes_total8, sumZ_fst_split, Hshapes. rewrite Hic in *. rewrite <- HNd in Hcap.
  set (N := sumZ (map snd (shapes_of infos))) in *.
  set (M := sumZ (map (fun '(t, d) => t - d) (shapes_of infos))).
  destruct (data_codewords_of_buff (is_m1_m3 version) N buff HN0 Hle) as (HN & Hbits).
  { intros Es. rewrite Es in Hexact. apply Hexact. reflexivity. }
  destruct (make_blocks_aux_spec infos (toints buff) Hok (toints_elt _) HN) as (ds & es & M1 & M2 & M3 & M4 & M5).
  fold N in M2. rewrite <- M2 in Hbits.
  destruct (Forall2_blockQ_elt _ _ M5) as (Eds & Ees & _).
  assert (Les : lenZ (bits8 (interleave es)) = 8 * M).
  { rewrite lenZ_bits8, interleave_length, <- sumZ_lenZ_concat, M4. reflexivity. }
  assert (Lds : lenZ (concat ds) = N) by (rewrite <- sumZ_lenZ_concat, M3; reflexivity).
  pose proof (remainder_bits_nonneg version) as Hrem.
  assert (Lz : lenZ (zeros (remainder_bits version)) = remainder_bits version).
  { unfold zeros, lenZ. rewrite repeat_length. lia. }
  unfold make_final_message. change (flat_map (fun x : Z => bits_of x 8)) with bits8. rewrite Hinfos. cbn [bind]. unfold make_blocks at 2. rewrite M1. cbn [bind].
  destruct (is_m1_m3 version) eqn:Es.
  - (* M1 / M3: a single block, the last data codeword has four bits *)
    assert (Hv0 : version <= 0).
    { unfold is_m1_m3, VERSION_M1, VERSION_M3 in Es. lia. }
    destruct (Hmicro Hv0) as (t & d & ->).
    change (shapes_of [(1, t, d)]) with [(t, d)] in *. cbn [map snd] in M3.
    destruct ds as [|b0 [|? ?]]; try discriminate M3. injection M3 as Lb0.
    cbn [concat] in *. rewrite app_nil_r in *.
    pose proof (Forall_inv Hok) as Hg1. destruct Hg1 as (_ & Hd & _).
    specialize (Hexact eq_refl).
    rewrite firstn_all2 in Hbits by (unfold lenZ in *; lia).
    destruct (rev b0) as [|last front] eqn:Er.
    { exfalso. apply (f_equal (@rev Z)) in Er. rewrite rev_involutive in Er. cbn [rev] in Er. rewrite Er in Lb0.
      change (lenZ (@nil Z)) with 0 in Lb0. lia. }
    assert (Eb0 : b0 = rev front ++ [last]).
    { apply (f_equal (@rev Z)) in Er. rewrite rev_involutive in Er. exact Er. }
    assert (Esplit : bits8 b0 = (bits8 (rev front) ++ bits_of (Z.shiftr last 4) 4) ++ bits_of last 4).
    { rewrite Eb0, bits8_app. unfold bits8 at 2. cbn [flat_map]. rewrite app_nil_r, bits_of_8_split.
      now rewrite app_assoc. }
    destruct (app_inj_len (bits8 (rev front) ++ bits_of (Z.shiftr last 4) 4) buff
                          (bits_of last 4) [false; false; false; false]) as [D1 D2].
    { pose proof (f_equal (@length bool) Hbits) as HL. rewrite Esplit, !app_length in HL.
      rewrite !app_length. rewrite (bits_of_length last 4) in HL. cbn [length] in HL.
      change (Z.to_nat 4) with 4%nat in HL. lia. }
    { rewrite <- Esplit. exact Hbits. }
    exists [b0], es. eexists. split; [exact M1|]. split; [reflexivity|].
    split; [exact Hcap|]. split; [cbn [concat]; rewrite app_nil_r; exact M2|].
    split; [cbn [concat]; rewrite app_nil_r, firstn_all2 by (unfold lenZ in *; lia); exact Hbits|].
    split; [cbn [map snd]; now rewrite Lb0|]. split; [exact M4|].
    split; [exact M5|]. split.
    + rewrite interleave_single, <- !app_assoc.
      rewrite (app_assoc (bits8 (rev front))).
      apply read_blocks_core.
      * rewrite Hshapes. cbn [map snd]. now rewrite Lb0.
      * rewrite Hshapes. exact M4.
      * exact Eds.
      * exact Ees.
      * rewrite <- is_m1_m3_short, Es, interleave_single, Esplit, D2. reflexivity.
    + rewrite interleave_single, app_assoc, D1, !lenZ_app, Les, Lz. lia.
  - exists ds, es. eexists. split; [exact M1|]. split; [reflexivity|].
    split; [exact Hcap|]. split; [exact M2|]. split; [exact Hbits|].
    split; [exact M3|]. split; [exact M4|].
    split; [exact M5|]. split.
    + cbn [app]. rewrite <- !app_assoc.
      apply read_blocks_core.
      * rewrite Hshapes. exact M3.
      * rewrite Hshapes. exact M4.
      * exact Eds.
      * exact Ees.
      * rewrite <- is_m1_m3_short, Es. reflexivity.
    + cbn [app]. rewrite !lenZ_app, Les, Lz, lenZ_bits8, interleave_length, Lds. lia.
Qed.

(* ------------------------------------------------------------------------------------------------ *)
(* 8. the theorems                                                                                   *)
(* ------------------------------------------------------------------------------------------------ *)
(* the capacity table is Table 9 in bits: SYMBOL_CAPACITY[v][l] = 8 * (data codewords) - (4 for M1/M3) *)
Theorem capacity_iso : forall version lvl cap,
  capacity version (level_code lvl) = Ok cap -> cap = iso_capacity version lvl.
Proof.
  intros version lvl cap Hc. destruct (capacity_has_ecc _ _ _ Hc) as [infos Hinfos].
  destruct (ecc_facts _ _ _ Hinfos) as (_ & Hg & Hcap & _).
  destruct (ec_infos_blocks _ _ _ Hinfos) as [_ Hshapes].
  rewrite Hcap in Hc. injection Hc as <-.
  unfold iso_capacity. rewrite fold_shapes_data8, Hshapes, shapes_data_codewords, <- is_m1_m3_short by
    (apply groups_info_ok; exact Hg). reflexivity.
Qed.
Print Assumptions capacity_iso.

Lemma shapes_total_codewords infos : Forall info_ok infos ->
  sumZ (map fst (shapes_of infos)) = total_codewords infos.
Proof.
  unfold total_codewords. intros H. induction H as [|[[nb t] d] l (Hnb & _) Hl IHl]; [reflexivity|].
  rewrite shapes_of_cons, map_app, map_repeat', sumZ_app, sumZ_repeat, IHl. unfold sumZ. cbn [fst map fold_right].
  rewrite Z2Nat.id by lia. reflexivity.
Qed.

Theorem read_blocks_of_final_message : forall version error lvl buff cap final tail,
  -3 <= version <= 40 -> level_code lvl = error ->
  capacity version error = Ok cap ->
  cap <= lenZ buff ->
  (is_m1_m3 version = true -> lenZ buff = cap) ->
  make_final_message version error buff = Ok final ->
  let rb := read_blocks version lvl (final ++ tail) in
  let shapes := block_shapes version lvl in
  let ndata := fold_left (fun a '(t, d) => a + d) shapes 0 in
  (* the capacity is the one of Table 9 *)
  cap = iso_capacity version lvl
  (* the decoder recovers exactly the model's data blocks and error blocks *)
  /\ (exists infos, ec_infos version error = Ok infos
                    /\ make_blocks infos buff = Ok (rb_data rb, rb_ec rb))
  (* the data codewords come back; only the first [ndata] codewords / [cap] bits of buff are used *)
  /\ concat (rb_data rb) = firstn (Z.to_nat ndata) (toints buff)
  /\ flat_map (fun x => bits_of x 8) (concat (rb_data rb))
     = firstn (Z.to_nat cap) buff ++ (if is_m1_m3 version then [false; false; false; false] else [])
  /\ bits_of_codewords version (concat (rb_data rb)) = firstn (Z.to_nat cap) buff
  (* C03: every block is a valid Reed-Solomon codeword *)
  /\ Forall (fun '(d, e) => syndromes_zero (lenZ e) (d ++ e) = true) (combine (rb_data rb) (rb_ec rb))
  (* layout of Table 9 *)
  /\ map lenZ (rb_data rb) = map snd shapes
  /\ map lenZ (rb_ec rb) = map (fun '(t, d) => t - d) shapes
  /\ Forall (fun '(t, d) => 0 < d < t /\ t <= 255) shapes
  /\ Forall (Forall (fun x => 0 <= x <= 255)) (rb_data rb)
  /\ Forall (Forall (fun x => 0 <= x <= 255)) (rb_ec rb)
  (* remainder bits are zero, nothing else is consumed *)
  /\ rb_rest rb = repeat false (Z.to_nat (remainder_bits version)) ++ tail.
Proof.
  intros version error lvl buff cap final tail _ <- Hc Hle Hexact Hfinal.
  pose proof (capacity_iso _ _ _ Hc) as ->.
  destruct (capacity_has_ecc _ _ _ Hc) as [infos Hinfos].
  destruct (final_message_blocks version lvl infos buff tail Hinfos Hle Hexact)
    as (ds & es & final' & F1 & F2 & _ & F4 & F5 & F6 & F7 & F8 & F9 & _).
  rewrite F2 in Hfinal. injection Hfinal as ->.
  cbv zeta. rewrite F9. cbn [rb_data rb_ec rb_rest].
  destruct (Forall2_blockQ_elt _ _ F8) as (Eds & Ees & Hsyn).
  destruct (ecc_facts _ _ _ Hinfos) as (_ & Hg & _ & _).
  destruct (ec_infos_blocks _ _ _ Hinfos) as [_ Hshapes].
  assert (Helt : forall bs, Forall (Forall elt) bs -> Forall (Forall (fun x => 0 <= x <= 255)) bs).
  { intros bs Hbs. eapply Forall_impl; [|exact Hbs]. intros b Hb.
    eapply Forall_impl; [|exact Hb]. unfold elt. intros; lia. }
  split; [reflexivity|]. split; [exists infos; split; assumption|].
  split; [rewrite fold_shapes_data; exact F4|]. split; [exact F5|]. split.
  { rewrite bits_of_codewords_bits8, F5, <- is_m1_m3_short. destruct (is_m1_m3 version).
    - rewrite app_length. cbn [length].
      replace (length (firstn (Z.to_nat (iso_capacity version lvl)) buff) + 4 - 4)%nat
        with (length (firstn (Z.to_nat (iso_capacity version lvl)) buff)) by lia.
      apply firstn_exact. reflexivity.
    - apply app_nil_r. }
  split; [exact Hsyn|]. split; [exact F6|]. split; [exact F7|].
  split; [rewrite Hshapes; apply shapes_bounds, groups_info_ok; exact Hg|].
  split; [apply Helt; exact Eds|]. split; [apply Helt; exact Ees|]. reflexivity.
Qed.
Print Assumptions read_blocks_of_final_message.

Theorem make_final_message_total : forall version error lvl buff cap,
  -3 <= version <= 40 -> level_code lvl = error ->
  capacity version error = Ok cap ->
  cap <= lenZ buff ->
  (is_m1_m3 version = true -> lenZ buff = cap) ->
  exists final infos,
    make_final_message version error buff = Ok final
    /\ ec_infos version error = Ok infos
    /\ lenZ final = fold_left (fun a '(t, d) => a + 8 * t) (block_shapes version lvl) 0
                    - (if is_m1_m3 version then 4 else 0) + remainder_bits version
    /\ lenZ final = 8 * total_codewords infos - (if is_m1_m3 version then 4 else 0) + remainder_bits version.
Proof.
  intros version error lvl buff cap _ <- Hc Hle Hexact.
  pose proof (capacity_iso _ _ _ Hc) as ->.
  destruct (capacity_has_ecc _ _ _ Hc) as [infos Hinfos].
  destruct (final_message_blocks version lvl infos buff [] Hinfos Hle Hexact)
    as (ds & es & final & _ & F2 & _ & _ & _ & _ & _ & _ & _ & F10).
  exists final, infos. split; [exact F2|]. split; [exact Hinfos|]. split; [exact F10|].
  rewrite F10, fold_shapes_total8.
  destruct (ecc_facts _ _ _ Hinfos) as (_ & Hg & _ & _).
  destruct (ec_infos_blocks _ _ _ Hinfos) as [_ Hshapes].
  rewrite Hshapes, shapes_total_codewords by (apply groups_info_ok; exact Hg). reflexivity.
Qed.
Print Assumptions make_final_message_total.

(* The exactness hypothesis for M1/M3 is necessary: with surplus bits (28 >= 20, 28 mod 8 = 4) the model
   computes the error words over the full third codeword 11111111 but emits only its upper half, so the
   block read back (255, 255, 240) is not a Reed-Solomon codeword and differs from the model's block. *)
Lemma m1_surplus_counterexample :
  let buff := repeat true 28 in
  capacity (-3) None = Ok 20 /\ lenZ buff mod 8 = 4 /\
  exists final, make_final_message (-3) None buff = Ok final /\
    let rb := read_blocks (-3) None final in
    rb_data rb = [[255; 255; 240]] /\ firstn 3 (toints buff) = [255; 255; 255] /\
    forallb (fun '(d, e) => syndromes_zero (lenZ e) (d ++ e)) (combine (rb_data rb) (rb_ec rb)) = false.
Proof. vm_compute. split; [reflexivity|]. split; [reflexivity|]. eexists. repeat split; reflexivity. Qed.
