(* Round trips for the text-like serializers (Model/TextFmt.v) through the independent readers
   (Ref/TextFmtReader.v): TXT, XBM, XPM, ANSI terminal, compact (half-block) terminal.
   For a 0/1 matrix of side size > 0, scale >= 1, border >= 0 or default, every reader recovers exactly
   the picture prescribed by Ref/Pixel.v; the refusals (ValueError) are characterised exactly. *)
From Coq Require Import ZArith List Bool Lia ZifyBool QArith.
From Coq Require String Ascii.
Import Coq.Strings.String.StringSyntax.
From Segno Require Import Base.PyLite Base.PyCase Ref.IsoData Ref.Pixel Model.Iter Model.Color Model.TextFmt Ref.TextFmtReader.
From Segno Require Import Lemmas.IterLemmas.
Import ListNotations.
Open Scope Z_scope.
Ltac Zify.zify_post_hook ::= Z.to_euclidean_division_equations.

(* ------------------------------------------------------------------------------------------------ *)
(** * 0. Generalities *)

Definition bit01 (c : Z) : Prop := c = 0 \/ c = 1.
Definition bits (m : list (list Z)) : Prop := Forall (Forall bit01) m.

(* the border argument is refused *)
Definition border_refused (border : option Z) : bool :=
  match border with Some b => b <? 0 | None => false end.
(* the quiet zone the specification prescribes *)
Definition spec_border (size : Z) (border : option Z) : Z :=
  match border with Some b => b | None => default_border size end.
(* the sizes on which segno's default agrees with the specification: every symbol size (11..17, 21..177) *)
Definition default_ok (size : Z) (border : option Z) : Prop :=
  border = None -> size <= 17 \/ 21 <= size.

Lemma check_border_z border :
  check_valid_border (oborder border) = if border_refused border then Err ValueError else Ok tt.
Proof.
  destruct border as [b|]; cbn [oborder option_map check_valid_border border_refused]; [|reflexivity].
  cbn [py_int q_of]. unfold q_ltz.
  assert (E1 : Qeq_bool (inject_Z b) (inject_Z b) = true) by (apply Qeq_bool_iff; reflexivity).
  rewrite E1. cbn [negb orb].
  destruct (Qle_bool (inject_Z 0) (inject_Z b)) eqn:E2; destruct (b <? 0) eqn:E3; try reflexivity; exfalso.
  - apply Qle_bool_iff in E2. rewrite <- Zle_Qle in E2. lia.
  - assert (H : Qle_bool (inject_Z 0) (inject_Z b) = true) by (apply Qle_bool_iff; rewrite <- Zle_Qle; lia).
    rewrite H in E2. discriminate.
Qed.

Lemma get_border_spec size border :
  default_ok size border -> get_border size size border = spec_border size border.
Proof.
  intros H. destruct border as [b|]; cbn [get_border spec_border]; [reflexivity|].
  apply default_border_agrees. apply H. reflexivity.
Qed.

Lemma spec_border_nonneg size border : border_refused border = false -> 0 <= spec_border size border.
Proof.
  destruct border as [b|]; cbn [border_refused spec_border]; intros H; [lia|].
  unfold default_border. destruct (size <? 21); lia.
Qed.

Lemma get_border_nonneg w h border : border_refused border = false -> 0 <= get_border w h border.
Proof.
  destruct border as [b|]; cbn [border_refused get_border]; intros H; [lia|].
  unfold get_default_border_size. destruct ((17 <? w) && (w =? h)); lia.
Qed.

Lemma map_res_ok {A B} (f : A -> res B) (g : A -> B) l :
  (forall x, In x l -> f x = Ok (g x)) -> map_res f l = Ok (map g l).
Proof.
  induction l as [|x r IH]; intros H; cbn [map_res map]; [reflexivity|].
  rewrite (H x (or_introl eq_refl)). cbn [bind]. rewrite IH by (intros y Hy; apply H; right; exact Hy).
  reflexivity.
Qed.

Lemma Forall_repeat {A} (P : A -> Prop) x n : P x -> Forall P (repeat x n).
Proof. intros H. induction n; cbn [repeat]; constructor; auto. Qed.

Lemma Forall_repeat_each {A} (P : A -> Prop) s l : Forall P l -> Forall P (repeat_each s l).
Proof.
  intros H. unfold repeat_each. induction H as [|x r Hx Hr IH]; cbn [flat_map]; [constructor|].
  apply Forall_app. split; [apply Forall_repeat; exact Hx | exact IH].
Qed.

Lemma Forall_nth {A} (P : A -> Prop) l d k : Forall P l -> P d -> P (nth k l d).
Proof.
  intros H Hd. revert k. induction H as [|x r Hx Hr IH]; intros [|k]; cbn [nth]; auto.
Qed.

(* whatever the geometry, matrix_iter only copies cells of the matrix or writes 0 *)
Lemma iter_rows_bits m w h s b : bits m -> bits (iter_rows m w h s b).
Proof.
  intros Hm. unfold iter_rows, bits. apply Forall_repeat_each. apply Forall_forall. intros row Hrow.
  apply in_map_iff in Hrow. destruct Hrow as [i [<- _]].
  apply Forall_repeat_each. apply Forall_forall. intros c Hc.
  apply in_map_iff in Hc. destruct Hc as [j [<- _]].
  destruct ((0 <=? i) && (i <? h) && (0 <=? j) && (j <? w)); [|left; reflexivity].
  unfold mcell. apply Forall_nth; [|left; reflexivity].
  apply (Forall_nth (Forall bit01)); [exact Hm | constructor].
Qed.

Lemma lenZ_length {A} (l : list A) n : 0 <= n -> lenZ l = n -> length l = Z.to_nat n.
Proof. unfold lenZ. lia. Qed.

(* the shape of the picture *)
Lemma pixel_grid_length m size s b :
  0 < size -> 1 <= s -> 0 <= b -> lenZ (pixel_grid m size s b) = image_side size s b.
Proof.
  intros H1 H2 H3. rewrite <- iter_rows_is_pixel_grid by assumption.
  rewrite iter_rows_length by assumption. reflexivity.
Qed.
Lemma pixel_grid_row_length m size s b row :
  0 < size -> 1 <= s -> 0 <= b -> In row (pixel_grid m size s b) -> lenZ row = image_side size s b.
Proof.
  intros H1 H2 H3 Hin. rewrite <- iter_rows_is_pixel_grid in Hin by assumption.
  rewrite (iter_rows_row_length m size s b row) by assumption. reflexivity.
Qed.
Lemma pixel_grid_bits m size s b : 0 < size -> 1 <= s -> 0 <= b -> bits m -> bits (pixel_grid m size s b).
Proof.
  intros H1 H2 H3 Hm. rewrite <- iter_rows_is_pixel_grid by assumption. apply iter_rows_bits. exact Hm.
Qed.

(* ------------------------------------------------------------------------------------------------ *)
(** * 1. Decimal numbers *)

Lemma dec_aux_read fuel : forall n acc rest,
  0 <= n < 2 ^ Z.of_nat fuel ->
  read_digits (dec_aux fuel n acc ++ rest) 0 = read_digits (acc ++ rest) n.
Proof.
  induction fuel as [|f IH]; intros n acc rest Hn.
  - cbn [dec_aux]. assert (n = 0) by (cbn in Hn; lia). subst n. reflexivity.
  - cbn [dec_aux]. destruct (n <? 10) eqn:E.
    + cbn [app read_digits]. unfold is_digit.
      assert (Hd : (48 <=? 48 + n mod 10) && (48 + n mod 10 <=? 57) = true) by lia.
      rewrite Hd. f_equal. lia.
    + rewrite IH.
      * cbn [app read_digits]. unfold is_digit.
        assert (Hd : (48 <=? 48 + n mod 10) && (48 + n mod 10 <=? 57) = true) by lia.
        rewrite Hd. f_equal. lia.
      * rewrite Nat2Z.inj_succ, Z.pow_succ_r in Hn by lia. lia.
Qed.

Lemma digit_fuel_bound n : 0 <= n -> 0 <= n < 2 ^ Z.of_nat (digit_fuel n).
Proof.
  intros Hn. split; [exact Hn|]. unfold digit_fuel. rewrite Nat2Z.inj_succ, Z2Nat.id by apply Z.log2_nonneg.
  destruct (Z.eq_dec n 0) as [->|Hne]; [cbn; lia|].
  apply Z.log2_spec. lia.
Qed.

Lemma dec_aux_head f : forall n acc, 0 <= n ->
  exists d t, dec_aux (S f) n acc = d :: t /\ is_digit d = true.
Proof.
  induction f as [|f IH]; intros n acc Hn.
  - cbn [dec_aux]. exists (48 + n mod 10), acc. split; [destruct (n <? 10); reflexivity|]. unfold is_digit. lia.
  - change (dec_aux (S (S f)) n acc)
      with (if n <? 10 then (48 + n mod 10) :: acc else dec_aux (S f) (n / 10) ((48 + n mod 10) :: acc)).
    destruct (n <? 10) eqn:E.
    + exists (48 + n mod 10), acc. split; [reflexivity|]. unfold is_digit. lia.
    + apply IH. lia.
Qed.

Lemma dec_head n : 0 <= n -> exists d t, dec n = d :: t /\ is_digit d = true.
Proof.
  intros Hn. unfold dec. assert (E : n <? 0 = false) by lia. rewrite E. unfold digit_fuel. apply dec_aux_head. exact Hn.
Qed.

Definition no_digit_head (l : list Z) : Prop :=
  match l with c :: _ => is_digit c = false | [] => True end.

Lemma read_digits_stop l n : no_digit_head l -> read_digits l n = (n, l).
Proof. destruct l as [|c r]; cbn [no_digit_head read_digits]; [reflexivity|]. intros ->. reflexivity. Qed.

Lemma read_nat_dec n rest : 0 <= n -> no_digit_head rest -> read_nat (dec n ++ rest) = Some (n, rest).
Proof.
  intros Hn Hrest. destruct (dec_head n Hn) as [d [t [Hd Hdig]]].
  assert (Hh : dec n ++ rest = d :: (t ++ rest)) by (rewrite Hd; reflexivity).
  unfold read_nat. rewrite Hh. rewrite Hdig. rewrite <- Hh.
  unfold dec. assert (E : n <? 0 = false) by lia. rewrite E.
  rewrite dec_aux_read by (apply digit_fuel_bound; exact Hn).
  cbn [app]. rewrite read_digits_stop by exact Hrest. reflexivity.
Qed.

Lemma skip_blanks_dec n rest : 0 <= n -> skip_blanks (dec n ++ rest) = dec n ++ rest.
Proof.
  intros Hn. destruct (dec_head n Hn) as [d [t [Hd Hdig]]]. rewrite Hd. cbn [app skip_blanks].
  unfold is_digit in Hdig. unfold is_blank. assert (E : (d =? 32) || (d =? 9) = false) by lia. rewrite E. reflexivity.
Qed.

(* ------------------------------------------------------------------------------------------------ *)
(** * 2. Prefixes *)

Lemma strip_prefix_app p l : strip_prefix p (p ++ l) = Some l.
Proof.
  induction p as [|x p IH]; cbn [app strip_prefix]; [destruct l; reflexivity|].
  rewrite Z.eqb_refl. exact IH.
Qed.
Lemma is_prefix_app p l : is_prefix p (p ++ l) = true.
Proof. unfold is_prefix. rewrite strip_prefix_app. reflexivity. Qed.

(* the two strings differ at a position where both are defined: neither is a prefix of the other *)
Fixpoint diverge (a b : list Z) : bool :=
  match a, b with
  | x :: a', y :: b' => if x =? y then diverge a' b' else true
  | _, _ => false
  end.
Lemma diverge_not_prefix a : forall b l, diverge a b = true -> is_prefix a (b ++ l) = false.
Proof.
  unfold is_prefix. induction a as [|x a IH]; intros b l H; [discriminate|].
  destruct b as [|y b]; [discriminate|]. cbn [diverge] in H. cbn [app strip_prefix].
  destruct (x =? y); [apply IH; exact H | reflexivity].
Qed.
Lemma diverge_sym a : forall b, diverge a b = diverge b a.
Proof.
  induction a as [|x a IH]; intros [|y b]; cbn [diverge]; try reflexivity.
  rewrite (Z.eqb_sym y x). destruct (x =? y); [apply IH | reflexivity].
Qed.

(* ------------------------------------------------------------------------------------------------ *)
(** * 3. TXT *)

Definition txt_cell (dark light : str) (b : Z) : str := if b =? 0 then light else dark.
Definition txt_render (dark light : str) (rows : list (list Z)) : list Z :=
  concat (map (fun row => concat (map (txt_cell dark light) row) ++ [10]) rows).

Lemma txt_line_bits dark light row :
  Forall bit01 row -> txt_line dark light row = Ok (concat (map (txt_cell dark light) row) ++ [10]).
Proof.
  intros H. unfold txt_line. rewrite (map_res_ok _ (txt_cell dark light)); [reflexivity|].
  intros x Hx. rewrite Forall_forall in H. destruct (H x Hx) as [-> | ->]; reflexivity.
Qed.

(* what write_txt does on a 0/1 matrix, for every geometry *)
Theorem write_txt_result : forall m w h border dark light, bits m ->
  write_txt m w h border dark light
  = if border_refused border then Err ValueError
    else Ok (txt_render dark light (iter_rows m w h 1 (get_border w h border))).
Proof.
  intros m w h border dark light Hm. unfold write_txt. rewrite check_border_z.
  destruct (border_refused border); [reflexivity|]. cbn [bind].
  rewrite check_valid_scale_spec. change (1 <? 1) with false. cbn [bind].
  rewrite (map_res_ok _ (fun row => concat (map (txt_cell dark light) row) ++ [10])); [reflexivity|].
  intros row Hrow. apply txt_line_bits.
  pose proof (iter_rows_bits m w h 1 (get_border w h border) Hm) as Hb. unfold bits in Hb.
  rewrite Forall_forall in Hb. apply Hb. exact Hrow.
Qed.

(* a tuple index other than 0/1 is the only other failure: IndexError, never anything else *)
Lemma map_res_err {A B} (f : A -> res B) (P : exn -> Prop) l e :
  (forall x e', f x = Err e' -> P e') -> map_res f l = Err e -> P e.
Proof.
  intros Hf. induction l as [|x r IH]; cbn [map_res]; [discriminate|].
  destruct (f x) as [y|e'] eqn:E; cbn [bind].
  - destruct (map_res f r) as [t|e''] eqn:E2; cbn [bind]; [discriminate|].
    intros H. inversion H. subst. apply IH. reflexivity.
  - intros H. inversion H. subst. eapply Hf. exact E.
Qed.

Theorem write_txt_errors : forall m w h border dark light e,
  write_txt m w h border dark light = Err e -> e = ValueError \/ e = IndexErr.
Proof.
  intros m w h border dark light e. unfold write_txt. rewrite check_border_z.
  destruct (border_refused border); cbn [bind]; [intros H; inversion H; left; reflexivity|].
  rewrite check_valid_scale_spec. change (1 <? 1) with false. cbn [bind].
  destruct (map_res (txt_line dark light) _) as [ls|e'] eqn:E; cbn [bind]; [discriminate|].
  intros H. inversion H. subst e'. right.
  revert E. apply (map_res_err _ (fun x => x = IndexErr)). intros row e'. unfold txt_line.
  destruct (map_res _ row) as [cs|e''] eqn:E2; cbn [bind]; [discriminate|].
  intros H'. inversion H'. subst e''. revert E2. apply (map_res_err _ (fun x => x = IndexErr)).
  intros x e''. unfold py_index, nthZ.
  destruct (_ <? 0); [intros H''; inversion H''; reflexivity|].
  destruct (nth_error _ _); [discriminate|]. intros H''. inversion H''. reflexivity.
Qed.

Lemma txt_scan_skip dark light p : forall l cur acc,
  txt_scan dark light (p ++ l) (length p) cur acc = txt_scan dark light l O cur acc.
Proof. induction p as [|x p IH]; intros l cur acc; [reflexivity|]. cbn [app length txt_scan]. apply IH. Qed.

Section TxtRead.
  Variables dark light : str.
  Hypothesis Hdiv : diverge light dark = true.
  Hypothesis Hnl_d : hd 0 dark <> 10.
  Hypothesis Hnl_l : hd 0 light <> 10.

  Lemma txt_scan_cell b l cur acc : bit01 b ->
    txt_scan dark light (txt_cell dark light b ++ l) O cur acc = txt_scan dark light l O (b :: cur) acc.
  Proof.
    intros [-> | ->]; unfold txt_cell; cbn [Z.eqb].
    - destruct light as [|x t] eqn:El; [discriminate|].
      assert (Hp : is_prefix (x :: t) ((x :: t) ++ l) = true) by apply is_prefix_app.
      cbn [app txt_scan] in *. rewrite Hp. apply txt_scan_skip.
    - destruct dark as [|y t] eqn:Ed; [rewrite diverge_sym in Hdiv; discriminate|].
      assert (Hp1 : is_prefix light ((y :: t) ++ l) = false) by (apply diverge_not_prefix; exact Hdiv).
      assert (Hp2 : is_prefix (y :: t) ((y :: t) ++ l) = true) by apply is_prefix_app.
      cbn [app txt_scan] in *. rewrite Hp1, Hp2. apply txt_scan_skip.
  Qed.

  Lemma txt_scan_row row : forall l cur acc, Forall bit01 row ->
    txt_scan dark light (concat (map (txt_cell dark light) row) ++ l) O cur acc
    = txt_scan dark light l O (rev row ++ cur) acc.
  Proof.
    induction row as [|b row IH]; intros l cur acc H; [reflexivity|].
    inversion H as [|? ? Hb Hr]; subst. cbn [map concat rev]. rewrite <- !app_assoc.
    rewrite txt_scan_cell by exact Hb. rewrite IH by exact Hr. cbn [app]. reflexivity.
  Qed.

  Lemma txt_scan_newline l cur acc :
    txt_scan dark light (10 :: l) O cur acc = txt_scan dark light l O [] (rev cur :: acc).
  Proof.
    cbn [txt_scan].
    assert (H1 : is_prefix light (10 :: l) = false).
    { unfold is_prefix. destruct light as [|x t]; [discriminate|]. cbn [hd] in Hnl_l. cbn [strip_prefix].
      destruct (x =? 10) eqn:E; [lia | reflexivity]. }
    assert (H2 : is_prefix dark (10 :: l) = false).
    { unfold is_prefix. destruct dark as [|x t]; [rewrite diverge_sym in Hdiv; discriminate|]. cbn [hd] in Hnl_d.
      cbn [strip_prefix]. destruct (x =? 10) eqn:E; [lia | reflexivity]. }
    rewrite H1, H2. reflexivity.
  Qed.

  Lemma txt_scan_rows rows : forall l acc, bits rows ->
    txt_scan dark light (txt_render dark light rows ++ l) O [] acc
    = txt_scan dark light l O [] (rev rows ++ acc).
  Proof.
    unfold txt_render.
    induction rows as [|row rows IH]; intros l acc H; [reflexivity|].
    inversion H as [|? ? Hrow Hrows]; subst. cbn [map concat rev]. rewrite <- !app_assoc.
    rewrite txt_scan_row by exact Hrow. cbn [app]. rewrite txt_scan_newline.
    rewrite IH by exact Hrows. rewrite app_nil_r, rev_involutive. cbn [app]. reflexivity.
  Qed.

  Lemma read_txt_render rows : bits rows -> read_txt dark light (txt_render dark light rows) = Some rows.
  Proof.
    intros H. unfold read_txt. rewrite <- (app_nil_r (txt_render dark light rows)).
    rewrite txt_scan_rows by exact H. cbn [txt_scan]. rewrite app_nil_r, rev_involutive. reflexivity.
  Qed.
End TxtRead.

(* TXT: the text is the grid, one token per module, quiet zone included *)
Theorem txt_roundtrip : forall m size border dark light,
  0 < size -> bits m -> border_refused border = false -> default_ok size border ->
  diverge light dark = true -> hd 0 dark <> 10 -> hd 0 light <> 10 ->
  exists out, write_txt m size size border dark light = Ok out
    /\ read_txt dark light out = Some (pixel_grid m size 1 (spec_border size border)).
Proof.
  intros m size border dark light Hsize Hm Hb Hdef Hdiv Hd Hl.
  rewrite write_txt_result by exact Hm. rewrite Hb. eexists. split; [reflexivity|].
  rewrite get_border_spec by exact Hdef.
  pose proof (spec_border_nonneg size border Hb) as Hb0.
  rewrite iter_rows_is_pixel_grid by lia.
  apply read_txt_render; try assumption. apply pixel_grid_bits; try assumption; lia.
Qed.
Print Assumptions txt_roundtrip.

(* the default tokens '1' / '0' *)
Corollary txt_roundtrip_default : forall m size border,
  0 < size -> bits m -> border_refused border = false -> default_ok size border ->
  exists out, write_txt m size size border [49] [48] = Ok out
    /\ read_txt [49] [48] out = Some (pixel_grid m size 1 (spec_border size border)).
Proof.
  intros. apply txt_roundtrip; try assumption; try reflexivity; cbn [hd]; lia.
Qed.

(* ------------------------------------------------------------------------------------------------ *)
(** * 4. Names, headers and other lexical facts shared by XBM and XPM *)

(* characters allowed in `name` for the round trips: anything but white space, an opening brace, a double quote and a slash.
   Every C identifier qualifies. *)
Definition name_char (c : Z) : bool :=
  negb (is_space c) && negb (c =? 123) && negb (c =? 34) && negb (c =? 47).
Definition name_ok (name : str) : Prop := Forall (fun c => name_char c = true) name.
Definition ident_char (c : Z) : bool :=
  ((97 <=? c) && (c <=? 122)) || ((65 <=? c) && (c <=? 90)) || ((48 <=? c) && (c <=? 57)) || (c =? 95).
Lemma ident_name_ok name : Forall (fun c => ident_char c = true) name -> name_ok name.
Proof.
  apply Forall_impl. intros c. unfold ident_char, name_char, is_space, is_blank. lia.
Qed.

Lemma token_name name : forall rest, name_ok name ->
  token (name ++ rest) = (name ++ fst (token rest), snd (token rest)).
Proof.
  induction name as [|c name IH]; intros rest H.
  - cbn [app]. destruct (token rest); reflexivity.
  - inversion H as [|? ? Hc Hname]; subst. cbn [app token].
    assert (E : is_space c = false) by (unfold name_char in Hc; destruct (is_space c); [discriminate|reflexivity]).
    rewrite E. rewrite IH by exact Hname. reflexivity.
Qed.

Lemma after_char_name name : forall rest, name_ok name ->
  after_char 123 (name ++ rest) = after_char 123 rest.
Proof.
  induction name as [|c name IH]; intros rest H; [reflexivity|].
  inversion H as [|? ? Hc Hname]; subst. cbn [app after_char].
  assert (E : c =? 123 = false) by (unfold name_char in Hc; lia). rewrite E. apply IH. exact Hname.
Qed.

Lemma skip_blanks_name name c rest : name_ok name -> is_blank c = false ->
  skip_blanks (name ++ c :: rest) = name ++ c :: rest.
Proof.
  intros H Hc. destruct name as [|x name]; cbn [app skip_blanks]; [rewrite Hc; reflexivity|].
  inversion H as [|? ? Hx _]; subst.
  assert (E : is_blank x = false) by (unfold name_char, is_space in Hx; destruct (is_blank x); [discriminate|reflexivity]).
  rewrite E. reflexivity.
Qed.

Lemma ends_with_app name suffix : ends_with suffix (name ++ suffix) = true.
Proof. unfold ends_with. rewrite rev_app_distr. apply is_prefix_app. Qed.

(* ------------------------------------------------------------------------------------------------ *)
(** * 5. XBM *)

(** ** 5.1 one `#define` line *)
Lemma token_nospace s rest : Forall (fun x => is_space x = false) s -> token (s ++ 32 :: rest) = (s, 32 :: rest).
Proof.
  intros H. induction H as [|x s Hx Hs IH]; [reflexivity|]. cbn [app token]. rewrite Hx, IH. reflexivity.
Qed.
Lemma read_define_line name suffix n rest :
  name_ok name -> 0 <= n ->
  (exists c t, suffix = c :: t /\ is_blank c = false /\ Forall (fun x => is_space x = false) suffix) ->
  read_define suffix (cps "#define " ++ name ++ suffix ++ [32] ++ dec n ++ [10] ++ rest) = Some (n, rest).
Proof.
  intros Hname Hn [c [t [Hs [Hc Hsuf]]]]. unfold read_define.
  change (cps "#define " ++ name ++ suffix ++ [32] ++ dec n ++ [10] ++ rest)
    with (asc "#define" ++ 32 :: (name ++ suffix ++ [32] ++ dec n ++ [10] ++ rest)).
  rewrite strip_prefix_app. cbn [obind blanks1]. change (is_blank 32) with true. cbn iota.
  assert (Hsk : skip_blanks (name ++ suffix ++ [32] ++ dec n ++ [10] ++ rest)
                = name ++ suffix ++ [32] ++ dec n ++ [10] ++ rest).
  { rewrite Hs. cbn [app]. apply skip_blanks_name; assumption. }
  rewrite Hsk. cbn [obind].
  assert (Htok : token (name ++ suffix ++ [32] ++ dec n ++ [10] ++ rest)
                 = (name ++ suffix, 32 :: dec n ++ 10 :: rest)).
  { rewrite token_name by exact Hname.
    assert (Hs2 : token (suffix ++ [32] ++ dec n ++ [10] ++ rest) = (suffix, 32 :: dec n ++ 10 :: rest)).
    { apply (token_nospace suffix (dec n ++ 10 :: rest)). exact Hsuf. }
    rewrite Hs2. reflexivity. }
  rewrite Htok. rewrite ends_with_app.
  cbn [blanks1]. change (is_blank 32) with true. cbn iota. rewrite skip_blanks_dec by exact Hn. cbn [obind].
  rewrite read_nat_dec; [|exact Hn | reflexivity]. cbn [obind skip_blanks].
  change (is_blank 10) with false. cbn iota. reflexivity.
Qed.

(** ** 5.2 bit packing, parametric in the row width *)
Definition bits8 (c : list Z) : Prop := length c = 8%nat /\ Forall bit01 c.

(* one byte: LSB first, in range, and read back bit by bit *)
Lemma xbm_byte_bits8 c : bits8 c -> 0 <= xbm_byte c < 256 /\ byte_bits (xbm_byte c) = c.
Proof.
  intros [Hlen Hb].
  destruct c as [|b0 [|b1 [|b2 [|b3 [|b4 [|b5 [|b6 [|b7 [|x c]]]]]]]]]; try discriminate.
  repeat match goal with H : Forall _ (_ :: _) |- _ => inversion H; clear H; subst end.
  repeat match goal with H : bit01 _ |- _ => destruct H as [-> | ->] end;
    (split; [vm_compute; split; [discriminate | reflexivity] | reflexivity]).
Qed.

Lemma list_ind8 (P : list Z -> Prop) :
  P [] ->
  (forall l, (0 < length l < 8)%nat -> P l) ->
  (forall a b c d e f g h r, P r -> P (a :: b :: c :: d :: e :: f :: g :: h :: r)) ->
  forall l, P l.
Proof.
  intros H0 Hs Hstep l.
  assert (Hgen : forall n l, (length l <= n)%nat -> P l).
  { induction n as [|n IH]; intros l' Hl.
    - destruct l'; [exact H0 | cbn in Hl; lia].
    - destruct l' as [|a [|b [|c [|d [|e [|f [|g [|h r]]]]]]]]; try (apply Hs; cbn [length]; lia); [exact H0|].
      apply Hstep. apply IH. cbn [length] in Hl. lia. }
  apply (Hgen (length l)). lia.
Qed.

(* the padded last group *)
Lemma pad8_spec l : (0 < length l < 8)%nat -> Forall bit01 l ->
  chunk8 l = [firstn 8 (l ++ repeat 0 7%nat)]
  /\ bits8 (firstn 8 (l ++ repeat 0 7%nat))
  /\ firstn (length l) (firstn 8 (l ++ repeat 0 7%nat)) = l.
Proof.
  intros Hlen Hb.
  assert (H0 : bit01 0) by (left; reflexivity).
  destruct l as [|b0 [|b1 [|b2 [|b3 [|b4 [|b5 [|b6 [|b7 r]]]]]]]]; cbn [length] in Hlen; try lia;
    (split; [reflexivity|]; split; [|reflexivity]);
    (split; [reflexivity|]);
    repeat match goal with H : Forall _ (_ :: _) |- _ => inversion H; clear H; subst end;
    cbn [app repeat firstn]; repeat (apply Forall_cons; [assumption|]); apply Forall_nil.
Qed.

Definition xbm_row_bytes (row : list Z) : list Z := map xbm_byte (chunk8 row).

(* THE packing lemma: any width (every residue mod 8) *)
Theorem xbm_pack_unpack : forall row, Forall bit01 row ->
  Forall bits8 (chunk8 row)
  /\ Z.of_nat (length (xbm_row_bytes row)) = (Z.of_nat (length row) + 7) / 8
  /\ firstn (length row) (flat_map byte_bits (xbm_row_bytes row)) = row.
Proof.
  unfold xbm_row_bytes.
  intros row. induction row as [| l Hl | a b c d e f g h r IH] using list_ind8; intros Hb.
  - repeat split. constructor.
  - destruct (pad8_spec l Hl Hb) as [Hc [H8 Hf]]. rewrite Hc. cbn [map flat_map length].
    split; [apply Forall_cons; [exact H8 | apply Forall_nil]|]. split; [lia|].
    rewrite app_nil_r. destruct (xbm_byte_bits8 _ H8) as [_ Hbb]. rewrite Hbb. exact Hf.
  - assert (H8 : bits8 [a; b; c; d; e; f; g; h]).
    { split; [reflexivity|].
      repeat match goal with H : Forall _ (_ :: _) |- _ => inversion H; clear H; subst end.
      repeat (apply Forall_cons; [assumption|]). apply Forall_nil. }
    assert (Hr : Forall bit01 r).
    { repeat match goal with H : Forall _ (_ :: _) |- _ => inversion H; clear H; subst end. assumption. }
    destruct (IH Hr) as [IH1 [IH2 IH3]].
    change (chunk8 (a :: b :: c :: d :: e :: f :: g :: h :: r)) with ([a; b; c; d; e; f; g; h] :: chunk8 r).
    cbn [map flat_map]. split; [constructor; assumption|]. split.
    + cbn [length]. cbn [length] in IH2. lia.
    + destruct (xbm_byte_bits8 _ H8) as [_ Hbb]. rewrite Hbb.
      change (length (a :: b :: c :: d :: e :: f :: g :: h :: r)) with (8 + length r)%nat.
      change ([a; b; c; d; e; f; g; h] ++ flat_map byte_bits (map xbm_byte (chunk8 r)))
        with (a :: b :: c :: d :: e :: f :: g :: h :: flat_map byte_bits (map xbm_byte (chunk8 r))).
      cbn [Nat.add firstn]. rewrite IH3. reflexivity.
Qed.

Lemma xbm_row_bytes_range row : Forall bit01 row -> Forall (fun v => 0 <= v < 256) (xbm_row_bytes row).
Proof.
  intros Hb. destruct (xbm_pack_unpack row Hb) as [H8 _]. unfold xbm_row_bytes.
  induction H8 as [|c cs Hc Hcs IH]; cbn [map]; constructor; [|exact IH].
  apply xbm_byte_bits8. exact Hc.
Qed.

(** ** 5.3 the initialiser list *)
Lemma hexdigit_value d : 0 <= d < 16 -> hex_value (hexdigit d) = Some d.
Proof.
  intros Hd. unfold hexdigit, hex_value. destruct (d <? 10) eqn:E.
  - assert (E1 : (48 <=? 48 + d) && (48 + d <=? 57) = true) by lia. rewrite E1. f_equal. lia.
  - assert (E1 : (48 <=? 87 + d) && (87 + d <=? 57) = false) by lia. rewrite E1.
    assert (E2 : (97 <=? 87 + d) && (87 + d <=? 102) = true) by lia. rewrite E2. f_equal. lia.
Qed.

Lemma hex02_byte : forallb (fun v => match hex02 v with
                                     | [a; b] => (a =? hexdigit (v / 16)) && (b =? hexdigit (v mod 16))
                                     | _ => false end) (zrange 0 256) = true.
Proof. vm_compute. reflexivity. Qed.
Lemma hex02_byte_eq v : 0 <= v < 256 -> hex02 v = [hexdigit (v / 16); hexdigit (v mod 16)].
Proof.
  intros Hv. pose proof hex02_byte as H. rewrite forallb_forall in H.
  specialize (H v (zrange_In 0 256 v Hv)). cbv beta in H.
  destruct (hex02 v) as [|a [|b [|c t]]]; try discriminate.
  apply andb_true_iff in H. destruct H as [Ha Hb]. apply Z.eqb_eq in Ha, Hb. subst. reflexivity.
Qed.

Definition xbm_item_of (v : Z) : list Z := cps "0x" ++ hex02 v.

(* one item followed by a separator *)
Lemma xbm_items_item v c l acc : 0 <= v < 256 -> c = 44 \/ c = 10 ->
  xbm_items (xbm_item_of v ++ c :: l) XSep acc = xbm_items l XSep (v :: acc).
Proof.
  intros Hv Hc. unfold xbm_item_of. rewrite hex02_byte_eq by exact Hv.
  change (cps "0x" ++ [hexdigit (v / 16); hexdigit (v mod 16)]) with [48; 120; hexdigit (v / 16); hexdigit (v mod 16)].
  cbn [app xbm_items]. change (xbm_sep_step 48) with (Some XZero). cbn [obind].
  change ((120 =? 120) || (120 =? 88)) with true. cbn iota.
  rewrite hexdigit_value by lia. rewrite hexdigit_value by lia.
  replace (16 * (16 * 0 + v / 16) + v mod 16) with v by lia.
  assert (Hh : hex_value c = None) by (destruct Hc as [-> | ->]; reflexivity).
  assert (Hs : xbm_sep_step c = Some XSep) by (destruct Hc as [-> | ->]; reflexivity).
  rewrite Hh, Hs. assert (E : v <? 256 = true) by lia. rewrite E. reflexivity.
Qed.

Lemma join_cons2 sep x y r : join sep (x :: y :: r) = x ++ sep ++ join sep (y :: r).
Proof. reflexivity. Qed.

(* a row of items followed by ",\n" or "\n" *)
Lemma xbm_items_row vs : forall c l acc,
  Forall (fun v => 0 <= v < 256) vs -> c = 44 \/ c = 10 ->
  xbm_items (join (cps ", ") (map xbm_item_of vs) ++ c :: l) XSep acc = xbm_items l XSep (rev vs ++ acc).
Proof.
  induction vs as [|v vs IH]; intros c l acc Hvs Hc.
  - cbn [map join app rev xbm_items].
    assert (Hs : xbm_sep_step c = Some XSep) by (destruct Hc as [-> | ->]; reflexivity).
    rewrite Hs. reflexivity.
  - inversion Hvs as [|? ? Hv Hvs']; subst. destruct vs as [|v2 vs].
    + cbn [map join rev app]. rewrite xbm_items_item by assumption. reflexivity.
    + change (map xbm_item_of (v :: v2 :: vs)) with (xbm_item_of v :: xbm_item_of v2 :: map xbm_item_of vs).
      rewrite join_cons2. rewrite <- !app_assoc.
      change (cps ", " ++ join (cps ", ") (xbm_item_of v2 :: map xbm_item_of vs) ++ c :: l)
        with (44 :: 32 :: (join (cps ", ") (map xbm_item_of (v2 :: vs)) ++ c :: l)).
      rewrite xbm_items_item by (try assumption; left; reflexivity).
      cbn [xbm_items]. change (xbm_sep_step 32) with (Some XSep). cbn [obind].
      rewrite IH by assumption. cbn [rev]. rewrite <- !app_assoc. reflexivity.
Qed.

Lemma xbm_row_items_eq row : xbm_row_items row = join (cps ", ") (map xbm_item_of (xbm_row_bytes row)).
Proof. unfold xbm_row_items, xbm_row_bytes. rewrite map_map. reflexivity. Qed.

Lemma xbm_items_rows rows : forall i h l acc, bits rows ->
  xbm_items (xbm_rows i h rows ++ l) XSep acc
  = xbm_items l XSep (rev (concat (map xbm_row_bytes rows)) ++ acc).
Proof.
  induction rows as [|row rows IH]; intros i h l acc Hb; [reflexivity|].
  inversion Hb as [|? ? Hrow Hrows]; subst.
  cbn [xbm_rows map concat]. rewrite xbm_row_items_eq. rewrite <- !app_assoc.
  change (cps "    " ++ ?x) with (32 :: 32 :: 32 :: 32 :: x).
  cbn [xbm_items]. change (xbm_sep_step 32) with (Some XSep). cbn [obind].
  rewrite rev_app_distr, <- app_assoc.
  destruct (i <? h).
  - change ([44; 10] ++ xbm_rows (i + 1) h rows ++ l) with (44 :: 10 :: (xbm_rows (i + 1) h rows ++ l)).
    rewrite xbm_items_row; [|apply xbm_row_bytes_range; exact Hrow | left; reflexivity].
    cbn [xbm_items]. change (xbm_sep_step 10) with (Some XSep). cbn [obind].
    apply IH. exact Hrows.
  - change ([10] ++ xbm_rows (i + 1) h rows ++ l) with (10 :: (xbm_rows (i + 1) h rows ++ l)).
    rewrite xbm_items_row; [|apply xbm_row_bytes_range; exact Hrow | right; reflexivity].
    apply IH. exact Hrows.
Qed.

(** ** 5.4 bytes -> grid *)
Lemma xbm_grid_rows rows w : bits rows -> (forall row, In row rows -> length row = w) ->
  xbm_grid (length rows) (Z.to_nat ((Z.of_nat w + 7) / 8)) w (concat (map xbm_row_bytes rows)) = rows.
Proof.
  intros Hb Hw. induction rows as [|row rows IH]; [reflexivity|].
  inversion Hb as [|? ? Hrow Hrows]; subst.
  destruct (xbm_pack_unpack row Hrow) as [_ [Hlen Hun]].
  rewrite (Hw row (or_introl eq_refl)) in Hlen, Hun.
  assert (Hl : length (xbm_row_bytes row) = Z.to_nat ((Z.of_nat w + 7) / 8)) by lia.
  cbn [length map concat xbm_grid].
  rewrite <- Hl. rewrite firstn_app, Nat.sub_diag, firstn_all. cbn [firstn]. rewrite app_nil_r.
  rewrite skipn_app, Nat.sub_diag, skipn_all. cbn [skipn app]. rewrite Hun. f_equal.
  rewrite Hl. apply IH; [exact Hrows|]. intros r Hr. apply Hw. right. exact Hr.
Qed.

Lemma concat_row_bytes_length rows w : bits rows -> (forall row, In row rows -> length row = w) ->
  lenZ (concat (map xbm_row_bytes rows)) = lenZ rows * ((Z.of_nat w + 7) / 8).
Proof.
  intros Hb Hw. unfold lenZ. induction rows as [|row rows IH]; [reflexivity|].
  inversion Hb as [|? ? Hrow Hrows]; subst.
  destruct (xbm_pack_unpack row Hrow) as [_ [Hlen _]]. rewrite (Hw row (or_introl eq_refl)) in Hlen.
  cbn [map concat length]. rewrite app_length.
  rewrite Nat2Z.inj_add, Hlen, IH; [lia | exact Hrows | intros r Hr; apply Hw; right; exact Hr].
Qed.

(** ** 5.5 the whole file *)
Definition xbm_text (name : str) (w h : Z) (rows : list (list Z)) : list Z :=
  cps "#define " ++ name ++ cps "_width " ++ dec w ++ [10]
  ++ cps "#define " ++ name ++ cps "_height " ++ dec h ++ [10]
  ++ cps "static unsigned char " ++ name ++ cps "_bits[] = {" ++ [10]
  ++ xbm_rows 1 h rows
  ++ cps "};" ++ [10].

Lemma read_xbm_text name rows w h :
  name_ok name -> bits rows -> 0 <= w -> 0 <= h ->
  lenZ rows = h -> (forall row, In row rows -> lenZ row = w) ->
  read_xbm (xbm_text name w h rows) = Some (w, h, rows).
Proof.
  intros Hname Hb Hw Hh Hrows Hrow. unfold read_xbm, xbm_text.
  change (cps "_width " ++ dec w ++ [10] ++ ?r) with (asc "_width" ++ [32] ++ dec w ++ [10] ++ r).
  rewrite read_define_line; [|exact Hname | exact Hw |].
  2:{ exists 95, (asc "width"). split; [reflexivity|]. split; [reflexivity|].
      repeat (apply Forall_cons; [reflexivity|]). apply Forall_nil. }
  cbn [obind].
  change (cps "_height " ++ dec h ++ [10] ++ ?r) with (asc "_height" ++ [32] ++ dec h ++ [10] ++ r).
  rewrite read_define_line; [|exact Hname | exact Hh |].
  2:{ exists 95, (asc "height"). split; [reflexivity|]. split; [reflexivity|].
      repeat (apply Forall_cons; [reflexivity|]). apply Forall_nil. }
  cbn [obind].
  assert (Haf : forall r, after_char 123 (cps "static unsigned char " ++ name ++ cps "_bits[] = {" ++ r) = Some r).
  { intros r. change (cps "static unsigned char " ++ ?x) with (asc "static unsigned char " ++ x).
    transitivity (after_char 123 (name ++ cps "_bits[] = {" ++ r)); [reflexivity|].
    rewrite after_char_name by exact Hname. reflexivity. }
  rewrite Haf. cbn [obind].
  change ([10] ++ xbm_rows 1 h rows ++ cps "};" ++ [10]) with (10 :: (xbm_rows 1 h rows ++ cps "};" ++ [10])).
  cbn [xbm_items]. change (xbm_sep_step 10) with (Some XSep). cbn [obind].
  rewrite xbm_items_rows by exact Hb.
  change (xbm_items (cps "};" ++ [10]) XSep ?a) with (Some (rev a)).
  cbn [obind]. rewrite app_nil_r, rev_involutive.
  assert (Hrow' : forall row, In row rows -> length row = Z.to_nat w).
  { intros row Hin. apply lenZ_length; [exact Hw | apply Hrow; exact Hin]. }
  rewrite (concat_row_bytes_length rows (Z.to_nat w) Hb Hrow').
  rewrite Z2Nat.id by exact Hw. rewrite Hrows, Z.eqb_refl.
  f_equal. f_equal.
  rewrite <- Hrows. unfold lenZ. rewrite Nat2Z.id.
  rewrite <- (Z2Nat.id w Hw) at 1. apply xbm_grid_rows; assumption.
Qed.

(* what write_xbm does, for every matrix and geometry: no exception other than ValueError, raised exactly
   for scale < 1 or a negative border *)
Theorem write_xbm_result : forall m w h scale border name,
  write_xbm m w h scale border name
  = if (scale <? 1) || border_refused border then Err ValueError
    else let b := get_border w h border in
         Ok (xbm_text name ((w + 2 * b) * scale) ((h + 2 * b) * scale) (iter_rows m w h scale b)).
Proof.
  intros m w h scale border name. unfold write_xbm, valid_width_height_and_border.
  rewrite check_valid_scale_spec. destruct (scale <? 1); [reflexivity|]. cbn [bind orb].
  rewrite check_border_z. destruct (border_refused border); reflexivity.
Qed.

(* XBM: the declared width/height are those of the data, every pixel is set iff its module is dark *)
Theorem xbm_roundtrip : forall m size scale border name,
  0 < size -> bits m -> 1 <= scale -> border_refused border = false -> default_ok size border ->
  name_ok name ->
  exists out, write_xbm m size size scale border name = Ok out
    /\ read_xbm out = Some (image_side size scale (spec_border size border),
                            image_side size scale (spec_border size border),
                            pixel_grid m size scale (spec_border size border)).
Proof.
  intros m size scale border name Hsize Hm Hs Hb Hdef Hname.
  rewrite write_xbm_result. assert (E : scale <? 1 = false) by lia. rewrite E, Hb. cbn [orb].
  eexists. split; [reflexivity|]. cbv zeta.
  rewrite get_border_spec by exact Hdef.
  pose proof (spec_border_nonneg size border Hb) as Hb0.
  rewrite iter_rows_is_pixel_grid by lia.
  fold (image_side size scale (spec_border size border)).
  apply read_xbm_text.
  - exact Hname.
  - apply pixel_grid_bits; try assumption; lia.
  - unfold image_side. nia.
  - unfold image_side. nia.
  - apply pixel_grid_length; lia.
  - intros row Hin. apply (pixel_grid_row_length m size scale (spec_border size border)); try lia. exact Hin.
Qed.
Print Assumptions xbm_roundtrip.

(* ------------------------------------------------------------------------------------------------ *)
(** * 6. XPM *)

(** ** 6.1 characters that may stand inside a C string literal of an XPM file *)
Definition str_char (c : Z) : bool := negb ((c =? 34) || (c =? 92) || (c =? 10)).
Definition str_safe (s : list Z) : Prop := Forall (fun c => str_char c = true) s.

Lemma dec_aux_safe fuel : forall n acc, str_safe acc -> str_safe (dec_aux fuel n acc).
Proof.
  induction fuel as [|f IH]; intros n acc Hacc; cbn [dec_aux]; [exact Hacc|].
  assert (Hd : str_safe ((48 + n mod 10) :: acc)).
  { constructor; [|exact Hacc]. destruct (Z.eq_dec n 0) as [->|Hn]; [reflexivity|]. unfold str_char. lia. }
  destruct (n <? 10); [exact Hd | apply IH; exact Hd].
Qed.
Lemma dec_safe n : 0 <= n -> str_safe (dec n).
Proof.
  intros Hn. unfold dec. assert (E : n <? 0 = false) by lia. rewrite E. apply dec_aux_safe. constructor.
Qed.

Lemma hexdigit_safe n : str_char (hexdigit (n mod 16)) = true.
Proof. unfold hexdigit, str_char. destruct (n mod 16 <? 10) eqn:E; lia. Qed.
Lemma hex_aux_safe fuel : forall n acc, str_safe acc -> str_safe (hex_aux fuel n acc).
Proof.
  induction fuel as [|f IH]; intros n acc Hacc; cbn [hex_aux]; [exact Hacc|].
  assert (Hd : str_safe (hexdigit (n mod 16) :: acc)) by (constructor; [apply hexdigit_safe | exact Hacc]).
  destruct (n <? 16); [exact Hd | apply IH; exact Hd].
Qed.
Lemma hex02_safe n : str_safe (hex02 n).
Proof.
  unfold hex02, hex_digits. destruct (n <? 0).
  - constructor; [reflexivity|]. apply hex_aux_safe. constructor.
  - destruct (lenZ _ <? 2); [constructor; [reflexivity|]|]; apply hex_aux_safe; constructor.
Qed.

(* a colour specification written by the XPM writer: "None" or '#' followed by sign / hex digit characters *)
Lemma xpm_color_shape c s : xpm_color c = Ok s ->
  str_safe s /\ exists x t, s = x :: t /\ is_blank x = false.
Proof.
  destruct c as [c|]; cbn [xpm_color].
  - unfold color_to_rgb_hex. destruct (color_to_rgb c) as [rgb|e]; cbn [bind]; [|discriminate].
    intros H. inversion H. subst s. split.
    + constructor; [reflexivity|]. repeat (apply Forall_app; split); apply hex02_safe.
    + eexists _, _. split; reflexivity.
  - intros H. inversion H. subst s. split.
    + repeat (apply Forall_cons; [reflexivity|]). apply Forall_nil.
    + exists 78, (asc "one"). split; reflexivity.
Qed.

(** ** 6.2 extracting the string literals *)
Lemma c_strings_name name : forall l acc, name_ok name ->
  c_strings (name ++ l) CsOut [] acc = c_strings l CsOut [] acc.
Proof.
  induction name as [|c name IH]; intros l acc H; [reflexivity|].
  inversion H as [|? ? Hc Hname]; subst. cbn [app c_strings].
  assert (E1 : c =? 34 = false) by (unfold name_char in Hc; lia).
  assert (E2 : c =? 47 = false) by (unfold name_char in Hc; lia).
  rewrite E1, E2. apply IH. exact Hname.
Qed.

Lemma c_strings_body s : forall l cur acc, str_safe s ->
  c_strings (s ++ 34 :: l) CsStr cur acc = c_strings l CsOut [] ((rev cur ++ s) :: acc).
Proof.
  induction s as [|c s IH]; intros l cur acc H.
  - cbn [app c_strings]. rewrite app_nil_r. reflexivity.
  - inversion H as [|? ? Hc Hs]; subst. cbn [app c_strings].
    assert (E1 : c =? 34 = false) by (unfold str_char in Hc; lia).
    assert (E2 : (c =? 92) || (c =? 10) = false) by (unfold str_char in Hc; lia).
    rewrite E1, E2. rewrite IH by exact Hs. cbn [rev]. rewrite <- app_assoc. reflexivity.
Qed.

Lemma c_strings_literal s l acc : str_safe s ->
  c_strings (34 :: s ++ 34 :: l) CsOut [] acc = c_strings l CsOut [] (s :: acc).
Proof. intros H. cbn [c_strings]. change (34 =? 34) with true. cbn iota. rewrite c_strings_body by exact H. reflexivity. Qed.

Lemma xpm_pixels_safe row : str_safe (map xpm_pixel row).
Proof.
  induction row as [|b row IH]; cbn [map]; constructor; [|exact IH].
  unfold xpm_pixel. destruct (b =? 0); reflexivity.
Qed.

Lemma c_strings_rows rows : forall i h l acc,
  c_strings (xpm_rows i h rows ++ l) CsOut [] acc
  = c_strings l CsOut [] (rev (map (map xpm_pixel) rows) ++ acc).
Proof.
  induction rows as [|row rows IH]; intros i h l acc; [reflexivity|].
  cbn [xpm_rows map rev]. rewrite <- !app_assoc.
  change ([34] ++ map xpm_pixel row ++ [34] ++ ?x) with (34 :: map xpm_pixel row ++ 34 :: x).
  rewrite c_strings_literal by apply xpm_pixels_safe.
  destruct (i <? h - 1).
  - change ([44] ++ [10] ++ ?x) with (44 :: 10 :: x). cbn [c_strings].
    change (44 =? 34) with false. change (44 =? 47) with false. change (10 =? 34) with false. change (10 =? 47) with false.
    cbn iota. rewrite IH. cbn [app]. reflexivity.
  - change ([] ++ [10] ++ ?x) with (10 :: x). cbn [c_strings].
    change (10 =? 34) with false. change (10 =? 47) with false.
    cbn iota. rewrite IH. cbn [app]. reflexivity.
Qed.

Definition xpm_text (name : str) (w h : Z) (bg fg : str) (rows : list (list Z)) : list Z :=
  cps "/* XPM */" ++ [10]
  ++ cps "static char *" ++ name ++ cps "[] = {" ++ [10]
  ++ [34] ++ dec w ++ [32] ++ dec h ++ cps " 2 1" ++ [34; 44; 10]
  ++ [34] ++ cps "  c " ++ bg ++ [34; 44; 10]
  ++ [34] ++ cps "X c " ++ fg ++ [34; 44; 10]
  ++ xpm_rows 0 h rows
  ++ cps "};" ++ [10].

Lemma app_cons_assoc {A} (a b : list A) x c : (a ++ b) ++ x :: c = a ++ b ++ x :: c.
Proof. rewrite <- app_assoc. reflexivity. Qed.

Lemma c_strings_xpm_text name w h bg fg rows :
  name_ok name -> 0 <= w -> 0 <= h -> str_safe bg -> str_safe fg ->
  c_strings (xpm_text name w h bg fg rows) CsOut [] []
  = Some ((dec w ++ [32] ++ dec h ++ cps " 2 1") :: (cps "  c " ++ bg) :: (cps "X c " ++ fg)
          :: map (map xpm_pixel) rows).
Proof.
  intros Hname Hw Hh Hbg Hfg. unfold xpm_text.
  assert (Hpre : forall l acc, c_strings ((cps "/* XPM */" ++ [10] ++ cps "static char *") ++ l) CsOut [] acc
                               = c_strings l CsOut [] acc) by (intros; reflexivity).
  assert (Hmid : forall l acc, c_strings ((cps "[] = {" ++ [10]) ++ l) CsOut [] acc = c_strings l CsOut [] acc)
    by (intros; reflexivity).
  assert (Hsep : forall l acc, c_strings (44 :: 10 :: l) CsOut [] acc = c_strings l CsOut [] acc)
    by (intros; reflexivity).
  change (cps "/* XPM */" ++ [10] ++ cps "static char *" ++ ?x)
    with ((cps "/* XPM */" ++ [10] ++ cps "static char *") ++ x).
  rewrite Hpre. rewrite c_strings_name by exact Hname.
  change (cps "[] = {" ++ [10] ++ ?x) with ((cps "[] = {" ++ [10]) ++ x). rewrite Hmid.
  assert (Hvals : str_safe (dec w ++ [32] ++ dec h ++ cps " 2 1")).
  { apply Forall_app; split; [apply dec_safe; exact Hw|]. apply Forall_app; split; [repeat constructor|].
    apply Forall_app; split; [apply dec_safe; exact Hh|].
    repeat (apply Forall_cons; [reflexivity|]). apply Forall_nil. }
  assert (Hbgl : str_safe (cps "  c " ++ bg)).
  { apply Forall_app; split; [|exact Hbg]. repeat (apply Forall_cons; [reflexivity|]). apply Forall_nil. }
  assert (Hfgl : str_safe (cps "X c " ++ fg)).
  { apply Forall_app; split; [|exact Hfg]. repeat (apply Forall_cons; [reflexivity|]). apply Forall_nil. }
  assert (Hlit : forall s l acc, str_safe s ->
            c_strings ([34] ++ s ++ [34; 44; 10] ++ l) CsOut [] acc = c_strings l CsOut [] (s :: acc)).
  { intros s l acc Hs. change ([34] ++ s ++ [34; 44; 10] ++ l) with (34 :: s ++ 34 :: 44 :: 10 :: l).
    rewrite c_strings_literal by exact Hs. apply Hsep. }
  replace ([34] ++ dec w ++ [32] ++ dec h ++ cps " 2 1" ++ [34; 44; 10] ++
           [34] ++ cps "  c " ++ bg ++ [34; 44; 10] ++ [34] ++ cps "X c " ++ fg ++ [34; 44; 10] ++
           xpm_rows 0 h rows ++ cps "};" ++ [10])
    with ([34] ++ (dec w ++ [32] ++ dec h ++ cps " 2 1") ++ [34; 44; 10] ++
          [34] ++ (cps "  c " ++ bg) ++ [34; 44; 10] ++ [34] ++ (cps "X c " ++ fg) ++ [34; 44; 10] ++
          xpm_rows 0 h rows ++ cps "};" ++ [10])
    by (rewrite <- !app_assoc; reflexivity).
  rewrite !Hlit by assumption.
  rewrite c_strings_rows.
  change (c_strings (cps "};" ++ [10]) CsOut [] ?a) with (Some (rev a)).
  rewrite rev_app_distr, rev_involutive. reflexivity.
Qed.

(** ** 6.3 values line, colour table, pixel rows *)
Lemma xpm_values_line w h : 0 <= w -> 0 <= h ->
  xpm_values (dec w ++ [32] ++ dec h ++ cps " 2 1") = Some (w, h, 2, 1).
Proof.
  intros Hw Hh. unfold xpm_values. rewrite skip_blanks_dec by exact Hw.
  change (dec w ++ [32] ++ dec h ++ cps " 2 1") with (dec w ++ 32 :: (dec h ++ 32 :: asc "2 1")).
  rewrite read_nat_dec; [|exact Hw | reflexivity]. cbn [obind blanks1].
  change (is_blank 32) with true. cbn iota. rewrite skip_blanks_dec by exact Hh. cbn [obind].
  rewrite read_nat_dec; [|exact Hh | reflexivity]. reflexivity.
Qed.

Lemma xpm_entry key col : (exists x t, col = x :: t /\ is_blank x = false) ->
  xpm_color_entry 1 (key :: cps " c " ++ col) = Some ([key], col).
Proof.
  intros [x [t [-> Hx]]]. unfold xpm_color_entry.
  change ((length (key :: cps " c " ++ x :: t) <? 1)%nat) with false. cbn iota.
  change (skipn 1 (key :: cps " c " ++ x :: t)) with (32 :: 99 :: 32 :: x :: t).
  cbn [blanks1 skip_blanks obind]. change (is_blank 32) with true. change (is_blank 99) with false. cbn iota.
  cbn [obind blanks1]. change (is_blank 32) with true. cbn iota. cbn [skip_blanks]. rewrite Hx. reflexivity.
Qed.

Lemma map_opt_map {A B C} (f : B -> option C) (k : A -> B) (g : A -> C) l :
  (forall x, In x l -> f (k x) = Some (g x)) -> map_opt f (map k l) = Some (map g l).
Proof.
  induction l as [|x r IH]; intros H; cbn [map map_opt]; [reflexivity|].
  rewrite (H x (or_introl eq_refl)). cbn [obind]. rewrite IH by (intros y Hy; apply H; right; exact Hy).
  reflexivity.
Qed.

Lemma chunks_1 l : forall fuel, (length l <= fuel)%nat -> chunks fuel 1 l = map (fun c => [c]) l.
Proof.
  induction l as [|c l IH]; intros fuel H; destruct fuel as [|f]; cbn [length] in H; try lia; try reflexivity.
  cbn [chunks map firstn skipn]. rewrite IH by lia. reflexivity.
Qed.

Definition xpm_cell (bg fg : str) (b : Z) : str := if b =? 0 then bg else fg.

Lemma xpm_row_lookup bg fg row :
  map_opt (fun k => lookup k [([32], bg); ([88], fg)]) (chunks (length (map xpm_pixel row)) 1 (map xpm_pixel row))
  = Some (map (xpm_cell bg fg) row).
Proof.
  rewrite chunks_1 by lia. rewrite map_map. apply map_opt_map. intros b _.
  unfold xpm_pixel, xpm_cell. destruct (b =? 0); reflexivity.
Qed.

Lemma read_xpm_text name w h bg fg rows :
  name_ok name -> 0 <= w -> 0 <= h ->
  str_safe bg -> (exists x t, bg = x :: t /\ is_blank x = false) ->
  str_safe fg -> (exists x t, fg = x :: t /\ is_blank x = false) ->
  lenZ rows = h -> (forall row, In row rows -> lenZ row = w) ->
  read_xpm (xpm_text name w h bg fg rows) = Some (w, h, map (map (xpm_cell bg fg)) rows).
Proof.
  intros Hname Hw Hh Hbg Hbg1 Hfg Hfg1 Hrows Hrow. unfold read_xpm.
  assert (Hmagic : strip_prefix (asc "/* XPM */") (xpm_text name w h bg fg rows) <> None).
  { unfold xpm_text. change (cps "/* XPM */") with (asc "/* XPM */"). rewrite strip_prefix_app. discriminate. }
  destruct (strip_prefix (asc "/* XPM */") (xpm_text name w h bg fg rows)); [|contradiction]. cbn [obind].
  rewrite c_strings_xpm_text by assumption. cbn [obind].
  rewrite xpm_values_line by assumption. cbn [obind].
  change (1 <? 1) with false. cbn iota. change (Z.to_nat 2) with 2%nat. change (Z.to_nat 1) with 1%nat.
  assert (Hlen : lenZ ((cps "  c " ++ bg) :: (cps "X c " ++ fg) :: map (map xpm_pixel) rows) = 2 + h).
  { unfold lenZ in *. cbn [length]. rewrite map_length. lia. }
  rewrite Hlen, Z.eqb_refl. cbn [negb firstn skipn map_opt].
  change (cps "  c " ++ bg) with (32 :: cps " c " ++ bg). change (cps "X c " ++ fg) with (88 :: cps " c " ++ fg).
  rewrite !xpm_entry by assumption. cbn [obind].
  rewrite (map_opt_map _ (map xpm_pixel) (map (xpm_cell bg fg))); [reflexivity|].
  intros row Hin.
  assert (E : lenZ (map xpm_pixel row) =? w * 1 = true).
  { unfold lenZ. rewrite map_length. specialize (Hrow row Hin). unfold lenZ in Hrow. lia. }
  rewrite E. apply xpm_row_lookup.
Qed.

(** ** 6.4 the writer *)
(* what write_xpm does, for every matrix and geometry *)
Theorem write_xpm_result : forall m w h scale border dark light name,
  write_xpm m w h scale border dark light name
  = if (scale <? 1) || border_refused border then Err ValueError
    else match xpm_color dark with
         | Err e => Err e
         | Ok fg =>
             match xpm_color light with
             | Err e => Err e
             | Ok bg => let b := get_border w h border in
                        Ok (xpm_text name ((w + 2 * b) * scale) ((h + 2 * b) * scale) bg fg (iter_rows m w h scale b))
             end
         end.
Proof.
  intros m w h scale border dark light name. unfold write_xpm, valid_width_height_and_border.
  rewrite check_valid_scale_spec. destruct (scale <? 1); [reflexivity|]. cbn [bind orb].
  rewrite check_border_z. destruct (border_refused border); [reflexivity|]. cbn [bind].
  destruct (xpm_color dark) as [fg|e]; [|reflexivity]. cbn [bind].
  destruct (xpm_color light) as [bg|e]; reflexivity.
Qed.

(* XPM: declared size = data size; a pixel carries the dark colour iff its module is dark (non-zero),
   the light colour (or None = transparent) otherwise, quiet zone included *)
Theorem xpm_roundtrip : forall m size scale border dark light name fg bg,
  0 < size -> 1 <= scale -> border_refused border = false -> default_ok size border ->
  name_ok name -> xpm_color dark = Ok fg -> xpm_color light = Ok bg ->
  exists out, write_xpm m size size scale border dark light name = Ok out
    /\ read_xpm out = Some (image_side size scale (spec_border size border),
                            image_side size scale (spec_border size border),
                            map (map (xpm_cell bg fg)) (pixel_grid m size scale (spec_border size border))).
Proof.
  intros m size scale border dark light name fg bg Hsize Hs Hb Hdef Hname Hfg Hbg.
  rewrite write_xpm_result. assert (E : scale <? 1 = false) by lia. rewrite E, Hb, Hfg, Hbg. cbn [orb].
  eexists. split; [reflexivity|]. cbv zeta.
  rewrite get_border_spec by exact Hdef.
  pose proof (spec_border_nonneg size border Hb) as Hb0.
  rewrite iter_rows_is_pixel_grid by lia.
  fold (image_side size scale (spec_border size border)).
  destruct (xpm_color_shape _ _ Hfg) as [Hfg1 Hfg2]. destruct (xpm_color_shape _ _ Hbg) as [Hbg1 Hbg2].
  apply read_xpm_text; try assumption.
  - unfold image_side. nia.
  - unfold image_side. nia.
  - apply pixel_grid_length; lia.
  - intros row Hin. apply (pixel_grid_row_length m size scale (spec_border size border)); try lia. exact Hin.
Qed.
Print Assumptions xpm_roundtrip.

(* ------------------------------------------------------------------------------------------------ *)
(** * 7. ANSI terminal *)

Lemma term_run_sgr7 l rv cur acc : term_run (sgr 7 ++ l) TText rv cur acc = term_run l TText true cur acc.
Proof. reflexivity. Qed.
Lemma term_run_sgr49 l rv cur acc : term_run (sgr 49 ++ l) TText rv cur acc = term_run l TText rv cur acc.
Proof. reflexivity. Qed.
Lemma term_run_sgr0 l rv cur acc : term_run (sgr 0 ++ l) TText rv cur acc = term_run l TText false cur acc.
Proof. reflexivity. Qed.

Lemma repeat_snoc_cons {A} (c : A) n cur : repeat c n ++ c :: cur = c :: repeat c n ++ cur.
Proof. induction n as [|n IH]; cbn [repeat app]; [reflexivity|]. rewrite IH. reflexivity. Qed.

Lemma term_run_spaces n : forall l rv cur acc,
  term_run (repeat 32 n ++ l) TText rv cur acc
  = term_run l TText rv (repeat (if rv then 0 else 1) n ++ cur) acc.
Proof.
  induction n as [|n IH]; intros l rv cur acc; [reflexivity|].
  cbn [repeat app term_run]. change (32 =? 27) with false. change (32 =? 32) with true. cbn iota.
  rewrite IH. rewrite repeat_snoc_cons. reflexivity.
Qed.

(* a finished run: colour, 2*cnt blanks, reset *)
Lemma term_flush_run prev cnt : bit01 prev -> 0 < cnt ->
  exists s, term_flush prev cnt = Ok s
    /\ forall l cur acc, term_run (s ++ l) TText false cur acc
                         = term_run l TText false (repeat prev (Z.to_nat (2 * cnt)) ++ cur) acc.
Proof.
  intros Hp Hc. unfold term_flush. assert (E : cnt =? 0 = false) by lia. rewrite E.
  destruct Hp as [-> | ->].
  - change (py_index term_colours 0) with (Ok (sgr 7)). cbn [bind]. eexists. split; [reflexivity|].
    intros l cur acc. rewrite <- !app_assoc. rewrite term_run_sgr7, term_run_spaces, term_run_sgr0. reflexivity.
  - change (py_index term_colours 1) with (Ok (sgr 49)). cbn [bind]. eexists. split; [reflexivity|].
    intros l cur acc. rewrite <- !app_assoc. rewrite term_run_sgr49, term_run_spaces, term_run_sgr0. reflexivity.
Qed.

Definition dbl (row : list Z) : list Z := flat_map (fun b => [b; b]) row.

Lemma rev_dbl_cons b row : rev (dbl (b :: row)) = rev (dbl row) ++ [b; b].
Proof. unfold dbl. cbn [flat_map app rev]. rewrite <- app_assoc. reflexivity. Qed.

Lemma term_row_run row : forall prev cnt, Forall bit01 row ->
  (cnt = 0 /\ prev = -1) \/ (0 < cnt /\ bit01 prev) ->
  exists s, term_row row prev cnt = Ok (s ++ [10])
    /\ forall l cur acc, term_run (s ++ l) TText false cur acc
                         = term_run l TText false (rev (dbl row) ++ repeat prev (Z.to_nat (2 * cnt)) ++ cur) acc.
Proof.
  induction row as [|bit row IH]; intros prev cnt Hrow Hinv.
  - cbn [term_row]. destruct Hinv as [[-> ->] | [Hc Hp]].
    + exists []. split; [reflexivity|]. intros. reflexivity.
    + destruct (term_flush_run prev cnt Hp Hc) as [s [Hs Hrun]]. rewrite Hs. cbn [bind].
      exists s. split; [reflexivity|]. intros. rewrite Hrun. reflexivity.
  - inversion Hrow as [|? ? Hbit Hrow']; subst. cbn [term_row].
    destruct (bit =? prev) eqn:E.
    + assert (bit = prev) by lia. subst bit.
      destruct Hinv as [[-> ->] | [Hc Hp]]; [destruct Hbit; lia|].
      assert (Hc1 : 0 < cnt + 1) by lia.
      destruct (IH prev (cnt + 1) Hrow' (or_intror (conj Hc1 Hp))) as [s [Hs Hrun]].
      exists s. split; [exact Hs|]. intros l cur acc. rewrite Hrun.
      replace (Z.to_nat (2 * (cnt + 1))) with (S (S (Z.to_nat (2 * cnt)))) by lia.
      rewrite rev_dbl_cons. cbn [repeat]. rewrite <- app_assoc. reflexivity.
    + destruct (IH bit 1 Hrow' (or_intror (conj Z.lt_0_1 Hbit))) as [s [Hs Hrun]].
      rewrite Hs.
      assert (Hfl : exists t, term_flush prev cnt = Ok t
                /\ forall l cur acc, term_run (t ++ l) TText false cur acc
                                     = term_run l TText false (repeat prev (Z.to_nat (2 * cnt)) ++ cur) acc).
      { destruct Hinv as [[-> ->] | [Hc Hp]].
        - exists []. split; [reflexivity|]. intros. reflexivity.
        - apply term_flush_run; assumption. }
      destruct Hfl as [t [Ht Htrun]]. rewrite Ht. cbn [bind].
      exists (t ++ s). split; [rewrite app_assoc; reflexivity|]. intros l cur acc.
      rewrite <- app_assoc. rewrite Htrun, Hrun.
      change (Z.to_nat (2 * 1)) with 2%nat.
      rewrite rev_dbl_cons. cbn [repeat]. rewrite <- app_assoc. reflexivity.
Qed.

Lemma pair_cells_dbl row : pair_cells (dbl row) = Some row.
Proof.
  induction row as [|b row IH]; [reflexivity|].
  unfold dbl. cbn [flat_map app pair_cells]. fold (dbl row). rewrite Z.eqb_refl, IH. reflexivity.
Qed.

Lemma term_rows_run rows : bits rows ->
  exists lines, map_res (fun row => term_row row (-1) 0) rows = Ok lines
    /\ forall l acc, term_run (concat lines ++ l) TText false [] acc
                     = term_run l TText false [] (rev rows ++ acc).
Proof.
  induction rows as [|row rows IH]; intros Hb.
  - exists []. split; [reflexivity|]. intros. reflexivity.
  - inversion Hb as [|? ? Hrow Hrows]; subst. cbn [map_res].
    destruct (term_row_run row (-1) 0 Hrow (or_introl (conj eq_refl eq_refl))) as [s [Hs Hrun]].
    destruct (IH Hrows) as [lines [Hl Hlrun]]. rewrite Hs, Hl. cbn [bind].
    exists ((s ++ [10]) :: lines). split; [reflexivity|]. intros l acc.
    cbn [concat]. rewrite <- !app_assoc. rewrite Hrun.
    change (Z.to_nat (2 * 0)) with 0%nat. cbn [repeat app]. rewrite app_nil_r.
    cbn [term_run]. change (10 =? 27) with false. change (10 =? 32) with false. change (10 =? 10) with true.
    cbn iota. rewrite rev_involutive, pair_cells_dbl. cbn [obind].
    rewrite Hlrun. cbn [rev]. rewrite <- app_assoc. reflexivity.
Qed.

(* write_terminal on a 0/1 matrix, any geometry: ValueError exactly for a negative border, otherwise a text
   that the terminal reader turns back into the rows of matrix_iter *)
Theorem write_terminal_result : forall m w h border, bits m ->
  if border_refused border then write_terminal m w h border = Err ValueError
  else exists out, write_terminal m w h border = Ok out
         /\ read_terminal out = Some (iter_rows m w h 1 (get_border w h border)).
Proof.
  intros m w h border Hm. unfold write_terminal. rewrite check_border_z.
  destruct (border_refused border); [reflexivity|]. cbn [bind].
  rewrite check_valid_scale_spec. change (1 <? 1) with false. cbn [bind].
  destruct (term_rows_run _ (iter_rows_bits m w h 1 (get_border w h border) Hm)) as [lines [Hl Hrun]].
  rewrite Hl. cbn [bind]. eexists. split; [reflexivity|].
  unfold read_terminal. rewrite <- (app_nil_r (concat lines)). rewrite Hrun.
  cbn [term_run]. rewrite app_nil_r, rev_involutive. reflexivity.
Qed.

Lemma term_flush_errors prev cnt e : term_flush prev cnt = Err e -> e = IndexErr.
Proof.
  unfold term_flush. destruct (cnt =? 0); [discriminate|].
  unfold py_index, nthZ. destruct (_ <? 0); cbn [bind]; [intros H; inversion H; reflexivity|].
  destruct (nth_error _ _); cbn [bind]; [discriminate|]. intros H. inversion H. reflexivity.
Qed.
Lemma term_row_errors row : forall prev cnt e, term_row row prev cnt = Err e -> e = IndexErr.
Proof.
  induction row as [|bit row IH]; intros prev cnt e; cbn [term_row].
  - destruct (term_flush prev cnt) as [t|e'] eqn:E; cbn [bind]; [discriminate|].
    intros H. inversion H. subst. eapply term_flush_errors. exact E.
  - destruct (bit =? prev); [apply IH|].
    destruct (term_flush prev cnt) as [t|e'] eqn:E; cbn [bind].
    + destruct (term_row row bit 1) as [s|e''] eqn:E2; cbn [bind]; [discriminate|].
      intros H. inversion H. subst. eapply IH. exact E2.
    + intros H. inversion H. subst. eapply term_flush_errors. exact E.
Qed.
(* for any matrix whatsoever: only ValueError (negative border) or IndexError (a cell that is not 0/1, via colours[bit]) *)
Theorem write_terminal_errors : forall m w h border e,
  write_terminal m w h border = Err e -> e = ValueError \/ e = IndexErr.
Proof.
  intros m w h border e. unfold write_terminal. rewrite check_border_z.
  destruct (border_refused border); cbn [bind]; [intros H; inversion H; left; reflexivity|].
  rewrite check_valid_scale_spec. change (1 <? 1) with false. cbn [bind].
  destruct (map_res _ _) as [ls|e'] eqn:E; cbn [bind]; [discriminate|].
  intros H. inversion H. subst e'. right.
  revert E. apply (map_res_err _ (fun x => x = IndexErr)). intros row e'. apply term_row_errors.
Qed.

(* ANSI terminal: one two-blank cell per module, shown in the foreground colour iff the module is light *)
Theorem terminal_roundtrip : forall m size border,
  0 < size -> bits m -> border_refused border = false -> default_ok size border ->
  exists out, write_terminal m size size border = Ok out
    /\ read_terminal out = Some (pixel_grid m size 1 (spec_border size border)).
Proof.
  intros m size border Hsize Hm Hb Hdef.
  pose proof (write_terminal_result m size size border Hm) as H. rewrite Hb in H.
  destruct H as [out [Hw Hr]]. exists out. split; [exact Hw|]. rewrite Hr.
  rewrite get_border_spec by exact Hdef.
  pose proof (spec_border_nonneg size border Hb) as Hb0.
  rewrite iter_rows_is_pixel_grid by lia. reflexivity.
Qed.
Print Assumptions terminal_roundtrip.

(* ------------------------------------------------------------------------------------------------ *)
(** * 8. Compact terminal (half blocks) *)

Definition block_char (t b : Z) : Z :=
  if t =? 1 then (if b =? 1 then 32 else 9604) else (if b =? 1 then 9600 else 9608).

Lemma compact_block_bits t b : bit01 t -> bit01 b ->
  compact_block t b = Ok (block_char t b) /\ half_blocks (block_char t b) = Some (t, b).
Proof. intros [-> | ->] [-> | ->]; split; reflexivity. Qed.

Lemma compact_line_run top : forall bottom, Forall bit01 top -> Forall bit01 bottom -> length top = length bottom ->
  exists s, compact_line top bottom = Ok (s ++ [10])
    /\ forall l tacc bacc acc, compact_run (s ++ l) tacc bacc acc
                               = compact_run l (rev top ++ tacc) (rev bottom ++ bacc) acc.
Proof.
  unfold compact_line.
  induction top as [|t top IH]; intros bottom Ht Hb Hlen; destruct bottom as [|b bottom]; try discriminate.
  - exists []. split; [reflexivity|]. intros. reflexivity.
  - inversion Ht as [|? ? Ht0 Ht']; subst. inversion Hb as [|? ? Hb0 Hb']; subst.
    cbn [length] in Hlen. destruct (IH bottom Ht' Hb' ltac:(lia)) as [s [Hs Hrun]].
    destruct (compact_block_bits t b Ht0 Hb0) as [Hblk Hhalf].
    cbn [combine map_res fst snd]. rewrite Hblk. cbn [bind].
    destruct (map_res _ (combine top bottom)) as [cs|e]; cbn [bind] in Hs; [|discriminate].
    cbn [bind]. inversion Hs as [Hcs].
    exists (block_char t b :: s). split; [cbn [app]; rewrite Hcs; reflexivity|].
    intros l tacc bacc acc. cbn [app compact_run].
    assert (E : block_char t b =? 10 = false)
      by (destruct Ht0 as [-> | ->]; destruct Hb0 as [-> | ->]; reflexivity).
    rewrite E, Hhalf. cbn [obind fst snd]. rewrite Hrun. cbn [rev]. rewrite <- !app_assoc. reflexivity.
Qed.

(* an odd number of rows is completed by a row that is not inked at all, i.e. shows the terminal background,
   which is the colour of DARK modules (value 1) in this rendering *)
Definition compact_pad (n : nat) (rows : list (list Z)) : list (list Z) :=
  if Nat.odd (length rows) then rows ++ [repeat 1 n] else rows.

Lemma compact_lines_run n : forall rows, bits rows -> (forall row, In row rows -> length row = n) ->
  exists out, compact_lines rows = Ok out
    /\ forall l acc, compact_run (out ++ l) [] [] acc = compact_run l [] [] (rev (compact_pad n rows) ++ acc).
Proof.
  assert (Hgen : forall k rows, (length rows <= k)%nat -> bits rows -> (forall row, In row rows -> length row = n) ->
    exists out, compact_lines rows = Ok out
      /\ forall l acc, compact_run (out ++ l) [] [] acc = compact_run l [] [] (rev (compact_pad n rows) ++ acc)).
  { induction k as [|k IH]; intros rows Hk Hb Hn.
    - destruct rows; [|cbn in Hk; lia]. exists []. split; [reflexivity|]. intros. reflexivity.
    - destruct rows as [|top [|bottom rows]].
      + exists []. split; [reflexivity|]. intros. reflexivity.
      + inversion Hb as [|? ? Htop _]; subst.
        assert (Hl : length top = n) by (apply Hn; left; reflexivity).
        destruct (compact_line_run top (repeat 1 (length top)) Htop
                    (Forall_repeat bit01 1 _ (or_intror eq_refl)) ltac:(rewrite repeat_length; reflexivity))
          as [s [Hs Hrun]].
        cbn [compact_lines]. rewrite Hs. exists (s ++ [10]). split; [reflexivity|].
        intros l acc. rewrite <- app_assoc. rewrite Hrun. cbn [app compact_run].
        change (10 =? 10) with true. cbn iota. rewrite !app_nil_r, !rev_involutive.
        unfold compact_pad. cbn [length Nat.odd Nat.even negb app rev]. rewrite Hl. reflexivity.
      + inversion Hb as [|? ? Htop Hb1]; subst. inversion Hb1 as [|? ? Hbot Hb2]; subst.
        assert (Hl1 : length top = n) by (apply Hn; left; reflexivity).
        assert (Hl2 : length bottom = n) by (apply Hn; right; left; reflexivity).
        destruct (compact_line_run top bottom Htop Hbot ltac:(lia)) as [s [Hs Hrun]].
        destruct (IH rows ltac:(cbn [length] in Hk; lia) Hb2 ltac:(intros r Hr; apply Hn; right; right; exact Hr))
          as [out [Ho Horun]].
        cbn [compact_lines]. rewrite Hs, Ho. cbn [bind]. eexists. split; [reflexivity|].
        intros l acc. rewrite <- !app_assoc. rewrite Hrun. cbn [app compact_run].
        change (10 =? 10) with true. cbn iota. rewrite !app_nil_r, !rev_involutive. rewrite Horun.
        unfold compact_pad. cbn [length]. change (Nat.odd (S (S (length rows)))) with (Nat.odd (length rows)).
        destruct (Nat.odd (length rows)); cbn [app rev]; rewrite <- !app_assoc; reflexivity. }
  intros rows. apply (Hgen (length rows)). lia.
Qed.

Lemma compact_block_errors t b e : compact_block t b = Err e -> e = KeyErr.
Proof.
  unfold compact_block.
  repeat match goal with |- context [if ?c then _ else _] => destruct c; [discriminate|] end.
  intros H. inversion H. reflexivity.
Qed.
Lemma compact_lines_errors : forall rows e, compact_lines rows = Err e -> e = KeyErr.
Proof.
  assert (Hline : forall top bottom e, compact_line top bottom = Err e -> e = KeyErr).
  { intros top bottom e. unfold compact_line.
    destruct (map_res _ _) as [cs|e'] eqn:E; cbn [bind]; [discriminate|].
    intros H. inversion H. subst e'. revert E. apply (map_res_err _ (fun x => x = KeyErr)).
    intros p e'. apply compact_block_errors. }
  assert (Hgen : forall k rows e, (length rows <= k)%nat -> compact_lines rows = Err e -> e = KeyErr).
  { induction k as [|k IH]; intros rows e Hk.
    - destruct rows; [discriminate | cbn in Hk; lia].
    - destruct rows as [|top [|bottom rows]]; cbn [compact_lines]; [discriminate | apply Hline |].
      destruct (compact_line top bottom) as [s|e'] eqn:E; cbn [bind].
      + destruct (compact_lines rows) as [t|e''] eqn:E2; cbn [bind]; [discriminate|].
        intros H. inversion H. subst. apply (IH rows); [cbn [length] in Hk; lia | exact E2].
      + intros H. inversion H. subst. eapply Hline. exact E. }
  intros rows e. apply (Hgen (length rows)). lia.
Qed.

(* for any matrix whatsoever: only ValueError (negative border) or KeyError (a cell that is not 0/1, via blocks[pair]) *)
Theorem write_terminal_compact_errors : forall m w h border e,
  write_terminal_compact m w h border = Err e -> e = ValueError \/ e = KeyErr.
Proof.
  intros m w h border e. unfold write_terminal_compact. rewrite check_border_z.
  destruct (border_refused border); cbn [bind]; [intros H; inversion H; left; reflexivity|].
  rewrite check_valid_scale_spec. change (1 <? 1) with false. cbn [bind].
  intros H. right. eapply compact_lines_errors. exact H.
Qed.

Theorem write_terminal_compact_refusal : forall m w h border,
  border_refused border = true -> write_terminal_compact m w h border = Err ValueError.
Proof.
  intros m w h border H. unfold write_terminal_compact. rewrite check_border_z, H. reflexivity.
Qed.

(* Compact terminal: the first n rows read back are the picture (cell inked iff the module is light);
   when n is odd there is one more row, not inked (value 1) *)
Theorem terminal_compact_roundtrip : forall m size border,
  0 < size -> bits m -> border_refused border = false -> default_ok size border ->
  let n := image_side size 1 (spec_border size border) in
  exists out, write_terminal_compact m size size border = Ok out
    /\ read_terminal_compact out
       = Some (compact_pad (Z.to_nat n) (pixel_grid m size 1 (spec_border size border))).
Proof.
  intros m size border Hsize Hm Hb Hdef n.
  unfold write_terminal_compact. rewrite check_border_z, Hb. cbn [bind].
  rewrite check_valid_scale_spec. change (1 <? 1) with false. cbn [bind].
  rewrite get_border_spec by exact Hdef.
  pose proof (spec_border_nonneg size border Hb) as Hb0.
  rewrite iter_rows_is_pixel_grid by lia.
  destruct (compact_lines_run (Z.to_nat n) (pixel_grid m size 1 (spec_border size border))) as [out [Ho Hrun]].
  - apply pixel_grid_bits; try assumption; lia.
  - intros row Hin. apply lenZ_length; [unfold n, image_side; nia|].
    apply (pixel_grid_row_length m size 1 (spec_border size border)); try lia. exact Hin.
  - exists out. split; [exact Ho|]. unfold read_terminal_compact.
    rewrite <- (app_nil_r out). rewrite Hrun. cbn [compact_run]. rewrite app_nil_r, rev_involutive. reflexivity.
Qed.
Print Assumptions terminal_compact_roundtrip.

(* the picture itself is the first n rows; the pad row exists exactly when n is odd *)
Corollary terminal_compact_picture : forall m size border out rows,
  0 < size -> bits m -> border_refused border = false -> default_ok size border ->
  write_terminal_compact m size size border = Ok out -> read_terminal_compact out = Some rows ->
  let n := image_side size 1 (spec_border size border) in
  firstn (Z.to_nat n) rows = pixel_grid m size 1 (spec_border size border)
  /\ skipn (Z.to_nat n) rows = if Z.odd n then [repeat 1 (Z.to_nat n)] else [].
Proof.
  intros m size border out rows Hsize Hm Hb Hdef Hw Hr n.
  destruct (terminal_compact_roundtrip m size border Hsize Hm Hb Hdef) as [out' [Hw' Hr']].
  rewrite Hw in Hw'. inversion Hw'. subst out'. rewrite Hr in Hr'. inversion Hr'. clear Hr' Hw'.
  fold n.
  pose proof (spec_border_nonneg size border Hb) as Hb0.
  assert (Hlen : length (pixel_grid m size 1 (spec_border size border)) = Z.to_nat n).
  { apply lenZ_length; [unfold n, image_side; nia|]. apply pixel_grid_length; lia. }
  unfold compact_pad. rewrite Hlen.
  assert (Hodd : Nat.odd (Z.to_nat n) = Z.odd n).
  { assert (Hn0 : 0 <= n) by (unfold n, image_side; nia).
    rewrite <- (Z2Nat.id n Hn0) at 2. generalize (Z.to_nat n). intros k.
    destruct (Nat.odd k) eqn:E.
    - apply Nat.odd_spec in E. destruct E as [j Hj]. subst k. symmetry. apply Z.odd_spec. exists (Z.of_nat j). lia.
    - symmetry. assert (Hev : Nat.even k = true) by (unfold Nat.odd in E; destruct (Nat.even k); [reflexivity|discriminate]).
      apply Nat.even_spec in Hev. destruct Hev as [j Hj]. subst k.
      destruct (Z.odd (Z.of_nat (2 * j))) eqn:E2; [|reflexivity].
      apply Z.odd_spec in E2. destruct E2 as [i Hi]. lia. }
  rewrite Hodd. destruct (Z.odd n).
  - rewrite <- Hlen. rewrite firstn_app, Nat.sub_diag, firstn_all. cbn [firstn]. rewrite app_nil_r.
    rewrite skipn_app, Nat.sub_diag, skipn_all. cbn [skipn app]. split; reflexivity.
  - rewrite <- Hlen. rewrite firstn_all, skipn_all. split; reflexivity.
Qed.

(* ------------------------------------------------------------------------------------------------ *)
(** * 9. Refusals and exception classes *)

(* every row of matrix_iter has the same length, whatever the arguments *)
Lemma iter_rows_row_len m w h s b row :
  In row (iter_rows m w h s b) -> length row = (Z.to_nat s * Z.to_nat (w + b - - b))%nat.
Proof.
  unfold iter_rows, repeat_each at 1. intros H. apply in_flat_map in H. destruct H as [r [Hr Hin]].
  apply repeat_spec in Hin. subst row. apply in_map_iff in Hr. destruct Hr as [i [<- _]].
  rewrite repeat_each_length, map_length, zrange_length. reflexivity.
Qed.

(* write_terminal_compact on a 0/1 matrix, any geometry *)
Theorem write_terminal_compact_result : forall m w h border, bits m ->
  if border_refused border then write_terminal_compact m w h border = Err ValueError
  else exists out, write_terminal_compact m w h border = Ok out.
Proof.
  intros m w h border Hm. destruct (border_refused border) eqn:Hb; [apply write_terminal_compact_refusal; exact Hb|].
  unfold write_terminal_compact. rewrite check_border_z, Hb. cbn [bind].
  rewrite check_valid_scale_spec. change (1 <? 1) with false. cbn [bind].
  destruct (compact_lines_run _ (iter_rows m w h 1 (get_border w h border))
              (iter_rows_bits m w h 1 _ Hm) (fun row => iter_rows_row_len m w h 1 _ row)) as [out [Ho _]].
  exists out. exact Ho.
Qed.

(** ** colours (XPM) *)
Lemma alpha_value_err c af e : alpha_value c af = Err e -> e = ValueError.
Proof.
  unfold alpha_value. destruct ((0 <=? c) && (c <=? 255)); [|intros H; inversion H; reflexivity].
  destruct af; [destruct (assocZ c _)|]; discriminate.
Qed.

Lemma int16_2_err a b e : int16_2 a b = Err e -> e = ValueError.
Proof.
  unfold int16_2. destruct (hexval a), (hexval b);
    repeat match goal with |- context [if ?c then _ else _] => destruct c end;
    intros H; inversion H; reflexivity.
Qed.

Lemma pairs_hex_err : forall s e, pairs_hex s = Err e -> e = ValueError.
Proof.
  assert (Hgen : forall n s e, (length s <= n)%nat -> pairs_hex s = Err e -> e = ValueError).
  { induction n as [|n IH]; intros s e Hn.
    - destruct s; [discriminate | cbn in Hn; lia].
    - destruct s as [|a [|b r]]; cbn [pairs_hex]; [discriminate | intros H; inversion H; reflexivity |].
      destruct (int16_2 a b) as [v|e'] eqn:E; cbn [bind].
      + destruct (pairs_hex r) as [t|e''] eqn:E2; cbn [bind]; [discriminate|].
        intros H. inversion H. subst. apply (IH r); [cbn [length] in Hn; lia | exact E2].
      + intros H. inversion H. subst. eapply int16_2_err. exact E. }
  intros s e. apply (Hgen (length s)). lia.
Qed.

(* the only non-ValueError exception of the colour parser: the empty string (color[0]) *)
Lemma hex_to_rgb_or_rgba_err s af e :
  hex_to_rgb_or_rgba s af = Err e -> e = ValueError \/ (e = IndexErr /\ s = []).
Proof.
  destruct s as [|c0 rest].
  - cbn [hex_to_rgb_or_rgba]. intros H. inversion H. first [left; reflexivity | right; split; reflexivity].
  - cbn [hex_to_rgb_or_rgba]. cbv zeta.
    match goal with |- context [pairs_hex ?c] => generalize c end. intros col.
    destruct (negb _); [intros H; inversion H; left; reflexivity|].
    destruct (pairs_hex col) as [vals|e'] eqn:E; cbn [bind].
    + destruct (af && _); [|discriminate].
      destruct vals as [|r [|g [|b [|a [|x t]]]]]; try (intros H; inversion H; left; reflexivity).
      destruct (alpha_value a af) as [a'|e'] eqn:E2; cbn [bind]; [discriminate|].
      intros H. inversion H. subst. left. eapply alpha_value_err. exact E2.
    + intros H. inversion H. subst. left. eapply pairs_hex_err. exact E.
Qed.

Lemma color_to_rgba_err c af e :
  color_to_rgba c af = Err e -> e = ValueError \/ (e = IndexErr /\ c = CStr []).
Proof.
  destruct c as [s|parts]; cbn [color_to_rgba].
  - destruct (assoc_str _ _) as [[[r g] b]|]; [discriminate|].
    destruct (hex_to_rgb_or_rgba s af) as [l|e'] eqn:E.
    + destruct l as [|r [|g [|b [|a t]]]]; discriminate.
    + apply hex_to_rgb_or_rgba_err in E.
      destruct e'; intros H; inversion H; subst; (destruct E as [E|[E1 E2]]; [left; exact E | right; split; [exact E1 | rewrite E2; reflexivity]]).
  - cbv zeta. destruct parts as [|r [|g [|b [|a [|x t]]]]]; try (intros H; inversion H; left; reflexivity).
    + destruct (_ && _); intros H; inversion H; left; reflexivity.
    + destruct (_ && _); [|intros H; inversion H; left; reflexivity].
      destruct (alpha_value a af) as [a'|e'] eqn:E; cbn [bind]; [discriminate|].
      intros H. inversion H. subst. left. eapply alpha_value_err. exact E.
Qed.

Lemma color_to_rgb_err c e : color_to_rgb c = Err e -> e = ValueError \/ (e = IndexErr /\ c = CStr []).
Proof.
  unfold color_to_rgb, color_to_rgb_or_rgba.
  destruct (color_to_rgba c true) as [rgba|e'] eqn:E; cbn [bind].
  - assert (Hok : forall (r : res (list Z)), (exists l, r = Ok l) ->
              (do c0 <- r; if lenZ c0 =? 3 then Ok c0 else Err ValueError) = Err e -> e = ValueError).
    { intros r [l ->]. cbn [bind]. destruct (lenZ l =? 3); intros H; inversion H; reflexivity. }
    intros H. left. revert H. apply Hok.
    destruct rgba as [|r [|g [|b [|a [|x t]]]]]; try (eexists; reflexivity).
    destruct (a =? opaque true); eexists; reflexivity.
  - intros H. inversion H. subst. eapply color_to_rgba_err. exact E.
Qed.

Theorem xpm_color_errors : forall c e,
  xpm_color c = Err e -> e = ValueError \/ (e = IndexErr /\ c = Some (CStr [])).
Proof.
  intros [c|] e; cbn [xpm_color]; [|discriminate].
  unfold color_to_rgb_hex. destruct (color_to_rgb c) as [rgb|e'] eqn:E; cbn [bind]; [discriminate|].
  intros H. inversion H. subst. apply color_to_rgb_err in E.
  destruct E as [E|[E1 E2]]; [left; exact E | right; split; [exact E1 | rewrite E2; reflexivity]].
Qed.

(* XPM: ValueError, or the exception raised by the colour parser for the empty colour string; nothing else *)
Theorem write_xpm_errors : forall m w h scale border dark light name e,
  write_xpm m w h scale border dark light name = Err e ->
  e = ValueError \/ (e = IndexErr /\ (dark = Some (CStr []) \/ light = Some (CStr []))).
Proof.
  intros m w h scale border dark light name e. rewrite write_xpm_result.
  destruct ((scale <? 1) || border_refused border); [intros H; inversion H; left; reflexivity|].
  destruct (xpm_color dark) as [fg|e1] eqn:E1.
  - destruct (xpm_color light) as [bg|e2] eqn:E2; [discriminate|].
    intros H. inversion H. subst. destruct (xpm_color_errors _ _ E2) as [Hv|[Hi Hc]]; [left; exact Hv|].
    right. split; [exact Hi | right; exact Hc].
  - intros H. inversion H. subst. destruct (xpm_color_errors _ _ E1) as [Hv|[Hi Hc]]; [left; exact Hv|].
    right. split; [exact Hi | left; exact Hc].
Qed.

(* the concrete input: an empty colour string goes through color[0] *)
Theorem write_xpm_empty_dark : forall m w h scale border light name e,
  1 <= scale -> border_refused border = false ->
  hex_to_rgb_or_rgba [] true = Err e ->
  write_xpm m w h scale border (Some (CStr [])) light name = Err e.
Proof.
  intros m w h scale border light name e Hs Hb He. rewrite write_xpm_result.
  assert (E : scale <? 1 = false) by lia. rewrite E, Hb. cbn [orb].
  assert (Hc : xpm_color (Some (CStr [])) = Err e).
  { cbn [xpm_color]. unfold color_to_rgb_hex, color_to_rgb, color_to_rgb_or_rgba. cbn [color_to_rgba].
    change (assoc_str (py_lower []) _) with (assoc_str [] NAME2RGB).
    assert (Hn : assoc_str [] NAME2RGB = None) by (vm_compute; reflexivity).
    rewrite Hn, He. destruct e; reflexivity. }
  rewrite Hc. reflexivity.
Qed.

(* XBM: only ValueError, exactly for scale < 1 or a negative border; any matrix, any name *)
Theorem write_xbm_errors : forall m w h scale border name e,
  write_xbm m w h scale border name = Err e ->
  e = ValueError /\ (scale < 1 \/ border_refused border = true).
Proof.
  intros m w h scale border name e. rewrite write_xbm_result.
  destruct (scale <? 1) eqn:E1; cbn [orb].
  - intros H. inversion H. split; [reflexivity | left; lia].
  - destruct (border_refused border); [|discriminate]. intros H. inversion H. split; [reflexivity | right; reflexivity].
Qed.

(* ------------------------------------------------------------------------------------------------ *)
(** * 10. Reading the specification grid: the quiet zone is light *)
Lemma quiet_zone_light m size scale b x y :
  ~ (0 <= y / scale - b < size /\ 0 <= x / scale - b < size) -> pixel_spec m size scale b x y = 0.
Proof.
  intros H. unfold pixel_spec, module_at.
  destruct ((0 <=? y / scale - b) && (y / scale - b <? size) && (0 <=? x / scale - b) && (x / scale - b <? size)) eqn:E;
    [exfalso; apply H; lia | reflexivity].
Qed.
