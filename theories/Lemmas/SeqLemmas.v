(* C08: the model of segno's Structured Append encoder (Model/Sequence.v: encode_sequence).
   1. chunking (divide_list / divide_into_chunks): partition, count, sizes
   2. bytes of the chunks concatenate to the bytes of the content (per-character stateless codecs)
   3. parity = XOR of all bytes of the complete message; shape of encode_sequence
   4. headers: position i, total n-1, identical parity, one version
   5. number of symbols, never Micro QR, symbol_count / version alone
   6. known finding D14: a chunk may NOT fit its symbol (refuted with a witness); positive part *)
From Coq Require Import String.
From Coq Require Import ZArith List Bool Lia ZifyBool.
From Segno Require Import Base.PyLite Ref.IsoData Ref.Spec.
From Segno Require Import Model.Bits Model.Segment Model.Version Model.Stream Model.Matrix Model.Encode Model.Sequence.
From Segno Require Import Lemmas.PackLemmas Lemmas.VersionLemmas.
Import ListNotations.
Open Scope Z_scope.
Ltac Zify.zify_post_hook ::= Z.to_euclidean_division_equations.

(* ------------------------------------------------------------------------------------------ *)
(* 0. lists, ranges, slices                                                                   *)
(* ------------------------------------------------------------------------------------------ *)
Lemma zrange_length a b : List.length (zrange a b) = Z.to_nat (b - a).
Proof. unfold zrange. apply zrange_aux_length. Qed.

Lemma zrange_aux_nth n : forall a i d, (i < n)%nat -> nth i (zrange_aux n a) d = a + Z.of_nat i.
Proof.
  induction n as [|n IH]; intros a i d Hi; [lia|].
  cbn [zrange_aux]. destruct i as [|i]; cbn [nth]; [lia|]. rewrite IH by lia. lia.
Qed.
Lemma zrange_nth a b i d : 0 <= i < b - a -> nth (Z.to_nat i) (zrange a b) d = a + i.
Proof. intros Hi. unfold zrange. rewrite zrange_aux_nth by lia. lia. Qed.

Lemma firstn_skipn_add {A} (p q : nat) : forall l : list A,
  firstn p l ++ firstn q (skipn p l) = firstn (p + q) l.
Proof.
  induction p as [|p IH]; intros l; [reflexivity|].
  destruct l as [|x l]; cbn [firstn skipn app Nat.add].
  - now rewrite firstn_nil.
  - now rewrite IH.
Qed.

Lemma skipn_skipn_add {A} (p q : nat) : forall l : list A, skipn q (skipn p l) = skipn (p + q) l.
Proof.
  induction p as [|p IH]; intros l; [reflexivity|].
  destruct l as [|x l]; cbn [skipn Nat.add]; [now rewrite skipn_nil|apply IH].
Qed.

Lemma slice_z_app {A} (l : list A) x y z : 0 <= x <= y -> y <= z ->
  slice_z l x y ++ slice_z l y z = slice_z l x z.
Proof.
  intros Hxy Hyz. unfold slice_z.
  replace (Z.to_nat y) with (Z.to_nat x + Z.to_nat (y - x))%nat by lia.
  rewrite <- skipn_skipn_add. rewrite firstn_skipn_add. f_equal. lia.
Qed.

Lemma slice_z_all {A} (l : list A) : slice_z l 0 (lenZ l) = l.
Proof.
  unfold slice_z, lenZ. cbn [Z.to_nat skipn]. rewrite Z.sub_0_r, Nat2Z.id. apply firstn_all.
Qed.

Lemma slice_z_empty {A} (l : list A) x : slice_z l x x = [].
Proof. unfold slice_z. rewrite Z.sub_diag. reflexivity. Qed.

Lemma slice_z_length {A} (l : list A) x y : 0 <= x <= y -> y <= lenZ l -> lenZ (slice_z l x y) = y - x.
Proof.
  intros Hxy Hy. unfold slice_z, lenZ in *. rewrite firstn_length, skipn_length. lia.
Qed.

(* consecutive slices along a monotone sequence of cut points *)
Lemma concat_slices {A} (l : list A) (f : Z -> Z) n : forall a,
  0 <= f a -> (forall i, a <= i < a + Z.of_nat n -> f i <= f (i + 1)) ->
  concat (map (fun i => slice_z l (f i) (f (i + 1))) (zrange_aux n a)) = slice_z l (f a) (f (a + Z.of_nat n)).
Proof.
  induction n as [|n IH]; intros a H0 Hmono.
  - cbn [zrange_aux map concat]. rewrite Z.add_0_r. now rewrite slice_z_empty.
  - cbn [zrange_aux map concat].
    assert (Hstep : f a <= f (a + 1)) by (apply Hmono; lia).
    rewrite IH; [|lia|intros i Hi; apply Hmono; lia].
    replace (a + 1 + Z.of_nat n) with (a + Z.of_nat (S n)) by lia.
    apply slice_z_app; [lia|].
    (* monotone up to the end *)
    assert (Hle : forall k : nat, (k <= n)%nat -> f (a + 1) <= f (a + 1 + Z.of_nat k)).
    { induction k as [|k IHk]; intros Hk; [rewrite Z.add_0_r; lia|].
      specialize (IHk ltac:(lia)). specialize (Hmono (a + 1 + Z.of_nat k) ltac:(lia)).
      replace (a + 1 + Z.of_nat (S k)) with (a + 1 + Z.of_nat k + 1) by lia. lia. }
    specialize (Hle n (le_n n)). replace (a + Z.of_nat (S n)) with (a + 1 + Z.of_nat n) by lia. exact Hle.
Qed.

(* ------------------------------------------------------------------------------------------ *)
(* 1. chunking                                                                                *)
(* ------------------------------------------------------------------------------------------ *)
(* start of chunk i *)
Definition cut (len num i : Z) : Z := i * (len / num) + Z.min i (len mod num).

Lemma divide_list_cut {A} (data : list A) num :
  divide_list data num =
  map (fun i => slice_z data (cut (lenZ data) num i) (cut (lenZ data) num (i + 1))) (zrange 0 num).
Proof. reflexivity. Qed.

Lemma cut_0 len num : 1 <= num -> cut len num 0 = 0.
Proof. intros Hn. unfold cut. lia. Qed.
Lemma cut_num len num : 1 <= num -> 0 <= len -> cut len num num = len.
Proof. intros Hn Hl. unfold cut. lia. Qed.
Lemma cut_step len num i : 1 <= num -> 0 <= len ->
  cut len num (i + 1) - cut len num i = len / num + (if i <? len mod num then 1 else 0).
Proof.
  intros Hn Hl. unfold cut.
  remember (len / num) as k eqn:Hk. remember (len mod num) as m eqn:Hm. clear Hk Hm.
  destruct (i <? m) eqn:E; lia.
Qed.
Lemma cut_mono len num i : 1 <= num -> 0 <= len -> cut len num i <= cut len num (i + 1).
Proof.
  intros Hn Hl. pose proof (cut_step len num i Hn Hl) as Hs.
  assert (0 <= len / num) by (apply Z.div_pos; lia).
  destruct (i <? len mod num); lia.
Qed.
Lemma cut_le len num i : 1 <= num -> 0 <= len -> 0 <= i <= num -> 0 <= cut len num i <= len.
Proof.
  intros Hn Hl Hi. unfold cut.
  assert (Hk : 0 <= len / num) by (apply Z.div_pos; lia).
  assert (Hm : 0 <= len mod num < num) by (apply Z.mod_pos_bound; lia).
  assert (Hd : len = num * (len / num) + len mod num) by (apply Z.div_mod; lia).
  remember (len / num) as k eqn:Ek. remember (len mod num) as m eqn:Em. clear Ek Em.
  split; [nia|]. nia.
Qed.

(* any number of chunks >= 1, also more chunks than items (then some chunks are empty) *)
Theorem chunks_partition_any {A} (data : list A) num : 1 <= num ->
  concat (divide_list data num) = data.
Proof.
  intros Hn. rewrite divide_list_cut. unfold zrange.
  pose proof (lenZ_nonneg data) as Hl.
  rewrite (concat_slices data (cut (lenZ data) num) (Z.to_nat (num - 0)) 0).
  - rewrite cut_0 by lia. replace (0 + Z.of_nat (Z.to_nat (num - 0))) with num by lia.
    rewrite cut_num by lia. apply slice_z_all.
  - rewrite cut_0; lia.
  - intros i _. apply cut_mono; lia.
Qed.

Theorem chunks_partition {A} (data : list A) num : 1 <= num <= lenZ data ->
  concat (divide_list data num) = data.
Proof. intros Hn. apply chunks_partition_any. lia. Qed.

Theorem chunks_count {A} (data : list A) num : List.length (divide_list data num) = Z.to_nat num.
Proof. unfold divide_list. rewrite map_length, zrange_length. f_equal. lia. Qed.

Lemma divide_list_nth {A} (data : list A) num i d : 0 <= i < num ->
  nth (Z.to_nat i) (divide_list data num) d =
  slice_z data (cut (lenZ data) num i) (cut (lenZ data) num (i + 1)).
Proof.
  intros Hi. rewrite divide_list_cut.
  set (f := fun j => slice_z data (cut (lenZ data) num j) (cut (lenZ data) num (j + 1))).
  rewrite (nth_indep _ d (f 0)) by (rewrite map_length, zrange_length; lia).
  rewrite map_nth. rewrite zrange_nth by lia. reflexivity.
Qed.

(* sizes: the first (len mod num) chunks have one item more *)
Theorem chunks_sizes_any {A} (data : list A) num i d : 1 <= num -> 0 <= i < num ->
  lenZ (nth (Z.to_nat i) (divide_list data num) d) =
  lenZ data / num + (if i <? lenZ data mod num then 1 else 0).
Proof.
  intros Hn Hi. pose proof (lenZ_nonneg data) as Hl.
  rewrite divide_list_nth by exact Hi.
  pose proof (cut_le (lenZ data) num i Hn Hl ltac:(lia)) as H1.
  pose proof (cut_le (lenZ data) num (i + 1) Hn Hl ltac:(lia)) as H2.
  pose proof (cut_mono (lenZ data) num i Hn Hl) as H3.
  rewrite slice_z_length by lia. apply cut_step; lia.
Qed.

Theorem chunks_sizes {A} (data : list A) num : 1 <= num <= lenZ data ->
  forall i d, 0 <= i < num ->
    let c := nth (Z.to_nat i) (divide_list data num) d in
    (lenZ c = lenZ data / num \/ lenZ c = lenZ data / num + 1) /\      (* two sizes *)
    (lenZ c = lenZ data / num + 1 <-> i < lenZ data mod num) /\        (* the longer ones first *)
    1 <= lenZ c.                                                       (* none empty *)
Proof.
  intros Hn i d Hi c. subst c. rewrite chunks_sizes_any by lia.
  assert (Hk : 1 <= lenZ data / num).
  { apply Z.div_le_lower_bound; lia. }
  destruct (i <? lenZ data mod num) eqn:E; repeat split; try lia.
Qed.

Corollary chunks_nonempty {A} (data : list A) num : 1 <= num <= lenZ data ->
  Forall (fun c => 1 <= lenZ c) (divide_list data num).
Proof.
  intros Hn. apply Forall_forall. intros c Hc.
  destruct (In_nth _ _ [] Hc) as (k & Hk & <-). rewrite chunks_count in Hk.
  replace k with (Z.to_nat (Z.of_nat k)) by lia.
  apply (chunks_sizes data num Hn (Z.of_nat k) []). lia.
Qed.

(* the longest chunk is the first one: every chunk is at most as long as chunk 0 *)
Corollary chunks_first_longest {A} (data : list A) num i d : 1 <= num -> 0 <= i < num ->
  lenZ (nth (Z.to_nat i) (divide_list data num) d) <= lenZ (nth 0 (divide_list data num) d).
Proof.
  intros Hn Hi. rewrite chunks_sizes_any by lia.
  change 0%nat with (Z.to_nat 0). rewrite chunks_sizes_any by lia.
  destruct (i <? lenZ data mod num) eqn:E1; destruct (0 <? lenZ data mod num) eqn:E2; lia.
Qed.
Print Assumptions chunks_partition_any.
Print Assumptions chunks_count.
Print Assumptions chunks_sizes.

(* more chunks than items: still a partition, the chunks beyond the items are empty *)
Example ex_chunks_short : divide_list [1; 2; 3] 5 = [[1]; [2]; [3]; []; []].
Proof. vm_compute. reflexivity. Qed.
Example ex_chunks_10_3 : divide_list [0; 1; 2; 3; 4; 5; 6; 7; 8; 9] 3 = [[0; 1; 2; 3]; [4; 5; 6]; [7; 8; 9]].
Proof. vm_compute. reflexivity. Qed.

(* ---- lifted to [scontent] ---- *)
Definition sbytes_of (c : scontent) : list Z := match c with SBytes bs => bs | SText _ => [] end.
Definition schars_of (c : scontent) : list schar := match c with SText cs => cs | SBytes _ => [] end.

Theorem schunks_partition c num : 1 <= num ->
  match c with
  | SBytes bs => divide_into_chunks c num = map SBytes (divide_list bs num) /\
                 concat (map sbytes_of (divide_into_chunks c num)) = bs
  | SText cs => divide_into_chunks c num = map SText (divide_list cs num) /\
                concat (map schars_of (divide_into_chunks c num)) = cs
  end.
Proof.
  intros Hn. destruct c as [bs|cs]; cbn [divide_into_chunks]; (split; [reflexivity|]);
    rewrite map_map; cbn [sbytes_of schars_of]; rewrite map_id; apply chunks_partition_any; exact Hn.
Qed.

Theorem schunks_count c num : List.length (divide_into_chunks c num) = Z.to_nat num.
Proof. destruct c; cbn [divide_into_chunks]; rewrite map_length; apply chunks_count. Qed.

Theorem schunks_sizes c num i d : 1 <= num -> 0 <= i < num ->
  slen (nth (Z.to_nat i) (divide_into_chunks c num) d) = slen c / num + (if i <? slen c mod num then 1 else 0).
Proof.
  intros Hn Hi. destruct c as [bs|cs]; cbn [divide_into_chunks slen].
  - rewrite (nth_indep _ d (SBytes [])) by (rewrite map_length, chunks_count; lia).
    rewrite map_nth. cbn [slen]. apply chunks_sizes_any; assumption.
  - rewrite (nth_indep _ d (SText [])) by (rewrite map_length, chunks_count; lia).
    rewrite map_nth. cbn [slen]. apply chunks_sizes_any; assumption.
Qed.

Corollary schunks_nonempty c num : 1 <= num <= slen c ->
  Forall (fun ch => 1 <= slen ch) (divide_into_chunks c num).
Proof.
  intros Hn. destruct c as [bs|cs]; cbn [divide_into_chunks slen] in *; apply Forall_map;
    cbn [slen]; apply chunks_nonempty; exact Hn.
Qed.
Print Assumptions schunks_partition.
Print Assumptions schunks_count.
Print Assumptions schunks_sizes.

(* ------------------------------------------------------------------------------------------ *)
(* 3a. parity: reduce(xor, bytes)                                                             *)
(* ------------------------------------------------------------------------------------------ *)
Definition xor_bytes (bs : list Z) : Z := fold_right Z.lxor 0 bs.

Theorem xor_all_spec bs : bs <> [] -> xor_all bs = Ok (xor_bytes bs).
Proof.
  induction bs as [|x r IH]; intros Hne; [congruence|].
  destruct r as [|y r'].
  - cbn [xor_all xor_bytes fold_right]. now rewrite Z.lxor_0_r.
  - change (xor_all (x :: y :: r')) with (do z <- xor_all (y :: r'); Ok (Z.lxor x z)).
    rewrite IH by discriminate. reflexivity.
Qed.
Lemma xor_all_nil : xor_all [] = Err TypeErr.
Proof. reflexivity. Qed.
Corollary xor_all_ok bs p : xor_all bs = Ok p -> bs <> [] /\ p = xor_bytes bs.
Proof.
  intros H. destruct bs as [|x r]; [discriminate H|]. split; [discriminate|].
  rewrite xor_all_spec in H by discriminate. now injection H as <-.
Qed.

Lemma xor_bytes_app a b : xor_bytes (a ++ b) = Z.lxor (xor_bytes a) (xor_bytes b).
Proof.
  unfold xor_bytes. induction a as [|x a IH]; cbn [app fold_right]; [reflexivity|].
  rewrite IH. now rewrite Z.lxor_assoc.
Qed.
(* independent of the chunking: the XOR of the chunk XORs *)
Theorem xor_bytes_concat bss : xor_bytes (concat bss) = xor_bytes (map xor_bytes bss).
Proof.
  induction bss as [|b r IH]; [reflexivity|].
  cbn [concat map]. rewrite xor_bytes_app, IH. reflexivity.
Qed.
Corollary xor_bytes_chunks bs num : 1 <= num ->
  xor_bytes (map xor_bytes (divide_list bs num)) = xor_bytes bs.
Proof. intros Hn. rewrite <- xor_bytes_concat. now rewrite chunks_partition_any. Qed.
Lemma xor_bytes_range bs : Forall (fun b => 0 <= b < 256) bs -> 0 <= xor_bytes bs < 256.
Proof.
  intros H. induction H as [|b r Hb Hr IH]; [cbn; lia|].
  cbn [xor_bytes fold_right]. fold (xor_bytes r).
  set (x := xor_bytes r) in *.
  assert (Hnn : 0 <= Z.lxor b x) by (apply Z.lxor_nonneg; lia).
  split; [exact Hnn|].
  destruct (Z.eq_dec (Z.lxor b x) 0) as [Hz|Hnz]; [lia|].
  change 256 with (2 ^ 8).
  apply (proj2 (Z.log2_lt_pow2 (Z.lxor b x) 8 ltac:(lia))).
  eapply Z.le_lt_trans; [apply Z.log2_lxor; lia|].
  apply Z.max_lub_lt.
  - destruct (Z.eq_dec b 0) as [->|Hb0]; [cbn; lia|].
    apply (proj1 (Z.log2_lt_pow2 b 8 ltac:(lia))). change (2 ^ 8) with 256. lia.
  - destruct (Z.eq_dec x 0) as [->|Hr0]; [cbn; lia|].
    apply (proj1 (Z.log2_lt_pow2 x 8 ltac:(lia))). change (2 ^ 8) with 256. lia.
Qed.
Print Assumptions xor_all_spec.
Print Assumptions xor_bytes_concat.

Example ex_parity : xor_all [49; 50; 51; 52] = Ok 4 /\ xor_bytes [49; 50; 51; 52] = 4
  /\ xor_bytes (map xor_bytes (divide_list [49; 50; 51; 52] 3)) = 4.
Proof. vm_compute. repeat split; reflexivity. Qed.

(* ------------------------------------------------------------------------------------------ *)
(* 4. encode_chunks: one symbol per chunk, headers                                            *)
(* ------------------------------------------------------------------------------------------ *)
Tactic Notation "bind_ok" hyp(H) ident(E) ident(x) :=
  match type of H with
  | bind ?X _ = Ok _ => destruct X as [x|] eqn:E; cbn [bind] in H; [|discriminate H]
  end.

Lemma encode_core_fields segs error version mask eci boost sa c :
  encode_core segs error version mask eci boost sa = Ok c ->
  c_version c = version /\ c_segments c = segs /\
  exists buff, data_stream segs (c_error c) version eci sa = Ok buff /\
    (if boost then boost_error_level version error segs eci (match sa with Some _ => true | None => false end)
     else Ok error) = Ok (c_error c).
Proof.
  unfold encode_core. intros H.
  bind_ok H Ee error'. bind_ok H Eb buff. bind_ok H Ef final.
  bind_ok H E1 m1. bind_ok H E2 m2. bind_ok H E3 m3. bind_ok H E4 p. destruct p as [mask' m4].
  bind_ok H E5 m5. bind_ok H E6 m6. injection H as <-. cbn [c_version c_segments c_error].
  split; [reflexivity|]. split; [reflexivity|]. exists buff. split; [exact Eb|reflexivity].
Qed.

(* the Structured Append header: mode 0011, 4 bits position, 4 bits total, 8 bits parity *)
Definition sa_header (sa : sa_info) : bits :=
  bits_of MODE_STRUCTURED_APPEND 4 ++ bits_of (sa_number sa) 4 ++ bits_of (sa_total sa) 4 ++ bits_of (sa_parity sa) 8.

Lemma data_stream_sa_prefix segs error version eci sa buff :
  data_stream segs error version eci (Some sa) = Ok buff ->
  exists rest, buff = sa_header sa ++ rest /\ lenZ (sa_header sa) = 20.
Proof.
  unfold data_stream. intros H.
  bind_ok H Er vr. bind_ok H Eb body. bind_ok H Ec cap. bind_ok H Et b1.
  unfold write_terminator in Et. bind_ok Et Etl t. injection Et as <-. injection H as <-.
  fold (sa_header sa).
  assert (Hlen : lenZ (sa_header sa) = 20).
  { unfold sa_header. rewrite !lenZ_app, !lenZ_bits_of by lia. reflexivity. }
  unfold write_pad_codewords, write_padding_bits.
  repeat match goal with |- context [if ?b then _ else _] => destruct b end;
    repeat rewrite <- app_assoc; eexists; (split; [reflexivity|exact Hlen]).
Qed.

Definition sa_of (i total parity : Z) : sa_info := {| sa_number := i; sa_total := total; sa_parity := parity |}.

Theorem encode_chunks_headers chunks : forall i total parity mode enc error version mask eci boost codes,
  encode_chunks chunks i total parity mode enc error version mask eci boost = Ok codes ->
  List.length codes = List.length chunks /\
  forall k chunk, nth_error chunks k = Some chunk ->
    exists segs code,
      nth_error codes k = Some code /\
      one_item_segments chunk mode enc = Ok segs /\
      encode_core segs error version mask eci boost (Some (sa_of (i + Z.of_nat k) total parity)) = Ok code /\
      c_version code = version /\ c_segments code = segs /\
      exists rest, data_stream segs (c_error code) version eci (Some (sa_of (i + Z.of_nat k) total parity))
                   = Ok (sa_header (sa_of (i + Z.of_nat k) total parity) ++ rest).
Proof.
  induction chunks as [|c r IH]; intros i total parity mode enc error version mask eci boost codes H.
  - cbn [encode_chunks] in H. injection H as <-. split; [reflexivity|]. intros [|k] chunk Hk; discriminate Hk.
  - cbn [encode_chunks] in H.
    bind_ok H Es segs. bind_ok H Ek code. bind_ok H Er rest. injection H as <-.
    destruct (IH _ _ _ _ _ _ _ _ _ _ _ Er) as [Hlen Hnth].
    split; [cbn [List.length]; now rewrite Hlen|].
    intros [|k] chunk Hk; cbn [nth_error] in Hk |- *.
    + injection Hk as <-. exists segs, code. rewrite Z.add_0_r. fold (sa_of i total parity) in Ek.
      destruct (encode_core_fields _ _ _ _ _ _ _ _ Ek) as (Hv & Hs & buff & Hb & _).
      destruct (data_stream_sa_prefix _ _ _ _ _ _ Hb) as (rest' & -> & _).
      repeat split; try assumption. exists rest'. exact Hb.
    + destruct (Hnth k chunk Hk) as (segs' & code' & H1 & H2 & H3 & H4).
      exists segs', code'. replace (i + Z.of_nat (S k)) with (i + 1 + Z.of_nat k) by lia.
      repeat split; try assumption; apply H4.
Qed.
Print Assumptions encode_chunks_headers.

(* the same as a list relation: positions i, i+1, ... in order, total and parity identical, one version *)
Corollary encode_chunks_versions chunks i total parity mode enc error version mask eci boost codes :
  encode_chunks chunks i total parity mode enc error version mask eci boost = Ok codes ->
  Forall (fun c => c_version c = version) codes.
Proof.
  intros H. destruct (encode_chunks_headers _ _ _ _ _ _ _ _ _ _ _ _ H) as [Hlen Hnth].
  apply Forall_forall. intros c Hc. destruct (In_nth_error _ _ Hc) as (k & Hk).
  destruct (nth_error chunks k) as [chunk|] eqn:Hck.
  - destruct (Hnth k chunk Hck) as (segs & code & H1 & _ & _ & Hv & _). congruence.
  - apply nth_error_None in Hck. assert (Hlt : (k < List.length codes)%nat) by (apply nth_error_Some; congruence). lia.
Qed.

(* ------------------------------------------------------------------------------------------ *)
(* 5a. version search restricted to QR, table facts, the symbol count estimate                *)
(* ------------------------------------------------------------------------------------------ *)
Lemma find_version_loop_In segs eci sa vs : forall error v,
  find_version_loop segs eci sa vs error = Ok v -> In v vs.
Proof.
  induction vs as [|x r IH]; intros error v H; cbn [find_version_loop] in H; [discriminate H|].
  cbv zeta in H.
  destruct (capacity x _) as [cap|e].
  - destruct (bit_length_with_overhead segs x eci sa) as [len|e].
    + destruct (len <=? cap); [injection H as <-; now left|right; eapply IH; exact H].
    + destruct e; try discriminate H. right; eapply IH; exact H.
  - destruct e; try discriminate H. right; eapply IH; exact H.
Qed.

(* micro=False: the result is a QR version, whatever the segments are *)
Theorem find_version_qr segs error eci sa v :
  find_version segs error eci (Some false) sa = Ok v -> 1 <= v <= 40.
Proof.
  unfold find_version. cbn [otruthy]. rewrite andb_false_r. cbn [andb bind]. intros H.
  assert (Hin : In v (zrange 1 (40 + 1))).
  { destruct error as [e|]; apply find_version_loop_In in H; exact H. }
  apply zrange_In_inv in Hin. lia.
Qed.
Print Assumptions find_version_qr.

Lemma assocZ_In {A} k (l : list (Z * A)) v : assocZ k l = Some v -> In (k, v) l.
Proof.
  induction l as [|[k' v'] r IH]; cbn [assocZ]; intros H; [discriminate H|].
  destruct (k =? k') eqn:E; [injection H as <-; left; f_equal; lia|right; auto].
Qed.
Lemma assocOZ_In {A} k (l : list (option Z * A)) v : assocOZ k l = Some v -> exists k', In (k', v) l.
Proof.
  induction l as [|[k' v'] r IH]; cbn [assocOZ]; intros H; [discriminate H|].
  destruct (oz_eqb k k'); [injection H as <-; exists k'; now left|].
  destruct (IH H) as (k2 & Hk2). exists k2. now right.
Qed.

Lemma capacity_table_pos :
  forallb (fun row : Z * list (option Z * Z) => forallb (fun p : option Z * Z => 0 <? snd p) (snd row)) SYMBOL_CAPACITY = true.
Proof. vm_compute. reflexivity. Qed.
Lemma capacity_pos v e c : capacity v e = Ok c -> 0 < c.
Proof.
  unfold capacity, getZ, getOZ. intros H.
  destruct (assocZ v SYMBOL_CAPACITY) as [row|] eqn:Er; cbn [bind] in H; [|discriminate H].
  destruct (assocOZ e row) as [c'|] eqn:Ec; [|discriminate H]. injection H as ->.
  apply assocZ_In in Er. apply assocOZ_In in Ec. destruct Ec as (k' & Hk').
  pose proof capacity_table_pos as Hall. rewrite forallb_forall in Hall.
  specialize (Hall _ Er). cbn [snd] in Hall. rewrite forallb_forall in Hall.
  specialize (Hall _ Hk'). cbn [snd] in Hall. lia.
Qed.
Lemma cci_table_nonneg :
  forallb (fun row : Z * list (Z * Z) => forallb (fun p : Z * Z => 0 <=? snd p) (snd row)) CHAR_COUNT_INDICATOR_LENGTH = true.
Proof. vm_compute. reflexivity. Qed.
Lemma cci_nonneg mode vr c : cci_length mode vr = Ok c -> 0 <= c.
Proof.
  unfold cci_length, getZ. intros H.
  destruct (assocZ mode CHAR_COUNT_INDICATOR_LENGTH) as [row|] eqn:Er; cbn [bind] in H; [|discriminate H].
  destruct (assocZ vr row) as [c'|] eqn:Ec; [|discriminate H]. injection H as ->.
  apply assocZ_In in Er. apply assocZ_In in Ec.
  pose proof cci_table_nonneg as Hall. rewrite forallb_forall in Hall.
  specialize (Hall _ Er). cbn [snd] in Hall. rewrite forallb_forall in Hall.
  specialize (Hall _ Ec). cbn [snd] in Hall. lia.
Qed.

Lemma Ok_inj {A} (a b : A) : Ok a = Ok b -> a = b.
Proof. intros H. congruence. Qed.

Lemma ceil_div_pos a b : 1 <= a -> 1 <= b -> 1 <= ceil_div a b.
Proof. intros Ha Hb. unfold ceil_div. apply Z.div_le_lower_bound; lia. Qed.

Lemma calc_bit_length_sa_pos cc vr mode d eci bl : 0 <= cc ->
  calc_qrcode_bit_length cc vr mode d eci true = Ok bl -> 24 <= bl.
Proof.
  intros Hcc. unfold calc_qrcode_bit_length. intros H. bind_ok H Ec cci. cbv zeta in H.
  apply cci_nonneg in Ec.
  match type of H with Ok (_ + ?B) = _ => set (bits := B) in H end.
  assert (Hbits : 0 <= bits).
  { subst bits.
    destruct (mode =? MODE_NUMERIC); [destruct (cc mod 3 =? 1); lia|].
    destruct (mode =? MODE_ALPHANUMERIC); [destruct (cc mod 2 =? 0); lia|].
    destruct (mode =? MODE_BYTE); [lia|].
    destruct ((mode =? MODE_KANJI) || (mode =? MODE_HANZI)); lia. }
  clearbody bits. apply Ok_inj in H. subst bl.
  destruct (eci && (mode =? MODE_BYTE) && negb d); lia.
Qed.

Theorem number_of_symbols_pos len v error mode d eci n : 0 <= len ->
  number_of_symbols_by_version len v error mode d eci = Ok n -> 1 <= n.
Proof.
  intros Hlen. unfold number_of_symbols_by_version. intros H.
  bind_ok H Ev vr. bind_ok H Eb bl. bind_ok H Ec cap. cbv zeta in H. apply Ok_inj in H. subst n.
  apply calc_bit_length_sa_pos in Eb; [|exact Hlen]. apply capacity_pos in Ec.
  assert (Hcnt : 1 <= ceil_div bl cap) by (apply ceil_div_pos; lia).
  apply ceil_div_pos; [|lia].
  destruct eci; nia.
Qed.
Print Assumptions number_of_symbols_pos.

(* max() / the generator of per-chunk versions *)
Lemma max_list_In l : forall m, max_list l = Ok m -> In m l /\ Forall (fun v => v <= m) l.
Proof.
  induction l as [|x r IH]; intros m H; [discriminate H|].
  destruct r as [|y r'].
  - cbn [max_list] in H. apply Ok_inj in H. subst m. split; [now left|constructor; [lia|constructor]].
  - change (max_list (x :: y :: r')) with (do m' <- max_list (y :: r'); Ok (Z.max x m')) in H.
    bind_ok H Em m'. apply Ok_inj in H. subst m. destruct (IH m' eq_refl) as [Hin Hall].
    split.
    + destruct (Z.max_spec x m') as [[_ ->]|[_ ->]]; [now right|now left].
    + constructor; [lia|]. eapply Forall_impl; [|exact Hall]. cbv beta. intros v Hv. lia.
Qed.

Lemma seq_res_map_Forall2 {A B} (f : A -> res B) : forall l vs,
  seq_res (map f l) = Ok vs -> Forall2 (fun x v => f x = Ok v) l vs.
Proof.
  induction l as [|x r IH]; intros vs H; cbn [map seq_res] in H.
  - apply Ok_inj in H. subst vs. constructor.
  - bind_ok H Ex v. bind_ok H Er rest. apply Ok_inj in H. subst vs. constructor; [exact Ex|apply IH; reflexivity].
Qed.

Lemma seq_res_map_In {A B} (f : A -> res B) l vs :
  seq_res (map f l) = Ok vs -> forall v, In v vs -> exists x, In x l /\ f x = Ok v.
Proof.
  intros H. apply seq_res_map_Forall2 in H. induction H as [|x v l vs Hx _ IH]; intros w Hw; [destruct Hw|].
  destruct Hw as [<-|Hw]; [exists x; split; [now left|exact Hx]|].
  destruct (IH w Hw) as (y & Hy & Hfy). exists y. split; [now right|exact Hfy].
Qed.

Lemma chunk_version_qr smode encoding error eci c v : chunk_version smode encoding error eci c = Ok v -> 1 <= v <= 40.
Proof. unfold chunk_version. intros H. bind_ok H Es sg. exact (find_version_qr _ _ _ _ _ H). Qed.

(* ------------------------------------------------------------------------------------------ *)
(* 3b. the shape of encode_sequence                                                           *)
(* ------------------------------------------------------------------------------------------ *)
Definition eff_error (error : option Z) : option Z := match error with None => Some ERROR_LEVEL_L | e => e end.
Definition vor (version : option Z) (g : Z) : Z := match version with Some v => v | None => g end.

(* the single-symbol shortcut: no symbol_count given and the complete content fits the requested version
   (or any QR version if none is requested) *)
Definition single_path (segs : list segment) (error version : option Z) (eci : bool) (symbol_count : option Z) : bool :=
  match symbol_count with
  | Some _ => false
  | None => match find_version segs (eff_error error) eci (Some false) false with
            | Ok g => g <=? vor version g
            | Err _ => false end
  end.

(* content and encoding used for every symbol of the multi-symbol path *)
Definition seq_effective (content : scontent) (encoding : option enc) (smode : Z) : res (scontent * option enc) :=
  match encoding, content with
  | None, SText cs => do (_, e) <- data_to_bytes (pcontent_of content) None;
                      Ok (SText (if smode =? MODE_HANZI then cs else map (retag e) cs), Some e)
  | _, _ => Ok (content, encoding) end.
(* the encoding make_segment uses for a chunk, and encode_sequence for the parity *)
Definition seq_penc (smode : Z) (encoding : option enc) : option enc :=
  if smode =? MODE_HANZI then Some enc_gb2312 else encoding.

Definition seq_args_ok (version symbol_count : option Z) : Prop :=
  (forall v, version = Some v -> 1 <= v) /\ (version = None -> symbol_count <> None) /\
  (forall n, symbol_count = Some n -> 1 <= n <= 16).

Lemma seq_effective_slen content encoding smode content' encoding' :
  seq_effective content encoding smode = Ok (content', encoding') -> slen content' = slen content.
Proof.
  unfold seq_effective. intros H. destruct encoding as [e|]; [injection H as <- _; reflexivity|].
  destruct content as [bs|cs]; [injection H as <- _; reflexivity|].
  bind_ok H Eb p. destruct p as [bs e]. injection H as <- _. cbn [slen].
  destruct (smode =? MODE_HANZI); [reflexivity|]. unfold lenZ. now rewrite map_length.
Qed.

Theorem encode_sequence_shape content error version mode mask encoding eci boost symbol_count codes :
  encode_sequence content error version mode mask encoding eci boost symbol_count = Ok codes ->
  seq_args_ok version symbol_count /\
  exists mask' segs,
    normalize_mask_int mask false = Ok mask' /\
    prepare_data [{| p_content := pcontent_of content; p_mode := mode; p_enc := encoding |}] = Ok segs /\
    if single_path segs error version eci symbol_count
    then exists g k, find_version segs (eff_error error) eci (Some false) false = Ok g /\
           encode_core segs (eff_error error) (vor version g) mask' eci boost None = Ok k /\ codes = [k]
    else exists smode content' encoding' pbytes pe num version',
           nthZ (seg_modes segs) 0 = Ok smode /\
           (forall n, symbol_count = Some n -> n <= slen content) /\
           seq_effective content encoding smode = Ok (content', encoding') /\
           data_to_bytes (pcontent_of content') (seq_penc smode encoding') = Ok (pbytes, pe) /\
           pbytes <> [] /\
           (match version with
            | Some v => number_of_symbols_by_version (slen content') v (eff_error error) smode
                          (enc_is_default encoding') eci
            | None => Ok (match symbol_count with Some n => n | None => 16 end) end) = Ok num /\
           1 <= num <= 16 /\
           (match symbol_count with
            | Some _ => exists vs, seq_res (map (chunk_version smode encoding' (eff_error error) eci)
                                                (divide_into_chunks content' num)) = Ok vs /\
                                   max_list vs = Ok version'
            | None => version = Some version' end) /\
           encode_chunks (divide_into_chunks content' num) 0 (num - 1) (xor_bytes pbytes) smode encoding'
                         (eff_error error) version' mask' eci boost = Ok codes.
Proof.
  intros H. unfold encode_sequence in H. cbv zeta in H.
  change (match error with Some _ => error | None => Some ERROR_LEVEL_L end) with (eff_error error) in H.
  bind_ok H Ev u1. bind_ok H Es u2.
  assert (Hargs : seq_args_ok version symbol_count).
  { split; [|split].
    - intros v ->. destruct (v <? 1) eqn:E; [discriminate Ev|lia].
    - intros -> ->. discriminate Ev.
    - intros n ->. destruct ((1 <=? n) && (n <=? 16)) eqn:E; [lia|discriminate Es]. }
  split; [exact Hargs|]. clear Ev Es u1 u2.
  bind_ok H Em mask'. bind_ok H Ep segs. exists mask', segs. split; [reflexivity|]. split; [reflexivity|].
  bind_ok H Esingle s.
  assert (Hs : if single_path segs error version eci symbol_count
               then exists g k, find_version segs (eff_error error) eci (Some false) false = Ok g /\
                      encode_core segs (eff_error error) (vor version g) mask' eci boost None = Ok k /\ s = Some [k]
               else s = None).
  { unfold single_path. destruct symbol_count as [n|]; [now injection Esingle as <-|].
    destruct (find_version segs (eff_error error) eci (Some false) false) as [g|e] eqn:Eg.
    - fold (vor version g) in Esingle. destruct (g <=? vor version g).
      + bind_ok Esingle Ek k. injection Esingle as <-. exists g, k. repeat split. exact Ek.
      + now injection Esingle as <-.
    - destruct e; try discriminate Esingle; now injection Esingle as <-. }
  clear Esingle.
  destruct (single_path segs error version eci symbol_count).
  { destruct Hs as (g & k & Hg & Hk & ->). injection H as <-. exists g, k. repeat split; assumption. }
  subst s.
  destruct (1 <? lenZ (seg_modes segs)) eqn:Elen; [discriminate H|].
  bind_ok H Emode smode. bind_ok H Echk u3.
  bind_ok H Eeff p. destruct p as [content' encoding']. cbv beta iota in H.
  fold (seq_penc smode encoding') in H.
  bind_ok H Ebytes p. destruct p as [pbytes pe]. cbv beta iota in H.
  bind_ok H Epar parity. bind_ok H Enum num.
  destruct (16 <? num) eqn:E16; [discriminate H|].
  bind_ok H Ever version'.
  apply xor_all_ok in Epar. destruct Epar as [Hne ->].
  assert (Hslen : slen content' = slen content) by (eapply seq_effective_slen; exact Eeff).
  assert (Hnum : 1 <= num <= 16).
  { split; [|lia]. destruct Hargs as (Hv & Hvn & Hn). destruct version as [v|].
    - eapply number_of_symbols_pos; [|exact Enum]. destruct content'; cbn [slen]; apply lenZ_nonneg.
    - apply Ok_inj in Enum. subst num. destruct symbol_count as [n|]; [apply (Hn n eq_refl)|lia]. }
  exists smode, content', encoding', pbytes, pe, num, version'.
  split; [reflexivity|]. split.
  { intros n ->. destruct (slen content <? n) eqn:E; [discriminate Echk|lia]. }
  split; [exact Eeff|]. split; [exact Ebytes|]. split; [exact Hne|]. split; [exact Enum|]. split; [exact Hnum|].
  split.
  { destruct symbol_count as [n|].
    - bind_ok Ever Evs vs. exists vs. split; [reflexivity|exact Ever].
    - destruct version as [v|]; [|discriminate Ever]. now apply Ok_inj in Ever; subst version'. }
  replace (num - 1) with (lenZ (divide_into_chunks content' num) - 1); [exact H|].
  unfold lenZ. rewrite schunks_count. lia.
Qed.
Print Assumptions encode_sequence_shape.

(* the two paths separately *)
Corollary encode_sequence_single_shape content error version mode mask encoding eci boost symbol_count codes :
  encode_sequence content error version mode mask encoding eci boost symbol_count = Ok codes ->
  forall mask' segs,
    normalize_mask_int mask false = Ok mask' ->
    prepare_data [{| p_content := pcontent_of content; p_mode := mode; p_enc := encoding |}] = Ok segs ->
    single_path segs error version eci symbol_count = true ->
    symbol_count = None /\
    exists g k, find_version segs (eff_error error) eci (Some false) false = Ok g /\ g <= vor version g /\
      encode_core segs (eff_error error) (vor version g) mask' eci boost None = Ok k /\ codes = [k].
Proof.
  intros H mask' segs Hm Hp Hsingle.
  destruct (encode_sequence_shape _ _ _ _ _ _ _ _ _ _ H) as (_ & mask2 & segs2 & Hm2 & Hp2 & Hshape).
  rewrite Hm in Hm2. rewrite Hp in Hp2. apply Ok_inj in Hm2. apply Ok_inj in Hp2. subst mask2 segs2.
  rewrite Hsingle in Hshape. destruct Hshape as (g & k & Hg & Hk & ->).
  unfold single_path in Hsingle. destruct symbol_count as [n|]; [discriminate Hsingle|].
  split; [reflexivity|]. exists g, k. rewrite Hg in Hsingle. repeat split; try assumption. lia.
Qed.

Corollary encode_sequence_multi_shape content error version mode mask encoding eci boost symbol_count codes :
  encode_sequence content error version mode mask encoding eci boost symbol_count = Ok codes ->
  forall mask' segs,
    normalize_mask_int mask false = Ok mask' ->
    prepare_data [{| p_content := pcontent_of content; p_mode := mode; p_enc := encoding |}] = Ok segs ->
    single_path segs error version eci symbol_count = false ->
    exists smode content' encoding' pbytes pe num version',
      nthZ (seg_modes segs) 0 = Ok smode /\
      seq_effective content encoding smode = Ok (content', encoding') /\
      (* the bytes of the complete message in the encoding used for the symbols *)
      data_to_bytes (pcontent_of content') (seq_penc smode encoding') = Ok (pbytes, pe) /\
      pbytes <> [] /\ 1 <= num <= 16 /\
      (version = None -> symbol_count = Some num) /\
      (symbol_count = None -> version = Some version') /\
      1 <= version' /\
      encode_chunks (divide_into_chunks content' num) 0 (num - 1) (xor_bytes pbytes) smode encoding'
                    (eff_error error) version' mask' eci boost = Ok codes.
Proof.
  intros H mask' segs Hm Hp Hsingle.
  destruct (encode_sequence_shape _ _ _ _ _ _ _ _ _ _ H) as (Hargs & mask2 & segs2 & Hm2 & Hp2 & Hshape).
  rewrite Hm in Hm2. rewrite Hp in Hp2. apply Ok_inj in Hm2. apply Ok_inj in Hp2. subst mask2 segs2.
  rewrite Hsingle in Hshape.
  destruct Hshape as (smode & content' & encoding' & pbytes & pe & num & version' &
                      Hmode & Hchk & Heff & Hbytes & Hne & Hnum & Hrange & Hver & Hchunks).
  exists smode, content', encoding', pbytes, pe, num, version'.
  destruct Hargs as (Hv & Hvn & Hn).
  repeat split; try assumption; try lia.
  - intros ->. destruct symbol_count as [n|]; [|now specialize (Hvn eq_refl)].
    apply Ok_inj in Hnum. now subst n.
  - intros ->. exact Hver.
  - destruct symbol_count as [n|].
    + destruct Hver as (vs & Hvs & Hmax).
      destruct (max_list_In _ _ Hmax) as [Hin _].
      destruct (seq_res_map_In _ _ _ Hvs _ Hin) as (c & _ & Hc).
      apply chunk_version_qr in Hc. lia.
    + apply Hv. exact Hver.
Qed.
Print Assumptions encode_sequence_multi_shape.

(* ------------------------------------------------------------------------------------------ *)
(* 5b. number of symbols, never Micro QR, symbol_count alone, version alone                   *)
(* ------------------------------------------------------------------------------------------ *)
Theorem seq_count_bounds content error version mode mask encoding eci boost symbol_count codes :
  encode_sequence content error version mode mask encoding eci boost symbol_count = Ok codes ->
  1 <= lenZ codes <= 16.
Proof.
  intros H.
  destruct (encode_sequence_shape _ _ _ _ _ _ _ _ _ _ H) as (_ & mask' & segs & _ & _ & Hshape).
  destruct (single_path segs error version eci symbol_count).
  - destruct Hshape as (g & k & _ & _ & ->). cbn. lia.
  - destruct Hshape as (smode & content' & encoding' & pbytes & pe & num & version' &
                        _ & _ & _ & _ & _ & _ & Hrange & _ & Hchunks).
    apply encode_chunks_headers in Hchunks. destruct Hchunks as [Hlen _].
    unfold lenZ. rewrite Hlen, schunks_count. lia.
Qed.

Theorem seq_never_micro content error version mode mask encoding eci boost symbol_count codes :
  encode_sequence content error version mode mask encoding eci boost symbol_count = Ok codes ->
  Forall (fun c => 1 <= c_version c) codes.
Proof.
  intros H.
  destruct (encode_sequence_shape _ _ _ _ _ _ _ _ _ _ H) as (Hargs & mask' & segs & Hm & Hp & Hshape).
  destruct (single_path segs error version eci symbol_count) eqn:Hsingle.
  - destruct Hshape as (g & k & Hg & Hk & ->). constructor; [|constructor].
    apply encode_core_fields in Hk. destruct Hk as (-> & _).
    destruct Hargs as (Hv & _). destruct version as [v|]; cbn [vor]; [apply Hv; reflexivity|].
    apply find_version_qr in Hg. lia.
  - destruct (encode_sequence_multi_shape _ _ _ _ _ _ _ _ _ _ H mask' segs Hm Hp Hsingle)
      as (smode & content' & encoding' & pbytes & pe & num & version' & _ & _ & _ & _ & _ & _ & _ & Hv1 & Hchunks).
    apply encode_chunks_versions in Hchunks. eapply Forall_impl; [|exact Hchunks].
    cbv beta. intros c ->. exact Hv1.
Qed.

(* symbol_count=k alone: exactly k symbols *)
Theorem seq_symbol_count content error mode mask encoding eci boost k codes :
  encode_sequence content error None mode mask encoding eci boost (Some k) = Ok codes ->
  lenZ codes = k /\ 1 <= k <= 16 /\ k <= slen content.
Proof.
  intros H.
  destruct (encode_sequence_shape _ _ _ _ _ _ _ _ _ _ H) as (Hargs & mask' & segs & Hm & Hp & Hshape).
  cbn [single_path] in Hshape.
  destruct Hshape as (smode & content' & encoding' & pbytes & pe & num & version' &
                      _ & Hchk & _ & _ & _ & Hnum & Hrange & _ & Hchunks).
  apply Ok_inj in Hnum. subst num.
  apply encode_chunks_headers in Hchunks. destruct Hchunks as [Hlen _].
  split; [unfold lenZ; rewrite Hlen, schunks_count; lia|]. split; [exact Hrange|]. apply Hchk. reflexivity.
Qed.

(* version=v alone: only version-v symbols *)
Theorem seq_fixed_version content error v mode mask encoding eci boost codes :
  encode_sequence content error (Some v) mode mask encoding eci boost None = Ok codes ->
  Forall (fun c => c_version c = v) codes /\ 1 <= v.
Proof.
  intros H.
  destruct (encode_sequence_shape _ _ _ _ _ _ _ _ _ _ H) as (Hargs & mask' & segs & Hm & Hp & Hshape).
  split; [|destruct Hargs as (Hv & _); apply Hv; reflexivity].
  destruct (single_path segs error (Some v) eci None).
  - destruct Hshape as (g & k & Hg & Hk & ->). constructor; [|constructor].
    apply encode_core_fields in Hk. destruct Hk as (-> & _). reflexivity.
  - destruct Hshape as (smode & content' & encoding' & pbytes & pe & num & version' &
                        _ & _ & _ & _ & _ & _ & _ & Hver & Hchunks).
    injection Hver as <-. apply encode_chunks_versions in Hchunks. exact Hchunks.
Qed.
Print Assumptions seq_count_bounds.
Print Assumptions seq_never_micro.
Print Assumptions seq_symbol_count.
Print Assumptions seq_fixed_version.

(* with both arguments the version decides the count and symbol_count only the search of the version:
   neither "k symbols" nor "version v" holds then (model level) *)

(* ------------------------------------------------------------------------------------------ *)
(* 2. payload concatenation: per-character stateless codecs                                  *)
(* ------------------------------------------------------------------------------------------ *)
Definition cc_step (acc r : codec_result) : codec_result :=
  match acc, r with
  | CROk a, CROk b => CROk (a ++ b)
  | CROk _, e => e
  | e, _ => e end.
Lemma cat_codec_fold rs : cat_codec rs = fold_left cc_step rs (CROk []).
Proof. reflexivity. Qed.

Lemma cc_fold_unicode rs : fold_left cc_step rs CRUnicode = CRUnicode.
Proof. induction rs as [|r rs IH]; [reflexivity|exact IH]. Qed.
Lemma cc_fold_lookup rs : fold_left cc_step rs CRLookup = CRLookup.
Proof. induction rs as [|r rs IH]; [reflexivity|exact IH]. Qed.

Lemma cc_fold_acc rs : forall a,
  fold_left cc_step rs (CROk a) =
  match fold_left cc_step rs (CROk []) with CROk b => CROk (a ++ b) | e => e end.
Proof.
  induction rs as [|r rs IH]; intros a; cbn [fold_left].
  - now rewrite app_nil_r.
  - destruct r as [b| |]; cbn [cc_step app].
    + rewrite (IH (a ++ b)), (IH b). destruct (fold_left cc_step rs (CROk [])); try reflexivity.
      now rewrite app_assoc.
    + now rewrite cc_fold_unicode.
    + now rewrite cc_fold_lookup.
Qed.

(* concatenating two texts: the first error wins, otherwise the bytes concatenate *)
Theorem cat_codec_app l1 l2 :
  cat_codec (l1 ++ l2) =
  match cat_codec l1 with
  | CROk a => match cat_codec l2 with CROk b => CROk (a ++ b) | e => e end
  | e => e end.
Proof.
  rewrite !cat_codec_fold, fold_left_app.
  destruct (fold_left cc_step l1 (CROk [])) as [a| |].
  - apply cc_fold_acc.
  - apply cc_fold_unicode.
  - apply cc_fold_lookup.
Qed.
Corollary cat_codec_app_ok l1 l2 a b :
  cat_codec l1 = CROk a -> cat_codec l2 = CROk b -> cat_codec (l1 ++ l2) = CROk (a ++ b).
Proof. intros H1 H2. now rewrite cat_codec_app, H1, H2. Qed.
Corollary cat_codec_app_inv l1 l2 bs : cat_codec (l1 ++ l2) = CROk bs ->
  exists a b, cat_codec l1 = CROk a /\ cat_codec l2 = CROk b /\ bs = a ++ b.
Proof.
  rewrite cat_codec_app. destruct (cat_codec l1) as [a| |]; try discriminate.
  destruct (cat_codec l2) as [b| |]; try discriminate. intros H. injection H as <-. now exists a, b.
Qed.
Print Assumptions cat_codec_app.

(* a text cut into pieces, any projection [proj] (one codec) of the characters *)
Lemma cat_codec_pieces (proj : schar -> codec_result) (pieces : list (list schar)) : forall bs,
  cat_codec (map proj (concat pieces)) = CROk bs ->
  exists bss, Forall2 (fun p b => cat_codec (map proj p) = CROk b) pieces bss /\ concat bss = bs.
Proof.
  induction pieces as [|p r IH]; intros bs H.
  - cbn in H. injection H as <-. exists []. split; [constructor|reflexivity].
  - cbn [concat] in H. rewrite map_app in H. apply cat_codec_app_inv in H.
    destruct H as (a & b & Ha & Hb & ->). destruct (IH b Hb) as (bss & HF & <-).
    exists (a :: bss). split; [constructor; assumption|reflexivity].
Qed.

Lemma Forall2_map_left {A B C} (f : A -> B) (P : B -> C -> Prop) l l' :
  Forall2 (fun a c => P (f a) c) l l' -> Forall2 P (map f l) l'.
Proof. intros H. induction H; cbn [map]; constructor; assumption. Qed.
Lemma Forall2_weaken {A B} (P Q : A -> B -> Prop) l l' :
  (forall a b, P a b -> Q a b) -> Forall2 P l l' -> Forall2 Q l l'.
Proof. intros HPQ H. induction H; constructor; auto. Qed.
Lemma Forall2_diag {A} (P : A -> A -> Prop) l : (forall x, P x x) -> Forall2 P l l.
Proof. intros H. induction l; constructor; auto. Qed.

(* The bytes of the chunks, all under ONE fixed encoding, concatenate to the bytes of the content.
   For text an encoding must be in force ([enc = None] is the per-chunk fallback chain: see the
   counterexample below). *)
Theorem chunks_bytes_concat c num enc bs pe : 1 <= num ->
  (enc = None -> exists b, c = SBytes b) ->
  data_to_bytes (pcontent_of c) enc = Ok (bs, pe) ->
  exists bss, Forall2 (fun chunk b => data_to_bytes (pcontent_of chunk) enc = Ok (b, pe))
                      (divide_into_chunks c num) bss /\ concat bss = bs.
Proof.
  intros Hn Henc H. destruct c as [b|cs].
  - cbn [pcontent_of data_to_bytes] in H. injection H as <- <-.
    exists (divide_list b num). split; [|now apply chunks_partition_any].
    cbn [divide_into_chunks]. apply Forall2_map_left. apply Forall2_diag. intros x. reflexivity.
  - destruct enc as [e|]; [|destruct (Henc eq_refl) as (b & Hb); discriminate Hb].
    cbn [pcontent_of data_to_bytes] in H.
    destruct (cat_codec (map ch_given cs)) as [g| |] eqn:Eg; cbn [of_codec bind] in H; try discriminate H.
    injection H as <- <-.
    rewrite <- (chunks_partition_any cs num Hn) in Eg.
    destruct (cat_codec_pieces ch_given _ _ Eg) as (bss & HF & Hc).
    exists bss. split; [|exact Hc]. cbn [divide_into_chunks]. apply Forall2_map_left.
    eapply Forall2_weaken; [|exact HF]. cbv beta. intros p b0 Hp.
    cbn [pcontent_of data_to_bytes]. rewrite Hp. reflexivity.
Qed.
Print Assumptions chunks_bytes_concat.

(* without a fixed encoding the chunks may fall back differently: a two-character text whose first
   character alone is Latin-1 but which as a whole is only UTF-8 *)
Definition ex_ch1 : schar := {| ch_given := CRLookup; ch_latin1 := CROk [233]; ch_sjis := CRUnicode; ch_utf8 := CROk [195; 169] |}.
Definition ex_ch2 : schar := {| ch_given := CRLookup; ch_latin1 := CRUnicode; ch_sjis := CRUnicode; ch_utf8 := CROk [226; 130; 172] |}.
Example ex_fallback_not_chunkwise :
  data_to_bytes (pcontent_of (SText [ex_ch1; ex_ch2])) None = Ok ([195; 169; 226; 130; 172], enc_utf8) /\
  map (fun c => data_to_bytes (pcontent_of c) None) (divide_into_chunks (SText [ex_ch1; ex_ch2]) 2)
  = [Ok ([233], enc_latin1); Ok ([226; 130; 172], enc_utf8)].
Proof. vm_compute. split; reflexivity. Qed.

(* this is why encode_sequence fixes the encoding first: [retag] makes the encoding found for the complete
   text "the requested one"; the bytes of the complete text do not change *)
Theorem seq_effective_bytes content encoding smode content' encoding' bs pe :
  seq_effective content encoding smode = Ok (content', encoding') -> (smode =? MODE_HANZI) = false ->
  data_to_bytes (pcontent_of content) encoding = Ok (bs, pe) ->
  data_to_bytes (pcontent_of content') encoding' = Ok (bs, pe).
Proof.
  unfold seq_effective. intros H Hm Hb.
  destruct encoding as [e|]; [injection H as <- <-; exact Hb|].
  destruct content as [b|cs]; [injection H as <- <-; exact Hb|].
  rewrite Hb in H. cbn [bind] in H. rewrite Hm in H. injection H as <- <-.
  cbn [pcontent_of data_to_bytes] in Hb |- *. rewrite !map_map.
  destruct (cat_codec (map ch_latin1 cs)) as [l| |] eqn:El.
  { injection Hb as <- <-. cbn [retag ch_given]. change (map _ cs) with (map ch_latin1 cs). now rewrite El. }
  all: destruct (cat_codec (map ch_sjis cs)) as [s| |] eqn:Es;
    [injection Hb as <- <-; change (map _ cs) with (map ch_sjis cs); now rewrite Es|..];
    destruct (cat_codec (map ch_utf8 cs)) as [u| |] eqn:Eu; cbn [of_codec bind] in Hb; try discriminate Hb;
    injection Hb as <- <-; change (map _ cs) with (map ch_utf8 cs); now rewrite Eu.
Qed.
Print Assumptions seq_effective_bytes.

Lemma seq_effective_enc content encoding smode content' encoding' :
  seq_effective content encoding smode = Ok (content', encoding') ->
  encoding' = None -> exists b, content' = SBytes b.
Proof.
  unfold seq_effective. intros H ->. destruct encoding as [e|]; [discriminate H|].
  destruct content as [b|cs]; [injection H as <-; now exists b|].
  bind_ok H Eb p. destruct p as [x e]. discriminate H.
Qed.

(* ------------------------------------------------------------------------------------------ *)
(* 2b. what the symbols carry: the payload of symbol k is the packing of the bytes of chunk k  *)
(* ------------------------------------------------------------------------------------------ *)
Lemma make_segment_mode c m encoding s : make_segment c (Some m) encoding = Ok s -> s_mode s = m.
Proof.
  unfold make_segment. intros H.
  destruct (data_to_bytes c _) as [[data senc]|e]; [|discriminate H].
  cbn [bind] in H.
  match type of H with context [if m <? ?g then _ else _] => destruct (m <? g) end; [discriminate H|].
  cbn [bind] in H.
  match type of H with (if ?b then _ else _) = _ => destruct b end; [discriminate H|].
  match type of H with bind ?X _ = _ => destruct X as [bs|e] end; [|discriminate H].
  cbn [bind] in H. injection H as <-. reflexivity.
Qed.

Definition carries (mode : Z) (code : code) (data : list Z) : Prop :=
  exists s, c_segments code = [s] /\ s_mode s = mode /\
            pack_mode mode data = Ok (s_bits s) /\ s_count s = count_mode mode data.

Theorem encode_chunks_payloads chunks : forall i total parity mode enc error version mask eci boost codes,
  encode_chunks chunks i total parity mode enc error version mask eci boost = Ok codes ->
  Forall2 (fun chunk code => exists data senc,
             data_to_bytes (pcontent_of chunk) (seq_penc mode enc) = Ok (data, senc) /\ carries mode code data)
          chunks codes.
Proof.
  induction chunks as [|c r IH]; intros i total parity mode enc error version mask eci boost codes H;
    cbn [encode_chunks] in H.
  - injection H as <-. constructor.
  - bind_ok H Es segs. bind_ok H Ek code. bind_ok H Er rest. injection H as <-.
    constructor; [|eapply IH; exact Er].
    unfold one_item_segments in Es. bind_ok Es Em s. injection Es as <-.
    pose proof (make_segment_mode _ _ _ _ Em) as Hmode.
    destruct (make_segment_pack _ _ _ _ Em) as (data & senc & Hd & Hp & Hc).
    exists data, senc. split; [exact Hd|].
    apply encode_core_fields in Ek. destruct Ek as (_ & Hsegs & _).
    exists s. rewrite Hmode in Hp, Hc. repeat split; assumption.
Qed.
Print Assumptions encode_chunks_payloads.

Lemma Forall2_join {A B C} (P : A -> B -> Prop) (Q : A -> C -> Prop) l l1 l2 :
  Forall2 P l l1 -> Forall2 Q l l2 -> Forall2 (fun b c => exists a, P a b /\ Q a c) l1 l2.
Proof.
  intros H. revert l2. induction H as [|a b l l1 Hab Hl IH]; intros l2 H2; inversion H2; subst; constructor.
  - exists a. split; assumption.
  - apply IH. assumption.
Qed.

(* The multi-symbol path, complete: n = number of symbols (1..16), symbol k carries the header
   (position k, total n-1, parity) and the packed bytes data_k; the data_k concatenate to the bytes of
   the complete message (in the one encoding used for all symbols) and the parity of every header is
   the XOR of all those bytes. *)
Theorem C08_model_multi content error version mode mask encoding eci boost symbol_count codes mask' segs :
  encode_sequence content error version mode mask encoding eci boost symbol_count = Ok codes ->
  normalize_mask_int mask false = Ok mask' ->
  prepare_data [{| p_content := pcontent_of content; p_mode := mode; p_enc := encoding |}] = Ok segs ->
  single_path segs error version eci symbol_count = false ->
  exists smode content' encoding' pbytes pe datas,
    seq_effective content encoding smode = Ok (content', encoding') /\
    data_to_bytes (pcontent_of content') (seq_penc smode encoding') = Ok (pbytes, pe) /\
    1 <= lenZ codes <= 16 /\
    Forall2 (carries smode) codes datas /\
    concat datas = pbytes /\
    forall k code, nth_error codes k = Some code ->
      let sa := sa_of (Z.of_nat k) (lenZ codes - 1) (xor_bytes pbytes) in
      1 <= c_version code /\ c_version code = c_version (nth 0 codes code) /\
      exists rest, data_stream (c_segments code) (c_error code) (c_version code) eci (Some sa)
                   = Ok (sa_header sa ++ rest).
Proof.
  intros H Hm Hp Hsingle.
  destruct (encode_sequence_multi_shape _ _ _ _ _ _ _ _ _ _ H mask' segs Hm Hp Hsingle)
    as (smode & content' & encoding' & pbytes & pe & num & version' &
        Hmode & Heff & Hbytes & Hne & Hnum & _ & _ & Hv1 & Hchunks).
  assert (Hpenc : seq_penc smode encoding' = None -> exists b, content' = SBytes b).
  { unfold seq_penc. destruct (smode =? MODE_HANZI); [discriminate|].
    apply (seq_effective_enc _ _ _ _ _ Heff). }
  destruct (chunks_bytes_concat content' num _ _ _ ltac:(lia) Hpenc Hbytes) as (datas & HF & Hcat).
  pose proof (encode_chunks_payloads _ _ _ _ _ _ _ _ _ _ _ _ Hchunks) as HP.
  destruct (encode_chunks_headers _ _ _ _ _ _ _ _ _ _ _ _ Hchunks) as [Hlen Hnth].
  pose proof (encode_chunks_versions _ _ _ _ _ _ _ _ _ _ _ _ Hchunks) as Hvers.
  assert (HlenZ : lenZ codes = num) by (unfold lenZ; rewrite Hlen, schunks_count; lia).
  exists smode, content', encoding', pbytes, pe, datas.
  split; [exact Heff|]. split; [exact Hbytes|]. split; [lia|]. split; [|split; [exact Hcat|]].
  - eapply Forall2_weaken; [|exact (Forall2_join _ _ _ _ _ HP HF)]. cbv beta.
    intros code data (chunk & (d & senc & Hd & Hcar) & Hd2). rewrite Hd in Hd2. injection Hd2 as -> _. exact Hcar.
  - intros k code Hk. cbv zeta. rewrite HlenZ.
    rewrite Forall_forall in Hvers.
    assert (Hvk : c_version code = version') by (apply Hvers; eapply nth_error_In; exact Hk).
    assert (Hv0 : c_version (nth 0 codes code) = version').
    { apply Hvers. apply nth_In.
      destruct codes; [destruct k; discriminate Hk|cbn; lia]. }
    split; [lia|]. split; [congruence|].
    destruct (nth_error (divide_into_chunks content' num) k) as [chunk|] eqn:Hck.
    + destruct (Hnth k chunk Hck) as (sg & code2 & H1 & _ & _ & Hv & Hs & rest & Hds).
      rewrite Hk in H1. injection H1 as <-. exists rest. rewrite Hv, Hs. rewrite Z.add_0_l in Hds. exact Hds.
    + apply nth_error_None in Hck.
      assert (Hlt : (k < List.length codes)%nat) by (apply nth_error_Some; congruence). lia.
Qed.
Print Assumptions C08_model_multi.

(* ------------------------------------------------------------------------------------------ *)
(* 6. known finding D14: a chunk may exceed its symbol                                         *)
(* ------------------------------------------------------------------------------------------ *)
(* 6a. positive part: if no chunk overflows, every symbol's bit count (with the 20 header bits) is
   within the capacity of the symbol at the level finally used (error boosting included) *)
Lemma boost_loop_fits version len levels : forall e e',
  boost_loop version len levels e = Ok e' ->
  e' = e \/ exists cap, capacity version (Some e') = Ok cap /\ len <= cap.
Proof.
  induction levels as [|l r IH]; intros e e' H; cbn [boost_loop] in H.
  - apply Ok_inj in H. now left.
  - destruct (capacity version (Some l)) as [cap|x] eqn:Ec; cbn [bind] in H; [|discriminate H].
    destruct (len <=? cap) eqn:El.
    + destruct (IH l e' H) as [->|Hr]; [|right; exact Hr]. right. exists cap. split; [exact Ec|lia].
    + apply Ok_inj in H. now left.
Qed.

Lemma boost_keeps_fit (boost : bool) version error segs eci err' l cap :
  (if boost then boost_error_level version error segs eci true else Ok error) = Ok err' ->
  bit_length_with_overhead segs version eci true = Ok l ->
  capacity version err' = Ok cap ->
  (forall cap0, capacity version error = Ok cap0 -> l <= cap0) ->
  l <= cap.
Proof.
  intros Hb Hl Hc Hfit. destruct boost; [|apply Ok_inj in Hb; subst err'; now apply Hfit].
  unfold boost_error_level in Hb. destruct error as [e|]; [|apply Ok_inj in Hb; subst err'; now apply Hfit].
  destruct ((e =? ERROR_LEVEL_H) || negb (lenZ segs =? 1)); [apply Ok_inj in Hb; subst err'; now apply Hfit|].
  rewrite Hl in Hb. cbn [bind] in Hb.
  bind_ok Hb Ed higher. bind_ok Hb Eb e'. apply Ok_inj in Hb. subst err'.
  destruct (boost_loop_fits _ _ _ _ _ Eb) as [->|(cap' & Hc' & Hle)]; [now apply Hfit|].
  rewrite Hc in Hc'. apply Ok_inj in Hc'. now subst cap'.
Qed.

Lemma write_segments_cci segs ver vr eci : forall body,
  write_segments segs ver vr eci = Ok body ->
  exists z, sum_res (map (fun m => cci_length m vr) (seg_modes segs)) = Ok z.
Proof.
  induction segs as [|s r IH]; intros body H; [exists 0; reflexivity|].
  cbn [write_segments] in H. bind_ok H Ea a. bind_ok H Eb b.
  destruct (IH b eq_refl) as (z & Hz).
  unfold write_segment in Ea. bind_ok Ea E1 h1. bind_ok Ea E2 h2. bind_ok Ea E3 cci.
  exists (cci + z). unfold seg_modes in *. cbn [map sum_res]. rewrite E3, Hz. reflexivity.
Qed.

Lemma data_stream_bit_length segs error version eci sa buff is_sa :
  data_stream segs error version eci sa = Ok buff ->
  exists l cap, bit_length_with_overhead segs version eci is_sa = Ok l /\ capacity version error = Ok cap.
Proof.
  unfold data_stream. intros H. bind_ok H Er vr. bind_ok H Eb body. bind_ok H Ec cap.
  apply write_segments_cci in Eb. destruct Eb as (z & Hz).
  unfold bit_length_with_overhead.
  assert (Hvr : (if 0 <? version then version_range version else Ok version) = Ok vr).
  { destruct (version <? 1) eqn:E1; destruct (0 <? version) eqn:E0; try lia; exact Er. }
  rewrite Hvr. cbn [bind]. rewrite Hz. cbn [bind]. eexists. exists cap. split; reflexivity.
Qed.

Theorem seq_fits_partial chunks : forall i total parity mode enc error version mask eci boost codes,
  encode_chunks chunks i total parity mode enc error version mask eci boost = Ok codes ->
  forallb (fun c => negb (chunk_overflows c mode enc error version eci)) chunks = true ->
  Forall (fun code => exists l cap,
            bit_length_with_overhead (c_segments code) version eci true = Ok l /\
            capacity version (c_error code) = Ok cap /\ l <= cap) codes.
Proof.
  induction chunks as [|c r IH]; intros i total parity mode enc error version mask eci boost codes H Hno;
    cbn [encode_chunks] in H.
  - apply Ok_inj in H. subst codes. constructor.
  - bind_ok H Es segs. bind_ok H Ek code. bind_ok H Er rest. apply Ok_inj in H. subst codes.
    cbn [forallb] in Hno. apply andb_prop in Hno. destruct Hno as [Hc Hr].
    constructor; [|eapply IH; [exact Er|exact Hr]].
    destruct (encode_core_fields _ _ _ _ _ _ _ _ Ek) as (_ & Hsegs & buff & Hds & Hboost).
    destruct (data_stream_bit_length _ _ _ _ _ _ true Hds) as (l & cap & Hl & Hcap).
    rewrite Hsegs. exists l, cap. split; [exact Hl|]. split; [exact Hcap|].
    eapply boost_keeps_fit; [exact Hboost|exact Hl|exact Hcap|].
    intros cap0 Hcap0. unfold chunk_overflows in Hc. rewrite Es, Hl, Hcap0 in Hc. lia.
Qed.
Print Assumptions seq_fits_partial.

(* 6a'. symbol_count=k: EVERY chunk fits.  The version of all symbols is the highest version any chunk needs with its
   header (find_version per chunk); a chunk that fits version v at level e also fits every version w >= v at that level:
   from one QR version to the next the capacity grows at least as much as the character count indicator (table sweep). *)
Definition cci_at (m v : Z) : res Z := do vr <- version_range v; cci_length m vr.

Lemma slack_step_all :
  forallb (fun v => forallb (fun e => forallb (fun m =>
     match capacity v (Some e), cci_at m v with
     | Ok c, Ok k => match capacity (v + 1) (Some e), cci_at m (v + 1) with
                     | Ok c', Ok k' => c - k <=? c' - k'
                     | _, _ => false end
     | _, _ => true end) [1; 2; 4; 8; 13]) [0; 1; 2; 3]) (zrange 1 40) = true.
Proof. vm_compute. reflexivity. Qed.

Lemma level_keys_all :
  forallb (fun row : Z * list (option Z * Z) =>
             forallb (fun kv : option Z * Z => match fst kv with Some e => memZ e [0; 1; 2; 3] | None => true end) (snd row))
          SYMBOL_CAPACITY = true.
Proof. vm_compute. reflexivity. Qed.

Lemma cci_mode_keys : map fst CHAR_COUNT_INDICATOR_LENGTH = [1; 2; 4; 8; 13].
Proof. vm_compute. reflexivity. Qed.

Lemma assocOZ_Some_In {A} e (l : list (option Z * A)) c : assocOZ (Some e) l = Some c -> In (Some e, c) l.
Proof.
  induction l as [|[k' v'] r IH]; cbn [assocOZ]; intros H; [discriminate H|].
  destruct (oz_eqb (Some e) k') eqn:E.
  - injection H as <-. destruct k' as [e'|]; [|discriminate E]. cbn [oz_eqb] in E. left. f_equal. f_equal. lia.
  - right. auto.
Qed.

Lemma capacity_level_key v e c : capacity v (Some e) = Ok c -> In e [0; 1; 2; 3].
Proof.
  unfold capacity, getZ, getOZ. intros H.
  destruct (assocZ v SYMBOL_CAPACITY) as [row|] eqn:Er; cbn [bind] in H; [|discriminate H].
  destruct (assocOZ (Some e) row) as [c'|] eqn:Ec; [|discriminate H].
  apply assocZ_In in Er. apply assocOZ_Some_In in Ec.
  pose proof level_keys_all as Hall. rewrite forallb_forall in Hall.
  specialize (Hall _ Er). cbn [snd] in Hall. rewrite forallb_forall in Hall.
  specialize (Hall _ Ec). cbn [fst] in Hall. unfold memZ in Hall. cbn [existsb] in Hall.
  cbn [In]. lia.
Qed.

Lemma cci_mode_key m vr k : cci_length m vr = Ok k -> In m [1; 2; 4; 8; 13].
Proof.
  unfold cci_length, getZ. intros H.
  destruct (assocZ m CHAR_COUNT_INDICATOR_LENGTH) as [row|] eqn:Er; cbn [bind] in H; [|discriminate H].
  apply assocZ_In in Er. rewrite <- cci_mode_keys. change m with (fst (m, row)). now apply in_map.
Qed.

Lemma slack_step v e m c k : 1 <= v < 40 ->
  capacity v (Some e) = Ok c -> cci_at m v = Ok k ->
  exists c' k', capacity (v + 1) (Some e) = Ok c' /\ cci_at m (v + 1) = Ok k' /\ c - k <= c' - k'.
Proof.
  intros Hv Hc Hk.
  pose proof (capacity_level_key _ _ _ Hc) as He.
  assert (Hm : In m [1; 2; 4; 8; 13]).
  { unfold cci_at in Hk. destruct (version_range v) as [vr|]; cbn [bind] in Hk; [|discriminate Hk].
    exact (cci_mode_key _ _ _ Hk). }
  pose proof slack_step_all as Hall. rewrite forallb_forall in Hall.
  specialize (Hall v (zrange_In 1 40 v ltac:(lia))). cbv beta in Hall. rewrite forallb_forall in Hall.
  specialize (Hall e He). cbv beta in Hall. rewrite forallb_forall in Hall.
  specialize (Hall m Hm). cbv beta in Hall. rewrite Hc, Hk in Hall.
  destruct (capacity (v + 1) (Some e)) as [c'|]; [|discriminate Hall].
  destruct (cci_at m (v + 1)) as [k'|]; [|discriminate Hall].
  exists c', k'. repeat split. lia.
Qed.

Lemma slack_mono e m : forall (n : nat) v c k, 1 <= v -> v + Z.of_nat n <= 40 ->
  capacity v (Some e) = Ok c -> cci_at m v = Ok k ->
  exists c' k', capacity (v + Z.of_nat n) (Some e) = Ok c' /\ cci_at m (v + Z.of_nat n) = Ok k' /\ c - k <= c' - k'.
Proof.
  induction n as [|n IH]; intros v c k Hv Hw Hc Hk.
  - rewrite Z.add_0_r. exists c, k. repeat split; try assumption. lia.
  - destruct (slack_step v e m c k ltac:(lia) Hc Hk) as (c1 & k1 & Hc1 & Hk1 & Hle1).
    destruct (IH (v + 1) c1 k1 ltac:(lia) ltac:(lia) Hc1 Hk1) as (c2 & k2 & Hc2 & Hk2 & Hle2).
    replace (v + Z.of_nat (S n)) with (v + 1 + Z.of_nat n) by lia.
    exists c2, k2. repeat split; try assumption. lia.
Qed.

(* the bit count of a single segment in a QR symbol: everything but the count indicator is independent of the version *)
Definition single_const (s : segment) (eci is_sa : bool) : Z :=
  (if eci then count_eci_headers [s] * 4 + count_eci_headers [s] * 8 else 0) + (if is_sa then 20 else 0)
  + (lenZ (seg_modes [s]) * 4 + lenZ (filter (Z.eqb MODE_HANZI) (seg_modes [s])) * 4).

Lemma bit_length_single s v eci is_sa : 1 <= v ->
  bit_length_with_overhead [s] v eci is_sa
  = do k <- cci_at (s_mode s) v; Ok (single_const s eci is_sa + k + seg_bit_length [s]).
Proof.
  intros Hv. unfold bit_length_with_overhead, cci_at, single_const. cbv zeta.
  assert (E : 0 <? v = true) by lia. rewrite E.
  destruct (version_range v) as [vr|x]; cbn [bind]; [|reflexivity].
  change (seg_modes [s]) with [s_mode s]. cbn [map sum_res].
  destruct (cci_length (s_mode s) vr) as [k|x]; cbn [bind]; [|reflexivity].
  f_equal. lia.
Qed.

Lemma fit_mono_single s e eci v w l c : 1 <= v <= w -> w <= 40 ->
  bit_length_with_overhead [s] v eci true = Ok l -> capacity v (Some e) = Ok c -> l <= c ->
  exists l' c', bit_length_with_overhead [s] w eci true = Ok l' /\ capacity w (Some e) = Ok c' /\ l' <= c'.
Proof.
  intros Hvw Hw Hl Hc Hle. rewrite bit_length_single in Hl by lia.
  destruct (cci_at (s_mode s) v) as [k|x] eqn:Ek; cbn [bind] in Hl; [|discriminate Hl]. apply Ok_inj in Hl.
  destruct (slack_mono e (s_mode s) (Z.to_nat (w - v)) v c k ltac:(lia) ltac:(lia) Hc Ek) as (c' & k' & Hc' & Hk' & Hs).
  replace (v + Z.of_nat (Z.to_nat (w - v))) with w in * by lia.
  exists (single_const s eci true + k' + seg_bit_length [s]), c'.
  split; [rewrite bit_length_single by lia; rewrite Hk'; reflexivity|]. split; [exact Hc'|lia].
Qed.

Lemma find_version_loop_fits segs eci sa vs e : forall v,
  find_version_loop segs eci sa vs (Some e) = Ok v ->
  exists l c, bit_length_with_overhead segs v eci sa = Ok l /\ capacity v (Some e) = Ok c /\ l <= c.
Proof.
  induction vs as [|x r IH]; intros v H; cbn [find_version_loop] in H; [discriminate H|].
  cbv zeta in H.
  destruct (capacity x (Some e)) as [cap|ex] eqn:Ec.
  - destruct (bit_length_with_overhead segs x eci sa) as [len|ex] eqn:El.
    + destruct (len <=? cap) eqn:E; [|exact (IH _ H)].
      apply Ok_inj in H. subst x. exists len, cap. repeat split; try assumption. lia.
    + destruct ex; try discriminate H. exact (IH _ H).
  - destruct ex; try discriminate H. exact (IH _ H).
Qed.

Lemma find_version_qr_fits segs e eci sa v :
  find_version segs (Some e) eci (Some false) sa = Ok v ->
  exists l c, bit_length_with_overhead segs v eci sa = Ok l /\ capacity v (Some e) = Ok c /\ l <= c.
Proof.
  unfold find_version. cbn [otruthy]. rewrite andb_false_r. cbn [andb bind]. apply find_version_loop_fits.
Qed.

(* a chunk whose own version is at most the version of the sequence does not overflow *)
Lemma chunk_fits_at smode encoding e eci c v w :
  chunk_version smode encoding (Some e) eci c = Ok v -> v <= w <= 40 ->
  chunk_overflows c smode encoding (Some e) w eci = false.
Proof.
  unfold chunk_version, chunk_overflows. intros H Hw.
  destruct (one_item_segments c smode encoding) as [sg|x] eqn:Es; cbn [bind] in H; [|discriminate H].
  pose proof (find_version_qr _ _ _ _ _ H) as Hv.
  destruct (find_version_qr_fits _ _ _ _ _ H) as (l & cap & Hl & Hc & Hle).
  unfold one_item_segments in Es. bind_ok Es Em s. apply Ok_inj in Es. subst sg.
  destruct (fit_mono_single s e eci v w l cap ltac:(lia) ltac:(lia) Hl Hc Hle) as (l' & c' & Hl' & Hc' & Hle').
  rewrite Hl', Hc'. lia.
Qed.

(* symbol_count=k (with or without a version): all symbols have one version, and every symbol's bit count -- header,
   mode and count indicator, packed chunk -- is within the capacity at the level finally used.  No side condition:
   this is the statement that is false on the version= path (D14, C08_refuted_fit below). *)
Theorem seq_fits_symbol_count content error version mode mask encoding eci boost n codes :
  encode_sequence content error version mode mask encoding eci boost (Some n) = Ok codes ->
  exists v', 1 <= v' <= 40 /\
    Forall (fun code => c_version code = v' /\
              exists l cap, bit_length_with_overhead (c_segments code) v' eci true = Ok l /\
                            capacity v' (c_error code) = Ok cap /\ l <= cap) codes.
Proof.
  intros H.
  destruct (encode_sequence_shape _ _ _ _ _ _ _ _ _ _ H) as (_ & mask' & segs & _ & _ & Hshape).
  cbn [single_path] in Hshape.
  destruct Hshape as (smode & content' & encoding' & pbytes & pe & num & version' &
                      _ & _ & _ & _ & _ & _ & _ & (vs & Hvs & Hmax) & Hchunks).
  destruct (max_list_In _ _ Hmax) as [Hin Hall].
  destruct (seq_res_map_In _ _ _ Hvs _ Hin) as (c0 & _ & Hc0). apply chunk_version_qr in Hc0.
  exists version'. split; [exact Hc0|].
  assert (He : exists e, eff_error error = Some e) by (destruct error as [e|]; eexists; reflexivity).
  destruct He as [e He]. rewrite He in *.
  pose proof (encode_chunks_versions _ _ _ _ _ _ _ _ _ _ _ _ Hchunks) as Hvers.
  assert (Hfit : Forall (fun code => exists l cap,
             bit_length_with_overhead (c_segments code) version' eci true = Ok l /\
             capacity version' (c_error code) = Ok cap /\ l <= cap) codes).
  { eapply seq_fits_partial; [exact Hchunks|]. apply forallb_forall. intros c Hc.
    apply negb_true_iff.
    apply seq_res_map_Forall2 in Hvs. rewrite Forall_forall in Hall.
    assert (Hcv : exists v, chunk_version smode encoding' (Some e) eci c = Ok v /\ In v vs).
    { clear - Hvs Hc. induction Hvs as [|x v l vs' Hx _ IH]; [destruct Hc|].
      destruct Hc as [<-|Hc]; [exists v; split; [exact Hx|now left]|].
      destruct (IH Hc) as (v2 & Hv2 & Hin2). exists v2. split; [exact Hv2|now right]. }
    destruct Hcv as (v & Hv & Hvin). specialize (Hall v Hvin). cbv beta in Hall.
    eapply chunk_fits_at; [exact Hv|lia]. }
  rewrite Forall_forall in Hvers, Hfit. apply Forall_forall. intros code Hcode.
  split; [exact (Hvers code Hcode)|exact (Hfit code Hcode)].
Qed.
Print Assumptions seq_fits_symbol_count.

(* 6b. the unconditional statement is false.  Witness: 71 digits (bytes "0123456789012..."), version 1,
   level L, no boosting.  The estimate of number_of_symbols_by_version is 2 symbols (291 bits over two
   symbols of 152 bits), the chunks have 36 and 35 digits, and 36 digits need 4 + 10 + 120 + 20 = 154 bits. *)
Definition d14_content : scontent := SBytes (map (fun i => 48 + i mod 10) (zrange 0 71)).

Example d14_estimate :
  number_of_symbols_by_version 71 1 (Some ERROR_LEVEL_L) MODE_NUMERIC false false = Ok 2 /\
  map slen (divide_into_chunks d14_content 2) = [36; 35] /\
  capacity 1 (Some ERROR_LEVEL_L) = Ok 152 /\
  (do sg <- one_item_segments (nth 0 (divide_into_chunks d14_content 2) (SBytes [])) MODE_NUMERIC None;
   bit_length_with_overhead sg 1 false true) = Ok 154.
Proof. vm_compute. repeat split; reflexivity. Qed.

Theorem C08_refuted_fit :
  exists content version error encoding eci codes segs smode num parity,
    encode_sequence content (Some error) (Some version) None None encoding eci false None = Ok codes /\
    (* the run takes the multi-symbol path; its symbols are those of [divide_into_chunks content num] *)
    prepare_data [{| p_content := pcontent_of content; p_mode := None; p_enc := encoding |}] = Ok segs /\
    single_path segs (Some error) (Some version) eci None = false /\
    nthZ (seg_modes segs) 0 = Ok smode /\
    lenZ codes = num /\
    encode_chunks (divide_into_chunks content num) 0 (num - 1) parity smode encoding (Some error) version
                  None eci false = Ok codes /\
    (* and one of the chunks, with its header, is larger than the symbol *)
    exists chunk, In chunk (divide_into_chunks content num) /\
                  chunk_overflows chunk smode encoding (Some error) version eci = true.
Proof.
  exists d14_content, 1, ERROR_LEVEL_L, None, false.
  destruct (encode_sequence d14_content (Some ERROR_LEVEL_L) (Some 1) None None None false false None)
    as [codes|e] eqn:E; [|vm_compute in E; discriminate E].
  destruct (prepare_data [{| p_content := pcontent_of d14_content; p_mode := None; p_enc := None |}])
    as [segs|e] eqn:Ep; [|vm_compute in Ep; discriminate Ep].
  exists codes, segs, MODE_NUMERIC, 2, (xor_bytes (sbytes_of d14_content)).
  split; [reflexivity|]. split; [reflexivity|].
  assert (Hsegs : segs = match prepare_data [{| p_content := pcontent_of d14_content; p_mode := None; p_enc := None |}]
                         with Ok x => x | Err _ => [] end) by (rewrite Ep; reflexivity).
  assert (Hcodes : codes = match encode_sequence d14_content (Some ERROR_LEVEL_L) (Some 1) None None None false false None
                           with Ok x => x | Err _ => [] end) by (rewrite E; reflexivity).
  clear E Ep. subst segs codes.
  split; [vm_compute; reflexivity|]. split; [vm_compute; reflexivity|]. split; [vm_compute; reflexivity|].
  split; [vm_compute; reflexivity|].
  exists (nth 0 (divide_into_chunks d14_content 2) (SBytes [])). split.
  - vm_compute. left. reflexivity.
  - vm_compute. reflexivity.
Qed.
Print Assumptions C08_refuted_fit.

(* the same witness, seen from the symbols: two version-1 symbols come out (no error), the first one was
   given 154 bits for a capacity of 152 bits *)
Example d14_symbols :
  match encode_sequence d14_content (Some ERROR_LEVEL_L) (Some 1) None None None false false None with
  | Ok cs => map (fun c => (c_version c, c_error c, map s_count (c_segments c),
                            bit_length_with_overhead (c_segments c) 1 false true)) cs
  | Err _ => [] end
  = [(1, Some 1, [36], Ok 154); (1, Some 1, [35], Ok 151)].
Proof. vm_compute. reflexivity. Qed.

(* 6c. what [bit_length_with_overhead _ _ _ true] measures in a QR symbol: the Structured Append header plus
   the written segments, i.e. the data stream before terminator and padding *)
Lemma write_segments_length segs vr eci : forall body,
  write_segments segs None vr eci = Ok body ->
  exists z, sum_res (map (fun m => cci_length m vr) (seg_modes segs)) = Ok z /\
    lenZ body = (if eci then count_eci_headers segs * 4 + count_eci_headers segs * 8 else 0)
                + (lenZ (seg_modes segs) * 4 + lenZ (filter (Z.eqb MODE_HANZI) (seg_modes segs)) * 4)
                + z + seg_bit_length segs.
Proof.
  induction segs as [|s r IH]; intros body H.
  - cbn [write_segments] in H. apply Ok_inj in H. subst body. exists 0. split; [reflexivity|].
    unfold count_eci_headers, seg_modes, seg_bit_length. cbn [map filter fold_left]. rewrite !VersionLemmas.lenZ_nil.
    destruct eci; reflexivity.
  - cbn [write_segments] in H. bind_ok H Ea a. bind_ok H Eb b. apply Ok_inj in H. subst body.
    destruct (IH b eq_refl) as (z & Hz & Hlen). clear IH.
    unfold write_segment in Ea. cbv zeta in Ea. bind_ok Ea E1 h1. bind_ok Ea E3 cci.
    apply Ok_inj in Ea. subst a.
    set (h2 := bits_of (s_mode s) 4 ++ (if s_mode s =? MODE_HANZI then bits_of 1 4 else [])).
    exists (cci + z). split; [unfold seg_modes in *; cbn [map sum_res]; rewrite E3, Hz; reflexivity|].
    pose proof (cci_nonneg _ _ _ E3) as Hcci.
    rewrite !lenZ_app, lenZ_bits_of, Hlen by exact Hcci.
    rewrite count_eci_cons, seg_bit_length_cons.
    unfold seg_modes. cbn [map filter]. fold (seg_modes r).
    rewrite (Z.eqb_sym MODE_HANZI (s_mode s)).
    assert (Hh2 : lenZ h2 = 4 + (if s_mode s =? MODE_HANZI then 4 else 0)).
    { subst h2. rewrite lenZ_app, lenZ_bits_of by lia.
      destruct (s_mode s =? MODE_HANZI); [rewrite lenZ_bits_of by lia; reflexivity|reflexivity]. }
    assert (Hh1 : lenZ h1 = if eci && (s_mode s =? MODE_BYTE) && negb (enc_is_default (s_enc s)) then 12 else 0).
    { destruct (eci && (s_mode s =? MODE_BYTE) && negb (enc_is_default (s_enc s))).
      - bind_ok E1 En n. apply Ok_inj in E1. subst h1. rewrite lenZ_app, !lenZ_bits_of by lia. reflexivity.
      - apply Ok_inj in E1. subst h1. reflexivity. }
    rewrite Hh1, Hh2. rewrite (VersionLemmas.lenZ_cons (s_mode s)).
    set (ce := count_eci_headers r). set (nm := lenZ (seg_modes r)).
    set (nh := lenZ (filter (Z.eqb MODE_HANZI) (seg_modes r))). set (sb := seg_bit_length r).
    destruct eci; cbn [andb];
      destruct ((s_mode s =? MODE_BYTE) && negb (enc_is_default (s_enc s)));
      destruct (s_mode s =? MODE_HANZI); try rewrite VersionLemmas.lenZ_cons; fold nh; lia.
Qed.

Theorem stream_measure_qr segs error version eci sa buff : 1 <= version ->
  data_stream segs error version eci (Some sa) = Ok buff ->
  exists vr body l cap,
    version_range version = Ok vr /\ write_segments segs None vr eci = Ok body /\
    bit_length_with_overhead segs version eci true = Ok l /\ capacity version error = Ok cap /\
    lenZ (sa_header sa ++ body) = l /\
    (* a stream within the capacity is only extended (terminator, padding); a longer one is kept as it is
       up to the padding bits and cut later by make_blocks *)
    exists rest, buff = sa_header sa ++ body ++ rest.
Proof.
  intros Hv. unfold data_stream. intros H.
  assert (E1 : version <? 1 = false) by lia. rewrite E1 in H.
  bind_ok H Er vr. bind_ok H Eb body. bind_ok H Ec cap. bind_ok H Et b1.
  exists vr, body. destruct (write_segments_length _ _ _ _ Eb) as (z & Hz & Hlen).
  unfold bit_length_with_overhead. assert (E0 : 0 <? version = true) by lia. rewrite E0.
  rewrite Er. cbn [bind]. rewrite Hz. cbn [bind]. eexists. exists cap.
  split; [reflexivity|]. split; [exact Eb|]. split; [reflexivity|]. split; [reflexivity|].
  split.
  - rewrite lenZ_app, Hlen. unfold sa_header. rewrite !lenZ_app, !lenZ_bits_of by lia. lia.
  - unfold write_terminator in Et. bind_ok Et Etl t. apply Ok_inj in Et. subst b1. apply Ok_inj in H. subst buff.
    fold (sa_header sa).
    unfold write_pad_codewords, write_padding_bits.
    repeat match goal with |- context [if ?b then _ else _] => destruct b end;
      repeat rewrite <- app_assoc; eexists; reflexivity.
Qed.
Print Assumptions stream_measure_qr.

(* no chunk overflows -> header and data of every symbol are within the symbol's capacity *)
Corollary seq_fits_stream chunks i total parity mode enc error version mask eci boost codes :
  1 <= version ->
  encode_chunks chunks i total parity mode enc error version mask eci boost = Ok codes ->
  forallb (fun c => negb (chunk_overflows c mode enc error version eci)) chunks = true ->
  forall k code, nth_error codes k = Some code ->
    exists vr body cap,
      version_range version = Ok vr /\ write_segments (c_segments code) None vr eci = Ok body /\
      capacity version (c_error code) = Ok cap /\
      lenZ (sa_header (sa_of (i + Z.of_nat k) total parity) ++ body) <= cap.
Proof.
  intros Hv H Hno k code Hk.
  pose proof (seq_fits_partial _ _ _ _ _ _ _ _ _ _ _ _ H Hno) as Hfit.
  rewrite Forall_forall in Hfit. destruct (Hfit code (nth_error_In _ _ Hk)) as (l & cap & Hl & Hcap & Hle).
  destruct (encode_chunks_headers _ _ _ _ _ _ _ _ _ _ _ _ H) as [Hlen Hnth].
  destruct (nth_error chunks k) as [chunk|] eqn:Hck.
  - destruct (Hnth k chunk Hck) as (sg & code2 & H1 & _ & _ & _ & Hs & rest & Hds).
    rewrite Hk in H1. injection H1 as <-. rewrite <- Hs in Hds.
    destruct (stream_measure_qr _ _ _ _ _ _ Hv Hds) as (vr & body & l' & cap' & Hvr & Hws & Hl' & Hcap' & Hm & _).
    rewrite Hl in Hl'. rewrite Hcap in Hcap'. apply Ok_inj in Hl'. apply Ok_inj in Hcap'. subst l' cap'.
    exists vr, body, cap. repeat split; try assumption. lia.
  - apply nth_error_None in Hck.
    assert (Hlt : (k < List.length codes)%nat) by (apply nth_error_Some; congruence). lia.
Qed.
Print Assumptions seq_fits_stream.

(* the witness of 6b in these terms: header + data of the first symbol are 154 bits in a 152-bit symbol *)
Example d14_stream :
  match encode_sequence d14_content (Some ERROR_LEVEL_L) (Some 1) None None None false false None with
  | Ok (c :: _) => do body <- write_segments (c_segments c) None 1 false;
                   Ok (lenZ (sa_header (sa_of 0 1 (xor_bytes (sbytes_of d14_content))) ++ body), capacity 1 (c_error c))
  | _ => Err ValueError end = Ok (154, Ok 152).
Proof. vm_compute. reflexivity. Qed.

(* ------------------------------------------------------------------------------------------ *)
(* 7. examples on small inputs                                                                *)
(* ------------------------------------------------------------------------------------------ *)
Definition ascii_char (b : Z) : schar :=
  {| ch_given := CROk [b]; ch_latin1 := CROk [b]; ch_sjis := CROk [b]; ch_utf8 := CROk [b] |}.
(* "Hello, world!" *)
Definition ex_hello_bytes : list Z := [72; 101; 108; 108; 111; 44; 32; 119; 111; 114; 108; 100; 33].
Definition ex_hello : scontent := SText (map ascii_char ex_hello_bytes).
Definition summary (r : res (list code)) : res (list (Z * option Z * list (Z * Z))) :=
  do cs <- r; Ok (map (fun c => (c_version c, c_error c, map (fun s => (s_mode s, s_count s)) (c_segments c))) cs).

(* symbol_count=4: four version-1 symbols with 4, 3, 3, 3 bytes *)
Example ex_count4 :
  summary (encode_sequence ex_hello None None None None None false false (Some 4))
  = Ok [(1, Some 1, [(4, 4)]); (1, Some 1, [(4, 3)]); (1, Some 1, [(4, 3)]); (1, Some 1, [(4, 3)])].
Proof. vm_compute. reflexivity. Qed.
(* their headers: 0011, position 0..3, total 3 = 0011, parity 13 = 00001101 *)
Example ex_count4_headers :
  xor_bytes ex_hello_bytes = 13 /\
  match encode_sequence ex_hello None None None None None false false (Some 4) with
  | Ok cs => map (fun ic => match data_stream (c_segments (snd ic)) (c_error (snd ic)) (c_version (snd ic)) false
                                    (Some (sa_of (fst ic) 3 13)) with
                            | Ok b => map (fun x : bool => if x then 1 else 0) (firstn 20 b) | Err _ => [] end)
                 (combine (zrange 0 4) cs)
  | Err _ => [] end
  = [[0;0;1;1; 0;0;0;0; 0;0;1;1; 0;0;0;0;1;1;0;1]; [0;0;1;1; 0;0;0;1; 0;0;1;1; 0;0;0;0;1;1;0;1];
     [0;0;1;1; 0;0;1;0; 0;0;1;1; 0;0;0;0;1;1;0;1]; [0;0;1;1; 0;0;1;1; 0;0;1;1; 0;0;0;0;1;1;0;1]].
Proof. vm_compute. split; reflexivity. Qed.
(* version=1 alone: the content fits one symbol -> single symbol, no header; at level H it needs 3 symbols *)
Example ex_version1 :
  summary (encode_sequence ex_hello None (Some 1) None None None false true None) = Ok [(1, Some 0, [(4, 13)])] /\
  summary (encode_sequence ex_hello (Some ERROR_LEVEL_H) (Some 1) None None None false true None)
  = Ok [(1, Some 2, [(4, 5)]); (1, Some 2, [(4, 4)]); (1, Some 2, [(4, 4)])].
Proof. vm_compute. split; reflexivity. Qed.
(* both arguments: the version decides the count (3 symbols although symbol_count=5) *)
Example ex_both_args :
  summary (encode_sequence ex_hello (Some ERROR_LEVEL_H) (Some 1) None None None false true (Some 5))
  = Ok [(1, Some 2, [(4, 5)]); (1, Some 2, [(4, 4)]); (1, Some 2, [(4, 4)])].
Proof. vm_compute. reflexivity. Qed.
(* argument errors: neither version nor symbol_count; symbol_count out of range; more symbols than characters *)
Example ex_errors :
  encode_sequence ex_hello None None None None None false true None = Err ValueError /\
  encode_sequence ex_hello None None None None None false true (Some 17) = Err ValueError /\
  encode_sequence ex_hello None None None None None false true (Some 0) = Err ValueError /\
  encode_sequence ex_hello None None None None None false true (Some 14) = Err ValueError /\
  encode_sequence ex_hello None (Some 0) None None None false true None = Err ValueError.
Proof. vm_compute. repeat split; reflexivity. Qed.
(* the theorems instantiated *)
Example ex_instance codes :
  encode_sequence ex_hello None None None None None false false (Some 4) = Ok codes ->
  lenZ codes = 4 /\ Forall (fun c => 1 <= c_version c) codes.
Proof.
  intros H. split; [apply (seq_symbol_count _ _ _ _ _ _ _ _ _ H)|apply (seq_never_micro _ _ _ _ _ _ _ _ _ _ H)].
Qed.
