(* C01: every symbol decodes back to exactly the content that was given.

   Composition of the layer lemmas into the end-to-end statement: the reference decoder
   [Decoder.decode_symbol] applied to the matrix the model encoder produces returns the version, error
   level, mask and exactly the segments (mode, character count, bytes, ECI designator) that were encoded.

   Structure
     1. finite facts (vm_compute): the final message fills the encoding region exactly
        ([data_positions_count]); [format_data] inverts [format_word_qr] / [format_word_micro];
        [micro_symbol] inverts [micro_symbol_number]; the level keys of Table 7
     2. read_format / version_info_ok on a matrix that passes c02_check (GeomLemmas)
     3. inversion of data_stream, length of the written segments = bit_length_with_overhead
     4. decode_frame: matrix -> format -> unmasked stream -> blocks -> the padded data bit stream
     5. Theorem 1  decode_of_encode_core  (+ variant with the fit hypothesis for the requested level)
     6. prepare_data yields packings of the parts' bytes, in order ([prepare_data_packings])
     7. Theorem 2  encode_decodes
     8. Theorem 3  encode_decodes_eci
     9. Theorem 4  decode_of_encode_core_sa  (Structured Append header)
    10. examples, and counterexamples for the extra hypotheses of Theorem 1

   Hypotheses of Theorem 1 beyond "encode_core succeeded, the segments are packings, the content fits":
     * mask_ok: encode_core does not validate an explicit mask (encode does, normalize_mask_int);
       counterexample [mask_must_be_validated]
     * Micro QR: eci = false (encode refuses ECI for Micro QR, encode_core does not; counterexample
       [micro_eci_not_decodable]) and no empty numeric segment (prepare_data never builds one,
       [prepare_data_count_sane]; counterexample [micro_empty_numeric_reads_as_terminator])
   All of them are discharged for [encode] in Theorem 2, which only assumes that the parts' contents are
   bytes 0..255 ([wf_content]). *)
From Coq Require Import String.
From Coq Require Import ZArith List Bool Lia ZifyBool.
From Segno Require Import Base.PyLite Ref.IsoData Ref.Geometry Ref.Bch Ref.MaskCond Ref.Decoder Ref.Spec.
From Segno Require Import Model.Bits Model.Segment Model.Version Model.Stream Model.Matrix Model.Encode.
From Segno Require Import Lemmas.PackLemmas Lemmas.PadLemmas Lemmas.RsModel Lemmas.BlockLemmas Lemmas.VersionLemmas
     Lemmas.MaskLemmas Lemmas.GeomLemmas Lemmas.PlaceLemmas Lemmas.ParseLemmas Lemmas.IdemLemmas Lemmas.ExnLemmas.
From Segno Require Import Lemmas.ModeLemmas.
Import ListNotations.
Open Scope Z_scope.
Ltac Zify.zify_post_hook ::= Z.to_euclidean_division_equations.

(* ------------------------------------------------------------------ *)
(* 1. Finite facts                                                      *)
(* ------------------------------------------------------------------ *)

(* the final message fills the encoding region exactly: for every version and every level of the
   version, #data modules = 8 * total codewords (Table 9) - (4 for M1/M3) + remainder bits *)
Lemma data_positions_count_all :
  forallb (fun vr : Z * list (option Z * list (Z * Z * Z)) =>
    let v := fst vr in
    let n := lenZ (data_positions (size_of_version v)) in
    let r := remainder_bits v in
    let short := if is_m1_m3 v then 4 else 0 in
    forallb (fun li : option Z * list (Z * Z * Z) =>
               n =? 8 * total_codewords (snd li) - short + r) (snd vr)) ECC = true.
Proof. vm_compute. reflexivity. Qed.

Lemma data_positions_count v l infos :
  ec_infos v l = Ok infos ->
  lenZ (data_positions (size_of_version v))
  = 8 * total_codewords infos - (if is_m1_m3 v then 4 else 0) + remainder_bits v.
Proof.
  intros H. destruct (ec_infos_In v l infos H) as (row & Hrow & Hin).
  pose proof data_positions_count_all as T. rewrite forallb_forall in T.
  specialize (T (v, row) Hrow). cbv beta zeta in T. cbn [fst snd] in T.
  rewrite forallb_forall in T. specialize (T (l, infos) Hin). cbv beta in T. cbn [snd] in T.
  apply Z.eqb_eq in T. exact T.
Qed.

(* exact lookup of a format word returns its five data bits *)
Lemma format_data_qr_all :
  forallb (fun d => match format_data false (format_word_qr d) with Some d' => d' =? d | None => false end)
          (zrange 0 32) = true.
Proof. vm_compute. reflexivity. Qed.
Lemma format_data_micro_all :
  forallb (fun d => match format_data true (format_word_micro d) with Some d' => d' =? d | None => false end)
          (zrange 0 32) = true.
Proof. vm_compute. reflexivity. Qed.

Lemma format_data_qr d : 0 <= d < 32 -> format_data false (format_word_qr d) = Some d.
Proof.
  intros Hd. pose proof format_data_qr_all as T. rewrite forallb_forall in T.
  specialize (T d (zrange_In 0 32 d Hd)). cbv beta in T.
  destruct (format_data false (format_word_qr d)) as [d'|]; [|discriminate T].
  apply Z.eqb_eq in T. congruence.
Qed.
Lemma format_data_micro d : 0 <= d < 32 -> format_data true (format_word_micro d) = Some d.
Proof.
  intros Hd. pose proof format_data_micro_all as T. rewrite forallb_forall in T.
  specialize (T d (zrange_In 0 32 d Hd)). cbv beta in T.
  destruct (format_data true (format_word_micro d)) as [d'|]; [|discriminate T].
  apply Z.eqb_eq in T. congruence.
Qed.

(* the level keys of Table 7 *)
Definition level_keys : list (option Z) := [None; Some 1; Some 0; Some 3; Some 2].
Lemma capacity_keys_all :
  forallb (fun vr : Z * list (option Z * Z) =>
     forallb (fun lc : option Z * Z => existsb (oz_eqb (fst lc)) level_keys) (snd vr)) SYMBOL_CAPACITY = true.
Proof. vm_compute. reflexivity. Qed.

Lemma capacity_level_key v e cap : capacity v e = Ok cap -> In e level_keys.
Proof.
  unfold capacity, getZ. intros H.
  destruct (assocZ v SYMBOL_CAPACITY) as [row|] eqn:Erow; [|discriminate H]. cbn [bind] in H.
  unfold getOZ in H. destruct (assocOZ e row) as [c|] eqn:Ec; [|discriminate H].
  apply GeomLemmas.assocZ_In in Erow. apply GeomLemmas.assocOZ_In in Ec.
  pose proof capacity_keys_all as T. rewrite forallb_forall in T. specialize (T _ Erow). cbv beta in T.
  cbn [snd] in T. rewrite forallb_forall in T. specialize (T _ Ec). cbv beta in T. cbn [fst] in T.
  apply existsb_exists in T. destruct T as (k & Hk & Hkeq). apply GeomLemmas.oz_eqb_true in Hkeq.
  subst k. exact Hk.
Qed.

Lemma level_code_of_key e : In e level_keys -> exists lvl, level_code lvl = e.
Proof.
  unfold level_keys. cbn [In]. intros [<-|[<-|[<-|[<-|[<-|[]]]]]].
  - exists None. reflexivity.
  - exists (Some LvL). reflexivity.
  - exists (Some LvM). reflexivity.
  - exists (Some LvQ). reflexivity.
  - exists (Some LvH). reflexivity.
Qed.

Lemma level_code_inj a b : level_code a = level_code b -> a = b.
Proof. destruct a as [[]|], b as [[]|]; cbn [level_code]; intros H; try discriminate H; reflexivity. Qed.

(* Table 13: micro_symbol inverts micro_symbol_number *)
Lemma micro_symbol_all :
  forallb (fun v => forallb (fun l =>
     match micro_symbol_number v l with
     | Some n => (0 <=? n) && (n <=? 7) &&
                 (fst (micro_symbol n) =? v) && oz_eqb (level_code (snd (micro_symbol n))) l
     | None => true end) level_keys) (zrange (-3) 1) = true.
Proof. vm_compute. reflexivity. Qed.

Lemma micro_symbol_inv v l n : -3 <= v <= 0 -> In l level_keys ->
  micro_symbol_number v l = Some n ->
  0 <= n <= 7 /\ exists lvl, micro_symbol n = (v, lvl) /\ level_code lvl = l.
Proof.
  intros Hv Hl Hn. pose proof micro_symbol_all as T. rewrite forallb_forall in T.
  specialize (T v (zrange_In (-3) 1 v ltac:(lia))). cbv beta in T. rewrite forallb_forall in T.
  specialize (T l Hl). cbv beta in T. rewrite Hn in T.
  destruct (micro_symbol n) as [v' lvl]. cbn [fst snd] in T.
  apply andb_prop in T. destruct T as [T T3]. apply andb_prop in T. destruct T as [T T2].
  apply GeomLemmas.oz_eqb_true in T3.
  split; [lia|]. exists lvl. split; [f_equal; lia|exact T3].
Qed.

(* ------------------------------------------------------------------ *)
(* 2. Format and version information read back                         *)
(* ------------------------------------------------------------------ *)
Lemma is_micro_size_of_version v : -3 <= v <= 40 -> is_micro_size (size_of_version v) = (v <? 1).
Proof. intros Hv. unfold is_micro_size, size_of_version. destruct (0 <? v) eqn:E; lia. Qed.

Lemma level_of_bits_code x : In (Some x) level_keys -> level_code (Some (level_of_bits x)) = Some x.
Proof.
  unfold level_keys. cbn [In]. intros [H|[H|[H|[H|[H|[]]]]]]; try discriminate H; injection H as <-; reflexivity.
Qed.
Lemma level_key_range x : In (Some x) level_keys -> 0 <= x <= 3.
Proof.
  unfold level_keys. cbn [In]. intros [H|[H|[H|[H|[H|[]]]]]]; try discriminate H; injection H as <-; lia.
Qed.

Lemma read_format_of_c02 rows v l mask :
  -3 <= v <= 40 -> In l level_keys -> 0 <= mask < (if v <? 1 then 4 else 8) ->
  c02_check rows v l mask = [] ->
  exists lvl, read_format rows = Some {| f_version := v; f_level := lvl; f_mask := mask |} /\ level_code lvl = l.
Proof.
  intros Hv Hl Hm Hc. apply c02_check_sound in Hc. destruct Hc as (_ & Hlen & _ & (w & Hw & Hrd) & _).
  unfold read_format. cbv zeta. rewrite Hlen. rewrite (is_micro_size_of_version v Hv).
  unfold iso_format_word in Hw. destruct (0 <? v) eqn:E0.
  - assert (E1 : (v <? 1) = false) by lia. rewrite E1 in *.
    destruct l as [x|]; [|discriminate Hw]. injection Hw as Hw.
    destruct Hrd as [Hr1 Hr2]. rewrite Hlen in Hr2. rewrite Hr1, Hr2, Z.eqb_refl. cbn [negb].
    pose proof (level_key_range x Hl) as Hx.
    assert (Hw' : w = format_word_qr (x * 8 + mask)) by congruence.
    rewrite Hw', (format_data_qr (x * 8 + mask)) by lia.
    rewrite (version_of_size_of_version v Hv).
    replace ((x * 8 + mask) / 8) with x by lia. replace ((x * 8 + mask) mod 8) with mask by lia.
    eexists. split; [reflexivity|]. apply level_of_bits_code. exact Hl.
  - assert (E1 : (v <? 1) = true) by lia. rewrite E1 in *.
    destruct (micro_symbol_number v l) as [n|] eqn:En; [|discriminate Hw].
    destruct (micro_symbol_inv v l n ltac:(lia) Hl En) as (Hn & lvl & Hms & Hlvl).
    assert (Hw' : w = format_word_micro (n * 4 + mask)) by congruence.
    rewrite Hrd, Hw', (format_data_micro (n * 4 + mask)) by lia.
    replace ((n * 4 + mask) / 4) with n by lia. replace ((n * 4 + mask) mod 4) with mask by lia.
    rewrite Hms, Z.eqb_refl. exists lvl. split; [reflexivity|exact Hlvl].
Qed.

Lemma version_info_ok_of_c02 rows v l mask :
  -3 <= v <= 40 -> c02_check rows v l mask = [] -> version_info_ok rows = true.
Proof.
  intros Hv Hc. apply c02_check_sound in Hc. destruct Hc as (_ & Hlen & _ & _ & Hver).
  unfold version_info_ok. cbv zeta. rewrite Hlen in *. rewrite (is_micro_size_of_version v Hv).
  rewrite (version_of_size_of_version v Hv).
  destruct (v <? 1) eqn:E1; [reflexivity|]. destruct (v <? 7) eqn:E7; [reflexivity|]. cbn [orb].
  destruct (Hver ltac:(lia)) as [Ha Hb]. rewrite Ha, Hb, Z.eqb_refl. reflexivity.
Qed.

Lemma encode_core_mask_range segs error version mask eci boost sa code :
  -3 <= version <= 40 -> mask_ok version mask ->
  encode_core segs error version mask eci boost sa = Ok code ->
  0 <= c_mask code < (if version <? 1 then 4 else 8) /\ (forall k, mask = Some k -> c_mask code = k).
Proof.
  intros Hv Hmask H. unfold encode_core in H. cbv zeta in H.
  apply bind_ok in H. destruct H as (e' & _ & H).
  apply bind_ok in H. destruct H as (buff & _ & H).
  apply bind_ok in H. destruct H as (final & _ & H).
  apply bind_ok in H. destruct H as (m1 & _ & H).
  apply bind_ok in H. destruct H as (m2 & _ & H).
  apply bind_ok in H. destruct H as (m3 & _ & H).
  apply bind_ok in H. destruct H as ([mask' m4] & H4 & H).
  apply bind_ok in H. destruct H as (m5 & _ & H).
  apply bind_ok in H. destruct H as (m6 & _ & H).
  apply GeomLemmas.Ok_inj in H. subst code. cbn [c_mask].
  destruct (find_best_mask_shape _ _ _ _ _ H4) as (fm & _ & _ & Hr). destruct mask as [m|].
  - unfold find_and_apply_best_mask in H4. apply bind_ok in H4. destruct H4 as (fm' & _ & H4).
    apply GeomLemmas.Ok_inj in H4. injection H4 as <- _. cbn [mask_ok] in Hmask.
    split; [exact Hmask|]. intros k Hk. congruence.
  - specialize (Hr eq_refl). rewrite (size_micro version Hv) in Hr. split; [exact Hr|]. intros k Hk. discriminate Hk.
Qed.

(* ------------------------------------------------------------------ *)
(* 3. The data stream: inversion, length                                *)
(* ------------------------------------------------------------------ *)
Definition sa_hdr (sa : option sa_info) : bits :=
  match sa with
  | Some i => sa_header (sa_number i) (sa_total i) (sa_parity i)
  | None => [] end.
Definition over (v : Z) : option Z := if v <? 1 then Some v else None.   (* the [ver] argument of write_segment *)

Lemma data_stream_inv segs e v eci sa buff :
  -3 <= v <= 40 -> data_stream segs e v eci sa = Ok buff ->
  exists body cap b1,
    write_segments segs (over v) (cci_col v) eci = Ok body /\
    capacity v e = Ok cap /\
    0 <= cap /\ cap mod 8 = (if is_m1_m3 v then 4 else 0) /\
    write_terminator (sa_hdr sa ++ body) cap (over v) = Ok b1 /\
    buff = write_pad_codewords (write_padding_bits b1 v) v cap /\
    cap <= lenZ buff /\
    (is_m1_m3 v = true -> lenZ (sa_hdr sa ++ body) <= cap -> lenZ buff = cap).
Proof.
  intros Hv H. unfold data_stream in H. cbv zeta in H.
  apply bind_ok in H. destruct H as (r & Hr & H).
  apply bind_ok in H. destruct H as (body & Hbody & H).
  apply bind_ok in H. destruct H as (cap & Hcap & H).
  apply bind_ok in H. destruct H as (b1 & Hb1 & H).
  apply GeomLemmas.Ok_inj in H.
  assert (Er : r = cci_col v).
  { unfold cci_col. destruct (v <? 1) eqn:E1.
    - destruct (0 <? v) eqn:E0; [lia|]. congruence.
    - destruct (0 <? v) eqn:E0; [|lia]. rewrite (version_range_qr v ltac:(lia)) in Hr. congruence. }
  subst r. exists body, cap, b1.
  pose proof (capacity_mod8' v e cap Hcap) as Hmod.
  destruct (ParseLemmas.capacity_mod8 v e cap Hv (capacity_Ok_spec v e cap Hcap)) as [Hc0 _].
  split; [exact Hbody|]. split; [exact Hcap|]. split; [exact Hc0|]. split; [exact Hmod|].
  change (match sa with
          | Some i => bits_of MODE_STRUCTURED_APPEND 4 ++ bits_of (sa_number i) 4 ++ bits_of (sa_total i) 4
                      ++ bits_of (sa_parity i) 8
          | None => [] end) with (sa_hdr sa) in Hb1.
  split; [exact Hb1|]. split; [symmetry; exact H|].
  unfold write_terminator, over in Hb1. rewrite (terminator_table v Hv) in Hb1. cbn [bind] in Hb1.
  apply GeomLemmas.Ok_inj in Hb1. subst b1 buff.
  pose proof (iso_terminator_length_bounds v Hv) as Ht.
  exact (padded_length v cap (iso_terminator_length v) (sa_hdr sa ++ body) ltac:(lia) Hmod).
Qed.

Lemma seg_of_data_wf s d : seg_of_data s d -> wf_seg s.
Proof.
  intros H. destruct (seg_payload s d H) as (m & Hm & Hl & _).
  split; [apply VersionLemmas.valid_mode_In; apply (dmode_of_In _ m Hm)|].
  split; [apply (seg_count_nonneg s d H)|exact Hl].
Qed.

Lemma write_segment_len s eci v r bs :
  wf_seg s -> -3 <= v <= 40 -> mode_available (s_mode s) v = true ->
  cci_length (s_mode s) r = Ok (spec_cci (s_mode s) v) ->
  write_segment s (over v) r eci = Ok bs -> lenZ bs = seg_cost v (abs_seg eci s).
Proof.
  intros (Hm & Hc & Hl) Hv Hav Hcci H. unfold write_segment, over in H. cbv zeta in H.
  destruct (hdr_mode_ok s v Hm Hv Hav) as (h2 & Hh2 & Hl2).
  pose proof (spec_cci_nonneg (s_mode s) v Hm Hv) as Hn.
  unfold seg_cost, abs_seg.
  destruct (eci && (s_mode s =? MODE_BYTE) && negb (enc_is_default (s_enc s))) eqn:E.
  - destruct (eci_number (s_enc s)) as [n|x]; cbn [bind] in H; [|discriminate H].
    rewrite Hh2 in H. cbn [bind] in H. rewrite Hcci in H. cbn [bind] in H. apply GeomLemmas.Ok_inj in H. subst bs.
    rewrite !PackLemmas.lenZ_app, !lenZ_bits_of by lia. rewrite Hl2, Hl. lia.
  - cbn [bind] in H. rewrite Hh2 in H. cbn [bind] in H. rewrite Hcci in H. cbn [bind] in H.
    apply GeomLemmas.Ok_inj in H. subst bs. cbn [app].
    rewrite !PackLemmas.lenZ_app, !lenZ_bits_of by lia. rewrite Hl2, Hl. lia.
Qed.

Lemma write_segments_len eci v r : -3 <= v <= 40 ->
  (forall m, VersionLemmas.valid_mode m ->
             cci_length m r = if mode_available m v then Ok (spec_cci m v) else Err KeyErr) ->
  forall segs stream, Forall wf_seg segs -> all_available v segs = true ->
  write_segments segs (over v) r eci = Ok stream ->
  lenZ stream = spec_bits v (map (abs_seg eci) segs) false.
Proof.
  intros Hv Hcci segs. rewrite spec_bits_sum. cbv iota.
  induction segs as [|s rs IH]; intros stream Hwf Hav H.
  - cbn [write_segments] in H. apply GeomLemmas.Ok_inj in H. subst stream. reflexivity.
  - apply Forall_cons_iff in Hwf. destruct Hwf as [Hs Hrs].
    unfold all_available, seg_modes in Hav. cbn [map forallb] in Hav. apply andb_prop in Hav. destruct Hav as [Ha1 Ha2].
    cbn [write_segments] in H. apply bind_ok in H. destruct H as (a & Ha & H).
    apply bind_ok in H. destruct H as (b & Hb & H). apply GeomLemmas.Ok_inj in H. subst stream.
    assert (Hc1 : cci_length (s_mode s) r = Ok (spec_cci (s_mode s) v)).
    { destruct Hs as (Hm & _). rewrite (Hcci _ Hm), Ha1. reflexivity. }
    rewrite PackLemmas.lenZ_app, (write_segment_len s eci v r a Hs Hv Ha1 Hc1 Ha), (IH b Hrs Ha2 Hb).
    cbn [map fold_right]. lia.
Qed.

(* the written segments have exactly the length Segments.bit_length_with_overhead announces *)
Lemma stream_length segs v eci len stream :
  -3 <= v <= 40 -> Forall wf_seg segs ->
  bit_length_with_overhead segs v eci false = Ok len ->
  write_segments segs (over v) (cci_col v) eci = Ok stream ->
  lenZ stream = len.
Proof.
  intros Hv Hwf Hlen Hws. rewrite (bit_length_spec segs v eci false Hv Hwf) in Hlen.
  destruct (all_available v segs) eqn:Hav; [|discriminate Hlen]. apply GeomLemmas.Ok_inj in Hlen. subst len.
  destruct (cci_table v Hv) as (r & Hr & Hcci).
  assert (Er : r = cci_col v).
  { unfold cci_col. destruct (0 <? v) eqn:E0.
    - rewrite (version_range_qr v ltac:(lia)) in Hr. congruence.
    - congruence. }
  subst r. exact (write_segments_len eci v (cci_col v) Hv Hcci segs stream Hwf Hav Hws).
Qed.

(* ------------------------------------------------------------------ *)
(* 4. From the matrix back to the padded data bit stream                *)
(* ------------------------------------------------------------------ *)
Lemma decode_frame segs error version mask eci boost sa code :
  -3 <= version <= 40 ->
  encode_core segs error version mask eci boost sa = Ok code ->
  mask_ok version mask ->
  (forall buff cap, data_stream segs (c_error code) version eci sa = Ok buff ->
                    capacity version (c_error code) = Ok cap ->
                    cap <= lenZ buff /\ (is_m1_m3 version = true -> lenZ buff = cap)) ->
  exists buff cap lvl,
    data_stream segs (c_error code) version eci sa = Ok buff /\
    capacity version (c_error code) = Ok cap /\
    level_code lvl = c_error code /\
    read_format (c_matrix code) = Some {| f_version := version; f_level := lvl; f_mask := c_mask code |} /\
    version_info_ok (c_matrix code) = true /\
    bits_of_codewords version
      (concat (rb_data (read_blocks version lvl (read_stream (c_matrix code) (c_mask code)))))
    = firstn (Z.to_nat cap) buff.
Proof.
  intros Hv Henc Hmask Hlen.
  pose proof (encode_core_version _ _ _ _ _ _ _ _ Henc) as Hcv.
  destruct (read_stream_of_encode_core_exact _ _ _ _ _ _ _ _ Hv Henc) as (buff & final & Hds & Hfm & Hrs).
  destruct (data_stream_capacity _ _ _ _ _ _ Hds) as [cap Hcap].
  destruct (Hlen buff cap Hds Hcap) as [Hle Hm13].
  pose proof (capacity_level_key _ _ _ Hcap) as Hkey.
  destruct (encode_core_mask_range _ _ _ _ _ _ _ _ Hv Hmask Henc) as [Hk _].
  pose proof (encode_core_c02 _ _ _ _ _ _ _ _ Hv Henc) as Hc02. rewrite Hcv in Hc02.
  destruct (read_format_of_c02 _ _ _ _ Hv Hkey Hk Hc02) as (lvl & Hrf & Hlvl).
  pose proof (version_info_ok_of_c02 _ _ _ _ Hv Hc02) as Hvi.
  destruct (make_final_message_total version (c_error code) lvl buff cap Hv Hlvl Hcap Hle Hm13)
    as (final' & infos & Hfm' & Hinfos & _ & Hlenf).
  rewrite Hfm in Hfm'. apply GeomLemmas.Ok_inj in Hfm'. subst final'.
  pose proof (data_positions_count version (c_error code) infos Hinfos) as Hdp.
  assert (Hexact : List.length final = List.length (data_positions (calc_matrix_size version))).
  { rewrite calc_matrix_size_eq. unfold lenZ in Hlenf, Hdp. lia. }
  specialize (Hrs Hexact).
  pose proof (read_blocks_of_final_message version (c_error code) lvl buff cap final [] Hv Hlvl Hcap Hle Hm13 Hfm) as Hrb.
  cbv zeta in Hrb. rewrite app_nil_r in Hrb.
  destruct Hrb as (_ & _ & _ & _ & Hbits & _).
  exists buff, cap, lvl. rewrite Hrs. repeat split; assumption.
Qed.

(* decode_symbol, with the Structured Append header reader named *)
Definition dec_rest (rows : list (list bool)) (f : fmt) : option decoded :=
  let v := f_version f in
  let dcw := concat (rb_data (read_blocks v (f_level f) (read_stream rows (f_mask f)))) in
  let bs := bits_of_codewords v dcw in
  let '(sa, bs1) := if 0 <? v then read_sa bs else (None, bs) in
  match (if 0 <? v then parse_qr (S (List.length bs1)) v None bs1 [] else parse_micro (S (List.length bs1)) v bs1 []) with
  | None => None
  | Some (segs, tail) =>
      Some {| dec_version := v; dec_level := f_level f; dec_mask := f_mask f; dec_sa := sa;
              dec_segments := segs; dec_data_codewords := dcw; dec_tail := tail |}
  end.

Lemma decode_symbol_eq rows :
  decode_symbol rows =
  match read_format rows with
  | None => None
  | Some f => if negb (version_info_ok rows) then None else dec_rest rows f
  end.
Proof. reflexivity. Qed.

Lemma dec_rest_eval rows v lvl mask bs sa bs1 segs tail :
  bits_of_codewords v (concat (rb_data (read_blocks v lvl (read_stream rows mask)))) = bs ->
  (if 0 <? v then read_sa bs else (None, bs)) = (sa, bs1) ->
  (if 0 <? v then parse_qr (S (List.length bs1)) v None bs1 [] else parse_micro (S (List.length bs1)) v bs1 [])
  = Some (segs, tail) ->
  dec_rest rows {| f_version := v; f_level := lvl; f_mask := mask |} =
  Some {| dec_version := v; dec_level := lvl; dec_mask := mask; dec_sa := sa; dec_segments := segs;
          dec_data_codewords := concat (rb_data (read_blocks v lvl (read_stream rows mask)));
          dec_tail := tail |}.
Proof.
  intros H1 H2 H3. unfold dec_rest. cbn [f_version f_level f_mask]. cbv zeta. rewrite H1, H2, H3. reflexivity.
Qed.

(* ------------------------------------------------------------------ *)
(* 5. Theorem 1: decode (encode_core ...) without Structured Append     *)
(* ------------------------------------------------------------------ *)
Lemma Forall2_combine_fst {A B} (R : A -> B -> Prop) l1 l2 :
  Forall2 R l1 l2 -> map fst (combine l1 l2) = l1.
Proof. induction 1 as [|a b l1 l2 _ _ IH]; cbn [combine map fst]; [reflexivity|now rewrite IH]. Qed.
Lemma Forall2_combine {A B} (R : A -> B -> Prop) l1 l2 :
  Forall2 R l1 l2 -> Forall (fun p => R (fst p) (snd p)) (combine l1 l2).
Proof. induction 1 as [|a b l1 l2 Hab _ IH]; cbn [combine]; constructor; [exact Hab|exact IH]. Qed.
Lemma Forall2_wf segs datas : Forall2 seg_of_data segs datas -> Forall wf_seg segs.
Proof. induction 1 as [|s d l1 l2 Hsd _ IH]; constructor; [exact (seg_of_data_wf s d Hsd)|exact IH]. Qed.

Lemma over_qr v : 1 <= v -> over v = None.
Proof. intros H. unfold over. destruct (v <? 1) eqn:E; [lia|reflexivity]. Qed.
Lemma over_micro v : v <= 0 -> over v = Some v.
Proof. intros H. unfold over. destruct (v <? 1) eqn:E; [reflexivity|lia]. Qed.
Lemma cci_col_qr v : 1 <= v -> cci_col v = qr_range v.
Proof. intros H. unfold cci_col. destruct (0 <? v) eqn:E; [reflexivity|lia]. Qed.
Lemma cci_col_micro v : v <= 0 -> cci_col v = v.
Proof. intros H. unfold cci_col. destruct (0 <? v) eqn:E; [lia|reflexivity]. Qed.

Lemma short_eq v : ((v =? -3) || (v =? -1)) = is_m1_m3 v.
Proof. reflexivity. Qed.

Theorem decode_of_encode_core : forall segs error version mask eci boost code datas,
  -3 <= version <= 40 ->
  encode_core segs error version mask eci boost None = Ok code ->
  Forall2 seg_of_data segs datas ->
  (* the content fits, for the level actually used *)
  fits_at segs version eci (c_error code) ->
  (* encode_core does not validate an explicit mask (encode does) *)
  mask_ok version mask ->
  (* Micro QR: no ECI, and no empty numeric segment (it would read as the terminator) *)
  (version <= 0 -> eci = false /\ Forall count_sane segs) ->
  exists d,
    decode_symbol (c_matrix code) = Some d /\
    dec_version d = version /\
    level_code (dec_level d) = c_error code /\
    dec_mask d = c_mask code /\
    dec_sa d = None /\
    dec_segments d = expected_dsegs eci (combine segs datas) /\
    (* the tail is the terminator / padding of ISO 7.4.9-10 (with known finding D1) *)
    exists cap stream,
      capacity version (c_error code) = Ok cap /\
      write_segments segs (over version) (cci_col version) eci = Ok stream /\
      lenZ stream <= cap /\
      bits_of_codewords version (dec_data_codewords d) = iso_pad_kf version cap stream /\
      stream ++ dec_tail d = iso_pad_kf version cap stream.
Proof.
  intros segs error version mask eci boost code datas Hv Henc Hdat Hfit Hmask Hmicro.
  pose proof (Forall2_wf segs datas Hdat) as Hwf.
  destruct Hfit as (cap0 & len & Hcap0 & Hblen & Hlencap).
  (* length facts of the data stream *)
  assert (Hlen : forall buff cap, data_stream segs (c_error code) version eci None = Ok buff ->
                    capacity version (c_error code) = Ok cap ->
                    cap <= lenZ buff /\ (is_m1_m3 version = true -> lenZ buff = cap)).
  { intros buff cap Hds Hcap.
    destruct (data_stream_inv _ _ _ _ _ _ Hv Hds) as (body & cap' & b1 & Hbody & Hcap' & _ & _ & _ & _ & Hle & Hm13).
    rewrite Hcap in Hcap'. apply GeomLemmas.Ok_inj in Hcap'. subst cap'.
    split; [exact Hle|]. intros Hm. apply Hm13; [exact Hm|]. cbn [sa_hdr app].
    rewrite (stream_length segs version eci len body Hv Hwf Hblen Hbody).
    rewrite Hcap in Hcap0. apply GeomLemmas.Ok_inj in Hcap0. lia. }
  destruct (decode_frame segs error version mask eci boost None code Hv Henc Hmask Hlen)
    as (buff & cap & lvl & Hds & Hcap & Hlvl & Hrf & Hvi & Hbits).
  rewrite Hcap in Hcap0. apply GeomLemmas.Ok_inj in Hcap0. subst cap0.
  destruct (data_stream_inv _ _ _ _ _ _ Hv Hds) as (stream & cap' & b1 & Hws & Hcap' & Hc0 & Hmod & Hb1 & Hbuff & _ & _).
  rewrite Hcap in Hcap'. apply GeomLemmas.Ok_inj in Hcap'. subst cap'. cbn [sa_hdr app] in Hb1.
  pose proof (stream_length segs version eci len stream Hv Hwf Hblen Hws) as Hsl.
  assert (Hfits : lenZ stream <= cap) by lia.
  (* the data codeword bits are the ISO padded stream *)
  assert (Hpad : firstn (Z.to_nat cap) buff = iso_pad_kf version cap stream).
  { rewrite Hbuff. exact (pad_model_is_iso_kf version cap stream b1 Hv Hc0 Hmod Hfits Hb1). }
  rewrite Hpad in Hbits.
  destruct (pad_kf_tail_form version cap stream Hv Hc0 Hmod Hfits) as (k & more & Hform & Hk & Hkm).
  set (sd := combine segs datas).
  pose proof (Forall2_combine_fst _ _ _ Hdat) as Hfst. fold sd in Hfst.
  pose proof (Forall2_combine _ _ _ Hdat) as Hsd. fold sd in Hsd.
  pose proof (capacity_Ok_spec _ _ _ Hcap) as Hsc.
  set (T := repeat false (Z.to_nat k) ++ more) in *.
  assert (Hparse :
    (if 0 <? version then read_sa (stream ++ T) else (None, stream ++ T)) = (None, stream ++ T) /\
    (if 0 <? version then parse_qr (S (List.length (stream ++ T))) version None (stream ++ T) []
     else parse_micro (S (List.length (stream ++ T))) version (stream ++ T) [])
    = Some (expected_dsegs eci sd, T)).
  { destruct (0 <? version) eqn:E0.
    - assert (H1 : 1 <= version <= 40) by lia.
      rewrite (over_qr version ltac:(lia)), (cci_col_qr version ltac:(lia)), <- Hfst in Hws.
      pose proof (fits_seg_ok_qr version (c_error code) cap eci sd stream H1 Hsc Hsd Hws Hfits) as Hok.
      assert (Hstop : tail_stops_qr T).
      { apply tail_stops_qr_zeros; rewrite (qr_terminator version ltac:(lia)) in *; [exact Hk|exact Hkm]. }
      split.
      + exact (read_sa_plain_stream version eci sd stream T Hsd Hws Hstop).
      + exact (write_segments_parse_qr_decoder_fuel version eci sd stream T H1 Hok Hws Hstop).
    - assert (H1 : -3 <= version <= 0) by lia.
      destruct (Hmicro ltac:(lia)) as [-> Hsane].
      rewrite (over_micro version ltac:(lia)), (cci_col_micro version ltac:(lia)), <- Hfst in Hws.
      pose proof (fits_seg_ok_micro version (c_error code) cap sd stream H1 Hsc Hsd Hws Hfits) as Hok.
      assert (Hokm : Forall (seg_ok_micro version) sd).
      { rewrite Forall_forall in Hok |- *. intros p Hp. split; [exact (Hok p Hp)|].
        assert (Hin : In (fst p) segs).
        { destruct p as [s0 d0]. apply in_combine_l in Hp. exact Hp. }
        rewrite Forall_forall in Hsane. exact (proj2 (Hsane _ Hin)). }
      split; [reflexivity|].
      apply (write_segments_parse_micro version sd stream k more _ H1 Hokm Hws Hk Hkm).
      rewrite app_length. lia. }
  destruct Hparse as [Hsa Hp].
  rewrite Hform in Hbits. fold T in Hbits.
  eexists. split.
  - rewrite decode_symbol_eq, Hrf, Hvi. cbn [negb].
    exact (dec_rest_eval _ _ _ _ _ _ _ _ _ Hbits Hsa Hp).
  - cbn [dec_version dec_level dec_mask dec_sa dec_segments dec_data_codewords dec_tail].
    split; [reflexivity|]. split; [exact Hlvl|]. split; [reflexivity|]. split; [reflexivity|].
    split; [reflexivity|].
    exists cap, stream. split; [exact Hcap|]. split; [exact Hws|]. split; [exact Hfits|].
    split; [rewrite Hform; exact Hbits|symmetry; exact Hform].
Qed.
Print Assumptions decode_of_encode_core.

(* the same with the fit hypothesis for the REQUESTED level: boosting keeps it *)
Corollary decode_of_encode_core_requested : forall segs error version mask eci boost code datas,
  -3 <= version <= 40 ->
  encode_core segs error version mask eci boost None = Ok code ->
  Forall2 seg_of_data segs datas ->
  fits_at segs version eci error ->
  mask_ok version mask ->
  (version <= 0 -> eci = false /\ Forall count_sane segs) ->
  exists d,
    decode_symbol (c_matrix code) = Some d /\
    dec_version d = version /\
    level_code (dec_level d) = c_error code /\
    dec_mask d = c_mask code /\
    dec_sa d = None /\
    dec_segments d = expected_dsegs eci (combine segs datas).
Proof.
  intros segs error version mask eci boost code datas Hv Henc Hdat Hfit Hmask Hmicro.
  destruct (encode_core_inv _ _ _ _ _ _ _ Henc) as (e' & Hb & _ & He' & _).
  assert (Hfit' : fits_at segs version eci (c_error code)).
  { rewrite He'. destruct boost.
    - exact (boost_keeps_fit version error segs eci e' Hb Hfit).
    - apply GeomLemmas.Ok_inj in Hb. subst e'. exact Hfit. }
  destruct (decode_of_encode_core _ _ _ _ _ _ _ _ Hv Henc Hdat Hfit' Hmask Hmicro)
    as (d & H1 & H2 & H3 & H4 & H5 & H6 & _).
  exists d. repeat split; assumption.
Qed.
Print Assumptions decode_of_encode_core_requested.

(* ------------------------------------------------------------------ *)
(* 6. prepare_data: the segments are packings of the parts' bytes        *)
(* ------------------------------------------------------------------ *)
Definition part_enc (p : part) : option enc :=
  if oz_eqb (p_mode p) (Some MODE_HANZI) then Some enc_gb2312 else p_enc p.
(* the bytes of a part: the result of data_to_bytes (the codec chain is outside the model) *)
Definition part_bytes (p : part) : list Z :=
  match data_to_bytes (p_content p) (part_enc p) with Ok (d, _) => d | Err _ => [] end.

Lemma of_codec_bytes_ok r d : wf_codec r -> of_codec r = Ok d -> bytes_ok d.
Proof. destruct r as [bs| |]; cbn [wf_codec of_codec]; intros Hb H; [|discriminate H|discriminate H]. injection H as <-. exact Hb. Qed.

Lemma data_to_bytes_bytes_ok c oe d se : wf_content c -> data_to_bytes c oe = Ok (d, se) -> bytes_ok d.
Proof.
  destruct c as [bs|g l sj u]; cbn [wf_content data_to_bytes].
  - intros Hb H. injection H as <- _. exact Hb.
  - intros (Hg & Hl & Hs & Hu) H.
    assert (Hc : forall r x, wf_codec r -> (do bs <- of_codec r; Ok (bs, x)) = Ok (d, se) -> bytes_ok d).
    { intros r x Hr Hx. destruct (of_codec r) as [bs|e] eqn:E; cbn [bind] in Hx; [|discriminate Hx].
      injection Hx as <- _. exact (of_codec_bytes_ok r bs Hr E). }
    destruct oe as [e|]; [exact (Hc g e Hg H)|].
    destruct l as [bs| |].
    + injection H as <- _. exact Hl.
    + destruct sj as [bs| |]; [injection H as <- _; exact Hs|exact (Hc u _ Hu H)|exact (Hc u _ Hu H)].
    + destruct sj as [bs| |]; [injection H as <- _; exact Hs|exact (Hc u _ Hu H)|exact (Hc u _ Hu H)].
Qed.

Lemma digits_alnum_all : forallb is_alnum_char (zrange 48 58) = true.
Proof. vm_compute. reflexivity. Qed.
Lemma digit_alnum b : 48 <= b <= 57 -> In b ALPHANUMERIC_CHARS.
Proof.
  intros Hb. apply is_alnum_char_In. pose proof digits_alnum_all as T. rewrite forallb_forall in T.
  apply T. apply zrange_In. lia.
Qed.

Lemma find_mode_2_alnum data : find_mode data = 2 -> Forall (fun b => In b ALPHANUMERIC_CHARS) data.
Proof.
  unfold find_mode, MODE_NUMERIC, MODE_ALPHANUMERIC, MODE_KANJI, MODE_BYTE.
  destruct (negb (lenZ data =? 0) && forallb is_digit data); [discriminate|].
  destruct (negb (lenZ data =? 0) && forallb is_alnum_char data) eqn:E.
  - intros _. apply andb_prop in E. destruct E as [_ E]. rewrite forallb_forall in E.
    apply Forall_forall. intros b Hb. apply is_alnum_char_In. exact (E b Hb).
  - destruct (is_kanji data); discriminate.
Qed.

(* the invariant of prepare_aux: a segment is a packing of [data], in a mode that fits the data *)
Definition seg_pre (s : segment) (data : list Z) : Prop :=
  pack_mode (s_mode s) data = Ok (s_bits s) /\ s_count s = count_mode (s_mode s) data /\
  bytes_ok data /\
  (s_mode s = 1 -> Forall (fun d => 48 <= d <= 57) data) /\
  (s_mode s = 2 -> Forall (fun b => In b ALPHANUMERIC_CHARS) data).

Lemma make_segment_pre c mode encoding s :
  wf_content c -> make_segment c mode encoding = Ok s ->
  exists data senc,
    data_to_bytes c (if oz_eqb mode (Some MODE_HANZI) then Some enc_gb2312 else encoding) = Ok (data, senc) /\
    seg_pre s data.
Proof.
  intros Hwf H.
  destruct (make_segment_pack c mode encoding s H) as (data0 & senc0 & Hd0 & Hpk & Hcnt).
  unfold make_segment in H. cbv zeta in H.
  destruct (data_to_bytes c _) as [[data senc]|x] eqn:Ed; [|discriminate H].
  injection Hd0 as <- <-. cbn [bind] in H.
  exists data, senc. split; [reflexivity|].
  pose proof (data_to_bytes_bytes_ok _ _ _ _ Hwf Ed) as Hb.
  split; [exact Hpk|]. split; [exact Hcnt|]. split; [exact Hb|].
  assert (Hrel : s_mode s = 4 \/ find_mode data <= s_mode s).
  { match type of H with context [bind ?X _] =>
      match X with (match mode with _ => _ end) => destruct X as [smode|x] eqn:Esm end end; [|discriminate H].
    cbn [bind] in H.
    match type of H with (if ?b then _ else _) = _ => destruct b end; [discriminate H|].
    match type of H with context [bind ?X _] => destruct X as [bs|x] end; [|discriminate H].
    cbn [bind] in H. injection H as <-. cbn [s_mode].
    destruct mode as [m|].
    - destruct (oz_eqb (Some m) (Some MODE_BYTE)) eqn:Eb.
      + destruct (m <? MODE_BYTE) eqn:Elt; [discriminate Esm|]. injection Esm as <-.
        cbn [oz_eqb] in Eb. unfold MODE_BYTE in Eb. left. lia.
      + destruct (m <? find_mode data) eqn:Elt; [discriminate Esm|]. injection Esm as <-. right. lia.
    - cbn [oz_eqb] in Esm. injection Esm as <-. right. lia. }
  split.
  - intros E1. rewrite E1 in Hrel. destruct Hrel as [Hrel|Hrel]; [discriminate Hrel|].
    destruct (find_mode_cases data) as [E|[E|[E|E]]]; rewrite E in Hrel; try lia.
    exact (proj2 (find_mode_numeric_elim data E)).
  - intros E2. rewrite E2 in Hrel. destruct Hrel as [Hrel|Hrel]; [discriminate Hrel|].
    destruct (find_mode_cases data) as [E|[E|[E|E]]]; rewrite E in Hrel; try lia.
    + eapply Forall_impl; [|exact (proj2 (find_mode_numeric_elim data E))]. intros b. apply digit_alnum.
    + exact (find_mode_2_alnum data E).
Qed.

Lemma bytes_ok_app a b : bytes_ok a -> bytes_ok b -> bytes_ok (a ++ b).
Proof. unfold bytes_ok. intros Ha Hb. apply Forall_app. split; assumption. Qed.

Lemma pack_mode_even mode d bs : pack_mode mode d = Ok bs ->
  ((mode =? MODE_KANJI) || (mode =? MODE_HANZI)) = true -> lenZ d mod 2 = 0.
Proof.
  unfold pack_mode, MODE_NUMERIC, MODE_ALPHANUMERIC, MODE_BYTE, MODE_HANZI, MODE_KANJI. intros H Ht.
  destruct (mode =? 1) eqn:E1; [lia|]. destruct (mode =? 2) eqn:E2; [lia|]. destruct (mode =? 4) eqn:E4; [lia|].
  destruct (mode =? 13); [exact (pack_hanzi_ok_even d bs H)|exact (pack_kanji_ok_even d bs H)].
Qed.

Lemma add_segment_pre prev rest s d1 d2 :
  seg_pre prev d1 -> seg_pre s d2 ->
  (add_segment (prev :: rest) s = s :: prev :: rest) \/
  (exists m, add_segment (prev :: rest) s = m :: rest /\ seg_pre m (d1 ++ d2)).
Proof.
  intros (Hp1 & Hc1 & Hb1 & Hn1 & Ha1) (Hp2 & Hc2 & Hb2 & Hn2 & Ha2).
  destruct ((s_mode prev =? s_mode s) && oenc_eqb (s_enc prev) (s_enc s)
            && (s_count prev mod merge_group (s_mode s) =? 0)) eqn:E.
  - right.
    destruct (add_segment_merge prev s rest d1 d2 Hp1 Hc1 Hp2 Hc2 E) as (m & Hadd & Hmm & _ & Hpm & Hcm).
    exists m. split; [exact Hadd|].
    assert (Em : s_mode prev = s_mode s) by lia.
    split; [exact Hpm|]. split.
    { apply Hcm. destruct ((s_mode s =? MODE_KANJI) || (s_mode s =? MODE_HANZI)) eqn:Et; [left|right; reflexivity].
      apply (pack_mode_even (s_mode prev) d1 (s_bits prev) Hp1). rewrite Em. exact Et. }
    split; [apply bytes_ok_app; assumption|]. rewrite Hmm. split.
    + intros H1. apply Forall_app. split; [apply Hn1; congruence|apply Hn2; exact H1].
    + intros H2. apply Forall_app. split; [apply Ha1; congruence|apply Ha2; exact H2].
  - left. cbn [add_segment]. rewrite E. reflexivity.
Qed.

Lemma concat_rev_cons {A} (x : list A) l : concat (rev (x :: l)) = concat (rev l) ++ x.
Proof. cbn [rev]. rewrite concat_app. cbn [concat]. rewrite app_nil_r. reflexivity. Qed.

Lemma Forall2_rev {A B} (R : A -> B -> Prop) l1 l2 : Forall2 R l1 l2 -> Forall2 R (rev l1) (rev l2).
Proof.
  induction 1 as [|a b l1 l2 Hab _ IH]; cbn [rev]; [constructor|].
  apply Forall2_app; [exact IH|constructor; [exact Hab|constructor]].
Qed.

Lemma prepare_aux_pre : forall parts acc daccs segs,
  Forall (fun p => wf_content (p_content p)) parts ->
  Forall2 seg_pre acc daccs ->
  prepare_aux parts acc = Ok segs ->
  exists datas, Forall2 seg_pre segs datas /\
                concat datas = concat (rev daccs) ++ concat (map part_bytes parts).
Proof.
  induction parts as [|p r IH]; intros acc daccs segs Hwf Hacc H.
  - cbn [prepare_aux] in H. apply GeomLemmas.Ok_inj in H. subst segs.
    exists (rev daccs). split; [apply Forall2_rev; exact Hacc|]. cbn [map concat]. rewrite app_nil_r. reflexivity.
  - apply Forall_cons_iff in Hwf. destruct Hwf as [Hp Hr].
    cbn [prepare_aux] in H. apply bind_ok in H. destruct H as (s & Hs & H).
    destruct (make_segment_pre _ _ _ _ Hp Hs) as (d2 & senc & Hd2 & Hpre).
    assert (Hpb : part_bytes p = d2).
    { unfold part_bytes, part_enc. rewrite Hd2. reflexivity. }
    cbn [map concat]. rewrite <- Hpb in Hpre. clear Hpb Hd2.
    destruct Hacc as [|prev d1 rest drest Hprev Hrest].
    + cbn [add_segment] in H.
      destruct (IH [s] [part_bytes p] segs Hr ltac:(constructor; [exact Hpre|constructor]) H) as (datas & HF & Hc).
      exists datas. split; [exact HF|]. rewrite Hc. cbn [rev concat app]. rewrite app_nil_r. reflexivity.
    + destruct (add_segment_pre prev rest s d1 (part_bytes p) Hprev Hpre) as [Hadd|(m & Hadd & Hm)]; rewrite Hadd in H.
      * destruct (IH (s :: prev :: rest) (part_bytes p :: d1 :: drest) segs Hr
                    ltac:(constructor; [exact Hpre|constructor; assumption]) H) as (datas & HF & Hc).
        exists datas. split; [exact HF|]. rewrite Hc. rewrite (concat_rev_cons (part_bytes p)), <- app_assoc. reflexivity.
      * destruct (IH (m :: rest) ((d1 ++ part_bytes p) :: drest) segs Hr ltac:(constructor; assumption) H) as (datas & HF & Hc).
        exists datas. split; [exact HF|]. rewrite Hc. rewrite !concat_rev_cons, <- !app_assoc. reflexivity.
Qed.

Lemma pack_hanzi_pairs : forall l bs, pack_hanzi l = Ok bs -> all_pairs hanzi_pair l = true.
Proof.
  induction l as [| a | a b r IH] using list_pair_ind; intros bs H.
  - reflexivity.
  - discriminate H.
  - cbn [all_pairs]. destruct (hanzi_pair a b) eqn:Hk.
    + rewrite (pack_hanzi_cons a b r Hk) in H. destruct (pack_hanzi r) as [rest|e]; cbn [bind] in H; [|discriminate H].
      cbn [andb]. exact (IH rest eq_refl).
    + rewrite (pack_hanzi_reject a b r Hk) in H. discriminate H.
Qed.

Lemma seg_pre_of_data s d : VersionLemmas.valid_mode (s_mode s) -> seg_pre s d -> seg_of_data s d.
Proof.
  intros Hm (Hp & Hc & Hb & Hn & Ha). split; [exact Hp|]. split; [exact Hc|].
  unfold seg_valid. destruct Hm as [E|[E|[E|[E|E]]]]; rewrite E in *.
  - left. split; [reflexivity|exact (Hn eq_refl)].
  - right. left. split; [reflexivity|exact (Ha eq_refl)].
  - right. right. left. split; [reflexivity|exact Hb].
  - right. right. right. left. split; [reflexivity|]. split; [exact Hb|].
    change (pack_mode 8 d) with (pack_kanji d) in Hp. pose proof (pack_kanji_spec d) as Hs. rewrite Hp in Hs. exact Hs.
  - right. right. right. right. split; [reflexivity|]. split; [exact Hb|].
    change (pack_mode 13 d) with (pack_hanzi d) in Hp. exact (pack_hanzi_pairs d _ Hp).
Qed.

(* nothing is lost, added or reordered by prepare_data *)
Theorem prepare_data_packings parts segs :
  Forall (fun p => wf_content (p_content p)) parts ->
  prepare_data parts = Ok segs -> Forall wf_seg segs ->
  exists datas, Forall2 seg_of_data segs datas /\ concat datas = concat (map part_bytes parts).
Proof.
  intros Hwf H Hsegs. unfold prepare_data in H.
  destruct (prepare_aux_pre parts [] [] segs Hwf ltac:(constructor) H) as (datas & HF & Hc).
  exists datas. split; [|exact Hc].
  clear Hc H. induction HF as [|s d l1 l2 Hsd _ IH]; [constructor|].
  apply Forall_cons_iff in Hsegs. destruct Hsegs as [(Hm & _) Hrest].
  constructor; [exact (seg_pre_of_data s d Hm Hsd)|exact (IH Hrest)].
Qed.

(* ------------------------------------------------------------------ *)
(* 7. Theorem 2: decode (encode ...)                                    *)
(* ------------------------------------------------------------------ *)
Lemma normalize_mask_int_range mask micro k :
  Encode.normalize_mask_int mask micro = Ok (Some k) -> 0 <= k < (if micro then 4 else 8).
Proof.
  unfold Encode.normalize_mask_int. destruct mask as [m|]; [|discriminate].
  destruct ((0 <=? m) && (m <? (if micro then 4 else 8))) eqn:E; [|discriminate].
  intros H. injection H as <-. lia.
Qed.

Theorem encode_decodes : forall parts error version mode mask eci micro boost code,
  encode parts error version mode mask eci micro boost = Ok code ->
  Forall (fun p => wf_content (p_content p)) parts ->
  exists d datas,
    decode_symbol (c_matrix code) = Some d /\
    dec_version d = c_version code /\
    dec_mask d = c_mask code /\
    level_code (dec_level d) = c_error code /\
    dec_sa d = None /\
    Forall2 seg_of_data (c_segments code) datas /\
    dec_segments d = expected_dsegs eci (combine (c_segments code) datas) /\
    (* nothing is lost, added or reordered *)
    concat datas = concat (map part_bytes parts) /\
    (* terminator and padding *)
    exists cap stream,
      capacity (c_version code) (c_error code) = Ok cap /\
      write_segments (c_segments code) (over (c_version code)) (cci_col (c_version code)) eci = Ok stream /\
      lenZ stream <= cap /\
      bits_of_codewords (c_version code) (dec_data_codewords d) = iso_pad_kf (c_version code) cap stream /\
      stream ++ dec_tail d = iso_pad_kf (c_version code) cap stream.
Proof.
  intros parts error version mode mask eci micro boost code H Hparts.
  destruct (encode_inv _ _ _ _ _ _ _ _ _ H) as (segs & g & v & mk & Hrun).
  destruct (run_facts _ _ _ _ _ _ _ _ _ _ _ _ _ Hrun) as (Hwf & Hcv & Hcs & _ & Hfit & Hadm & Hmk & Hcore).
  pose proof Hrun as Hrun'. destruct Hrun' as [_ _ _ _ _ Hsegs _ _ _ Hnm _].
  destruct (prepare_data_packings parts segs Hparts Hsegs Hwf) as (datas & Hdat & Hconcat).
  pose proof (prepare_data_count_sane parts segs Hsegs) as Hsane.
  destruct Hadm as (Hv & Hmic & _ & _).
  assert (Hmask : mask_ok v (Some (c_mask code))).
  { cbn [mask_ok]. destruct mk as [m|]; [|exact Hmk]. rewrite Hmk.
    exact (normalize_mask_int_range mask (v <? 1) m Hnm). }
  assert (Hmicro : v <= 0 -> eci = false /\ Forall count_sane segs).
  { intros Hv0. split; [exact (proj2 (Hmic Hv0))|exact Hsane]. }
  destruct (decode_of_encode_core segs (c_error code) v (Some (c_mask code)) eci false code datas
              Hv Hcore Hdat Hfit Hmask Hmicro) as (d & Hdec & Hdv & Hdl & Hdm & Hdsa & Hdseg & Htail).
  exists d, datas. rewrite Hcv, Hcs.
  split; [exact Hdec|]. split; [exact Hdv|]. split; [exact Hdm|]. split; [exact Hdl|]. split; [exact Hdsa|].
  split; [exact Hdat|]. split; [exact Hdseg|]. split; [exact Hconcat|exact Htail].
Qed.
Print Assumptions encode_decodes.

(* ------------------------------------------------------------------ *)
(* 8. Theorem 3: ECI designators                                        *)
(* ------------------------------------------------------------------ *)
Lemma write_segment_eci_ok s ver r bs :
  write_segment s ver r true = Ok bs -> s_mode s = MODE_BYTE -> enc_is_default (s_enc s) = false ->
  exists n, eci_number (s_enc s) = Ok n.
Proof.
  unfold write_segment. cbv zeta. intros H Hm Hd. rewrite Hm, Hd in H.
  change (true && (MODE_BYTE =? MODE_BYTE) && negb false) with true in H. cbv iota in H.
  destruct (eci_number (s_enc s)) as [n|x]; [eauto|discriminate H].
Qed.

Lemma Forall2_map_combine {A B C} (R : A -> B -> Prop) (f : A * B -> C) (Q : A -> C -> Prop) l1 l2 :
  Forall2 R l1 l2 -> (forall a b, In a l1 -> Q a (f (a, b))) -> Forall2 Q l1 (map f (combine l1 l2)).
Proof.
  induction 1 as [|a b l1 l2 _ _ IH]; intros HQ; cbn [combine map]; constructor.
  - apply HQ. left. reflexivity.
  - apply IH. intros a' b' Hin. apply HQ. right. exact Hin.
Qed.

(* with eci = true every byte segment whose encoding is not the default carries its ECI designator;
   with eci = false, in a Micro QR symbol, for other modes and for the default encoding there is none *)
Theorem encode_decodes_eci : forall parts error version mode mask eci micro boost code,
  encode parts error version mode mask eci micro boost = Ok code ->
  Forall (fun p => wf_content (p_content p)) parts ->
  exists d,
    decode_symbol (c_matrix code) = Some d /\
    Forall2 (fun s ds =>
       (eci = true -> s_mode s = MODE_BYTE -> enc_is_default (s_enc s) = false ->
        exists n, eci_number (s_enc s) = Ok n /\ d_eci ds = Some n) /\
       (eci = false \/ c_version code <= 0 \/ s_mode s <> MODE_BYTE \/ enc_is_default (s_enc s) = true ->
        d_eci ds = None))
      (c_segments code) (dec_segments d).
Proof.
  intros parts error version mode mask eci micro boost code H Hparts.
  destruct (encode_decodes _ _ _ _ _ _ _ _ _ H Hparts)
    as (d & datas & Hdec & _ & _ & _ & _ & Hdat & Hsegs & _ & cap & stream & _ & Hws & _).
  destruct (encode_inv _ _ _ _ _ _ _ _ _ H) as (segs & g & v & mk & Hrun).
  destruct (run_facts _ _ _ _ _ _ _ _ _ _ _ _ _ Hrun) as (_ & Hcv & _ & _ & _ & Hadm & _).
  destruct Hadm as (_ & Hmic & _ & _).
  exists d. split; [exact Hdec|]. rewrite Hsegs. unfold expected_dsegs.
  apply (Forall2_map_combine seg_of_data _ _ _ _ Hdat). intros s data Hin.
  cbn [fst snd expected_dseg d_eci]. unfold has_eci. split.
  - intros -> Hm Hd.
    destruct (write_segments_In _ _ _ _ _ s Hws Hin) as (bs & Hbs & _).
    destruct (write_segment_eci_ok s _ _ bs Hbs Hm Hd) as [n Hn]. exists n. split; [exact Hn|].
    rewrite Hm, Hd. unfold eci_opt. rewrite Hn. reflexivity.
  - intros [->|[Hv0|[Hm|Hd]]].
    + reflexivity.
    + rewrite Hcv in Hv0. rewrite (proj2 (Hmic Hv0)). reflexivity.
    + destruct (s_mode s =? MODE_BYTE) eqn:E; [exfalso; apply Hm; lia|]. rewrite andb_false_r. reflexivity.
    + rewrite Hd. cbn [negb]. rewrite andb_false_r. reflexivity.
Qed.
Print Assumptions encode_decodes_eci.

(* ------------------------------------------------------------------ *)
(* 9. Theorem 4: symbols of a Structured Append sequence                *)
(* ------------------------------------------------------------------ *)
Lemma stream_length_sa segs v eci is_sa len stream :
  -3 <= v <= 40 -> Forall wf_seg segs ->
  bit_length_with_overhead segs v eci is_sa = Ok len ->
  write_segments segs (over v) (cci_col v) eci = Ok stream ->
  (if is_sa then 20 else 0) + lenZ stream = len.
Proof.
  intros Hv Hwf Hlen Hws. rewrite (bit_length_spec segs v eci is_sa Hv Hwf) in Hlen.
  destruct (all_available v segs) eqn:Hav; [|discriminate Hlen]. apply GeomLemmas.Ok_inj in Hlen. subst len.
  assert (Hf : bit_length_with_overhead segs v eci false = Ok (spec_bits v (map (abs_seg eci) segs) false)).
  { rewrite (bit_length_spec segs v eci false Hv Hwf), Hav. reflexivity. }
  rewrite (stream_length segs v eci _ stream Hv Hwf Hf Hws). rewrite !spec_bits_sum. destruct is_sa; lia.
Qed.

Lemma lenZ_sa_header i t p : lenZ (sa_header i t p) = 20.
Proof. unfold sa_header. rewrite !PackLemmas.lenZ_app, !lenZ_bits_of by lia. reflexivity. Qed.

Theorem decode_of_encode_core_sa : forall segs error version mask eci boost sa code datas,
  1 <= version <= 40 ->
  encode_core segs error version mask eci boost (Some sa) = Ok code ->
  Forall2 seg_of_data segs datas ->
  0 <= sa_number sa < 16 -> 0 <= sa_total sa < 16 -> 0 <= sa_parity sa < 256 ->
  (* header and content fit, for the level actually used *)
  (exists cap len, capacity version (c_error code) = Ok cap /\
                   bit_length_with_overhead segs version eci true = Ok len /\ len <= cap) ->
  mask_ok version mask ->
  exists d,
    decode_symbol (c_matrix code) = Some d /\
    dec_version d = version /\
    level_code (dec_level d) = c_error code /\
    dec_mask d = c_mask code /\
    dec_sa d = Some (sa_number sa, sa_total sa, sa_parity sa) /\
    dec_segments d = expected_dsegs eci (combine segs datas) /\
    exists cap stream,
      capacity version (c_error code) = Ok cap /\
      write_segments segs None (qr_range version) eci = Ok stream /\
      lenZ (sa_hdr (Some sa) ++ stream) <= cap /\
      bits_of_codewords version (dec_data_codewords d) = iso_pad_kf version cap (sa_hdr (Some sa) ++ stream) /\
      sa_hdr (Some sa) ++ stream ++ dec_tail d = iso_pad_kf version cap (sa_hdr (Some sa) ++ stream).
Proof.
  intros segs error version mask eci boost sa code datas Hv1 Henc Hdat Hn Ht Hp Hfit Hmask.
  assert (Hv : -3 <= version <= 40) by lia.
  pose proof (Forall2_wf segs datas Hdat) as Hwf.
  destruct Hfit as (cap0 & len & Hcap0 & Hblen & Hlencap).
  assert (Hlen : forall buff cap, data_stream segs (c_error code) version eci (Some sa) = Ok buff ->
                    capacity version (c_error code) = Ok cap ->
                    cap <= lenZ buff /\ (is_m1_m3 version = true -> lenZ buff = cap)).
  { intros buff cap Hds Hcap.
    destruct (data_stream_inv _ _ _ _ _ _ Hv Hds) as (body & cap' & b1 & _ & Hcap' & _ & _ & _ & _ & Hle & _).
    rewrite Hcap in Hcap'. apply GeomLemmas.Ok_inj in Hcap'. subst cap'.
    split; [exact Hle|]. unfold is_m1_m3, VERSION_M1, VERSION_M3. lia. }
  destruct (decode_frame segs error version mask eci boost (Some sa) code Hv Henc Hmask Hlen)
    as (buff & cap & lvl & Hds & Hcap & Hlvl & Hrf & Hvi & Hbits).
  rewrite Hcap in Hcap0. apply GeomLemmas.Ok_inj in Hcap0. subst cap0.
  destruct (data_stream_inv _ _ _ _ _ _ Hv Hds) as (stream & cap' & b1 & Hws & Hcap' & Hc0 & Hmod & Hb1 & Hbuff & _ & _).
  rewrite Hcap in Hcap'. apply GeomLemmas.Ok_inj in Hcap'. subst cap'.
  pose proof (stream_length_sa segs version eci true len stream Hv Hwf Hblen Hws) as Hsl. cbv iota in Hsl.
  set (hdr := sa_hdr (Some sa)) in *.
  assert (Hhdr : hdr = sa_header (sa_number sa) (sa_total sa) (sa_parity sa)) by reflexivity.
  assert (Hfits : lenZ (hdr ++ stream) <= cap).
  { rewrite PackLemmas.lenZ_app, Hhdr, lenZ_sa_header. lia. }
  assert (Hpad : firstn (Z.to_nat cap) buff = iso_pad_kf version cap (hdr ++ stream)).
  { rewrite Hbuff. exact (pad_model_is_iso_kf version cap (hdr ++ stream) b1 Hv Hc0 Hmod Hfits Hb1). }
  rewrite Hpad in Hbits.
  set (sd := combine segs datas).
  pose proof (Forall2_combine_fst _ _ _ Hdat) as Hfst. fold sd in Hfst.
  pose proof (Forall2_combine _ _ _ Hdat) as Hsd. fold sd in Hsd.
  pose proof (capacity_Ok_spec _ _ _ Hcap) as Hsc.
  rewrite (over_qr version ltac:(lia)), (cci_col_qr version ltac:(lia)) in Hws.
  pose proof Hws as Hws'. rewrite <- Hfst in Hws'.
  rewrite Hhdr in Hfits.
  destruct (parse_symbol_stream_qr_sa version (c_error code) cap eci sd stream
              (sa_number sa) (sa_total sa) (sa_parity sa) Hv1 Hsc Hsd Hws' Hn Ht Hp Hfits
              _ (or_introl eq_refl)) as (tail & Hform & Hsa & Hparse).
  rewrite <- Hhdr in Hform, Hsa, Hfits.
  assert (E0 : (0 <? version) = true) by lia.
  eexists. split.
  - rewrite decode_symbol_eq, Hrf, Hvi. cbn [negb].
    eapply dec_rest_eval; [exact Hbits|rewrite E0; exact Hsa|rewrite E0; exact Hparse].
  - cbn [dec_version dec_level dec_mask dec_sa dec_segments dec_data_codewords dec_tail].
    split; [reflexivity|]. split; [exact Hlvl|]. split; [reflexivity|]. split; [reflexivity|].
    split; [reflexivity|].
    exists cap, stream. split; [exact Hcap|]. split; [exact Hws|]. split; [exact Hfits|].
    split; [exact Hbits|symmetry; exact Hform].
Qed.
Print Assumptions decode_of_encode_core_sa.

(* ------------------------------------------------------------------ *)
(* 10. Examples: the statements are not vacuous; the extra hypotheses   *)
(*     of Theorem 1 are needed                                          *)
(* ------------------------------------------------------------------ *)
Definition bpart (bs : list Z) : part := {| p_content := PBytes bs; p_mode := None; p_enc := None |}.
Definition enc_utf8' : enc := {| e_name := "utf-8"%string; e_canon := Some "utf-8"%string |}.

(* what the encoder chose and what the reference decoder reads back *)
Definition roundtrip_summary (r : res code) :=
  match r with
  | Ok k => match decode_symbol (c_matrix k) with
            | Some d => Some (c_version k, c_error k, c_mask k,
                              (dec_version d, level_code (dec_level d), dec_mask d, dec_sa d, dec_segments d))
            | None => None end
  | Err _ => None end.

(* b"12345": an M1 symbol, one numeric segment *)
Example ex_12345 :
  roundtrip_summary (encode [bpart [49; 50; 51; 52; 53]] None None None None false None true)
  = Some (-3, None, 2,
          (-3, None, 2, None,
           [{| d_mode := DNumeric; d_eci := None; d_count := 5; d_bytes := [49; 50; 51; 52; 53] |}])).
Proof. vm_compute. reflexivity. Qed.

(* b"hi!" followed by b"1234567": an M3-L symbol with a byte and a numeric segment *)
Example ex_two_parts :
  roundtrip_summary (encode [bpart [104; 105; 33]; bpart [49; 50; 51; 52; 53; 54; 55]] None None None None false None true)
  = Some (-1, Some 1, 1,
          (-1, Some 1, 1, None,
           [{| d_mode := DByte; d_eci := None; d_count := 3; d_bytes := [104; 105; 33] |};
            {| d_mode := DNumeric; d_eci := None; d_count := 7; d_bytes := [49; 50; 51; 52; 53; 54; 55] |}])).
Proof. vm_compute. reflexivity. Qed.

(* UTF-8 bytes with eci=True: version 1-H (boosted), ECI designator 26 *)
Example ex_eci :
  roundtrip_summary (encode [{| p_content := PBytes [195; 164]; p_mode := None; p_enc := Some enc_utf8' |}]
                            None None None None true None true)
  = Some (1, Some 2, 2,
          (1, Some 2, 2, None, [{| d_mode := DByte; d_eci := Some 26; d_count := 2; d_bytes := [195; 164] |}])).
Proof. vm_compute. reflexivity. Qed.

(* Theorem 2 instantiated: its hypotheses hold for these inputs, and the last conjunct pins the content *)
Example ex_two_parts_thm : forall code,
  encode [bpart [104; 105; 33]; bpart [49; 50; 51; 52; 53; 54; 55]] None None None None false None true = Ok code ->
  exists d datas,
    decode_symbol (c_matrix code) = Some d /\ dec_version d = c_version code /\ dec_mask d = c_mask code /\
    level_code (dec_level d) = c_error code /\ dec_sa d = None /\
    Forall2 seg_of_data (c_segments code) datas /\
    dec_segments d = expected_dsegs false (combine (c_segments code) datas) /\
    concat datas = [104; 105; 33; 49; 50; 51; 52; 53; 54; 55].
Proof.
  intros code H.
  assert (Hwf : Forall (fun p => wf_content (p_content p))
                       [bpart [104; 105; 33]; bpart [49; 50; 51; 52; 53; 54; 55]]).
  { repeat constructor; lia. }
  destruct (encode_decodes _ _ _ _ _ _ _ _ _ H Hwf) as (d & datas & H1 & H2 & H3 & H4 & H5 & H6 & H7 & H8 & _).
  exists d, datas. repeat split; assumption.
Qed.

(* --- why Theorem 1 needs its extra hypotheses --- *)
(* (a) encode_core does not validate an explicit mask: with mask 9 on a 1-M symbol the format information
   carries data bits 0*8+9 = 01 001, i.e. level L / mask 1, and the symbol does not decode *)
Definition seg_A : segment :=
  {| s_bits := flat_map (fun b => bits_of b 8) [65]; s_count := 1; s_mode := 4; s_enc := Some enc_latin1 |}.
Example mask_must_be_validated :
  match encode_core [seg_A] (Some 0) 1 (Some 9) false false None with
  | Ok k => (c_mask k =? 9) &&
            match decode_symbol (c_matrix k) with Some d => negb (dec_mask d =? c_mask k) | None => true end
  | Err _ => false end = true.
Proof. vm_compute. reflexivity. Qed.

(* (b) Micro QR: an empty numeric segment is a packing of the empty byte string, but its header
   (mode 0, count 0) is the Micro QR terminator: the decoder stops there *)
Definition seg_empty : segment := {| s_bits := []; s_count := 0; s_mode := 1; s_enc := None |}.
Definition seg_12 : segment := {| s_bits := pack_numeric 3 [49; 50]; s_count := 2; s_mode := 1; s_enc := None |}.
Example micro_empty_numeric_reads_as_terminator :
  seg_of_data seg_empty [] /\
  match encode_core [seg_empty; seg_12] (Some 1) (-2) (Some 0) false false None with
  | Ok k => match decode_symbol (c_matrix k) with
            | Some d => match dec_segments d with [] => true | _ => false end
            | None => false end
  | Err _ => false end = true.
Proof.
  split; [|vm_compute; reflexivity].
  split; [reflexivity|]. split; [reflexivity|]. left. split; [reflexivity|constructor].
Qed.

(* (c) Micro QR has no ECI mode: encode() refuses the combination, encode_core does not; the ECI
   header 0111 is read as a mode indicator and the symbol does not decode to the segment *)
Definition seg_U : segment :=
  {| s_bits := flat_map (fun b => bits_of b 8) [195; 164]; s_count := 2; s_mode := 4; s_enc := Some enc_utf8' |}.
Example micro_eci_not_decodable :
  match encode_core [seg_U] (Some 1) 0 (Some 0) true false None with
  | Ok k => match decode_symbol (c_matrix k) with
            | Some d => match dec_segments d with
                        | [ds] => negb ((d_count ds =? 2) && match d_eci ds with Some 26 => true | _ => false end)
                        | _ => true end
            | None => true end
  | Err _ => false end = true.
Proof. vm_compute. reflexivity. Qed.
