(* C01, layer 1: the reference decoder's payload readers (Ref/Decoder.v) invert the model's bit packers
   (Model/Segment.v), for contents of unbounded length; plus the packing side of Segments.add_segment
   (merging two segments of one mode is packing the concatenated data, at a group boundary). *)
From Coq Require Import String.
From Coq Require Import ZArith List Bool Lia ZifyBool.
From Segno Require Import Base.PyLite Ref.IsoData Ref.Decoder Ref.Spec Model.Bits Model.Segment.
Import ListNotations.
Open Scope Z_scope.
Ltac Zify.zify_post_hook ::= Z.to_euclidean_division_equations.

(* ------------------------------------------------------------------------------------------ *)
(* lists                                                                                      *)
(* ------------------------------------------------------------------------------------------ *)
Lemma lenZ_cons {A} (a : A) (l : list A) : lenZ (a :: l) = lenZ l + 1.
Proof. unfold lenZ. cbn [List.length]. lia. Qed.
Lemma lenZ_app {A} (l r : list A) : lenZ (l ++ r) = lenZ l + lenZ r.
Proof. unfold lenZ. rewrite app_length. lia. Qed.
Lemma lenZ_nonneg {A} (l : list A) : 0 <= lenZ l.
Proof. unfold lenZ. lia. Qed.

Lemma firstn_exact {A} (l r : list A) (n : nat) : List.length l = n -> firstn n (l ++ r) = l.
Proof.
  intros <-. induction l as [|a l IH]; cbn [List.length firstn app]; [reflexivity | now rewrite IH].
Qed.
Lemma skipn_exact {A} (l r : list A) (n : nat) : List.length l = n -> skipn n (l ++ r) = r.
Proof.
  intros <-. induction l as [|a l IH]; cbn [List.length skipn app]; [reflexivity | exact IH].
Qed.

Section ListInd.
  Context {A : Type} (P : list A -> Prop).
  Lemma list_ind2 :
    P [] -> (forall a, P [a]) -> (forall a b r, P r -> P (a :: b :: r)) -> forall l, P l.
  Proof.
    intros H0 H1 H2. fix IH 1. intros [|a [|b r]]; [exact H0 | apply H1 | apply H2, IH].
  Qed.
  Lemma list_ind3 :
    P [] -> (forall a, P [a]) -> (forall a b, P [a; b]) ->
    (forall a b c r, P r -> P (a :: b :: c :: r)) -> forall l, P l.
  Proof.
    intros H0 H1 H2 H3. fix IH 1.
    intros [|a [|b [|c r]]]; [exact H0 | apply H1 | apply H2 | apply H3, IH].
  Qed.
End ListInd.

Fixpoint zlist_eqb (a b : list Z) : bool :=
  match a, b with
  | [], [] => true
  | x :: a', y :: b' => (x =? y) && zlist_eqb a' b'
  | _, _ => false
  end.
Lemma zlist_eqb_eq a : forall b, zlist_eqb a b = true <-> a = b.
Proof.
  induction a as [|x a IH]; intros [|y b]; cbn [zlist_eqb]; split; intros H;
    try reflexivity; try discriminate H.
  - apply andb_prop in H as [H1 H2]. apply IH in H2. f_equal; [lia | exact H2].
  - injection H as -> ->. apply andb_true_intro. split; [lia | now apply IH].
Qed.

(* ------------------------------------------------------------------------------------------ *)
(* 1. bits_of / word_of / take                                                                *)
(* ------------------------------------------------------------------------------------------ *)
Lemma bits_of_aux_length k v : List.length (bits_of_aux k v) = k.
Proof. induction k as [|k IH]; cbn [bits_of_aux List.length]; congruence. Qed.

Lemma bits_of_length v n : List.length (bits_of v n) = Z.to_nat n.
Proof. unfold bits_of. apply bits_of_aux_length. Qed.

Lemma lenZ_bits_of v n : 0 <= n -> lenZ (bits_of v n) = n.
Proof. intros Hn. unfold lenZ. rewrite bits_of_length. lia. Qed.

Lemma word_fold_bits_of_aux k v : forall a,
  fold_left (fun a (b : bool) => 2 * a + (if b then 1 else 0)) (bits_of_aux k v) a
  = a * 2 ^ Z.of_nat k + v mod 2 ^ Z.of_nat k.
Proof.
  induction k as [|k IH]; intros a.
  - cbn [bits_of_aux fold_left]. change (Z.of_nat 0) with 0.
    rewrite Z.pow_0_r, Z.mod_1_r. ring.
  - cbn [bits_of_aux fold_left]. rewrite IH.
    rewrite Nat2Z.inj_succ, Z.pow_succ_r by apply Nat2Z.is_nonneg.
    assert (Hp : 0 < 2 ^ Z.of_nat k) by (apply Z.pow_pos_nonneg; [reflexivity | apply Nat2Z.is_nonneg]).
    rewrite (Z.mul_comm 2 (2 ^ Z.of_nat k)).
    rewrite Z.rem_mul_r by (try apply Z.neq_sym, Z.lt_neq, Hp; reflexivity).
    pose proof (Z.testbit_spec' v (Z.of_nat k) (Nat2Z.is_nonneg k)) as Hb.
    rewrite <- Hb.
    destruct (Z.testbit v (Z.of_nat k)); cbn [Z.b2z]; ring.
Qed.

Lemma word_of_bits_of_mod v n : 0 <= n -> word_of (bits_of v n) = v mod 2 ^ n.
Proof.
  intros Hn. unfold word_of, bits_of. rewrite word_fold_bits_of_aux.
  rewrite Z2Nat.id by exact Hn. ring.
Qed.

Lemma word_of_bits_of v n : 0 <= n -> 0 <= v < 2 ^ n -> word_of (bits_of v n) = v.
Proof. intros Hn Hv. rewrite word_of_bits_of_mod by exact Hn. apply Z.mod_small, Hv. Qed.

Lemma take_bits_of v n rest :
  0 <= n -> 0 <= v < 2 ^ n -> take n (bits_of v n ++ rest) = Some (v, rest).
Proof.
  intros Hn Hv. unfold take.
  rewrite lenZ_app, lenZ_bits_of by exact Hn.
  pose proof (lenZ_nonneg rest) as Hr.
  destruct (n + lenZ rest <? n) eqn:E; [lia|].
  rewrite firstn_exact by apply bits_of_length.
  rewrite skipn_exact by apply bits_of_length.
  rewrite word_of_bits_of by assumption. reflexivity.
Qed.
Print Assumptions take_bits_of.

(* ------------------------------------------------------------------------------------------ *)
(* 2. numeric                                                                                 *)
(* ------------------------------------------------------------------------------------------ *)
Lemma int_of_digits_1 a : int_of_digits [a] = a - 48.
Proof. unfold int_of_digits. cbn [fold_left]. lia. Qed.
Lemma int_of_digits_2 a b : int_of_digits [a; b] = 10 * (a - 48) + (b - 48).
Proof. unfold int_of_digits. cbn [fold_left]. lia. Qed.
Lemma int_of_digits_3 a b c : int_of_digits [a; b; c] = 100 * (a - 48) + 10 * (b - 48) + (c - 48).
Proof. unfold int_of_digits. cbn [fold_left]. lia. Qed.

Lemma pack_numeric_nil f : pack_numeric f [] = [].
Proof. destruct f; reflexivity. Qed.
Lemma pack_numeric_1 f a : pack_numeric (S f) [a] = bits_of (int_of_digits [a]) 4.
Proof. cbn [pack_numeric firstn skipn]. rewrite pack_numeric_nil, app_nil_r. reflexivity. Qed.
Lemma pack_numeric_2 f a b : pack_numeric (S f) [a; b] = bits_of (int_of_digits [a; b]) 7.
Proof. cbn [pack_numeric firstn skipn]. rewrite pack_numeric_nil, app_nil_r. reflexivity. Qed.
Lemma pack_numeric_3 f a b c r :
  pack_numeric (S f) (a :: b :: c :: r) = bits_of (int_of_digits [a; b; c]) 10 ++ pack_numeric f r.
Proof. reflexivity. Qed.

(* the fuel of the packer is irrelevant once it exceeds the length *)
Lemma pack_numeric_fuel : forall data f g,
  (List.length data < f)%nat -> (List.length data < g)%nat -> pack_numeric f data = pack_numeric g data.
Proof.
  induction data as [|a|a b|a b c r IH] using list_ind3; intros f g Hf Hg.
  - now rewrite !pack_numeric_nil.
  - destruct f as [|f], g as [|g]; cbn [List.length] in Hf, Hg; try lia. now rewrite !pack_numeric_1.
  - destruct f as [|f], g as [|g]; cbn [List.length] in Hf, Hg; try lia. now rewrite !pack_numeric_2.
  - destruct f as [|f], g as [|g]; cbn [List.length] in Hf, Hg; try lia.
    rewrite !pack_numeric_3. f_equal. apply IH; lia.
Qed.

Lemma pack_numeric_fuel_std data f :
  (List.length data < f)%nat -> pack_numeric f data = pack_numeric (S (List.length data)) data.
Proof. intros Hf. apply pack_numeric_fuel; lia. Qed.

Lemma read_numeric_0 f bs : read_numeric (S f) 0 bs = Some ([], bs).
Proof. reflexivity. Qed.

Lemma read_numeric_1 f a bs : 48 <= a <= 57 ->
  read_numeric (S (S f)) 1 (bits_of (int_of_digits [a]) 4 ++ bs) = Some ([a], bs).
Proof.
  intros Ha. rewrite int_of_digits_1.
  remember (a - 48) as v eqn:Ev.
  cbn [read_numeric].
  change (1 <=? 0) with false. change (Z.min 1 3) with 1. change (3 * 1 + 1) with 4.
  change (1 - 1) with 0. change (0 <=? 0) with true.
  change (1 =? 3) with false. change (1 =? 2) with false. cbv iota.
  rewrite take_bits_of by lia.
  destruct (10 <=? v) eqn:E; [lia|].
  replace (48 + v) with a by lia. reflexivity.
Qed.

Lemma read_numeric_2 f a b bs : 48 <= a <= 57 -> 48 <= b <= 57 ->
  read_numeric (S (S f)) 2 (bits_of (int_of_digits [a; b]) 7 ++ bs) = Some ([a; b], bs).
Proof.
  intros Ha Hb. rewrite int_of_digits_2.
  remember (10 * (a - 48) + (b - 48)) as v eqn:Ev.
  cbn [read_numeric].
  change (2 <=? 0) with false. change (Z.min 2 3) with 2. change (3 * 2 + 1) with 7.
  change (2 - 2) with 0. change (0 <=? 0) with true.
  change (2 =? 3) with false. change (2 =? 2) with true. cbv iota.
  rewrite take_bits_of by lia.
  destruct (100 <=? v) eqn:E; [lia|].
  replace (48 + v / 10) with a by lia.
  replace (48 + v mod 10) with b by lia. reflexivity.
Qed.

Lemma read_numeric_3 f n a b c bs :
  0 <= n -> 48 <= a <= 57 -> 48 <= b <= 57 -> 48 <= c <= 57 ->
  read_numeric (S f) (n + 3) (bits_of (int_of_digits [a; b; c]) 10 ++ bs) =
  match read_numeric f n bs with Some (t, r') => Some (a :: b :: c :: t, r') | None => None end.
Proof.
  intros Hn Ha Hb Hc. rewrite int_of_digits_3.
  remember (100 * (a - 48) + 10 * (b - 48) + (c - 48)) as v eqn:Ev.
  cbn [read_numeric].
  destruct (n + 3 <=? 0) eqn:E1; [lia|].
  replace (Z.min (n + 3) 3) with 3 by lia.
  change (3 * 3 + 1) with 10. change (3 =? 3) with true. cbv iota.
  rewrite take_bits_of by lia.
  destruct (1000 <=? v) eqn:E2; [lia|].
  replace (n + 3 - 3) with n by lia.
  replace (48 + v / 100) with a by lia.
  replace (48 + v / 10 mod 10) with b by lia.
  replace (48 + v mod 10) with c by lia.
  reflexivity.
Qed.

Lemma numeric_roundtrip_gen : forall data,
  Forall (fun d => 48 <= d <= 57) data ->
  forall fp fr rest, (List.length data < fp)%nat -> (List.length data < fr)%nat ->
  read_numeric fr (lenZ data) (pack_numeric fp data ++ rest) = Some (data, rest).
Proof.
  induction data as [|a|a b|a b c r IH] using list_ind3; intros HF fp fr rest Hp Hr.
  - destruct fr as [|fr]; [cbn [List.length] in Hr; lia|]. rewrite pack_numeric_nil. reflexivity.
  - apply Forall_cons_iff in HF as [Ha _].
    destruct fp as [|fp]; [cbn [List.length] in Hp; lia|].
    destruct fr as [|[|fr]]; cbn [List.length] in Hr; try lia.
    rewrite pack_numeric_1. change (lenZ [a]) with 1. now apply read_numeric_1.
  - apply Forall_cons_iff in HF as [Ha HF]. apply Forall_cons_iff in HF as [Hb _].
    destruct fp as [|fp]; [cbn [List.length] in Hp; lia|].
    destruct fr as [|[|fr]]; cbn [List.length] in Hr; try lia.
    rewrite pack_numeric_2. change (lenZ [a; b]) with 2. now apply read_numeric_2.
  - apply Forall_cons_iff in HF as [Ha HF]. apply Forall_cons_iff in HF as [Hb HF].
    apply Forall_cons_iff in HF as [Hc HF].
    destruct fp as [|fp]; [cbn [List.length] in Hp; lia|].
    destruct fr as [|fr]; cbn [List.length] in Hp, Hr; try lia.
    rewrite pack_numeric_3, <- app_assoc.
    replace (lenZ (a :: b :: c :: r)) with (lenZ r + 3) by (rewrite !lenZ_cons; lia).
    rewrite read_numeric_3 by (try apply lenZ_nonneg; assumption).
    rewrite IH by (try assumption; lia). reflexivity.
Qed.

Theorem numeric_roundtrip : forall data rest,
  Forall (fun d => 48 <= d <= 57) data ->
  read_payload DNumeric (lenZ data) (pack_numeric (S (List.length data)) data ++ rest) = Some (data, rest).
Proof.
  intros data rest HF. unfold read_payload.
  apply numeric_roundtrip_gen; [exact HF | lia | unfold lenZ; lia].
Qed.
Print Assumptions numeric_roundtrip.

Lemma payload_bits_numeric n :
  payload_bits 1 n = 10 * (n / 3) + (if n mod 3 =? 0 then 0 else if n mod 3 =? 1 then 4 else 7).
Proof. reflexivity. Qed.

Lemma numeric_length_gen : forall data f,
  (List.length data < f)%nat -> lenZ (pack_numeric f data) = payload_bits 1 (lenZ data).
Proof.
  induction data as [|a|a b|a b c r IH] using list_ind3; intros f Hf.
  - rewrite pack_numeric_nil. reflexivity.
  - destruct f as [|f]; [cbn [List.length] in Hf; lia|]. rewrite pack_numeric_1, lenZ_bits_of by lia. reflexivity.
  - destruct f as [|f]; [cbn [List.length] in Hf; lia|]. rewrite pack_numeric_2, lenZ_bits_of by lia. reflexivity.
  - destruct f as [|f]; cbn [List.length] in Hf; [lia|].
    rewrite pack_numeric_3, lenZ_app, lenZ_bits_of, IH by lia.
    replace (lenZ (a :: b :: c :: r)) with (lenZ r + 3) by (rewrite !lenZ_cons; lia).
    pose proof (lenZ_nonneg r) as Hr. rewrite !payload_bits_numeric.
    replace ((lenZ r + 3) mod 3) with (lenZ r mod 3) by lia.
    replace ((lenZ r + 3) / 3) with (lenZ r / 3 + 1) by lia. ring.
Qed.

Theorem numeric_length : forall data,
  lenZ (pack_numeric (S (List.length data)) data) = payload_bits 1 (lenZ data).
Proof. intros data. apply numeric_length_gen. lia. Qed.
Print Assumptions numeric_length.

(* ------------------------------------------------------------------------------------------ *)
(* 3. alphanumeric                                                                            *)
(* ------------------------------------------------------------------------------------------ *)
Lemma alnum_fin :
  forallb (fun b => (0 <=? alnum_val b) && (alnum_val b <? 45) && (alnum_char (alnum_val b) =? b))
          ALPHANUMERIC_CHARS = true.
Proof. vm_compute. reflexivity. Qed.

Lemma alnum_val_ok b : In b ALPHANUMERIC_CHARS -> 0 <= alnum_val b < 45 /\ alnum_char (alnum_val b) = b.
Proof.
  intros Hin. pose proof (proj1 (forallb_forall _ _) alnum_fin b Hin) as F. cbv beta in F.
  apply andb_prop in F as [F1 F3]. apply andb_prop in F1 as [F1 F2]. lia.
Qed.

(* the two ways of saying "b is one of the 45 characters" agree *)
Lemma is_alnum_char_In b : is_alnum_char b = true <-> In b ALPHANUMERIC_CHARS.
Proof.
  unfold is_alnum_char, alnum_index. generalize 0. generalize ALPHANUMERIC_CHARS.
  induction l as [|c l IH]; intros k.
  - split; [discriminate | intros []].
  - destruct (c =? b) eqn:E.
    + split; [intros _; left; lia | reflexivity].
    + rewrite IH. split; [now right | intros [H|H]; [lia | exact H]].
Qed.

Lemma pack_alnum_1 a : pack_alnum [a] = bits_of (alnum_val a) 6.
Proof. reflexivity. Qed.
Lemma pack_alnum_2 a b r :
  pack_alnum (a :: b :: r) = bits_of (alnum_val a * 45 + alnum_val b) 11 ++ pack_alnum r.
Proof. reflexivity. Qed.

Lemma read_alnum_0 f bs : read_alnum (S f) 0 bs = Some ([], bs).
Proof. reflexivity. Qed.

Lemma read_alnum_1 f x bs : 0 <= x < 45 ->
  read_alnum (S f) 1 (bits_of x 6 ++ bs) = Some ([alnum_char x], bs).
Proof.
  intros Hx. cbn [read_alnum].
  change (1 <=? 0) with false. change (2 <=? 1) with false. cbv iota.
  rewrite take_bits_of by lia.
  destruct (45 <=? x) eqn:E; [lia|]. reflexivity.
Qed.

Lemma read_alnum_2 f n x y bs : 0 <= n -> 0 <= x < 45 -> 0 <= y < 45 ->
  read_alnum (S f) (n + 2) (bits_of (x * 45 + y) 11 ++ bs) =
  match read_alnum f n bs with
  | Some (t, r') => Some (alnum_char x :: alnum_char y :: t, r') | None => None end.
Proof.
  intros Hn Hx Hy.
  remember (x * 45 + y) as v eqn:Ev.
  cbn [read_alnum].
  destruct (n + 2 <=? 0) eqn:E1; [lia|].
  destruct (2 <=? n + 2) eqn:E2; [|lia].
  rewrite take_bits_of by lia.
  destruct (45 * 45 <=? v) eqn:E3; [lia|].
  replace (n + 2 - 2) with n by lia.
  replace (v / 45) with x by lia.
  replace (v mod 45) with y by lia.
  reflexivity.
Qed.

Lemma alnum_roundtrip_gen : forall data,
  Forall (fun b => In b ALPHANUMERIC_CHARS) data ->
  forall fr rest, (List.length data < fr)%nat ->
  read_alnum fr (lenZ data) (pack_alnum data ++ rest) = Some (data, rest).
Proof.
  induction data as [|a|a b r IH] using list_ind2; intros HF fr rest Hr.
  - destruct fr as [|fr]; [cbn [List.length] in Hr; lia|]. reflexivity.
  - apply Forall_cons_iff in HF as [Ha _]. apply alnum_val_ok in Ha as [Ha1 Ha2].
    destruct fr as [|fr]; [cbn [List.length] in Hr; lia|].
    rewrite pack_alnum_1. change (lenZ [a]) with 1. rewrite read_alnum_1 by exact Ha1.
    now rewrite Ha2.
  - apply Forall_cons_iff in HF as [Ha HF]. apply Forall_cons_iff in HF as [Hb HF].
    apply alnum_val_ok in Ha as [Ha1 Ha2]. apply alnum_val_ok in Hb as [Hb1 Hb2].
    destruct fr as [|fr]; cbn [List.length] in Hr; [lia|].
    rewrite pack_alnum_2, <- app_assoc.
    replace (lenZ (a :: b :: r)) with (lenZ r + 2) by (rewrite !lenZ_cons; lia).
    rewrite read_alnum_2 by (try apply lenZ_nonneg; assumption).
    rewrite IH by (try assumption; lia). now rewrite Ha2, Hb2.
Qed.

Theorem alnum_roundtrip : forall data rest,
  Forall (fun b => In b ALPHANUMERIC_CHARS) data ->
  read_payload DAlnum (lenZ data) (pack_alnum data ++ rest) = Some (data, rest).
Proof.
  intros data rest HF. unfold read_payload.
  apply alnum_roundtrip_gen; [exact HF | unfold lenZ; lia].
Qed.
Print Assumptions alnum_roundtrip.

Corollary alnum_roundtrip_b : forall data rest,
  forallb is_alnum_char data = true ->
  read_payload DAlnum (lenZ data) (pack_alnum data ++ rest) = Some (data, rest).
Proof.
  intros data rest H. apply alnum_roundtrip. apply Forall_forall. intros b Hb.
  apply is_alnum_char_In. exact (proj1 (forallb_forall _ _) H b Hb).
Qed.

Theorem alnum_length : forall data, lenZ (pack_alnum data) = payload_bits 2 (lenZ data).
Proof.
  induction data as [|a|a b r IH] using list_ind2.
  - reflexivity.
  - rewrite pack_alnum_1, lenZ_bits_of by lia. reflexivity.
  - rewrite pack_alnum_2, lenZ_app, lenZ_bits_of, IH by lia.
    replace (lenZ (a :: b :: r)) with (lenZ r + 2) by (rewrite !lenZ_cons; lia).
    pose proof (lenZ_nonneg r) as Hr.
    change (payload_bits 2 (lenZ r)) with (11 * (lenZ r / 2) + 6 * (lenZ r mod 2)).
    change (payload_bits 2 (lenZ r + 2)) with (11 * ((lenZ r + 2) / 2) + 6 * ((lenZ r + 2) mod 2)).
    replace ((lenZ r + 2) mod 2) with (lenZ r mod 2) by lia.
    replace ((lenZ r + 2) / 2) with (lenZ r / 2 + 1) by lia. ring.
Qed.
Print Assumptions alnum_length.

(* ------------------------------------------------------------------------------------------ *)
(* 4. fixed-width items: byte, and the generic half of kanji / hanzi                          *)
(* ------------------------------------------------------------------------------------------ *)
Lemma read_fixed_roundtrip w (f : Z -> list Z) : 0 <= w ->
  forall vs fuel rest, (List.length vs < fuel)%nat -> Forall (fun v => 0 <= v < 2 ^ w) vs ->
  read_fixed fuel (lenZ vs) w f (flat_map (fun v => bits_of v w) vs ++ rest) = Some (flat_map f vs, rest).
Proof.
  intros Hw. induction vs as [|v vs IH]; intros fuel rest Hf HF.
  - destruct fuel as [|fuel]; [cbn [List.length] in Hf; lia|]. reflexivity.
  - apply Forall_cons_iff in HF as [Hv HF].
    destruct fuel as [|fuel]; cbn [List.length] in Hf; [lia|].
    cbn [read_fixed flat_map]. rewrite <- app_assoc.
    pose proof (lenZ_nonneg vs) as Hn. rewrite lenZ_cons.
    destruct (lenZ vs + 1 <=? 0) eqn:E; [lia|].
    rewrite take_bits_of by assumption.
    replace (lenZ vs + 1 - 1) with (lenZ vs) by lia.
    rewrite IH by (try assumption; lia). reflexivity.
Qed.

Lemma fixed_length w : 0 <= w -> forall vs, lenZ (flat_map (fun v => bits_of v w) vs) = w * lenZ vs.
Proof.
  intros Hw. induction vs as [|v vs IH]; [cbn [flat_map]; unfold lenZ; cbn [List.length]; lia|].
  cbn [flat_map]. rewrite lenZ_app, lenZ_bits_of, IH, lenZ_cons by exact Hw. ring.
Qed.

Lemma flat_map_singleton (l : list Z) : flat_map (fun v => [v]) l = l.
Proof. induction l as [|a l IH]; cbn [flat_map app]; [reflexivity | now rewrite IH]. Qed.

Theorem byte_roundtrip : forall data rest,
  Forall (fun b => 0 <= b < 256) data ->
  read_payload DByte (lenZ data) (flat_map (fun b => bits_of b 8) data ++ rest) = Some (data, rest).
Proof.
  intros data rest HF. unfold read_payload.
  rewrite read_fixed_roundtrip; [now rewrite flat_map_singleton | lia | unfold lenZ; lia |].
  change (2 ^ 8) with 256. exact HF.
Qed.
Print Assumptions byte_roundtrip.

Theorem byte_length : forall data : list Z,
  lenZ (flat_map (fun b => bits_of b 8) data) = payload_bits 4 (lenZ data).
Proof. intros data. rewrite fixed_length by lia. reflexivity. Qed.
Lemma payload_bits_byte n : payload_bits 4 n = 8 * n.
Proof. reflexivity. Qed.
Print Assumptions byte_length.

(* two-byte modes, generically: a packer that maps every admissible pair to one 13-bit value *)
Section TwoByte.
  Variables (p : Z -> Z -> bool) (val : Z -> Z -> Z) (dec : Z -> list Z) (pack : list Z -> res bits).
  Hypothesis pack_nil : pack [] = Ok [].
  Hypothesis pack_cons : forall hi lo r, p hi lo = true ->
    pack (hi :: lo :: r) = (do rest <- pack r; Ok (bits_of (val hi lo) 13 ++ rest)).
  Hypothesis fin : forall hi lo, 0 <= hi < 256 -> 0 <= lo < 256 -> p hi lo = true ->
    0 <= val hi lo < 8192 /\ dec (val hi lo) = [hi; lo].

  Fixpoint pair_vals (l : list Z) : list Z :=
    match l with hi :: lo :: r => val hi lo :: pair_vals r | _ => [] end.

  Lemma twobyte_main : forall data,
    Forall (fun b => 0 <= b < 256) data -> all_pairs p data = true ->
    pack data = Ok (flat_map (fun v => bits_of v 13) (pair_vals data)) /\
    Forall (fun v => 0 <= v < 2 ^ 13) (pair_vals data) /\
    flat_map dec (pair_vals data) = data /\
    lenZ data = 2 * lenZ (pair_vals data).
  Proof.
    induction data as [|a|hi lo r IH] using list_ind2; intros HF HP.
    - cbn [pair_vals flat_map]. repeat split; [exact pack_nil | constructor].
    - discriminate HP.
    - apply Forall_cons_iff in HF as [Hhi HF]. apply Forall_cons_iff in HF as [Hlo HF].
      cbn [all_pairs] in HP. apply andb_prop in HP as [Hp HP].
      destruct (IH HF HP) as (I1 & I2 & I3 & I4).
      destruct (fin hi lo Hhi Hlo Hp) as [F1 F2].
      cbn [pair_vals flat_map]. repeat split.
      + rewrite pack_cons by exact Hp. rewrite I1. reflexivity.
      + constructor; [change (2 ^ 13) with 8192; exact F1 | exact I2].
      + rewrite F2, I3. reflexivity.
      + rewrite !lenZ_cons. lia.
  Qed.

  Lemma twobyte_roundtrip : forall data,
    Forall (fun b => 0 <= b < 256) data -> all_pairs p data = true ->
    exists bs, pack data = Ok bs /\ lenZ bs = 13 * (lenZ data / 2) /\ lenZ data mod 2 = 0 /\
      forall rest, read_fixed (S (Z.to_nat (lenZ data / 2))) (lenZ data / 2) 13 dec (bs ++ rest)
                   = Some (data, rest).
  Proof.
    intros data HF HP. destruct (twobyte_main data HF HP) as (I1 & I2 & I3 & I4).
    exists (flat_map (fun v => bits_of v 13) (pair_vals data)).
    assert (Hc : lenZ data / 2 = lenZ (pair_vals data)) by lia.
    repeat split.
    - exact I1.
    - rewrite fixed_length by lia. lia.
    - lia.
    - intros rest. rewrite Hc.
      rewrite read_fixed_roundtrip; [now rewrite I3 | lia | unfold lenZ; lia | exact I2].
  Qed.
End TwoByte.

(* ------------------------------------------------------------------------------------------ *)
(* 5. kanji                                                                                   *)
(* ------------------------------------------------------------------------------------------ *)
Definition kanji_val (hi lo : Z) : Z :=
  let code := Z.lor (Z.shiftl hi 8) lo in
  let diff := if (33088 <=? code) && (code <=? 40956) then code - 33088 else code - 49472 in
  Z.shiftr diff 8 * 192 + Z.land diff 255.
(* the 16-bit ranges alone, without the trail byte test of [kanji_pair] *)
Definition kanji_range (hi lo : Z) : bool :=
  let code := Z.lor (Z.shiftl hi 8) lo in
  ((33088 <=? code) && (code <=? 40956)) || ((57408 <=? code) && (code <=? 60351)).

Lemma kanji_fin :
  forallb (fun hi => forallb (fun lo =>
      implb (kanji_pair hi lo)
            ((0 <=? kanji_val hi lo) && (kanji_val hi lo <? 8192)
             && zlist_eqb (kanji_bytes (kanji_val hi lo)) [hi; lo]))
    (zrange 0 256)) (zrange 0 256) = true.
Proof. vm_compute. reflexivity. Qed.

Lemma kanji_fin_lift hi lo : 0 <= hi < 256 -> 0 <= lo < 256 -> kanji_pair hi lo = true ->
  0 <= kanji_val hi lo < 8192 /\ kanji_bytes (kanji_val hi lo) = [hi; lo].
Proof.
  intros Hh Hl Hp.
  pose proof (proj1 (forallb_forall _ _) kanji_fin hi (zrange_In 0 256 hi Hh)) as F. cbv beta in F.
  pose proof (proj1 (forallb_forall _ _) F lo (zrange_In 0 256 lo Hl)) as G. cbv beta in G.
  rewrite Hp in G. cbn [implb] in G.
  apply andb_prop in G as [G1 G3]. apply andb_prop in G1 as [G1 G2].
  apply zlist_eqb_eq in G3. split; [lia | exact G3].
Qed.

Lemma pack_kanji_cons hi lo r : kanji_pair hi lo = true ->
  pack_kanji (hi :: lo :: r) = (do rest <- pack_kanji r; Ok (bits_of (kanji_val hi lo) 13 ++ rest)).
Proof.
  intros Hp. cbn [pack_kanji]. rewrite Hp. cbn [negb].
  unfold kanji_val. unfold kanji_pair in Hp. cbv zeta in Hp |- *.
  remember (Z.lor (Z.shiftl hi 8) lo) as code eqn:Ec.
  revert Hp.
  destruct ((33088 <=? code) && (code <=? 40956)) eqn:R1; [intros _; reflexivity|].
  destruct ((57408 <=? code) && (code <=? 60351)) eqn:R2; [intros _; reflexivity|].
  cbn [orb andb]. discriminate.
Qed.

Theorem kanji_roundtrip : forall data,
  Forall (fun b => 0 <= b < 256) data -> all_pairs kanji_pair data = true ->
  exists bs, pack_kanji data = Ok bs /\ lenZ bs = 13 * (lenZ data / 2) /\ lenZ data mod 2 = 0 /\
    forall rest, read_payload DKanji (lenZ data / 2) (bs ++ rest) = Some (data, rest).
Proof.
  intros data HF HP. unfold read_payload.
  exact (twobyte_roundtrip kanji_pair kanji_val kanji_bytes pack_kanji eq_refl pack_kanji_cons
                           kanji_fin_lift data HF HP).
Qed.
Print Assumptions kanji_roundtrip.

(* The byte hypothesis is needed: [kanji_pair] looks at [hi * 256 | lo] only, so it also accepts
   non-byte "pairs" such as (0, 0x8180), which decode to different bytes. *)
Lemma kanji_roundtrip_needs_bytes :
  exists hi lo, kanji_pair hi lo = true /\ kanji_bytes (kanji_val hi lo) <> [hi; lo].
Proof. exists 0, 33152. split; [vm_compute; reflexivity | vm_compute; discriminate]. Qed.

(* Why [kanji_pair] must test the trail byte: inside the 16-bit ranges 0x8140..0x9FFC / 0xE040..0xEBBF
   the compaction is NOT injective; (0x82, 0x00) is packed to the value of (0x82, 0x40). *)
Lemma kanji_range_not_enough :
  exists hi lo, 0 <= hi < 256 /\ 0 <= lo < 256 /\ kanji_range hi lo = true /\
                kanji_bytes (kanji_val hi lo) <> [hi; lo].
Proof.
  exists 130, 0. split; [lia|]. split; [lia|]. split; [vm_compute; reflexivity | vm_compute; discriminate].
Qed.

(* Exact characterisation over all byte pairs of the 16-bit ranges: the round trip holds iff the trail
   byte is >= 0x40.  (So trail bytes 0x7F and 0xFD..0xFF, which [kanji_pair] also rejects, would still
   round-trip at the bit level; they are excluded because they are not Shift JIS characters.) *)
Lemma kanji_range_fin :
  forallb (fun hi => forallb (fun lo =>
      implb (kanji_range hi lo)
            (Bool.eqb (zlist_eqb (kanji_bytes (kanji_val hi lo)) [hi; lo]) (64 <=? lo)))
    (zrange 0 256)) (zrange 0 256) = true.
Proof. vm_compute. reflexivity. Qed.

Lemma kanji_range_roundtrip_iff hi lo : 0 <= hi < 256 -> 0 <= lo < 256 -> kanji_range hi lo = true ->
  (kanji_bytes (kanji_val hi lo) = [hi; lo] <-> 64 <= lo).
Proof.
  intros Hh Hl Hr.
  pose proof (proj1 (forallb_forall _ _) kanji_range_fin hi (zrange_In 0 256 hi Hh)) as F. cbv beta in F.
  pose proof (proj1 (forallb_forall _ _) F lo (zrange_In 0 256 lo Hl)) as G. cbv beta in G.
  rewrite Hr in G. cbn [implb] in G. apply eqb_prop in G.
  rewrite <- zlist_eqb_eq, G. lia.
Qed.
Print Assumptions kanji_range_roundtrip_iff.

(* on bytes, the model's [kanji_pair] is the specification's [sjis_kanji_pair] *)
Lemma kanji_pair_sjis_fin :
  forallb (fun hi => forallb (fun lo => Bool.eqb (kanji_pair hi lo) (sjis_kanji_pair hi lo))
    (zrange 0 256)) (zrange 0 256) = true.
Proof. vm_compute. reflexivity. Qed.
Lemma kanji_pair_sjis hi lo : 0 <= hi < 256 -> 0 <= lo < 256 -> kanji_pair hi lo = sjis_kanji_pair hi lo.
Proof.
  intros Hh Hl.
  pose proof (proj1 (forallb_forall _ _) kanji_pair_sjis_fin hi (zrange_In 0 256 hi Hh)) as F. cbv beta in F.
  pose proof (proj1 (forallb_forall _ _) F lo (zrange_In 0 256 lo Hl)) as G. cbv beta in G.
  apply eqb_prop in G. exact G.
Qed.

(* ------------------------------------------------------------------------------------------ *)
(* 6. hanzi                                                                                   *)
(* ------------------------------------------------------------------------------------------ *)
(* the condition under which [pack_hanzi] accepts a pair *)
Definition hanzi_pair (hi lo : Z) : bool :=
  let code := Z.lor (Z.shiftl hi 8) lo in
  (161 <=? lo) && (lo <=? 254) &&
  (((41377 <=? code) && (code <=? 43774)) || ((45217 <=? code) && (code <=? 64254))).
Definition hanzi_val (hi lo : Z) : Z :=
  let code := Z.lor (Z.shiftl hi 8) lo in
  let diff := if (41377 <=? code) && (code <=? 43774) then code - 41377 else code - 42657 in
  Z.shiftr diff 8 * 96 + Z.land diff 255.
Definition hanzi_range (hi lo : Z) : bool :=
  let code := Z.lor (Z.shiftl hi 8) lo in
  ((41377 <=? code) && (code <=? 43774)) || ((45217 <=? code) && (code <=? 64254)).

Lemma hanzi_fin :
  forallb (fun hi => forallb (fun lo =>
      implb (hanzi_pair hi lo)
            ((0 <=? hanzi_val hi lo) && (hanzi_val hi lo <? 8192)
             && zlist_eqb (hanzi_bytes (hanzi_val hi lo)) [hi; lo]))
    (zrange 0 256)) (zrange 0 256) = true.
Proof. vm_compute. reflexivity. Qed.

Lemma hanzi_fin_lift hi lo : 0 <= hi < 256 -> 0 <= lo < 256 -> hanzi_pair hi lo = true ->
  0 <= hanzi_val hi lo < 8192 /\ hanzi_bytes (hanzi_val hi lo) = [hi; lo].
Proof.
  intros Hh Hl Hp.
  pose proof (proj1 (forallb_forall _ _) hanzi_fin hi (zrange_In 0 256 hi Hh)) as F. cbv beta in F.
  pose proof (proj1 (forallb_forall _ _) F lo (zrange_In 0 256 lo Hl)) as G. cbv beta in G.
  rewrite Hp in G. cbn [implb] in G.
  apply andb_prop in G as [G1 G3]. apply andb_prop in G1 as [G1 G2].
  apply zlist_eqb_eq in G3. split; [lia | exact G3].
Qed.

Lemma pack_hanzi_cons hi lo r : hanzi_pair hi lo = true ->
  pack_hanzi (hi :: lo :: r) = (do rest <- pack_hanzi r; Ok (bits_of (hanzi_val hi lo) 13 ++ rest)).
Proof.
  intros Hp. cbn [pack_hanzi].
  unfold hanzi_val. unfold hanzi_pair in Hp. cbv zeta in Hp |- *.
  remember (Z.lor (Z.shiftl hi 8) lo) as code eqn:Ec.
  revert Hp.
  destruct ((161 <=? lo) && (lo <=? 254)) eqn:R0; [|cbn [andb]; discriminate].
  cbn [negb andb].
  destruct ((41377 <=? code) && (code <=? 43774)) eqn:R1; [intros _; reflexivity|].
  destruct ((45217 <=? code) && (code <=? 64254)) eqn:R2; [intros _; reflexivity|].
  cbn [orb]. discriminate.
Qed.

(* conversely, [pack_hanzi] rejects every pair that is not a [hanzi_pair] *)
Lemma pack_hanzi_reject hi lo r : hanzi_pair hi lo = false -> pack_hanzi (hi :: lo :: r) = Err ValueError.
Proof.
  intros Hp. cbn [pack_hanzi]. unfold hanzi_pair in Hp. cbv zeta in Hp.
  remember (Z.lor (Z.shiftl hi 8) lo) as code eqn:Ec.
  revert Hp.
  destruct ((161 <=? lo) && (lo <=? 254)) eqn:R0; [|reflexivity].
  cbn [negb andb].
  destruct ((41377 <=? code) && (code <=? 43774)) eqn:R1; [cbn [orb]; discriminate|].
  destruct ((45217 <=? code) && (code <=? 64254)) eqn:R2; [cbn [orb]; discriminate|].
  reflexivity.
Qed.

Theorem hanzi_roundtrip : forall data,
  Forall (fun b => 0 <= b < 256) data -> all_pairs hanzi_pair data = true ->
  exists bs, pack_hanzi data = Ok bs /\ lenZ bs = 13 * (lenZ data / 2) /\ lenZ data mod 2 = 0 /\
    forall rest, read_payload DHanzi (lenZ data / 2) (bs ++ rest) = Some (data, rest).
Proof.
  intros data HF HP. unfold read_payload.
  exact (twobyte_roundtrip hanzi_pair hanzi_val hanzi_bytes pack_hanzi eq_refl pack_hanzi_cons
                           hanzi_fin_lift data HF HP).
Qed.
Print Assumptions hanzi_roundtrip.

(* as for kanji, the 16-bit ranges alone do not make the compaction injective: (0xB1, 0x01) -> 0xB1A1 *)
Lemma hanzi_range_not_enough :
  exists hi lo, 0 <= hi < 256 /\ 0 <= lo < 256 /\ hanzi_range hi lo = true /\
                hanzi_bytes (hanzi_val hi lo) <> [hi; lo].
Proof.
  exists 177, 1. split; [lia|]. split; [lia|]. split; [vm_compute; reflexivity | vm_compute; discriminate].
Qed.

(* 13 bits per character, as the specification counts them *)
Lemma payload_bits_13 mode n : mode = 8 \/ mode = 13 -> payload_bits mode n = 13 * n.
Proof. intros [->| ->]; reflexivity. Qed.

(* ------------------------------------------------------------------------------------------ *)
(* 7. merging (Segments.add_segment): packing commutes with concatenation at a group boundary *)
(* ------------------------------------------------------------------------------------------ *)
Lemma pack_numeric_app_gen : forall d1 d2 f f1 f2,
  lenZ d1 mod 3 = 0 ->
  (List.length (d1 ++ d2) < f)%nat -> (List.length d1 < f1)%nat -> (List.length d2 < f2)%nat ->
  pack_numeric f (d1 ++ d2) = pack_numeric f1 d1 ++ pack_numeric f2 d2.
Proof.
  induction d1 as [|a|a b|a b c r IH] using list_ind3; intros d2 f f1 f2 Hm Hf Hf1 Hf2.
  - rewrite pack_numeric_nil. cbn [app] in *. apply pack_numeric_fuel; assumption.
  - exfalso. vm_compute in Hm. discriminate Hm.
  - exfalso. vm_compute in Hm. discriminate Hm.
  - rewrite !lenZ_cons in Hm. cbn [app List.length] in Hf, Hf1 |- *.
    destruct f as [|f]; [lia|]. destruct f1 as [|f1]; [lia|].
    rewrite !pack_numeric_3, <- app_assoc. f_equal. apply IH; lia.
Qed.

Theorem pack_numeric_app : forall d1 d2,
  lenZ d1 mod 3 = 0 ->
  pack_numeric (S (List.length (d1 ++ d2))) (d1 ++ d2)
  = pack_numeric (S (List.length d1)) d1 ++ pack_numeric (S (List.length d2)) d2.
Proof. intros d1 d2 Hm. apply pack_numeric_app_gen; [exact Hm | lia | lia | lia]. Qed.
Print Assumptions pack_numeric_app.

(* without the hypothesis the equality fails: "12" + "3" is two groups (7 + 4 bits), "123" one (10 bits) *)
Lemma pack_numeric_app_counterexample :
  let d1 := [49; 50] in let d2 := [51] in
  pack_numeric (S (List.length (d1 ++ d2))) (d1 ++ d2)
  <> pack_numeric (S (List.length d1)) d1 ++ pack_numeric (S (List.length d2)) d2.
Proof. vm_compute. discriminate. Qed.

Theorem pack_alnum_app : forall d1 d2,
  lenZ d1 mod 2 = 0 -> pack_alnum (d1 ++ d2) = pack_alnum d1 ++ pack_alnum d2.
Proof.
  induction d1 as [|a|a b r IH] using list_ind2; intros d2 Hm.
  - reflexivity.
  - exfalso. vm_compute in Hm. discriminate Hm.
  - rewrite !lenZ_cons in Hm. cbn [app]. rewrite !pack_alnum_2, <- app_assoc. f_equal. apply IH. lia.
Qed.
Print Assumptions pack_alnum_app.

Lemma pack_alnum_app_counterexample :
  pack_alnum ([65] ++ [66]) <> pack_alnum [65] ++ pack_alnum [66].
Proof. vm_compute. discriminate. Qed.

Theorem pack_byte_app : forall d1 d2 : list Z,
  flat_map (fun b => bits_of b 8) (d1 ++ d2)
  = flat_map (fun b => bits_of b 8) d1 ++ flat_map (fun b => bits_of b 8) d2.
Proof. intros d1 d2. apply flat_map_app. Qed.
Print Assumptions pack_byte_app.

Theorem pack_kanji_app : forall d1 d2,
  lenZ d1 mod 2 = 0 ->
  pack_kanji (d1 ++ d2) = (do b1 <- pack_kanji d1; do b2 <- pack_kanji d2; Ok (b1 ++ b2)).
Proof.
  induction d1 as [|a|hi lo r IH] using list_ind2; intros d2 Hm.
  - cbn [app pack_kanji bind]. destruct (pack_kanji d2); reflexivity.
  - exfalso. vm_compute in Hm. discriminate Hm.
  - rewrite !lenZ_cons in Hm. cbn [app pack_kanji].
    destruct (negb (kanji_pair hi lo)); [reflexivity|].
    match goal with |- context [bind ?X _] =>
      match X with (if _ then _ else _) => destruct X as [diff|e] end end; [|reflexivity].
    cbn [bind]. rewrite IH by lia.
    destruct (pack_kanji r) as [b1|e]; [|reflexivity]. cbn [bind].
    destruct (pack_kanji d2) as [b2|e]; [|reflexivity]. cbn [bind].
    now rewrite app_assoc.
Qed.
Print Assumptions pack_kanji_app.

Theorem pack_hanzi_app : forall d1 d2,
  lenZ d1 mod 2 = 0 ->
  pack_hanzi (d1 ++ d2) = (do b1 <- pack_hanzi d1; do b2 <- pack_hanzi d2; Ok (b1 ++ b2)).
Proof.
  induction d1 as [|a|hi lo r IH] using list_ind2; intros d2 Hm.
  - cbn [app pack_hanzi bind]. destruct (pack_hanzi d2); reflexivity.
  - exfalso. vm_compute in Hm. discriminate Hm.
  - rewrite !lenZ_cons in Hm. cbn [app pack_hanzi].
    destruct (negb ((161 <=? lo) && (lo <=? 254))); [reflexivity|].
    match goal with |- context [bind ?X _] =>
      match X with (if _ then _ else _) => destruct X as [diff|e] end end; [|reflexivity].
    cbn [bind]. rewrite IH by lia.
    destruct (pack_hanzi r) as [b1|e]; [|reflexivity]. cbn [bind].
    destruct (pack_hanzi d2) as [b2|e]; [|reflexivity]. cbn [bind].
    now rewrite app_assoc.
Qed.
Print Assumptions pack_hanzi_app.

(* a successful two-byte packing has even length *)
Lemma pack_kanji_ok_even : forall d bs, pack_kanji d = Ok bs -> lenZ d mod 2 = 0.
Proof.
  induction d as [|a|hi lo r IH] using list_ind2; intros bs H.
  - reflexivity.
  - discriminate H.
  - rewrite !lenZ_cons. cbn [pack_kanji] in H.
    destruct (negb (kanji_pair hi lo)); [discriminate H|].
    match type of H with context [bind ?X _] =>
      match X with (if _ then _ else _) => destruct X as [diff|e] end end; [|discriminate H].
    cbn [bind] in H. destruct (pack_kanji r) as [b1|e]; [|discriminate H].
    specialize (IH b1 eq_refl). lia.
Qed.
Lemma pack_hanzi_ok_even : forall d bs, pack_hanzi d = Ok bs -> lenZ d mod 2 = 0.
Proof.
  induction d as [|a|hi lo r IH] using list_ind2; intros bs H.
  - reflexivity.
  - discriminate H.
  - rewrite !lenZ_cons. cbn [pack_hanzi] in H.
    destruct (negb ((161 <=? lo) && (lo <=? 254))); [discriminate H|].
    match type of H with context [bind ?X _] =>
      match X with (if _ then _ else _) => destruct X as [diff|e] end end; [|discriminate H].
    cbn [bind] in H. destruct (pack_hanzi r) as [b1|e]; [|discriminate H].
    specialize (IH b1 eq_refl). lia.
Qed.

(* The packing step of [make_segment], by mode, and the merge rule of [add_segment] in one statement:
   when [add_segment] merges (same mode, count of the previous segment at a group boundary), the
   concatenated bits are the packing of the concatenated data. *)
Definition pack_mode (smode : Z) (data : list Z) : res bits :=
  if smode =? MODE_NUMERIC then Ok (pack_numeric (S (List.length data)) data)
  else if smode =? MODE_ALPHANUMERIC then Ok (pack_alnum data)
  else if smode =? MODE_BYTE then Ok (flat_map (fun b => bits_of b 8) data)
  else if smode =? MODE_HANZI then pack_hanzi data
  else pack_kanji data.
Definition count_mode (smode : Z) (data : list Z) : Z :=
  if (smode =? MODE_KANJI) || (smode =? MODE_HANZI) then lenZ data / 2 else lenZ data.

Theorem merge_pack : forall mode d1 d2 b1 b2,
  pack_mode mode d1 = Ok b1 -> pack_mode mode d2 = Ok b2 ->
  count_mode mode d1 mod merge_group mode = 0 ->
  pack_mode mode (d1 ++ d2) = Ok (b1 ++ b2).
Proof.
  intros mode d1 d2 b1 b2 H1 H2 Hm.
  unfold pack_mode, count_mode, merge_group in *.
  destruct (mode =? MODE_NUMERIC) eqn:E1.
  { assert (mode = 1) as -> by (unfold MODE_NUMERIC in E1; lia).
    change ((1 =? MODE_KANJI) || (1 =? MODE_HANZI)) with false in Hm. cbv iota in Hm.
    injection H1 as <-. injection H2 as <-. now rewrite pack_numeric_app. }
  destruct (mode =? MODE_ALPHANUMERIC) eqn:E2.
  { assert (mode = 2) as -> by (unfold MODE_ALPHANUMERIC in E2; lia).
    change ((2 =? MODE_KANJI) || (2 =? MODE_HANZI)) with false in Hm. cbv iota in Hm.
    injection H1 as <-. injection H2 as <-. now rewrite pack_alnum_app. }
  destruct (mode =? MODE_BYTE) eqn:E3.
  { injection H1 as <-. injection H2 as <-. now rewrite pack_byte_app. }
  destruct (mode =? MODE_HANZI) eqn:E4.
  { rewrite pack_hanzi_app by (eapply pack_hanzi_ok_even; exact H1). now rewrite H1, H2. }
  rewrite pack_kanji_app by (eapply pack_kanji_ok_even; exact H1). now rewrite H1, H2.
Qed.
Print Assumptions merge_pack.

(* [make_segment] produces exactly [pack_mode] / [count_mode] of the bytes of the content *)
Lemma make_segment_pack c mode encoding s :
  make_segment c mode encoding = Ok s ->
  exists data senc,
    data_to_bytes c (if oz_eqb mode (Some MODE_HANZI) then Some enc_gb2312 else encoding) = Ok (data, senc) /\
    pack_mode (s_mode s) data = Ok (s_bits s) /\ s_count s = count_mode (s_mode s) data.
Proof.
  unfold make_segment. intros H.
  destruct (data_to_bytes c _) as [[data senc]|e]; [|discriminate H].
  cbn [bind] in H.
  match type of H with context [bind ?X _] =>
    match X with (match mode with _ => _ end) => destruct X as [smode|e] end end; [|discriminate H].
  cbn [bind] in H.
  match type of H with (if ?b then _ else _) = _ => destruct b end; [discriminate H|].
  fold (pack_mode smode data) in H.
  destruct (pack_mode smode data) as [bs|e] eqn:Epk; [|discriminate H].
  cbn [bind] in H. injection H as <-. cbn [s_mode s_bits s_count].
  exists data, senc. repeat split. exact Epk.
Qed.

(* and [add_segment] on two such segments that it decides to merge *)
Theorem add_segment_merge : forall prev s rest d1 d2,
  pack_mode (s_mode prev) d1 = Ok (s_bits prev) -> s_count prev = count_mode (s_mode prev) d1 ->
  pack_mode (s_mode s) d2 = Ok (s_bits s) -> s_count s = count_mode (s_mode s) d2 ->
  ((s_mode prev =? s_mode s) && oenc_eqb (s_enc prev) (s_enc s)
     && (s_count prev mod merge_group (s_mode s) =? 0)) = true ->
  exists m, add_segment (prev :: rest) s = m :: rest /\
    s_mode m = s_mode s /\ s_enc m = s_enc s /\
    pack_mode (s_mode m) (d1 ++ d2) = Ok (s_bits m) /\
    (lenZ d1 mod 2 = 0 \/ ((s_mode s =? MODE_KANJI) || (s_mode s =? MODE_HANZI)) = false ->
     s_count m = count_mode (s_mode m) (d1 ++ d2)).
Proof.
  intros prev s rest d1 d2 P1 C1 P2 C2 Hc.
  cbn [add_segment]. rewrite Hc.
  apply andb_prop in Hc as [Hc Hg]. apply andb_prop in Hc as [Hmode _].
  assert (Em : s_mode prev = s_mode s) by lia. rewrite Em in *.
  eexists. split; [reflexivity|]. cbn [s_mode s_enc s_bits s_count].
  repeat split.
  - apply merge_pack; [exact P1 | exact P2 | rewrite <- C1; lia].
  - intros He. rewrite C1, C2. unfold count_mode. rewrite lenZ_app.
    destruct ((s_mode s =? MODE_KANJI) || (s_mode s =? MODE_HANZI)); [|reflexivity].
    destruct He as [He|He]; [lia | discriminate He].
Qed.
Print Assumptions add_segment_merge.

(* ------------------------------------------------------------------------------------------ *)
(* 8. examples, one per mode                                                                  *)
(* ------------------------------------------------------------------------------------------ *)
Example ex_numeric :   (* "01234567", ISO 7.4.3 *)
  let data := [48; 49; 50; 51; 52; 53; 54; 55] in
  read_payload DNumeric 8 (pack_numeric (S (List.length data)) data ++ [true; false])
  = Some (data, [true; false]).
Proof. vm_compute. reflexivity. Qed.

Example ex_alnum :     (* "AC-42", ISO 7.4.4 *)
  let data := [65; 67; 45; 52; 50] in
  read_payload DAlnum 5 (pack_alnum data ++ [true; false]) = Some (data, [true; false]).
Proof. vm_compute. reflexivity. Qed.

Example ex_byte :
  let data := [0; 255; 128; 65] in
  read_payload DByte 4 (flat_map (fun b => bits_of b 8) data ++ [true; false]) = Some (data, [true; false]).
Proof. vm_compute. reflexivity. Qed.

Example ex_kanji :     (* 0x935F 0xE4AA, ISO 7.4.6 *)
  let data := [147; 95; 228; 170] in
  match pack_kanji data with
  | Ok bs => read_payload DKanji 2 (bs ++ [true; false])
  | Err _ => None end = Some (data, [true; false]).
Proof. vm_compute. reflexivity. Qed.

Example ex_hanzi :     (* 0xB0A1 0xA1A1 0xFAFE *)
  let data := [176; 161; 161; 161; 250; 254] in
  match pack_hanzi data with
  | Ok bs => read_payload DHanzi 3 (bs ++ [true; false])
  | Err _ => None end = Some (data, [true; false]).
Proof. vm_compute. reflexivity. Qed.
